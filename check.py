#!/usr/bin/env python3
"""check.py — one entry point for every property check.

    python3 check.py C01 [--tier quick|thorough] [--replay FILE]

Steps (all from /repo's current working tree):
  1. regenerate Lean tables from the headers (gen/extract_tables.py)
  2. lake build (models, proofs, driver) + audit (#print axioms, forbidden-token grep)
  3. compile the harness TUs of the property against /repo/include
  4. replay corpus, run the tier's streams through harness | uvdriver
  5. classify, write evidence/<id>.json, print VIOLATION / KNOWN-FINDING lines
"""
import argparse, concurrent.futures as cf, hashlib, json, os, re, shutil, subprocess, sys, time

HERE = os.path.dirname(os.path.abspath(__file__))
REPO = os.environ.get("UV_REPO", "/repo")
LEAN = os.path.join(HERE, "lean")
BUILD = os.path.join(HERE, "build")
if os.path.realpath(REPO) != "/repo":
    # a run against another tree (seeded change, mutation test) must not overwrite the binaries of a run against /repo
    BUILD = os.path.join(HERE, "build", "alt-" + hashlib.sha1(os.path.realpath(REPO).encode()).hexdigest()[:10])
HARNESS = os.path.join(HERE, "harness")
EVID = os.path.join(HERE, "evidence")
REPLAYS = os.path.join(HERE, "replays")
CORPUS = os.path.join(HERE, "corpus")
DRIVER = os.path.join(LEAN, ".lake", "build", "bin", "uvdriver")
GUARD = "UNIVERSAL_VERIF_HOOKS"
NCPU = int(os.environ.get("UV_JOBS", 0)) or os.cpu_count() or 4

sys.path.insert(0, HERE)
import props as P  # noqa: E402

ALLOWED_AXIOMS = {"propext", "Classical.choice", "Quot.sound"}
FORBIDDEN = re.compile(r"\bsorry\b|\badmit\b|^\s*axiom\s|native_decide|bv_decide|implemented_by|\bunsafe\s|maxHeartbeats\s+0")


def sh(cmd, **kw):
    return subprocess.run(cmd, stdout=subprocess.PIPE, stderr=subprocess.STDOUT, text=True, **kw)


# ----------------------------------------------------------------------------------------------
# step 1/2: tables, lake build, audit

def regen_tables(log):
    gen = os.path.join(HERE, "gen", "extract_tables.py")
    if os.path.exists(gen):
        r = sh([sys.executable, gen, REPO, os.path.join(LEAN, "UVerif", "Generated")])
        log.append(("extract_tables", r.returncode, r.stdout[-2000:]))
        return r.returncode == 0, r.stdout
    return True, ""


def strip_comments(src):
    src = re.sub(r"/-.*?-/", "", src, flags=re.S)
    return "\n".join(l.split("--")[0] for l in src.splitlines())


def lake_build(targets):
    r = sh(["lake", "build"] + targets, cwd=LEAN)
    return r.returncode == 0, r.stdout


def failed_modules(out):
    mods = set(re.findall(r"^✖ \[\d+/\d+\] Building (\S+)", out, flags=re.M))
    mods |= set(re.findall(r"^- (\S+)$", out, flags=re.M))
    return sorted(mods)


def theorem_names(propfile):
    if not os.path.exists(propfile):
        return []
    src = strip_comments(open(propfile).read())
    return re.findall(r"^\s*theorem\s+([A-Za-z0-9_'.]+)", src, flags=re.M)


def audit(prop):
    """returns (obligations, discharged, problems, axiom_map)"""
    mods = P.PROPS[prop].get("proof_modules", [f"UVerifProofs.Props.{prop}"])
    problems, names, axmap = [], [], {}
    files = []
    for m in mods:
        f = os.path.join(LEAN, *m.split(".")) + ".lean"
        files.append(f)
        if not os.path.exists(f):
            problems.append(f"missing proof module {m}")
            continue
        names += [(m, t) for t in theorem_names(f)]
    # forbidden tokens anywhere in the Lean sources (outside comments)
    for root in (os.path.join(LEAN, "UVerif"), os.path.join(LEAN, "UVerifProofs")):
        for dp, _, fs in os.walk(root):
            for fn in fs:
                if fn.endswith(".lean"):
                    src = strip_comments(open(os.path.join(dp, fn)).read())
                    for i, l in enumerate(src.splitlines(), 1):
                        if FORBIDDEN.search(l):
                            problems.append(f"forbidden token in {os.path.relpath(os.path.join(dp, fn), LEAN)}:{i}: {l.strip()[:80]}")
    if not names:
        return 0, 0, problems + ["no theorems found"], axmap
    os.makedirs(BUILD, exist_ok=True)
    af = os.path.join(BUILD, f"Audit_{prop}.lean")
    with open(af, "w") as fh:
        for m in mods:
            fh.write(f"import {m}\n")
        for _, t in names:
            fh.write(f"#print axioms {t}\n")
    r = sh(["lake", "env", "lean", af], cwd=LEAN)
    out = r.stdout
    discharged = 0
    for _, t in names:
        m1 = re.search(r"'" + re.escape(t) + r"' depends on axioms: \[([^\]]*)\]", out, flags=re.S)
        m0 = re.search(r"'" + re.escape(t) + r"' does not depend on any axioms", out)
        if m0:
            axmap[t] = []
            discharged += 1
        elif m1:
            axs = [a.strip() for a in m1.group(1).replace("\n", " ").split(",") if a.strip()]
            axmap[t] = axs
            bad = [a for a in axs if a not in ALLOWED_AXIOMS]
            if bad:
                problems.append(f"theorem {t} depends on non-allowed axioms {bad}")
            else:
                discharged += 1
        else:
            problems.append(f"theorem {t}: no axiom report (does it elaborate?)")
    if r.returncode != 0:
        problems.append("audit file did not elaborate: " + out[-500:])
    return len(names), discharged, problems, axmap


# ----------------------------------------------------------------------------------------------
# step 3: harness

def compile_harness(name, sanitize=False, extra=None):
    spec = P.HARNESS[name]
    src = os.path.join(HARNESS, spec["src"])
    exe = os.path.join(BUILD, name + ("_san" if sanitize else ""))
    cc = spec.get("cc", "g++")
    cmd = [cc] + spec.get("std", ["-std=c++20"]) + ["-O1", "-g0", "-w", f"-D{GUARD}=1", "-I" + os.path.join(REPO, "include"),
           "-I" + HARNESS] + spec.get("flags", []) + (extra or [])
    if sanitize:
        cmd += ["-g", "-fsanitize=address,undefined", "-fno-sanitize-recover=all"]
    cmd += [src] + [s.replace("$REPO", REPO) for s in spec.get("extra_src", [])] + ["-o", exe] + spec.get("libs", [])
    t0 = time.time()
    r = sh(cmd)
    return name, r.returncode == 0, r.stdout[-3000:], time.time() - t0, exe


# ----------------------------------------------------------------------------------------------
# step 4: streams

def run_stream(job):
    """job = dict(exe=..., args=[...], env={...}, label=...). Pipes harness stdout into uvdriver."""
    env = dict(os.environ)
    env.update(job.get("env", {}))
    t0 = time.time()
    if job.get("xbt"):
        return run_xbt(job, env, t0)
    if job.get("file"):
        hp = None
        dp = subprocess.Popen([DRIVER, job["file"]], stdout=subprocess.PIPE, text=True)
    else:
        hp = subprocess.Popen([job["exe"]] + job["args"], stdout=subprocess.PIPE, stderr=subprocess.PIPE, env=env)
        dp = subprocess.Popen([DRIVER], stdin=hp.stdout, stdout=subprocess.PIPE, text=True)
        hp.stdout.close()
    out, _ = dp.communicate()
    herr, hrc = "", 0
    if hp is not None:
        herr = hp.stderr.read().decode(errors="replace")[-2000:]
        hrc = hp.wait()
    res = dict(label=job["label"], D=[], S=[], B=[], tags={}, N={}, hrc=hrc, herr=herr, wall=time.time() - t0, first=[], marker="")
    if hp is not None and hrc != 0:
        # crash / sanitizer abort: run the harness again with operation markers to name the operands
        env2 = dict(env); env2["UV_MARK"] = "1"
        try:
            mp = subprocess.Popen([job["exe"]] + job["args"], stdout=subprocess.PIPE, stderr=subprocess.DEVNULL, env=env2, text=True)
            last = ""
            for ln in mp.stdout:
                if ln.startswith("# at "):
                    last = ln.strip()
            mp.wait()
            res["marker"] = last
        except Exception as e:  # noqa
            res["marker"] = f"(marker run failed: {e})"
    for l in out.splitlines():
        if l.startswith("D "):
            res["D"].append(l)
        elif l.startswith("S "):
            res["S"].append(l)
        elif l.startswith("B "):
            res["B"].append(l)
        elif l.startswith("K "):
            res.setdefault("K", []).append(l)
        elif l.startswith("T "):
            _, t, c = l.rsplit(" ", 2)[0].split(" ", 1)[0], l.split(" ")[1], l.split(" ")[-1]
            res["tags"][t] = res["tags"].get(t, 0) + int(c)
        elif l.startswith("N "):
            for kv in l[2:].split():
                k, v = kv.split("=")
                res["N"][k] = int(v)
        elif l.startswith("F "):
            res["first"].append(l[2:])
        elif l.startswith("C "):
            _, c, k = l.split(" ")
            res.setdefault("cls", {})[c] = res.get("cls", {}).get(c, 0) + int(k)
    return res


_BTTOK = re.compile(r" (u8|u16|u32|u64)(?= )")


def xbt_class(key):
    """input class of a cross-block-type disagreement (matched against known_findings.json like the driver's class ids)"""
    t = key.split()
    # every former class (xbt.cfloat.dec.allones (D6), xbt.cfloat.inc.minneg_manyblocks, xbt.areal.assign.subnormal_source) was
    # repaired in /repo: a cross-block-type disagreement has no class any more and is reported as a VIOLATION
    del t
    return "-"


def run_xbt(job, env, t0):
    """cross-block-type comparison: identical streams from the instantiations for each block type must print identical
    transcripts once the block-type token is masked"""
    outs = []
    for exe, args in job["xbt"]:
        r = subprocess.run([exe] + args, stdout=subprocess.PIPE, stderr=subprocess.DEVNULL, env=env, text=True)
        outs.append((os.path.basename(exe), r.returncode, [_BTTOK.sub(" BT", l) for l in r.stdout.splitlines()]))
    res = dict(label=job["label"], D=[], S=[], B=[], tags={}, N={}, hrc=0, herr="", wall=0, first=[], marker="", cls={})
    # compare by INPUT: the same operation on the same operands must print the same result for every block type
    # (streams may contain seed-dependent extra inputs that differ between instantiations; those are not comparable)
    def table(lines):
        t = {}
        for l in lines:
            if " => " in l:
                k, v = l.split(" => ", 1)
                t.setdefault(k, v)
        return t
    ref = outs[0]
    rt = table(ref[2])
    n = 0; bad = 0; percls = {}
    for name, rc, lines in outs[1:]:
        if rc != 0 or ref[1] != 0:
            res["hrc"] = rc or ref[1]
        for k, v in table(lines).items():
            if k in rt:
                n += 1
                if rt[k] != v:
                    bad += 1
                    c = xbt_class(k)
                    percls[c] = percls.get(c, 0) + 1
                    if percls[c] <= 50:
                        res["S"].append(f"S 0 class={c} modeldiff=false reason=result depends on the block type: {ref[0]} gives [{rt[k]}], {name} gives [{v}] | {k} => {v}")
    for c, k in percls.items():
        res["cls"][c] = k
    res["N"] = dict(total=n, ok=n - bad, diff=0, specfail=bad, bad=0, distinct=n)
    res["tags"] = {"cross-block-type-comparisons": n}
    res["first"] = ref[2][:1]
    res["wall"] = time.time() - t0
    return res


def line_of(rec):
    return rec.split(" | ", 1)[1] if " | " in rec else rec


def cls_of(srec):
    m = re.search(r"class=(\S+)", srec)
    return m.group(1) if m else "-"


# ----------------------------------------------------------------------------------------------

def load_known():
    f = os.path.join(HERE, "known_findings.json")
    if not os.path.exists(f):
        return []
    return json.load(open(f)).get("findings", [])


def main():
    ap = argparse.ArgumentParser()
    ap.add_argument("prop")
    ap.add_argument("--tier", default=os.environ.get("VERIF_TIER", "quick"), choices=["quick", "thorough"])
    ap.add_argument("--replay")
    a = ap.parse_args()
    prop, tier = a.prop, a.tier
    seed = int(os.environ.get("VERIF_SEED", "1") or 1)
    os.environ["VERIF_SEED"] = str(seed)
    cfg = P.PROPS[prop]
    t0 = time.time()
    log, violations, known_lines = [], [], []
    os.makedirs(BUILD, exist_ok=True); os.makedirs(EVID, exist_ok=True); os.makedirs(REPLAYS, exist_ok=True)
    replay_path = os.path.join(REPLAYS, f"{prop}-{tier}-{seed}.txt")
    replay_rel = os.path.relpath(replay_path, HERE)

    # 1. tables
    ok_tab, tab_out = regen_tables(log)

    # 2. build + audit
    ok_core, out_core = lake_build(["UVerif", "uvdriver"])
    proof_mods = cfg.get("proof_modules", [f"UVerifProofs.Props.{prop}"])
    ok_proofs, out_proofs = lake_build(["UVerifProofs"] + ["+" + m for m in proof_mods])
    broken_mods = [m for m in failed_modules(out_proofs)] if not ok_proofs else []
    # a failing module matters for this property if it is (or is imported by) one of its proof modules:
    # after a failed build, ask lake for exactly this property's modules
    proofs_ok_for_prop = True
    broken_detail = ""
    if not ok_proofs:
        okp, outp = lake_build(["+" + m for m in proof_mods])
        proofs_ok_for_prop = okp
        if not okp:
            broken_detail = outp[-3000:]
            broken_mods = failed_modules(outp)
    if not ok_tab:
        proofs_ok_for_prop = False
        broken_detail = "table extraction failed:\n" + tab_out[-2000:]
    obligations = discharged = 0
    audit_problems, axmap = [], {}
    if proofs_ok_for_prop:
        obligations, discharged, audit_problems, axmap = audit(prop)
        if tier == "thorough":
            # independent re-check of the compiled proof modules by leanchecker (replays every declaration through the kernel)
            for m in proof_mods:
                r = sh(["lake", "env", "leanchecker", m], cwd=LEAN)
                if r.returncode != 0:
                    audit_problems.append(f"leanchecker rejects {m}: {r.stdout[-300:]}")
                else:
                    LEANCHECKED.append(m)
    if not ok_core:
        print(out_core[-3000:])
        print(f"FATAL: model/driver do not build")
        with open(replay_path, "w") as fh:
            fh.write("# model/driver library does not build (generated tables changed shape?)\n" + out_core[-3000:])
        write_evidence(prop, tier, seed, cfg, 0, 0, {}, [], obligations, discharged, axmap, time.time() - t0, 1,
                       note="model library failed to build")
        print(f"VIOLATION property={prop} replay={replay_rel} no-failing-input-found")
        return 1

    # 3. harness
    names = cfg["harness"] + (cfg.get("thorough_harness", []) if tier == "thorough" else [])
    sanitize = tier == "thorough" and cfg.get("sanitize", False)
    exes = {}
    with cf.ThreadPoolExecutor(max_workers=NCPU) as ex:
        futs = [ex.submit(compile_harness, n) for n in names]
        if sanitize:
            futs += [ex.submit(compile_harness, n, True) for n in names]
        for f in futs:
            n, ok, out, dt, exe = f.result()
            if not ok:
                print(out)
                with open(replay_path, "w") as fh:
                    fh.write(f"# harness {n} does not compile against {REPO}\n{out}\n")
                write_evidence(prop, tier, seed, cfg, 0, 0, {}, [], obligations, discharged, axmap, time.time() - t0, 1,
                               note=f"harness {n} failed to compile")
                print(f"VIOLATION property={prop} replay={replay_rel} no-failing-input-found")
                return 1
            exes[os.path.basename(exe)] = exe

    # 4. streams
    jobs = []
    cdir = os.path.join(CORPUS, prop)
    if a.replay:
        # re-run the inputs of the replay through the *current* implementation; if no harness can re-execute the
        # file, fall back to judging the recorded lines
        rj = P.replay_jobs(prop, a.replay, exes)
        jobs += rj if rj else [dict(file=a.replay, label="recorded:" + a.replay)]
    else:
        if os.path.isdir(cdir):
            # corpus: minimised inputs of past disagreements / seeded changes, re-executed against the current headers
            for fn in sorted(os.listdir(cdir)):
                jobs += P.replay_jobs(prop, os.path.join(cdir, fn), exes)
        jobs += cfg["streams"](tier, seed, exes)
    results = []
    with cf.ThreadPoolExecutor(max_workers=NCPU) as ex:
        for r in ex.map(run_stream, jobs):
            results.append(r)

    # 5. classify
    total = sum(r["N"].get("total", 0) for r in results)
    distinct = sum(r["N"].get("distinct", 0) for r in results)
    tags = {}
    for r in results:
        for k, v in r["tags"].items():
            tags[k] = tags.get(k, 0) + v
    D = [x for r in results for x in r["D"]]
    S = [x for r in results for x in r["S"]]
    B = [x for r in results for x in r["B"]]
    crashed = [r for r in results if r["hrc"] != 0]
    known = [k for k in load_known() if k["property"] == prop and k.get("status") == "known"]
    known_classes = {k["class"]: k for k in known}
    K = [x for r in results for x in r.get("K", [])]
    if cfg.get("judge") == "clean":
        # C20: value correctness is judged by the other properties; here only crashes and non-canonical outputs count
        # (S lines of the UBSan probes — class ids "ub.…" — are cleanliness verdicts and stay)
        S = [x for x in S if " class=ub." in x] + ["S 0 class=- noncanonical " + k[2:] for k in K]
    S_known, S_new = [], []
    for s in S:
        (S_known if cls_of(s) in known_classes else S_new).append(s)
    seen_known = {}
    for s in S_known:
        seen_known.setdefault(cls_of(s), []).append(s)
    cls_totals = {}
    for r in results:
        for c, k in r.get("cls", {}).items():
            cls_totals[c] = cls_totals.get(c, 0) + k
    n_known = sum(k for c, k in cls_totals.items() if c in known_classes)
    n_new = sum(k for c, k in cls_totals.items() if c not in known_classes)
    if cfg.get("judge") == "clean":
        n_known = sum(k for c, k in cls_totals.items() if c in known_classes and c.startswith("ub."))
        n_new = len(K) + sum(k for c, k in cls_totals.items() if c not in known_classes and c.startswith("ub."))
    n_diff = sum(r["N"].get("diff", 0) for r in results)
    for c, k in known_classes.items():
        if c in seen_known:
            print(f"KNOWN-FINDING: property={prop} {k['site']}: {k['what']} [class {c}; {cls_totals.get(c, len(seen_known[c]))} lines this run, e.g. {line_of(seen_known[c][0])}]")
    samples = []
    for r in results:
        samples += r["first"][:2]
    rc = 0
    with open(replay_path, "w") as fh:
        if S_new:
            fh.write(f"# property {prop}: inputs on which the implementation's output violates the spec predicate\n")
            for s in S_new[:200]:
                fh.write(line_of(s) + "\n")
            fh.write("# driver verdicts\n")
            for s in S_new[:200]:
                fh.write("# " + s + "\n")
            rc = 1
            print(f"VIOLATION property={prop} replay={replay_rel}")
            for s in S_new[:5]:
                print("  " + s)
        elif crashed:
            fh.write(f"# property {prop}: harness terminated abnormally (crash / sanitizer abort)\n")
            for r in crashed:
                fh.write(f"# stream {r['label']} exit={r['hrc']}\n")
                fh.write(f"# last operation announced before the abort: {r.get('marker', '')}\n")
                fh.write("# " + r["herr"].replace("\n", "\n# ") + "\n")
            rc = 1
            print(f"VIOLATION property={prop} replay={replay_rel}" + ("" if cfg.get("crash_is_violation") else " no-failing-input-found"))
        elif D or B:
            fh.write(f"# property {prop}: correspondence broken — implementation differs from the Lean model, "
                     f"spec predicate accepted every implementation output explored ({total} lines)\n")
            fh.write("# streams: " + ", ".join(sorted({r['label'] for r in results if r['D'] or r['B']})) + "\n")
            for d in (D + B)[:200]:
                fh.write(line_of(d) + "\n")
            for d in (D + B)[:200]:
                fh.write("# " + d + "\n")
            rc = 1
            print(f"VIOLATION property={prop} replay={replay_rel} no-failing-input-found")
            for d in (D + B)[:5]:
                print("  " + d)
        elif not proofs_ok_for_prop or audit_problems or discharged != obligations:
            fh.write(f"# property {prop}: proof obligations no longer check; no failing input found in {total} lines\n")
            fh.write("# modules: " + ", ".join(broken_mods) + "\n")
            for p_ in audit_problems:
                fh.write("# audit: " + p_ + "\n")
            fh.write("# " + broken_detail.replace("\n", "\n# ") + "\n")
            rc = 1
            print(f"VIOLATION property={prop} replay={replay_rel} no-failing-input-found")
            for p_ in audit_problems[:5]:
                print("  audit: " + p_)
            if broken_mods:
                print("  broken proof modules: " + ", ".join(broken_mods))
        elif total == 0:
            fh.write("# no transcript lines were produced\n")
            rc = 1
            print(f"VIOLATION property={prop} replay={replay_rel} no-failing-input-found")
        else:
            fh.write("# no violation\n")
    if rc == 0:
        try:
            os.remove(replay_path)
        except OSError:
            pass
    write_evidence(prop, tier, seed, cfg, total, distinct, tags, samples, obligations, discharged, axmap,
                   time.time() - t0, len(S_new) + (1 if rc and not S_new else 0),
                   note="", streams=[(r["label"], r["N"].get("total", 0), round(r["wall"], 2)) for r in results],
                   known=sorted(seen_known), diffs=n_diff)
    print(f"{prop} [{tier}] lines={total} distinct-nontrivial={distinct} model-diff={n_diff} spec-fail={n_new} "
          f"known={n_known} theorems={discharged}/{obligations} wall={time.time() - t0:.1f}s -> {'FAIL' if rc else 'ok'}")
    return rc


LEANCHECKED = []   # proof modules re-checked by leanchecker in this run (thorough tier)


def write_evidence(prop, tier, seed, cfg, total, distinct, tags, samples, obligations, discharged, axmap, wall, nviol,
                   note="", streams=None, known=None, diffs=0):
    level = cfg.get("level", "proof")
    axs = sorted({a for v in axmap.values() for a in v})
    cov = {
        "obligations": obligations,
        "discharged": discharged,
        "checker_cmd": "cd lean && lake build UVerif UVerifProofs uvdriver && lake env lean ../build/Audit_%s.lean  (#print axioms on every theorem of %s)" % (prop, ", ".join(cfg.get("proof_modules", [f"UVerifProofs.Props.{prop}"]))),
        "trusted_base": [
            "Lean 4.33.0 kernel; axioms used by this property's theorems: " + (", ".join(axs) if axs else "none"),
            "hand-written Lean model of the C++ (lean/UVerif/Model) tied to /repo by the correspondence run below",
            "g++ 12.2 -O1, libstdc++, the harness TU(s): " + ", ".join(cfg["harness"]),
        ] + ([f"leanchecker re-checked the compiled modules {', '.join(LEANCHECKED)}"] if LEANCHECKED else []) + cfg.get("trusted", []),
        "theorems": sorted(axmap.keys()),
        "evaluations": total,
        "distinct_nontrivial": distinct,
        "rule": cfg.get("rule", "one transcript line = one operation on concrete operands executed by the real headers; "
                        "distinct = distinct lines, non-trivial = the handler did not mark the case as special-value-only"),
        "samples": samples[:12] if samples else ["(no lines)"],
        "traces_validated_against_impl": total,
        "model_diffs": diffs,
        "tag_histogram": dict(sorted(tags.items())),
        "streams": streams or [],
        "known_finding_classes_seen": known or [],
        "explanation": cfg.get("explanation", "") + ((" NOTE: " + note) if note else ""),
        "exhaustive": False,
    }
    ev = {
        "property_id": prop, "tier": tier, "seed": seed, "level": level, "coverage": cov,
        "assumptions": cfg.get("assumptions", []), "wall_s": round(wall, 2), "violations": nviol,
    }
    os.makedirs(EVID, exist_ok=True)
    with open(os.path.join(EVID, f"{prop}.json"), "w") as fh:
        json.dump(ev, fh, indent=1)


if __name__ == "__main__":
    sys.exit(main())
