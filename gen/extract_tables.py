#!/usr/bin/env python3
"""extract_tables.py <repo> <outdir> — regenerate every Lean table file from the CURRENT sources of <repo>
(called by check.py on every run and by MANIFEST.setup_cmd; lean/UVerif/Generated is git-ignored)."""
import os, subprocess, sys
here = os.path.dirname(os.path.abspath(__file__))
rc = 0
for script in ("extract_fast_tables.py", "extract_cfloat_tables.py"):
    r = subprocess.run([sys.executable, os.path.join(here, script)] + sys.argv[1:])
    rc = rc or r.returncode
sys.exit(rc)
