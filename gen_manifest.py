#!/usr/bin/env python3
"""gen_manifest.py — writes MANIFEST.json from props.py (so the two never disagree)."""
import json, os, sys
HERE = os.path.dirname(os.path.abspath(__file__))
sys.path.insert(0, HERE)
import props as P

ALL = [json.loads(l)["id"] for l in open(os.path.join(HERE, "properties.jsonl"))]
checks, na = [], []
for pid in ALL:
    c = P.PROPS.get(pid)
    if c is None or c.get("disabled"):
        na.append({"property_id": pid, "reason": P.NOT_YET.get(pid, "check not built yet in this session; see DESIGN.md section 5 for the design")})
        continue
    checks.append({
        "property_id": pid,
        "quick_cmd": f"python3 check.py {pid} --tier quick",
        "thorough_cmd": f"python3 check.py {pid} --tier thorough",
        "evidence_file": f"/verif/evidence/{pid}.json",
        "replay_cmd_template": f"python3 check.py {pid} --replay {{path}}",
        "engine": "lean4-model+correspondence",
        "level_claimed": {"category": c.get("level", "proof"), "text": c["level_text"], "design_ref": f"DESIGN.md section 5 ({pid})"},
        "level_note": c["level_note"],
        "technique": c.get("technique", "Lean 4 theorems about a hand-written executable model + differential correspondence (C++ harness transcript replayed through the Lean model and spec predicate)"),
    })
m = {
    "version": 1,
    "setup_cmd": "python3 /verif/gen/extract_tables.py /repo /verif/lean/UVerif/Generated && cd /verif/lean && lake build UVerif uvdriver UVerifProofs",
    "hooks": {
        "guard": "UNIVERSAL_VERIF_HOOKS",
        "enable": "harness TUs are compiled with -DUNIVERSAL_VERIF_HOOKS=1 against /repo/include (header-only library); no hook is currently needed in /repo",
        "baseline_off_cmd": "cmake --build /repo/_build -j16 && ctest --test-dir /repo/_build -j8 --timeout 900",
        "source_commits": P.HOOK_COMMITS,
        "add_only": True,
    },
    "engines": [{
        "name": "lean4-model+correspondence", "path": "/verif/check.py",
        "serves_properties": [c["property_id"] for c in checks],
        "kind_free_text": "Lean 4.33 theorems (lean/UVerifProofs) about executable models (lean/UVerif/Model) of the C++ algorithms; "
                          "C++ harnesses (harness/) run the real headers and the compiled Lean driver (uvdriver) recomputes model + spec predicate per line",
    }],
    "checks": checks,
    "not_applicable": na,
    "notes": "See DESIGN.md. Every check rebuilds the harness from /repo's working tree, runs lake build + axiom audit, and replays transcripts through the Lean driver.",
}
json.dump(m, open(os.path.join(HERE, "MANIFEST.json"), "w"), indent=1)
print(f"{len(checks)} checks, {len(na)} not_applicable")
