// fpgen.hpp — structured binary64 operand generators shared by h_eft.cpp and h_dd.cpp.
// All values travel as 64-bit patterns; every random choice comes from uv::Rng.
#pragma once
#include <cmath>
#include <cstdint>
#include "proto.hpp"

namespace fpgen {

using uv::Rng;
using uv::bits2double;
using uv::double2bits;

inline uint64_t mk(bool s, unsigned e, uint64_t frac) { return ((uint64_t)s << 63) | ((uint64_t)(e & 0x7ff) << 52) | (frac & uv::mask(52)); }
inline unsigned expo(uint64_t b) { return (unsigned)((b >> 52) & 0x7ff); }
inline uint64_t frac(uint64_t b) { return b & uv::mask(52); }
inline bool sgn(uint64_t b) { return b >> 63; }
inline bool is_nan(uint64_t b) { return expo(b) == 0x7ff && frac(b) != 0; }
inline bool is_inf(uint64_t b) { return expo(b) == 0x7ff && frac(b) == 0; }
inline bool is_fin(uint64_t b) { return expo(b) != 0x7ff; }
constexpr uint64_t QNAN = 0x7ff8000000000000ull;
// canonical output pattern (NaN payload / sign collapsed)
inline uint64_t canon(double d) { uint64_t b = double2bits(d); return is_nan(b) ? QNAN : b; }

// significand shapes (52 fraction bits)
inline uint64_t frac_shape(Rng& g) {
	switch (g.below(10)) {
	case 0: return 0;                                                    // power of two
	case 1: return uv::mask(52);                                         // all ones
	case 2: return g.next() & uv::mask(52);                              // random
	case 3: { unsigned k = 1 + (unsigned)g.below(51); return (g.next() & uv::mask(52)) & ~uv::mask(k); }   // low k bits zero
	case 4: { unsigned k = 1 + (unsigned)g.below(51); return g.next() & uv::mask(k); }                    // only low k bits
	case 5: { unsigned k = (unsigned)g.below(52); return 1ull << k; }                                      // single bit
	case 6: { unsigned k = 1 + (unsigned)g.below(51); return ((g.next() & uv::mask(52)) & ~uv::mask(k)) | (1ull << (k - 1)); } // ...1000 (tie shape)
	case 7: { unsigned k = 1 + (unsigned)g.below(51); return ((g.next() & uv::mask(52)) | uv::mask(k)); } // ...0111
	case 8: return (g.next() & uv::mask(26)) << 26;                       // 26 high bits only (splits exactly)
	default: return (g.next() & uv::mask(52)) | 1;                        // odd
	}
}

// exponent classes
inline unsigned exp_class(Rng& g) {
	switch (g.below(12)) {
	case 0: return 0;                                         // subnormal / zero
	case 1: return 1 + (unsigned)g.below(4);                  // first normal binades
	case 2: return 1 + (unsigned)g.below(120);                // low range (products underflow)
	case 3: return 2046 - (unsigned)g.below(3);               // top binades
	case 4: return 2046 - (unsigned)g.below(120);             // high range
	case 5: return 2016 + (unsigned)g.below(7);               // around the split threshold 2^996 (biased 2019)
	case 6: return 1023 - 30 + (unsigned)g.below(61);         // around one
	default: return 1023 - 400 + (unsigned)g.below(801);      // mid range
	}
}

inline uint64_t any_finite(Rng& g) {
	unsigned e = exp_class(g);
	if (e > 2046) e = 2046;
	return mk(g.coin(), e, frac_shape(g));
}

// finite operand; occasionally a special value
inline uint64_t operand(Rng& g, unsigned special_one_in = 64) {
	if (special_one_in && g.below(special_one_in) == 0) {
		switch (g.below(6)) {
		case 0: return 0;
		case 1: return 1ull << 63;
		case 2: return mk(false, 0x7ff, 0);
		case 3: return mk(true, 0x7ff, 0);
		case 4: return QNAN;
		default: return mk(g.coin(), 2046, uv::mask(52));   // ±max
		}
	}
	return any_finite(g);
}

// operand of moderate magnitude: exponent in [lo, hi] biased
inline uint64_t ranged(Rng& g, unsigned lo, unsigned hi) {
	return mk(g.coin(), lo + (unsigned)g.below(hi - lo + 1), frac_shape(g));
}

inline uint64_t with_exp(uint64_t b, int e) { if (e < 0) e = 0; if (e > 2046) e = 2046; return mk(sgn(b), (unsigned)e, frac(b)); }

// partner for an additive operation on `a`: aimed at exponent gaps 0..110, ties, cancellation
inline uint64_t add_partner(Rng& g, uint64_t a) {
	if (!is_fin(a)) return operand(g, 4);
	int ea = (int)expo(a);
	switch (g.below(12)) {
	case 0: case 1: { // chosen exponent gap, either direction
		int d = (int)g.below(111); if (g.coin()) d = -d;
		return mk(g.coin(), (unsigned)std::max(0, std::min(2046, ea - d)), frac_shape(g));
	}
	case 2: { // near cancellation: -a +- few ulps
		int64_t d = (int64_t)g.below(9) - 4;
		uint64_t m = (a & uv::mask(63)) + (uint64_t)d; if (expo(m) == 0x7ff) m = a & uv::mask(63);
		return (m & uv::mask(63)) | ((uint64_t)!sgn(a) << 63);
	}
	case 3: return a ^ (g.coin() ? (1ull << 63) : 0);          // a or -a
	case 4: { // exact tie: odd multiple of half an ulp of a
		if (ea < 2) return operand(g, 0);
		uint64_t j = g.below(8);
		double ulp = std::ldexp(1.0, ea - 1023 - 52);
		double b = ulp * ((double)j + 0.5);
		return double2bits(g.coin() ? b : -b);
	}
	case 5: { // just off a tie: half ulp +- 2^-k ulp
		if (ea < 60) return operand(g, 0);
		double ulp = std::ldexp(1.0, ea - 1023 - 52);
		double b = ulp * 0.5 + (g.coin() ? 1 : -1) * std::ldexp(ulp, -(int)(1 + g.below(56)));
		return double2bits(g.coin() ? b : -b);
	}
	case 6: { // far below: sticky only
		int d = 54 + (int)g.below(60);
		return mk(g.coin(), (unsigned)std::max(0, ea - d), frac_shape(g));
	}
	case 7: { // same exponent, opposite sign (massive cancellation)
		return mk(!sgn(a), (unsigned)ea, g.coin() ? (frac(a) ^ (g.next() & uv::mask((unsigned)g.below(53)))) : frac_shape(g));
	}
	case 8: { // carry into next binade: same sign, same exponent, large fractions
		return mk(sgn(a), (unsigned)ea, uv::mask(52) - g.below(16));
	}
	case 9: return mk(g.coin(), (unsigned)g.below(3), frac_shape(g));   // subnormal / tiny partner
	default: return operand(g);
	}
}

// partner for a multiplicative operation: products exact, tie products, under/overflow
inline void mul_pair(Rng& g, uint64_t& a, uint64_t& b) {
	switch (g.below(10)) {
	case 0: { // 27-bit odd x 27-bit odd: 53/54-bit odd products (54 bits = exact tie)
		uint64_t ma = (g.next() & uv::mask(27)) | (1ull << 26) | 1, mb = (g.next() & uv::mask(27)) | (1ull << 26) | 1;
		int ea = (int)g.below(200) - 100, eb = (int)g.below(200) - 100;
		a = double2bits(std::ldexp((double)ma, ea)); b = double2bits(std::ldexp((double)mb, eb));
		if (g.coin()) a ^= 1ull << 63; if (g.coin()) b ^= 1ull << 63;
		return;
	}
	case 1: { // product lands in the subnormal range
		a = ranged(g, 1, 600); int eb = 1023 - ((int)expo(a) - 1023) - 1022 - (int)g.below(60) + 3;
		b = mk(g.coin(), (unsigned)std::max(1, std::min(2046, eb)), frac_shape(g)); return;
	}
	case 2: { // product near overflow
		a = ranged(g, 1100, 2046); int eb = 1023 + (1023 - ((int)expo(a) - 1023)) - (int)g.below(4) + 1;
		b = mk(g.coin(), (unsigned)std::max(1, std::min(2046, eb)), frac_shape(g)); return;
	}
	case 3: a = operand(g); b = mk(g.coin(), 1023 - 60 + (unsigned)g.below(121), 0); return;   // times a power of two
	case 4: a = operand(g); b = a; return;                                                     // square
	case 5: a = ranged(g, 1023 - 440, 1023 + 480); b = ranged(g, 1023 - 440, 1023 + 480); return; // guarded region
	case 6: a = mk(g.coin(), 0, frac_shape(g)); b = ranged(g, 1023, 1023 + 60); return;          // subnormal operand
	case 7: a = ranged(g, 2019, 2046); b = ranged(g, 1, 40); return;                            // above the split threshold
	default: a = operand(g); b = operand(g); return;
	}
}

} // namespace fpgen
