// h_areal.cpp — transcript of areal<nbits,es,bt>: operator=(float), operator=(double), to_native (real headers).
// usage: h_areal exh <nbits> <es> <count-ignored> <opset>   sources generated from EVERY exact target encoding
//        h_areal rnd <nbits> <es> <count> <opset>           sources generated from sampled target encodings (VERIF_SEED)
// opset: all | assign | native
// Block type fixed per translation unit by -DUV_BT=8|16|32.
//
//   areal n es uW f32 <src float bits, 8 hex> => <encoding>
//   areal n es uW f64 <src double bits, 16 hex> => <encoding>
//   areal n es uW tod <encoding> => <double bits of to_native<double>> <encoding of areal(that double)>
//   areal n es uW tof <encoding> => <float bits of to_native<float>> <encoding of areal(that float)>
//   areal n es uW told <encoding> => <to_native<long double> as a virtual binary79 pattern: sign | 15 exponent bits | 63 fraction bits>
// tod lines exist for es <= 10 (binary64 holds every value), tof lines for es <= 7, told lines for the sampled (nbits > 12)
// configurations with es <= 10 (the factor 2^exponent is built in double) on x86-64 (80-bit long double).
#include <cmath>
#include <iostream>
#include <universal/number/areal/areal.hpp>
#include "proto.hpp"

using namespace sw::universal;

#ifndef UV_BT
#define UV_BT 8
#endif
#if UV_BT == 8
using BT = std::uint8_t;
#elif UV_BT == 16
using BT = std::uint16_t;
#else
using BT = std::uint32_t;
#endif
static const char* BTN = UV_BT == 8 ? "u8" : (UV_BT == 16 ? "u16" : "u32");
typedef unsigned long long ull;

static bool g_assign = true, g_native = true;

template<unsigned nbits, unsigned es>
struct Run {
	using A = areal<nbits, es, BT>;
	static constexpr unsigned fbits = nbits - 2 - es;
	static constexpr int bias = (1 << (es - 1)) - 1;

	static uint64_t enc(const A& p) {
		uint64_t v = 0;
		const unsigned top = A::nrBlocks * A::bitsInBlock;
		for (unsigned i = 0; i < top && i < 64; ++i) {
			if ((uint64_t(p.block(i / A::bitsInBlock)) >> (i % A::bitsInBlock)) & 1ull) v |= (1ull << i);
		}
		return v;
	}
	static A mk(uint64_t b) { A p; p.setbits(b); return p; }

	static void from_f32(uint32_t src) {
		A a; a.setbits(0x5a5a5a5a5a5a5a5aull & uv::mask(nbits)); a = uv::bits2float(src);   // dirty target
		std::printf("areal %u %u %s f32 %08x => %llx\n", nbits, es, BTN, src, (ull)enc(a));
	}
	static void from_f64(uint64_t src) {
		A a; a.setbits(0xa5a5a5a5a5a5a5a5ull & uv::mask(nbits)); a = uv::bits2double(src);  // dirty target
		std::printf("areal %u %u %s f64 %016llx => %llx\n", nbits, es, BTN, (ull)src, (ull)enc(a));
	}
	static void native(uint64_t b) {
		// to_native<double>: es <= 10 keeps 2^exponent inside binary64's normal range (|exponent| <= 512); es >= 8 takes the
		// ipow branch for exponents below -63 (the shift `1ull << -exponent` was undefined there before the repair)
		if constexpr (es <= 10) {
			A a = mk(b);
			if constexpr (fbits <= 52) {
				double d = a.template to_native<double>();
				A back; back.setbits(0x5a5a5a5a5a5a5a5aull & uv::mask(nbits)); back = d;
				std::printf("areal %u %u %s tod %llx => %016llx %llx\n", nbits, es, BTN, (ull)b, (ull)uv::double2bits(d), (ull)enc(back));
			}
		}
#if defined(__x86_64__) && __LDBL_MANT_DIG__ == 64
		if constexpr (es <= 10 && nbits > 12 && fbits <= 63) {
			A a = mk(b);
			long double ld = a.template to_native<long double>();
			unsigned char raw[16] = {0}; std::memcpy(raw, &ld, 10);
			uint64_t m; uint16_t se; std::memcpy(&m, raw, 8); std::memcpy(&se, raw + 8, 2);
			// virtual pattern with an implicit leading bit: every value an areal of es <= 10 can hold is a normal long double
			uint64_t hi = (uint64_t(se) >> 1);                       // sign and the 14 upper exponent bits
			uint64_t lo = (uint64_t(se & 1u) << 63) | (m & 0x7fffffffffffffffull);
			if (hi) std::printf("areal %u %u %s told %llx => %llx%016llx\n", nbits, es, BTN, (ull)b, (ull)hi, (ull)lo);
			else std::printf("areal %u %u %s told %llx => %llx\n", nbits, es, BTN, (ull)b, (ull)lo);
		}
#endif
		if constexpr (es <= 7) {
			A a = mk(b);
			if constexpr (fbits <= 23) {
				float f = a.template to_native<float>();
				A back; back.setbits(0xa5a5a5a5a5a5a5a5ull & uv::mask(nbits)); back = f;
				std::printf("areal %u %u %s tof %llx => %08x %llx\n", nbits, es, BTN, (ull)b, uv::float2bits(f), (ull)enc(back));
			}
		}
	}

	// exact magnitude of the (ubit-free, sign-free) encoding fields as m * 2^e2
	static void fields(uint64_t mag, uint64_t& m, int& e2) {
		uint64_t f = (mag >> 1) & uv::mask(fbits);
		uint64_t e = (mag >> (1 + fbits)) & uv::mask(es);
		if (e == 0) { m = f; e2 = 1 - bias - (int)fbits; }
		else { m = f | (1ull << fbits); e2 = (int)e - bias - (int)fbits; }
	}
	// float / double bit pattern of m * 2^e2 when exactly representable
	static bool as_double(uint64_t m, int e2, uint64_t& bits) {
		if (m == 0) { bits = 0; return true; }
		if (m >> 53) return false;
		double d = std::ldexp((double)m, e2);
		if (!std::isfinite(d) || d == 0.0) return false;
		// exactness: ldexp is exact unless the result is subnormal and bits are lost
		int ex; double fr = std::frexp(d, &ex);
		if (std::ldexp(fr, ex - e2) != (double)m) return false;
		bits = uv::double2bits(d); return true;
	}
	static bool as_float(uint64_t m, int e2, uint32_t& bits) {
		uint64_t db;
		if (!as_double(m, e2, db)) return false;
		double d = uv::bits2double(db);
		float f = (float)d;
		if (!std::isfinite(f) || (double)f != d) return false;
		bits = uv::float2bits(f); return true;
	}

	// all source variants derived from one exact target magnitude encoding `mag` (ubit clear, sign clear)
	static void from_target(uint64_t mag, uv::Rng& g) {
		uint64_t m; int e2; fields(mag, m, e2);
		for (int sgn = 0; sgn < 2; ++sgn) {
			uint32_t fb;
			if (nbits <= 32 && as_float(m, e2, fb)) {                 // operator=(float) assembles the encoding in a uint32_t
				uint32_t S = sgn ? 0x80000000u : 0u;
				from_f32(S | fb);                              // the exact value
				if ((fb & 0x7fffffffu) != 0) from_f32(S | (fb - 1)); // one source ulp toward zero
				from_f32(S | (fb + 1));                        // one source ulp away from zero
				if constexpr (fbits < 23) {
					const unsigned sh = 23 - fbits;               // source bits below the target lsb (normal targets)
					from_f32(S | (fb | (1u << (sh - 1))));         // the highest dropped bit only (lands on the ubit position)
					if (sh >= 2) from_f32(S | (fb | (1u << (unsigned)g.below(sh - 1))));   // one random lower dropped bit
					from_f32(S | (fb + (uint32_t)(g.next() & uv::mask(sh))));              // somewhere between this value and the next
					from_f32(S | (fb + (uint32_t)uv::mask(sh)));   // one source ulp below the next target value
				}
			}
			uint64_t db;
			if (nbits <= 64 && as_double(m, e2, db)) {
				uint64_t S = sgn ? 0x8000000000000000ull : 0ull;
				from_f64(S | db);
				if ((db & 0x7fffffffffffffffull) != 0) from_f64(S | (db - 1));
				from_f64(S | (db + 1));
				if constexpr (fbits < 52) {
					const unsigned sh = 52 - fbits;
					from_f64(S | (db | (1ull << (sh - 1))));
					if (sh >= 2) from_f64(S | (db | (1ull << g.below(sh - 1))));
					from_f64(S | (db + (g.next() & uv::mask(sh))));
					from_f64(S | (db + uv::mask(sh)));
				}
			}
		}
	}
	// sources that do not come from a lattice point: out of range, specials, NaN payloads, float subnormals
	static void extras(uv::Rng& g, unsigned reps) {
		const int MAX_EXP = (1 << es) - bias, MIN_SUB = 1 - bias - (int)fbits;
		for (unsigned r = 0; r < reps; ++r) {
			for (int sgn = 0; sgn < 2; ++sgn) {
				// exponents around the top and the bottom of the range, every fraction shape
				const int exps[] = { MAX_EXP - 2, MAX_EXP - 1, MAX_EXP, MAX_EXP + 1, MAX_EXP + 2, MAX_EXP + 17, MIN_SUB + 1, MIN_SUB, MIN_SUB - 1, MIN_SUB - 2, MIN_SUB - 40, 0, 1 - bias, -bias };
				for (int e : exps) {
					for (int shape = 0; shape < 6; ++shape) {
						if (nbits <= 32 && e + 127 >= 1 && e + 127 <= 254) {
							uint32_t fr;
							switch (shape) {
							case 0: fr = 0; break;
							case 1: fr = 0x7fffffu; break;
							case 2: fr = fbits < 23 ? (uint32_t)(uv::mask(fbits) << ((23 - fbits) & 31)) : 0x7fffffu; break;      // top fbits all ones, rest zero
							case 3: fr = (fbits < 23 ? (uint32_t)(uv::mask(fbits) << ((23 - fbits) & 31)) : 0x7ffffeu) | 1u; break; // … plus the lowest bit
							case 4: fr = 1u; break;
							default: fr = (uint32_t)g.next() & 0x7fffffu; break;
							}
							from_f32((sgn ? 0x80000000u : 0u) | ((uint32_t)(e + 127) << 23) | fr);
						}
						if (nbits <= 64 && e + 1023 >= 1 && e + 1023 <= 2046) {
							uint64_t fr;
							switch (shape) {
							case 0: fr = 0; break;
							case 1: fr = uv::mask(52); break;
							case 2: fr = fbits < 52 ? uv::mask(fbits) << ((52 - fbits) & 63) : uv::mask(52); break;
							case 3: fr = (fbits < 52 ? uv::mask(fbits) << ((52 - fbits) & 63) : uv::mask(52) - 1) | 1ull; break;
							case 4: fr = 1ull; break;
							default: fr = g.next() & uv::mask(52); break;
							}
							from_f64((sgn ? 0x8000000000000000ull : 0ull) | ((uint64_t)(e + 1023) << 52) | fr);
						}
					}
				}
				// specials
				const uint32_t S32 = sgn ? 0x80000000u : 0u; const uint64_t S64 = sgn ? 0x8000000000000000ull : 0ull;
				if (nbits <= 32) {
					from_f32(S32); from_f32(S32 | 0x7f800000u);
					from_f32(S32 | 0x7f800001u); from_f32(S32 | 0x7fc00000u);                              // the two recognised NaN patterns
					from_f32(S32 | 0x7fa00000u); from_f32(S32 | 0x7fc00001u); from_f32(S32 | 0x7f800000u | ((uint32_t)g.next() & 0x7fffffu) | 2u); // other payloads
					// float subnormals
					from_f32(S32 | 1u); from_f32(S32 | 0x007fffffu); from_f32(S32 | 0x00400000u); from_f32(S32 | ((uint32_t)g.next() & 0x7fffffu) | 1u);
					from_f32(S32 | (1u << g.below(23))); from_f32(S32 | 0x00800000u);
					// float subnormals shaped like target lattice points: a few leading bits, one low bit, all ones below the msb
					{ unsigned k = (unsigned)g.below(23); uint32_t top = 1u << k;
					  from_f32(S32 | top | (top >> 1)); from_f32(S32 | top | 1u); from_f32(S32 | (top | (top - 1)));
					  from_f32(S32 | top | ((uint32_t)g.next() & (top - 1) & ~(uint32_t)uv::mask(k > 4 ? k - 4 : 0))); }
				}
				if (nbits <= 64) {
					from_f64(S64); from_f64(S64 | 0x7ff0000000000000ull);
					from_f64(S64 | 0x7ff0000000000001ull); from_f64(S64 | 0x7ff8000000000000ull);
					from_f64(S64 | 0x7ff4000000000000ull); from_f64(S64 | 0x7ff8000000000001ull); from_f64(S64 | 0x7ff0000000000000ull | (g.next() & uv::mask(52)) | 2ull);
					from_f64(S64 | 1ull); from_f64(S64 | uv::mask(52)); from_f64(S64 | (g.next() & uv::mask(52)) | 1ull); from_f64(S64 | 0x0010000000000000ull);
					// double subnormals: single bits, a few leading bits, all ones below the msb
					{ unsigned k = (unsigned)g.below(52); uint64_t top = 1ull << k;
					  from_f64(S64 | top); from_f64(S64 | top | (top >> 1)); from_f64(S64 | top | 1ull); from_f64(S64 | (top | (top - 1)));
					  from_f64(S64 | top | (g.next() & (top - 1) & ~uv::mask(k > 4 ? k - 4 : 0))); from_f64(S64 | 0x0008000000000000ull); }
				}
			}
		}
	}
	static bool is_exact_finite(uint64_t mag) { // ubit clear, not the inf pattern
		return (mag & 1) == 0 && mag != (uv::mask(nbits - 1) & ~1ull);
	}
	static void exhaustive() {
		uv::Rng g(uv::seed_from_env() * 7919ull + nbits * 131ull + es * 17ull + UV_BT);
		if (g_assign) {
			for (uint64_t mag = 0; mag < (1ull << (nbits - 1)); mag += 2) if (is_exact_finite(mag)) from_target(mag, g);
			extras(g, 4);
		}
		if (g_native) for (uint64_t b = 0; b < (1ull << nbits); ++b) native(b);
	}
	static void random(uint64_t count) {
		uv::Rng g(uv::seed_from_env() * 7919ull + nbits * 131ull + es * 17ull + UV_BT);
		const uint64_t MM = uv::mask(nbits - 1);
		for (uint64_t i = 0; i < count; ++i) {
			uint64_t mag;
			switch (g.below(6)) {
			case 0: mag = g.next() & MM; break;
			case 1: mag = (g.below(64)) & MM; break;                                   // near zero / subnormals
			case 2: mag = (MM - g.below(64)) & MM; break;                              // near maxpos
			case 3: mag = ((1ull << (fbits + 1)) + (uint64_t)((int64_t)g.below(33) - 16)) & MM; break; // subnormal/normal boundary
			case 4: mag = ((g.next() & uv::mask(es)) << (fbits + 1)) | (g.coin() ? 0 : (uv::mask(fbits) << 1)); break; // binade edges
			default: mag = (g.next() & MM) & ~uv::mask((unsigned)g.below(fbits + 1)); break;   // trailing zeros in the fraction
			}
			mag &= ~1ull;
			if (g_assign && is_exact_finite(mag)) from_target(mag, g);
			if (g_native && (i % 4) == 0) {
				// near-special encodings: the inf / NaN / maxpos patterns with one limb (of any of the three limb widths) replaced
				uint64_t pat = (g.below(3) == 0 ? MM : (g.coin() ? (MM & ~1ull) : (MM & ~3ull))) | (g.coin() ? (1ull << (nbits - 1)) : 0);
				const unsigned w = 8u << g.below(3);
				const unsigned j = (unsigned)g.below((nbits + w - 1) / w);
				const uint64_t lm = (w == 64 ? ~0ull : ((1ull << w) - 1)) << (j * w);
				uint64_t repl; switch (g.below(3)) { case 0: repl = 0; break; case 1: repl = g.next(); break; default: repl = pat ^ (1ull << (j * w + g.below(w))); }
				native(((pat & ~lm) | (repl & lm)) & uv::mask(nbits));
			}
			if (g_native) { uint64_t b = (g.next() & uv::mask(nbits)); native(b); native(mag | (g.coin() ? (1ull << (nbits - 1)) : 0) | (g.coin() ? 1 : 0)); }
			if (g_assign && (i % 256) == 0) extras(g, 1);
		}
	}
};

// every configuration with nbits <= 12 (es >= 1, nbits > es + 2), plus sampled larger ones
#define SMALL(X) \
	X(4,1) X(5,1) X(5,2) X(6,1) X(6,2) X(6,3) X(7,1) X(7,2) X(7,3) X(7,4) X(8,1) X(8,2) X(8,3) X(8,4) X(8,5) \
	X(9,1) X(9,2) X(9,3) X(9,4) X(9,5) X(9,6) X(10,1) X(10,2) X(10,3) X(10,4) X(10,5) X(10,6) X(10,7) \
	X(11,1) X(11,2) X(11,3) X(11,4) X(11,5) X(11,6) X(11,7) X(11,8) \
	X(12,1) X(12,2) X(12,3) X(12,4) X(12,5) X(12,6) X(12,7) X(12,8) X(12,9)
// (32,8) (64,11): target fraction one bit narrower than the source (shift 0); (27,2) (59,5): as wide as the source;
// (28,2) (32,5) (32,2) (60,5) (64,8) (64,2): wider than the source (left shift); es >= 8 / >= 11: float / double subnormals are in range
#define LARGE(X) X(16,5) X(16,8) X(17,5) X(20,8) X(24,8) X(24,5) X(32,8) X(32,11) X(33,8) X(48,11) X(64,11) \
	X(27,2) X(28,2) X(32,5) X(32,2) X(59,5) X(60,5) X(64,8) X(64,2) X(20,12) X(40,12) X(16,10) X(62,7) X(64,10)

int main(int argc, char** argv) {
	if (argc < 4) { std::fprintf(stderr, "usage: h_areal exh|rnd nbits es [count] [all|assign|native]\n"); return 2; }
	std::cout.rdbuf(nullptr); // areal prints "not implemented yet" diagnostics on std::cout
	uv::Out out;
	std::string mode = argv[1];
	unsigned n = (unsigned)std::atoi(argv[2]), e = (unsigned)std::atoi(argv[3]);
	uint64_t count = argc > 4 ? std::strtoull(argv[4], nullptr, 10) : 1000;
	std::string ops = argc > 5 ? argv[5] : "all";
	g_assign = ops == "all" || ops == "assign";
	g_native = ops == "all" || ops == "native";
#define X(N,E) if (n == N && e == E) { if (mode == "exh") Run<N,E>::exhaustive(); else Run<N,E>::random(count); return 0; }
	SMALL(X)
	LARGE(X)
#undef X
	std::fprintf(stderr, "unsupported configuration %u %u\n", n, e);
	return 2;
}
