// h_blocks.cpp — property C12: the same operation on the same encodings for every BlockType, one line per operation:
//   blk integer <nbits> <op> <operands…>            => r_u8 r_u16 r_u32 [r_u64]      (u64 when nbits <= 64)
//   blk bb      <nbits> <op> <operands…>            => r_u8 r_u16 r_u32 [r_u64]      (u64 when nbits <= 32)
//   blk fixpnt  <nbits> <rbits> <M|S> <op> <ops…>   => r_u8 r_u16 r_u32
// sizes: nbits = k*bits(bt) + {-1,0,+1}.  usage: h_blocks <integer|bb|fixpnt> <nbits> [rbits M|S] <count>
// compile with -DUV_PART=1 (integer) | 2 (bb) | 3 (fixpnt) to build one family only.
#include "ops_integer.hpp"
#include "ops_bb.hpp"
#include "ops_fixpnt.hpp"

using uv::Big;

static int shiftCount(uv::Rng& g, unsigned nbits) {
	int k;
	switch (g.below(4)) {
	case 0: k = int(g.below(2 * nbits + 3)) - int(nbits) - 1; break;
	case 1: { unsigned w = 8u << g.below(3); int m = int(w) * int(g.below(nbits / w + 2)); k = m + int(g.below(3)) - 1; if (g.coin()) k = -k; break; }
	case 2: k = int(nbits) - int(g.below(3)) + 1; if (g.coin()) k = -k; break;
	default: k = int(g.below(nbits < 8 ? nbits : 8)) + 1; if (g.coin()) k = -k; break;
	}
	if (k > int(nbits) + 1) k = int(nbits) + 1;
	if (k < -int(nbits) - 1) k = -int(nbits) - 1;
	return k;
}

template<unsigned nbits> struct IntBlk {
	template<typename F> static void each(F f) {
		std::string s = f(uvint::IntOps<nbits, uint8_t>{}); s += ' '; s += f(uvint::IntOps<nbits, uint16_t>{}); s += ' '; s += f(uvint::IntOps<nbits, uint32_t>{});
		if constexpr (nbits <= 64) { s += ' '; s += f(uvint::IntOps<nbits, uint64_t>{}); }
		std::printf("%s\n", s.c_str());
	}
	static void run(uint64_t count) {
		using namespace uvint;
		uv::Rng g(uv::seed_from_env() * 1000003ull + nbits * 977ull + 1);
		const Op bops[] = { ADD, SUB, MUL, DIV, REM, AND, OR, XOR, CMP };
		const Op uops[] = { NEG, NOT, INC, DEC, TOI64, TOU64 };
		for (uint64_t i = 0; i < count; ++i) {
			Big a = uv::operand(g, nbits), b = uv::partner(g, a, nbits);
			for (Op op : bops) {
				if ((op == DIV || op == REM) && b.iszero()) continue;
				std::printf("blk integer %u %s %s %s => ", nbits, opname(op), a.hex().c_str(), b.hex().c_str());
				each([&](auto o) { return decltype(o)::bin(op, a, b); });
			}
			if ((i & 15) == 0) {
				// divisor -1: the exact-fit instantiation takes the native fast path (negation), the others the long division
				Big m1 = Big::ones(nbits), x = (i & 16) ? a : Big::pow2(nbits - 1).plus(int64_t(g.below(3)), nbits);
				for (Op op : { DIV, REM }) {
					std::printf("blk integer %u %s %s %s => ", nbits, opname(op), x.hex().c_str(), m1.hex().c_str());
					each([&](auto o) { return decltype(o)::bin(op, x, m1); });
				}
			}
			if (i & 1) continue;
			for (Op op : uops) {
				std::printf("blk integer %u %s %s => ", nbits, opname(op), a.hex().c_str());
				each([&](auto o) { return decltype(o)::un(op, a); });
			}
			int k = shiftCount(g, nbits);
			std::printf("blk integer %u shl %s %d => ", nbits, a.hex().c_str(), k); each([&](auto o) { return decltype(o)::sh(SHL, a, k); });
			std::printf("blk integer %u shr %s %d => ", nbits, a.hex().c_str(), k); each([&](auto o) { return decltype(o)::sh(SHR, a, k); });
			constexpr unsigned t0 = Targets<nbits>::t0, t2 = Targets<nbits>::t2, t4 = Targets<nbits>::t4;
			std::printf("blk integer %u cvt %u %s => ", nbits, t0, a.hex().c_str()); each([&](auto o) { return decltype(o)::template cvt<t0>(a); });
			std::printf("blk integer %u cvt %u %s => ", nbits, t2, a.hex().c_str()); each([&](auto o) { return decltype(o)::template cvt<t2>(a); });
			std::printf("blk integer %u cvt %u %s => ", nbits, t4, a.hex().c_str()); each([&](auto o) { return decltype(o)::template cvt<t4>(a); });
		}
	}
};

template<unsigned nbits> struct BbBlk {
	template<typename F> static void each(F f) {
		std::string s = f(uvbb::BbOps<nbits, uint8_t>{}); s += ' '; s += f(uvbb::BbOps<nbits, uint16_t>{}); s += ' '; s += f(uvbb::BbOps<nbits, uint32_t>{});
		if constexpr (nbits <= 32) { s += ' '; s += f(uvbb::BbOps<nbits, uint64_t>{}); }
		std::printf("%s\n", s.c_str());
	}
	static void run(uint64_t count) {
		using namespace uvbb;
		uv::Rng g(uv::seed_from_env() * 1000003ull + nbits * 977ull + 2);
		const Op bops[] = { ADD, SUB, MUL, DIV, REM, CMP, URADD, URSUB, URMUL2 };
		const Op uops[] = { NEG, INC, DEC, MSB };
		for (uint64_t i = 0; i < count; ++i) {
			Big a = uv::operand(g, nbits), b = uv::partner(g, a, nbits);
			for (Op op : bops) {
				if ((op == DIV || op == REM) && b.iszero()) continue;
				std::printf("blk bb %u %s %s %s => ", nbits, opname(op), a.hex().c_str(), b.hex().c_str());
				each([&](auto o) { return decltype(o)::bin(op, a, b); });
			}
			if ((i & 15) == 0) {
				// divisor -1: the exact-fit instantiation takes the native fast path (negation), the others the long division
				Big m1 = Big::ones(nbits), x = (i & 16) ? a : Big::pow2(nbits - 1).plus(int64_t(g.below(3)), nbits);
				for (Op op : { DIV, REM }) {
					std::printf("blk bb %u %s %s %s => ", nbits, opname(op), x.hex().c_str(), m1.hex().c_str());
					each([&](auto o) { return decltype(o)::bin(op, x, m1); });
				}
			}
			if (i & 1) continue;
			for (Op op : uops) {
				std::printf("blk bb %u %s %s => ", nbits, opname(op), a.hex().c_str());
				each([&](auto o) { return decltype(o)::un(op, a); });
			}
			int k = shiftCount(g, nbits);
			std::printf("blk bb %u shl %s %d => ", nbits, a.hex().c_str(), k); each([&](auto o) { return decltype(o)::sh(SHL, a, k); });
			std::printf("blk bb %u shr %s %d => ", nbits, a.hex().c_str(), k); each([&](auto o) { return decltype(o)::sh(SHR, a, k); });
			int t = int(g.below(nbits + 2));
			std::printf("blk bb %u rmode %s %d => ", nbits, a.hex().c_str(), t); each([&](auto o) { return decltype(o)::sh(RMODE, a, t); });
			std::printf("blk bb %u any %s %d => ", nbits, a.hex().c_str(), t); each([&](auto o) { return decltype(o)::sh(ANY, a, t); });
		}
	}
};

template<unsigned nbits, unsigned rbits, bool arith> struct FixBlk {
	template<typename F> static void each(F f) {
		std::string s = f(uvfix::FixOps<nbits, rbits, arith, uint8_t>{}); s += ' '; s += f(uvfix::FixOps<nbits, rbits, arith, uint16_t>{}); s += ' '; s += f(uvfix::FixOps<nbits, rbits, arith, uint32_t>{});
		std::printf("%s\n", s.c_str());
	}
	static void hdr(const char* op) { std::printf("blk fixpnt %u %u %c %s ", nbits, rbits, arith == sw::universal::Modulo ? 'M' : 'S', op); }
	static void run(uint64_t count) {
		using namespace uvfix;
		uv::Rng g(uv::seed_from_env() * 1000003ull + nbits * 977ull + rbits * 13ull + (arith ? 3 : 4));
		const Op bops[] = { ADD, SUB, MUL, DIV, CMP };
		const Op uops[] = { NEG, INC, DEC };
		for (uint64_t i = 0; i < count; ++i) {
			Big a = uv::operand(g, nbits), b = uv::partner(g, a, nbits);
			for (Op op : bops) {
				if (op == DIV && (b.iszero() || (i % 4) != 0)) continue;   // division is the slow one in the model
				hdr(opname(op)); std::printf("%s %s => ", a.hex().c_str(), b.hex().c_str());
				each([&](auto o) { return decltype(o)::bin(op, a, b); });
			}
			if (i & 1) continue;
			for (Op op : uops) {
				hdr(opname(op)); std::printf("%s => ", a.hex().c_str());
				each([&](auto o) { return decltype(o)::un(op, a); });
			}
			int k = shiftCount(g, nbits);
			hdr("shl"); std::printf("%s %d => ", a.hex().c_str(), k); each([&](auto o) { return decltype(o)::sh(SHL, a, k); });
			hdr("shr"); std::printf("%s %d => ", a.hex().c_str(), k); each([&](auto o) { return decltype(o)::sh(SHR, a, k); });
		}
	}
};

#ifndef UV_PART
#define UV_PART 0
#endif

#define INT_SIZES(X) X(7) X(8) X(9) X(15) X(16) X(17) X(23) X(24) X(25) X(31) X(32) X(33) X(47) X(48) X(49) X(63) X(64) X(65) X(95) X(96) X(97) X(127) X(128) X(129)
#define BB_SIZES(X) X(7) X(8) X(9) X(15) X(16) X(17) X(23) X(24) X(25) X(31) X(32) X(33) X(47) X(48) X(49) X(63) X(64) X(65)
#define FIX_SIZES(X) X(7,3) X(8,4) X(9,4) X(15,7) X(16,8) X(17,8) X(23,11) X(24,12) X(25,12) X(31,15) X(32,16) X(33,16) X(47,23) X(48,24) X(49,24) X(63,31) X(64,32) X(65,32)

int main(int argc, char** argv) {
	if (argc < 4) { std::fprintf(stderr, "usage: h_blocks integer|bb|fixpnt nbits [rbits M|S] count\n"); return 2; }
	uv::Out out;
	uv::install_fpe_handler();
	std::string fam = argv[1];
	unsigned n = (unsigned)std::atoi(argv[2]);
#if UV_PART == 0 || UV_PART == 1
	if (fam == "integer") {
		uint64_t count = std::strtoull(argv[3], nullptr, 10);
#define X(N) if (n == N) { uv::silence_stderr(); IntBlk<N>::run(count); return 0; }
		INT_SIZES(X)
#undef X
	}
#endif
#if UV_PART == 0 || UV_PART == 2
	if (fam == "bb") {
		uint64_t count = std::strtoull(argv[3], nullptr, 10);
#define X(N) if (n == N) { uv::silence_stderr(); BbBlk<N>::run(count); return 0; }
		BB_SIZES(X)
#undef X
	}
#endif
#if UV_PART == 0 || UV_PART == 3
	if (fam == "fixpnt" && argc >= 6) {
		unsigned r = (unsigned)std::atoi(argv[3]);
		bool modulo = argv[4][0] == 'M';
		uint64_t count = std::strtoull(argv[5], nullptr, 10);
#define X(N,R) if (n == N && r == R) { uv::silence_stderr(); if (modulo) FixBlk<N,R,sw::universal::Modulo>::run(count); else FixBlk<N,R,sw::universal::Saturate>::run(count); return 0; }
		FIX_SIZES(X)
#undef X
	}
#endif
	std::fprintf(stderr, "unsupported configuration\n");
	return 2;
}
