/* h_capi.c — transcript of the posit C API for property C11. One source, two builds:
 *   purec : gcc -std=c11, linked with $REPO/c_api/pure_c/posit/posit8.c            (-DCAPI_IMPL="purec")
 *   shim  : g++ (this file is then C++), linked with $REPO/c_api/shim/posit/posit_c_api.cpp  (-DCAPI_IMPL="shim")
 * Every API function is referenced through a weak declaration, so that the functions one library does not provide
 * are simply skipped (and reported by `api`).
 *   h_capi exh <nbits>            every operand (pair)                nbits = 4, 8
 *   h_capi rnd <nbits> <count>    structured operand pairs            nbits = 16, 32, 64
 *   h_capi api <nbits>            which functions the library defines
 * line: fast <purec|shim> <nbits> <es> <op> <a> [<b>] => <r>     (same ops as h_fast.cpp, plus cmp3)
 */
#include <universal/number/posit/posit_c_api.h>
#include <stdio.h>
#include <stdlib.h>
#include <string.h>
#include <stdint.h>
#include <math.h>

#ifndef CAPI_IMPL
#define CAPI_IMPL "purec"
#endif
typedef unsigned long long ull;

#ifdef __cplusplus
extern "C" {
#endif
/* functions of posit_8_0.h that posit_c_api.h does not declare */
posit8_t posit8_negate(posit8_t p);
posit8_t posit8_reciprocal(posit8_t rhs);
bool posit8_equal(posit8_t, posit8_t); bool posit8_notEqual(posit8_t, posit8_t); bool posit8_lessThan(posit8_t, posit8_t);
bool posit8_greaterThan(posit8_t, posit8_t); bool posit8_lessOrEqual(posit8_t, posit8_t); bool posit8_greaterOrEqual(posit8_t, posit8_t);
#ifdef __cplusplus
}
#endif
#pragma weak posit8_negate
#pragma weak posit8_reciprocal
#pragma weak posit8_equal
#pragma weak posit8_notEqual
#pragma weak posit8_lessThan
#pragma weak posit8_greaterThan
#pragma weak posit8_lessOrEqual
#pragma weak posit8_greaterOrEqual

#define WEAKS(N) \
	_Pragma(STR(weak posit##N##_addp##N)) _Pragma(STR(weak posit##N##_subp##N)) _Pragma(STR(weak posit##N##_mulp##N)) _Pragma(STR(weak posit##N##_divp##N)) \
	_Pragma(STR(weak posit##N##_cmpp##N)) _Pragma(STR(weak posit##N##_sqrt)) \
	_Pragma(STR(weak posit##N##_fromsi)) _Pragma(STR(weak posit##N##_fromsl)) _Pragma(STR(weak posit##N##_fromsll)) \
	_Pragma(STR(weak posit##N##_fromui)) _Pragma(STR(weak posit##N##_fromul)) _Pragma(STR(weak posit##N##_fromull)) \
	_Pragma(STR(weak posit##N##_fromf)) _Pragma(STR(weak posit##N##_fromd)) \
	_Pragma(STR(weak posit##N##_tosi)) _Pragma(STR(weak posit##N##_tosl)) _Pragma(STR(weak posit##N##_tosll)) \
	_Pragma(STR(weak posit##N##_toui)) _Pragma(STR(weak posit##N##_toul)) _Pragma(STR(weak posit##N##_toull)) \
	_Pragma(STR(weak posit##N##_tof)) _Pragma(STR(weak posit##N##_tod))
#define STR(x) #x
WEAKS(4) WEAKS(8) WEAKS(16) WEAKS(32) WEAKS(64)

typedef struct {
	unsigned n, es;
	int has_add, has_sub, has_mul, has_div, has_cmp3, has_sqrt, has_fi, has_fl, has_fll, has_fui, has_ful, has_full, has_ff, has_fd,
	    has_ti, has_tl, has_tll, has_tui, has_tul, has_tull, has_tf, has_td;
	uint64_t (*add)(uint64_t, uint64_t); uint64_t (*sub)(uint64_t, uint64_t); uint64_t (*mul)(uint64_t, uint64_t); uint64_t (*div)(uint64_t, uint64_t);
	int (*cmp3)(uint64_t, uint64_t); uint64_t (*sqrt_)(uint64_t);
	uint64_t (*fi)(int); uint64_t (*fl)(long); uint64_t (*fll)(long long);
	uint64_t (*fui)(unsigned int); uint64_t (*ful)(unsigned long); uint64_t (*full)(unsigned long long);
	uint64_t (*ff)(float); uint64_t (*fd)(double);
	int (*ti)(uint64_t); long (*tl)(uint64_t); long long (*tll)(uint64_t);
	unsigned int (*tui)(uint64_t); unsigned long (*tul)(uint64_t); unsigned long long (*tull)(uint64_t);
	float (*tf)(uint64_t); double (*td)(uint64_t);
} api_t;

#define WRAPPERS(N, UT) \
	static posit##N##_t mk##N(uint64_t a) { return posit##N##_reinterpret((UT)a); } \
	static uint64_t add##N(uint64_t a, uint64_t b) { return posit##N##_bits(posit##N##_addp##N(mk##N(a), mk##N(b))); } \
	static uint64_t sub##N(uint64_t a, uint64_t b) { return posit##N##_bits(posit##N##_subp##N(mk##N(a), mk##N(b))); } \
	static uint64_t mul##N(uint64_t a, uint64_t b) { return posit##N##_bits(posit##N##_mulp##N(mk##N(a), mk##N(b))); } \
	static uint64_t div##N(uint64_t a, uint64_t b) { return posit##N##_bits(posit##N##_divp##N(mk##N(a), mk##N(b))); } \
	static int cmp3##N(uint64_t a, uint64_t b) { return posit##N##_cmpp##N(mk##N(a), mk##N(b)); } \
	static uint64_t sqrt##N(uint64_t a) { return posit##N##_bits(posit##N##_sqrt(mk##N(a))); } \
	static uint64_t fi##N(int x) { return posit##N##_bits(posit##N##_fromsi(x)); } \
	static uint64_t fl##N(long x) { return posit##N##_bits(posit##N##_fromsl(x)); } \
	static uint64_t fll##N(long long x) { return posit##N##_bits(posit##N##_fromsll(x)); } \
	static uint64_t fui##N(unsigned int x) { return posit##N##_bits(posit##N##_fromui(x)); } \
	static uint64_t ful##N(unsigned long x) { return posit##N##_bits(posit##N##_fromul(x)); } \
	static uint64_t full##N(unsigned long long x) { return posit##N##_bits(posit##N##_fromull(x)); } \
	static uint64_t ff##N(float x) { return posit##N##_bits(posit##N##_fromf(x)); } \
	static uint64_t fd##N(double x) { return posit##N##_bits(posit##N##_fromd(x)); } \
	static int ti##N(uint64_t a) { return posit##N##_tosi(mk##N(a)); } \
	static long tl##N(uint64_t a) { return posit##N##_tosl(mk##N(a)); } \
	static long long tll##N(uint64_t a) { return posit##N##_tosll(mk##N(a)); } \
	static unsigned int tui##N(uint64_t a) { return posit##N##_toui(mk##N(a)); } \
	static unsigned long tul##N(uint64_t a) { return posit##N##_toul(mk##N(a)); } \
	static unsigned long long tull##N(uint64_t a) { return posit##N##_toull(mk##N(a)); } \
	static float tf##N(uint64_t a) { return posit##N##_tof(mk##N(a)); } \
	static double td##N(uint64_t a) { return posit##N##_tod(mk##N(a)); } \
	static void fill##N(api_t* t, unsigned es) { \
		memset(t, 0, sizeof *t); t->n = N; t->es = es; \
		t->has_add = posit##N##_addp##N != 0; t->has_sub = posit##N##_subp##N != 0; t->has_mul = posit##N##_mulp##N != 0; t->has_div = posit##N##_divp##N != 0; \
		t->has_cmp3 = posit##N##_cmpp##N != 0; t->has_sqrt = posit##N##_sqrt != 0; \
		t->has_fi = posit##N##_fromsi != 0; t->has_fl = posit##N##_fromsl != 0; t->has_fll = posit##N##_fromsll != 0; \
		t->has_fui = posit##N##_fromui != 0; t->has_ful = posit##N##_fromul != 0; t->has_full = posit##N##_fromull != 0; \
		t->has_ff = posit##N##_fromf != 0; t->has_fd = posit##N##_fromd != 0; \
		t->has_ti = posit##N##_tosi != 0; t->has_tl = posit##N##_tosl != 0; t->has_tll = posit##N##_tosll != 0; \
		t->has_tui = posit##N##_toui != 0; t->has_tul = posit##N##_toul != 0; t->has_tull = posit##N##_toull != 0; \
		t->has_tf = posit##N##_tof != 0; t->has_td = posit##N##_tod != 0; \
		t->add = add##N; t->sub = sub##N; t->mul = mul##N; t->div = div##N; t->cmp3 = cmp3##N; t->sqrt_ = sqrt##N; \
		t->fi = fi##N; t->fl = fl##N; t->fll = fll##N; t->fui = fui##N; t->ful = ful##N; t->full = full##N; t->ff = ff##N; t->fd = fd##N; \
		t->ti = ti##N; t->tl = tl##N; t->tll = tll##N; t->tui = tui##N; t->tul = tul##N; t->tull = tull##N; t->tf = tf##N; t->td = td##N; }

WRAPPERS(4, uint8_t) WRAPPERS(8, uint8_t) WRAPPERS(16, uint16_t) WRAPPERS(32, uint32_t) WRAPPERS(64, uint64_t)

static api_t A;
static const char* IMPL = CAPI_IMPL;

/* ---------------- PRNG (same generator as proto.hpp) ---------------- */
static uint64_t rs;
static void rinit(uint64_t seed) { rs = seed * 0x9E3779B97F4A7C15ull + 0xD1B54A32D192ED03ull; if (!rs) rs = 1; }
static uint64_t rnext(void) { rs ^= rs >> 12; rs ^= rs << 25; rs ^= rs >> 27; return rs * 0x2545F4914F6CDD1Dull; }
static uint64_t rbelow(uint64_t n) { return n ? rnext() % n : 0; }
static int rcoin(void) { return (int)(rnext() & 1); }
static uint64_t seed_env(void) { const char* e = getenv("VERIF_SEED"); return e ? strtoull(e, 0, 10) : 1ull; }
static uint64_t maskn(unsigned n) { return n >= 64 ? ~0ull : ((1ull << n) - 1); }

/* independent decode of a positive posit magnitude (n <= 34) — exact in double */
static double pval(unsigned n, unsigned es, uint64_t y) {
	int i = (int)n - 2;
	int r0 = (int)((y >> i) & 1), m = 0;
	while (i >= 0 && (int)((y >> i) & 1) == r0) { ++m; --i; }
	int k = r0 ? m - 1 : -m;
	--i;
	int nrem = i + 1; if (nrem < 0) nrem = 0;
	uint64_t tail = nrem ? (y & maskn((unsigned)nrem)) : 0;
	int ne = (int)es < nrem ? (int)es : nrem;
	uint64_t e = ne ? (tail >> (nrem - ne)) << (es - ne) : 0;
	int nf = nrem - ne;
	uint64_t f = nf ? (tail & maskn((unsigned)nf)) : 0;
	return ldexp(1.0 + ldexp((double)f, -nf), k * (1 << es) + (int)e);
}
static double val(uint64_t a) {
	uint64_t M = maskn(A.n), NARE = 1ull << (A.n - 1);
	a &= M;
	if (a == 0) return 0.0;
	if (a == NARE) return NAN;
	if (a & NARE) return -pval(A.n, A.es, (~a + 1) & M);
	return pval(A.n, A.es, a);
}

static void put_s(const char* op, long long src, ull r) {
	if (src < 0) printf("fast %s %u %u %s -%llx => %llx\n", IMPL, A.n, A.es, op, (ull)(-(unsigned long long)src), r);
	else printf("fast %s %u %u %s %llx => %llx\n", IMPL, A.n, A.es, op, (ull)src, r);
}
static void put_u(const char* op, ull src, ull r) { printf("fast %s %u %u %s %llx => %llx\n", IMPL, A.n, A.es, op, src, r); }
static void put_ts(const char* op, ull a, long long r) {
	if (r < 0) printf("fast %s %u %u %s %llx => -%llx\n", IMPL, A.n, A.es, op, a, (ull)(-(unsigned long long)r));
	else printf("fast %s %u %u %s %llx => %llx\n", IMPL, A.n, A.es, op, a, (ull)r);
}
static void put_f(const char* op, ull a, float f) {
	uint32_t b; memcpy(&b, &f, 4);
	if (f != f) printf("fast %s %u %u %s %llx => nan\n", IMPL, A.n, A.es, op, a); else printf("fast %s %u %u %s %llx => %x\n", IMPL, A.n, A.es, op, a, b);
}
static void put_d(const char* op, ull a, double d) {
	uint64_t b; memcpy(&b, &d, 8);
	if (d != d) printf("fast %s %u %u %s %llx => nan\n", IMPL, A.n, A.es, op, a); else printf("fast %s %u %u %s %llx => %llx\n", IMPL, A.n, A.es, op, a, (ull)b);
}

static void binary(uint64_t a, uint64_t b) {
	if (A.has_add) printf("fast %s %u %u add %llx %llx => %llx\n", IMPL, A.n, A.es, (ull)a, (ull)b, (ull)A.add(a, b));
	if (A.has_sub) printf("fast %s %u %u sub %llx %llx => %llx\n", IMPL, A.n, A.es, (ull)a, (ull)b, (ull)A.sub(a, b));
	if (A.has_mul) printf("fast %s %u %u mul %llx %llx => %llx\n", IMPL, A.n, A.es, (ull)a, (ull)b, (ull)A.mul(a, b));
	if (A.has_div) printf("fast %s %u %u div %llx %llx => %llx\n", IMPL, A.n, A.es, (ull)a, (ull)b, (ull)A.div(a, b));
	if (A.has_cmp3) {
		int c = A.cmp3(a, b);
		if (c < 0) printf("fast %s %u %u cmp3 %llx %llx => -%x\n", IMPL, A.n, A.es, (ull)a, (ull)b, (unsigned)(-c));
		else printf("fast %s %u %u cmp3 %llx %llx => %x\n", IMPL, A.n, A.es, (ull)a, (ull)b, (unsigned)c);
	}
	if (A.n == 8 && posit8_equal && posit8_notEqual && posit8_lessThan && posit8_lessOrEqual && posit8_greaterThan && posit8_greaterOrEqual) {
		posit8_t x = posit8_reinterpret((uint8_t)a), y = posit8_reinterpret((uint8_t)b);
		unsigned m = (posit8_equal(x, y) ? 1u : 0u) | (posit8_notEqual(x, y) ? 2u : 0u) | (posit8_lessThan(x, y) ? 4u : 0u) | (posit8_lessOrEqual(x, y) ? 8u : 0u)
			| (posit8_greaterThan(x, y) ? 16u : 0u) | (posit8_greaterOrEqual(x, y) ? 32u : 0u);
		printf("fast %s %u %u cmp %llx %llx => %x\n", IMPL, A.n, A.es, (ull)a, (ull)b, m);
	}
}
static void unary(uint64_t a) {
	if (A.has_sqrt && A.n <= 32) printf("fast %s %u %u sqrt %llx => %llx\n", IMPL, A.n, A.es, (ull)a, (ull)A.sqrt_(a));
	if (A.n == 8 && posit8_negate) printf("fast %s %u %u neg %llx => %llx\n", IMPL, A.n, A.es, (ull)a, (ull)posit8_bits(posit8_negate(posit8_reinterpret((uint8_t)a))));
	if (A.n == 8 && posit8_reciprocal) printf("fast %s %u %u rec %llx => %llx\n", IMPL, A.n, A.es, (ull)a, (ull)posit8_bits(posit8_reciprocal(posit8_reinterpret((uint8_t)a))));
	if (A.n > 32) return;
	if (A.has_td) put_d("td", a, A.td(a));
	if (A.has_tf) put_f("tf", a, A.tf(a));
	double v = val(a);
	if (v != v) return;
	double t = trunc(v);
	if (fabs(t) < 2147483648.0 && A.has_ti) put_ts("ti", a, (long long)A.ti(a));
	if (fabs(t) < 9223372036854775808.0) {
		if (A.has_tl) put_ts("tl", a, (long long)A.tl(a));
		if (A.has_tll) put_ts("tll", a, A.tll(a));
	}
	if (v > -1.0 && t < 4294967296.0 && A.has_tui) put_u("tui", a, (ull)A.tui(a));
	if (v > -1.0 && t < 18446744073709551616.0) {
		if (A.has_tul) put_u("tul", a, (ull)A.tul(a));
		if (A.has_tull) put_u("tull", a, (ull)A.tull(a));
	}
}
static void from_int_all(long long x);
static void from_uint_all(ull x) {
	if (x <= 4294967295ull && A.has_fui) put_u("fui", x, (ull)A.fui((unsigned int)x));
	if (A.has_ful) put_u("ful", x, (ull)A.ful((unsigned long)x));
	if (A.has_full) put_u("full", x, (ull)A.full(x));
}
static void from_int_all(long long x) {
	if (x > -2147483647LL - 1 && x <= 2147483647LL && A.has_fi)   /* INT_MIN: `-rhs` overflows in posit8_fromsi (UB) */ put_s("fi", x, (ull)A.fi((int)x));
	if (A.has_fl) put_s("fl", x, (ull)A.fl((long)x));
	if (A.has_fll) put_s("fll", x, (ull)A.fll(x));
	if (x >= 0) from_uint_all((ull)x);
}
static void from_float(float f) { uint32_t b; memcpy(&b, &f, 4); if (A.has_ff) printf("fast %s %u %u ff %x => %llx\n", IMPL, A.n, A.es, b, (ull)A.ff(f)); }
static void from_double(double d) { uint64_t b; memcpy(&b, &d, 8); if (A.has_fd) printf("fast %s %u %u fd %llx => %llx\n", IMPL, A.n, A.es, (ull)b, (ull)A.fd(d)); }
static void sources_around(double x) {
	int sgn;
	for (sgn = 0; sgn < 2; ++sgn) {
		double s = sgn ? -x : x;
		float f = (float)s;
		from_double(s); from_double(nextafter(s, 1e300)); from_double(nextafter(s, -1e300));
		from_float(f); from_float(nextafterf(f, 1e38f)); from_float(nextafterf(f, -1e38f));
		if (fabs(s) < 9.2e18) {
			long long fl = (long long)floor(s), ce = (long long)ceil(s);
			from_int_all(fl); from_int_all(ce); from_int_all(fl - 1); from_int_all(ce + 1);
		}
		if (s > 0 && s < 1.8e19) {
			ull fl = (ull)floor(s), ce = (ull)ceil(s);
			from_uint_all(fl); from_uint_all(ce); if (fl) from_uint_all(fl - 1); from_uint_all(ce + 1);
		}
	}
}
static void lattice_point(uint64_t U) {
	uint64_t NARE = 1ull << (A.n - 1);
	if (A.n > 32) return;
	sources_around(pval(A.n, A.es, U));
	if (U + 1 < NARE) sources_around(pval(A.n + 1, A.es, 2 * U + 1));
	else { double mp = pval(A.n, A.es, U); sources_around(mp * 2); sources_around(mp * 1.5); }
	if (U == 1) { double mp = pval(A.n, A.es, 1); sources_around(mp / 2); sources_around(mp / 4); sources_around(mp * 0.75); }
}
static void fixed_sources(void) {
	const long long I[] = { 0, 1, -1, 2, -2, 3, -3, 2147483647LL, -2147483647LL - 1, 2147483648LL, 4294967295LL, 4294967296LL, 4294967297LL,
		(1LL << 53) - 1, 1LL << 53, (1LL << 53) + 1, -((1LL << 53) + 1), (1LL << 62), 9223372036854775807LL, -9223372036854775807LL };
	const ull Uv[] = { 9223372036854775807ull, 9223372036854775808ull, 9223372036854775809ull, 18446744073709551615ull, 18446744073709551614ull };
	const double D[] = { 0.0, -0.0, 1.0, -1.0, INFINITY, -INFINITY, NAN, 4.9406564584124654e-324, 2.2250738585072014e-308, 1.7976931348623157e308,
		-1.7976931348623157e308, 9007199254740993.0, 0.1, 1.0 / 3.0, 3.14159265358979 };
	unsigned i;
	for (i = 0; i < sizeof I / sizeof I[0]; ++i) from_int_all(I[i]);
	for (i = 0; i < sizeof Uv / sizeof Uv[0]; ++i) from_uint_all(Uv[i]);
	for (i = 0; i < sizeof D / sizeof D[0]; ++i) { from_double(D[i]); from_float((float)D[i]); }
	from_float(1.4012984643248171e-45f); from_float(1.1754943508222875e-38f); from_float(3.4028234663852886e38f); from_float(16777217.0f);
}
static void random_sources(unsigned count) {
	unsigned i;
	for (i = 0; i < count; ++i) {
		int lim = (int)(A.n - 2) * (1 << A.es) + 3;
		int e; double d; ull u;
		if (lim > 1000) lim = 1000;
		e = (int)rbelow((uint64_t)(2 * lim + 1)) - lim;
		d = ldexp(1.0 + (double)(rnext() >> 12) * 0x1p-52, e);
		if (rcoin()) d = -d;
		from_double(d); from_float((float)d);
		u = rnext() >> rbelow(64);
		from_uint_all(u); from_int_all((long long)(u >> 1)); from_int_all(-(long long)(u >> 1));
	}
}
static uint64_t operand(void) {
	unsigned nbits = A.n; uint64_t M = maskn(nbits);
	switch (rbelow(8)) {
	case 0: return rnext() & M;
	case 1: {
		unsigned run = 1 + (unsigned)rbelow(nbits - 1);
		uint64_t body = rnext() & maskn(nbits - 1);
		uint64_t reg = rcoin() ? (maskn(run) << (nbits - 1 - run)) : 0;
		uint64_t term = run < nbits - 1 ? (reg ? 0 : (1ull << (nbits - 2 - run))) : 0;
		uint64_t rest = run + 1 < nbits - 1 ? (body & maskn(nbits - 2 - run)) : 0;
		uint64_t y = (reg & maskn(nbits - 1)) | term | rest;
		if (reg == 0 && run >= nbits - 1) y = 1;
		return rcoin() ? y : ((~y + 1) & M);
	}
	case 2: { uint64_t d = rbelow(4); return (rcoin() ? (1 + d) : ((M >> 1) - d)) & M; }
	case 3: { uint64_t d = rbelow(4); return (rcoin() ? (M - d) : ((M >> 1) + 2 + d)) & M; }
	case 4: { uint64_t y = rnext() & maskn(nbits - 1); unsigned z = (unsigned)rbelow(nbits); y &= ~maskn(z); if (!y) y = 1ull << (nbits - 2); return rcoin() ? y : ((~y + 1) & M); }
	case 5: { uint64_t y = rnext() & maskn(nbits - 1); unsigned z = (unsigned)rbelow(nbits - 1); y |= maskn(z); return rcoin() ? y : ((~y + 1) & M); }
	case 6: return rcoin() ? 0 : (1ull << (nbits - 1));
	default: { uint64_t one = 1ull << (nbits - 2); int64_t d = (int64_t)rbelow(33) - 16; uint64_t y = (one + (uint64_t)d) & M; return rcoin() ? y : ((~y + 1) & M); }
	}
}

int main(int argc, char** argv) {
	static char buf[1 << 20];
	unsigned n; uint64_t count, i;
	if (argc < 3) { fprintf(stderr, "usage: h_capi exh|rnd|api nbits [count]\n"); return 2; }
	setvbuf(stdout, buf, _IOFBF, sizeof buf);
	if (!freopen("/dev/null", "w", stderr)) { /* keep going */ }
	n = (unsigned)atoi(argv[2]);
	count = argc > 3 ? strtoull(argv[3], 0, 10) : 1000;
	switch (n) {
	case 4: fill4(&A, 0); break;
	case 8: fill8(&A, 0); break;
	case 16: fill16(&A, 1); break;
	case 32: fill32(&A, 2); break;
	case 64: fill64(&A, 3); break;
	default: return 2;
	}
	rinit(seed_env() * 1000003ull + n * 131ull + A.es);
	if (!strcmp(argv[1], "api")) {
#define HAS(name, v) printf("fast %s %u %u has %s => %d\n", IMPL, A.n, A.es, name, (int)(v))
		HAS("add", A.has_add); HAS("sub", A.has_sub); HAS("mul", A.has_mul); HAS("div", A.has_div); HAS("cmp3", A.has_cmp3); HAS("sqrt", A.has_sqrt);
		HAS("fi", A.has_fi); HAS("fl", A.has_fl); HAS("fll", A.has_fll); HAS("fui", A.has_fui); HAS("ful", A.has_ful); HAS("full", A.has_full);
		HAS("ff", A.has_ff); HAS("fd", A.has_fd); HAS("ti", A.has_ti); HAS("tl", A.has_tl); HAS("tll", A.has_tll);
		HAS("tui", A.has_tui); HAS("tul", A.has_tul); HAS("tull", A.has_tull); HAS("tf", A.has_tf); HAS("td", A.has_td);
		return 0;
	}
	if (!strcmp(argv[1], "exh")) {
		uint64_t N = 1ull << n, a, b, U;
		if (n > 8) return 2;
		for (a = 0; a < N; ++a) { unary(a); for (b = 0; b < N; ++b) binary(a, b); }
		fixed_sources();
		for (U = 1; U < (N >> 1); ++U) lattice_point(U);
		random_sources(2000);
		return 0;
	}
	fixed_sources();
	for (i = 0; i < count; ++i) {
		uint64_t M = maskn(n), a = operand(), b;
		switch (rbelow(6)) {
		case 0: case 1: b = operand(); break;
		case 2: b = ((~a + 1) + (uint64_t)((int64_t)rbelow(9) - 4)) & M; break;
		case 3: b = (a + (uint64_t)((int64_t)rbelow(9) - 4)) & M; break;
		case 4: b = a ^ (rnext() & maskn((unsigned)rbelow(n))); break;
		default: b = (rcoin() ? a : ((~a + 1) & M)) ^ (1ull << rbelow(n)); break;
		}
		binary(a, b);
		if ((i & 3) == 0) unary(a);
		if ((i & 15) == 0) {
			uint64_t U = a & ((1ull << (n - 1)) - 1); if (U == 0) U = 1;
			lattice_point(U);
			random_sources(1);
		}
	}
	return 0;
}
