// h_cfloat.cpp — transcript of cfloat<nbits,es,bt,sub,sup,sat> (classic floats with configurable
// subnormals / supernormals / saturation) from the real headers.
//
// usage: h_cfloat exh <nbits> <es> <u8|u16|u32> <flags sub sup sat e.g. 110> <count> <opset>
//        h_cfloat rnd <nbits> <es> <u8|u16|u32> <flags>                      <count> <opset>
//        h_cfloat ld  <nbits> <es> <u8|u16|u32> <flags>                      <count> <opset>   (long double lines only:
//                     configurations with es > 11 and / or more than 64 bits, instantiated in the UV_PART=0 unit)
// opset: arith (add sub mul div) | order (cmp inc dec lim) | tonat (todbl toflt rtd rtf toll told rtld) |
//        fromnat (fromd fromf fromld fromi<w> fromu<w>) | all
// long double (x86-64, 64-bit significand) appears in the transcript as the virtual pattern sign | 15 exponent bits |
// 63 fraction bits (the explicit integer bit is dropped; only valid operands are produced):
//   fromld <pattern> => <encoding>      cfloat::operator=(long double)  (convert_ieee754<long double>)
//   told <encoding> => <pattern | nan>  explicit operator long double() (to_native<long double>)
//   rtld <encoding> => <encoding>       the round trip through long double
//
// line format:  cfloat <nbits> <es> <bt> <flags> <op> <in…> => <out…>
//   encodings are the whole block storage (so a bit above nbits is visible), lower-case hex.
//   For the IEEE-shaped configurations single (32,8,sub) and duble (64,11,sub) the arithmetic lines carry a
//   second output token: the result of the hardware float/double operation on the same operands
//   (IEEE bits in hex, or `nan`).
// The translation unit is compiled several times with -DUV_PART=8|16|32 (small configurations on that block
// type) and -DUV_PART=0 (large configurations) so that the compile time per TU stays bounded.
#include <universal/number/cfloat/cfloat.hpp>
#include <limits>
#include <cmath>
#include <cfloat>
#include "proto.hpp"

#ifndef UV_PART
#define UV_PART 8
#endif

using namespace sw::universal;
typedef unsigned long long ull;

static bool g_arith = true, g_order = true, g_tonat = true, g_fromnat = true;

template<typename bt> struct BtName;
template<> struct BtName<uint8_t>  { static const char* s() { return "u8"; } };
template<> struct BtName<uint16_t> { static const char* s() { return "u16"; } };
template<> struct BtName<uint32_t> { static const char* s() { return "u32"; } };

// ---------------------------------------------------------------------------------------------- long double
#if defined(__x86_64__) && __LDBL_MANT_DIG__ == 64 && LONG_DOUBLE_SUPPORT
#define UV_LD80 1
#else
#define UV_LD80 0
#endif
typedef unsigned __int128 u128;
#if UV_LD80
static u128 ld2pat(long double x) {
	unsigned char raw[16] = { 0 }; std::memcpy(raw, &x, 10);
	uint64_t m; uint16_t se; std::memcpy(&m, raw, 8); std::memcpy(&se, raw + 8, 2);
	return (u128(se) << 63) | u128(m & 0x7fffffffffffffffull);
}
static long double pat2ld(u128 p) {
	uint16_t se = uint16_t(p >> 63); uint64_t m = uint64_t(p) & 0x7fffffffffffffffull;
	if (se & 0x7fff) m |= 1ull << 63;      // integer bit of normals, infinities and NaNs
	unsigned char raw[16] = { 0 }; std::memcpy(raw, &m, 8); std::memcpy(raw + 8, &se, 2);
	long double x; std::memcpy(&x, raw, sizeof x); return x;
}
#endif
static const char* hx(u128 v) {
	static char buf[8][40]; static unsigned k; char* b = buf[k++ & 7];
	uint64_t hi = uint64_t(v >> 64), lo = uint64_t(v);
	if (hi) std::snprintf(b, 40, "%llx%016llx", (ull)hi, (ull)lo); else std::snprintf(b, 40, "%llx", (ull)lo);
	return b;
}

// long double lines of one configuration; encodings are unsigned __int128 so that cfloat<80,15> is covered
template<unsigned nbits, unsigned es, typename bt, bool sub, bool sup, bool sat>
struct RunLD {
	using C = cfloat<nbits, es, bt, sub, sup, sat>;
	static constexpr unsigned fbits = nbits - 1 - es;
	static constexpr unsigned bpb = 8 * sizeof(bt);
	static constexpr int bias = (1 << (es - 1)) - 1;
	static constexpr int minExpSub = 1 - bias - int(fbits);
	static constexpr unsigned EMAX = (1u << es) - 1;
	static char hdr[64];
	static void init() { std::snprintf(hdr, sizeof hdr, "cfloat %u %u %s %d%d%d", nbits, es, BtName<bt>::s(), int(sub), int(sup), int(sat)); }
	static u128 M() { return (u128(1) << nbits) - 1; }
	static u128 FM() { return (u128(1) << fbits) - 1; }
	static u128 enc(const C& c) { u128 v = 0; for (int b = int(C::nrBlocks) - 1; b >= 0; --b) v = (v << bpb) | u128(c.block(unsigned(b))); return v; }
	static C mk(u128 e) { C c; for (unsigned i = 0; i < C::nrBlocks; ++i) c.setblock(i, bt(e >> (bpb * i))); return c; }
#if UV_LD80
	// exact value of a finite encoding, computed from the fields (NOT with to_native); ok = long double holds it exactly
	static long double value(u128 e, bool& ok) {
		u128 f = e & FM(); unsigned ex = unsigned((e >> fbits) & EMAX); bool neg = (e >> (nbits - 1)) & 1;
		u128 sig; int sc;
		if (ex == 0) { sig = sub ? f : 0; sc = minExpSub; }
		else { sig = f | (u128(1) << fbits); sc = int(ex) - bias - int(fbits); }
		ok = true;
		if (sig == 0) return neg ? -0.0L : 0.0L;
		while (!(sig & 1)) { sig >>= 1; ++sc; }
		while (sig >> 64) { sig >>= 1; ++sc; ok = false; }
		long double m = (long double)(uint64_t)sig, r = std::ldexp(m, sc);
		if (r == 0 || std::ldexp(r, -sc) != m) ok = false;
		return neg ? -r : r;
	}
	static void fromld(long double x) {
		C c; c.setbits(0x5a5a5a5a5a5a5a5aull); c = x;
		std::printf("%s fromld %s => %s\n", hdr, hx(ld2pat(x)), hx(enc(c)));
	}
	static void around_ld(long double v) { fromld(v); fromld(std::nextafter(v, (long double)INFINITY)); fromld(std::nextafter(v, -(long double)INFINITY)); }
	// sources generated from the target encoding e: its value, the midpoint to the next encoding, each +-1 long double ulp
	// (2^-63 relative: invisible to any detour through double), 2 and 1024 ulps off the tie (bits 1 and 10 of the 64-bit
	// significand: below binary64's 53 bits), eighths of the interval
	static void conv_from_ld(u128 e) {
		C c = mk(e);
		if (c.isnan() || c.isinf()) return;
		bool ok; long double v = value(e, ok);
		around_ld(v);
		u128 en = (e + 1) & M(); C n = mk(en);
		if (!n.isnan() && !n.isinf() && (e & (M() >> 1)) != (M() >> 1)) {
			bool okw; long double w = value(en, okw);
			if (ok && okw && fbits < 63) {
				long double mid = v / 2 + w / 2;
				around_ld(mid);
				long double am = std::fabs(mid), u = std::nextafter(am, (long double)INFINITY) - am;
				for (long double k : { 2.0L, 1024.0L }) { fromld(mid + k * u); fromld(mid - k * u); }
				if (fbits < 61) for (int k : { 3, 5, 7 }) fromld(v + (w - v) * k / 8);
			}
		}
	}
	static void native_ld(u128 e) {
		C c = mk(e);
		long double r = (long double)c;
		if (r != r) std::printf("%s told %s => nan\n", hdr, hx(e)); else std::printf("%s told %s => %s\n", hdr, hx(e), hx(ld2pat(r)));
		C back; back.setbits(0x5a5a5a5a5a5a5a5aull); back = r;
		std::printf("%s rtld %s => %s\n", hdr, hx(e), hx(enc(back)));
	}
	static void conv_fixed_ld(uv::Rng& g, unsigned count) {
		const long double DMAX = 1.7976931348623157e308L;
		static const long double sl[] = { 0.0L, -0.0L, (long double)INFINITY, -(long double)INFINITY, 1.0L, -1.0L, 0.5L, 1.5L, 2.0L, 3.0L,
			1.0L + 0x1p-63L, 1.0L + 0x1p-53L, 1.0L + 0x1p-52L + 0x1p-63L, 1.0L - 0x1p-64L, 1.5L + 0x1p-63L, -1.0L - 0x1p-63L, 1.0L + 0x1p-53L + 0x1p-63L, 1.0L + 0x1p-53L - 0x1p-63L,
			LDBL_MAX, -LDBL_MAX, LDBL_MIN, -LDBL_MIN, 0x1p-16445L, -0x1p-16445L, LDBL_MIN - 0x1p-16445L, 0x1p-16383L, 0x1.8p-16382L, 0x1p16383L,
			DMAX, DMAX * 2, DMAX + 0x1p969L, DMAX + 0x1p970L, 0x1p1024L, -0x1p1024L, 0x1p-1022L, 0x1p-1023L, 0x1p-1074L, 0x1p-1075L, 0x1.8p-1075L, 0x1p-1080L, 0x1.fffffffffffffffep-1075L,
			65504.0L, 65520.0L, 65520.0L - 0x1p-47L, 65520.0L + 0x1p-47L, 65536.0L, 3.40282347e38L, 1e-40L, 1e40L, 1e-4000L, 1e4000L, 0.1L, -0.1L };
		for (long double x : sl) fromld(x);
		// NaN payloads: quiet bit (62) set / clear, one payload bit in each region of the 63-bit fraction, all ones, both signs
		for (uint64_t p : { 1ull << 62, (1ull << 62) | 1, 1ull << 61, 1ull, 1ull << 10, 1ull << 11, 1ull << 32, 1ull << 50, 1ull << 51, 1ull << 52, (1ull << 61) | (1ull << 60),
		                    (1ull << 62) | (1ull << 61), 0x7fffffffffffffffull, 0x3fffffffffffffffull, 0x7ff8000000000000ull, 0x7ff4000000000000ull, 0x7ffc000000000000ull })
			for (unsigned sg : { 0u, 1u }) fromld(pat2ld((u128(sg) << 78) | (u128(0x7fff) << 63) | p));
		{	// the overflow cusp: maxpos, maxpos + ulp/2 (the first value that must give inf / saturate) each +-1 long double ulp and a
			// few ulps more, the top of the binade of MAX_EXP, the first powers of two beyond it; both signs
			C mp(SpecificValue::maxpos); u128 em = enc(mp);
			bool o1, o2; long double vm = value(em, o1), vb = value(em - 1, o2);
			if (vm == vm && vb == vb && !std::isinf(vm)) {
				long double cusp = vm + (vm - vb) / 2, top = std::ldexp(1.0L, std::ilogb(vm) + 1);
				for (long double q : { vm, cusp, top, 2 * top, vm + (vm - vb), vm + 2 * (vm - vb), vm + 3 * (vm - vb) }) if (!std::isinf(q)) { around_ld(q); around_ld(-q); }
				long double u = std::nextafter(cusp, (long double)INFINITY) - cusp;
				if (!std::isinf(cusp)) for (long double k : { 2.0L, 1024.0L, 3072.0L }) { fromld(cusp + k * u); fromld(cusp - k * u); fromld(-cusp - k * u); fromld(-cusp + k * u); }
			}
			// the underflow cusp and the bottom of the lattice
			const u128 S = u128(1) << (nbits - 1);
			for (u128 q : { u128(0), u128(1), u128(2), u128(3), FM() - 1, FM(), FM() + 1, FM() + 2 }) { conv_from_ld(q); conv_from_ld(S | q); }
			conv_from_ld(em - 1); conv_from_ld(em); conv_from_ld(S | em);
		}
		const int span = (1 << (es - 1)) + int(fbits) + 4;
		for (unsigned i = 0; i < count; ++i) {
			u128 p = ((u128(g.next()) << 64) | g.next()) & ((u128(1) << 79) - 1);
			fromld(pat2ld(p));
			int ex = int(g.below(2 * uint64_t(span) + 8)) - span - 4;
			uint64_t fr = g.next() & 0x7fffffffffffffffull;
			if (g.coin()) fr &= ~uv::mask(unsigned(g.below(64))); else if (g.below(4) == 0) fr |= uv::mask(unsigned(g.below(63)));
			u128 sg = g.coin() ? u128(1) << 78 : 0;
			if (ex + 16383 >= 1 && ex + 16383 <= 0x7ffe) fromld(pat2ld(sg | (u128(ex + 16383) << 63) | fr));
			if (g.below(8) == 0) fromld(pat2ld(sg | (fr >> g.below(63))));      // subnormal long double
		}
	}
	// structured encodings for the configurations that only have long double lines
	static u128 operand(uv::Rng& g) {
		static const int rel[] = { 0, 1, -1, 2, 62, 63, 64, 65, -62, -63, -64, -65, 1022, 1023, 1024, 1025, -1021, -1022, -1023, -1024, -1073, -1074, -1075, -1076, 16382, 16383, -16381, -16382 };
		u128 ef;
		switch (g.below(8)) {
		case 0: ef = g.below(3); break;
		case 1: ef = EMAX - g.below(3); break;
		case 2: case 3: case 4: { long long x = (long long)bias + rel[g.below(sizeof rel / sizeof rel[0])]; if (x < 0) x = 0; if (x > (long long)EMAX) x = EMAX; ef = (u128)x; break; }
		case 5: ef = (u128)(bias + (int)g.below(129) - 64) & EMAX; break;
		default: ef = g.below(uint64_t(EMAX) + 1);
		}
		u128 r = ((u128(g.next()) << 64) | g.next()) & FM(), ff;
		switch (g.below(10)) {
		case 0: ff = 0; break;
		case 1: ff = 1; break;
		case 2: ff = FM(); break;
		case 3: ff = FM() - 1; break;
		case 4: ff = u128(1) << (fbits - 1); break;
		case 5: ff = (r >> g.below(fbits + 1)) << 0; ff = r & ~((u128(1) << g.below(fbits + 1)) - 1); break;   // few leading bits
		case 6: ff = r & ((u128(1) << g.below(fbits + 1)) - 1); break;                                    // few trailing bits
		case 7: ff = r | ((u128(1) << g.below(fbits + 1)) - 1); break;                                    // trailing ones
		case 8: ff = FM() - g.below(4); break;
		default: ff = r;
		}
		if (g.below(12) == 0) {   // one storage limb of the inf / NaN pattern replaced: the limb-wise isinf / isnan tests
			constexpr unsigned nl = (nbits + bpb - 1) / bpb;
			u128 v = (M() >> 1) & ~u128(g.coin() ? 1 : 0); unsigned k = (unsigned)g.below(nl);
			u128 m = ((u128(1) << bpb) - 1) << (bpb * k); v = (v & ~m) | ((u128(g.next()) << (bpb * k)) & m);
			return (v & (M() >> 1)) | (g.coin() ? u128(1) << (nbits - 1) : 0);
		}
		return (g.coin() ? u128(1) << (nbits - 1) : 0) | (ef << fbits) | (ff & FM());
	}
	static void random(ull count) {
		uv::Rng g(uv::seed_from_env() * 1000003ull + nbits * 131ull + es * 7 + sub + 2 * sup + 4 * sat + 977);
		if (g_fromnat) conv_fixed_ld(g, (unsigned)(count / 8 + 50));
		const u128 S = u128(1) << (nbits - 1);
		for (u128 q : { u128(0), u128(1), u128(2), FM() - 1, FM(), FM() + 1, M() >> 1, (M() >> 1) - 1, (M() >> 1) - 2, (M() >> 1) - FM(), (M() >> 1) - FM() - 1 })
			for (u128 sg : { u128(0), S }) { if (g_tonat) native_ld(sg | q); if (g_fromnat) conv_from_ld(sg | q); }
		for (ull i = 0; i < count; ++i) {
			u128 e = operand(g);
			if (g_tonat) native_ld(e);
			if (g_fromnat && (i & 1) == 0) conv_from_ld(e);
		}
	}
#else
	static void fromld(long double) {}
	static void conv_from_ld(u128) {}
	static void native_ld(u128) {}
	static void conv_fixed_ld(uv::Rng&, unsigned) {}
	static void random(ull) {}
#endif
};
template<unsigned nbits, unsigned es, typename bt, bool sub, bool sup, bool sat> char RunLD<nbits, es, bt, sub, sup, sat>::hdr[64];

template<unsigned nbits, unsigned es, typename bt, bool sub, bool sup, bool sat>
struct Run {
	using C = cfloat<nbits, es, bt, sub, sup, sat>;
	static constexpr unsigned fbits = nbits - 1 - es;
	static constexpr bool isSingle = (nbits == 32 && es == 8 && sub && !sup && !sat);
	static constexpr bool isDouble = (nbits == 64 && es == 11 && sub && !sup && !sat);
	using LD = RunLD<nbits, es, bt, sub, sup, sat>;
	static char hdr[64];
	static void init() { std::snprintf(hdr, sizeof hdr, "cfloat %u %u %s %d%d%d", nbits, es, BtName<bt>::s(), int(sub), int(sup), int(sat)); LD::init(); }

	// whole storage, most significant block first
	static ull enc(const C& c) {
		ull v = 0;
		for (int b = int(C::nrBlocks) - 1; b >= 0; --b) v = (C::nrBlocks == 1 ? 0 : (v << (sizeof(bt) * 8 % 64))) | ull(c.block(unsigned(b)));
		return v;
	}
	static C mk(ull b) { C c; c.setbits(b); return c; }

	// ---- hardware twins for single / duble
	static float  hwf(ull e) {
		uint32_t x = uint32_t(e);
		if (((x >> 23) & 0xFF) == 0xFF) {
			if ((x & 0x7FFFFFFF) == 0x7FFFFFFE) return (x >> 31) ? -INFINITY : INFINITY;
			return std::numeric_limits<float>::quiet_NaN();
		}
		return uv::bits2float(x);
	}
	static double hwd(ull e) {
		if (((e >> 52) & 0x7FF) == 0x7FF) {
			if ((e & 0x7FFFFFFFFFFFFFFFull) == 0x7FFFFFFFFFFFFFFEull) return (e >> 63) ? -INFINITY : INFINITY;
			return std::numeric_limits<double>::quiet_NaN();
		}
		return uv::bits2double(e);
	}
	static void hwtok(char* buf, ull a, ull b, int op) {
		if constexpr (isSingle) {
			volatile float x = hwf(a), y = hwf(b); volatile float r;
			switch (op) { case 0: r = x + y; break; case 1: r = x - y; break; case 2: r = x * y; break; default: r = x / y; }
			float rr = r;
			if (rr != rr) std::snprintf(buf, 32, " nan"); else std::snprintf(buf, 32, " %x", uv::float2bits(rr));
		}
		else if constexpr (isDouble) {
			volatile double x = hwd(a), y = hwd(b); volatile double r;
			switch (op) { case 0: r = x + y; break; case 1: r = x - y; break; case 2: r = x * y; break; default: r = x / y; }
			double rr = r;
			if (rr != rr) std::snprintf(buf, 32, " nan"); else std::snprintf(buf, 32, " %llx", (ull)uv::double2bits(rr));
		}
		else buf[0] = 0;
	}

	static void binary(ull a, ull b) {
		C ca = mk(a), cb = mk(b);
		char hw[32];
		if (g_arith) {
			// equal encodings: ONE object on both sides (x op= x) — the result must not depend on aliasing
			auto self = [&](int op) { C t = ca; switch (op) { case 0: t += t; break; case 1: t -= t; break; case 2: t *= t; break; default: t /= t; } return t; };
			const bool same = (a == b);
			hwtok(hw, a, b, 0); std::printf("%s add %llx %llx => %llx%s\n", hdr, a, b, enc(same ? self(0) : ca + cb), hw);
			hwtok(hw, a, b, 1); std::printf("%s sub %llx %llx => %llx%s\n", hdr, a, b, enc(same ? self(1) : ca - cb), hw);
			hwtok(hw, a, b, 2); std::printf("%s mul %llx %llx => %llx%s\n", hdr, a, b, enc(same ? self(2) : ca * cb), hw);
			hwtok(hw, a, b, 3); std::printf("%s div %llx %llx => %llx%s\n", hdr, a, b, enc(same ? self(3) : ca / cb), hw);
		}
		if (g_order) {
			unsigned m = (ca == cb ? 1u : 0u) | (ca != cb ? 2u : 0u) | (ca < cb ? 4u : 0u) | (ca <= cb ? 8u : 0u) | (ca > cb ? 16u : 0u) | (ca >= cb ? 32u : 0u);
			std::printf("%s cmp %llx %llx => %x\n", hdr, a, b, m);
		}
	}
	static void unary(ull a) {
		C ca = mk(a);
		if (g_order) {
			C ci = ca; ++ci; std::printf("%s inc %llx => %llx\n", hdr, a, enc(ci));
			C cd = ca; --cd; std::printf("%s dec %llx => %llx\n", hdr, a, enc(cd));
		}
		if (g_tonat) {
			double d = double(ca);
			char nb[32];
			if (d != d) std::snprintf(nb, sizeof nb, "nan"); else std::snprintf(nb, sizeof nb, "%llx", (ull)uv::double2bits(d));
			std::printf("%s todbl %llx => %s\n", hdr, a, nb);
			C rd; rd = d; std::printf("%s rtd %llx => %llx\n", hdr, a, enc(rd));
			if constexpr (fbits <= 23 && es <= 8) {   // float is wide enough for the configuration's fractions
				float f = float(ca);
				if (f != f) std::snprintf(nb, sizeof nb, "nan"); else std::snprintf(nb, sizeof nb, "%x", uv::float2bits(f));
				std::printf("%s toflt %llx => %s\n", hdr, a, nb);
				C rf; rf = f; std::printf("%s rtf %llx => %llx\n", hdr, a, enc(rf));
			}
			// integer casts only where the value fits (the cast of an out-of-range double is undefined behaviour)
			if (d == d && std::fabs(d) < 2147483000.0) {   // then |float(d)| <= 2147483008 < 2^31 as well
				std::printf("%s toint %llx => %llx\n", hdr, a, (ull)(unsigned)int(ca));
				std::printf("%s toll %llx => %llx\n", hdr, a, (ull)(long long)(ca));
			}
			LD::native_ld(a);       // told / rtld
		}
	}
	static void limits() {
		if (!g_order) return;
		using L = std::numeric_limits<C>;
		C mp(SpecificValue::maxpos), mn(SpecificValue::minpos), xn(SpecificValue::maxneg), nn(SpecificValue::minneg);
		std::printf("%s lim => %llx %llx %llx %llx %llx %llx %llx %llx %llx %llx\n", hdr, enc(mp), enc(mn), enc(xn), enc(nn),
			enc(L::min()), enc(L::max()), enc(L::lowest()), enc(L::denorm_min()), enc(L::infinity()), enc(L::epsilon()));
	}

	// ---- conversions from native
	static void fromd(double d) { C c; c.setbits(0x5a5a5a5a5a5a5a5aull & uv::mask(nbits)); c = d; std::printf("%s fromd %llx => %llx\n", hdr, (ull)uv::double2bits(d), enc(c)); }
	static void fromf(float f) { C c; c.setbits(0x5a5a5a5a5a5a5a5aull & uv::mask(nbits)); c = f; std::printf("%s fromf %x => %llx\n", hdr, uv::float2bits(f), enc(c)); }
	static void fromi(long long v) {
		// signed: the same value through every type that holds it
		if (v >= -128 && v <= 127) { C c; c.setbits(0x5a5a5a5a5a5a5a5aull & uv::mask(nbits)); c = (signed char)v; std::printf("%s fromi8 %lld => %llx\n", hdr, v, enc(c)); }
		if (v >= -32768 && v <= 32767) { C c; c.setbits(0x5a5a5a5a5a5a5a5aull & uv::mask(nbits)); c = (short)v; std::printf("%s fromi16 %lld => %llx\n", hdr, v, enc(c)); }
		if (v >= -2147483648ll && v <= 2147483647ll) { C c; c.setbits(0x5a5a5a5a5a5a5a5aull & uv::mask(nbits)); c = (int)v;   // INT_MIN included since repair 9d458c8 (magnitude in unsigned arithmetic)
			 std::printf("%s fromi32 %lld => %llx\n", hdr, v, enc(c)); }
		{ C c; c.setbits(0x5a5a5a5a5a5a5a5aull & uv::mask(nbits)); c = (long long)v; std::printf("%s fromi64 %lld => %llx\n", hdr, v, enc(c)); }
		{ C c; c.setbits(0x5a5a5a5a5a5a5a5aull & uv::mask(nbits)); c = (long)v; std::printf("%s fromi64 %lld => %llx\n", hdr, v, enc(c)); }
	}
	static void fromu(ull v) {
		if (v <= 65535ull) { C c; c.setbits(0x5a5a5a5a5a5a5a5aull & uv::mask(nbits)); c = (unsigned short)v; std::printf("%s fromu16 %llu => %llx\n", hdr, v, enc(c)); }
		if (v <= 4294967295ull) { C c; c.setbits(0x5a5a5a5a5a5a5a5aull & uv::mask(nbits)); c = (unsigned int)v; std::printf("%s fromu32 %llu => %llx\n", hdr, v, enc(c)); }
		{ C c; c.setbits(0x5a5a5a5a5a5a5a5aull & uv::mask(nbits)); c = (unsigned long long)v; std::printf("%s fromu64 %llu => %llx\n", hdr, v, enc(c)); }
		{ C c; c.setbits(0x5a5a5a5a5a5a5a5aull & uv::mask(nbits)); c = (unsigned long)v; std::printf("%s fromu64 %llu => %llx\n", hdr, v, enc(c)); }
	}
	static void around_d(double v) {
		fromd(v); fromd(std::nextafter(v, INFINITY)); fromd(std::nextafter(v, -INFINITY));
	}
	static void around_f(float v) {
		fromf(v); fromf(std::nextafterf(v, INFINITY)); fromf(std::nextafterf(v, -INFINITY));
	}
	static void around_i(double v) {
		if (!(std::fabs(v) < 9.0e18)) return;
		long long k = (long long)v;
		for (long long d = -1; d <= 1; ++d) { fromi(k + d); if (k + d >= 0) fromu((ull)(k + d)); }
	}
	// sources generated from the target encoding e: its value, the midpoint to the next encoding, 1 source-ulp around both
	static void conv_from(ull e) {
		if (!g_fromnat) return;
		C c = mk(e);
		if (c.isnan() || c.isinf()) return;
		double v = double(c);
		C n = mk((e + 1) & uv::mask(nbits));
		around_d(v);
		if (fbits <= 23 && es <= 8) around_f((float)v);
		around_i(v);
		if (!n.isnan() && !n.isinf() && (e & uv::mask(nbits - 1)) != uv::mask(nbits - 1)) {
			double w = double(n), mid = v / 2 + w / 2;
			if (fbits < 52) { around_d(mid); around_i(mid); }
			if (fbits < 23 && es <= 8) around_f((float)mid);
			// eighths of the interval: discarded bits .011 / .101 / .111 (the bit below the round bit decides, nothing else set)
			if (fbits < 50) for (int k : { 3, 5, 7 }) { double q = v + (w - v) * k / 8; fromd(q); if (q == std::floor(q)) around_i(q); }
		}
		LD::conv_from_ld(e);       // long double sources
	}
	static void conv_fixed(uv::Rng& g, unsigned count) {
		if (!g_fromnat) return;
		static const double sd[] = { 0.0, -0.0, INFINITY, -INFINITY, 4.9406564584124654e-324, -4.9406564584124654e-324, 2.2250738585072009e-308,
			2.2250738585072014e-308, 1.7976931348623157e308, -1.7976931348623157e308, 1.0, -1.0, 0.5, 1.5, 2.0, 3.0, 1e-40, 1e40, 65504.0, 65520.0, 65536.0 };
		for (double d : sd) fromd(d);
		fromd(std::numeric_limits<double>::quiet_NaN()); fromd(-std::numeric_limits<double>::quiet_NaN());
		fromd(std::numeric_limits<double>::signaling_NaN());
		fromd(uv::bits2double(0x7ff0000000000001ull)); fromd(uv::bits2double(0x7ff4000000000000ull)); fromd(uv::bits2double(0xfff8000000000001ull));
		// NaNs with other payloads: quiet bit clear / set, one payload bit in each region of the fraction, all ones
		for (ull p : { 0x7ff0000000000002ull, 0x7ff0000100000000ull, 0x7ff2000000000000ull, 0xfff0000000000400ull, 0x7ffc000000000000ull,
		               0x7ff8000000000400ull, 0xfffa000000000000ull, 0x7fffffffffffffffull, 0xffffffffffffffffull, 0x7ff7ffffffffffffull }) fromd(uv::bits2double(p));
		static const float sf[] = { 0.0f, -0.0f, INFINITY, -INFINITY, 1.4e-45f, -1.4e-45f, 1.17549421e-38f, 1.17549435e-38f, 3.40282347e38f, 1.0f, -1.0f, 1e-40f, -1e-40f, 5.9e-39f };
		for (float f : sf) fromf(f);
		fromf(std::numeric_limits<float>::quiet_NaN()); fromf(std::numeric_limits<float>::signaling_NaN());
		fromf(uv::bits2float(0x7f800001u)); fromf(uv::bits2float(0xffc00001u));
		for (uint32_t p : { 0x7f800002u, 0x7f801000u, 0x7f900000u, 0xff800400u, 0x7fe00000u, 0x7fc00400u, 0xffd00000u, 0x7fffffffu, 0xffffffffu, 0x7fbfffffu }) fromf(uv::bits2float(p));
		static const long long si[] = { 0, 1, -1, 2, -2, 3, 127, -128, 128, 255, 256, 32767, -32768, 65535, 65536, 2147483647ll, -2147483648ll, 4294967295ll, 4294967296ll,
			9007199254740991ll, 9007199254740992ll, 9007199254740993ll, 9223372036854775807ll, -9223372036854775807ll, (-9223372036854775807ll - 1) };
		for (long long v : si) fromi(v);
		{	// the overflow cusp of the integer routines: maxpos, maxpos + ulp/2 (the first value that must give inf / saturate),
			// the top of the binade of MAX_EXP and the first power of two beyond it, each +-1
			C mp(SpecificValue::maxpos); C below = mk((enc(mp) - 1) & uv::mask(nbits));
			double vm = double(mp), vb = double(below);
			if (vm == vm && vb == vb && vm < 9.0e18 && vm > 0) {
				double cusp = vm + (vm - vb) / 2, top = std::ldexp(1.0, std::ilogb(vm) + 1);
				for (double q : { vm, cusp, top, 2 * top, vm + (vm - vb), vm + 2 * (vm - vb), vm + 3 * (vm - vb) }) { around_i(q); around_i(-q); fromd(q); }
			}
		}
		static const ull su[] = { 0, 1, 2, 3, 255, 256, 65535, 65536, 4294967295ull, 4294967296ull, 9007199254740993ull, 9223372036854775807ull, 9223372036854775808ull, 9223372036854775809ull, 18446744073709551615ull };
		for (ull v : su) fromu(v);
		LD::conv_fixed_ld(g, count);
		for (unsigned i = 0; i < count; ++i) {
			// random bit patterns per source type; exponents concentrated around the target's range
			ull r = g.next();
			fromd(uv::bits2double(r));
			int ex = int(g.below(2 * ((1u << (es - 1)) + fbits) + 8)) - int((1u << (es - 1)) + fbits) - 4;
			ull m = g.next() & uv::mask(52);
			if (g.coin()) m &= ~uv::mask(unsigned(g.below(53)));
			if (ex > -1023 && ex < 1024) fromd(uv::bits2double((g.coin() ? 1ull << 63 : 0) | (ull(ex + 1023) << 52) | m));
			fromf(uv::bits2float(uint32_t(g.next())));
			if (ex > -127 && ex < 128) fromf(uv::bits2float((g.coin() ? 1u << 31 : 0) | (uint32_t(ex + 127) << 23) | uint32_t(m >> 29)));
			unsigned sh = unsigned(g.below(64));
			ull iv = g.next() >> sh; if (g.coin()) iv &= ~uv::mask(unsigned(g.below(64 - sh + 1)));
			fromu(iv); fromi((long long)iv); fromi(-(long long)(iv >> 1));
		}
	}

	static void exhaustive() {
		const ull N = 1ull << nbits;
		limits();
		uv::Rng g(uv::seed_from_env() * 1000003ull + nbits * 131ull + es);
		conv_fixed(g, 200);
		for (ull a = 0; a < N; ++a) {
			unary(a);
			conv_from(a);
			if (g_arith || g_order) for (ull b = 0; b < N; ++b) binary(a, b);
		}
	}

	// ---- structured operands for the large configurations
	static constexpr ull EMAX = (1ull << es) - 1;
	static ull expfield(uv::Rng& g) {
		const ull bias = (1ull << (es - 1)) - 1;
		switch (g.below(12)) {
		case 0: return 0;                                  // subnormal / zero class
		case 1: return 1;
		case 2: return 2;
		case 3: return EMAX;                               // supernormal / inf / nan class
		case 4: return EMAX - 1;
		case 5: return EMAX - 2;
		case 6: return bias;
		case 7: return (bias + g.below(5) - 2) & EMAX;
		case 8: return (bias / 2 + g.below(5)) & EMAX;     // products land near the bottom
		case 9: return (bias + bias / 2 + g.below(5)) & EMAX; // products land near the top
		case 10: return g.below(fbits + 4) & EMAX;         // within reach of the subnormal range
		default: return g.below(EMAX + 1);
		}
	}
	static ull fracfield(uv::Rng& g) {
		const ull FM = uv::mask(fbits);
		switch (g.below(10)) {
		case 0: return 0;
		case 1: return 1;
		case 2: return FM;
		case 3: return FM - 1;
		case 4: return 1ull << (fbits - 1);
		case 5: return (g.next() & FM) & ~uv::mask(unsigned(g.below(fbits + 1)));       // few leading bits
		case 6: return (g.next() & FM) & uv::mask(unsigned(g.below(fbits + 1)));        // few trailing bits
		case 7: return (g.next() & FM) | uv::mask(unsigned(g.below(fbits + 1)));        // trailing ones
		case 8: return FM - g.below(4);
		default: return g.next() & FM;
		}
	}
	static ull operand(uv::Rng& g) {
		if (g.below(8) == 0) {
			// exactly ONE non-zero storage limb (optionally plus the sign): hand-unrolled per-limb code paths
			// (iszero / isinf / isnan / clear for 1, 2, 3, 4, n blocks) are only told apart by such encodings
			constexpr unsigned bpb = 8 * sizeof(bt);
			constexpr unsigned nl = (nbits + bpb - 1) / bpb;
			unsigned k = (unsigned)g.below(nl);
			ull limb = g.next() & uv::mask(bpb); if (!limb) limb = 1;
			if (g.coin()) limb = 1ull << g.below(bpb);
			ull v = (bpb * k >= 64) ? 0 : (limb << (bpb * k));
			v &= uv::mask(nbits - 1);
			return v | (g.below(4) == 0 ? 1ull << (nbits - 1) : 0);
		}
		if (g.below(10) == 0) {
			// the complement pattern: the inf (1…10) or NaN (1…1) encoding with ONE limb replaced — the multi-limb
			// isinf / isnan / ismaxpos tests compare limb by limb and are only told apart by such near-special encodings
			constexpr unsigned bpb = 8 * sizeof(bt);
			constexpr unsigned nl = (nbits + bpb - 1) / bpb;
			ull v = uv::mask(nbits - 1) & ~(g.coin() ? 1ull : 0ull);
			unsigned k = (unsigned)g.below(nl);
			if (bpb * k < 64) { ull m = uv::mask(bpb) << (bpb * k); v = (v & ~m) | ((g.next() << (bpb * k)) & m); }
			v &= uv::mask(nbits - 1);
			return v | (g.coin() ? 1ull << (nbits - 1) : 0);
		}
		return (g.coin() ? 1ull << (nbits - 1) : 0) | (expfield(g) << fbits) | fracfield(g);
	}
	// the encodings on which operator++ / operator-- branch: both zeros, the zero aliases (exponent field 0), minpos / minneg
	// and the minneg pattern with ONE other limb set (isminnegencoding compares limb by limb), the all-ones and the
	// quiet-NaN pattern (carry out of the top limb), the neighbours of the extremes
	static void step_fixed() {
		if (!g_order) return;
		constexpr unsigned bpb = 8 * sizeof(bt);
		constexpr unsigned nl = (nbits + bpb - 1) / bpb;
		const ull M = uv::mask(nbits), S = 1ull << (nbits - 1), FM = uv::mask(fbits);
		const ull fixed[] = { 0, S, 1, S | 1, 2, S | 2, FM, S | FM, FM - 1, S | (FM - 1), 1ull << (fbits - 1), S | (1ull << (fbits - 1)),
			FM + 1, S | (FM + 1), FM + 2, S | (FM + 2), M, M - 1, M - 2, M >> 1, (M >> 1) - 1, (M >> 1) - 2, S - 1 - FM, M - FM, S - 2 - FM, M - FM - 1 };
		for (ull v : fixed) unary(v & M);
		for (unsigned k = 0; k < nl; ++k) {
			if (bpb * k >= 64) break;
			for (ull limb : { ull(1), ull(1) << (bpb - 1), ull(uv::mask(bpb)) }) {
				ull v = ((limb << (bpb * k)) & uv::mask(nbits - 1));
				unary(v); unary(S | v); unary(v | 1); unary(S | v | 1);
				unary((M >> 1) & ~v); unary(M & ~v);      // all ones with one limb (partly) cleared
			}
		}
	}
	static void random(ull count) {
		uv::Rng g(uv::seed_from_env() * 1000003ull + nbits * 131ull + es * 7 + sub + 2 * sup + 4 * sat);
		const ull M = uv::mask(nbits), S = 1ull << (nbits - 1), FM = uv::mask(fbits);
		limits();
		conv_fixed(g, (unsigned)(count / 8 + 50));
		step_fixed();
		for (ull i = 0; i < count; ++i) {
			ull a = operand(g), b;
			switch (g.below(10)) {
			case 0: case 1: case 2: b = operand(g); break;
			case 3: b = ((a ^ S) + (ull)((long long)g.below(9) - 4)) & M; break;            // near cancellation
			case 4: b = (a + (ull)((long long)g.below(9) - 4)) & M; break;                  // near equal
			case 5: { // chosen exponent gap, b's sign random: alignment shift classes 0,1,2,3, fbits-1 … fbits+4
				static const int gaps[] = { 0, 1, 2, 3, -1, -2 };
				long long ea = (long long)((a >> fbits) & EMAX), gap = g.coin() ? gaps[g.below(6)] : (long long)fbits - 1 + (long long)g.below(6);
				long long eb = ea - gap; if (eb < 0) eb = 0; if (eb > (long long)EMAX) eb = EMAX;
				b = (g.coin() ? S : 0) | ((ull)eb << fbits) | fracfield(g);
				break;
			}
			case 6: { // few-bit significands whose product has fbits+2 significant bits: ties and near ties
				unsigned ka = 1 + (unsigned)g.below(fbits), kb = fbits + 1 - ka;
				ull fa = ((g.next() & FM) >> (fbits - ka)) << (fbits - ka) | (1ull << (fbits - ka));
				ull fb = kb >= fbits ? (g.next() & FM) | 1 : (((g.next() & FM) >> (fbits - kb)) << (fbits - kb) | (1ull << (fbits - kb)));
				a = (a & ~FM) | (fa & FM); b = (g.coin() ? S : 0) | (expfield(g) << fbits) | (fb & FM);
				break;
			}
			case 7: { // result exponent aimed at the underflow / overflow cusps: ea + eb ≈ bias or ≈ bias + EMAX (mul), ea − eb likewise (div)
				const long long bias = (1ll << (es - 1)) - 1;
				long long ea = (long long)((a >> fbits) & EMAX);
				long long tgt = g.coin() ? (long long)g.below(4) - 2 - (long long)g.below(fbits + 2) * (long long)g.below(2) : (long long)EMAX - 2 + (long long)g.below(4);
				long long eb = g.coin() ? (tgt + bias - ea) : (ea + bias - tgt);
				if (eb < 0) eb = 0; if (eb > (long long)EMAX) eb = EMAX;
				b = (g.coin() ? S : 0) | ((ull)eb << fbits) | fracfield(g);
				break;
			}
			case 8: b = a ^ (1ull << g.below(nbits)); break;                                  // one bit flipped
			default: b = (g.coin() ? a : (a ^ S)); break;                                    // x op x, x op -x
			}
			binary(a, b);
			if ((i & 3) == 0) { unary(a); conv_from(a); }
		}
	}
};
template<unsigned nbits, unsigned es, typename bt, bool sub, bool sup, bool sat> char Run<nbits, es, bt, sub, sup, sat>::hdr[64];

// configuration lists ------------------------------------------------------------------------------
// es = 1 requires subnormals and supernormals (static_assert in cfloat)
#define FLAGS_ALL(X, N, E, BT) X(N,E,BT,0,0,0) X(N,E,BT,0,0,1) X(N,E,BT,0,1,0) X(N,E,BT,0,1,1) X(N,E,BT,1,0,0) X(N,E,BT,1,0,1) X(N,E,BT,1,1,0) X(N,E,BT,1,1,1)
#define FLAGS_ES1(X, N, E, BT) X(N,E,BT,1,1,0) X(N,E,BT,1,1,1)
#define SMALL(X, BT) FLAGS_ES1(X,4,1,BT) FLAGS_ALL(X,4,2,BT) FLAGS_ALL(X,5,2,BT) FLAGS_ALL(X,5,3,BT) FLAGS_ES1(X,6,1,BT) FLAGS_ALL(X,6,2,BT) FLAGS_ALL(X,6,3,BT) FLAGS_ALL(X,7,4,BT) \
	FLAGS_ALL(X,8,2,BT) FLAGS_ALL(X,8,3,BT) FLAGS_ALL(X,8,4,BT) FLAGS_ALL(X,8,5,BT)
#define LARGE(X) X(16,5,uint16_t,1,0,0) X(16,8,uint16_t,1,0,0) X(32,8,uint32_t,1,0,0) X(64,11,uint32_t,1,0,0) \
	X(24,5,uint8_t,1,1,0) X(24,5,uint32_t,0,0,1) X(24,5,uint16_t,1,0,0) X(40,8,uint8_t,1,1,1) X(40,8,uint32_t,1,0,0) X(40,8,uint16_t,0,1,0) \
	X(16,5,uint8_t,0,1,1) X(16,5,uint32_t,1,1,0) X(12,4,uint16_t,1,0,1) X(32,8,uint8_t,0,0,0) \
	X(32,8,uint8_t,1,0,0) X(26,6,uint8_t,1,1,0) X(64,11,uint16_t,1,0,0) X(48,8,uint16_t,1,0,0) \
	X(40,8,uint8_t,1,0,0) X(40,8,uint16_t,1,0,0) X(33,8,uint8_t,1,0,0) X(33,8,uint16_t,1,0,0) X(33,8,uint32_t,1,0,0) X(32,8,uint16_t,1,0,0)

// long double lines only: es > 11 (beyond binary64's exponent range) and 80-bit configurations (fbits >= 63)
#define LDCFG(X) X(80,15,uint16_t,1,0,0) X(80,15,uint32_t,1,1,1) X(80,15,uint8_t,0,1,0) X(64,15,uint32_t,1,0,0) X(48,12,uint16_t,1,1,0) X(80,11,uint8_t,1,0,0)

#if UV_PART == 8
#define CONFIGS(X) SMALL(X, uint8_t)
#elif UV_PART == 16
#define CONFIGS(X) SMALL(X, uint16_t)
#elif UV_PART == 32
#define CONFIGS(X) SMALL(X, uint32_t)
#else
#define CONFIGS(X) LARGE(X)
#endif

static unsigned btbits(const std::string& s) { return s == "u8" ? 8 : s == "u16" ? 16 : s == "u32" ? 32 : 0; }

int main(int argc, char** argv) {
	if (argc < 6) { std::fprintf(stderr, "usage: h_cfloat exh|rnd nbits es u8|u16|u32 flags [count] [all|arith|order|tonat|fromnat]\n"); return 2; }
	uv::Out out;
	std::string mode = argv[1];
	unsigned n = (unsigned)std::atoi(argv[2]), e = (unsigned)std::atoi(argv[3]);
	unsigned bb = btbits(argv[4]);
	std::string fl = argv[5];
	if (fl.size() != 3) { std::fprintf(stderr, "flags must be three characters\n"); return 2; }
	bool fsub = fl[0] == '1', fsup = fl[1] == '1', fsat = fl[2] == '1';
	ull count = argc > 6 ? std::strtoull(argv[6], nullptr, 10) : 1000;
	std::string ops = argc > 7 ? argv[7] : "all";
	g_arith = ops == "all" || ops == "arith";
	g_order = ops == "all" || ops == "order";
	g_tonat = ops == "all" || ops == "tonat";
	g_fromnat = ops == "all" || ops == "fromnat";
#define X(N,E,BT,SUB,SUP,SAT) if (n == N && e == E && bb == sizeof(BT) * 8 && fsub == bool(SUB) && fsup == bool(SUP) && fsat == bool(SAT)) { \
		using R = Run<N,E,BT,bool(SUB),bool(SUP),bool(SAT)>; R::init(); if (mode == "exh") R::exhaustive(); else R::random(count); return 0; }
	if (mode != "ld") { CONFIGS(X) }
#undef X
#if UV_PART == 0
#define X(N,E,BT,SUB,SUP,SAT) if (mode == "ld" && n == N && e == E && bb == sizeof(BT) * 8 && fsub == bool(SUB) && fsup == bool(SUP) && fsat == bool(SAT)) { \
		using R = RunLD<N,E,BT,bool(SUB),bool(SUP),bool(SAT)>; R::init(); R::random(count); return 0; }
	LDCFG(X)
#undef X
#endif
	std::fprintf(stderr, "unsupported configuration %u %u %s %s in part %d\n", n, e, argv[4], fl.c_str(), UV_PART);
	return 2;
}
