// h_convcf.cpp — cfloat<n1,es1,bt,sub,sup,sat> -> cfloat<n2,es2,bt,sub,sup,sat> converting constructor (C15), real headers.
//
// usage: h_convcf small <count-ignored>           every ordered pair of the small configurations (block type uint8_t),
//                                                 EVERY source encoding:  c2c and the round trip rt
//        h_convcf large <count> [pair-index]      large sources (half, bfloat16, single-like, cfloat<40,8>, cfloat<64,11>, cfloat<80,15>;
//                                                 block type uint32_t) into small and large targets: sources generated FROM THE TARGET
//                                                 LATTICE (every / <count> sampled encodings of the (n2+1)-bit cfloat with one more
//                                                 fraction bit = every value and every rounding midpoint of the target, +-1 source ulp),
//                                                 boundaries, <count> structured random source encodings; and small sources widened into the
//                                                 large targets and narrowed back (rt)
//        h_convcf list                            prints the pair indices of `large`
// line formats (encodings: whole block storage, lower-case hex, most significant block first):
//   convcf <n1> <es1> <flags1> <n2> <es2> <flags2> <bt> c2c <src enc> => <dst enc>       T t(s)  — fresh converting constructor
//   convcf <n1> <es1> <flags1> <n2> <es2> <flags2> <bt> c2c= <src enc> => <dst enc>      T u = all ones; u = s;  — assignment onto a non-fresh target
//   convcf <n1> <es1> <flags1> <n2> <es2> <flags2> <bt> rt  <src enc> => <dst enc> <back enc>      T t(s); S back(t);
#include <universal/number/cfloat/cfloat.hpp>
#include <cmath>
#include <string>
#include <vector>
#include "proto.hpp"

using namespace sw::universal;
typedef unsigned long long ull;
typedef unsigned __int128 u128;

template<typename bt> struct BtName;
template<> struct BtName<uint8_t>  { static const char* s() { return "u8"; } };
template<> struct BtName<uint16_t> { static const char* s() { return "u16"; } };
template<> struct BtName<uint32_t> { static const char* s() { return "u32"; } };

template<unsigned N, unsigned E, bool SUB, bool SUP, bool SAT> struct Cf {
	static constexpr unsigned nbits = N, es = E, fbits = N - 1 - E;
	static constexpr bool sub = SUB, sup = SUP, sat = SAT;
	template<typename bt> using type = cfloat<N, E, bt, SUB, SUP, SAT>;
};
template<class... T> struct TL {};

template<class C> static u128 enc(const C& c) {
	u128 v = 0;
	for (int b = int(C::nrBlocks) - 1; b >= 0; --b) v = (v << (sizeof(typename C::BlockType) * 8)) | u128(c.block(unsigned(b)));
	return v;
}
template<class C> static C mk(u128 b) {
	C c; c.clear();
	for (unsigned i = 0; i < C::nbits; ++i) c.setbit(i, (b >> i) & 1);
	return c;
}
static void hex128(char* buf, u128 v) {
	ull hi = (ull)(v >> 64), lo = (ull)v;
	if (hi) std::sprintf(buf, "%llx%016llx", hi, lo); else std::sprintf(buf, "%llx", lo);
}
static u128 mask128(unsigned n) { return n >= 128 ? ~(u128)0 : (((u128)1 << n) - 1); }

template<class SC, class TC, typename bt>
struct Pair {
	using S = typename SC::template type<bt>;
	using T = typename TC::template type<bt>;
	static void hdr(const char* op) {
		std::printf("convcf %u %u %d%d%d %u %u %d%d%d %s %s", SC::nbits, SC::es, int(SC::sub), int(SC::sup), int(SC::sat),
			TC::nbits, TC::es, int(TC::sub), int(TC::sup), int(TC::sat), BtName<bt>::s(), op);
	}
	static void c2c(u128 a) {
		char b1[40], b2[40];
		hex128(b1, a);
		UV_MARK("convcf %u %u -> %u %u c2c %s", SC::nbits, SC::es, TC::nbits, TC::es, b1);
		S s = mk<S>(a);
		T t(s);                                              // fresh converting constructor
		hex128(b2, enc(t));
		hdr("c2c"); std::printf(" %s => %s\n", b1, b2);
		T u = mk<T>(mask128(TC::nbits));                     // a target that holds a previous value (all ones: the signalling NaN pattern)
		u = s;                                               // assignment onto the non-fresh target
		hex128(b2, enc(u));
		hdr("c2c="); std::printf(" %s => %s\n", b1, b2);
	}
	static void rt(u128 a) {
		char b1[40], b2[40], b3[40];
		hex128(b1, a);
		S s = mk<S>(a);
		T t(s);
		S back(t);
		hex128(b2, enc(t)); hex128(b3, enc(back));
		hdr("rt"); std::printf(" %s => %s %s\n", b1, b2, b3);
	}
	static void around(u128 a, bool with_rt) {
		const u128 M = mask128(SC::nbits);
		c2c(a & M); c2c((a + 1) & M); c2c((a - 1) & M);
		if (with_rt) rt(a & M);
	}
	static void exhaustive() {
		for (u128 a = 0; a < ((u128)1 << SC::nbits); ++a) { c2c(a); rt(a); }
	}
	// structured source encoding
	static u128 operand(uv::Rng& g) {
		constexpr unsigned fb = SC::fbits, es = SC::es;
		const u128 EMAX = ((u128)1 << es) - 1, FM = mask128(fb);
		const long long sbias = (1ll << (es - 1)) - 1, tbias = (1ll << (TC::es - 1)) - 1;
		u128 e;
		switch (g.below(12)) {
		case 0: e = 0; break;
		case 1: e = 1; break;
		case 2: e = EMAX; break;
		case 3: e = EMAX - 1; break;
		case 4: e = (u128)sbias; break;
		// exponents around the target's overflow / underflow / subnormal boundaries
		case 5: { long long x = sbias + ((1ll << TC::es) - 1 - tbias) + (long long)g.below(5) - 3; e = x < 0 ? 0 : ((u128)x > EMAX ? EMAX : (u128)x); break; }
		case 6: { long long x = sbias + (1 - tbias) - (long long)g.below(TC::fbits + 4) + 1; e = x < 0 ? 0 : ((u128)x > EMAX ? EMAX : (u128)x); break; }
		case 7: { long long x = sbias - 1022 - (long long)g.below(60) + 3; e = x < 0 ? 0 : ((u128)x > EMAX ? EMAX : (u128)x); break; }   // around double's subnormal range
		case 8: { long long x = sbias + 1020 + (long long)g.below(8); e = x < 0 ? 0 : ((u128)x > EMAX ? EMAX : (u128)x); break; }        // around double's overflow
		case 9: { long long x = sbias + (long long)g.below(2 * (1u << (TC::es - 1)) + 6) - (long long)(1u << (TC::es - 1)) - 3; e = x < 0 ? 0 : ((u128)x > EMAX ? EMAX : (u128)x); break; }
		default: e = (u128)g.next() & EMAX; break;
		}
		u128 r = ((u128)g.next() << 64) | g.next();
		u128 f;
		switch (g.below(10)) {
		case 0: f = 0; break;
		case 1: f = 1; break;
		case 2: f = FM; break;
		case 3: f = FM - 1; break;
		case 4: f = (r & FM) & ~mask128(unsigned(g.below(fb + 1))); break;        // few leading bits
		case 5: f = (r & FM) | mask128(unsigned(g.below(fb + 1))); break;         // trailing ones
		// a target tie pattern: target fraction bits, then 1 0…0 / 0 1…1 / 1 0…01 (also beyond bit 52: the double detour)
		case 6: case 7: case 8: {
			unsigned keep = TC::fbits < fb ? TC::fbits : fb;
			f = (r & FM) & ~mask128(fb - keep);
			if (fb > keep) {
				unsigned k = unsigned(g.below(3));
				u128 half = (u128)1 << (fb - keep - 1);
				f |= (k == 0 ? half : k == 1 ? half - 1 : (half | 1));
				if (g.below(4) == 0 && fb > 53) f ^= ((u128)1 << g.below(fb - 52));   // disturb only the bits a double drops
			}
			break; }
		default: f = r & FM; break;
		}
		return ((g.coin() ? (u128)1 << (SC::nbits - 1) : 0) | (e << fb) | f) & mask128(SC::nbits);
	}
	// sources generated from the target lattice: the (n2+1)-bit cfloat with one more fraction bit enumerates values and midpoints
	static void from_target_lattice(uv::Rng& g, ull count) {
		using H = cfloat<TC::nbits + 1, TC::es, bt, TC::sub, TC::sup, TC::sat>;
		const bool all = TC::nbits + 1 <= 12;
		const ull total = all ? (1ull << (TC::nbits + 1)) : count;
		for (ull i = 0; i < total; ++i) {
			u128 h = all ? (u128)i : ((((u128)g.next() << 64) | g.next()) & mask128(TC::nbits + 1));
			if (!all && g.below(3) == 0) {   // the top and bottom binades of the target
				u128 ef = g.coin() ? (u128)g.below(3) : (((u128)1 << TC::es) - 1 - g.below(3));
				h = (h & ~(mask128(TC::es) << (TC::fbits + 1))) | (ef << (TC::fbits + 1));
			}
			H hv = mk<H>(h);
			if (hv.isnan() || hv.isinf()) continue;
			S s; s = double(hv);          // exact: the source has more fraction bits than the target (values outside its range saturate / overflow)
			around(enc(s), false);
		}
	}
	static void large(ull count) {
		uv::Rng g(uv::seed_from_env() * 1000003ull + SC::nbits * 131ull + SC::es * 7 + TC::nbits * 17 + TC::es + SC::sub + 2 * TC::sup + 4 * TC::sat);
		const u128 SB = (u128)1 << (SC::nbits - 1), AM = mask128(SC::nbits - 1);
		const u128 fixed[] = { 0, 1, 2, (u128)1 << SC::fbits, ((u128)1 << SC::fbits) - 1, ((u128)1 << SC::fbits) + 1, AM, AM - 1, AM - 2, AM - 3,
			AM - ((u128)1 << SC::fbits), AM - ((u128)1 << SC::fbits) + 1, ((((u128)1 << (SC::es - 1)) - 1) << SC::fbits) };
		for (u128 a : fixed) { around(a, true); around(a | SB, true); }
		if constexpr (SC::fbits > TC::fbits) from_target_lattice(g, count);
		for (ull i = 0; i < count; ++i) { u128 a = operand(g); c2c(a); if ((i & 3) == 0) rt(a); }
	}
};

// ---------------------------------------------------------------------------------------------------------------------------
// small matrix (block type uint8_t): flag combinations spread over the configurations; es = 1 needs sub and sup
using Smalls = TL< Cf<4,1,1,1,0>, Cf<5,2,0,0,0>, Cf<6,1,1,1,1>, Cf<6,2,1,0,0>, Cf<6,3,0,1,0>, Cf<7,4,0,0,1>, Cf<8,2,1,1,0>, Cf<8,3,0,1,1>,
                   Cf<8,4,1,0,1>, Cf<8,5,1,1,1>, Cf<9,3,1,0,0>, Cf<10,4,1,1,0> >;
// large sources / targets (block type uint32_t)
using LargeSrc = TL< Cf<16,5,1,0,0>, Cf<16,8,1,0,0>, Cf<32,8,1,0,0>, Cf<40,8,1,1,0>, Cf<64,11,1,0,0>, Cf<80,15,1,0,0>, Cf<24,5,0,0,1>, Cf<72,11,1,1,0> >;
using LargeTgt = TL< Cf<5,2,0,0,0>, Cf<6,2,1,0,0>, Cf<8,2,1,1,0>, Cf<8,3,0,1,1>, Cf<8,4,1,0,1>, Cf<8,5,1,1,1>, Cf<10,4,1,1,0>,
                     Cf<16,5,1,0,0>, Cf<16,8,1,0,0>, Cf<24,5,1,1,0>, Cf<32,8,1,0,0>, Cf<40,8,0,1,0>, Cf<64,11,1,0,0>, Cf<64,11,1,1,1>, Cf<48,11,0,0,0> >;
using WidenSrc = TL< Cf<5,2,0,0,0>, Cf<6,2,1,0,0>, Cf<8,2,1,1,0>, Cf<8,3,0,1,1>, Cf<8,4,1,0,1>, Cf<8,5,1,1,1>, Cf<10,4,1,1,0> >;
using WidenTgt = TL< Cf<16,5,1,0,0>, Cf<32,8,1,0,0>, Cf<64,11,1,0,0>, Cf<24,5,1,1,0> >;

template<class S, class... T> static void small_row(TL<T...>) { (Pair<S, T, uint8_t>::exhaustive(), ...); }
template<class... S> static void small_all(TL<S...>) { (small_row<S>(Smalls{}), ...); }

struct LargeJob { void (*fn)(ull); std::string name; };
static std::vector<LargeJob> g_jobs;
template<class S, class T> static void reg_large() {
	char nm[96]; std::snprintf(nm, sizeof nm, "%u,%u,%d%d%d->%u,%u,%d%d%d", S::nbits, S::es, int(S::sub), int(S::sup), int(S::sat), T::nbits, T::es, int(T::sub), int(T::sup), int(T::sat));
	g_jobs.push_back({ &Pair<S, T, uint32_t>::large, nm });
}
template<class S, class T> static void widen(ull) { Pair<S, T, uint32_t>::exhaustive(); }
template<class S, class T> static void reg_widen() {
	char nm[96]; std::snprintf(nm, sizeof nm, "widen %u,%u,%d%d%d->%u,%u,%d%d%d", S::nbits, S::es, int(S::sub), int(S::sup), int(S::sat), T::nbits, T::es, int(T::sub), int(T::sup), int(T::sat));
	g_jobs.push_back({ &widen<S, T>, nm });
}
template<class S, class... T> static void reg_row(TL<T...>) { (reg_large<S, T>(), ...); }
template<class... S> static void reg_all(TL<S...>) { (reg_row<S>(LargeTgt{}), ...); }
template<class S, class... T> static void regw_row(TL<T...>) { (reg_widen<S, T>(), ...); }
template<class... S> static void regw_all(TL<S...>) { (regw_row<S>(WidenTgt{}), ...); }

int main(int argc, char** argv) {
	if (argc < 2) { std::fprintf(stderr, "usage: h_convcf small 0 | large <count> [pair-index] | list\n"); return 2; }
	uv::Out out;
	std::string mode = argv[1];
	ull count = argc > 2 ? std::strtoull(argv[2], nullptr, 10) : 200;
	if (mode == "small") { small_all(Smalls{}); return 0; }
	reg_all(LargeSrc{});
	regw_all(WidenSrc{});
	if (mode == "list") { for (size_t i = 0; i < g_jobs.size(); ++i) std::printf("%zu %s\n", i, g_jobs[i].name.c_str()); return 0; }
	if (mode == "large") {
		if (argc > 3) {
			size_t k = (size_t)std::strtoull(argv[3], nullptr, 10);
			if (k >= g_jobs.size()) { std::fprintf(stderr, "pair index out of range\n"); return 2; }
			g_jobs[k].fn(count);
		} else for (auto& j : g_jobs) j.fn(count);
		return 0;
	}
	std::fprintf(stderr, "unknown mode\n");
	return 2;
}
