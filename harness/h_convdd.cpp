// h_convdd.cpp — transcript of the conversions between native numbers and dd / qd (properties C03 / C04).
// usage: h_convdd rnd <count> <from|to|all>       (seed: VERIF_SEED)
//        h_convdd replay <file>                   re-execute the inputs of the recorded ddconv / convdd lines
// lines (doubles as 16 hex digits, floats as 8, integers as the 64-bit word that was cast to the source type):
//   family ddconv (handler of Driver/DD.lean):
//     ddconv from_i64|from_u64 <w64> => <hi> <lo>     ddconv from_double <a> => <hi> <lo>
//     ddconv to_double <hi> <lo> => <r>               ddconv to_i64|to_u64 <hi> <lo> => <v>
//   family convdd (handler of Driver/ConvDD.lean):
//     convdd dd from_f32 <b32> => <hi> <lo>           convdd dd fromi <kind> <w64> => <hi> <lo>
//     convdd dd to_f32 <hi> <lo> => <b32>             convdd dd toi <kind> <hi> <lo> => <v64>
//     convdd qd from_f64 <b64> => <x0> <x1> <x2> <x3> convdd qd from_f32 <b32> => <x0..x3>
//     convdd dd|qd from_ld <sign+exponent word> <64-bit significand> => limbs        (x87 long double source)
//     convdd qd fromi <kind> <w64> <p2> <p3> => <x0..x3>     (the qd held (1, 2^-60, p2, p3) before the assignment)
//   Every from-native conversion is emitted twice: `operator=` onto a NON-FRESH target (dd(1)/dd(3) resp. a qd with four non-zero
//   limbs) and the fresh converting constructor (same line format; for qd(long / long long / unsigned long …), which assign into
//   uninitialised storage, only the assignment variant).
//     convdd qd to_f64 <x0..x3> => <b64>              convdd qd to_f32 <x0..x3> => <b32>     convdd qd toi <kind> <x0..x3> => <v64>
#include <cmath>
#include <cstdio>
#include <cstring>
#include <fstream>
#include <sstream>
#include <vector>
#include <string>
#include <universal/number/dd/dd.hpp>
#include <universal/number/qd/qd.hpp>
#include "proto.hpp"
#include "fpgen.hpp"

using namespace sw::universal;
using fpgen::canon;
using uv::bits2double;
using uv::double2bits;
typedef unsigned long long ull;

static bool g_from = true, g_to = true;

static uint32_t canonf(float f) { uint32_t b = uv::float2bits(f); return ((b >> 23) & 0xff) == 0xff && (b & 0x7fffff) ? 0x7fc00000u : b; }

// ---- from native ---------------------------------------------------------------------------------------
// every conversion is emitted twice: operator= onto a NON-FRESH target (non-zero lower limbs) and the fresh constructor
template<typename T, bool ctor = true> static void dd_fi(const char* kind, uint64_t w) {
	dd r = dd(1.0) / dd(3.0); r = (T)w;
	std::printf("convdd dd fromi %s %016llx => %016llx %016llx\n", kind, (ull)w, (ull)canon(r.high()), (ull)canon(r.low()));
	if constexpr (ctor) { dd c((T)w); std::printf("convdd dd fromi %s %016llx => %016llx %016llx\n", kind, (ull)w, (ull)canon(c.high()), (ull)canon(c.low())); }
}
// ctor: only the constructors that initialise all four limbs (qd(long), qd(long long), qd(unsigned long …) assign into uninitialised storage)
template<typename T, bool ctor = false> static void qd_fi(const char* kind, uint64_t w, uint64_t p2, uint64_t p3) {
	qd r(1.0, 0x1p-60, bits2double(p2), bits2double(p3)); r = (T)w;
	std::printf("convdd qd fromi %s %016llx %016llx %016llx => %016llx %016llx %016llx %016llx\n", kind, (ull)w, (ull)p2, (ull)p3,
		(ull)canon(r[0]), (ull)canon(r[1]), (ull)canon(r[2]), (ull)canon(r[3]));
	if constexpr (ctor) { qd c((T)w);
		std::printf("convdd qd fromi %s %016llx %016llx %016llx => %016llx %016llx %016llx %016llx\n", kind, (ull)w, 0ull, 0ull,
			(ull)canon(c[0]), (ull)canon(c[1]), (ull)canon(c[2]), (ull)canon(c[3])); }
}
static void from_int(uint64_t v, uv::Rng& g) {
	if (!g_from) return;
	{ dd r = dd(1.0) / dd(3.0); r = (long long)v; std::printf("ddconv from_i64 %016llx => %016llx %016llx\n", (ull)v, (ull)canon(r.high()), (ull)canon(r.low()));
	  dd c((long long)v); std::printf("ddconv from_i64 %016llx => %016llx %016llx\n", (ull)v, (ull)canon(c.high()), (ull)canon(c.low())); }
	{ dd r = dd(1.0) / dd(3.0); r = (unsigned long long)v; std::printf("ddconv from_u64 %016llx => %016llx %016llx\n", (ull)v, (ull)canon(r.high()), (ull)canon(r.low()));
	  dd c((unsigned long long)v); std::printf("ddconv from_u64 %016llx => %016llx %016llx\n", (ull)v, (ull)canon(c.high()), (ull)canon(c.low())); }
	dd_fi<signed char>("i8", v); dd_fi<short>("i16", v); dd_fi<int>("i32", v); dd_fi<long>("l64", v);
	dd_fi<unsigned char, false>("u8", v); dd_fi<unsigned short>("u16", v); dd_fi<unsigned int>("u32", v); dd_fi<unsigned long>("ul64", v);
	uint64_t p2 = g.below(3) ? 0 : double2bits(0x1p-110), p3 = g.below(3) ? 0 : double2bits(-0x1p-170);
	qd_fi<signed char, true>("i8", v, p2, p3); qd_fi<short, true>("i16", v, p2, p3); qd_fi<int, true>("i32", v, p2, p3); qd_fi<long>("l64", v, p2, p3); qd_fi<long long>("i64", v, p2, p3);
	qd_fi<unsigned char>("u8", v, p2, p3); qd_fi<unsigned short, true>("u16", v, p2, p3); qd_fi<unsigned int, true>("u32", v, p2, p3); qd_fi<unsigned long>("ul64", v, p2, p3); qd_fi<unsigned long long>("u64", v, p2, p3);
}
static void from_f64(uint64_t d) {
	if (!g_from) return;
	{ dd r = dd(1.0) / dd(3.0); r = bits2double(d); std::printf("ddconv from_double %016llx => %016llx %016llx\n", (ull)d, (ull)canon(r.high()), (ull)canon(r.low()));
	  dd c(bits2double(d)); std::printf("ddconv from_double %016llx => %016llx %016llx\n", (ull)d, (ull)canon(c.high()), (ull)canon(c.low())); }
	{ qd r(1.0, 0x1p-60, 0x1p-120, 0x1p-180); r = bits2double(d);
	  std::printf("convdd qd from_f64 %016llx => %016llx %016llx %016llx %016llx\n", (ull)d, (ull)canon(r[0]), (ull)canon(r[1]), (ull)canon(r[2]), (ull)canon(r[3]));
	  qd c(bits2double(d));
	  std::printf("convdd qd from_f64 %016llx => %016llx %016llx %016llx %016llx\n", (ull)d, (ull)canon(c[0]), (ull)canon(c[1]), (ull)canon(c[2]), (ull)canon(c[3])); }
}
static void from_f32(uint32_t b) {
	if (!g_from) return;
	float f = uv::bits2float(b);
	{ dd r = dd(1.0) / dd(3.0); r = f; std::printf("convdd dd from_f32 %08x => %016llx %016llx\n", b, (ull)canon(r.high()), (ull)canon(r.low()));
	  dd c(f); std::printf("convdd dd from_f32 %08x => %016llx %016llx\n", b, (ull)canon(c.high()), (ull)canon(c.low())); }
	{ qd r(1.0, 0x1p-60, 0x1p-120, 0x1p-180); r = f;
	  std::printf("convdd qd from_f32 %08x => %016llx %016llx %016llx %016llx\n", b, (ull)canon(r[0]), (ull)canon(r[1]), (ull)canon(r[2]), (ull)canon(r[3]));
	  qd c(f);
	  std::printf("convdd qd from_f32 %08x => %016llx %016llx %016llx %016llx\n", b, (ull)canon(c[0]), (ull)canon(c[1]), (ull)canon(c[2]), (ull)canon(c[3])); }
}

// long double sources: (sign+exponent word, 64-bit significand)
static long double ld_make(unsigned se, uint64_t mant) {
	unsigned char b[16] = {0}; std::memcpy(b, &mant, 8); b[8] = se & 0xff; b[9] = (se >> 8) & 0xff;
	long double x; std::memcpy(&x, b, sizeof x); return x;
}
static void from_ld(unsigned se, uint64_t mant) {
	if (!g_from) return;
	if ((se & 0x7fff) != 0 && !(mant >> 63)) return;         // unnormal patterns are not valid x87 values
	if ((se & 0x7fff) == 0 && (mant >> 63)) return;          // pseudo-denormal
	long double x = ld_make(se, mant);
	{ dd r = dd(1.0) / dd(3.0); r = x; std::printf("convdd dd from_ld %x %016llx => %016llx %016llx\n", se, (ull)mant, (ull)canon(r.high()), (ull)canon(r.low()));
	  dd c(x); std::printf("convdd dd from_ld %x %016llx => %016llx %016llx\n", se, (ull)mant, (ull)canon(c.high()), (ull)canon(c.low())); }
	{ qd r(1.0, 0x1p-60, 0x1p-120, 0x1p-180); r = x;
	  std::printf("convdd qd from_ld %x %016llx => %016llx %016llx %016llx %016llx\n", se, (ull)mant, (ull)canon(r[0]), (ull)canon(r[1]), (ull)canon(r[2]), (ull)canon(r[3])); }
}
// a long double aimed at the double rounding of its 64-bit significand: low 11 bits = tie / just off a tie / zero / random
static void ld_structured(uv::Rng& g) {
	uint64_t mant = (1ull << 63) | (g.next() >> 1);
	switch (g.below(7)) {
	case 0: mant &= ~uv::mask(11); break;                                  // a double
	case 1: mant = (mant & ~uv::mask(11)) | 0x400; break;                  // exact tie
	case 2: mant = (mant & ~uv::mask(11)) | 0x3ff; break;
	case 3: mant = (mant & ~uv::mask(11)) | 0x401; break;
	case 4: mant = (mant & ~uv::mask(11)) | (1ull << g.below(11)); break;  // a single low bit
	case 5: mant |= uv::mask(11 + (unsigned)g.below(40)); break;           // all ones tail: rounds up, may carry into the next binade
	default: break;
	}
	unsigned e;
	switch (g.below(8)) {
	case 0: e = 16383 + 1023 - (unsigned)g.below(3); break;               // top of the double range (rounds to inf / DBL_MAX)
	case 1: e = 16383 + 1024 + (unsigned)g.below(4); break;               // beyond the double range
	case 2: e = 16383 - 1022 - (unsigned)g.below(70); break;              // double subnormal range: the tail falls below 2^-1074
	case 3: e = 16383 - 1022 + (unsigned)g.below(70); break;              // tail near the bottom of the grid
	case 4: e = (unsigned)g.below(3); break;                                // x87 subnormal / tiny
	default: e = 16383 - 200 + (unsigned)g.below(401); break;
	}
	if (e == 0) mant &= ~(1ull << 63);
	from_ld(((unsigned)g.coin() << 15) | e, mant);
}

// ---- to native -----------------------------------------------------------------------------------------
template<typename T> static void dd_ti(const char* kind, uint64_t hi, uint64_t lo, const dd& x) {
	T v = T(x); long long sv; if constexpr (std::is_signed_v<T>) sv = (long long)v; else sv = (long long)(unsigned long long)v;
	std::printf("convdd dd toi %s %016llx %016llx => %016llx\n", kind, (ull)hi, (ull)lo, (ull)sv);
}
static void dd_to(uint64_t hi, uint64_t lo) {
	if (!g_to) return;
	dd x(bits2double(hi), bits2double(lo));
	std::printf("ddconv to_double %016llx %016llx => %016llx\n", (ull)hi, (ull)lo, (ull)canon(double(x)));
	std::printf("ddconv to_i64 %016llx %016llx => %016llx\n", (ull)hi, (ull)lo, (ull)(long long)x);
	std::printf("ddconv to_u64 %016llx %016llx => %016llx\n", (ull)hi, (ull)lo, (ull)(unsigned long long)x);
	std::printf("convdd dd to_f32 %016llx %016llx => %08x\n", (ull)hi, (ull)lo, canonf(float(x)));
	dd_ti<int>("i32", hi, lo, x); dd_ti<long>("l64", hi, lo, x); dd_ti<unsigned int>("u32", hi, lo, x); dd_ti<unsigned long>("ul64", hi, lo, x);
}
template<typename T> static void qd_ti(const char* kind, const uint64_t* b, const qd& x) {
	T v = T(x); long long sv; if constexpr (std::is_signed_v<T>) sv = (long long)v; else sv = (long long)(unsigned long long)v;
	std::printf("convdd qd toi %s %016llx %016llx %016llx %016llx => %016llx\n", kind, (ull)b[0], (ull)b[1], (ull)b[2], (ull)b[3], (ull)sv);
}
static void qd_to(const uint64_t* b) {
	if (!g_to) return;
	qd x(bits2double(b[0]), bits2double(b[1]), bits2double(b[2]), bits2double(b[3]));
	std::printf("convdd qd to_f64 %016llx %016llx %016llx %016llx => %016llx\n", (ull)b[0], (ull)b[1], (ull)b[2], (ull)b[3], (ull)canon(double(x)));
	std::printf("convdd qd to_f32 %016llx %016llx %016llx %016llx => %08x\n", (ull)b[0], (ull)b[1], (ull)b[2], (ull)b[3], canonf(float(x)));
	qd_ti<int>("i32", b, x); qd_ti<long long>("i64", b, x); qd_ti<unsigned int>("u32", b, x); qd_ti<unsigned long long>("u64", b, x);
}

// a tail for a limb with biased exponent e: exactly half an ulp, just below / above it, far below, opposite sign, zero
static uint64_t tail(uv::Rng& g, uint64_t head) {
	int e = (int)fpgen::expo(head);
	if (!fpgen::is_fin(head) || e < 120) return 0;
	switch (g.below(8)) {
	case 0: return 0;
	case 1: return fpgen::mk(g.coin(), (unsigned)(e - 53), 0);                                  // exactly half an ulp: tie
	case 2: return fpgen::mk(g.coin(), (unsigned)(e - 54), uv::mask(52) - g.below(4));          // just below half an ulp
	case 3: return fpgen::mk(g.coin(), (unsigned)(e - 54 - (int)g.below(50)), fpgen::frac_shape(g));
	case 4: return fpgen::mk(!fpgen::sgn(head), (unsigned)(e - 54), fpgen::frac_shape(g));
	case 5: return fpgen::mk(g.coin(), (unsigned)(e - 53), g.below(4));                           // just above half an ulp (not normalised)
	case 6: return fpgen::mk(g.coin(), (unsigned)(e - 52 + (int)g.below(3)), fpgen::frac_shape(g)); // overlapping (not normalised)
	default: return fpgen::mk(g.coin(), (unsigned)(e - 54 - (int)g.below(8)), (g.next() & uv::mask(52)) | 1);
	}
}

static void specials() {
	const uint64_t ints[] = { 0ull, 1ull, 2ull, 0x7full, 0x80ull, 0xffull, 0x100ull, 0x7fffull, 0x8000ull, 0xffffull, 0x10000ull, 0x7fffffffull, 0x80000000ull, 0xffffffffull, 0x100000000ull,
		(1ull << 53) - 1, 1ull << 53, (1ull << 53) + 1, (1ull << 53) + 2, (1ull << 53) + 3, (1ull << 54) + 2, (1ull << 54) + 6, (1ull << 62) + 1, (1ull << 62) + 513,
		0x7fffffffffffffffull, 0x7ffffffffffffe00ull, 0x7ffffffffffffdffull, 0x7ffffffffffffc00ull, 0x7ffffffffffffbffull, 0x8000000000000000ull, 0x8000000000000001ull, 0x8000000000000400ull, 0x8000000000000401ull,
		0xffffffffffffffffull, 0xfffffffffffffffeull, 0xfffffffffffffc00ull, 0xfffffffffffffbffull, 0xfffffffffffff800ull, 0xfffffffffffff7ffull, 0xfffffffffffff801ull };
	uv::Rng g(7);
	for (uint64_t w : ints) { from_int(w, g); from_int(~w + 1, g); }
	const uint64_t dbl[] = { 0x0ull, 0x8000000000000000ull, 0x1ull, 0x8000000000000001ull, 0x000fffffffffffffull, 0x0010000000000000ull, 0x7fefffffffffffffull, 0xffefffffffffffffull,
		0x7ff0000000000000ull, 0xfff0000000000000ull, 0x7ff8000000000000ull, 0x7ff0000000000001ull, 0x3ff0000000000000ull, 0xbff0000000000000ull };
	for (uint64_t b : dbl) from_f64(b);
	const unsigned lse[] = { 0x0000, 0x8000, 0x3fff, 0xbfff, 0x7fff, 0xffff, 0x43fe, 0x43ff, 0x4400, 0x3c01, 0x3c00, 0x0001 };
	const uint64_t lmant[] = { 0x8000000000000000ull, 0x8000000000000400ull, 0x8000000000000401ull, 0xffffffffffffffffull, 0xfffffffffffffc00ull, 0xfffffffffffffbffull, 0xc000000000000000ull };
	for (unsigned se : lse) for (uint64_t m : lmant) from_ld(se, m);
	from_ld(0x0000, 0); from_ld(0x8000, 0); from_ld(0x0000, 1); from_ld(0x7fff, 0xc000000000000000ull);
	const uint32_t flt[] = { 0u, 0x80000000u, 1u, 0x80000001u, 0x007fffffu, 0x00800000u, 0x7f7fffffu, 0xff7fffffu, 0x7f800000u, 0xff800000u, 0x7fc00000u, 0x7f800001u, 0x3f800000u, 0xbf800000u };
	for (uint32_t b : flt) from_f32(b);
	// read-back witnesses: (62, -2^-51); a qd whose second limb is exactly half an ulp and whose third limb decides
	dd_to(double2bits(62.0), double2bits(-0x1p-51));
	dd_to(double2bits(-62.0), double2bits(0x1p-51));
	// the repaired truncation: integer heads with a fractional tail of either sign, tails with an integer part, heads in
	// [2^63, 2^64] (unsigned reads), the int64 limits
	{
		const double heads[] = { 1.0, 2.0, 62.0, 0x1p31, 0x1p32, 0x1p52, 0x1p53, 0x1p60, 0x1p62, 0x1p63, 0x1p63 + 2048.0, 0x1p64 - 2048.0, 0x1p64, 4503599627370497.0, 0.5, 1.5, 0.0 };
		const double tails[] = { 0.0, 0x1p-60, -0x1p-60, 0.25, -0.25, 0.5, -0.5, 1.0, -1.0, 3.5, -3.5, 100.75, -100.75, 1023.5, -1023.5, 0x1p-1074, -0x1p-1074 };
		for (double h : heads) for (double t : tails) {
			if (std::fabs(t) > std::fabs(h) && h != 0.0) continue;
			dd_to(double2bits(h), double2bits(t)); dd_to(double2bits(-h), double2bits(t));
			uint64_t q[4] = { double2bits(h), double2bits(t), 0, 0 }; qd_to(q);
			uint64_t r[4] = { double2bits(-h), double2bits(t), 0, 0 }; qd_to(r);
		}
		// qd: two integer limbs, the third (or fourth) limb carries the fraction
		const double h2[] = { 5.0, 0x1p60, 0x1p62 + 1024.0, 0x1p63, 0x1p63 + 4096.0, 0x1p64 - 2048.0 };
		const double t2[] = { 0.0, 3.0, -3.0 };
		const double f2[] = { 0x1p-55, -0x1p-55, 0x1p-80, -0x1p-80 };
		for (double h : h2) for (double t : t2) for (double f : f2) for (int sg = 0; sg < 2; ++sg) {
			if (std::fabs(t) * 0x1p53 > std::fabs(h) * 1.0 && t != 0.0 && h < 0x1p54) continue;
			double s = sg ? -1.0 : 1.0;
			uint64_t q[4] = { double2bits(s * h), double2bits(t), double2bits(f), 0 }; qd_to(q);
			uint64_t r[4] = { double2bits(s * h), double2bits(t), double2bits(f), double2bits(-f * 0x1p-60) }; qd_to(r);
			uint64_t u[4] = { double2bits(s * h), double2bits(t), 0, double2bits(f * 0x1p-60) }; qd_to(u);
		}
	}
	{ uint64_t q[4] = { double2bits(1.0), double2bits(0x1p-53), double2bits(0x1p-110), 0 }; qd_to(q); }
	{ uint64_t q[4] = { double2bits(1.0), double2bits(0x1p-53), double2bits(-0x1p-110), 0 }; qd_to(q); }
	{ uint64_t q[4] = { double2bits(1.0 + 0x1p-52), double2bits(-0x1p-53), double2bits(0x1p-110), double2bits(0x1p-170) }; qd_to(q); }
	{ uint64_t q[4] = { double2bits(5.0), double2bits(0.0), double2bits(-0x1p-80), 0 }; qd_to(q); }
	{ uint64_t q[4] = { 0, 0, 0, 0 }; qd_to(q); dd_to(0, 0); dd_to(1ull << 63, 0); }
	{ uint64_t q[4] = { fpgen::QNAN, 0, 0, 0 }; qd_to(q); dd_to(fpgen::QNAN, 0); dd_to(fpgen::mk(false, 0x7ff, 0), 0); dd_to(fpgen::mk(true, 0x7ff, 0), 0); }
}

static void one(uv::Rng& g) {
	// ---- integer sources: 2^k +- small, 54..64 significant bits, near the type limits
	uint64_t v;
	switch (g.below(8)) {
	case 0: v = g.next(); break;
	case 1: v = g.next() >> g.below(64); break;
	case 2: v = (1ull << g.below(64)) + (uint64_t)((int64_t)g.below(5) - 2); break;
	case 3: v = (uint64_t)0 - (g.next() >> g.below(64)); break;
	case 4: v = ((1ull << 53) + g.below(8)) << g.below(11); break;
	case 5: v = (g.next() | (1ull << 63)) | 1; break;
	case 6: { unsigned s = (unsigned)g.below(11); v = ((((1ull << 52) | (g.next() & uv::mask(52))) << 1 | 1) << s) + (uint64_t)((int64_t)g.below(3) - 1); break; } // 54-bit odd << s: ties of the double rounding
	default: v = ~0ull - (g.next() >> (40 + g.below(24))); break;
	}
	from_int(v, g);
	from_f64(fpgen::operand(g));
	from_f32((uint32_t)g.next());
	ld_structured(g);
	{ uint32_t e = (uint32_t)g.below(255); from_f32(((uint32_t)g.coin() << 31) | (e << 23) | (uint32_t)(fpgen::frac_shape(g) >> 29)); }
	if (!g_to) return;
	// ---- read back: integers up to 2^64 with a tail, generic normalised operands, ties
	uint64_t hi = g.coin() ? double2bits((double)(long long)v) : fpgen::ranged(g, 1023 - 4, 1023 + 66);
	if (g.below(6) == 0) hi = fpgen::ranged(g, 1023 - 140, 1023 + 140);
	if (g.below(40) == 0) hi = fpgen::operand(g, 2);
	uint64_t lo = tail(g, hi);
	dd_to(hi, lo);
	uint64_t q[4]; q[0] = hi; q[1] = lo; q[2] = g.below(3) ? tail(g, q[1]) : 0; q[3] = g.below(3) ? tail(g, q[2]) : 0;
	qd_to(q);
}

// `h_convdd replay <file>`: re-run the inputs of the recorded ddconv / convdd lines through the CURRENT headers
static int replay(const char* path) {
	std::ifstream in(path); std::string line; uv::Rng g(1);
	while (std::getline(in, line)) {
		if (line.empty() || line[0] == '#') continue;
		std::istringstream ss(line); std::vector<std::string> t; std::string w;
		while (ss >> w) { if (w == "=>") break; t.push_back(w); }
		auto hx = [&](size_t i) { return i < t.size() ? std::strtoull(t[i].c_str(), nullptr, 16) : 0ull; };
		if (t.size() >= 3 && t[0] == "ddconv") {
			const std::string& op = t[1];
			if (op == "from_i64" || op == "from_u64") from_int(hx(2), g);
			else if (op == "from_double") from_f64(hx(2));
			else if (op.rfind("to_", 0) == 0) dd_to(hx(2), hx(3));
		} else if (t.size() >= 4 && t[0] == "convdd") {
			const std::string& op = t[2];
			bool q = t[1] == "qd";
			if (op == "fromi") from_int(hx(4), g);
			else if (op == "from_f64") from_f64(hx(3));
			else if (op == "from_f32") from_f32((uint32_t)hx(3));
			else if (op == "from_ld") from_ld((unsigned)hx(3), hx(4));
			else if (op == "to_f32" || op == "to_f64" || op == "toi") {
				size_t o = op == "toi" ? 4 : 3;
				if (q) { uint64_t b[4] = { hx(o), hx(o + 1), hx(o + 2), hx(o + 3) }; qd_to(b); } else dd_to(hx(o), hx(o + 1));
			}
		}
	}
	return 0;
}

int main(int argc, char** argv) {
	if (argc < 3) { std::fprintf(stderr, "usage: h_convdd rnd <count> [from|to|all] | h_convdd replay <file>\n"); return 2; }
	uv::Out out;
	if (std::string(argv[1]) == "replay") return replay(argv[2]);
	uint64_t count = std::strtoull(argv[2], nullptr, 10);
	std::string ops = argc > 3 ? argv[3] : "all";
	g_from = ops == "all" || ops == "from"; g_to = ops == "all" || ops == "to";
	uv::Rng g(uv::seed_from_env() * 1000003ull + 15485863ull);
	specials();
	for (uint64_t i = 0; i < count; ++i) one(g);
	return 0;
}
