// h_convfix.cpp — transcript of the conversions of fixpnt<nbits, rbits, Modulo|Saturate, bt> (properties C03 / C04 / C15).
// usage: h_convfix exh <nbits> <rbits> <M|S> <bt> 0 <from|to>        every target encoding (nbits <= 12)
//        h_convfix rnd <nbits> <rbits> <M|S> <bt> <count> <from|to>  structured target encodings (seed: VERIF_SEED)
//        h_convfix resize <M|S> <bt> <count>                         the size adapter over the whole configuration matrix
//        h_convfix replay <file> <bt>                                re-execute the inputs of the recorded convfix lines of that block type
// compile with -DUV_BT=8|16|32 for one block type only.
//
// lines (numbers hex; doubles / floats as the hex of their bit pattern; raw = RAW block storage of bits()):
//   convfix n r A bt fromi <kind> <w64> => raw     the 64-bit word w64 cast to <kind> (i8 i16 i32 l64 i64 c8 u16 u32 ul64 u64), then assigned
//   convfix n r A bt fromd <bits64> => raw         fromf <bits32> => raw
//        fromi / fromd / fromf assign with operator= onto a NON-FRESH target (every bit set before the assignment);
//        ctori / ctord / ctorf are the same conversions through the fresh converting constructor
//   convfix n r A bt tod <raw> => <bits64> <raw of fixpnt(double(x))>      tof <raw> => <bits32> <raw back>
//   convfix n r A bt toi <kind> <raw> => <value as 64-bit two's complement>
//   convfix n r A bt resize <n2> <r2> <raw> <prev> => <raw2>   fixpnt<n2,r2,A,bt> t (holding prev) = fixpnt<n,r,A,bt>(raw)
// Sources of the from-native lines are generated FROM THE TARGET LATTICE: for a target raw value Y (value Y / 2^r) the value
// itself, the midpoint (2Y+1) / 2^(r+1), +-1 source ulp around both, the integers around it, and the images Y + k 2^n beyond
// the range (wrap / clamp).
#include <universal/number/fixpnt/fixpnt.hpp>
#include <cmath>
#include <fstream>
#include <sstream>
#include <vector>
#include "limbio.hpp"

using namespace sw::universal;
using uv::Big;
typedef unsigned long long ull;

static bool g_from = true, g_to = true, g_dense = false;   // g_dense: every target encoding is visited, neighbours cover the +-1 integers

template<typename bt> struct BtName;
template<> struct BtName<uint8_t>  { static constexpr const char* s = "u8"; };
template<> struct BtName<uint16_t> { static constexpr const char* s = "u16"; };
template<> struct BtName<uint32_t> { static constexpr const char* s = "u32"; };

template<typename F> static F mkfix(const Big& b) {
	blockbinary<F::nbits, typename F::BlockType, BinaryNumberType::Signed> bb; uv::load(bb, b); F f; f = bb; return f;
}
template<typename F> static std::string outfix(const F& f) { return uv::store(f.bits()).hex(); }
// a NON-FRESH target: every bit set (every limb non-zero) before the assignment
template<typename F> static F dirty() { return mkfix<F>(Big::ones(F::nbits)); }

template<unsigned nbits, unsigned rbits, bool arith, typename bt>
struct Run {
	using F = fixpnt<nbits, rbits, arith, bt>;
	static void hdr() { std::printf("convfix %u %u %c %s ", nbits, rbits, arith == Modulo ? 'M' : 'S', BtName<bt>::s); }

	// ---- from native ------------------------------------------------------------------------------
	template<typename T> static void fi(const char* kind, uint64_t w) {
		UV_MARK("convfix %u %u fromi %s %llx", nbits, rbits, kind, (ull)w);
		F f = dirty<F>(); f = (T)w;                 // operator= onto a dirty target
		hdr(); std::printf("fromi %s %llx => %s\n", kind, (ull)w, outfix(f).c_str());
		F c((T)w);                                  // fresh converting constructor
		hdr(); std::printf("ctori %s %llx => %s\n", kind, (ull)w, outfix(c).c_str());
	}
	static void from_int(uint64_t w) {
		if (!g_from) return;
		fi<short>("i16", w); fi<int>("i32", w); fi<long>("l64", w); fi<long long>("i64", w);
		fi<unsigned short>("u16", w); fi<unsigned int>("u32", w); fi<unsigned long>("ul64", w); fi<unsigned long long>("u64", w);
#ifndef UV_NO_CHAR
		if constexpr (arith == Modulo) { fi<signed char>("i8", w); fi<char>("c8", w); }   // Saturate: static_cast<char>(fixpnt) is ambiguous (does not compile)
#endif
	}
	static void from_f64(double d) {
		if (!g_from) return;
		UV_MARK("convfix %u %u fromd %llx", nbits, rbits, (ull)uv::double2bits(d));
		F f = dirty<F>(); f = d;
		hdr(); std::printf("fromd %llx => %s\n", (ull)uv::double2bits(d), outfix(f).c_str());
		F c(d);
		hdr(); std::printf("ctord %llx => %s\n", (ull)uv::double2bits(d), outfix(c).c_str());
	}
	static void from_f32(float x) {
		if (!g_from) return;
		UV_MARK("convfix %u %u fromf %x", nbits, rbits, uv::float2bits(x));
		F f = dirty<F>(); f = x;
		hdr(); std::printf("fromf %x => %s\n", uv::float2bits(x), outfix(f).c_str());
		F c(x);
		hdr(); std::printf("ctorf %x => %s\n", uv::float2bits(x), outfix(c).c_str());
	}
	// ---- to native --------------------------------------------------------------------------------
	template<typename T> static void ti(const char* kind, const Big& a, const F& f) {
		T v = T(f);
		long long sv; if constexpr (std::is_signed_v<T>) sv = (long long)v; else sv = (long long)(unsigned long long)v;
		hdr(); std::printf("toi %s %s => %llx\n", kind, a.hex().c_str(), (ull)sv);
	}
	static void to_native(const Big& a) {
		if (!g_to) return;
		UV_MARK("convfix %u %u to_native %s", nbits, rbits, a.hex().c_str());
		F f = mkfix<F>(a);
		{ double d = double(f); F back = dirty<F>(); back = d;
		  hdr(); std::printf("tod %s => %llx %s\n", a.hex().c_str(), (ull)uv::double2bits(d), outfix(back).c_str()); }
		{ float x = float(f); F back = dirty<F>(); back = x;
		  hdr(); std::printf("tof %s => %x %s\n", a.hex().c_str(), uv::float2bits(x), outfix(back).c_str()); }
		ti<short>("i16", a, f); ti<int>("i32", a, f); ti<long>("l64", a, f); ti<long long>("i64", a, f);
		ti<unsigned short>("u16", a, f); ti<unsigned int>("u32", a, f); ti<unsigned long>("ul64", a, f); ti<unsigned long long>("u64", a, f);
	}
	// ---- sources from the target lattice ----------------------------------------------------------
	static void around(long double v) {
		double d = (double)v; float f = (float)v;
		for (int k = -1; k <= 1; ++k) {
			double dd = d; if (k) dd = std::nextafter(d, k > 0 ? HUGE_VAL : -HUGE_VAL); from_f64(dd);
			float ff = f; if (k) ff = std::nextafterf(f, k > 0 ? HUGE_VALF : -HUGE_VALF); from_f32(ff);
		}
		if (v > -9.2e18L && v < 9.2e18L) {
			long long i = (long long)v;
			for (long long k = (g_dense ? 0 : -1); k <= (g_dense ? 1 : 2); ++k) from_int((uint64_t)(i + k));
		} else if (v > 0 && v < 1.8e19L) {
			unsigned long long u = (unsigned long long)v;
			for (long long k = -1; k <= 1; ++k) from_int((uint64_t)(u + (unsigned long long)k));
		}
	}
	// Y = signed raw value of the target encoding (low 64 bits when nbits > 64)
	static void conv_target(const Big& y) {
		to_native(y);
		if (!g_from) return;
		constexpr unsigned m = nbits < 64 ? nbits : 64;
		int64_t Y = (int64_t)y.v[0];
		if (m < 64 && ((Y >> (m - 1)) & 1)) Y |= ~(int64_t)uv::mask(m); else if (m < 64) Y &= (int64_t)uv::mask(m);
		long double v = std::ldexp((long double)Y, -(int)rbits);
		long double mid = std::ldexp((long double)Y + 0.5L, -(int)rbits);           // exact while |Y| < 2^62
		around(v); around(mid);
		// images outside the range: Y + k 2^n (wrap for Modulo, clamp for Saturate)
		if constexpr (nbits <= 62) {
			for (int k = -2; k <= 2; ++k) {
				if (!k) continue;
				long double w = std::ldexp((long double)Y + (long double)k * std::ldexp(1.0L, (int)nbits), -(int)rbits);
				from_f64((double)w); from_f32((float)w);
				long double wm = std::ldexp((long double)Y + 0.5L + (long double)k * std::ldexp(1.0L, (int)nbits), -(int)rbits);
				from_f64((double)wm);
				if (w > -9.2e18L && w < 9.2e18L) from_int((uint64_t)(long long)w);
			}
		}
	}
	static void fixed(uv::Rng& g, unsigned randoms) {
		if (!g_from) return;
		const uint64_t specials[] = { 0ull, 1ull, 2ull, 0x7full, 0x80ull, 0xffull, 0x100ull, 0x7fffull, 0x8000ull, 0xffffull, 0x10000ull, 0x7fffffffull, 0x80000000ull, 0xffffffffull, 0x100000000ull,
			(1ull << 53) - 1, 1ull << 53, (1ull << 53) + 1, 0x7fffffffffffffffull, 0x8000000000000000ull, 0x8000000000000001ull, 0xffffffffffffffffull, 0xfffffffffffffffeull,
			(1ull << 63) + (1ull << 10), 0x7ffffffffffffc00ull, 0xfffffffffffff800ull };
		for (uint64_t w : specials) { from_int(w); from_int(~w + 1); }
		// the clamp thresholds: floor(maxpos), maxpos, raw maxpos read as an integer, and their neighbours
		if constexpr (nbits - rbits >= 1 && nbits - rbits <= 64) {
			uint64_t ip = (nbits - rbits - 1 >= 64) ? ~0ull : ((1ull << (nbits - rbits - 1)) - 1);
			for (long long k = -2; k <= 2; ++k) { from_int(ip + (uint64_t)k); from_int((~ip + 1) + (uint64_t)k); from_int((~ip) + (uint64_t)k); }
		}
		if constexpr (nbits <= 64) {
			uint64_t rawmax = (nbits >= 64 ? ~0ull : ((1ull << (nbits - 1)) - 1));
			for (long long k = -2; k <= 2; ++k) { from_int(rawmax + (uint64_t)k); from_int((~rawmax) + (uint64_t)k); }
			long double mp = std::ldexp((long double)rawmax, -(int)rbits), mn = -std::ldexp(1.0L, (int)nbits - 1 - (int)rbits);
			long double ulp = std::ldexp(1.0L, -(int)rbits);
			for (int k = -4; k <= 4; ++k) {
				around(mp + k * ulp / 4); around(mn + k * ulp / 4);
			}
			// doubles just below 2^(nbits-1-rbits): between maxpos and the float image of maxpos
			double top = (double)std::ldexp(1.0L, (int)nbits - 1 - (int)rbits);
			double t = top; for (int k = 0; k < 6; ++k) { from_f64(t); from_f64(-t); t = std::nextafter(t, 0.0); }
			float tf = (float)top; for (int k = 0; k < 4; ++k) { from_f32(tf); from_f32(-tf); tf = std::nextafterf(tf, 0.0f); }
		}
		const uint64_t dspecial[] = { 0x0ull, 0x8000000000000000ull, 0x1ull, 0x8000000000000001ull, 0x000fffffffffffffull, 0x0010000000000000ull, 0x7fefffffffffffffull,
			0xffefffffffffffffull, 0x7ff0000000000000ull, 0xfff0000000000000ull, 0x7ff8000000000000ull, 0x7ff0000000000001ull, 0xfff8000000000001ull,
			0x3ff0000000000000ull, 0xbff0000000000000ull, 0x3fe0000000000000ull, 0x3fdfffffffffffffull, 0x3fe0000000000001ull, 0x43e0000000000000ull, 0xc3e0000000000000ull, 0x43f0000000000000ull,
			0x4340000000000000ull, 0x433fffffffffffffull, 0x4340000000000001ull };
		for (uint64_t b : dspecial) from_f64(uv::bits2double(b));
		const uint32_t fspecial[] = { 0u, 0x80000000u, 1u, 0x80000001u, 0x007fffffu, 0x00800000u, 0x7f7fffffu, 0xff7fffffu, 0x7f800000u, 0xff800000u, 0x7fc00000u, 0x7f800001u,
			0x3f800000u, 0xbf800000u, 0x3f000000u, 0x3effffffu, 0x3f000001u, 0x4b800000u, 0x4b7fffffu, 0x5f000000u, 0xdf000000u };
		for (uint32_t b : fspecial) from_f32(uv::bits2float(b));
		// every power of two and its neighbours across the whole lattice (+ a few binades outside)
		for (int e = -(int)rbits - 3; e <= (int)nbits - (int)rbits + 2; ++e) {
			double p = std::ldexp(1.0, e);
			from_f64(p); from_f64(-p); from_f64(std::nextafter(p, 0.0)); from_f64(-std::nextafter(p, 0.0)); from_f64(p * 1.5); from_f64(-p * 1.5);
			from_f32((float)p); from_f32(-(float)p); from_f32(std::nextafterf((float)p, 0.0f)); from_f32((float)p * 1.5f); from_f32(-(float)p * 1.5f);
		}
		for (unsigned i = 0; i < randoms; ++i) {
			from_f64(uv::bits2double(g.next()));
			from_f32(uv::bits2float((uint32_t)g.next()));
			uint64_t w = g.next() >> g.below(64); from_int(g.coin() ? w : (~w + 1));
			int e = (int)g.below(nbits + 6) - (int)rbits - 3;
			from_f64(std::ldexp(1.0 + (double)(g.next() >> 11) * 0x1p-53, e) * (g.coin() ? 1 : -1));
			from_f32(std::ldexp(1.0f + (float)(g.next() >> 40) * 0x1p-24f, e) * (g.coin() ? 1 : -1));
		}
	}
	// re-execute the inputs of one recorded line: t = op and operands
	static void replay(const std::vector<std::string>& t) {
		g_from = g_to = true;
		const std::string& op = t[0];
		auto hx = [&](size_t i) { return i < t.size() ? std::strtoull(t[i].c_str(), nullptr, 16) : 0ull; };
		if (op == "fromi" || op == "ctori") { from_int(hx(2)); return; }
		if (op == "fromd" || op == "ctord") { from_f64(uv::bits2double(hx(1))); return; }
		if (op == "fromf" || op == "ctorf") { from_f32(uv::bits2float((uint32_t)hx(1))); return; }
		if (op == "tod" || op == "tof") { if (t.size() > 1) to_native(Big::fromhex(t[1].c_str())); return; }
		if (op == "toi") { if (t.size() > 2) to_native(Big::fromhex(t[2].c_str())); return; }
	}
	static void exhaustive() {
		uv::Rng g(uv::seed_from_env() * 2654435761ull + nbits * 131ull + rbits);
		if constexpr (nbits <= 12) {
			g_dense = true;
			for (uint64_t y = 0; y < (1ull << nbits); ++y) conv_target(Big(y));
			g_dense = false;
		}
		fixed(g, 300);
	}
	static void random(uint64_t count) {
		uv::Rng g(uv::seed_from_env() * 1000003ull + nbits * 131ull + rbits * 7ull + sizeof(bt) + (arith ? 0 : 3));
		fixed(g, (unsigned)(count / 4));
		for (uint64_t i = 0; i < count; ++i) conv_target(uv::operand(g, nbits));
	}
};

// ---- size adapter (C15) -------------------------------------------------------------------------------
// replay of one recorded resize line: only the matching pair of configurations runs, on the recorded source
static struct { bool on = false; unsigned n1 = 0, r1 = 0, n2 = 0, r2 = 0; Big src; } g_only;
template<unsigned n1, unsigned r1, unsigned n2, unsigned r2, bool arith, typename bt>
struct Resize {
	using S = fixpnt<n1, r1, arith, bt>;
	using T = fixpnt<n2, r2, arith, bt>;
	static void one(const Big& a) {
		UV_MARK("convfix resize %u %u -> %u %u %s", n1, r1, n2, r2, a.hex().c_str());
		S s = mkfix<S>(a);
		Big prev = Big::ones(n2);                    // NON-FRESH target: every bit set
		T t = mkfix<T>(prev);
		t = s;
		std::printf("convfix %u %u %c %s resize %u %u %s %s => %s\n", n1, r1, arith == Modulo ? 'M' : 'S', BtName<bt>::s, n2, r2, a.hex().c_str(), prev.hex().c_str(), outfix(t).c_str());
		{                                             // fresh converting constructor (every branch of the adapter assigns since the repair of the narrowing no-op)
			T c(s);
			std::printf("convfix %u %u %c %s resize %u %u %s 0 => %s\n", n1, r1, arith == Modulo ? 'M' : 'S', BtName<bt>::s, n2, r2, a.hex().c_str(), outfix(c).c_str());
		}
	}
	static void run(uv::Rng& g, uint64_t count) {
		if (g_only.on) { if (g_only.n1 == n1 && g_only.r1 == r1 && g_only.n2 == n2 && g_only.r2 == r2) one(g_only.src); return; }
		if constexpr (n1 <= 10) { for (uint64_t y = 0; y < (1ull << n1); ++y) one(Big(y)); }
		else {
			for (uint64_t i = 0; i < count; ++i) {
				Big a = uv::operand(g, n1);
				if constexpr (r1 > r2) if (g.below(3) == 0) {   // discarded bits exactly at / next to one half
					unsigned t = r1 - r2; if (t < n1) { a.setbit(t - 1, true); for (unsigned j = 0; j + 1 < t; ++j) a.setbit(j, g.below(8) == 0); }
				}
				one(a);
			}
		}
	}
};

#ifndef UV_BT
#define UV_BT 0
#endif

// exhaustive configurations (<= 12 bits) and sampled ones
#define SMALLCFG(X,BT) X(2,0,BT) X(2,1,BT) X(2,2,BT) X(3,1,BT) X(4,0,BT) X(4,1,BT) X(4,2,BT) X(4,3,BT) X(4,4,BT) X(5,2,BT) X(6,3,BT) X(6,5,BT) X(7,1,BT) \
	X(8,0,BT) X(8,3,BT) X(8,4,BT) X(8,7,BT) X(8,8,BT) X(9,4,BT) X(10,5,BT) X(10,10,BT) X(12,4,BT)
#define LARGECFG(X,BT) X(16,8,BT) X(17,8,BT) X(24,12,BT) X(25,10,BT) X(26,20,BT) X(32,16,BT) X(33,16,BT) X(40,4,BT) X(40,20,BT) X(48,40,BT) X(53,10,BT) X(54,30,BT) \
	X(64,0,BT) X(64,32,BT) X(64,60,BT) X(72,4,BT) X(80,40,BT)
#define ALLCFG(X,BT) SMALLCFG(X,BT) LARGECFG(X,BT)

// resize matrix: all ordered pairs of RS (exhaustive sources) + selected large pairs (19 sources x 17 targets)
#define RS(X,A,BT) X(4,1,A,BT) X(4,4,A,BT) X(5,0,A,BT) X(6,2,A,BT) X(6,3,A,BT) X(8,2,A,BT) X(8,4,A,BT) X(8,8,A,BT) X(10,5,A,BT)

template<unsigned n1, unsigned r1, bool arith, typename bt>
static void resize_from(uv::Rng& g, uint64_t count) {
#define Y(N2,R2,A,BT) Resize<n1, r1, N2, R2, arith, bt>::run(g, count);
	RS(Y, arith, bt)
	Y(12,4,,) Y(16,8,,) Y(24,12,,) Y(32,16,,) Y(64,32,,)
	Y(16,16,,) Y(20,0,,) Y(40,36,,)        // multi-limb targets: up-shift when narrowing (r2 >= r1), every source bit dropped (r2 = 0)
#undef Y
}
template<bool arith, typename bt>
static void resize_all(uint64_t count) {
	uv::Rng g(uv::seed_from_env() * 1000003ull + 77ull + sizeof(bt) + (arith ? 0 : 3));
#define Z(N1,R1,A,BT) resize_from<N1, R1, arith, bt>(g, count);
	RS(Z, arith, bt)
	Z(12,4,,) Z(16,8,,) Z(24,12,,) Z(32,16,,) Z(64,32,,) Z(40,20,,) Z(17,8,,)
	Z(16,16,,) Z(32,32,,) Z(40,36,,)       // all-fraction sources: shift by the full width into a target without fraction bits, on two limbs
#undef Z
}

// `h_convfix replay <file>`: re-run the inputs of every recorded `convfix … <this block type> …` line through the CURRENT headers
template<typename bt>
static int replay_file(const char* path) {
	std::ifstream in(path); std::string line;
	while (std::getline(in, line)) {
		if (line.empty() || line[0] == '#') continue;
		std::istringstream ss(line); std::vector<std::string> t; std::string w;
		while (ss >> w) { if (w == "=>") break; t.push_back(w); }
		if (t.size() < 7 || t[0] != "convfix" || t[4] != BtName<bt>::s) continue;
		unsigned n = (unsigned)std::atoi(t[1].c_str()), r = (unsigned)std::atoi(t[2].c_str());
		bool modulo = t[3][0] == 'M';
		std::vector<std::string> rest(t.begin() + 5, t.end());
		if (rest[0] == "resize") {
			if (rest.size() < 4) continue;
			g_only.on = true; g_only.n1 = n; g_only.r1 = r; g_only.n2 = (unsigned)std::atoi(rest[1].c_str()); g_only.r2 = (unsigned)std::atoi(rest[2].c_str());
			g_only.src = Big::fromhex(rest[3].c_str());
			if (modulo) resize_all<Modulo, bt>(0); else resize_all<Saturate, bt>(0);
			g_only.on = false;
			continue;
		}
#define X(N,R,BT) if (n == N && r == R) { if (modulo) Run<N,R,Modulo,bt>::replay(rest); else Run<N,R,Saturate,bt>::replay(rest); continue; }
		ALLCFG(X, bt)
#undef X
	}
	return 0;
}

template<typename bt>
static int run_bt(int argc, char** argv) {
	std::string mode = argv[1];
	if (mode == "replay") return replay_file<bt>(argv[2]);
	if (mode == "resize") {
		bool modulo = argv[2][0] == 'M';
		uint64_t count = argc > 4 ? std::strtoull(argv[4], nullptr, 10) : 200;
		if (modulo) resize_all<Modulo, bt>(count); else resize_all<Saturate, bt>(count);
		return 0;
	}
	unsigned n = (unsigned)std::atoi(argv[2]), r = (unsigned)std::atoi(argv[3]);
	bool modulo = argv[4][0] == 'M';
	uint64_t count = argc > 6 ? std::strtoull(argv[6], nullptr, 10) : 1000;
	std::string ops = argc > 7 ? argv[7] : "all";
	g_from = ops == "all" || ops == "from";
	g_to = ops == "all" || ops == "to";
#define X(N,R,BT) if (n == N && r == R) { \
		if (modulo) { if (mode == "exh") Run<N,R,Modulo,bt>::exhaustive(); else Run<N,R,Modulo,bt>::random(count); } \
		else { if (mode == "exh") Run<N,R,Saturate,bt>::exhaustive(); else Run<N,R,Saturate,bt>::random(count); } return 0; }
	ALLCFG(X, bt)
#undef X
	std::fprintf(stderr, "unsupported configuration %u %u\n", n, r);
	return 2;
}

int main(int argc, char** argv) {
	if (argc < 4) { std::fprintf(stderr, "usage: h_convfix exh|rnd nbits rbits M|S bt [count] [from|to|all]  |  h_convfix resize M|S bt [count]  |  h_convfix replay <file> bt\n"); return 2; }
	uv::Out out;
	uv::silence_stderr();
	std::string mode = argv[1];
	std::string bts = (mode == "resize" || mode == "replay") ? argv[3] : (argc > 5 ? argv[5] : "u8");
#if UV_BT == 0 || UV_BT == 8
	if (bts == "u8") return run_bt<uint8_t>(argc, argv);
#endif
#if UV_BT == 0 || UV_BT == 16
	if (bts == "u16") return run_bt<uint16_t>(argc, argv);
#endif
#if UV_BT == 0 || UV_BT == 32
	if (bts == "u32") return run_bt<uint32_t>(argc, argv);
#endif
	std::fprintf(stderr, "unsupported block type %s\n", bts.c_str());
	return 2;
}
