// h_convlns.cpp — conversions of lns<nbits,rbits,bt,Behavior> (real headers from /repo/include): from native types (C03),
// to native types and the round trip (C04), lns -> lns converting constructor (C15).
//
// usage: h_convlns exh  <nbits> <rbits> <S|W> <count-ignored> <from|to>      every target / source encoding
//        h_convlns rnd  <nbits> <rbits> <S|W> <count>         <from|to>      structured sample of encodings (seed: VERIF_SEED)
//        h_convlns l2l  <n1> <r1> <n2> <r2> <S|W> <count>                    lns<n1,r1> -> lns<n2,r2>; every source encoding when
//                                                                            n1 <= 12, otherwise <count> structured encodings
// The block type is fixed per translation unit by -DUV_BT=8|16|32 (default 8); it is printed on every line.
//
// line formats (numbers hex; doubles as 16, floats as 8 hex digits of their bit pattern):
//   Every from* / l2l conversion is printed twice: op `fromd` = the fresh converting constructor `L p(v)`, op `fromd=` = `operator=`
//   onto a NON-FRESH target that held an all-ones value before (the result must not depend on the previous content).
//   convlns n r uW B fromd <src> <lg> <mx> <mn> <hm> => <enc>            lns = double
//   convlns n r uW B fromf <src> <lg> <mx> <mn> <hm> => <enc>            lns = float (lg, mx, mn, hm are floats)
//   convlns n r uW B fromi <type> <value> <lg> <mx> <mn> <hm> => <enc>   lns = integer; value = the 64-bit two's complement /
//                                                                        unsigned pattern; type i8 i16 i32 l64 i64 u8 u16 u32 ul64 u64
//   convlns n r uW B tod <enc> => <double>                               double(lns)
//   convlns n r uW B tof <enc> => <float>                                float(lns)
//   convlns n r uW B toi <type> <enc> <double> => <value>                int / long / long long (lns) = SignedInt(double(lns))
//   convlns n r uW B rtd <enc> <lg> <mx> <mn> <hm> => <double> <enc'>    lns(double(lns))
//   convlns n r uW B rtf <enc> <lg> <mx> <mn> <hm> => <float> <enc'>     lns(float(lns))
//   convlns n2 r2 uW B l2l <n1> <r1> <src enc> <double> <lg> <mx> <mn> <hm> => <enc>     lns<n2,r2>(lns<n1,r1>)
//        lg = std::log2(|source as Real|) as computed here by the same libm function on the same argument,
//        mx = Real(maxpos), mn = Real(minpos), hm = Real(lns<n+1,r+1>(minpos)) — the three thresholds convert_ieee754 compares
//        against; double = double(source). These are the libm-dependent intermediates the Lean model takes as inputs.
// Sources of the from* lines are generated FROM THE TARGET LATTICE: for every target encoding the double nearest to its value
// 2^(E/2^r), the log-domain midpoint 2^((2E+1)/2^(r+1)) above it, +-1, 2, 5, 64, 1000 source ulps around both (double), +-1, 2
// (float), the integers around both, plus thresholds, powers of two, specials, subnormals, 2^53+-1, 2^63+-1.
#include <cmath>
#include <cfloat>
#include <climits>
#include <iostream>
#include <universal/number/lns/lns.hpp>
#include "proto.hpp"

using namespace sw::universal;

#ifndef UV_BT
#define UV_BT 8
#endif
#if UV_BT == 8
using BT = std::uint8_t;
#elif UV_BT == 16
using BT = std::uint16_t;
#else
using BT = std::uint32_t;
#endif
static const char* BTN = UV_BT == 8 ? "u8" : (UV_BT == 16 ? "u16" : "u32");
typedef unsigned long long ull;

static bool g_from = true, g_to = true;

template<typename L>
static uint64_t enc_of(const L& p) {
	uint64_t v = 0;
	for (unsigned i = 0; i < L::nbits; ++i) if (p.at(i)) v |= (1ull << i);
	unsigned top = L::nrBlocks * L::bitsInBlock;
	for (unsigned i = L::nbits; i < top && i < 64; ++i)
		if ((uint64_t(p.block(i / L::bitsInBlock)) >> (i % L::bitsInBlock)) & 1ull) v |= (1ull << i);
	return v;
}

template<unsigned nbits, unsigned rbits, Behavior beh>
struct Run {
	using L = lns<nbits, rbits, BT, beh>;
	using H = lns<nbits + 1, rbits + 1, BT, beh>;
	static constexpr char B = beh == Behavior::Saturating ? 'S' : 'W';
	static constexpr uint64_t SPECIAL = 1ull << (nbits - 2);
	static constexpr uint64_t EM = (nbits - 1 >= 64) ? ~0ull : ((1ull << (nbits - 1)) - 1);
	static L mk(uint64_t b) { L p; p.setbits(b); return p; }
	static void hdr(const char* op) { std::printf("convlns %u %u %s %c %s", nbits, rbits, BTN, B, op); }

	struct Thr { double mx, mn, hm; float mxf, mnf, hmf; };
	static const Thr& thr() {
		static const Thr t = { double(L(SpecificValue::maxpos)), double(L(SpecificValue::minpos)), double(H(SpecificValue::minpos)),
		                       float(L(SpecificValue::maxpos)), float(L(SpecificValue::minpos)), float(H(SpecificValue::minpos)) };
		return t;
	}
	static void tail_d(double lg) {
		const Thr& t = thr();
		std::printf(" %016llx %016llx %016llx %016llx", (ull)uv::double2bits(lg), (ull)uv::double2bits(t.mx), (ull)uv::double2bits(t.mn), (ull)uv::double2bits(t.hm));
	}
	static void tail_f(float lg) {
		const Thr& t = thr();
		std::printf(" %08x %08x %08x %08x", uv::float2bits(lg), uv::float2bits(t.mxf), uv::float2bits(t.mnf), uv::float2bits(t.hmf));
	}

	// ------------------------------------------------------------------ from native
	static void from_d(double src) {
		volatile double v = src;
		UV_MARK("convlns %u %u fromd %llx", nbits, rbits, (ull)uv::double2bits(src));
		L p((double)v);                                       // fresh converting constructor
		L q; q.setbits(uv::mask(nbits)); q = (double)v;       // operator= onto a target that holds a previous (all-ones) value
		volatile double a = std::fabs((double)v);
		double lg = std::log2((double)a);
		hdr("fromd"); std::printf(" %016llx", (ull)uv::double2bits(src)); tail_d(lg); std::printf(" => %llx\n", (ull)enc_of(p));
		hdr("fromd="); std::printf(" %016llx", (ull)uv::double2bits(src)); tail_d(lg); std::printf(" => %llx\n", (ull)enc_of(q));
	}
	static void from_f(float src) {
		volatile float v = src;
		UV_MARK("convlns %u %u fromf %x", nbits, rbits, uv::float2bits(src));
		L p((float)v);
		L q; q.setbits(uv::mask(nbits)); q = (float)v;
		volatile float a = std::fabs((float)v);
		float lg = std::log2((float)a);
		hdr("fromf"); std::printf(" %08x", uv::float2bits(src)); tail_f(lg); std::printf(" => %llx\n", (ull)enc_of(p));
		hdr("fromf="); std::printf(" %08x", uv::float2bits(src)); tail_f(lg); std::printf(" => %llx\n", (ull)enc_of(q));
	}
	template<typename Int>
	static void from_int_t(const char* ty, Int x) {
		volatile Int v = x;
		L p((Int)v);
		L q; q.setbits(uv::mask(nbits)); q = (Int)v;
		volatile double a = std::fabs(double((Int)v));
		double lg = std::log2((double)a);
		ull pat = std::is_signed<Int>::value ? (ull)(long long)x : (ull)x;
		hdr("fromi"); std::printf(" %s %llx", ty, pat); tail_d(lg); std::printf(" => %llx\n", (ull)enc_of(p));
		hdr("fromi="); std::printf(" %s %llx", ty, pat); tail_d(lg); std::printf(" => %llx\n", (ull)enc_of(q));
	}
	// the same value through the narrowest and the widest type of each signedness that holds it
	static void from_sint(long long v) {
		UV_MARK("convlns %u %u fromi %lld", nbits, rbits, v);
		if (v >= SCHAR_MIN && v <= SCHAR_MAX) from_int_t<signed char>("i8", (signed char)v);
		else if (v >= SHRT_MIN && v <= SHRT_MAX) from_int_t<short>("i16", (short)v);
		else if (v >= INT_MIN && v <= INT_MAX) from_int_t<int>("i32", (int)v);
		else from_int_t<long>("l64", (long)v);
		from_int_t<long long>("i64", v);
		if (v >= 0) from_uint((ull)v);
	}
	static void from_uint(ull v) {
		if (v <= UCHAR_MAX) from_int_t<unsigned char>("u8", (unsigned char)v);
		else if (v <= USHRT_MAX) from_int_t<unsigned short>("u16", (unsigned short)v);
		else if (v <= UINT_MAX) from_int_t<unsigned int>("u32", (unsigned int)v);
		else from_int_t<unsigned long>("ul64", (unsigned long)v);
		from_int_t<unsigned long long>("u64", v);
	}
	static void around_d(double a, bool neg, bool wide) {
		static const long long K[] = { 0, 1, -1, 2, -2, 5, -5, 64, -64, 1000, -1000 };
		if (!(a > 0) || std::isinf(a)) { from_d(neg ? -a : a); return; }
		uint64_t b = uv::double2bits(a);
		for (unsigned i = 0; i < (wide ? 11u : 5u); ++i) {
			uint64_t bb = b + (uint64_t)K[i];
			if ((bb >> 52) >= 0x7ff || (long long)bb <= 0) continue;
			double d = uv::bits2double(bb);
			from_d(neg ? -d : d);
		}
	}
	static void around_f(long double a, bool neg) {
		if (!(a > 1e-46L) || a > 3.5e38L) return;
		float f = (float)a;
		uint32_t b = uv::float2bits(f);
		for (int k = -2; k <= 2; ++k) {
			uint32_t bb = b + (uint32_t)k;
			if ((bb >> 23) >= 0xff || (int32_t)bb <= 0) continue;
			float d = uv::bits2float(bb);
			from_f(neg ? -d : d);
		}
	}
	static void around_i(long double a, bool neg) {
		if (!(a >= 0.25L) || a >= 1.8e19L) return;
		if (a < 9.2e18L) {
			long long i = (long long)a;
			for (long long k = -1; k <= 2; ++k) { long long w = i + k; if (w >= 0) from_sint(neg ? -w : w); }
		} else {
			ull u = (ull)a;
			for (long long k = -1; k <= 1; ++k) from_uint(u + (ull)k);
		}
	}
	static long double value_of(long long E2, unsigned extra) {   // 2^(E2 / 2^(rbits+extra))
		return exp2l((long double)E2 / (long double)(1ull << (rbits + extra)));
	}
	static long long exp_of(uint64_t y) {
		uint64_t ef = y & EM;
		return (ef & SPECIAL) ? (long long)ef - (long long)(EM + 1) : (long long)ef;
	}
	// sources aimed at target encoding y: its value, the log-domain midpoint above it
	static void from_target(uint64_t y) {
		bool neg = (y >> (nbits - 1)) & 1;
		if ((y & EM) == SPECIAL) { from_d(neg ? -0.0 : 0.0); from_f(neg ? -0.0f : 0.0f); return; }
		long long E = exp_of(y);
		long double v = value_of(E, 0), m = value_of(2 * E + 1, 1);
		around_d((double)v, neg, false); around_d((double)m, neg, true);
		around_f(v, neg); around_f(m, neg);
		around_i(v, neg); around_i(m, neg);
	}
	static void from_fixed(uv::Rng& g, unsigned randoms) {
		const Thr& t = thr();
		const uint64_t dspecial[] = { 0x0ull, 0x8000000000000000ull, 0x1ull, 0x8000000000000001ull, 0x000fffffffffffffull, 0x0008000000000000ull,
			0x0010000000000000ull, 0x7fefffffffffffffull, 0xffefffffffffffffull, 0x7ff0000000000000ull, 0xfff0000000000000ull, 0x7ff8000000000000ull,
			0xfff8000000000000ull, 0x7ff4000000000000ull, 0x7ffc000000000000ull, 0x7ff0000000000001ull, 0xfff8000000000001ull, 0x7ff8000000000001ull,
			0x3ff0000000000000ull, 0xbff0000000000000ull, 0x3ff0000000000001ull, 0x3fefffffffffffffull, 0x4000000000000000ull, 0x3fe0000000000000ull };
		for (uint64_t b : dspecial) from_d(uv::bits2double(b));
		const uint32_t fspecial[] = { 0u, 0x80000000u, 1u, 0x80000001u, 0x007fffffu, 0x00400000u, 0x00800000u, 0x7f7fffffu, 0xff7fffffu, 0x7f800000u,
			0xff800000u, 0x7fc00000u, 0xffc00000u, 0x7fa00000u, 0x7fe00000u, 0x7f800001u, 0xffc00001u, 0x3f800000u, 0xbf800000u, 0x3f800001u, 0x3f7fffffu, 0x40000000u };
		for (uint32_t b : fspecial) from_f(uv::bits2float(b));
		const uint64_t ispecial[] = { 0ull, 1ull, 2ull, 3ull, 0x7full, 0x80ull, 0xffull, 0x100ull, 0x7fffull, 0x8000ull, 0xffffull, 0x10000ull, 0x7fffffffull, 0x80000000ull,
			0xffffffffull, 0x100000000ull, (1ull << 53) - 1, 1ull << 53, (1ull << 53) + 1, (1ull << 53) + 2, (1ull << 53) + 3, (1ull << 62), (1ull << 63) - 1, (1ull << 63) - 512, (1ull << 63) - 513 };
		for (uint64_t w : ispecial) { from_sint((long long)w); from_sint(-(long long)w); }
		from_sint(LLONG_MIN); from_sint(LLONG_MIN + 1); from_sint(INT_MIN); from_sint(SHRT_MIN); from_sint(SCHAR_MIN);
		const ull uspecial[] = { 1ull << 63, (1ull << 63) + 1, (1ull << 63) + 1024, (1ull << 63) + 1025, ~0ull, ~0ull - 1, ~0ull - 1023, ~0ull - 1024, ~0ull - 2048 };
		for (ull w : uspecial) from_uint(w);
		// the saturation thresholds and their neighbours
		const double dthr[] = { t.mx, t.mn, t.hm };
		const float fthr[] = { t.mxf, t.mnf, t.hmf };
		for (double x : dthr) { around_d(x, false, false); around_d(x, true, false); }
		for (float x : fthr) { around_f((long double)x, false); around_f((long double)x, true); }
		// powers of two across (and beyond) the range
		long long top = (long long)(SPECIAL >> rbits) + 2;
		if (top > 1080) top = 1080;
		for (long long e = -top; e <= top; ++e) {
			long long ee = e;
			if (top > 40 && std::llabs(e) > 20 && std::llabs(e) < top - 20 && g.below(8)) continue;   // thin out the middle
			if (ee > -1075 && ee < 1024) { double d = std::ldexp(1.0, (int)ee); around_d(d, g.coin(), false); }
			if (ee > -150 && ee < 128) { float f = std::ldexp(1.0f, (int)ee); from_f(g.coin() ? -f : f); }
			if (ee >= 0 && ee < 63) from_sint(g.coin() ? -(1ll << ee) : (1ll << ee));
			if (ee == 63) from_uint(1ull << 63);
		}
		for (unsigned i = 0; i < randoms; ++i) {
			from_d(uv::bits2double(g.next()));
			from_f(uv::bits2float((uint32_t)g.next()));
			uint64_t w = g.next() >> g.below(64); from_sint((long long)(g.coin() ? w : (~w + 1)));
			if (g.coin()) from_uint(g.next() >> g.below(8));
			// doubles / floats inside the lns's dynamic range
			long long span = 2 * top + 1;
			long long e = (long long)g.below((uint64_t)span) - top;
			if (e > -1070 && e < 1020) from_d(std::ldexp(1.0 + (double)(g.next() >> 11) * 0x1p-53, (int)e) * (g.coin() ? 1 : -1));
			if (e > -140 && e < 126) from_f(std::ldexp(1.0f + (float)(g.next() >> 41) * 0x1p-23f, (int)e) * (g.coin() ? 1 : -1));
		}
		// NaN sources with arbitrary payloads, both signs: the `setnan()` that follows the infinity test inside
		// `unbiasedExponent == eallset` of convert_ieee754 (single payload bits first, then random fractions).
		// Own generator, so that every line above is the same as before these cases were added.
		uv::Rng gn(uv::seed_from_env() * 7919ull + nbits * 131ull + rbits * 7ull + (B == 'W' ? 3 : 0) + 11);
		for (unsigned i = 0; i < 16; ++i) {
			uint64_t fd = i < 4 ? (1ull << gn.below(52)) : (gn.next() & 0x000fffffffffffffull);
			uint32_t ff = i < 4 ? (1u << gn.below(23)) : ((uint32_t)gn.next() & 0x007fffffu);
			if (fd) from_d(uv::bits2double((gn.coin() ? 0x8000000000000000ull : 0ull) | 0x7ff0000000000000ull | fd));
			if (ff) from_f(uv::bits2float((gn.coin() ? 0x80000000u : 0u) | 0x7f800000u | ff));
		}
	}

	// ------------------------------------------------------------------ to native
	static void to_native(uint64_t y) {
		UV_MARK("convlns %u %u to %llx", nbits, rbits, (ull)y);
		L p = mk(y);
		volatile double d = double(p);
		volatile float f = float(p);
		hdr("tod"); std::printf(" %llx => %016llx\n", (ull)y, (ull)uv::double2bits((double)d));
		hdr("tof"); std::printf(" %llx => %08x\n", (ull)y, uv::float2bits((float)f));
		double dd = (double)d;
		if (dd == dd) {
			if (dd > -2147483648.5 && dd < 2147483647.5) { hdr("toi"); std::printf(" i32 %llx %016llx => %llx\n", (ull)y, (ull)uv::double2bits(dd), (ull)(long long)int(p)); }
			if (dd > -9.2e18 && dd < 9.2e18) {
				hdr("toi"); std::printf(" l64 %llx %016llx => %llx\n", (ull)y, (ull)uv::double2bits(dd), (ull)(long long)long(p));
				hdr("toi"); std::printf(" i64 %llx %016llx => %llx\n", (ull)y, (ull)uv::double2bits(dd), (ull)(long long)(p));
			}
		}
		{
			L back; back.setbits(uv::mask(nbits)); back = (double)d;
			volatile double a = std::fabs((double)d);
			double lg = std::log2((double)a);
			hdr("rtd"); std::printf(" %llx", (ull)y); tail_d(lg); std::printf(" => %016llx %llx\n", (ull)uv::double2bits((double)d), (ull)enc_of(back));
		}
		{
			L back; back.setbits(uv::mask(nbits)); back = (float)f;
			volatile float a = std::fabs((float)f);
			float lg = std::log2((float)a);
			hdr("rtf"); std::printf(" %llx", (ull)y); tail_f(lg); std::printf(" => %08x %llx\n", uv::float2bits((float)f), (ull)enc_of(back));
		}
	}

	// structured encoding: sign | exponent field, aimed at the clamp / wrap / special-pattern branches and at integer exponents
	static uint64_t operand(uv::Rng& g) {
		const uint64_t M = uv::mask(nbits);
		uint64_t e;
		switch (g.below(10)) {
		case 0: e = g.next() & EM; break;
		case 1: e = (SPECIAL - 1 - g.below(6)) & EM; break;                       // at / just below maxpos
		case 2: e = (SPECIAL + 1 + g.below(6)) & EM; break;                       // at / just above minpos
		case 3: e = g.below(16) ? ((uint64_t)((int64_t)g.below(9) - 4) & EM) : SPECIAL; break;   // around 1.0, rarely zero / NaN
		case 4: e = (((uint64_t)((int64_t)g.below(129) - 64)) << rbits) & EM; break;              // integer exponents: powers of two
		case 5: e = ((((uint64_t)((int64_t)g.below(129) - 64)) << rbits) + (uint64_t)((int64_t)g.below(5) - 2)) & EM; break;  // next to powers of two
		case 6: { unsigned z = (unsigned)g.below(nbits - 1); e = (g.next() & EM) & ~uv::mask(z); break; }
		case 7: { unsigned z = (unsigned)g.below(nbits - 1); e = (g.next() & EM) | uv::mask(z); break; }
		case 8: e = (((uint64_t)((int64_t)g.below(64) - 32)) << rbits | (g.next() & uv::mask(rbits))) & EM; break;   // |log2| < 32: inside float / int range
		default: e = (1ull << g.below(nbits - 1)) & EM; break;
		}
		return ((g.coin() ? (1ull << (nbits - 1)) : 0) | e) & M;
	}
	static void run(bool exhaustive, uint64_t count) {
		uv::Rng g(uv::seed_from_env() * 1000003ull + nbits * 131ull + rbits * 7ull + (B == 'W' ? 3 : 0) + UV_BT);
		if (exhaustive) {
			const uint64_t N = 1ull << nbits;
			for (uint64_t y = 0; y < N; ++y) { if (g_from) from_target(y); if (g_to) to_native(y); }
			if (g_from) from_fixed(g, 300);
		} else {
			if (g_from) from_fixed(g, (unsigned)(count / 4) + 20);
			for (uint64_t i = 0; i < count; ++i) { uint64_t y = operand(g); if (g_from) from_target(y); if (g_to) to_native(y); }
			const uint64_t fixed[] = { (uint64_t)0, (uint64_t)SPECIAL, (uint64_t)(SPECIAL - 1), (uint64_t)(SPECIAL + 1), (uint64_t)1, (uint64_t)EM };
			if (g_to) for (uint64_t y : fixed) { to_native(y & uv::mask(nbits)); to_native((y | (1ull << (nbits - 1))) & uv::mask(nbits)); }
		}
	}
};

// ---------------------------------------------------------------------- lns -> lns
template<unsigned n1, unsigned r1, unsigned n2, unsigned r2, Behavior beh>
struct Conv {
	using S = lns<n1, r1, BT, beh>;
	using T = lns<n2, r2, BT, beh>;
	using R2 = Run<n2, r2, beh>;
	static void one(uint64_t y) {
		UV_MARK("convlns l2l %u %u -> %u %u %llx", n1, r1, n2, r2, (ull)y);
		S s; s.setbits(y);
		T t(s);                                               // fresh converting constructor
		T u; u.setbits(uv::mask(n2)); u = s;                  // assignment onto a target that holds a previous (all-ones) value
		volatile double d = double(s);
		volatile double a = std::fabs((double)d);
		double lg = std::log2((double)a);
		R2::hdr("l2l"); std::printf(" %u %u %llx %016llx", n1, r1, (ull)y, (ull)uv::double2bits((double)d)); R2::tail_d(lg);
		std::printf(" => %llx\n", (ull)enc_of(t));
		R2::hdr("l2l="); std::printf(" %u %u %llx %016llx", n1, r1, (ull)y, (ull)uv::double2bits((double)d)); R2::tail_d(lg);
		std::printf(" => %llx\n", (ull)enc_of(u));
	}
	static void run(uint64_t count) {
		if constexpr (n1 <= 12) {
			for (uint64_t y = 0; y < (1ull << n1); ++y) one(y);
		} else {
			uv::Rng g(uv::seed_from_env() * 7777ull + n1 * 131ull + r1 * 7ull + n2 * 17ull + r2 + UV_BT);
			using R1 = Run<n1, r1, beh>;
			const uint64_t SP = R1::SPECIAL, SB = 1ull << (n1 - 1);
			const uint64_t fixed[] = { (uint64_t)0, (uint64_t)SP, (uint64_t)(SP | SB), (uint64_t)(SP - 1), (uint64_t)(SP + 1), (uint64_t)1, (uint64_t)R1::EM, (uint64_t)SB,
				(uint64_t)(SB | 1), (uint64_t)(SB | (SP - 1)), (uint64_t)(SB | (SP + 1)) };
			for (uint64_t y : fixed) one(y & uv::mask(n1));
			for (uint64_t i = 0; i < count; ++i) {
				uint64_t y = R1::operand(g);
				if (g.below(3) == 0) {
					// aimed at the TARGET lattice: a target exponent (and the midpoint above it) expressed in source units, +-1 source step
					long long Et = (long long)(g.next() & uv::mask(n2 - 1)); if (Et >= (1ll << (n2 - 2))) Et -= (1ll << (n2 - 1));
					if (g.coin()) Et = (long long)g.below(64) - 32 + (g.coin() ? (1ll << (n2 - 2)) - 1 : -(1ll << (n2 - 2)) + 1);
					long long Es;
					if (r1 >= r2) Es = Et * (1ll << (r1 - r2)) + (g.coin() && r1 > r2 ? (1ll << (r1 - r2 - 1)) : 0); else Es = Et >> (r2 - r1);
					Es += (long long)g.below(3) - 1;
					y = ((g.coin() ? SB : 0) | ((uint64_t)Es & R1::EM)) & uv::mask(n1);
				}
				one(y);
			}
		}
	}
};

// configurations: every (nbits, rbits) with 2 <= nbits <= 9, rbits < nbits, three 10-bit ones, and the sampled large ones
#define SMALL(X) \
	X(2,0) X(2,1) X(3,0) X(3,1) X(3,2) X(4,0) X(4,1) X(4,2) X(4,3) X(5,0) X(5,1) X(5,2) X(5,3) X(5,4) \
	X(6,0) X(6,1) X(6,2) X(6,3) X(6,4) X(6,5) X(7,0) X(7,1) X(7,2) X(7,3) X(7,4) X(7,5) X(7,6) \
	X(8,0) X(8,1) X(8,2) X(8,3) X(8,4) X(8,5) X(8,6) X(8,7) \
	X(9,0) X(9,1) X(9,2) X(9,3) X(9,4) X(9,5) X(9,6) X(9,7) X(9,8) X(10,0) X(10,4) X(10,9)
#define LARGE(X) X(16,8) X(17,8) X(24,12) X(32,16) X(12,4) X(16,5)
// lns -> lns matrix: sources x targets
#define L2L_SRC(X, N2, R2) X(4,1,N2,R2) X(6,2,N2,R2) X(8,2,N2,R2) X(8,4,N2,R2) X(9,3,N2,R2) X(10,5,N2,R2) X(12,4,N2,R2) X(12,8,N2,R2) \
	X(16,8,N2,R2) X(16,5,N2,R2) X(17,8,N2,R2) X(24,12,N2,R2) X(28,12,N2,R2) X(32,16,N2,R2)
#define L2L(X) L2L_SRC(X,5,2) L2L_SRC(X,8,3) L2L_SRC(X,8,4) L2L_SRC(X,9,4) L2L_SRC(X,12,4) L2L_SRC(X,16,8) L2L_SRC(X,16,5) L2L_SRC(X,24,12) L2L_SRC(X,32,16)

int main(int argc, char** argv) {
	if (argc < 6) { std::fprintf(stderr, "usage: h_convlns exh|rnd nbits rbits S|W count from|to   |   h_convlns l2l n1 r1 n2 r2 S|W count\n"); return 2; }
	std::cout.rdbuf(nullptr); // the library may print diagnostics on std::cout; the transcript goes through stdio
	uv::Out out;
	std::string mode = argv[1];
	if (mode == "l2l") {
		if (argc < 8) return 2;
		unsigned a = (unsigned)std::atoi(argv[2]), b = (unsigned)std::atoi(argv[3]), c = (unsigned)std::atoi(argv[4]), d = (unsigned)std::atoi(argv[5]);
		char beh = argv[6][0];
		uint64_t count = std::strtoull(argv[7], nullptr, 10);
#define X(N1,R1,N2,R2) if (a == N1 && b == R1 && c == N2 && d == R2) { \
			if (beh == 'S') Conv<N1,R1,N2,R2,Behavior::Saturating>::run(count); else Conv<N1,R1,N2,R2,Behavior::Wrapping>::run(count); return 0; }
		L2L(X)
#undef X
		std::fprintf(stderr, "unsupported pair %u %u -> %u %u\n", a, b, c, d);
		return 2;
	}
	unsigned n = (unsigned)std::atoi(argv[2]), r = (unsigned)std::atoi(argv[3]);
	char beh = argv[4][0];
	uint64_t count = std::strtoull(argv[5], nullptr, 10);
	std::string ops = argc > 6 ? argv[6] : "all";
	g_from = ops == "all" || ops == "from";
	g_to = ops == "all" || ops == "to";
#define X(N,R) if (n == N && r == R) { \
		if (beh == 'S') Run<N,R,Behavior::Saturating>::run(mode == "exh", count); else Run<N,R,Behavior::Wrapping>::run(mode == "exh", count); \
		return 0; }
	SMALL(X)
	LARGE(X)
#undef X
	std::fprintf(stderr, "unsupported configuration %u %u\n", n, r);
	return 2;
}
