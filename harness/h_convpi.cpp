// h_convpi.cpp — the posit <-> integer adapters convert_p2i / convert_i2p of
// include/universal/adapters/adapt_integer_and_posit.hpp (property C15, "between families" clause).
//
// usage: h_convpi p2i <n> <es> <bt> <count>     posit<n,es> -> integer<ibits,bt> for every ibits of the matrix
//                                               count = 0: every encoding (n <= 12); else structured sample (seed: VERIF_SEED)
//        h_convpi i2p <ibits> <bt> <count> [n es]  integer<ibits,bt> -> posit<n,es> for every (or one) posit configuration of the matrix
//                                               count = 0: every pattern (ibits <= 12); else structured sample
//        h_convpi hang <bt>                     (u64 build) integer<100|128,uint64_t> -> posit in a forked child with a time limit
// `p2i=` / `i2p=` are the same conversions assigned (`i = p;` / `p = i;`) onto a NON-FRESH target that held all-ones before
// (the result must not depend on the previous content); the second legs of `rtp` / `rti` also assign onto a non-fresh target.
// lines: convpi p2i <n> <es> <ibits> <bt> <kind> <posit enc> => <integer raw storage hex>
//        convpi i2p <ibits> <bt> <kind> <n> <es> <integer hex> => <posit enc> | exc | hang
//        convpi rtp <n> <es> <ibits> <bt> <kind> <posit enc> => <integer raw storage hex> <posit enc back | exc>
//        convpi rti <ibits> <bt> <kind> <n> <es> <integer hex> => <posit enc | exc> <integer raw storage hex back | ->
// kind token: i = IntegerNumber, w = WholeNumber, n = NaturalNumber (-DUV_KIND=0|1|2).
// compile with -DUV_BT=8|16|32|64 (one block type per translation unit).
#include <universal/adapters/adapt_integer_and_posit.hpp>
#include <universal/number/integer/integer.hpp>
#include <universal/number/posit/posit.hpp>
#include <algorithm>
#include <stdexcept>
#include <poll.h>
#include <sys/wait.h>
#include <unistd.h>
#include "limbio.hpp"

using namespace sw::universal;
using uv::Big;
typedef unsigned __int128 u128;

#ifndef UV_BT
#define UV_BT 8
#endif
#if UV_BT == 8
typedef uint8_t BT; static const char* BTS = "u8";
#elif UV_BT == 16
typedef uint16_t BT; static const char* BTS = "u16";
#elif UV_BT == 32
typedef uint32_t BT; static const char* BTS = "u32";
#else
typedef uint64_t BT; static const char* BTS = "u64";
#endif
static constexpr unsigned BW = 8 * sizeof(BT);
// number type of the integer: -DUV_KIND=0 IntegerNumber (token i), 1 WholeNumber (w), 2 NaturalNumber (n)
#ifndef UV_KIND
#define UV_KIND 0
#endif
#if UV_KIND == 0
static constexpr IntegerNumberType KIND = IntegerNumberType::IntegerNumber; static const char* KS = "i";
#elif UV_KIND == 1
static constexpr IntegerNumberType KIND = IntegerNumberType::WholeNumber; static const char* KS = "w";
#else
static constexpr IntegerNumberType KIND = IntegerNumberType::NaturalNumber; static const char* KS = "n";
#endif

// ---------------------------------------------------------------------------------------------------------------
// operand construction only (never used to judge a result): value of a positive posit encoding as sig * 2^sh

struct PV { u128 sig; int sh; int scale; };   // value = sig * 2^sh, 2^scale <= value < 2^(scale+1)

static PV pdecode(unsigned nb, unsigned es, u128 enc) {    // 0 < enc < 2^(nb-1)
	int i = int(nb) - 2;
	bool r0 = (enc >> i) & 1;
	int m = 0;
	while (i >= 0 && bool((enc >> i) & 1) == r0) { ++m; --i; }
	--i;                                                   // terminator
	int k = r0 ? m - 1 : -m;
	int e = 0; unsigned ne = 0;
	while (ne < es && i >= 0) { e = (e << 1) | int((enc >> i) & 1); ++ne; --i; }
	e <<= (es - ne);
	int nf = i + 1 > 0 ? i + 1 : 0;
	u128 f = nf ? (enc & ((u128(1) << nf) - 1)) : 0;
	PV v; v.sig = (u128(1) << nf) | f; v.scale = k * (1 << es) + e; v.sh = v.scale - nf;
	return v;
}
// encoding whose value is 2^s when representable (top nb-1 bits of regime|exponent|zero fraction otherwise), s >= 0
static u128 encpow2(unsigned nb, unsigned es, int s) {
	int k = s >> es, e = s & ((1 << es) - 1);
	if (k > int(nb) - 3) return (u128(1) << (nb - 1)) - 1;   // maxpos
	unsigned L = unsigned(k) + 2 + es;
	u128 pat = ((((u128(1) << (k + 1)) - 1) << 1) << es) | u128(e);
	return L <= nb - 1 ? pat << (nb - 1 - L) : pat >> (L - (nb - 1));
}
// floor(sig * 2^sh) as a Big (bits beyond the Big are dropped)
static Big bigfloor(u128 sig, int sh) {
	Big r;
	for (int i = 0; i < 128; ++i) if ((sig >> i) & 1) { int p = i + sh; if (p >= 0) r.setbit(unsigned(p)); }
	return r;
}

// ---------------------------------------------------------------------------------------------------------------

template<unsigned ibits> using Int = integer<ibits, BT, KIND>;

// the only templates: one call of each adapter; everything else is ordinary code working through these two pointers
template<unsigned n, unsigned es, unsigned ibits>
struct Pair {
	using P = posit<n, es>;
	using I = Int<ibits>;
	// dirty = false: assignment onto a fresh (cleared) target; dirty = true: `operator=` onto a target that holds a previous
	// value with every bit set (integer: all limbs ones inside nbits = -1; posit: the all-ones encoding)
	static void conv_p2i(uint64_t enc, Big& out, bool dirty) {
		P p; p.setbits(enc);
		I v; v.clear();
		if (dirty) v.flip();
		v = p;                                     // integer::operator=(const posit&) -> convert_p2i
		out = uv::store(v);                        // raw storage, all nrBlocks*bitsInBlock bits
	}
	// 0 = converted, 1 = std::out_of_range, 2 = another exception
	static int conv_i2p(const Big& a, uint64_t& enc, bool dirty) {
		I w; uv::load(w, a);
		P p; p.setzero();
		if (dirty) p.setbits(~0ull);
		try { p = w; }                             // posit::operator=(const integer&) -> convert_i2p
		catch (const std::out_of_range&) { return 1; } catch (...) { return 2; }
		enc = uint64_t(p.bits()) & uv::mask(n);
		return 0;
	}
};

struct Ops {
	unsigned n, es, ibits;
	void (*cp2i)(uint64_t, Big&, bool);
	int (*ci2p)(const Big&, uint64_t&, bool);
	bool hangs() const { return false; }   // multi-block uint64_t used to be converted only in time-limited children (mode `hang`): before the carry repair of integer::operator+= (and before convert_i2p stopped calling scale(integer)) the conversion did not terminate there
	bool has_rtp() const { return ibits <= 12 || n >= 12; } // keep the exhaustive wide-integer streams short
	int maxscale() const { return int(n - 2) * (1 << es); }
	unsigned fb() const { return es + 2 >= n ? 0 : n - 3 - es; }

	std::string s_i2p(const Big& a, uint64_t& enc, bool dirty = false) const {
		int rc = ci2p(a, enc, dirty);
		if (rc == 1) return "exc";
		if (rc == 2) return "exc:other";
		char buf[40]; std::snprintf(buf, sizeof buf, "%llx", (unsigned long long)enc);
		return buf;
	}
	void p2i(uint64_t enc) const {
		UV_MARK("convpi p2i %u %u %u %s %s %llx", n, es, ibits, BTS, KS, (unsigned long long)enc);
		Big v; cp2i(enc, v, false);
		std::printf("convpi p2i %u %u %u %s %s %llx => %s\n", n, es, ibits, BTS, KS, (unsigned long long)enc, v.hex().c_str());
		Big d; cp2i(enc, d, true);                 // the same conversion assigned onto a non-fresh target
		std::printf("convpi p2i= %u %u %u %s %s %llx => %s\n", n, es, ibits, BTS, KS, (unsigned long long)enc, d.hex().c_str());
	}
	void rtp(uint64_t enc) const {
		if (hangs() || !has_rtp()) return;
		UV_MARK("convpi rtp %u %u %u %s %s %llx", n, es, ibits, BTS, KS, (unsigned long long)enc);
		Big v; cp2i(enc, v, false);
		uint64_t back = 0;
		std::string b = s_i2p(v, back, true);      // second leg onto a non-fresh posit
		std::printf("convpi rtp %u %u %u %s %s %llx => %s %s\n", n, es, ibits, BTS, KS, (unsigned long long)enc, v.hex().c_str(), b.c_str());
	}
	void i2p(const Big& a) const {
		if (hangs()) return;
		UV_MARK("convpi i2p %u %s %s %u %u %s", ibits, BTS, KS, n, es, a.hex().c_str());
		uint64_t enc = 0;
		std::string r = s_i2p(a, enc);
		std::printf("convpi i2p %u %s %s %u %u %s => %s\n", ibits, BTS, KS, n, es, a.hex().c_str(), r.c_str());
		uint64_t encd = 0;
		std::string d = s_i2p(a, encd, true);      // the same conversion assigned onto a non-fresh target
		std::printf("convpi i2p= %u %s %s %u %u %s => %s\n", ibits, BTS, KS, n, es, a.hex().c_str(), d.c_str());
	}
	void rti(const Big& a) const {
		if (hangs()) return;
		UV_MARK("convpi rti %u %s %s %u %u %s", ibits, BTS, KS, n, es, a.hex().c_str());
		uint64_t enc = 0;
		std::string r = s_i2p(a, enc);
		std::string b = "-";
		if (r.compare(0, 3, "exc") != 0) { Big back; cp2i(enc, back, true); b = back.hex(); }   // second leg onto a non-fresh integer
		std::printf("convpi rti %u %s %s %u %u %s => %s %s\n", ibits, BTS, KS, n, es, a.hex().c_str(), r.c_str(), b.c_str());
	}
	// i2p in a forked child with a time limit
	void i2p_guarded(const Big& a) const {
		std::fflush(stdout);
		int fd[2]; if (pipe(fd) != 0) return;
		pid_t pid = fork();
		if (pid < 0) { close(fd[0]); close(fd[1]); return; }
		if (pid == 0) {
			close(fd[0]);
			uint64_t enc = 0;
			std::string r = s_i2p(a, enc);
			if (write(fd[1], r.c_str(), r.size()) < 0) {}
			_exit(0);
		}
		close(fd[1]);
		struct pollfd pf; pf.fd = fd[0]; pf.events = POLLIN;
		std::string r = "hang";
		if (poll(&pf, 1, 400) > 0) { char buf[64]; ssize_t k = read(fd[0], buf, sizeof buf - 1); if (k > 0) { buf[k] = 0; r = buf; } }
		kill(pid, SIGKILL); int st; waitpid(pid, &st, 0); close(fd[0]);
		std::printf("convpi i2p %u %s %s %u %u %s => %s\n", ibits, BTS, KS, n, es, a.hex().c_str(), r.c_str());
	}
};
template<unsigned n, unsigned es, unsigned ibits> static Ops ops_of() {
	using Q = Pair<n, es, ibits>;
	return Ops{ n, es, ibits, &Q::conv_p2i, &Q::conv_i2p };
}

// ---- operand generators ------------------------------------------------------------------------------------------

// random positive encoding with 2^s <= value < 2^(s+1) (or the nearest existing binade)
static uint64_t in_binade(const Ops& o, uv::Rng& g, int s) {
	const unsigned n = o.n, es = o.es; const int maxscale = o.maxscale();
	if (s < 0) s = 0;
	if (s > maxscale) s = maxscale;
	u128 lo = encpow2(n, es, s), hi = s + 1 > maxscale ? ((u128(1) << (n - 1)) - 1) : encpow2(n, es, s + 1);
	if (hi <= lo) return uint64_t(lo);
	u128 span = hi - lo;
	u128 r = (u128(g.next()) << 64 | g.next()) % span;
	switch (g.below(4)) { case 0: r = g.below(3); break; case 1: r = span - 1 - g.below(uint64_t(span < 3 ? span : u128(3))); break; default: break; }
	return uint64_t(lo + r);
}
static void p2i_sample(const Ops& o, uv::Rng& g) {
	const unsigned n = o.n, es = o.es, ibits = o.ibits, fb = o.fb(); const int maxscale = o.maxscale();
	const uint64_t M = uv::mask(n), one = 1ull << (n - 2), maxp = (1ull << (n - 1)) - 1;
	uint64_t e;
	switch (g.below(8)) {
	case 0: e = g.next() & M; break;
	case 1: { int s = int(g.below(uint64_t(std::min<int>(maxscale, int(ibits) + 2)) + 1)); e = uint64_t(encpow2(n, es, s)) + g.below(5) - 2; break; } // around 2^s
	case 2: { int s = int(g.below(uint64_t(std::min<int>(maxscale, int(fb) + 2)) + 1)); e = in_binade(o, g, s); break; }      // fraction bits below the integer ulp
	case 3: { int s = int(ibits) - 2 + int(g.below(4)); e = in_binade(o, g, s); break; }                                       // at and beyond the wrap boundary
	case 4: { static const int off[] = { -2, -1, 0, 1, 2 }; e = one + uint64_t(off[g.below(5)]); break; }                    // around 1
	case 5: { const uint64_t sp[] = { 0, 1ull << (n - 1), 1, 2, maxp, maxp - 1, one, one >> 1 }; e = sp[g.below(8)]; break; }
	case 6: { int s = int(g.below(uint64_t(maxscale) + 1)); e = in_binade(o, g, s); break; }
	default: { int s = int(fb) - 1 + int(g.below(3)); e = in_binade(o, g, s); break; }                                        // shift amount around 0
	}
	e &= M;
	if (g.coin()) e = (~e + 1) & M;
	o.p2i(e); o.rtp(e);
}
static void emit_i(const Ops& o, const Big& x, uv::Rng& g) {
	Big a = x; a.truncate(o.ibits);
	if (g.coin()) a = a.negated(o.ibits);
	o.i2p(a); o.rti(a);
}
static void i2p_sample(const Ops& o, uv::Rng& g) {
	const unsigned n = o.n, es = o.es, ibits = o.ibits; const int maxscale = o.maxscale();
	// magnitudes up to 2^(n+1) fit the bitblock<nbits> fraction exactly, larger ones leave bits for the sticky position:
	// half of the sample on each side of that boundary
	const int top = std::min<int>(std::min<int>(maxscale, int(ibits)), g.coin() ? int(n) + 1 : int(ibits));
	switch (g.below(10)) {
	case 0: emit_i(o, uv::operand(g, ibits), g); break;
	case 1: { unsigned k = unsigned(g.below(ibits)); emit_i(o, Big::pow2(k).plus(int64_t(g.below(3)) - 1, ibits), g); break; }
	case 2: case 3: { // a posit value that is an integer (or its floor), and its integer neighbours
		int s = int(g.below(uint64_t(top) + 1));
		PV v = pdecode(n, es, in_binade(o, g, s));
		Big x = bigfloor(v.sig, v.sh);
		emit_i(o, x.plus(int64_t(g.below(3)) - 1, ibits), g); break; }
	case 4: case 5: { // an (n+1)-bit midpoint between adjacent posits: the integers at and around it
		int s = int(g.below(uint64_t(top) + 1));
		u128 U = in_binade(o, g, s);
		PV m = pdecode(n + 1, es, 2 * U + 1);
		Big x = bigfloor(m.sig, m.sh);
		emit_i(o, x.plus(int64_t(g.below(4)) - 1, ibits), g); break; }
	case 6: { // the exception boundary 2^(n+1), maxpos, most negative, 2^53, 2^63
		Big c[8]; unsigned nc = 0;
		c[nc++] = Big::pow2(ibits - 1);
		if (n + 1 < ibits) c[nc++] = Big::pow2(n + 1);
		if (n < ibits) c[nc++] = Big::pow2(n);
		if (unsigned(maxscale) < ibits) c[nc++] = Big::pow2(unsigned(maxscale));
		if (53 < ibits) c[nc++] = Big::pow2(53);
		if (63 < ibits) c[nc++] = Big::pow2(63);
		c[nc++] = Big::ones(ibits - 1);
		emit_i(o, c[g.below(nc)].plus(int64_t(g.below(5)) - 2, ibits), g); break; }
	case 7: emit_i(o, Big().plus(int64_t(g.below(41)) - 20, ibits), g); break;
	case 8: { // msb > nbits: a midpoint between adjacent posits, exactly and with one dropped bit 2^j set below / cleared above it
		const int hi = std::min<int>(maxscale, int(ibits) - 2);
		if (hi <= int(n) + 1) { emit_i(o, Big::pow2(ibits - 2).plus(int64_t(g.below(3)) - 1, ibits), g); break; }
		int s = int(n) + 2 + int(g.below(uint64_t(hi - int(n) - 1)));
		u128 U = in_binade(o, g, s);
		PV m = pdecode(n + 1, es, 2 * U + 1);
		Big x = bigfloor(m.sig, m.sh);
		unsigned j = unsigned(g.below(uint64_t(s - int(n))));          // a position that falls off the bitblock<nbits>
		switch (g.below(3)) {
		case 0: break;
		case 1: x.setbit(j); break;
		default: { Big y = x.plus(-1, ibits); y.setbit(j, false); x = y; break; }   // just below the midpoint, bit j cleared
		}
		emit_i(o, x, g); break; }
	default: { // random magnitude below the exception boundary
		unsigned k = 1 + unsigned(g.below(std::min<unsigned>(n + 1, ibits - 1)));
		Big x; for (unsigned i = 0; i < k; ++i) x.setbit(i, g.coin());
		emit_i(o, x, g); break; }
	}
}

// ---------------------------------------------------------------------------------------------------------------
// configuration matrices

#define PSMALL(X, A) X(2,0,A) X(3,0,A) X(3,1,A) X(4,0,A) X(4,1,A) X(4,2,A) X(5,0,A) X(5,1,A) X(5,2,A) X(5,3,A) \
	X(6,0,A) X(6,1,A) X(6,2,A) X(6,3,A) X(6,4,A) X(7,0,A) X(7,1,A) X(7,2,A) X(7,3,A) X(7,4,A) X(7,5,A) \
	X(8,0,A) X(8,1,A) X(8,2,A) X(8,3,A) X(8,4,A) X(8,5,A) X(9,1,A) X(10,2,A)
#define PLARGE(X, A) X(12,1,A) X(16,1,A) X(20,1,A) X(32,2,A) X(64,3,A)

static uint64_t g_count = 0;
static unsigned g_n, g_es, g_ibits;

static void run_p2i_(const Ops& o) {
	if (g_count == 0) {
		if (o.n <= 12) for (uint64_t e = 0; e < (1ull << o.n); ++e) { o.p2i(e); o.rtp(e); }
	} else {
		uv::Rng g(uv::seed_from_env() * 7919ull + o.n * 1009ull + o.es * 101ull + o.ibits * 7ull + BW);
		for (uint64_t i = 0; i < g_count; ++i) p2i_sample(o, g);
	}
}
static void run_i2p_(const Ops& o) {
	if (g_count == 0) {
		if (o.ibits <= 12) for (uint64_t a = 0; a < (1ull << o.ibits); ++a) { o.i2p(Big(a)); o.rti(Big(a)); }
	} else {
		uv::Rng g(uv::seed_from_env() * 104729ull + o.n * 1009ull + o.es * 101ull + o.ibits * 7ull + BW);
		for (uint64_t i = 0; i < g_count; ++i) i2p_sample(o, g);
	}
}
template<unsigned n, unsigned es, unsigned ibits> static void run_p2i() { run_p2i_(ops_of<n, es, ibits>()); }
template<unsigned n, unsigned es, unsigned ibits> static void run_i2p() {
	if (g_n && !(g_n == n && g_es == es)) return;          // optional filter: one posit configuration of the matrix
	run_i2p_(ops_of<n, es, ibits>());
}

int main(int argc, char** argv) {
	if (argc < 3) { std::fprintf(stderr, "usage: h_convpi p2i n es bt count | i2p ibits bt count | hang bt\n"); return 2; }
	uv::Out out;
	uv::silence_stderr();
	std::string mode = argv[1];
	if (mode == "p2i" && argc >= 6) {
		g_n = unsigned(std::atoi(argv[2])); g_es = unsigned(std::atoi(argv[3]));
		if (std::string(argv[4]) != BTS) { std::fprintf(stdout, "# wrong block type\n"); return 2; }
		g_count = std::strtoull(argv[5], nullptr, 10);
#define XS(N,E,A) if (g_n == N && g_es == E) { run_p2i<N,E,4>(); run_p2i<N,E,8>(); run_p2i<N,E,12>(); run_p2i<N,E,16>(); run_p2i<N,E,32>(); run_p2i<N,E,64>(); run_p2i<N,E,100>(); return 0; }
		PSMALL(XS, 0)
#undef XS
#define XL(N,E,A) if (g_n == N && g_es == E) { run_p2i<N,E,8>(); run_p2i<N,E,16>(); run_p2i<N,E,32>(); run_p2i<N,E,64>(); run_p2i<N,E,128>(); return 0; }
		PLARGE(XL, 0)
#undef XL
	}
	if (mode == "i2p" && argc >= 5) {
		g_ibits = unsigned(std::atoi(argv[2]));
		if (std::string(argv[3]) != BTS) { std::fprintf(stdout, "# wrong block type\n"); return 2; }
		g_count = std::strtoull(argv[4], nullptr, 10);
		if (argc >= 7) { g_n = unsigned(std::atoi(argv[5])); g_es = unsigned(std::atoi(argv[6])); }
#define XI(N,E,IB) run_i2p<N,E,IB>();
		if (g_ibits == 4)  { PSMALL(XI, 4) PLARGE(XI, 4) return 0; }
		if (g_ibits == 8)  { PSMALL(XI, 8) PLARGE(XI, 8) return 0; }
		if (g_ibits == 12) { PSMALL(XI, 12) PLARGE(XI, 12) return 0; }
		if (g_ibits == 16)  { XI(8,0,16) XI(8,2,16) XI(10,2,16) PLARGE(XI, 16) return 0; }
		if (g_ibits == 32)  { XI(8,0,32) XI(8,2,32) XI(10,2,32) PLARGE(XI, 32) return 0; }
		if (g_ibits == 64)  { XI(8,0,64) XI(8,2,64) XI(10,2,64) PLARGE(XI, 64) return 0; }
		if (g_ibits == 100) { XI(8,0,100) XI(10,2,100) return 0; }
		if (g_ibits == 128) { PLARGE(XI, 128) return 0; }
#undef XI
	}
	if (mode == "hang") {
#if UV_BT == 64 && UV_KIND == 0
		uv::Rng g(uv::seed_from_env() * 31ull + 5);
		const Ops a = ops_of<16, 1, 100>(), b = ops_of<32, 2, 128>();
		a.i2p_guarded(Big(5));
		a.i2p_guarded(Big().plus(-3, 100));
		b.i2p_guarded(Big(0));
		b.i2p_guarded(Big::pow2(127));
		b.i2p_guarded(uv::operand(g, 128));
		a.i2p_guarded(uv::operand(g, 100));
#endif
		return 0;
	}
	std::fprintf(stdout, "# unsupported configuration\n");
	return 2;
}
