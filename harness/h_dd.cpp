// h_dd.cpp — transcripts of double-double (dd) and quad-double (qd) operators.
// usage: h_dd rnd <count> <opset>     opset: dd | qd | arith (= dd + qd) | conv | all      (seed: VERIF_SEED)
//        h_dd one <family> <op> <hex>...
//        h_dd replay <file>            re-execute the inputs of a transcript/replay file
//        h_dd wit                      deterministic witness lines of the recorded input classes
// Lines:  dd add|sub|mul|div <ahi> <alo> <bhi> <blo> => <rhi> <rlo>     dd sqrt|sqr <ahi> <alo> => <rhi> <rlo>
//         dd cmp <ahi> <alo> <bhi> <blo> => <mask>                      dd add_d2|sub_d2|mul_d2 <a> <b> => <rhi> <rlo>
//         dd mul_pwr2 <ahi> <alo> <b> => <rhi> <rlo>
//         ddconv from_double <a> => <hi> <lo>   ddconv from_i64|from_u64 <v> => <hi> <lo>   dd to_double <hi> <lo> => <r>
//         dd to_i64|to_u64 <hi> <lo> => <v>
//         qd add|sub|mul <a0..a3> <b0..b3> => <r0..r3>
// Built with -DUV_SPECONLY the family names are `ddc` / `qdc` (spec predicate only, see h_eft.cpp).
#include <cmath>
#include <cstdio>
#include <string>
#include <universal/number/dd/dd.hpp>
#include <universal/number/qd/qd.hpp>
#include "proto.hpp"
#include "fpgen.hpp"

using namespace sw::universal;
using fpgen::canon;
using uv::bits2double;
using uv::double2bits;
typedef unsigned long long ull;

#ifdef UV_SPECONLY
#define DDF "ddc"
#define QDF "qdc"
#else
#define DDF "dd"
#define QDF "qd"
#endif

struct D2 { uint64_t hi, lo; };

static void dd_bin(const char* op, D2 a, D2 b) {
	dd x(bits2double(a.hi), bits2double(a.lo)), y(bits2double(b.hi), bits2double(b.lo)), r;
	switch (op[0]) {
	case 'a': r = x + y; break;
	case 's': r = x - y; break;
	case 'm': r = x * y; break;
	default: r = x / y; break;
	}
	std::printf(DDF " %s %016llx %016llx %016llx %016llx => %016llx %016llx\n", op, (ull)a.hi, (ull)a.lo, (ull)b.hi, (ull)b.lo, (ull)canon(r.high()), (ull)canon(r.low()));
}
static void dd_un(const char* op, D2 a) {
	dd x(bits2double(a.hi), bits2double(a.lo)), r;
	if (op[2] == 'r' && op[3] == 't') r = sw::universal::sqrt(x); else r = sqr(x);
	std::printf(DDF " %s %016llx %016llx => %016llx %016llx\n", op, (ull)a.hi, (ull)a.lo, (ull)canon(r.high()), (ull)canon(r.low()));
}
static void dd_cmp(D2 a, D2 b) {
	dd x(bits2double(a.hi), bits2double(a.lo)), y(bits2double(b.hi), bits2double(b.lo));
	unsigned m = (x == y ? 1u : 0u) | (x != y ? 2u : 0u) | (x < y ? 4u : 0u) | (x <= y ? 8u : 0u) | (x > y ? 16u : 0u) | (x >= y ? 32u : 0u);
	std::printf(DDF " cmp %016llx %016llx %016llx %016llx => %x\n", (ull)a.hi, (ull)a.lo, (ull)b.hi, (ull)b.lo, m);
}
static void dd_d2(const char* op, uint64_t a, uint64_t b) {
	dd r;
	switch (op[0]) {
	case 'a': r = add(bits2double(a), bits2double(b)); break;
	case 's': r = sub(bits2double(a), bits2double(b)); break;
	default: r = mul(bits2double(a), bits2double(b)); break;
	}
	std::printf(DDF " %s %016llx %016llx => %016llx %016llx\n", op, (ull)a, (ull)b, (ull)canon(r.high()), (ull)canon(r.low()));
}
static void dd_pwr2(D2 a, uint64_t b) {
	dd x(bits2double(a.hi), bits2double(a.lo));
	dd r = mul_pwr2(x, bits2double(b));
	std::printf(DDF " mul_pwr2 %016llx %016llx %016llx => %016llx %016llx\n", (ull)a.hi, (ull)a.lo, (ull)b, (ull)canon(r.high()), (ull)canon(r.low()));
}
static void dd_conv(uv::Rng& g) {
	uint64_t v;
	switch (g.below(6)) {
	case 0: v = g.next(); break;
	case 1: v = g.next() >> g.below(64); break;
	case 2: v = (1ull << g.below(64)) + (uint64_t)((int64_t)g.below(5) - 2); break;
	case 3: v = (uint64_t)0 - (g.next() >> g.below(64)); break;
	case 4: v = ((1ull << 53) + g.below(8)) << g.below(11); break;
	default: v = (g.next() | (1ull << 63)) | 1; break;
	}
	{ dd r; r = (long long)v; std::printf("ddconv from_i64 %016llx => %016llx %016llx\n", (ull)v, (ull)canon(r.high()), (ull)canon(r.low())); }
	{ dd r; r = (unsigned long long)v; std::printf("ddconv from_u64 %016llx => %016llx %016llx\n", (ull)v, (ull)canon(r.high()), (ull)canon(r.low())); }
	uint64_t d = fpgen::operand(g);
	{ dd r; r = bits2double(d); std::printf("ddconv from_double %016llx => %016llx %016llx\n", (ull)d, (ull)canon(r.high()), (ull)canon(r.low())); }
	// read back: integers up to 2^64 with a tail
	uint64_t hi = g.coin() ? double2bits((double)(long long)v) : fpgen::ranged(g, 1023 - 4, 1023 + 66);
	int e = (int)fpgen::expo(hi);
	uint64_t lo = g.below(4) == 0 ? 0 : fpgen::mk(g.coin(), (unsigned)std::max(0, e - 53 - (int)g.below(12)), fpgen::frac_shape(g));
	dd x(bits2double(hi), bits2double(lo));
	std::printf("ddconv to_double %016llx %016llx => %016llx\n", (ull)hi, (ull)lo, (ull)canon(double(x)));
	std::printf("ddconv to_i64 %016llx %016llx => %016llx\n", (ull)hi, (ull)lo, (ull)(long long)x);
	std::printf("ddconv to_u64 %016llx %016llx => %016llx\n", (ull)hi, (ull)lo, (ull)(unsigned long long)x);
}

// exact Knuth two-sum in the harness (operand preparation only)
static void norm2(double& hi, double& lo) {
	volatile double s = hi + lo; volatile double bb = s - hi; volatile double e = (hi - (s - bb)) + (lo - bb);
	hi = s; lo = e;
}

// a normalised dd operand with leading exponent in [elo, ehi] (biased)
static D2 dd_operand(uv::Rng& g, unsigned elo, unsigned ehi) {
	uint64_t hi = fpgen::ranged(g, elo, ehi);
	int e = (int)fpgen::expo(hi);
	uint64_t lo;
	switch (g.below(8)) {
	case 0: lo = 0; break;                                                                    // a double
	case 1: lo = fpgen::mk(g.coin(), (unsigned)std::max(0, e - 53), 0); break;                // exactly half an ulp (tie)
	case 2: lo = fpgen::mk(g.coin(), (unsigned)std::max(0, e - 54), uv::mask(52) - g.below(4)); break; // just below half an ulp
	case 3: lo = fpgen::mk(g.coin(), (unsigned)std::max(0, e - 54 - (int)g.below(50)), fpgen::frac_shape(g)); break; // gap
	case 4: lo = fpgen::mk(g.coin(), (unsigned)std::max(0, e - 54), fpgen::frac_shape(g)); break;
	case 5: lo = fpgen::mk(!fpgen::sgn(hi), (unsigned)std::max(0, e - 54), fpgen::frac_shape(g)); break;      // opposite-sign tail
	case 6: lo = fpgen::mk(g.coin(), (unsigned)std::max(0, e - 53 - (int)g.below(3)), fpgen::frac_shape(g)); break; // may need renormalisation
	default: lo = fpgen::mk(g.coin(), (unsigned)std::max(0, e - 54 - (int)g.below(8)), (g.next() & uv::mask(52)) | 1); break;
	}
	double h = bits2double(hi), l = bits2double(lo);
	norm2(h, l);
	return D2{ double2bits(h), double2bits(l) };
}
static D2 dd_special(uv::Rng& g) {
	switch (g.below(6)) {
	case 0: return D2{ 0, 0 };
	case 1: return D2{ 1ull << 63, 0 };
	case 2: return D2{ fpgen::mk(false, 0x7ff, 0), 0 };
	case 3: return D2{ fpgen::mk(true, 0x7ff, 0), 0 };
	case 4: return D2{ fpgen::QNAN, 0 };
	default: return D2{ fpgen::mk(g.coin(), 2046, uv::mask(52)), fpgen::mk(g.coin(), 2046 - 54, fpgen::frac_shape(g)) };
	}
}
static D2 dd_neg(D2 a) { return D2{ a.hi ^ (1ull << 63), a.lo ^ (1ull << 63) }; }

// partner aimed at the branches of += / -=
static D2 dd_add_partner(uv::Rng& g, D2 a) {
	int e = (int)fpgen::expo(a.hi);
	switch (g.below(10)) {
	case 0: return a;                                                     // x - x, x + x
	case 1: return dd_neg(a);
	case 2: { // cancelling heads, independent tail
		D2 b = dd_operand(g, (unsigned)std::max(1, e), (unsigned)std::max(1, e)); b.hi = a.hi ^ (1ull << 63);
		double h = bits2double(b.hi), l = bits2double(b.lo); norm2(h, l); return D2{ double2bits(h), double2bits(l) }; }
	case 3: { // -a +- a few ulps of the tail
		D2 b = dd_neg(a); b.lo += (uint64_t)((int64_t)g.below(9) - 4); if (!fpgen::is_fin(b.lo)) b.lo = a.lo;
		double h = bits2double(b.hi), l = bits2double(b.lo); norm2(h, l); return D2{ double2bits(h), double2bits(l) }; }
	case 4: case 5: { // chosen exponent gap of the heads
		int d = (int)g.below(111); if (g.coin()) d = -d;
		unsigned eb = (unsigned)std::max(1, std::min(2040, e - d)); return dd_operand(g, eb, eb); }
	case 6: { // heads one ulp apart with opposite signs
		D2 b; b.hi = ((a.hi & uv::mask(63)) + (g.coin() ? 1 : -1)) | ((uint64_t)!fpgen::sgn(a.hi) << 63); if (!fpgen::is_fin(b.hi)) b.hi = a.hi;
		b.lo = fpgen::mk(g.coin(), (unsigned)std::max(0, e - 54), fpgen::frac_shape(g));
		double h = bits2double(b.hi), l = bits2double(b.lo); norm2(h, l); return D2{ double2bits(h), double2bits(l) }; }
	case 7: { D2 b = dd_operand(g, (unsigned)std::max(1, e - 2), (unsigned)std::min(2040, e + 2)); return b; }
	case 8: { D2 b; b.hi = fpgen::add_partner(g, a.hi); b.lo = 0; if (!fpgen::is_fin(b.hi)) b.hi = a.hi; return b; }   // a double
	default: return dd_operand(g, 1023 - 300, 1023 + 300);
	}
}

static void stream_dd(uv::Rng& g, uint64_t count) {
	for (uint64_t i = 0; i < count; ++i) {
		// additive: operands anywhere in the range where the result cannot overflow
		D2 a = g.below(150) == 0 ? dd_special(g) : (g.below(8) == 0 ? dd_operand(g, 60, 2040) : dd_operand(g, 1023 - 400, 1023 + 400));
		D2 b = g.below(150) == 0 ? dd_special(g) : (fpgen::is_fin(a.hi) ? dd_add_partner(g, a) : dd_operand(g, 60, 2040));
		if (g.below(6) == 0) { a.lo = 0; b.lo = 0; }                         // dd sum of two doubles
		dd_bin("add", a, b); dd_bin("sub", a, b);
		if ((i & 3) == 0) dd_cmp(a, b);
		if ((i & 7) == 0) { dd_d2("add_d2", a.hi, b.hi); dd_d2("sub_d2", a.hi, b.hi); }
		// multiplicative
		D2 c = g.below(150) == 0 ? dd_special(g) : (g.below(8) == 0 ? dd_operand(g, 1, 2046) : dd_operand(g, 1023 - 440, 1023 + 480));
		D2 d;
		switch (g.below(8)) {
		case 0: d = D2{ fpgen::mk(g.coin(), 1023 - 100 + (unsigned)g.below(201), 0), 0 }; break;   // power of two
		case 1: d = c; break;                                                                       // square
		case 2: c.lo = 0; d = dd_operand(g, 1023 - 440, 1023 + 480); d.lo = 0; break;             // product of two doubles
		case 3: d = g.below(12) == 0 ? dd_special(g) : dd_operand(g, 1023 - 60, 1023 + 60); break;
		case 4: { // tie products in the heads: 27-bit odd significands
			uint64_t x, y; fpgen::mul_pair(g, x, y); c.hi = x; d.hi = y; c.lo = g.coin() ? 0 : fpgen::mk(g.coin(), (unsigned)std::max(0, (int)fpgen::expo(x) - 54 - (int)g.below(4)), fpgen::frac_shape(g));
			d.lo = g.coin() ? 0 : fpgen::mk(g.coin(), (unsigned)std::max(0, (int)fpgen::expo(y) - 54 - (int)g.below(4)), fpgen::frac_shape(g));
			double h = bits2double(c.hi), l = bits2double(c.lo); norm2(h, l); c = D2{ double2bits(h), double2bits(l) };
			h = bits2double(d.hi); l = bits2double(d.lo); norm2(h, l); d = D2{ double2bits(h), double2bits(l) };
			break; }
		default: d = g.below(8) == 0 ? dd_operand(g, 1, 2046) : dd_operand(g, 1023 - 440, 1023 + 480); break;
		}
		dd_bin("mul", c, d); dd_bin("div", c, d);
		if ((i & 7) == 1) { dd_d2("mul_d2", c.hi, d.hi); dd_pwr2(c, fpgen::mk(g.coin(), 1023 - 60 + (unsigned)g.below(121), 0)); }
		if ((i & 3) == 1) dd_un("sqr", c);
		// sqrt: non-negative arguments (a negative argument only prints a diagnostic)
		{
			D2 s = c; s.hi &= uv::mask(63);
			if (fpgen::sgn(c.hi)) s.lo ^= 1ull << 63;
			if (g.below(5) == 0) { // perfect square of a 53-bit double as a dd
				double x = bits2double(fpgen::ranged(g, 1023 - 200, 1023 + 200)); volatile double pr = 0; double p = two_prod(x, x, pr); s = D2{ double2bits(p), double2bits((double)pr) }; }
			if (!fpgen::is_nan(s.hi)) dd_un("sqrt", s);
		}
	}
}

// deterministic lines: one witness per recorded input class (known_findings.json) and the exactness clauses
static void witnesses();
struct Q4 { uint64_t x[4]; };
static Q4 qd_operand(uv::Rng& g, unsigned elo, unsigned ehi) {
	Q4 q; double v[4];
	uint64_t hi = fpgen::ranged(g, elo, ehi);
	v[0] = bits2double(hi);
	int e = (int)fpgen::expo(hi);
	int nl = g.below(4) ? 4 : 1 + (int)g.below(4);   // number of non-zero limbs
	for (int i = 1; i < 4; ++i) {
		if (i >= nl) { v[i] = 0.0; continue; }
		int gap = g.below(6) == 0 ? 54 + (int)g.below(30) : 53 + (int)g.below(3);
		e = std::max(0, e - gap);
		v[i] = bits2double(fpgen::mk(g.coin(), (unsigned)e, g.below(5) == 0 ? 0 : fpgen::frac_shape(g)));
		if (g.below(6) == 0) v[i] = bits2double(fpgen::mk(g.coin(), (unsigned)std::min(2046, e + 1), 0));   // exactly half an ulp of the previous limb
	}
	// normalise with the library's own renorm (operand preparation)
	volatile double a0 = v[0], a1 = v[1], a2 = v[2], a3 = v[3];
	renorm(a0, a1, a2, a3);
	q.x[0] = double2bits(a0); q.x[1] = double2bits(a1); q.x[2] = double2bits(a2); q.x[3] = double2bits(a3);
	return q;
}
static void qd_bin(const char* op, const Q4& a, const Q4& b) {
	qd x(bits2double(a.x[0]), bits2double(a.x[1]), bits2double(a.x[2]), bits2double(a.x[3]));
	qd y(bits2double(b.x[0]), bits2double(b.x[1]), bits2double(b.x[2]), bits2double(b.x[3]));
	qd r;
	switch (op[0]) {
	case 'a': r = x; r += y; break;
	case 's': r = x; r -= y; break;
	default: r = x; r *= y; break;
	}
	std::printf(QDF " %s %016llx %016llx %016llx %016llx %016llx %016llx %016llx %016llx => %016llx %016llx %016llx %016llx\n", op,
		(ull)a.x[0], (ull)a.x[1], (ull)a.x[2], (ull)a.x[3], (ull)b.x[0], (ull)b.x[1], (ull)b.x[2], (ull)b.x[3],
		(ull)canon(r[0]), (ull)canon(r[1]), (ull)canon(r[2]), (ull)canon(r[3]));
}
static void stream_qd(uv::Rng& g, uint64_t count) {
	for (uint64_t i = 0; i < count; ++i) {
		Q4 a = qd_operand(g, 1023 - 300, 1023 + 300), b;
		int e = (int)fpgen::expo(a.x[0]);
		switch (g.below(8)) {
		case 0: b = a; break;
		case 1: b = a; for (int k = 0; k < 4; ++k) b.x[k] ^= 1ull << 63; break;
		case 2: { b = qd_operand(g, (unsigned)e, (unsigned)e); b.x[0] = a.x[0] ^ (1ull << 63); volatile double a0 = bits2double(b.x[0]), a1 = bits2double(b.x[1]), a2 = bits2double(b.x[2]), a3 = bits2double(b.x[3]); renorm(a0, a1, a2, a3);
			b.x[0] = double2bits(a0); b.x[1] = double2bits(a1); b.x[2] = double2bits(a2); b.x[3] = double2bits(a3); break; }
		case 3: case 4: { int d = (int)(g.below(3) == 0 ? g.below(220) : (g.coin() ? g.below(4) : g.below(110))); if (g.coin()) d = -d; unsigned eb = (unsigned)std::max(300, std::min(1700, e - d)); b = qd_operand(g, eb, eb); break; }
		case 5: b = Q4{ { fpgen::mk(g.coin(), 1023 - 60 + (unsigned)g.below(121), 0), 0, 0, 0 } }; break;
		default: b = qd_operand(g, 1023 - 300, 1023 + 300); break;
		}
		qd_bin("add", a, b); qd_bin("sub", a, b); qd_bin("mul", a, b);
	}
}

static void witnesses() {
	const uint64_t INF = 0x7ff0000000000000ull, MAXD = 0x7fefffffffffffffull;
	dd_bin("add", D2{ 0x3d7f59a6c5a55a6cull, 0xba0e336faa370217ull }, D2{ 0xbd7f59a6c5a55a6dull, 0xba18c48fffffffffull });   // D21 (+)
	dd_bin("sub", D2{ 0xc9a8ab9554000000ull, 0x464fffffffffffffull }, D2{ 0xc99f7f6b88000000ull, 0xc640000000000000ull });   // D21 (-)
	dd_bin("div", D2{ 0xb750000000000000ull, 0x33f0000000000000ull }, D2{ 0xb250000000000000ull, 0xaf00000000000000ull });   // D21 (/)
	dd_bin("mul", D2{ 0xd40fffffffffffffull, 0xd070000000000000ull }, D2{ 0xc12fffffffffffffull, 0xbdce000000000000ull });   // D21 (*)
	dd_bin("div", D2{ 0x4000000000000000ull, 0 }, D2{ INF, 0 });                   // 2 / inf
	dd_un("sqrt", D2{ INF, 0 });                                                     // sqrt(inf)
	dd_bin("div", D2{ 0xfff0000000000000ull, 0 }, D2{ 0, 0 });                     // -inf / +0
	dd_bin("div", D2{ 0xbff0000000000000ull, 0 }, D2{ 0, 0 });                     // -1 / 0 (not judged)
	// the repaired special-value branches of operator/= and sqrt: every sign combination
	{
		const uint64_t NINF = 0xfff0000000000000ull, NZ = 0x8000000000000000ull;
		const D2 fins[] = { D2{ 0x4000000000000000ull, 0 }, D2{ 0xc000000000000000ull, 0 }, D2{ 0, 0 }, D2{ NZ, 0 }, D2{ MAXD, 0x7c90000000000000ull - (1ull << 52) },
			D2{ 0x8000000000000001ull, 0 }, D2{ 0x3ff0000000000000ull, 0x3c80000000000000ull } };
		const D2 infs[] = { D2{ INF, 0 }, D2{ NINF, 0 } };
		const D2 zeros[] = { D2{ 0, 0 }, D2{ NZ, 0 } };
		for (const D2& a : fins) for (const D2& b : infs) dd_bin("div", a, b);             // finite / +-inf = +-0
		for (const D2& a : infs) for (const D2& b : zeros) dd_bin("div", a, b);            // +-inf / +-0 = +-inf
		for (const D2& a : infs) for (const D2& b : infs) dd_bin("div", a, b);             // inf / inf = NaN
		for (const D2& a : infs) for (const D2& b : fins) dd_bin("div", a, b);             // +-inf / finite (incl. +-0)
		for (const D2& a : fins) for (const D2& b : zeros) dd_bin("div", a, b);            // finite / +-0 (not judged; 0/0 = NaN)
		dd_un("sqrt", D2{ INF, 0x3ff0000000000000ull });                                    // sqrt(+inf) with a stray tail
	}
	dd_bin("mul", D2{ 0xe50fffffffffffffull, 0 }, D2{ 0x5ad0000000000000ull, 0 }); // -(2-eps)*2^593 * 2^430 = -DBL_MAX
	dd_bin("mul", D2{ MAXD, 0 }, D2{ 0x3fe0000000000000ull, 0 });                  // DBL_MAX * 0.5
	dd_bin("div", D2{ MAXD, 0xfc8e2b547afe27b9ull }, D2{ MAXD, 0xfc8e2b547afe27b9ull });
	dd_un("sqrt", D2{ MAXD, 0 });
	dd_bin("div", D2{ 0x0011ffffffffffffull, 0 }, D2{ 0x0013f4ebdfafce1aull, 0 });
	dd_un("sqrt", D2{ 0x000639260dbf9a93ull, 0x8000000000000000ull });
	dd_bin("sub", D2{ 0x3ff123456789abcdull, 0x3c7fedcba9876543ull }, D2{ 0x3ff123456789abcdull, 0x3c7fedcba9876543ull });   // x - x
	dd_bin("add", D2{ 0x3ff0000000000000ull, 0 }, D2{ 0x3c90000000000000ull, 0 });                                            // 1 + 2^-54: sum of two doubles
	Q4 a{ { 0xcb43afc000000000ull, 0xc7b0000000000001ull, 0x443fda6b36f5f8c8ull, 0x3f5fffffffffffffull } };
	Q4 b{ { 0x4b43afc000000000ull, 0x47dfffffffffffffull, 0xc470000000000000ull, 0xc10fffffffffffffull } };
	Q4 nb = b; for (int k = 0; k < 4; ++k) nb.x[k] ^= 1ull << 63;
	qd_bin("add", a, b); qd_bin("sub", a, nb);
	Q4 c{ { 0xc49fffffffffffffull, 0x3e00000000008000ull, 0x3aafffffffffffffull, 0 } };
	Q4 d{ { 0x449fffffffffffffull, 0xbe00000000008000ull, 0xbaafffffffffffffull, 0x8000000000000000ull } };
	qd_bin("mul", c, d);
}

// re-execute the inputs of a transcript / replay file (lines of other families and comments are skipped)
static int replay(const char* path) {
	FILE* fp = std::fopen(path, "r");
	if (!fp) { std::fprintf(stderr, "cannot open %s\n", path); return 2; }
	char line[2048];
	while (std::fgets(line, sizeof line, fp)) {
		if (line[0] == '#') continue;
		char fam[32], opb[32]; int n = 0;
		if (std::sscanf(line, "%31s %31s%n", fam, opb, &n) < 2) continue;
		std::string f = fam, op = opb;
		bool isdd = f == "dd" || f == "ddc", isqd = f == "qd" || f == "qdc";
		if (!isdd && !isqd) continue;
		uint64_t v[8] = {0}; int cnt = 0; const char* q = line + n;
		while (cnt < 8) { char tok[64]; int m = 0; if (std::sscanf(q, "%63s%n", tok, &m) < 1) break; if (std::string(tok) == "=>") break; v[cnt++] = std::strtoull(tok, nullptr, 16); q += m; }
		if (isqd) { Q4 a{ { v[0], v[1], v[2], v[3] } }, b{ { v[4], v[5], v[6], v[7] } }; qd_bin(op.c_str(), a, b); continue; }
		if (op == "add" || op == "sub" || op == "mul" || op == "div") dd_bin(op.c_str(), D2{ v[0], v[1] }, D2{ v[2], v[3] });
		else if (op == "sqrt" || op == "sqr") dd_un(op.c_str(), D2{ v[0], v[1] });
		else if (op == "cmp") dd_cmp(D2{ v[0], v[1] }, D2{ v[2], v[3] });
		else if (op == "mul_pwr2") dd_pwr2(D2{ v[0], v[1] }, v[2]);
		else if (op == "add_d2" || op == "sub_d2" || op == "mul_d2") dd_d2(op.c_str(), v[0], v[1]);
	}
	std::fclose(fp);
	return 0;
}

int main(int argc, char** argv) {
	if (argc >= 3 && std::string(argv[1]) == "replay") { uv::Out out; return replay(argv[2]); }
	if (argc >= 2 && std::string(argv[1]) == "wit") { uv::Out out; witnesses(); return 0; }
	if (argc < 3) { std::fprintf(stderr, "usage: h_dd rnd <count> [dd|qd|conv|all] | h_dd one <family> <op> <hex>...\n"); return 2; }
	uv::Out out;
	std::string mode = argv[1];
	if (mode == "one") {
		if (argc < 4) return 2;
		std::string fam = argv[2], op = argv[3];
		uint64_t v[8] = {0};
		for (int i = 4; i < argc && i < 12; ++i) v[i - 4] = std::strtoull(argv[i], nullptr, 16);
		if (fam == "qd") { Q4 a{ { v[0], v[1], v[2], v[3] } }, b{ { v[4], v[5], v[6], v[7] } }; qd_bin(op.c_str(), a, b); return 0; }
		if (op == "add" || op == "sub" || op == "mul" || op == "div") dd_bin(op.c_str(), D2{ v[0], v[1] }, D2{ v[2], v[3] });
		else if (op == "sqrt" || op == "sqr") dd_un(op.c_str(), D2{ v[0], v[1] });
		else if (op == "cmp") dd_cmp(D2{ v[0], v[1] }, D2{ v[2], v[3] });
		else if (op == "mul_pwr2") dd_pwr2(D2{ v[0], v[1] }, v[2]);
		else dd_d2(op.c_str(), v[0], v[1]);
		return 0;
	}
	uint64_t count = std::strtoull(argv[2], nullptr, 10);
	std::string ops = argc > 3 ? argv[3] : "all";
	uv::Rng g(uv::seed_from_env() * 1000003ull + 104729ull);
	if (ops == "dd" || ops == "arith" || ops == "all") stream_dd(g, count);
	if (ops == "qd" || ops == "arith" || ops == "all") stream_qd(g, count);
#ifndef UV_SPECONLY
	if (ops == "conv" || ops == "all") for (uint64_t i = 0; i < count; ++i) dd_conv(g);
#endif
	return 0;
}
