// h_eft.cpp — transcripts of (1) hardware binary64 arithmetic (validates Model.F64) and
// (2) the error-free transformations of numerics/error_free_ops.hpp and numerics/twosum.hpp.
// usage: h_eft rnd <count> <opset>     opset: f64 | eft | all     (seed: VERIF_SEED)
//        h_eft one <op> <hex>...       a single line
//        h_eft replay <file>           re-execute the inputs of a transcript/replay file
//        h_eft wit                     deterministic guard-corner lines
// Lines:  f64 add|sub|mul|div <a> <b> => <r>     f64 sqrt <a> => <r>     f64 fma <a> <b> <c> => <r>
//         eft two_sum|quick_two_sum|two_diff|two_prod|twosum_generic <a> <b> => <s> <r>
//         eft split|two_sqr <a> => <x> <y>      eft three_sum <a> <b> <c> => <x> <y> <z>
//         eft three_sum2 <a> <b> <c> => <x> <y>  eft renorm4 <a0..a3> => <r0..r3>   eft renorm5 <a0..a4> => <r0..r3>
// Built with -DUV_SPECONLY the family names are `eftc` (contracted build: the driver judges the outputs
// by the spec predicate only and does not compare them with the model).
#include <cmath>
#include <cstdio>
#include <string>
#include <universal/numerics/error_free_ops.hpp>
#include <universal/numerics/twosum.hpp>
#include "proto.hpp"
#include "fpgen.hpp"

using namespace sw::universal;
using fpgen::canon;
using uv::bits2double;
typedef unsigned long long ull;

#ifdef UV_SPECONLY
#define FAM "eftc"
#else
#define FAM "eft"
#endif

// hardware primitives behind volatile so that nothing is folded at compile time
static void f64_bin(const char* op, uint64_t a, uint64_t b) {
	volatile double x = bits2double(a), y = bits2double(b), r;
	switch (op[0]) {
	case 'a': r = x + y; break;
	case 's': r = x - y; break;
	case 'm': r = x * y; break;
	default: r = x / y; break;
	}
	std::printf("f64 %s %016llx %016llx => %016llx\n", op, (ull)a, (ull)b, (ull)canon(r));
}
static void f64_sqrt(uint64_t a) {
	volatile double x = bits2double(a), r; r = std::sqrt(x);
	std::printf("f64 sqrt %016llx => %016llx\n", (ull)a, (ull)canon(r));
}
static void f64_fma(uint64_t a, uint64_t b, uint64_t c) {
	volatile double x = bits2double(a), y = bits2double(b), z = bits2double(c), r; r = std::fma(x, y, z);
	std::printf("f64 fma %016llx %016llx %016llx => %016llx\n", (ull)a, (ull)b, (ull)c, (ull)canon(r));
}

static void eft2(const char* op, uint64_t a, uint64_t b) {
	double x = bits2double(a), y = bits2double(b), s = 0; volatile double r = 0;
	std::string o = op;
	if (o == "two_sum") s = two_sum(x, y, r);
	else if (o == "quick_two_sum") s = quick_two_sum(x, y, r);
	else if (o == "two_diff") s = two_diff(x, y, r);
	else if (o == "quick_two_diff") s = quick_two_diff(x, y, r);
	else if (o == "two_prod") s = two_prod(x, y, r);
	else if (o == "twosum_generic") { double ss, rr; twoSum<double>(x, y, ss, rr); s = ss; r = rr; }
	else return;
	std::printf(FAM " %s %016llx %016llx => %016llx %016llx\n", op, (ull)a, (ull)b, (ull)canon(s), (ull)canon(r));
}
static void eft1(const char* op, uint64_t a) {
	double x = bits2double(a); volatile double u = 0, v = 0;
	std::string o = op;
	if (o == "split") split(x, u, v);
	else if (o == "two_sqr") { u = two_sqr(x, v); }
	else return;
	std::printf(FAM " %s %016llx => %016llx %016llx\n", op, (ull)a, (ull)canon(u), (ull)canon(v));
}
static void eft3(const char* op, uint64_t a, uint64_t b, uint64_t c) {
	volatile double x = bits2double(a), y = bits2double(b), z = bits2double(c);
	std::string o = op;
	if (o == "three_sum") { three_sum(x, y, z);
		std::printf(FAM " three_sum %016llx %016llx %016llx => %016llx %016llx %016llx\n", (ull)a, (ull)b, (ull)c, (ull)canon(x), (ull)canon(y), (ull)canon(z)); }
	else if (o == "three_sum2") { three_sum2(x, y, (double)z);
		std::printf(FAM " three_sum2 %016llx %016llx %016llx => %016llx %016llx\n", (ull)a, (ull)b, (ull)c, (ull)canon(x), (ull)canon(y)); }
}
static void eft_renorm4(const uint64_t* a) {
	volatile double x0 = bits2double(a[0]), x1 = bits2double(a[1]), x2 = bits2double(a[2]), x3 = bits2double(a[3]);
	renorm(x0, x1, x2, x3);
	std::printf(FAM " renorm4 %016llx %016llx %016llx %016llx => %016llx %016llx %016llx %016llx\n", (ull)a[0], (ull)a[1], (ull)a[2], (ull)a[3],
		(ull)canon(x0), (ull)canon(x1), (ull)canon(x2), (ull)canon(x3));
}
static void eft_renorm5(const uint64_t* a) {
	volatile double x0 = bits2double(a[0]), x1 = bits2double(a[1]), x2 = bits2double(a[2]), x3 = bits2double(a[3]), x4 = bits2double(a[4]);
	renorm(x0, x1, x2, x3, x4);
	std::printf(FAM " renorm5 %016llx %016llx %016llx %016llx %016llx => %016llx %016llx %016llx %016llx\n", (ull)a[0], (ull)a[1], (ull)a[2], (ull)a[3], (ull)a[4],
		(ull)canon(x0), (ull)canon(x1), (ull)canon(x2), (ull)canon(x3));
}

// a decreasing chain of limbs: each next limb sits `gap` binades (about 53, sometimes overlapping) lower
static void limb_chain(uv::Rng& g, uint64_t* a, int n) {
	a[0] = fpgen::ranged(g, 1023 - 300, 1023 + 300);
	for (int i = 1; i < n; ++i) {
		int e = (int)fpgen::expo(a[i - 1]);
		int gap;
		switch (g.below(6)) {
		case 0: gap = 53; break;
		case 1: gap = 54 + (int)g.below(20); break;
		case 2: gap = 40 + (int)g.below(13); break;          // overlapping limbs
		case 3: gap = (int)g.below(5); break;                // same magnitude
		default: gap = 52 + (int)g.below(4); break;
		}
		if (g.below(10) == 0) { a[i] = g.coin() ? 0 : (1ull << 63); continue; }
		int en = e == 0 ? 0 : e - gap;
		a[i] = fpgen::mk(g.coin(), (unsigned)std::max(0, en), fpgen::frac_shape(g));
	}
}

static void stream_f64(uv::Rng& g, uint64_t count) {
	for (uint64_t i = 0; i < count; ++i) {
		uint64_t a = fpgen::operand(g), b = fpgen::add_partner(g, a);
		f64_bin("add", a, b); f64_bin("sub", a, b);
		uint64_t c, d; fpgen::mul_pair(g, c, d);
		f64_bin("mul", c, d);
		// division: exact quotients, subnormal quotients, random
		uint64_t n, m;
		switch (g.below(6)) {
		case 0: { // exact: (x*y)/y with 26-bit x, y
			double x = (double)((g.next() & uv::mask(26)) | 1), y = (double)((g.next() & uv::mask(26)) | 1);
			n = uv::double2bits(std::ldexp(x * y, (int)g.below(80) - 40)); m = uv::double2bits(y); break; }
		case 1: n = fpgen::ranged(g, 1, 80); m = fpgen::mk(g.coin(), 1023 + (unsigned)g.below(60), g.coin() ? 0 : fpgen::frac_shape(g)); break;  // subnormal quotient
		case 2: n = fpgen::ranged(g, 1980, 2046); m = fpgen::ranged(g, 940, 1023); break;                                                         // overflowing quotient
		case 3: n = c; m = d; break;
		default: n = fpgen::operand(g); m = fpgen::operand(g); break;
		}
		f64_bin("div", n, m);
		// sqrt: perfect squares, neighbours of squares, subnormals, odd/even exponents
		uint64_t q;
		switch (g.below(5)) {
		case 0: { double x = (double)((g.next() & uv::mask(26)) | 1); q = uv::double2bits(std::ldexp(x * x, 2 * ((int)g.below(400) - 200))); break; }
		case 1: { double x = (double)((g.next() & uv::mask(26)) | 1); q = uv::double2bits(std::ldexp(x * x, 2 * ((int)g.below(400) - 200))) + (uint64_t)((int64_t)g.below(5) - 2); break; }
		case 2: q = fpgen::mk(false, (unsigned)g.below(3), fpgen::frac_shape(g)); break;
		default: q = fpgen::operand(g) & (g.below(16) ? uv::mask(63) : ~0ull); break;
		}
		f64_sqrt(q);
		// fma: residual of a product, tie-breaking addends, random gaps, subnormal results
		uint64_t fa, fb, fc; fpgen::mul_pair(g, fa, fb);
		{
			volatile double pa = bits2double(fa), pb = bits2double(fb), pr; pr = pa * pb;
			uint64_t pbits = uv::double2bits(pr);
			switch (g.below(6)) {
			case 0: fc = pbits ^ (1ull << 63); break;                                             // c = -RN(a*b): exact residual
			case 1: fc = fpgen::is_fin(pbits) ? fpgen::with_exp(fpgen::mk(g.coin(), 0, fpgen::frac_shape(g)), (int)fpgen::expo(pbits) - 53 - (int)g.below(60)) : fpgen::operand(g); break; // tie breaker far below
			case 2: fc = fpgen::is_fin(pbits) ? fpgen::add_partner(g, pbits) : fpgen::operand(g); break;
			case 3: fc = (pbits ^ (1ull << 63)) + (uint64_t)((int64_t)g.below(5) - 2); if (fpgen::is_nan(fc)) fc = pbits; break;
			default: fc = fpgen::operand(g); break;
			}
		}
		f64_fma(fa, fb, fc);
	}
}

static void stream_eft(uv::Rng& g, uint64_t count) {
	for (uint64_t i = 0; i < count; ++i) {
		uint64_t a = fpgen::operand(g), b = fpgen::add_partner(g, a);
		eft2("two_sum", a, b);
		eft2("two_diff", a, b);
		eft2("twosum_generic", a, b);
		// quick_two_sum: mostly with |a| >= |b| (swap when needed), sometimes unordered (unguarded)
		{
			uint64_t x = a, y = b;
			if (g.below(8) != 0 && (x & uv::mask(63)) < (y & uv::mask(63)) && !fpgen::is_nan(y)) { uint64_t t = x; x = y; y = t; }
			eft2("quick_two_sum", x, y);
			if ((i & 7) == 0) eft2("quick_two_diff", x, y);
		}
		uint64_t c, d; fpgen::mul_pair(g, c, d);
		eft2("two_prod", c, d);
		eft1("two_sqr", g.coin() ? c : fpgen::operand(g));
		eft1("split", g.coin() ? c : fpgen::operand(g));
		// three_sum: third operand related to the first two
		{
			uint64_t z;
			switch (g.below(4)) {
			case 0: z = fpgen::add_partner(g, a); break;
			case 1: z = fpgen::add_partner(g, b); break;
			case 2: { volatile double s = bits2double(a) + bits2double(b); uint64_t sb = uv::double2bits(s); z = fpgen::is_fin(sb) ? fpgen::add_partner(g, sb) : fpgen::operand(g); break; }
			default: z = fpgen::operand(g); break;
			}
			eft3("three_sum", a, b, z);
			if ((i & 3) == 0) eft3("three_sum2", a, b, z);
		}
		if ((i & 3) == 1) { uint64_t l[5]; limb_chain(g, l, 5); eft_renorm4(l); eft_renorm5(l); }
	}
}

// deterministic lines: corner cases of the guards
static void witnesses() {
	const uint64_t halfmax = 0x7fdfffffffffffffull, maxd = 0x7fefffffffffffffull;
	eft3("three_sum", halfmax, halfmax, halfmax);           // eft.three_sum.overflow
	eft1("split", maxd);                                    // unguarded: hi overflows
	eft1("split", halfmax);
	eft2("two_sum", halfmax, halfmax);
	eft2("two_sum", maxd, maxd);
	eft2("two_sum", 0x3ff0000000000000ull, 0x3ca0000000000000ull);   // 1 + 2^-53: tie to even
	eft2("two_sum", 0x0000000000000001ull, 0x8000000000000003ull);   // subnormals
	eft2("two_prod", 0x3ff0000000000001ull, 0x3ff0000000000001ull);
	eft2("quick_two_sum", 0x3ff0000000000000ull, 0x3ca0000000000001ull);
}

// re-execute the inputs of a transcript / replay file (lines of other families and comments are skipped)
static int replay(const char* path) {
	FILE* fp = std::fopen(path, "r");
	if (!fp) { std::fprintf(stderr, "cannot open %s\n", path); return 2; }
	char line[1024];
	while (std::fgets(line, sizeof line, fp)) {
		if (line[0] == '#') continue;
		char fam[32], op[32]; int n = 0;
		if (std::sscanf(line, "%31s %31s%n", fam, op, &n) < 2) continue;
		std::string f = fam, o = op;
		if (f != "f64" && f != "eft" && f != "eftc") continue;
		uint64_t v[5] = {0, 0, 0, 0, 0}; int cnt = 0; const char* q = line + n;
		while (cnt < 5) { char tok[64]; int m = 0; if (std::sscanf(q, "%63s%n", tok, &m) < 1) break; if (std::string(tok) == "=>") break; v[cnt++] = std::strtoull(tok, nullptr, 16); q += m; }
		if (f == "f64") {
			if (o == "sqrt") f64_sqrt(v[0]); else if (o == "fma") f64_fma(v[0], v[1], v[2]); else f64_bin(o.c_str(), v[0], v[1]);
		} else if (o == "split" || o == "two_sqr") eft1(o.c_str(), v[0]);
		else if (o == "three_sum" || o == "three_sum2") eft3(o.c_str(), v[0], v[1], v[2]);
		else if (o == "renorm4") eft_renorm4(v);
		else if (o == "renorm5") eft_renorm5(v);
		else eft2(o.c_str(), v[0], v[1]);
	}
	std::fclose(fp);
	return 0;
}

int main(int argc, char** argv) {
	if (argc >= 3 && std::string(argv[1]) == "replay") { uv::Out out; return replay(argv[2]); }
	if (argc >= 2 && std::string(argv[1]) == "wit") { uv::Out out; witnesses(); return 0; }
	if (argc < 3) { std::fprintf(stderr, "usage: h_eft rnd <count> [f64|eft|all]  |  h_eft one <op> <hex>...\n"); return 2; }
	uv::Out out;
	std::string mode = argv[1];
	if (mode == "one") {
		std::string op = argv[2];
		uint64_t v[5] = {0, 0, 0, 0, 0};
		for (int i = 3; i < argc && i < 8; ++i) v[i - 3] = std::strtoull(argv[i], nullptr, 16);
		if (op == "add" || op == "sub" || op == "mul" || op == "div") f64_bin(op.c_str(), v[0], v[1]);
		else if (op == "sqrt") f64_sqrt(v[0]);
		else if (op == "fma") f64_fma(v[0], v[1], v[2]);
		else if (op == "split" || op == "two_sqr") eft1(op.c_str(), v[0]);
		else if (op == "three_sum" || op == "three_sum2") eft3(op.c_str(), v[0], v[1], v[2]);
		else if (op == "renorm4") eft_renorm4(v);
		else if (op == "renorm5") eft_renorm5(v);
		else eft2(op.c_str(), v[0], v[1]);
		return 0;
	}
	uint64_t count = std::strtoull(argv[2], nullptr, 10);
	std::string ops = argc > 3 ? argv[3] : "all";
	uv::Rng g(uv::seed_from_env() * 1000003ull + 7919ull);
#ifndef UV_SPECONLY
	if (ops == "f64" || ops == "all") stream_f64(g, count);
#endif
	if (ops == "eft" || ops == "all") stream_eft(g, count);
	return 0;
}
