// h_eftcf.cpp — the generic twoSum<Scalar> of numerics/twosum.hpp instantiated on cfloat types with subnormals,
// without supernormals, not saturating (quarter/half/bfloat_t-like configurations).
// usage: h_eftcf exh <nbits> <es>            every ordered pair of encodings (nbits <= 8)
//        h_eftcf rnd <nbits> <es> <count>    structured pairs (seed: VERIF_SEED)
// Lines:  eftcf <nbits> <es> twosum <a> <b> => <s> <r>       encodings in hex; NaN printed as the all-ones pattern,
//         a zero result printed as +0 (the sign of a zero sum is not constrained by the cfloat property C02)
#include <cstdio>
#include <string>
#include <universal/number/cfloat/cfloat.hpp>
#include <universal/numerics/twosum.hpp>
#include "proto.hpp"

using namespace sw::universal;
typedef unsigned long long ull;

template<unsigned nbits, unsigned es, typename bt>
struct Run {
	using C = cfloat<nbits, es, bt, true, false, false>;
	static uint64_t enc(const C& c) {
		if (c.isnan()) return uv::mask(nbits - 1);
		if (c.iszero()) return 0;
		uint64_t v = 0;
		for (unsigned i = 0; i < nbits; ++i) if (c.at(i)) v |= 1ull << i;
		return v;
	}
	static C mk(uint64_t b) { C c; c.setbits(b); return c; }
	static void line(uint64_t a, uint64_t b) {
		C x = mk(a), y = mk(b), s, r;
		twoSum(x, y, s, r);
		std::printf("eftcf %u %u twosum %llx %llx => %llx %llx\n", nbits, es, (ull)a, (ull)b, (ull)enc(s), (ull)enc(r));
	}
	static void exhaustive() {
		const uint64_t N = 1ull << nbits;
		for (uint64_t a = 0; a < N; ++a) for (uint64_t b = 0; b < N; ++b) line(a, b);
	}
	static uint64_t operand(uv::Rng& g) {
		const unsigned fb = nbits - 1 - es;
		uint64_t e, f;
		switch (g.below(6)) {
		case 0: e = 0; break;
		case 1: e = 1 + g.below(3); break;
		case 2: e = uv::mask(es) - 1 - g.below(3); break;
		default: e = g.below(uv::mask(es)); break;
		}
		switch (g.below(6)) {
		case 0: f = 0; break;
		case 1: f = uv::mask(fb); break;
		case 2: f = 1ull << g.below(fb); break;
		case 3: f = (g.next() & uv::mask(fb)) | 1; break;
		default: f = g.next() & uv::mask(fb); break;
		}
		if (g.below(50) == 0) { e = uv::mask(es); f = g.coin() ? uv::mask(fb) - 1 : uv::mask(fb); }   // inf / nan
		return ((uint64_t)g.coin() << (nbits - 1)) | (e << fb) | f;
	}
	static void random(uint64_t count) {
		uv::Rng g(uv::seed_from_env() * 1000003ull + nbits * 131ull + es);
		const unsigned fb = nbits - 1 - es;
		for (uint64_t i = 0; i < count; ++i) {
			uint64_t a = operand(g), b;
			uint64_t ea = (a >> fb) & uv::mask(es);
			switch (g.below(6)) {
			case 0: b = a ^ (1ull << (nbits - 1)); break;
			case 1: b = (a ^ (1ull << (nbits - 1))) + (uint64_t)((int64_t)g.below(5) - 2); b &= uv::mask(nbits); break;
			case 2: case 3: { // exponent gap 0..2p
				int64_t d = (int64_t)g.below(2 * (fb + 2)); if (g.coin()) d = -d;
				int64_t eb = (int64_t)ea - d; if (eb < 0) eb = 0; if (eb > (int64_t)uv::mask(es) - 1) eb = (int64_t)uv::mask(es) - 1;
				b = ((uint64_t)g.coin() << (nbits - 1)) | ((uint64_t)eb << fb) | (operand(g) & uv::mask(fb)); break; }
			default: b = operand(g); break;
			}
			line(a, b);
		}
	}
};

#define CONFIGS(X) X(5,2,uint8_t) X(6,2,uint8_t) X(6,3,uint8_t) X(7,2,uint8_t) X(7,3,uint8_t) X(8,2,uint8_t) X(8,3,uint8_t) X(8,4,uint8_t) X(8,5,uint8_t) \
	X(12,4,uint16_t) X(16,5,uint16_t) X(16,8,uint16_t) X(32,8,uint32_t)

int main(int argc, char** argv) {
	if (argc < 4) { std::fprintf(stderr, "usage: h_eftcf exh|rnd nbits es [count]\n"); return 2; }
	uv::Out out;
	std::string mode = argv[1];
	unsigned n = (unsigned)std::atoi(argv[2]), e = (unsigned)std::atoi(argv[3]);
	uint64_t count = argc > 4 ? std::strtoull(argv[4], nullptr, 10) : 1000;
#define X(N,E,B) if (n == N && e == E) { if (mode == "exh") Run<N,E,B>::exhaustive(); else Run<N,E,B>::random(count); return 0; }
	CONFIGS(X)
#undef X
	std::fprintf(stderr, "unsupported configuration %u %u\n", n, e);
	return 2;
}
