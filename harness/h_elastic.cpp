// h_elastic.cpp — transcript of the elastic types einteger<bt>, edecimal, erational (property C14, decimal text of C16).
// usage: h_elastic replay <file>                   re-execute the inputs of every eint/edec/erat line of <file>
//        h_elastic exh <family> <count> <opset>    small operand grid, every pair, every operator
//        h_elastic rnd <family> <count> <opset>    structured random operands / chains (seed: VERIF_SEED)
//   family: eint8 | eint16 | eint32 | edec | erat
//   opset : all | arith | order | text | chain | knuth
// Line formats (operands/results are signed DECIMAL strings, sizes are unbounded):
//   eint u32 mul A B => R RAW        RAW = sign char + little-endian limbs in hex, comma separated ("+" = no limbs)
//   eint u8 shl A k => R RAW         eint u8 neg A => R RAW       eint u8 cmp A B => mask
//   eint u8 parse A => R RAW         eint u8 print RAW => R
//   eint u8 chain INIT op arg op arg ... => R RAW
//   edec add A B => R                edec shl A k => R            edec cmp A B => mask    edec chain INIT op arg ... => R
//   erat add p/q r/s => n/d          erat chain p/q op r/s ... => n/d
// The library writes diagnostics to std::cout / std::cerr ("subtracted too much, add back", "can this happen?",
// "erational_divide_by_zero"); both streams are redirected into sinks, the transcript is written with stdio.
#include <universal/number/einteger/einteger.hpp>
#include <universal/number/edecimal/edecimal.hpp>
#include <universal/number/erational/erational.hpp>
#include <sstream>
#include <vector>
#include <string>
#include <algorithm>
#include "proto.hpp"
#include <sys/types.h>
#include <sys/wait.h>
#include <sys/time.h>
#include <unistd.h>
#include <functional>

using namespace sw::universal;

static bool g_arith = true, g_order = true, g_text = true, g_chain = true, g_knuth = true;
static std::ostringstream g_sink_out, g_sink_err;
static uint64_t g_skipped = 0;
// einteger<uint32_t>::reduce() has no `break` in its quotient-digit correction loop; with 64-bit wrap-around in
// `BASE * rhat` the loop can run for billions of iterations (seconds to minutes per division). Operations that
// may enter it run in a forked child with a CPU-time limit; a child that exceeds it emits nothing (counted below).
static void guarded(const std::function<void()>& f, unsigned cpu_ms = 30) {
	std::fflush(stdout);
	pid_t pid = fork();
	if (pid == 0) {
		struct itimerval tv; tv.it_interval = { 0, 0 }; tv.it_value = { cpu_ms / 1000, (suseconds_t)((cpu_ms % 1000) * 1000) };
		setitimer(ITIMER_PROF, &tv, nullptr);     // default action of SIGPROF: terminate
		f();
		std::fflush(stdout);
		_exit(0);
	}
	int st = 0; waitpid(pid, &st, 0);
	if (!(WIFEXITED(st) && WEXITSTATUS(st) == 0)) ++g_skipped;
}
static void drain() { g_sink_out.str(""); g_sink_out.clear(); g_sink_err.str(""); g_sink_err.clear(); }

// ------------------------------------------------------------------------------------------------
// independent mini big-number (magnitude, base 2^32, little endian) used only to BUILD operands
struct Big {
	std::vector<uint32_t> m;
	void trim() { while (!m.empty() && m.back() == 0) m.pop_back(); }
	bool zero() const { return m.empty(); }
};
static Big big_from_limbs(const std::vector<uint64_t>& limbs, unsigned w) {
	Big b; unsigned nb = (unsigned)limbs.size() * w; b.m.assign((nb + 31) / 32 + 1, 0);
	for (size_t i = 0; i < limbs.size(); ++i) {
		size_t bit = i * w; uint64_t v = limbs[i] << (bit % 32);
		b.m[bit / 32] |= (uint32_t)v; if (v >> 32) b.m[bit / 32 + 1] |= (uint32_t)(v >> 32);
	}
	b.trim(); return b;
}
static std::vector<uint64_t> big_to_limbs(const Big& b, unsigned w) {
	std::vector<uint64_t> out; size_t nb = b.m.size() * 32;
	for (size_t bit = 0; bit < nb; bit += w) {
		uint64_t v = b.m[bit / 32] >> (bit % 32);
		if (bit / 32 + 1 < b.m.size()) v |= (uint64_t)b.m[bit / 32 + 1] << (32 - bit % 32);
		out.push_back(v & uv::mask(w));
	}
	while (!out.empty() && out.back() == 0) out.pop_back();
	return out;
}
static Big big_add(const Big& a, const Big& b) {
	Big r; uint64_t c = 0; size_t n = std::max(a.m.size(), b.m.size());
	for (size_t i = 0; i < n; ++i) { c += (i < a.m.size() ? a.m[i] : 0ull) + (i < b.m.size() ? b.m[i] : 0ull); r.m.push_back((uint32_t)c); c >>= 32; }
	if (c) r.m.push_back((uint32_t)c);
	r.trim(); return r;
}
static Big big_mul(const Big& a, const Big& b) {
	Big r; r.m.assign(a.m.size() + b.m.size() + 1, 0);
	for (size_t i = 0; i < a.m.size(); ++i) {
		uint64_t c = 0;
		for (size_t j = 0; j < b.m.size(); ++j) { c += (uint64_t)a.m[i] * b.m[j] + r.m[i + j]; r.m[i + j] = (uint32_t)c; c >>= 32; }
		size_t k = i + b.m.size();
		while (c) { c += r.m[k]; r.m[k] = (uint32_t)c; c >>= 32; ++k; }
	}
	r.trim(); return r;
}
static std::string big_dec(Big b, bool neg) {
	if (b.zero()) return "0";
	std::string s;
	while (!b.zero()) {
		uint64_t rem = 0;
		for (size_t i = b.m.size(); i-- > 0;) { uint64_t cur = (rem << 32) | b.m[i]; b.m[i] = (uint32_t)(cur / 1000000000ull); rem = cur % 1000000000ull; }
		b.trim();
		for (int k = 0; k < 9; ++k) { s.push_back(char('0' + rem % 10)); rem /= 10; }
	}
	while (s.size() > 1 && s.back() == '0') s.pop_back();
	if (neg) s.push_back('-');
	std::reverse(s.begin(), s.end());
	return s;
}

// ------------------------------------------------------------------------------------------------
// structured limb vectors: 0..maxLimbs limbs of w bits, top limb non-zero
static unsigned pick_len(uv::Rng& g, unsigned maxLimbs) {
	switch (g.below(12)) {
	case 0: case 1: case 2: return 1;
	case 3: case 4: return 2;
	case 5: return 3;
	case 6: return 4;
	case 7: return 1 + (unsigned)g.below(8);
	case 8: return 1 + (unsigned)g.below(16);
	case 9: return g.below(10) == 0 ? 0 : 2;
	default: return 1 + (unsigned)g.below(maxLimbs);
	}
}
static uint64_t special_limb(uv::Rng& g, unsigned w) {
	const uint64_t B1 = uv::mask(w), H = 1ull << (w - 1);
	switch (g.below(9)) {
	case 0: return 0; case 1: return 1; case 2: return B1; case 3: return H; case 4: return H - 1; case 5: return H + 1;
	case 6: return B1 - 1; case 7: return 2;
	default: return g.next() & B1;
	}
}
static std::vector<uint64_t> gen_limbs(uv::Rng& g, unsigned w, unsigned nl) {
	std::vector<uint64_t> v(nl); const uint64_t B1 = uv::mask(w);
	unsigned mode = (unsigned)g.below(7);
	for (unsigned i = 0; i < nl; ++i) {
		switch (mode) {
		case 0: case 1: v[i] = g.next() & B1; break;
		case 2: v[i] = B1; break;
		case 3: case 4: v[i] = special_limb(g, w); break;
		case 5: v[i] = (i + 1 == nl) ? 1 : 0; break;                       // power of BASE
		default: v[i] = (i < nl / 2) ? 0 : (g.next() & B1); break;        // low limbs zero
		}
	}
	if (nl && v[nl - 1] == 0) v[nl - 1] = 1 + (g.next() & (B1 >> 1));
	return v;
}

static std::string digits_string(uv::Rng& g, unsigned maxDigits) {
	unsigned n;
	switch (g.below(8)) { case 0: case 1: n = 1; break; case 2: n = 2; break; case 3: n = 1 + (unsigned)g.below(5); break;
		case 4: n = 1 + (unsigned)g.below(20); break; default: n = 1 + (unsigned)g.below(maxDigits); }
	std::string s(n, '0'); unsigned mode = (unsigned)g.below(6);
	for (unsigned i = 0; i < n; ++i) {
		switch (mode) { case 0: case 1: s[i] = char('0' + g.below(10)); break; case 2: s[i] = '9'; break;
			case 3: s[i] = i == 0 ? '1' : '0'; break; case 4: s[i] = g.coin() ? '0' : '9'; break;
			default: s[i] = (i > n / 2) ? '0' : char('0' + g.below(10)); }
	}
	if (s[0] == '0') s[0] = char('1' + g.below(9));
	if (n == 1 && g.below(12) == 0) s = "0";
	return s;
}
static std::string signed_digits(uv::Rng& g, unsigned maxDigits) {
	std::string s = digits_string(g, maxDigits);
	if (s != "0" && g.coin()) s = "-" + s;
	return s;
}

// ------------------------------------------------------------------------------------------------
template<typename bt>
struct EI {
	using I = einteger<bt>;
	static constexpr unsigned W = sizeof(bt) * 8;
	static const char* name() { return W == 8 ? "u8" : W == 16 ? "u16" : "u32"; }
	static I mk(const std::string& s) { I v; parse(s, v); return v; }
	static std::string str(const I& v) { std::ostringstream s; s << v; return s.str(); }
	static std::string raw(const I& v) {
		std::string s(1, v.sign() ? '-' : '+'); char buf[24];
		for (unsigned i = 0; i < v.limbs(); ++i) { std::snprintf(buf, sizeof buf, i ? ",%lx" : "%lx", (unsigned long)v.block(i)); s += buf; }
		return s;
	}
	static bool all_zero_multi(const I& v) {
		if (v.limbs() < 2) return false;
		for (unsigned i = 0; i < v.limbs(); ++i) if (v.block(i)) return false;
		return true;
	}
	static std::string operand(uv::Rng& g, unsigned maxLimbs) {
		unsigned nl = pick_len(g, maxLimbs);
		auto l = gen_limbs(g, W, nl);
		return big_dec(big_from_limbs(l, W), nl && g.coin());
	}
	static void emit(const char* op, const std::string& A, const std::string& B, const I& r) {
		std::printf("eint %s %s %s %s => %s %s\n", name(), op, A.c_str(), B.c_str(), str(r).c_str(), raw(r).c_str());
	}
	static void binary(const std::string& A, const std::string& B) {
		I a = mk(A), b = mk(B);
		if (g_arith) {
			emit("add", A, B, a + b);
			emit("sub", A, B, a - b);
			emit("mul", A, B, a * b);
			if (!b.iszero()) {
				if (W == 32 && b.limbs() > 1) guarded([&] { emit("div", A, B, a / b); emit("rem", A, B, a % b); });
				else { emit("div", A, B, a / b); emit("rem", A, B, a % b); }
			}
		}
		if (g_order && !(a.limbs() == 0 && b.limbs() == 0)) {   // operator< on two empty limb vectors loops 2^32 times
			unsigned m = (a == b ? 1u : 0u) | (a != b ? 2u : 0u) | (a < b ? 4u : 0u) | (a <= b ? 8u : 0u) | (a > b ? 16u : 0u) | (a >= b ? 32u : 0u);
			std::printf("eint %s cmp %s %s => %x\n", name(), A.c_str(), B.c_str(), m);
		}
		drain();
	}
	static void divonly(const std::string& A, const std::string& B) {
		I a = mk(A), b = mk(B);
		if (b.iszero()) return;
		if (W == 32 && b.limbs() > 1) guarded([&] { emit("div", A, B, a / b); emit("rem", A, B, a % b); });
		else { emit("div", A, B, a / b); emit("rem", A, B, a % b); }
		drain();
	}
	static void unary(const std::string& A, int k) {
		I a = mk(A);
		if (g_arith) {
			char kb[16]; std::snprintf(kb, sizeof kb, "%d", k);
			{ I s = a; s <<= k; emit("shl", A, kb, s); }
			I t = a; t >>= k; emit("shr", A, kb, t);
			I n = -a; std::printf("eint %s neg %s => %s %s\n", name(), A.c_str(), str(n).c_str(), raw(n).c_str());
		}
		if (g_text) {
			std::printf("eint %s parse %s => %s %s\n", name(), A.c_str(), str(a).c_str(), raw(a).c_str());
		}
		drain();
	}
	static void print_raw(const std::vector<uint64_t>& limbs, bool neg) {
		I v; for (unsigned i = 0; i < limbs.size(); ++i) v.setblock(i, (bt)limbs[i]);
		v.setsign(neg && !limbs.empty());
		std::printf("eint %s print %s => %s\n", name(), raw(v).c_str(), str(v).c_str());
	}
	// operand pairs aimed at Knuth D: quotient digit estimate correction and add-back
	static void knuth_pair(uv::Rng& g, std::string& A, std::string& B) {
		const uint64_t B1 = uv::mask(W), H = 1ull << (W - 1);
		unsigned n = 2 + (unsigned)g.below(g.coin() ? 3 : 8);
		std::vector<uint64_t> b(n), q, r;
		switch (g.below(6)) {
		case 0: { // Hacker's-Delight add-back family: b = [B-1, ..., H], a = [0, ..., B-2, H]
			for (unsigned i = 0; i < n; ++i) b[i] = B1; b[n - 1] = H;
			std::vector<uint64_t> a(n + 1, 0); a[n] = H; a[n - 1] = B1 - 1; if (n > 2 && g.coin()) a[n - 2] = g.next() & B1;
			A = big_dec(big_from_limbs(a, W), g.below(4) == 0); B = big_dec(big_from_limbs(b, W), g.below(4) == 0); return;
		}
		case 1: for (unsigned i = 0; i < n; ++i) b[i] = special_limb(g, W); b[n - 1] = H; break;                 // top limb exactly BASE/2
		case 2: for (unsigned i = 0; i < n; ++i) b[i] = g.next() & B1; b[n - 1] = 1 + g.below(3); break;          // large normalisation shift
		case 3: for (unsigned i = 0; i < n; ++i) b[i] = g.next() & B1; b[n - 1] |= H; break;                      // shift == 0
		case 4: for (unsigned i = 0; i < n; ++i) b[i] = B1; b[n - 1] = (g.next() & B1) | 1; break;
		default: b = gen_limbs(g, W, n); break;
		}
		if (b[n - 1] == 0) b[n - 1] = 1;
		q = gen_limbs(g, W, 1 + (unsigned)g.below(g.coin() ? 3 : 10));
		// remainder: below b (one limb fewer), or b-1-ish via all-ones lower limbs
		r = gen_limbs(g, W, (unsigned)g.below(n));
		Big bb = big_from_limbs(b, W), a = big_add(big_mul(big_from_limbs(q, W), bb), big_from_limbs(r, W));
		A = big_dec(a, g.below(4) == 0); B = big_dec(bb, g.below(4) == 0);
	}
	// one chain. clean = steps chosen outside the regions where the pinned code is known to be wrong
	static void chain(uv::Rng& g) {
		bool clean = g.below(3) != 0;
		if (W == 32 && !clean) { uint64_t sub = g.next(); guarded([&] { uv::Rng h(sub); chain_body(h, false); }, 60); }
		else chain_body(g, clean);
	}
	static void chain_body(uv::Rng& g, bool clean) {
		unsigned steps = 1 + (unsigned)g.below(g.coin() ? 8 : 50);
		std::string init = operand(g, g.coin() ? 3 : 12);
		I cur = mk(init);
		std::string line = std::string("eint ") + name() + " chain " + init;
		for (unsigned s = 0; s < steps; ++s) {
			std::string arg; const char* op = nullptr;
			bool curneg = cur.sign(), curzero = cur.iszero() || str(cur) == "0" || str(cur) == "-0";
			bool degenerate = all_zero_multi(cur) || (cur.limbs() == 1 && cur.block(0) == 0);
			unsigned pick = (unsigned)g.below(16);
			if (cur.limbs() > 70 && pick >= 4 && pick < 8) pick = 9;      // bound the growth
			switch (pick) {
			case 0: case 1: op = "add"; arg = operand(g, 6); break;
			case 2: op = "add"; { std::string c = str(cur); arg = (c[0] == '-') ? c.substr(1) : ((c == "0") ? "1" : "-" + c); if (g.coin() && arg.size() > 1) arg.back() = char('0' + g.below(10)); } break;  // cancel
			case 3: op = "sub"; arg = operand(g, 6);
				if (clean && curneg && arg[0] != '-') { arg = (arg == "0") ? "-1" : "-" + arg; } break;
			case 4: case 5: op = "mul"; arg = operand(g, clean ? 1 : 4);
				if (clean && cur.limbs() > 1) { auto l = gen_limbs(g, W, 1); arg = big_dec(big_from_limbs(l, W), g.coin()); } break;
			case 6: case 7: op = "shl"; { int k = (int)g.below(3 * W + 2); if (clean && k >= (int)W && k % (int)W == 0) k += 1; if (curzero || degenerate) k = 0; arg = std::to_string(k); } break;
			case 8: case 9: op = "shr"; { int k = (int)g.below(2 * W + 2); if (clean && k == (int)cur.nbits()) k += 1; arg = std::to_string(k); } break;
			case 10: case 11: op = "div";
				if (clean) { auto l = gen_limbs(g, W, 1); arg = big_dec(big_from_limbs(l, W), curneg); }
				else arg = operand(g, 4);
				if (arg == "0" || arg == "-0") arg = "3";
				if (degenerate) { op = "add"; } break;
			case 12: op = "rem";
				if (clean) { auto l = gen_limbs(g, W, 1); arg = big_dec(big_from_limbs(l, W), false); if (curneg) { op = "add"; } }
				else arg = operand(g, 4);
				if (arg == "0" || arg == "-0") arg = "7";
				if (degenerate) { op = "add"; } break;
			case 13: op = "neg"; arg = "0"; if (clean && degenerate) { op = "add"; arg = "1"; } break;
			case 14: op = "sub"; { std::string c = str(cur); arg = c; if (clean && curneg && c[0] == '-') { op = "add"; arg = c.substr(1); } } break;     // x - x
			default: op = "mul"; arg = g.coin() ? "0" : (g.coin() ? "1" : "-1"); break;
			}
			std::string o = op;
			cur = apply(cur, o, arg);
			line += " " + o + " " + arg;
		}
		std::printf("%s => %s %s\n", line.c_str(), str(cur).c_str(), raw(cur).c_str());
		drain();
	}
	static I apply(I cur, const std::string& o, const std::string& arg) {
		if (o == "add") cur += mk(arg);
		else if (o == "sub") cur -= mk(arg);
		else if (o == "mul") cur *= mk(arg);
		else if (o == "div") cur /= mk(arg);
		else if (o == "rem") cur %= mk(arg);
		else if (o == "shl") cur <<= std::atoi(arg.c_str());
		else if (o == "shr") cur >>= std::atoi(arg.c_str());
		else if (o == "neg") cur = -cur;
		return cur;
	}
	// re-execute the inputs of one transcript line (tokens after `eint <bt>` up to `=>`)
	static void replay(const std::vector<std::string>& t) {
		auto body = [&] {
			const std::string& op = t[0];
			std::string in; for (size_t i = 1; i < t.size(); ++i) in += " " + t[i];
			if (op == "cmp" && t.size() == 3) {
				I a = mk(t[1]), b = mk(t[2]);
				if (a.limbs() == 0 && b.limbs() == 0) return;
				unsigned m = (a == b ? 1u : 0u) | (a != b ? 2u : 0u) | (a < b ? 4u : 0u) | (a <= b ? 8u : 0u) | (a > b ? 16u : 0u) | (a >= b ? 32u : 0u);
				std::printf("eint %s cmp%s => %x\n", name(), in.c_str(), m);
			}
			else if (op == "print" && t.size() == 2) {
				I v; bool neg = t[1][0] == '-'; std::string rest = t[1].substr(1); unsigned i = 0; size_t pos = 0;
				while (pos < rest.size()) { size_t c = rest.find(',', pos); if (c == std::string::npos) c = rest.size();
					v.setblock(i++, (bt)std::strtoul(rest.substr(pos, c - pos).c_str(), nullptr, 16)); pos = c + 1; }
				v.setsign(neg);
				std::printf("eint %s print %s => %s\n", name(), t[1].c_str(), str(v).c_str());
			}
			else if (op == "parse" && t.size() == 2) { I a = mk(t[1]); std::printf("eint %s parse%s => %s %s\n", name(), in.c_str(), str(a).c_str(), raw(a).c_str()); }
			else if (op == "chain" && t.size() >= 2) {
				I cur = mk(t[1]);
				for (size_t i = 2; i + 1 < t.size(); i += 2) cur = apply(cur, t[i], t[i + 1]);
				std::printf("eint %s chain%s => %s %s\n", name(), in.c_str(), str(cur).c_str(), raw(cur).c_str());
			}
			else if (t.size() >= 2) {
				I r = apply(mk(t[1]), op, t.size() > 2 ? t[2] : "0");
				std::printf("eint %s %s%s => %s %s\n", name(), op.c_str(), in.c_str(), str(r).c_str(), raw(r).c_str());
			}
		};
		if (W == 32) guarded(body, 2000); else body();
		drain();
	}
	static void exhaustive() {
		std::vector<long long> vals;
		const long long Bv = 1ll << W;
		for (long long v = -20; v <= 20; ++v) vals.push_back(v);
		const long long B2 = 1ll << (W <= 16 ? 2 * W : 40);
		for (long long c : { Bv / 2, Bv, 2 * Bv, B2, 100ll, 10000ll, 1000000000ll })
			for (long long d = -2; d <= 2; ++d) { vals.push_back(c + d); vals.push_back(-(c + d)); }
		std::sort(vals.begin(), vals.end()); vals.erase(std::unique(vals.begin(), vals.end()), vals.end());
		for (long long a : vals) {
			std::string A = std::to_string(a);
			for (int k : { 0, 1, 3, (int)W - 1, (int)W, (int)W + 1, 2 * (int)W, 2 * (int)W + 5 }) unary(A, k);
			for (long long b : vals) binary(A, std::to_string(b));
		}
	}
	static void random(uint64_t count) {
		uv::Rng g(uv::seed_from_env() * 1000003ull + W * 7919ull);
		for (uint64_t i = 0; i < count; ++i) {
			unsigned kind = (unsigned)g.below(10);
			if (kind < 4 && (g_arith || g_order)) {
				std::string A = operand(g, 60), B;
				switch (g.below(5)) {
				case 0: { B = A; if (B.size() > 1 && g.coin()) B.back() = char('0' + g.below(10)); if (g.coin()) B = (B[0] == '-') ? B.substr(1) : (B == "0" ? B : "-" + B); break; }  // equal / near / opposite
				case 1: B = operand(g, 1); break;
				default: B = operand(g, 60); break;
				}
				binary(A, B);
			}
			else if (kind < 6 && g_arith && g_knuth) {
				std::string A, B; knuth_pair(g, A, B); divonly(A, B);
			}
			else if (kind < 8 && (g_arith || g_text)) {
				std::string A = operand(g, 60);
				int k; switch (g.below(5)) { case 0: k = (int)g.below(W); break; case 1: k = (int)(W * g.below(5)); break; case 2: k = (int)mk(A).nbits() - 1 + (int)g.below(3); if (k < 0) k = 0; break; default: k = (int)g.below(5 * W); }
				unary(A, k);
				if (g_text) { unsigned nl = pick_len(g, 60); print_raw(gen_limbs(g, W, nl), g.coin()); }
			}
			else if (g_chain) chain(g);
		}
	}
};

// ------------------------------------------------------------------------------------------------
struct ED {
	static edecimal mk(const std::string& s) { edecimal d; d.parse(s); return d; }
	static std::string str(const edecimal& d) { std::ostringstream s; s << d; return s.str(); }
	static void binary(const std::string& A, const std::string& B) {
		edecimal a = mk(A), b = mk(B);
		if (g_arith) {
			std::printf("edec add %s %s => %s\n", A.c_str(), B.c_str(), str(a + b).c_str());
			std::printf("edec sub %s %s => %s\n", A.c_str(), B.c_str(), str(a - b).c_str());
			std::printf("edec mul %s %s => %s\n", A.c_str(), B.c_str(), str(a * b).c_str());
			if (!b.iszero()) {
				std::printf("edec div %s %s => %s\n", A.c_str(), B.c_str(), str(a / b).c_str());
				std::printf("edec rem %s %s => %s\n", A.c_str(), B.c_str(), str(a % b).c_str());
			}
		}
		if (g_order) {
			unsigned m = (a == b ? 1u : 0u) | (a != b ? 2u : 0u) | (a < b ? 4u : 0u) | (a <= b ? 8u : 0u) | (a > b ? 16u : 0u) | (a >= b ? 32u : 0u);
			std::printf("edec cmp %s %s => %x\n", A.c_str(), B.c_str(), m);
		}
		drain();
	}
	static void unary(const std::string& A, int k) {
		edecimal a = mk(A);
		if (g_arith) {
			std::printf("edec shl %s %d => %s\n", A.c_str(), k, str(a << k).c_str());
			std::printf("edec shr %s %d => %s\n", A.c_str(), k, str(a >> k).c_str());
			std::printf("edec neg %s => %s\n", A.c_str(), str(-a).c_str());
		}
		if (g_text) std::printf("edec parse %s => %s\n", A.c_str(), str(a).c_str());
		drain();
	}
	static void chain(uv::Rng& g) {
		unsigned steps = 1 + (unsigned)g.below(g.coin() ? 8 : 50);
		std::string init = signed_digits(g, 30);
		edecimal cur = mk(init);
		std::string line = "edec chain " + init;
		for (unsigned s = 0; s < steps; ++s) {
			std::string arg; std::string o;
			unsigned pick = (unsigned)g.below(14);
			if (cur.size() > 150 && (pick == 4 || pick == 5 || pick == 6)) pick = 8;
			bool padded = cur.size() > 1 && cur.back() == 0;          // findMsd asserts on padded operands: keep away from / and %
			switch (pick) {
			case 0: case 1: o = "add"; arg = signed_digits(g, 12); break;
			case 2: o = "sub"; arg = signed_digits(g, 12); break;
			case 3: o = "sub"; arg = str(cur); if (g.coin() && arg.size() > 1) arg.back() = char('0' + g.below(10)); if (arg == "-0" || arg[0] == '0') arg = "0"; break;
			case 4: case 5: o = "mul"; arg = signed_digits(g, 8); break;
			case 6: o = "shl"; arg = std::to_string(cur.iszero() ? 0 : (int)g.below(6)); break;
			case 7: case 8: o = "shr"; arg = std::to_string((int)g.below(8)); break;
			case 9: case 10: o = padded ? "add" : "div"; arg = signed_digits(g, 6); if (arg == "0") arg = "3"; break;
			case 11: o = padded ? "add" : "rem"; arg = signed_digits(g, 6); if (arg == "0") arg = "7"; break;
			case 12: o = "neg"; arg = "0"; break;
			default: o = "mul"; arg = g.coin() ? "0" : "-1"; break;
			}
			cur = apply(cur, o, arg);
			line += " " + o + " " + arg;
		}
		std::printf("%s => %s\n", line.c_str(), str(cur).c_str());
		drain();
	}
	static edecimal apply(edecimal cur, const std::string& o, const std::string& arg) {
		if (o == "add") cur += mk(arg);
		else if (o == "sub") cur -= mk(arg);
		else if (o == "mul") cur *= mk(arg);
		else if (o == "div") cur /= mk(arg);
		else if (o == "rem") cur %= mk(arg);
		else if (o == "shl") cur <<= std::atoi(arg.c_str());
		else if (o == "shr") cur >>= std::atoi(arg.c_str());
		else if (o == "neg") cur = -cur;
		return cur;
	}
	static void replay(const std::vector<std::string>& t) {
		const std::string& op = t[0];
		std::string in; for (size_t i = 1; i < t.size(); ++i) in += " " + t[i];
		if (op == "cmp" && t.size() == 3) {
			edecimal a = mk(t[1]), b = mk(t[2]);
			unsigned m = (a == b ? 1u : 0u) | (a != b ? 2u : 0u) | (a < b ? 4u : 0u) | (a <= b ? 8u : 0u) | (a > b ? 16u : 0u) | (a >= b ? 32u : 0u);
			std::printf("edec cmp%s => %x\n", in.c_str(), m);
		}
		else if (op == "parse" && t.size() == 2) std::printf("edec parse%s => %s\n", in.c_str(), str(mk(t[1])).c_str());
		else if (op == "chain" && t.size() >= 2) {
			edecimal cur = mk(t[1]);
			for (size_t i = 2; i + 1 < t.size(); i += 2) cur = apply(cur, t[i], t[i + 1]);
			std::printf("edec chain%s => %s\n", in.c_str(), str(cur).c_str());
		}
		else if (t.size() >= 2) std::printf("edec %s%s => %s\n", op.c_str(), in.c_str(), str(apply(mk(t[1]), op, t.size() > 2 ? t[2] : "0")).c_str());
		drain();
	}
	static void exhaustive() {
		std::vector<long long> vals;
		for (long long v = -25; v <= 25; ++v) vals.push_back(v);
		for (long long c : { 100ll, 1000ll, 99999ll, 1000000ll, 123456789ll })
			for (long long d = -2; d <= 2; ++d) { vals.push_back(c + d); vals.push_back(-(c + d)); }
		std::sort(vals.begin(), vals.end()); vals.erase(std::unique(vals.begin(), vals.end()), vals.end());
		for (long long a : vals) {
			std::string A = std::to_string(a);
			for (int k : { 0, 1, 2, 5, 9 }) unary(A, k);
			for (long long b : vals) binary(A, std::to_string(b));
		}
	}
	static void random(uint64_t count) {
		uv::Rng g(uv::seed_from_env() * 1000003ull + 10007ull);
		for (uint64_t i = 0; i < count; ++i) {
			unsigned kind = (unsigned)g.below(10);
			if (kind < 6 && (g_arith || g_order)) {
				std::string A = signed_digits(g, 120), B;
				switch (g.below(6)) {
				case 0: B = A; if (B.size() > 1 && g.coin()) B.back() = char('0' + g.below(10)); if (g.coin()) B = (B[0] == '-') ? B.substr(1) : (B == "0" ? B : "-" + B); break;
				case 1: B = signed_digits(g, 2); break;
				case 2: { // exact multiple / multiple minus one: remainders 0 and |b|-1
					B = signed_digits(g, 30); edecimal p = mk(B) * mk(signed_digits(g, 30)); if (g.coin()) p -= mk("1"); A = str(p); if (A == "-0") A = "0"; break; }
				default: B = signed_digits(g, 120); break;
				}
				binary(A, B);
			}
			else if (kind < 8 && (g_arith || g_text)) unary(signed_digits(g, 120), (int)g.below(12));
			else if (g_chain) chain(g);
		}
	}
};

// ------------------------------------------------------------------------------------------------
struct ER {
	static erational mk(const std::string& s) {       // "[-]p/q"
		bool neg = s[0] == '-'; size_t sl = s.find('/');
		std::string p = s.substr(neg ? 1 : 0, sl - (neg ? 1 : 0)), q = s.substr(sl + 1);
		erational r; r.setnumerator(ED::mk(p)); r.setdenominator(ED::mk(q)); r.setsign(neg);
		return r;
	}
	static std::string str(const erational& r) { std::ostringstream s; s << r; return s.str(); }
	static std::string operand(uv::Rng& g, bool allowzero) {
		std::string p, q;
		if (g.below(4) != 0) {   // reduced small fraction
			uint64_t a = 1 + g.below(g.coin() ? 30 : 1000000007ull), b = 1 + g.below(g.coin() ? 30 : 1000000007ull);
			uint64_t d = std::__gcd(a, b); a /= d; b /= d; if (g.below(8) == 0) b = 1;
			p = std::to_string(a); q = std::to_string(b);
		}
		else { p = digits_string(g, 25); q = digits_string(g, 25); if (p == "0") p = "1"; if (q == "0") q = "1"; }
		if (allowzero && g.below(10) == 0) { p = "0"; q = "1"; return "0/1"; }
		return (g.coin() ? "-" : "") + p + "/" + q;
	}
	static void binary(const std::string& A, const std::string& B) {
		erational a = mk(A), b = mk(B);
		std::printf("erat add %s %s => %s\n", A.c_str(), B.c_str(), str(a + b).c_str());
		std::printf("erat sub %s %s => %s\n", A.c_str(), B.c_str(), str(a - b).c_str());
		std::printf("erat mul %s %s => %s\n", A.c_str(), B.c_str(), str(a * b).c_str());
		if (!b.iszero()) std::printf("erat div %s %s => %s\n", A.c_str(), B.c_str(), str(a / b).c_str());
		drain();
	}
	static void chain(uv::Rng& g) {
		unsigned steps = 1 + (unsigned)g.below(g.coin() ? 6 : 25);
		std::string init = operand(g, true);
		erational cur = mk(init);
		std::string line = "erat chain " + init;
		for (unsigned s = 0; s < steps; ++s) {
			std::string arg = operand(g, true), o;
			if (arg.size() > 12 && g.coin()) arg = operand(g, true);
			switch (g.below(6)) {
			case 0: case 1: o = "add"; break;
			case 2: o = "sub"; if (g.below(4) == 0) { arg = str(cur); if (arg == "-0/1") arg = "0/1"; } break;
			case 3: case 4: o = "mul"; break;
			default: o = "div"; if (arg == "0/1") arg = "-3/7"; break;
			}
			if (str(cur).size() > 120) { o = "mul"; arg = "0/1"; }
			cur = apply(cur, o, arg);
			line += " " + o + " " + arg;
		}
		std::printf("%s => %s\n", line.c_str(), str(cur).c_str());
		drain();
	}
	static erational apply(erational cur, const std::string& o, const std::string& arg) {
		if (o == "add") cur += mk(arg);
		else if (o == "sub") cur -= mk(arg);
		else if (o == "mul") cur *= mk(arg);
		else if (o == "div") cur /= mk(arg);
		return cur;
	}
	static void replay(const std::vector<std::string>& t) {
		const std::string& op = t[0];
		std::string in; for (size_t i = 1; i < t.size(); ++i) in += " " + t[i];
		if (op == "chain" && t.size() >= 2) {
			erational cur = mk(t[1]);
			for (size_t i = 2; i + 1 < t.size(); i += 2) cur = apply(cur, t[i], t[i + 1]);
			std::printf("erat chain%s => %s\n", in.c_str(), str(cur).c_str());
		}
		else if (t.size() == 3) std::printf("erat %s%s => %s\n", op.c_str(), in.c_str(), str(apply(mk(t[1]), op, t[2])).c_str());
		drain();
	}
	static void exhaustive() {
		std::vector<std::string> vals;
		for (int p = -6; p <= 6; ++p) for (int q = 1; q <= 6; ++q) {
			if (p == 0 && q != 1) continue;
			vals.push_back(std::to_string(p) + "/" + std::to_string(q));
		}
		vals.push_back("-0/1");
		for (auto& a : vals) for (auto& b : vals) binary(a, b);
	}
	static void random(uint64_t count) {
		uv::Rng g(uv::seed_from_env() * 1000003ull + 20011ull);
		for (uint64_t i = 0; i < count; ++i) {
			if (g.below(10) < 7 && g_arith) {
				std::string A = operand(g, true), B = operand(g, true);
				if (g.below(6) == 0) { B = A; if (g.coin()) B = (B[0] == '-') ? B.substr(1) : (B == "0/1" ? B : "-" + B); }
				binary(A, B);
			}
			else if (g_chain) chain(g);
		}
	}
};

int main(int argc, char** argv) {
	if (argc < 3) { std::fprintf(stderr, "usage: h_elastic exh|rnd eint8|eint16|eint32|edec|erat [count] [all|arith|order|text|chain|noknuth]\n"); return 2; }
	uv::Out out;
	std::cout.rdbuf(g_sink_out.rdbuf());
	std::cerr.rdbuf(g_sink_err.rdbuf());
	std::string mode = argv[1], fam = argv[2];
	if (mode == "replay") {          // h_elastic replay FILE : re-execute the inputs of every eint/edec/erat line of FILE
		FILE* f = std::fopen(argv[2], "r"); if (!f) { std::fprintf(stderr, "cannot open %s\n", argv[2]); return 2; }
		static char buf[1 << 20];
		while (std::fgets(buf, sizeof buf, f)) {
			std::vector<std::string> t; std::istringstream ss(buf); std::string w;
			while (ss >> w) { if (w == "=>") break; t.push_back(w); }
			if (t.empty() || t[0][0] == '#') continue;
			if (t[0] == "eint" && t.size() >= 3) {
				std::vector<std::string> rest(t.begin() + 2, t.end());
				if (t[1] == "u8") EI<std::uint8_t>::replay(rest); else if (t[1] == "u16") EI<std::uint16_t>::replay(rest); else if (t[1] == "u32") EI<std::uint32_t>::replay(rest);
			}
			else if (t[0] == "edec" && t.size() >= 2) ED::replay(std::vector<std::string>(t.begin() + 1, t.end()));
			else if (t[0] == "erat" && t.size() >= 2) ER::replay(std::vector<std::string>(t.begin() + 1, t.end()));
		}
		std::fclose(f); std::fflush(stdout); return 0;
	}
	uint64_t count = argc > 3 ? std::strtoull(argv[3], nullptr, 10) : 1000;
	std::string ops = argc > 4 ? argv[4] : "all";
	g_arith = ops == "all" || ops == "arith" || ops == "noknuth";
	g_order = ops == "all" || ops == "order";
	g_text = ops == "all" || ops == "text";
	g_chain = ops == "all" || ops == "chain";
	g_knuth = ops != "noknuth";
	bool exh = mode == "exh";
	if (fam == "eint8") { exh ? EI<std::uint8_t>::exhaustive() : EI<std::uint8_t>::random(count); }
	else if (fam == "eint16") { exh ? EI<std::uint16_t>::exhaustive() : EI<std::uint16_t>::random(count); }
	else if (fam == "eint32") { exh ? EI<std::uint32_t>::exhaustive() : EI<std::uint32_t>::random(count); }
	else if (fam == "edec") { exh ? ED::exhaustive() : ED::random(count); }
	else if (fam == "erat") { exh ? ER::exhaustive() : ER::random(count); }
	else { std::fprintf(stderr, "unknown family %s\n", fam.c_str()); return 2; }
	if (g_skipped) std::printf("# %llu operations skipped: CPU limit exceeded inside einteger<uint32_t>::reduce\n", (unsigned long long)g_skipped);
	std::fflush(stdout);
	return 0;
}
