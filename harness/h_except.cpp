// h_except.cpp — exception-mode comparison (property C19).
// ONE source, compiled twice by check.py (props.py HARNESS entries h_except_q / h_except_t):
//   quiet build    : no extra flags                         (UV_EXC_MODE 'q')
//   throwing build : -DUV_EXC_THROWING=1  => every *_THROW_ARITHMETIC_EXCEPTION switch is set to 1 below
//
// usage
//   h_except emit <family> <cfg...> exh|rnd <count> <opset>
//        one line per operation executed by THIS build:
//        exc <q|t> <family> <cfg...> <op> <a> [<b>] => <res> <e0|e1>
//        res = ok:<bits>  |  throw:<exception type name>  |  sig:FPE     (e1: the operation wrote to std::cerr)
//   h_except pair <other-exe> <family> <cfg...> exh|rnd <count> <opset>
//        runs `<other-exe> emit ...` (the quiet build), re-executes every operation of its transcript in THIS
//        build (the throwing build) and prints the combined line the Lean driver judges:
//        exc <family> <cfg...> <op> <a> [<b>] => q:<res> qe:<0|1> t:<res> te:<0|1>
//
//   h_except emitfile <file>            /   h_except pairfile <other-exe> <file>
//        the same for the operations named by the lines of a transcript / replay file (results in the file are ignored):
//        `check.py C19 --replay F` re-runs exactly those operations through both builds of the current headers.
//
// Operands are hex encodings for the fixed-size families and signed decimal integers for the elastic ones.
#if defined(UV_EXC_THROWING) && UV_EXC_THROWING
#define UV_EXC_MODE 't'
#define POSIT_THROW_ARITHMETIC_EXCEPTION 1
#define VALUE_THROW_ARITHMETIC_EXCEPTION 1
#define BITBLOCK_THROW_ARITHMETIC_EXCEPTION 1
#define CFLOAT_THROW_ARITHMETIC_EXCEPTION 1
#define FIXPNT_THROW_ARITHMETIC_EXCEPTION 1
#define INTEGER_THROW_ARITHMETIC_EXCEPTION 1
#define LNS_THROW_ARITHMETIC_EXCEPTION 1
#define EINTEGER_THROW_ARITHMETIC_EXCEPTION 1
#define EDECIMAL_THROW_ARITHMETIC_EXCEPTION 1
#define ERATIONAL_THROW_ARITHMETIC_EXCEPTION 1
#else
#define UV_EXC_MODE 'q'
#endif

#include <universal/number/posit/posit.hpp>
#include <universal/number/cfloat/cfloat.hpp>
#include <universal/number/fixpnt/fixpnt.hpp>
#include <universal/number/integer/integer.hpp>
#include <universal/number/lns/lns.hpp>
#include <universal/number/einteger/einteger.hpp>
#include <universal/number/edecimal/edecimal.hpp>
#include <universal/number/erational/erational.hpp>
#include "proto.hpp"

#include <csetjmp>
#include <csignal>
#include <cxxabi.h>
#include <functional>
#include <sstream>
#include <typeinfo>
#include <vector>

using namespace sw::universal;

// ------------------------------------------------------------------------------------------------
// observation of one operation: value | exception type | SIGFPE, plus "wrote to std::cerr"

static std::stringstream g_err;          // std::cerr is redirected here for the whole run
static sigjmp_buf g_jmp;
static volatile sig_atomic_t g_armed = 0;

static void on_fpe(int) { if (g_armed) siglongjmp(g_jmp, 1); std::_Exit(97); }

static std::string type_name(const std::type_info& ti) {
	int st = 0;
	char* d = abi::__cxa_demangle(ti.name(), nullptr, nullptr, &st);
	std::string s = (st == 0 && d) ? d : ti.name();
	std::free(d);
	const std::string ns = "sw::universal::";
	if (s.compare(0, ns.size(), ns) == 0) s = s.substr(ns.size());
	for (auto& c : s) if (c == ' ') c = '_';
	return s;
}

struct Obs { std::string res; bool err; };

// f returns the textual value (hex bits or decimal text) of the operation
template<typename F>
static Obs observe(F&& f) {
	Obs o; o.err = false;
	g_err.str(std::string()); g_err.clear();
	g_armed = 1;
	if (sigsetjmp(g_jmp, 1) == 0) {
		try { o.res = "ok:" + f(); }
		catch (const std::exception& e) { o.res = "throw:" + type_name(typeid(e)); }
		catch (const char*) { o.res = "throw:char_const*"; }
		catch (...) { o.res = "throw:unknown"; }
	}
	else {
		o.res = "sig:FPE";
	}
	g_armed = 0;
	o.err = !g_err.str().empty();
	return o;
}

static std::string hex(uint64_t v) { char b[32]; std::snprintf(b, sizeof b, "%llx", (unsigned long long)v); return b; }
static std::string dec(long long v) { char b[32]; std::snprintf(b, sizeof b, "%lld", v); return b; }

// ------------------------------------------------------------------------------------------------
// a Runner executes op(a[,b]) for one (family, configuration); operands travel as text

struct Runner {
	std::string head;                                  // "<family> <cfg...>"
	std::vector<std::string> binops, unops;
	unsigned nbits = 0;                                // 0: elastic (decimal operands)
	std::function<Obs(const std::string& op, const std::string& a, const std::string& b)> exec;
	std::function<uint64_t(uv::Rng&)> operand;         // structured operand generator for fixed-size families
};

static uint64_t parse_hex(const std::string& s) { return std::strtoull(s.c_str(), nullptr, 16); }

// ---- posit ---------------------------------------------------------------------------------------
template<unsigned nbits, unsigned es>
static Runner posit_runner() {
	using P = posit<nbits, es>;
	Runner r;
	r.head = "posit " + std::to_string(nbits) + " " + std::to_string(es);
	r.nbits = nbits;
	r.binops = { "add", "sub", "mul", "div" };
	r.unops = { "rec", "tos", "toi", "tol", "toll", "tous", "toui", "toul", "toull" };
	r.exec = [](const std::string& op, const std::string& as, const std::string& bs) {
		P a, b; a.setbits(parse_hex(as)); if (!bs.empty()) b.setbits(parse_hex(bs));
		auto enc = [](const P& p) { return hex(p.bits() & uv::mask(nbits)); };
		if (op == "add") return observe([&] { return enc(a + b); });
		if (op == "sub") return observe([&] { return enc(a - b); });
		if (op == "mul") return observe([&] { return enc(a * b); });
		if (op == "div") return observe([&] { return enc(a / b); });
		if (op == "rec") return observe([&] { return enc(a.reciprocal()); });
		if (op == "tos") return observe([&] { return hex((uint16_t)(short)a); });
		if (op == "toi") return observe([&] { return hex((uint32_t)(int)a); });
		if (op == "tol") return observe([&] { return hex((uint64_t)(long)a); });
		if (op == "toll") return observe([&] { return hex((uint64_t)(long long)a); });
		if (op == "tous") return observe([&] { return hex((uint16_t)(unsigned short)a); });
		if (op == "toui") return observe([&] { return hex((uint32_t)(unsigned int)a); });
		if (op == "toul") return observe([&] { return hex((uint64_t)(unsigned long)a); });
		if (op == "toull") return observe([&] { return hex((uint64_t)(unsigned long long)a); });
		return Obs{ "bad-op", false };
	};
	r.operand = [](uv::Rng& g) -> uint64_t {
		const uint64_t M = uv::mask(nbits);
		switch (g.below(6)) {
		case 0: return 0;                                   // zero
		case 1: return 1ull << (nbits - 1);                 // NaR
		case 2: { uint64_t d = g.below(3); return (g.coin() ? d : (M - d)) & M; }                       // around zero
		case 3: { uint64_t d = g.below(3); return ((1ull << (nbits - 1)) + (g.coin() ? d : (M - d) + 1)) & M; }  // around NaR
		case 4: { // magnitudes in [1, 2^20) with long runs of ones / zeros in the low fraction: values a hair below or above an
		          // integer — where a conversion through a narrower float (to_int… via double / float) changes the integer part
			const uint64_t one = 1ull << (nbits - 2);
			uint64_t y = one + (g.next() & uv::mask(nbits > 8 ? nbits - 6 : 2));
			unsigned z = (unsigned)g.below(nbits - 2);
			y = g.coin() ? (y | uv::mask(z)) : (y & ~uv::mask(z));
			y &= uv::mask(nbits - 1); if (!y) y = one;
			return g.coin() ? y : ((~y + 1) & M);
		}
		default: return g.next() & M;
		}
	};
	return r;
}

// ---- cfloat --------------------------------------------------------------------------------------
template<unsigned nbits, unsigned es, typename bt, bool sub, bool sup, bool sat>
static Runner cfloat_runner(const char* btname) {
	using C = cfloat<nbits, es, bt, sub, sup, sat>;
	Runner r;
	r.head = "cfloat " + std::to_string(nbits) + " " + std::to_string(es) + " " + btname + " " + (sub ? "1" : "0") + (sup ? "1" : "0") + (sat ? "1" : "0");
	r.nbits = nbits;
	r.binops = { "add", "sub", "mul", "div" };
	r.exec = [](const std::string& op, const std::string& as, const std::string& bs) {
		C a, b; a.setbits(parse_hex(as)); if (!bs.empty()) b.setbits(parse_hex(bs));
		auto enc = [](const C& c) { uint64_t v = 0; for (unsigned i = 0; i < nbits; ++i) if (c.at(i)) v |= (1ull << i); return hex(v); };
		if (op == "add") return observe([&] { return enc(a + b); });
		if (op == "sub") return observe([&] { return enc(a - b); });
		if (op == "mul") return observe([&] { return enc(a * b); });
		if (op == "div") return observe([&] { return enc(a / b); });
		return Obs{ "bad-op", false };
	};
	r.operand = [](uv::Rng& g) -> uint64_t {
		const uint64_t M = uv::mask(nbits), S = 1ull << (nbits - 1), E = uv::mask(es) << (nbits - 1 - es);
		switch (g.below(8)) {
		case 0: return g.coin() ? 0 : S;                                            // +-0
		case 1: return (g.coin() ? 0 : S) | (g.next() & uv::mask(nbits - 1 - es));  // exponent field 0 (zero when !sub)
		case 2: return (g.coin() ? 0 : S) | E | (g.next() & uv::mask(nbits - 1 - es)); // exponent field all ones
		case 3: return (g.coin() ? 0 : S) | (M >> 1);                               // NaN encodings
		case 4: return (g.coin() ? 0 : S) | ((M >> 1) - 1);                         // inf encodings
		default: return g.next() & M;
		}
	};
	return r;
}

// ---- fixpnt --------------------------------------------------------------------------------------
template<unsigned nbits, unsigned rbits, bool arith, typename bt>
static Runner fixpnt_runner(const char* btname) {
	using F = fixpnt<nbits, rbits, arith, bt>;
	Runner r;
	r.head = "fixpnt " + std::to_string(nbits) + " " + std::to_string(rbits) + " " + (arith == Modulo ? "M" : "S") + " " + btname;
	r.nbits = nbits;
	r.binops = { "add", "sub", "mul" };
	if (arith == Modulo) r.binops.push_back("div");     // Saturate /= is a stub that always prints TBD (D11, property C07)
	r.exec = [](const std::string& op, const std::string& as, const std::string& bs) {
		F a, b; a.setbits(parse_hex(as)); if (!bs.empty()) b.setbits(parse_hex(bs));
		auto enc = [](const F& c) { uint64_t v = 0; for (unsigned i = 0; i < nbits; ++i) if (c.at(i)) v |= (1ull << i); return hex(v); };
		if (op == "add") return observe([&] { return enc(a + b); });
		if (op == "sub") return observe([&] { return enc(a - b); });
		if (op == "mul") return observe([&] { return enc(a * b); });
		if (op == "div") return observe([&] { return enc(a / b); });
		return Obs{ "bad-op", false };
	};
	r.operand = [](uv::Rng& g) -> uint64_t {
		const uint64_t M = uv::mask(nbits);
		switch (g.below(4)) {
		case 0: return 0;
		case 1: { uint64_t d = g.below(3); return (g.coin() ? d : (M - d)) & M; }
		default: return g.next() & M;
		}
	};
	return r;
}

// ---- integer -------------------------------------------------------------------------------------
template<unsigned nbits, typename bt>
static Runner integer_runner(const char* btname) {
	using I = integer<nbits, bt, IntegerNumberType::IntegerNumber>;
	Runner r;
	r.head = "integer " + std::to_string(nbits) + " " + btname;
	r.nbits = nbits;
	r.binops = { "add", "sub", "mul", "div", "rem" };
	r.exec = [](const std::string& op, const std::string& as, const std::string& bs) {
		I a, b; a.setbits(parse_hex(as)); if (!bs.empty()) b.setbits(parse_hex(bs));
		auto enc = [](const I& c) { uint64_t v = 0; for (unsigned i = 0; i < nbits; ++i) if (c.at(i)) v |= (1ull << i); return hex(v); };
		if (op == "add") return observe([&] { return enc(a + b); });
		if (op == "sub") return observe([&] { return enc(a - b); });
		if (op == "mul") return observe([&] { return enc(a * b); });
		if (op == "div") return observe([&] { return enc(a / b); });
		if (op == "rem") return observe([&] { return enc(a % b); });
		return Obs{ "bad-op", false };
	};
	r.operand = [](uv::Rng& g) -> uint64_t {
		const uint64_t M = uv::mask(nbits);
		switch (g.below(4)) {
		case 0: return 0;
		case 1: { uint64_t d = g.below(3); return (g.coin() ? d : (M - d)) & M; }
		default: return g.next() & M;
		}
	};
	return r;
}

// ---- lns -----------------------------------------------------------------------------------------
template<unsigned nbits, unsigned rbits, typename bt>
static Runner lns_runner(const char* btname) {
	using L = lns<nbits, rbits, bt>;
	Runner r;
	r.head = "lns " + std::to_string(nbits) + " " + std::to_string(rbits) + " " + btname;
	r.nbits = nbits;
	r.binops = { "add", "sub", "mul", "div" };
	r.exec = [](const std::string& op, const std::string& as, const std::string& bs) {
		L a, b; a.setbits(parse_hex(as)); if (!bs.empty()) b.setbits(parse_hex(bs));
		auto enc = [](const L& c) { uint64_t v = 0; for (unsigned i = 0; i < nbits; ++i) if (c.at(i)) v |= (1ull << i); return hex(v); };
		if (op == "add") return observe([&] { return enc(a + b); });
		if (op == "sub") return observe([&] { return enc(a - b); });
		if (op == "mul") return observe([&] { return enc(a * b); });
		if (op == "div") return observe([&] { return enc(a / b); });
		return Obs{ "bad-op", false };
	};
	r.operand = [](uv::Rng& g) -> uint64_t {
		const uint64_t M = uv::mask(nbits), Z = 1ull << (nbits - 2), N = Z | (1ull << (nbits - 1));
		switch (g.below(6)) {
		case 0: return Z;                                                  // zero encoding 0.10...0
		case 1: return N;                                                  // NaN encoding  1.10...0
		case 2: { uint64_t d = g.below(3); return (Z + (g.coin() ? d : (M - d) + 1)) & M; }
		case 3: { uint64_t d = g.below(3); return (N + (g.coin() ? d : (M - d) + 1)) & M; }
		default: return g.next() & M;
		}
	};
	return r;
}

// ---- elastic -------------------------------------------------------------------------------------
template<typename T>
static std::string text_of(const T& v) { std::stringstream ss; ss << v; std::string s = ss.str(); for (auto& c : s) if (c == ' ') c = '_'; return s.empty() ? "empty" : s; }

template<typename bt>
static Runner einteger_runner(const char* btname) {
	using E = einteger<bt>;
	Runner r;
	r.head = std::string("eint ") + btname;
	r.binops = { "add", "sub", "mul", "div", "rem" };
	r.exec = [](const std::string& op, const std::string& as, const std::string& bs) {
		E a(std::strtoll(as.c_str(), nullptr, 10)), b(std::strtoll(bs.c_str(), nullptr, 10));
		if (op == "add") return observe([&] { return text_of(a + b); });
		if (op == "sub") return observe([&] { return text_of(a - b); });
		if (op == "mul") return observe([&] { return text_of(a * b); });
		if (op == "div") return observe([&] { return text_of(a / b); });
		if (op == "rem") return observe([&] { return text_of(a % b); });
		return Obs{ "bad-op", false };
	};
	return r;
}
static Runner edecimal_runner() {
	Runner r;
	r.head = "edec -";
	r.binops = { "add", "sub", "mul", "div", "rem" };
	r.exec = [](const std::string& op, const std::string& as, const std::string& bs) {
		edecimal a(std::strtoll(as.c_str(), nullptr, 10)), b(std::strtoll(bs.c_str(), nullptr, 10));
		if (op == "add") return observe([&] { return text_of(a + b); });
		if (op == "sub") return observe([&] { return text_of(a - b); });
		if (op == "mul") return observe([&] { return text_of(a * b); });
		if (op == "div") return observe([&] { return text_of(a / b); });
		if (op == "rem") return observe([&] { return text_of(a % b); });
		return Obs{ "bad-op", false };
	};
	return r;
}
static Runner erational_runner() {
	Runner r;
	r.head = "erat -";
	r.binops = { "add", "sub", "mul", "div" };
	r.exec = [](const std::string& op, const std::string& as, const std::string& bs) {
		erational a(std::strtoll(as.c_str(), nullptr, 10)), b(std::strtoll(bs.c_str(), nullptr, 10));
		if (op == "add") return observe([&] { return text_of(a + b); });
		if (op == "sub") return observe([&] { return text_of(a - b); });
		if (op == "mul") return observe([&] { return text_of(a * b); });
		if (op == "div") return observe([&] { return text_of(a / b); });
		return Obs{ "bad-op", false };
	};
	return r;
}

// ------------------------------------------------------------------------------------------------
static bool select_runner(const std::vector<std::string>& cfg, Runner& r) {
	auto is = [&](std::initializer_list<const char*> l) {
		if (l.size() != cfg.size()) return false;
		size_t i = 0; for (auto s : l) { if (cfg[i++] != s) return false; } return true;
	};
	if (is({ "posit", "6", "1" })) { r = posit_runner<6, 1>(); return true; }
	if (is({ "posit", "7", "0" })) { r = posit_runner<7, 0>(); return true; }
	if (is({ "posit", "8", "0" })) { r = posit_runner<8, 0>(); return true; }
	if (is({ "posit", "8", "1" })) { r = posit_runner<8, 1>(); return true; }
	if (is({ "posit", "8", "2" })) { r = posit_runner<8, 2>(); return true; }
	if (is({ "posit", "16", "1" })) { r = posit_runner<16, 1>(); return true; }
	if (is({ "posit", "32", "2" })) { r = posit_runner<32, 2>(); return true; }
	if (is({ "posit", "64", "3" })) { r = posit_runner<64, 3>(); return true; }
	if (is({ "cfloat", "6", "2", "u8", "000" })) { r = cfloat_runner<6, 2, uint8_t, false, false, false>("u8"); return true; }
	if (is({ "cfloat", "6", "2", "u8", "110" })) { r = cfloat_runner<6, 2, uint8_t, true, true, false>("u8"); return true; }
	if (is({ "cfloat", "8", "2", "u8", "000" })) { r = cfloat_runner<8, 2, uint8_t, false, false, false>("u8"); return true; }
	if (is({ "cfloat", "8", "2", "u8", "110" })) { r = cfloat_runner<8, 2, uint8_t, true, true, false>("u8"); return true; }
	if (is({ "cfloat", "8", "4", "u8", "100" })) { r = cfloat_runner<8, 4, uint8_t, true, false, false>("u8"); return true; }
	if (is({ "cfloat", "8", "3", "u8", "011" })) { r = cfloat_runner<8, 3, uint8_t, false, true, true>("u8"); return true; }
	if (is({ "cfloat", "16", "5", "u16", "100" })) { r = cfloat_runner<16, 5, uint16_t, true, false, false>("u16"); return true; }
	if (is({ "cfloat", "16", "8", "u8", "000" })) { r = cfloat_runner<16, 8, uint8_t, false, false, false>("u8"); return true; }
	if (is({ "cfloat", "32", "8", "u32", "100" })) { r = cfloat_runner<32, 8, uint32_t, true, false, false>("u32"); return true; }
	if (is({ "fixpnt", "6", "2", "M", "u8" })) { r = fixpnt_runner<6, 2, Modulo, uint8_t>("u8"); return true; }
	if (is({ "fixpnt", "8", "4", "M", "u8" })) { r = fixpnt_runner<8, 4, Modulo, uint8_t>("u8"); return true; }
	if (is({ "fixpnt", "8", "4", "S", "u8" })) { r = fixpnt_runner<8, 4, Saturate, uint8_t>("u8"); return true; }
	if (is({ "fixpnt", "8", "0", "M", "u8" })) { r = fixpnt_runner<8, 0, Modulo, uint8_t>("u8"); return true; }
	if (is({ "fixpnt", "16", "8", "M", "u16" })) { r = fixpnt_runner<16, 8, Modulo, uint16_t>("u16"); return true; }
	if (is({ "fixpnt", "24", "12", "M", "u8" })) { r = fixpnt_runner<24, 12, Modulo, uint8_t>("u8"); return true; }
	if (is({ "fixpnt", "32", "16", "M", "u32" })) { r = fixpnt_runner<32, 16, Modulo, uint32_t>("u32"); return true; }
	if (is({ "integer", "6", "u8" })) { r = integer_runner<6, uint8_t>("u8"); return true; }
	if (is({ "integer", "8", "u8" })) { r = integer_runner<8, uint8_t>("u8"); return true; }
	if (is({ "integer", "8", "u16" })) { r = integer_runner<8, uint16_t>("u16"); return true; }
	if (is({ "integer", "12", "u8" })) { r = integer_runner<12, uint8_t>("u8"); return true; }
	if (is({ "integer", "16", "u16" })) { r = integer_runner<16, uint16_t>("u16"); return true; }
	if (is({ "integer", "32", "u32" })) { r = integer_runner<32, uint32_t>("u32"); return true; }
	if (is({ "integer", "40", "u8" })) { r = integer_runner<40, uint8_t>("u8"); return true; }
	if (is({ "integer", "64", "u32" })) { r = integer_runner<64, uint32_t>("u32"); return true; }
	if (is({ "lns", "6", "2", "u8" })) { r = lns_runner<6, 2, uint8_t>("u8"); return true; }
	if (is({ "lns", "8", "3", "u8" })) { r = lns_runner<8, 3, uint8_t>("u8"); return true; }
	if (is({ "lns", "8", "4", "u16" })) { r = lns_runner<8, 4, uint16_t>("u16"); return true; }
	if (is({ "lns", "16", "8", "u16" })) { r = lns_runner<16, 8, uint16_t>("u16"); return true; }
	if (is({ "lns", "24", "12", "u8" })) { r = lns_runner<24, 12, uint8_t>("u8"); return true; }
	if (is({ "eint", "u8" })) { r = einteger_runner<uint8_t>("u8"); return true; }
	if (is({ "eint", "u16" })) { r = einteger_runner<uint16_t>("u16"); return true; }
	if (is({ "eint", "u32" })) { r = einteger_runner<uint32_t>("u32"); return true; }
	if (is({ "edec", "-" })) { r = edecimal_runner(); return true; }
	if (is({ "erat", "-" })) { r = erational_runner(); return true; }
	return false;
}

static bool op_selected(const std::string& opset, const std::string& op) {
	if (opset == "all") return true;
	return ("," + opset + ",").find("," + op + ",") != std::string::npos;
}

static void emit_line(const Runner& r, const std::string& op, const std::string& a, const std::string& b) {
	Obs o = r.exec(op, a, b);
	std::printf("exc %c %s %s %s%s%s => %s e%d\n", UV_EXC_MODE, r.head.c_str(), op.c_str(), a.c_str(), b.empty() ? "" : " ", b.c_str(), o.res.c_str(), o.err ? 1 : 0);
}

static long long elastic_operand(uv::Rng& g) {
	switch (g.below(6)) {
	case 0: return 0;
	case 1: return (long long)g.below(5) - 2;
	case 2: return (long long)g.below(2001) - 1000;
	case 3: { long long v = (long long)(g.next() >> (1 + g.below(62))); return g.coin() ? v : -v; }
	case 4: { long long v = 1ll << g.below(62); v += (long long)g.below(3) - 1; return g.coin() ? v : -v; }
	default: { long long v = (long long)(g.next() & 0xFFFFFFFFull); return g.coin() ? v : -v; }
	}
}

static int emit(const Runner& r, const std::string& mode, uint64_t count, const std::string& opset, uint64_t salt) {
	if (r.nbits) {
		if (mode == "exh") {
			const uint64_t N = 1ull << r.nbits;
			for (uint64_t a = 0; a < N; ++a) {
				for (auto& op : r.unops) if (op_selected(opset, op)) emit_line(r, op, hex(a), "");
				for (uint64_t b = 0; b < N; ++b)
					for (auto& op : r.binops) if (op_selected(opset, op)) emit_line(r, op, hex(a), hex(b));
			}
		}
		else {
			uv::Rng g(uv::seed_from_env() * 1000003ull + salt);
			for (uint64_t i = 0; i < count; ++i) {
				uint64_t a = r.operand(g), b = r.operand(g);
				for (auto& op : r.unops) if (op_selected(opset, op)) emit_line(r, op, hex(a), "");
				for (auto& op : r.binops) if (op_selected(opset, op)) emit_line(r, op, hex(a), hex(b));
			}
		}
	}
	else {
		if (mode == "exh") {   // small grid: every pair of -8..8 plus a few multi-limb magnitudes
			std::vector<long long> v;
			for (long long x = -8; x <= 8; ++x) v.push_back(x);
			for (long long x : { 255ll, 256ll, 65535ll, 65536ll, 4294967295ll, 4294967296ll, 999999999999ll, 1000000007ll }) { v.push_back(x); v.push_back(-x); }
			for (auto a : v) for (auto b : v)
				for (auto& op : r.binops) if (op_selected(opset, op)) emit_line(r, op, dec(a), dec(b));
		}
		else {
			uv::Rng g(uv::seed_from_env() * 1000003ull + salt);
			for (uint64_t i = 0; i < count; ++i) {
				long long a = elastic_operand(g), b = elastic_operand(g);
				for (auto& op : r.binops) if (op_selected(opset, op)) emit_line(r, op, dec(a), dec(b));
			}
		}
	}
	return 0;
}

static std::vector<std::string> split(const std::string& s) {
	std::vector<std::string> t; std::stringstream ss(s); std::string w; while (ss >> w) t.push_back(w); return t;
}

// runner named by the tokens t[from..] of a line (family cfg...); returns the number of head tokens, 0 if none fits
static size_t runner_of_line(const std::vector<std::string>& t, size_t from, Runner& r) {
	static std::string cached; static Runner cr; static size_t cn = 0;
	for (size_t k = 2; k <= 5 && from + k <= t.size(); ++k) {
		std::vector<std::string> cfg(t.begin() + from, t.begin() + from + k);
		std::string key; for (auto& s : cfg) key += s + " ";
		if (key == cached) { r = cr; return cn; }
		if (select_runner(cfg, r)) { cached = key; cr = r; cn = k; return k; }
	}
	return 0;
}

// emitfile: every `exc <family> <cfg...> <op> <a> [<b>] => ...` line of a file is executed by THIS build
static int emit_file(const char* path) {
	FILE* f = std::fopen(path, "r");
	if (!f) { std::fprintf(stderr, "cannot open %s\n", path); return 3; }
	char buf[4096];
	while (std::fgets(buf, sizeof buf, f)) {
		std::vector<std::string> t = split(buf);
		if (t.size() < 6 || t[0] != "exc") continue;
		Runner r;
		size_t hn = runner_of_line(t, 1, r);
		if (!hn) { std::fprintf(stderr, "unsupported configuration in: %s", buf); std::fclose(f); return 2; }
		size_t i = 1 + hn;
		if (i + 2 >= t.size()) continue;
		const std::string op = t[i++], a = t[i++];
		std::string b;
		if (i < t.size() && t[i] != "=>") b = t[i];
		emit_line(r, op, a, b);
	}
	std::fclose(f);
	return 0;
}

static int pair_with(const Runner* fixed, const std::string& cmd) {
	FILE* p = popen(cmd.c_str(), "r");
	if (!p) { std::fprintf(stderr, "cannot start %s\n", cmd.c_str()); return 3; }
	char buf[4096];
	uint64_t lines = 0;
	Runner r;
	size_t hn = 0;
	if (fixed) { r = *fixed; hn = split(r.head).size(); }
	while (std::fgets(buf, sizeof buf, p)) {
		std::vector<std::string> t = split(buf);
		if (!fixed) hn = t.size() > 2 ? runner_of_line(t, 2, r) : 0;
		if (!hn) { std::fprintf(stderr, "unparsable quiet line: %s", buf); pclose(p); return 4; }
		// exc q <head...> op a [b] => res eN
		if (t.size() < hn + 7 || t[0] != "exc") { std::fprintf(stderr, "unparsable quiet line: %s", buf); pclose(p); return 4; }
		if (t[1] != "q") { std::fprintf(stderr, "the paired executable is not a quiet build: %s", buf); pclose(p); return 4; }
		size_t i = 2 + hn;
		const std::string op = t[i++], a = t[i++];
		std::string b;
		if (t[i] != "=>") b = t[i++];
		if (t[i] != "=>" || i + 2 >= t.size()) { std::fprintf(stderr, "unparsable quiet line: %s", buf); pclose(p); return 4; }
		const std::string qres = t[i + 1], qe = t[i + 2];
		Obs o = r.exec(op, a, b);
		std::printf("exc %s %s %s%s%s => q:%s qe:%c t:%s te:%d\n", r.head.c_str(), op.c_str(), a.c_str(), b.empty() ? "" : " ", b.c_str(),
			qres.c_str(), qe.size() > 1 ? qe[1] : '?', o.res.c_str(), o.err ? 1 : 0);
		++lines;
	}
	int rc = pclose(p);
	if (rc != 0) { std::fflush(stdout); std::fprintf(stderr, "quiet build exited with status %d after %llu lines\n", rc, (unsigned long long)lines); return 5; }
	return 0;
}

int main(int argc, char** argv) {
	uv::Out out;
	std::cerr.rdbuf(g_err.rdbuf());       // capture what the library writes to std::cerr (the quiet-mode "signal")
	std::signal(SIGFPE, on_fpe);
	if (argc < 3) { std::fprintf(stderr, "usage: h_except emit|pair [other-exe] family cfg... exh|rnd count opset\n"); return 2; }
	std::string verb = argv[1];
	if (verb == "emitfile") return emit_file(argv[2]);
	if (verb == "pairfile") {
		if (argc < 4) return 2;
		if (UV_EXC_MODE != 't') { std::fprintf(stderr, "pairfile must be run by the throwing build\n"); return 2; }
		return pair_with(nullptr, std::string("'") + argv[2] + "' emitfile '" + argv[3] + "'");
	}
	int i = 2;
	std::string other;
	if (verb == "pair") other = argv[i++];
	std::vector<std::string> rest(argv + i, argv + argc);
	// rest = family cfg... exh|rnd count opset
	size_t k = 0;
	while (k < rest.size() && rest[k] != "exh" && rest[k] != "rnd") ++k;
	if (k == rest.size() || rest.size() < k + 3) { std::fprintf(stderr, "missing exh|rnd count opset\n"); return 2; }
	std::vector<std::string> cfg(rest.begin(), rest.begin() + k);
	Runner r;
	if (!select_runner(cfg, r)) { std::fprintf(stderr, "unsupported configuration\n"); return 2; }
	std::string mode = rest[k];
	uint64_t count = std::strtoull(rest[k + 1].c_str(), nullptr, 10);
	std::string opset = rest[k + 2];
	uint64_t salt = 0; for (auto& s : cfg) for (char c : s) salt = salt * 131 + (unsigned char)c;
	if (verb == "emit") return emit(r, mode, count, opset, salt);
	if (verb == "pair") {
		if (UV_EXC_MODE != 't') { std::fprintf(stderr, "pair must be run by the throwing build\n"); return 2; }
		std::string cmd = "'" + other + "' emit";
		for (auto& s : rest) cmd += " '" + s + "'";
		return pair_with(&r, cmd);
	}
	return 2;
}
