// h_fast.cpp — transcript of ONE build configuration of the posit library for property C11.
// The same source is compiled twice: without any macro ("generic") and with -DPOSIT_FAST_SPECIALIZATION=1
// ("fast": specializations.hpp then selects posit_2_0 ... posit_32_2). Both transcripts are judged by the Lean
// driver against the generic model.
//
//   h_fast exh <nbits> <es> 0 [all|arith|order|unary|conv]   every operand (pair) — nbits <= 8
//   h_fast rnd <nbits> <es> <count> [opset]                   structured operand pairs (seed: VERIF_SEED)
//   h_fast api <nbits> <es>                                   which public operations exist (requires-expressions)
//
// line:  fast <generic|fast> <nbits> <es> <op> <a> [<b>] => <r>
#include <universal/number/posit/posit.hpp>
#include <cmath>
#include <limits>
#include <type_traits>
#include <vector>
#include <algorithm>
#include "proto.hpp"

using namespace sw::universal;

#ifdef POSIT_FAST_SPECIALIZATION
static const char* IMPL = "fast";
#else
static const char* IMPL = "generic";
#endif

static bool g_arith = true, g_order = true, g_unary = true, g_conv = true;
typedef unsigned long long ull;

// independent decode of a positive posit encoding (n <= 34 bits) to double: exact for every configuration used here
static double pval(unsigned n, unsigned es, uint64_t y) {
	// y: magnitude, 0 < y < 2^(n-1)
	int i = (int)n - 2;
	bool r0 = (y >> i) & 1;
	int m = 0;
	while (i >= 0 && (((y >> i) & 1) == r0)) { ++m; --i; }
	int k = r0 ? m - 1 : -m;
	--i;                                  // skip terminator
	int nrem = i + 1; if (nrem < 0) nrem = 0;
	uint64_t tail = nrem ? (y & uv::mask((unsigned)nrem)) : 0;
	int ne = (int)es < nrem ? (int)es : nrem;
	uint64_t e = ne ? (tail >> (nrem - ne)) << (es - ne) : 0;
	int nf = nrem - ne;
	uint64_t f = nf ? (tail & uv::mask((unsigned)nf)) : 0;
	double frac = 1.0 + std::ldexp((double)f, -nf);
	return std::ldexp(frac, k * (1 << es) + (int)e);
}

static void put_s(const char* op, unsigned n, unsigned es, long long src, ull r) {
	if (src < 0) std::printf("fast %s %u %u %s -%llx => %llx\n", IMPL, n, es, op, (ull)(-(unsigned long long)src), r);
	else std::printf("fast %s %u %u %s %llx => %llx\n", IMPL, n, es, op, (ull)src, r);
}
static void put_u(const char* op, unsigned n, unsigned es, ull src, ull r) {
	std::printf("fast %s %u %u %s %llx => %llx\n", IMPL, n, es, op, src, r);
}
static void put_ts(const char* op, unsigned n, unsigned es, ull a, long long r) {
	if (r < 0) std::printf("fast %s %u %u %s %llx => -%llx\n", IMPL, n, es, op, a, (ull)(-(unsigned long long)r));
	else std::printf("fast %s %u %u %s %llx => %llx\n", IMPL, n, es, op, a, (ull)r);
}

template<unsigned nbits, unsigned es>
struct Run {
	using P = posit<nbits, es>;
	static constexpr uint64_t M = (nbits >= 64) ? ~0ull : ((1ull << nbits) - 1);
	static constexpr uint64_t NARENC = 1ull << (nbits - 1);

	static uint64_t enc(const P& p) {
		if constexpr (requires { p.bits(); }) return (uint64_t)p.bits() & M;
		else return (uint64_t)p.encoding() & M;
	}
	static P mk(uint64_t b) { P p; p.setbits(b); return p; }

	// exact value of an encoding (double), NaR -> NaN
	static double val(uint64_t a) {
		a &= M;
		if (a == 0) return 0.0;
		if (a == NARENC) return std::numeric_limits<double>::quiet_NaN();
		if (a & NARENC) return -pval(nbits, es, (~a + 1) & M);
		return pval(nbits, es, a);
	}

	static void binary(uint64_t a, uint64_t b) {
		P pa = mk(a), pb = mk(b);
		if (g_arith) {
			if constexpr (requires { pa + pb; }) std::printf("fast %s %u %u add %llx %llx => %llx\n", IMPL, nbits, es, (ull)a, (ull)b, (ull)enc(pa + pb));
			if constexpr (requires { pa - pb; }) std::printf("fast %s %u %u sub %llx %llx => %llx\n", IMPL, nbits, es, (ull)a, (ull)b, (ull)enc(pa - pb));
			if constexpr (requires { pa * pb; }) std::printf("fast %s %u %u mul %llx %llx => %llx\n", IMPL, nbits, es, (ull)a, (ull)b, (ull)enc(pa * pb));
			if constexpr (requires { pa / pb; }) std::printf("fast %s %u %u div %llx %llx => %llx\n", IMPL, nbits, es, (ull)a, (ull)b, (ull)enc(pa / pb));
		}
		if (g_order) {
			unsigned m = (pa == pb ? 1u : 0u) | (pa != pb ? 2u : 0u) | (pa < pb ? 4u : 0u) | (pa <= pb ? 8u : 0u) | (pa > pb ? 16u : 0u) | (pa >= pb ? 32u : 0u);
			std::printf("fast %s %u %u cmp %llx %llx => %x\n", IMPL, nbits, es, (ull)a, (ull)b, m);
		}
	}

	static std::string fbits(float f) { if (f != f) return "nan"; char b[32]; std::snprintf(b, sizeof b, "%x", uv::float2bits(f)); return b; }
	static std::string dbits(double d) { if (d != d) return "nan"; char b[32]; std::snprintf(b, sizeof b, "%llx", (ull)uv::double2bits(d)); return b; }

	static void to_native(uint64_t a) {
		P pa = mk(a);
		std::printf("fast %s %u %u td %llx => %s\n", IMPL, nbits, es, (ull)a, dbits(static_cast<double>(pa)).c_str());
		std::printf("fast %s %u %u tf %llx => %s\n", IMPL, nbits, es, (ull)a, fbits(static_cast<float>(pa)).c_str());
		double v = val(a);
		if (v != v) return;                       // NaR to an integer type is undefined behaviour in every implementation
		double t = std::trunc(v);
		if (std::fabs(t) < 2147483648.0) put_ts("ti", nbits, es, a, (long long)static_cast<int>(pa));
		if (std::fabs(t) < 9223372036854775808.0) {
			put_ts("tl", nbits, es, a, (long long)static_cast<long>(pa));
			put_ts("tll", nbits, es, a, static_cast<long long>(pa));
		}
		if (v > -1.0 && t < 4294967296.0) put_u("tui", nbits, es, a, (ull)static_cast<unsigned int>(pa));
		if (v > -1.0 && t < 18446744073709551616.0) {
			put_u("tul", nbits, es, a, (ull)static_cast<unsigned long>(pa));
			put_u("tull", nbits, es, a, (ull)static_cast<unsigned long long>(pa));
		}
	}

	static void unary(uint64_t a) {
		P pa = mk(a);
		if (g_arith) {
			if constexpr (requires { pa.reciprocal(); }) std::printf("fast %s %u %u rec %llx => %llx\n", IMPL, nbits, es, (ull)a, (ull)enc(pa.reciprocal()));
			std::printf("fast %s %u %u neg %llx => %llx\n", IMPL, nbits, es, (ull)a, (ull)enc(-pa));
			if constexpr (requires { pa.abs(); }) std::printf("fast %s %u %u abs %llx => %llx\n", IMPL, nbits, es, (ull)a, (ull)enc(abs(pa)));
		}
		if (g_order) {
			P pi = pa; ++pi;
			std::printf("fast %s %u %u inc %llx => %llx\n", IMPL, nbits, es, (ull)a, (ull)enc(pi));
			P pd = pa; --pd;
			std::printf("fast %s %u %u dec %llx => %llx\n", IMPL, nbits, es, (ull)a, (ull)enc(pd));
		}
		if (g_unary) {
			std::printf("fast %s %u %u sqrt %llx => %llx\n", IMPL, nbits, es, (ull)a, (ull)enc(sqrt(pa)));
		}
		if (g_conv) to_native(a);
	}

	// ------------------------------------------------------------------ conversions from native types
	template<class T> static bool assign(P& p, T x) {
		if constexpr (requires(P& q, T v) { q = v; }) { p = x; return true; }
		else if constexpr (requires(T v) { P(v); }) { p = P(x); return true; }
		else return false;
	}
	template<class T> static void from_s(const char* op, long long x) {
		if (x < (long long)std::numeric_limits<T>::min() || x > (long long)std::numeric_limits<T>::max()) return;
		P p; if (assign<T>(p, (T)x)) put_s(op, nbits, es, x, (ull)enc(p));
	}
	template<class T> static void from_u(const char* op, ull x) {
		if (x > (ull)std::numeric_limits<T>::max()) return;
		P p; if (assign<T>(p, (T)x)) put_u(op, nbits, es, x, (ull)enc(p));
	}
	static void from_int_all(long long x) {
		from_s<int>("fi", x); from_s<long>("fl", x); from_s<long long>("fll", x);
		if (x >= 0) from_uint_all((ull)x);
	}
	static void from_uint_all(ull x) {
		from_u<unsigned int>("fui", x); from_u<unsigned long>("ful", x); from_u<unsigned long long>("full", x);
	}
	static void from_float(float f) {
		P p; if (assign<float>(p, f)) std::printf("fast %s %u %u ff %x => %llx\n", IMPL, nbits, es, uv::float2bits(f), (ull)enc(p));
	}
	static void from_double(double d) {
		P p; if (assign<double>(p, d)) std::printf("fast %s %u %u fd %llx => %llx\n", IMPL, nbits, es, (ull)uv::double2bits(d), (ull)enc(p));
	}
	// every source that the target lattice makes interesting around the real x > 0 (a posit value or an (n+1)-bit midpoint)
	static void sources_around(double x) {
		for (int sgn = 0; sgn < 2; ++sgn) {
			double s = sgn ? -x : x;
			// doubles: x, and its neighbours
			from_double(s); from_double(std::nextafter(s, 1e300)); from_double(std::nextafter(s, -1e300));
			// floats: nearest float and its neighbours (x itself when representable)
			float f = (float)s;
			from_float(f); from_float(std::nextafterf(f, 1e38f)); from_float(std::nextafterf(f, -1e38f));
			// integers: floor/ceil and +-1 (when in the range of long long)
			if (std::fabs(s) < 9.2e18) {
				long long fl = (long long)std::floor(s), ce = (long long)std::ceil(s);
				from_int_all(fl); from_int_all(ce); from_int_all(fl - 1); from_int_all(ce + 1);
			}
			if (s > 0 && s < 1.8e19) {
				ull fl = (ull)std::floor(s), ce = (ull)std::ceil(s);
				from_uint_all(fl); from_uint_all(ce); if (fl) from_uint_all(fl - 1); from_uint_all(ce + 1);
			}
		}
	}
	static void lattice_point(uint64_t U) {
		// U: positive encoding, 0 < U < 2^(n-1)
		sources_around(pval(nbits, es, U));
		if (U + 1 < NARENC) sources_around(pval(nbits + 1, es, 2 * U + 1));     // Standard midpoint between U and U+1
		else { double mp = pval(nbits, es, U); sources_around(mp * 2); sources_around(mp * 1.5); }   // beyond maxpos
		if (U == 1) { double mp = pval(nbits, es, 1); sources_around(mp / 2); sources_around(mp / 4); sources_around(mp * 0.75); }  // below minpos
	}
	static void fixed_sources() {
		const long long I[] = { 0, 1, -1, 2, -2, 3, -3, 2147483647LL, -2147483647LL - 1, 2147483648LL, 4294967295LL, 4294967296LL, 4294967297LL,
			(1LL << 53) - 1, 1LL << 53, (1LL << 53) + 1, -((1LL << 53) + 1), (1LL << 62), 9223372036854775807LL, -9223372036854775807LL };   // LLONG_MIN left out: `-rhs` overflows in every implementation (UB)
		for (long long x : I) from_int_all(x);
		// every power of two, its neighbours and the 1.5 * 2^k tie points with their neighbours: the branches of the hand-written
		// integer_assign routines (round bit, sticky bits, tie on the last encoding bit, clamp thresholds, 32 -> 64 bit widening)
		for (int k = 0; k < 64; ++k) {
			const ull p2 = 1ull << k, t15 = (k ? (3ull << (k - 1)) : 0);
			const ull W[] = { p2, p2 - 1, p2 + 1, t15, t15 - 1, t15 + 1, p2 + (p2 >> 1) + (p2 >> 2), p2 | 1ull };
			for (ull w : W) {
				if (k && w == 0) continue;
				from_uint_all(w);
				if (w <= 9223372036854775807ull) { from_int_all((long long)w); from_int_all(-(long long)w); }
			}
		}
		const ull Uv[] = { 9223372036854775807ull, 9223372036854775808ull, 9223372036854775809ull, 18446744073709551615ull, 18446744073709551614ull, 4294967295ull, 4294967296ull };
		for (ull x : Uv) from_uint_all(x);
		const double D[] = { 0.0, -0.0, 1.0, -1.0, std::numeric_limits<double>::infinity(), -std::numeric_limits<double>::infinity(),
			std::numeric_limits<double>::quiet_NaN(), std::numeric_limits<double>::denorm_min(), std::numeric_limits<double>::min(),
			std::numeric_limits<double>::max(), -std::numeric_limits<double>::max(), 9007199254740993.0, 0.1, 1.0 / 3.0, 3.14159265358979 };
		for (double d : D) { from_double(d); from_float((float)d); }
		const float F[] = { std::numeric_limits<float>::denorm_min(), std::numeric_limits<float>::min(), std::numeric_limits<float>::max(), -std::numeric_limits<float>::max(), 16777217.0f };
		for (float f : F) from_float(f);
	}
	static void random_sources(uv::Rng& g, unsigned count) {
		for (unsigned i = 0; i < count; ++i) {
			// random double/float with an exponent inside (and a little outside) the dynamic range of the configuration
			int lim = (int)(nbits - 2) * (1 << es) + 3;
			int e = (int)g.below(2 * lim + 1) - lim;
			double d = std::ldexp(1.0 + (double)(g.next() >> 12) * 0x1p-52, e);
			if (g.coin()) d = -d;
			from_double(d); from_float((float)d);
			ull u = g.next() >> g.below(64);
			from_uint_all(u); from_int_all((long long)(u >> 1)); from_int_all(-(long long)(u >> 1));
		}
	}

	static void exhaustive() {
		const uint64_t N = 1ull << nbits;
		for (uint64_t a = 0; a < N; ++a) {
			unary(a);
			if (g_arith || g_order) for (uint64_t b = 0; b < N; ++b) binary(a, b);
		}
		if (g_conv) {
			fixed_sources();
			for (uint64_t U = 1; U < NARENC; ++U) lattice_point(U);
			uv::Rng g(uv::seed_from_env() * 7919ull + nbits * 131ull + es);
			random_sources(g, 2000);
		}
	}
	// structured operand: aimed at the branches of decode/round (same generator as h_posit.cpp)
	static uint64_t operand(uv::Rng& g) {
		switch (g.below(8)) {
		case 0: return g.next() & M;
		case 1: {
			unsigned run = 1 + (unsigned)g.below(nbits - 1);
			uint64_t body = g.next() & uv::mask(nbits - 1);
			uint64_t reg = g.coin() ? (uv::mask(run) << (nbits - 1 - run)) : 0;
			uint64_t term = run < nbits - 1 ? (reg ? 0 : (1ull << (nbits - 2 - run))) : 0;
			uint64_t rest = run + 1 < nbits - 1 ? (body & uv::mask(nbits - 2 - run)) : 0;
			uint64_t y = (reg & uv::mask(nbits - 1)) | term | rest;
			if (reg == 0 && run >= nbits - 1) y = 1;
			return (g.coin() ? y : ((~y + 1) & M));
		}
		case 2: { uint64_t d = g.below(4); return (g.coin() ? (1 + d) : ((M >> 1) - d)) & M; }
		case 3: { uint64_t d = g.below(4); return (g.coin() ? (M - d) : ((M >> 1) + 2 + d)) & M; }
		case 4: {
			uint64_t y = g.next() & uv::mask(nbits - 1); unsigned z = (unsigned)g.below(nbits); y &= ~uv::mask(z); if (!y) y = 1ull << (nbits - 2);
			return g.coin() ? y : ((~y + 1) & M);
		}
		case 5: {
			uint64_t y = g.next() & uv::mask(nbits - 1); unsigned z = (unsigned)g.below(nbits - 1); y |= uv::mask(z);
			return g.coin() ? y : ((~y + 1) & M);
		}
		case 6: return g.coin() ? 0 : NARENC;
		default: {
			uint64_t one = 1ull << (nbits - 2); int64_t d = (int64_t)g.below(33) - 16;
			uint64_t y = (one + (uint64_t)d) & M; return g.coin() ? y : ((~y + 1) & M);
		}
		}
	}
	// smallest positive encoding whose value is >= x (x > 0); NARENC when there is none
	static uint64_t enc_at_least(double x) {
		uint64_t lo = 1, hi = NARENC;
		while (lo < hi) { uint64_t mid = lo + (hi - lo) / 2; if (pval(nbits, es, mid) >= x) hi = mid; else lo = mid + 1; }
		return lo;
	}
	// products / quotients whose exact value sits at the ends of the regime range (the word is filled by the regime and the
	// exponent bits are the round and sticky bits): 2^s for the top five and bottom five scales, and one ulp beside them
	static void regime_end_pairs() {
		const int S = (int)(nbits - 2) * (1 << es);
		for (int s = S - 5; s <= S + 1; ++s) for (int sg = 0; sg < 2; ++sg) {
			const int t = sg ? -s : s;
			for (int i = -S; i <= S; ++i) {
				const int j = t - i;
				if (j < -S || j > S) continue;
				const uint64_t a = enc_at_least(std::ldexp(1.0, i)), b = enc_at_least(std::ldexp(1.0, j));
				if (a >= NARENC || b >= NARENC) continue;
				const uint64_t A[] = { a, (a + 1) & M, a > 1 ? a - 1 : a }, B[] = { b, (~b + 1) & M };
				for (uint64_t x : A) for (uint64_t y : B) { if (x == 0 || x == NARENC) continue; binary(x, y); binary(y, x); }
			}
		}
	}
	// read-back of the encodings around 2^k for the k at which a native integer type ends
	static void int_boundary_readback() {
		const int K[] = { 0, 1, 7, 8, 15, 16, 23, 24, 25, 30, 31, 32, 33, 52, 53, 62, 63, 64 };
		for (int k : K) {
			const uint64_t u = enc_at_least(std::ldexp(1.0, k));
			for (int d = -3; d <= 3; ++d) {
				const uint64_t x = u + (uint64_t)(int64_t)d;
				if (x == 0 || x >= NARENC) continue;
				to_native(x); to_native((~x + 1) & M);
			}
		}
	}
	static void random(uint64_t count) {
		uv::Rng g(uv::seed_from_env() * 1000003ull + nbits * 131ull + es);
		if (g_conv) { fixed_sources(); int_boundary_readback(); }
		if (g_arith) regime_end_pairs();
		for (uint64_t i = 0; i < count; ++i) {
			uint64_t a = operand(g), b;
			switch (g.below(6)) {
			case 0: case 1: b = operand(g); break;
			case 2: b = ((~a + 1) + (uint64_t)((int64_t)g.below(9) - 4)) & M; break;
			case 3: b = (a + (uint64_t)((int64_t)g.below(9) - 4)) & M; break;
			case 4: b = a ^ (g.next() & uv::mask((unsigned)g.below(nbits))); break;
			default: b = (g.coin() ? a : ((~a + 1) & M)) ^ (1ull << g.below(nbits)); break;
			}
			if (g_arith || g_order) binary(a, b);
			if ((i & 3) == 0) unary(a);
			if (g_conv && (i & 15) == 0) {
				uint64_t U = a & (NARENC - 1); if (U == 0) U = 1;
				lattice_point(U);
				random_sources(g, 1);
			}
		}
	}

	// which public operations exist for this configuration in this build
	static void api() {
		P pa;
#define HAS(name, expr) std::printf("fast %s %u %u has %s => %d\n", IMPL, nbits, es, name, (int)(expr))
		HAS("add", (requires { pa + pa; })); HAS("sub", (requires { pa - pa; })); HAS("mul", (requires { pa * pa; })); HAS("div", (requires { pa / pa; }));
		HAS("rec", (requires { pa.reciprocal(); })); HAS("abs", (requires { pa.abs(); }));
		HAS("fi", (requires(P& q, int v) { q = v; }) || (requires(int v) { P(v); }));
		HAS("fl", (requires(P& q, long v) { q = v; }) || (requires(long v) { P(v); }));
		HAS("fll", (requires(P& q, long long v) { q = v; }) || (requires(long long v) { P(v); }));
		HAS("fui", (requires(P& q, unsigned int v) { q = v; }) || (requires(unsigned int v) { P(v); }));
		HAS("ful", (requires(P& q, unsigned long v) { q = v; }) || (requires(unsigned long v) { P(v); }));
		HAS("full", (requires(P& q, unsigned long long v) { q = v; }) || (requires(unsigned long long v) { P(v); }));
		HAS("ff", (requires(P& q, float v) { q = v; }) || (requires(float v) { P(v); }));
		HAS("fd", (requires(P& q, double v) { q = v; }) || (requires(double v) { P(v); }));
		HAS("ti", (requires { static_cast<int>(pa); })); HAS("tl", (requires { static_cast<long>(pa); })); HAS("tll", (requires { static_cast<long long>(pa); }));
		HAS("tui", (requires { static_cast<unsigned int>(pa); })); HAS("tul", (requires { static_cast<unsigned long>(pa); })); HAS("tull", (requires { static_cast<unsigned long long>(pa); }));
		HAS("tf", (requires { static_cast<float>(pa); })); HAS("td", (requires { static_cast<double>(pa); }));
#undef HAS
	}
};

#define CONFIGS(X) X(2,0) X(3,0) X(3,1) X(4,0) X(8,0) X(8,1) X(8,2) X(16,1) X(16,2) X(32,2)

int main(int argc, char** argv) {
	if (argc < 4) { std::fprintf(stderr, "usage: h_fast exh|rnd|api nbits es [count] [all|arith|order|unary|conv]\n"); return 2; }
	uv::Out out;
	// some fast routines print diagnostics ("TBD: bitNPlusOne condition …") on stderr; nobody drains that pipe while the
	// transcript is being consumed, so discard it
	if (!std::freopen("/dev/null", "w", stderr)) { /* keep going */ }
	std::string mode = argv[1];
	unsigned n = (unsigned)std::atoi(argv[2]), e = (unsigned)std::atoi(argv[3]);
	uint64_t count = argc > 4 ? std::strtoull(argv[4], nullptr, 10) : 1000;
	std::string ops = argc > 5 ? argv[5] : "all";
	auto has = [&](const char* w) { return ops == "all" || ops.find(w) != std::string::npos; };   // e.g. "arith,order"
	g_arith = has("arith"); g_order = has("order"); g_unary = has("unary"); g_conv = has("conv");
#define X(N,E) if (n == N && e == E) { if (mode == "exh") Run<N,E>::exhaustive(); else if (mode == "api") Run<N,E>::api(); else Run<N,E>::random(count); return 0; }
	CONFIGS(X)
#undef X
	std::fprintf(stderr, "unsupported configuration %u %u\n", n, e);
	return 2;
}
