// h_fixpnt.cpp — transcript of fixpnt<nbits, rbits, Modulo|Saturate, bt>.
// usage: h_fixpnt exh <nbits> <rbits> <M|S> <bt> 0 <opset>        every operand (pair)
//        h_fixpnt rnd <nbits> <rbits> <M|S> <bt> <count> <opset>  structured random operands (seed: VERIF_SEED)
// opset = all|arith|div|order|shift       compile with -DUV_BT=8|16|32 for one block type only.
#include "ops_fixpnt.hpp"

using namespace uvfix;
using uv::Big;

static bool g_arith, g_div, g_order, g_shift;

template<typename bt> struct BtName;
template<> struct BtName<uint8_t>  { static constexpr const char* s = "u8"; };
template<> struct BtName<uint16_t> { static constexpr const char* s = "u16"; };
template<> struct BtName<uint32_t> { static constexpr const char* s = "u32"; };

template<unsigned nbits, unsigned rbits, bool arith, typename bt>
struct Run {
	using O = FixOps<nbits, rbits, arith, bt>;
	static void hdr() { std::printf("fixpnt %u %u %c %s ", nbits, rbits, arith == Modulo ? 'M' : 'S', BtName<bt>::s); }
	static void b2(Op op, const Big& a, const Big& b) {
		std::string r = O::bin(op, a, b);
		hdr(); std::printf("%s %s %s => %s\n", opname(op), a.hex().c_str(), b.hex().c_str(), r.c_str());
	}
	static void u1(Op op, const Big& a) {
		std::string r = O::un(op, a);
		hdr(); std::printf("%s %s => %s\n", opname(op), a.hex().c_str(), r.c_str());
	}
	static void binary(const Big& a, const Big& b) {
		if (g_arith) { b2(ADD, a, b); b2(SUB, a, b); b2(MUL, a, b); }
		if (g_div && !b.iszero()) b2(DIV, a, b);
		if (g_order) b2(CMP, a, b);
	}
	static void unary(const Big& a) {
		if (g_arith) { u1(NEG, a); u1(INC, a); u1(DEC, a); }
	}
	static void shift(const Big& a, int k) {
		if (!g_shift) return;
		hdr(); std::printf("shl %s %d => %s\n", a.hex().c_str(), k, O::sh(SHL, a, k).c_str());
		hdr(); std::printf("shr %s %d => %s\n", a.hex().c_str(), k, O::sh(SHR, a, k).c_str());
	}
	static void exhaustive() {
		if constexpr (nbits <= 10) {
			const uint64_t N = 1ull << nbits;
			for (uint64_t a = 0; a < N; ++a) {
				Big A(a);
				unary(A);
				for (int k = -int(nbits) - 1; k <= int(nbits) + 1; ++k) shift(A, k);
				for (uint64_t b = 0; b < N; ++b) binary(A, Big(b));
			}
		}
	}
	// operands aimed at the rounding of the discarded rbits: products at exactly ±1/2 ulp and next to it
	// quotients next to a rounding tie with a LONG divisor: a * 2^rbits = q * B + r with r just below / exactly at / just above B / 2,
	// B up to nbits - 2 bits (so more than 64 bits in the wide configurations: the discarded fraction then differs from 1/2 by
	// less than 2^-64). Built in 128-bit arithmetic, hence only for nbits + rbits <= 126.
	static Big big128(unsigned __int128 x) { Big r; r.v[0] = (uint64_t)x; r.v[1] = (uint64_t)(x >> 64); return r; }
	static void near_tie_div(uv::Rng& g) {
		if constexpr (nbits >= 12 && rbits >= 1 && rbits <= 62 && nbits + rbits <= 126 && rbits + 4 <= nbits) {
			typedef unsigned __int128 u128;
			const unsigned total = nbits - 2 + rbits;                        // bits available for N = |a| * 2^rbits
			unsigned bB = g.below(3) ? nbits - 2 - (unsigned)g.below(4) : 2 + (unsigned)g.below(nbits - 3);   // mostly the longest divisors
			if (bB < 2) bB = 2;
			if (bB > nbits - 2) bB = nbits - 2;
			const unsigned bq = total - bB;                                  // bits available for the quotient
			u128 B, r, q;
			const int kind = (int)g.below(3);
			if (kind == 2 && bB >= rbits + 3) {                              // exact tie: B = 2^(rbits+1) * odd, r = B / 2
				const unsigned ob = bB - (rbits + 1);
				u128 odd = ((((u128)g.next() << 64) | g.next()) & ((((u128)1) << ob) - 1)) | 1 | (((u128)1) << (ob - 1));
				B = odd << (rbits + 1); r = B >> 1;
				q = (((u128)g.next() << 64) | g.next()) & ((((u128)1) << (bq > 1 ? bq - 1 : 1)) - 1);
			}
			else {                                                           // odd divisor: r = (B-1)/2 (below the tie) or (B+1)/2 (above)
				B = ((((u128)g.next() << 64) | g.next()) & ((((u128)1) << bB) - 1)) | 1 | (((u128)1) << (bB - 1));
				r = (B >> 1) + (kind == 1 ? 1 : 0);
				uint64_t b0 = (uint64_t)B, inv = b0;                         // inverse of B modulo 2^64 (Newton)
				for (int it = 0; it < 6; ++it) inv *= 2 - b0 * inv;
				const uint64_t M = (rbits == 64) ? ~0ull : ((1ull << rbits) - 1);
				uint64_t q0 = ((0 - (uint64_t)r) * inv) & M;                 // q0 * B + r == 0 (mod 2^rbits)
				if (bq <= rbits) { if (bq < 64 && (q0 >> bq)) return; q = q0; }
				else q = q0 + ((((u128)g.next() << 64 | g.next()) & ((((u128)1) << (bq - rbits)) - 1)) << rbits);
			}
			u128 N = q * B + r;
			if ((N & ((((u128)1) << rbits) - 1)) != 0) return;              // (cannot happen)
			Big a = big128(N >> rbits), b = big128(B);
			if (g.coin()) a = a.negated(nbits);
			if (g.coin()) b = b.negated(nbits);
			if (g_div) b2(DIV, a, b);
		}
	}
	static void random(uint64_t count) {
		uv::Rng g(uv::seed_from_env() * 1000003ull + nbits * 131ull + rbits * 7ull + sizeof(bt) + (arith ? 0 : 3));
		for (uint64_t i = 0; i < count; ++i) {
			if ((i & 3) == 1) near_tie_div(g);
			Big a = uv::operand(g, nbits), b;
			switch (g.below(6)) {
			case 0: case 1: case 2: b = uv::partner(g, a, nbits); break;
			case 3: { // b = ±2^k (+small): the product's discarded bits are a's low bits → ties when a ends in 10…0
				unsigned k = unsigned(g.below(nbits - 1)); b = Big::pow2(k).plus(int64_t(g.below(3)) - 1, nbits); if (g.coin()) b = b.negated(nbits);
				if (rbits > k) { unsigned t = rbits - k; if (t < nbits) { a.setbit(t - 1, true); for (unsigned j = 0; j + 1 < t; ++j) a.setbit(j, g.below(4) == 0); } }
				break; }
			case 4: { // near the extremes: overflow / clamp boundary
				b = uv::operand(g, nbits); a = (g.coin() ? Big::ones(nbits - 1) : Big::pow2(nbits - 1)).plus(int64_t(g.below(5)) - 2, nbits); break; }
			default: { // values around one (2^rbits) and small fractions
				unsigned one = rbits < nbits - 1 ? rbits : (nbits >= 2 ? nbits - 2 : 0);
				b = Big::pow2(one).plus(int64_t(g.below(9)) - 4, nbits); if (g.coin()) b = b.negated(nbits); break; }
			}
			if (g.coin()) std::swap(a, b);
			binary(a, b);
			if ((i & 63) == 0) {
				// unary minus exactly at and next to maxneg: Modulo wraps to maxneg, Saturate clamps to maxpos
				Big mn = Big::pow2(nbits - 1);
				unary(mn); unary(mn.plus(1, nbits)); unary(Big::ones(nbits - 1));
			}
			if ((i & 3) == 0) {
				unary(a);
				int k = int(g.below(2 * nbits + 3)) - int(nbits) - 1;
				shift(a, k);
			}
		}
	}
};

#ifndef UV_BT
#define UV_BT 0
#endif

#define ROW2(X,BT) X(2,0,BT) X(2,1,BT) X(2,2,BT)
#define ROW3(X,BT) X(3,0,BT) X(3,1,BT) X(3,2,BT) X(3,3,BT)
#define ROW4(X,BT) X(4,0,BT) X(4,1,BT) X(4,2,BT) X(4,3,BT) X(4,4,BT)
#define ROW5(X,BT) X(5,0,BT) X(5,1,BT) X(5,2,BT) X(5,3,BT) X(5,4,BT) X(5,5,BT)
#define ROW6(X,BT) X(6,0,BT) X(6,1,BT) X(6,2,BT) X(6,3,BT) X(6,4,BT) X(6,5,BT) X(6,6,BT)
#define ROW7(X,BT) X(7,0,BT) X(7,1,BT) X(7,2,BT) X(7,3,BT) X(7,4,BT) X(7,5,BT) X(7,6,BT) X(7,7,BT)
#define ROW8(X,BT) X(8,0,BT) X(8,1,BT) X(8,2,BT) X(8,3,BT) X(8,4,BT) X(8,5,BT) X(8,6,BT) X(8,7,BT) X(8,8,BT)
#define ROW9(X,BT) X(9,0,BT) X(9,4,BT) X(9,9,BT)
#define LARGE(X,BT) X(12,4,BT) X(16,8,BT) X(17,8,BT) X(24,12,BT) X(32,16,BT) X(33,16,BT) X(40,20,BT) X(64,32,BT) X(72,8,BT) X(80,8,BT) X(80,40,BT) X(96,24,BT) X(128,64,BT)
#define ALLCFG(X,BT) ROW2(X,BT) ROW3(X,BT) ROW4(X,BT) ROW5(X,BT) ROW6(X,BT) ROW7(X,BT) ROW8(X,BT) ROW9(X,BT) LARGE(X,BT)

int main(int argc, char** argv) {
	if (argc < 6) { std::fprintf(stderr, "usage: h_fixpnt exh|rnd nbits rbits M|S bt [count] [opset]\n"); return 2; }
	uv::Out out;
	uv::install_fpe_handler();
	std::string mode = argv[1];
	unsigned n = (unsigned)std::atoi(argv[2]), r = (unsigned)std::atoi(argv[3]);
	bool modulo = argv[4][0] == 'M';
	std::string bts = argv[5];
	uint64_t count = argc > 6 ? std::strtoull(argv[6], nullptr, 10) : 1000;
	std::string ops = argc > 7 ? argv[7] : "all";
	bool all = ops == "all";
	g_arith = all || ops == "arith";
	g_div = all || ops == "div";
	g_order = all || ops == "order";
	g_shift = ops == "shift";
#define X(N,R,BT) if (n == N && r == R && bts == BtName<BT>::s) { uv::silence_stderr(); \
		if (modulo) { if (mode == "exh") Run<N,R,Modulo,BT>::exhaustive(); else Run<N,R,Modulo,BT>::random(count); } \
		else { if (mode == "exh") Run<N,R,Saturate,BT>::exhaustive(); else Run<N,R,Saturate,BT>::random(count); } return 0; }
#if UV_BT == 0 || UV_BT == 8
	ALLCFG(X, uint8_t)
#endif
#if UV_BT == 0 || UV_BT == 16
	ALLCFG(X, uint16_t)
#endif
#if UV_BT == 0 || UV_BT == 32
	ALLCFG(X, uint32_t)
#endif
#undef X
	std::fprintf(stderr, "unsupported configuration %u %u %s\n", n, r, bts.c_str());
	return 2;
}
