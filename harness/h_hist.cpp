// h_hist.cpp — C06 history clause: equality must be value equality regardless of the operation history that produced an
// operand. Random straight-line programs (arithmetic, shifts, assignments) over integer<> and fixpnt<>; afterwards the
// result x is compared with a FRESH object y that holds the same nbits-bit pattern (built with setbits from x's bits).
// line: hist <family> <cfg…> <bt> <op tokens…> => <value bits hex> <x==y> <x!=y> <x<y> <x>y> <stale:0|1>
//   stale = 1 when the raw block storage of x has a bit at or above nbits (observed through block(i))
#include <universal/number/integer/integer.hpp>
#include <universal/number/fixpnt/fixpnt.hpp>
#include <string>
#include "proto.hpp"
using namespace sw::universal;

template<typename T, unsigned nbits, typename bt>
struct Prog {
	static uint64_t bits_of(const T& x) { uint64_t v = 0; for (unsigned i = 0; i < nbits && i < 64; ++i) if (x.test(i)) v |= (1ull << i); return v; }
	static void run(const char* fam, const std::string& cfg, const char* btname, uint64_t count) {
		uv::Rng g(uv::seed_from_env() * 6151ull + nbits * 97ull + sizeof(bt));
		for (uint64_t c = 0; c < count; ++c) {
			T x; x.setbits(g.next() & uv::mask(nbits));
			std::string ops;
			unsigned len = 1 + (unsigned)g.below(10);
			for (unsigned i = 0; i < len; ++i) {
				T r; uint64_t rb = g.next() & uv::mask(nbits);
				switch (g.below(6)) { case 0: rb = 1; break; case 1: rb = uv::mask(nbits); break; case 2: rb = 1ull << (nbits - 1); break; default: break; }
				r.setbits(rb);
				char buf[64];
				switch (g.below(7)) {
				case 0: x += r; std::snprintf(buf, sizeof buf, " add:%llx", (unsigned long long)rb); break;
				case 1: x -= r; std::snprintf(buf, sizeof buf, " sub:%llx", (unsigned long long)rb); break;
				case 2: x *= r; std::snprintf(buf, sizeof buf, " mul:%llx", (unsigned long long)rb); break;
				case 3: { int k = (int)g.below(nbits + 2); if (g.below(3) == 0) k = (int)(8 * sizeof(bt)) * (int)(1 + g.below(2)); x <<= k; std::snprintf(buf, sizeof buf, " shl:%d", k); break; }
				case 4: { int k = (int)g.below(nbits + 2); x >>= k; std::snprintf(buf, sizeof buf, " shr:%d", k); break; }
				case 5: x = -x; std::snprintf(buf, sizeof buf, " neg"); break;
				default: x = r; std::snprintf(buf, sizeof buf, " set:%llx", (unsigned long long)rb); break;
				}
				ops += buf;
			}
			uint64_t v = bits_of(x);
			T y; y.setbits(v);
			bool stale = false;
			constexpr unsigned bpb = 8 * sizeof(bt);
			constexpr unsigned nblocks = (nbits + bpb - 1) / bpb;
			if constexpr (nbits % bpb != 0) {
				static_assert(sizeof(T) == nblocks * sizeof(bt), "the number object is exactly its block array");
				bt raw[nblocks]; std::memcpy(raw, &x, sizeof raw);
				uint64_t top = (uint64_t)raw[nblocks - 1];
				stale = (top >> (nbits % bpb)) != 0;
			}
			std::printf("hist %s %s %s%s => %llx %d %d %d %d %d\n", fam, cfg.c_str(), btname, ops.c_str(), (unsigned long long)v,
				x == y ? 1 : 0, x != y ? 1 : 0, x < y ? 1 : 0, x > y ? 1 : 0, stale ? 1 : 0);
		}
	}
};

template<unsigned n, typename bt> void I(const char* b, uint64_t c) { Prog<integer<n, bt>, n, bt>::run("integer", std::to_string(n), b, c); }
template<unsigned n, unsigned r, typename bt> void F(const char* b, uint64_t c) { Prog<fixpnt<n, r, Modulo, bt>, n, bt>::run("fixpnt", std::to_string(n) + " " + std::to_string(r), b, c); }

int main(int argc, char** argv) {
	uv::Out out;
	uint64_t c = argc > 1 ? std::strtoull(argv[1], nullptr, 10) : 2000;
	I<5, uint8_t>("u8", c); I<8, uint8_t>("u8", c); I<11, uint8_t>("u8", c); I<12, uint8_t>("u8", c); I<12, uint16_t>("u16", c); I<16, uint16_t>("u16", c);
	I<20, uint16_t>("u16", c); I<24, uint8_t>("u8", c); I<33, uint32_t>("u32", c); I<40, uint32_t>("u32", c); I<40, uint8_t>("u8", c); I<52, uint16_t>("u16", c); I<64, uint32_t>("u32", c);
	F<5, 2, uint8_t>("u8", c); F<8, 4, uint8_t>("u8", c); F<12, 6, uint8_t>("u8", c); F<12, 6, uint16_t>("u16", c); F<20, 10, uint16_t>("u16", c);
	F<24, 12, uint8_t>("u8", c); F<33, 16, uint32_t>("u32", c); F<40, 20, uint32_t>("u32", c);
	return 0;
}
