// h_integer.cpp — transcript of integer<nbits, bt, IntegerNumber>.
// usage: h_integer exh <nbits> <bt> 0 <opset>        every operand (pair), every operator, every shift count
//        h_integer rnd <nbits> <bt> <count> <opset>  structured random operands (seed: VERIF_SEED)
// bt = u8|u16|u32|u64;  opset = all|arith|div|shift|logic|conv|nomul (= all but mul)
// compile with -DUV_BT=8|16|32|64 to build the instantiations of one block type only (parallel compilation).
#include "ops_integer.hpp"

using namespace uvint;
using uv::Big;

static bool g_arith, g_mul, g_div, g_shift, g_logic, g_conv;

template<unsigned nbits, typename bt>
struct Run {
	using O = IntOps<nbits, bt>;
	using T = Targets<nbits>;
	static void hdr() { std::printf("integer %u %s ", nbits, BtName<bt>::s); }
	static void b2(Op op, const Big& a, const Big& b) {
		std::string r = O::bin(op, a, b);
		hdr(); std::printf("%s %s %s => %s\n", opname(op), a.hex().c_str(), b.hex().c_str(), r.c_str());
	}
	static void u1(Op op, const Big& a) {
		std::string r = O::un(op, a);
		hdr(); std::printf("%s %s => %s\n", opname(op), a.hex().c_str(), r.c_str());
	}
	static void binary(const Big& a, const Big& b) {
		if (g_arith) { b2(ADD, a, b); b2(SUB, a, b); }
		if (g_mul) b2(MUL, a, b);
		if (g_div && !b.iszero()) { b2(DIV, a, b); b2(REM, a, b); }
		if (g_logic) { b2(AND, a, b); b2(OR, a, b); b2(XOR, a, b); b2(CMP, a, b); }
	}
	static void unary(const Big& a) {
		if (g_arith) { u1(NEG, a); u1(INC, a); u1(DEC, a); }
		if (g_logic) u1(NOT, a);
		if (g_conv) {
			u1(TOI64, a); u1(TOU64, a);
			hdr(); std::printf("cvt %u %s => %s\n", T::t0, a.hex().c_str(), O::template cvt<T::t0>(a).c_str());
			hdr(); std::printf("cvt %u %s => %s\n", T::t1, a.hex().c_str(), O::template cvt<T::t1>(a).c_str());
			hdr(); std::printf("cvt %u %s => %s\n", T::t2, a.hex().c_str(), O::template cvt<T::t2>(a).c_str());
			hdr(); std::printf("cvt %u %s => %s\n", T::t3, a.hex().c_str(), O::template cvt<T::t3>(a).c_str());
			hdr(); std::printf("cvt %u %s => %s\n", T::t4, a.hex().c_str(), O::template cvt<T::t4>(a).c_str());
		}
	}
	static void shift(const Big& a, int k) {
		if (!g_shift) return;
		hdr(); std::printf("shl %s %d => %s\n", a.hex().c_str(), k, O::sh(SHL, a, k).c_str());
		hdr(); std::printf("shr %s %d => %s\n", a.hex().c_str(), k, O::sh(SHR, a, k).c_str());
	}
	static void native(long long v) {
		if (!g_conv) return;
		hdr(); std::printf("fromi64 %lld => %s\n", v, O::fromi64(v).c_str());
		hdr(); std::printf("fromu64 %llx => %s\n", (unsigned long long)v, O::fromu64((unsigned long long)v).c_str());
	}
	static void exhaustive() {
		if constexpr (nbits <= 12) {
			const uint64_t N = 1ull << nbits;
			for (uint64_t a = 0; a < N; ++a) {
				Big A(a);
				unary(A);
				for (int k = -int(nbits) - 1; k <= int(nbits) + 1; ++k) shift(A, k);
				for (uint64_t b = 0; b < N; ++b) binary(A, Big(b));
			}
			for (long long v = -(long long)N - 2; v <= (long long)N + 2; ++v) native(v);
			const long long ext[] = { INT64_MIN, INT64_MIN + 1, INT64_MAX, INT64_MAX - 1, -(1ll << 31), (1ll << 31) - 1, 1ll << 31, 1ll << 32, -(1ll << 32) - 1, (1ll << 62), -(1ll << 62) };
			for (long long v : ext) native(v);
		}
	}
	static void random(uint64_t count) {
		uv::Rng g(uv::seed_from_env() * 1000003ull + nbits * 131ull + sizeof(bt));
		for (uint64_t i = 0; i < count; ++i) {
			Big a = uv::operand(g, nbits), b = uv::partner(g, a, nbits);
			binary(a, b);
			if ((i & 31) == 0) {
				// divisor -1 (the branch of the native fast path that negates instead of dividing), on the most negative value and around it
				Big m1 = Big::ones(nbits), mn = Big::pow2(nbits - 1);
				binary(mn.plus(int64_t(g.below(3)), nbits), m1);
				binary(a, m1);
				// carries that run across every limb boundary: 2^k - 1 plus / minus small values, -1 + 1
				binary(m1, Big(1 + g.below(3)));
				binary(Big::ones(unsigned(g.below(nbits + 1))), Big(1));
			}
			if ((i & 3) == 0) {
				unary(a);
				int k;
				switch (g.below(4)) {
				case 0: k = int(g.below(2 * nbits + 3)) - int(nbits) - 1; break;                       // whole range [-n-1, n+1]
				case 1: { int m = int(O::w) * int(g.below(nbits / O::w + 2)); k = m + int(g.below(3)) - 1; if (g.coin()) k = -k; break; } // around block multiples
				case 2: k = int(nbits) - int(g.below(3)) + 1; if (g.coin()) k = -k; break;               // n-1, n, n+1
				default: k = int(g.below(O::w < nbits ? O::w : nbits)) + 1; if (g.coin()) k = -k; break; // inside one block
				}
				if (k > int(nbits) + 1) k = int(nbits) + 1;
				if (k < -int(nbits) - 1) k = -int(nbits) - 1;
				shift(a, k);
				// native sources: sign-extended structured value of a random width
				unsigned wd = 1 + unsigned(g.below(64));
				Big s = uv::operand(g, wd);
				uint64_t raw = s.v[0];
				if (wd < 64 && s.bit(wd - 1) && g.coin()) raw |= ~uv::mask(wd);
				native((long long)raw);
			}
		}
	}
};

#ifndef UV_BT
#define UV_BT 0
#endif

#define SMALL(X, BT) X(2,BT) X(3,BT) X(4,BT) X(5,BT) X(6,BT) X(7,BT) X(8,BT) X(9,BT)
#define LARGE(X, BT) X(12,BT) X(15,BT) X(16,BT) X(17,BT) X(24,BT) X(31,BT) X(32,BT) X(33,BT) X(40,BT) X(63,BT) X(64,BT)
#define HUGE_(X, BT) X(65,BT) X(127,BT) X(128,BT) X(129,BT) X(192,BT) X(200,BT)

int main(int argc, char** argv) {
	if (argc < 4) { std::fprintf(stderr, "usage: h_integer exh|rnd nbits bt [count] [opset]\n"); return 2; }
	uv::Out out;
	uv::install_fpe_handler();
	std::string mode = argv[1];
	unsigned n = (unsigned)std::atoi(argv[2]);
	std::string bts = argv[3];
	uint64_t count = argc > 4 ? std::strtoull(argv[4], nullptr, 10) : 1000;
	std::string ops = argc > 5 ? argv[5] : "all";
	bool all = ops == "all";
	bool nomul = ops == "nomul" || ops == "nomulconv";  // nomulconv: additionally no size conversions (targets beyond the transcript width)
	g_arith = all || ops == "arith" || nomul;
	g_mul = all || ops == "arith";
	g_div = all || ops == "div" || nomul;
	g_shift = all || ops == "shift" || nomul;
	g_logic = all || ops == "logic" || nomul;
	g_conv = all || ops == "conv" || ops == "nomul";
#define X(N,BT) if (n == N && bts == BtName<BT>::s) { uv::silence_stderr(); if (mode == "exh") Run<N,BT>::exhaustive(); else Run<N,BT>::random(count); return 0; }
#if UV_BT == 0 || UV_BT == 8
	SMALL(X, uint8_t) LARGE(X, uint8_t) HUGE_(X, uint8_t)
#endif
#if UV_BT == 0 || UV_BT == 16
	SMALL(X, uint16_t) LARGE(X, uint16_t) HUGE_(X, uint16_t)
#endif
#if UV_BT == 0 || UV_BT == 32
	SMALL(X, uint32_t) LARGE(X, uint32_t) HUGE_(X, uint32_t)
#endif
#if UV_BT == 0 || UV_BT == 64
	SMALL(X, uint64_t) LARGE(X, uint64_t)
	// multi-block uint64_t: everything except operator*= (64x64-bit partial products in a 64-bit accumulator and `segment >>= 64`:
	// known finding integer.u64.multiblock_mul, undefined behaviour, never called here)
	g_mul = false;
	HUGE_(X, uint64_t)
#endif
#undef X
	std::fprintf(stderr, "unsupported configuration %u %s\n", n, bts.c_str());
	return 2;
}
