// h_lns.cpp — transcript of lns<nbits,rbits,bt,Behavior> (real headers from /repo/include).
// usage: h_lns exh <nbits> <rbits> <S|W> <count-ignored> <opset>     every operand pair
//        h_lns rnd <nbits> <rbits> <S|W> <count> <opset>             structured pairs (seed: VERIF_SEED)
// opset: all | muldiv | addsub | order
// The block type is fixed per translation unit by -DUV_BT=8|16|32 (default 8); it is printed on every line.
//
// line formats (all numbers hex; doubles as 16 hex digits of their bit pattern):
//   lns n r uW B mul a b => r                      B = S (Saturating) | W (Wrapping)
//   lns n r uW B div a b => r
//   lns n r uW B add a b da db sum lg mx mn hm => r
//   lns n r uW B sub a b da db dif lg mx mn hm => r
//        da = double(a), db = double(b) (std::pow inside to_ieee754), sum = da+db as computed here with the same
//        hardware addition, lg = std::log2(|sum|) (the value convert_ieee754 computes from the same argument),
//        mx = double(maxpos), mn = double(minpos), hm = double(lns<n+1,r+1>(minpos)) — the three thresholds
//        convert_ieee754 compares against. These are the libm-dependent intermediates the Lean model takes as inputs.
//   lns n r uW B neg a => r
//   lns n r uW B cmp a b => mask      bit0 ==, bit1 !=, bit2 <, bit3 <=, bit4 >, bit5 >=
#include <cmath>
#include <iostream>
#include <universal/number/lns/lns.hpp>
#include "proto.hpp"

using namespace sw::universal;

#ifndef UV_BT
#define UV_BT 8
#endif
#if UV_BT == 8
using BT = std::uint8_t;
#elif UV_BT == 16
using BT = std::uint16_t;
#else
using BT = std::uint32_t;
#endif
static const char* BTN = UV_BT == 8 ? "u8" : (UV_BT == 16 ? "u16" : "u32");

static bool g_muldiv = true, g_addsub = true, g_order = true;
typedef unsigned long long ull;

template<unsigned nbits, unsigned rbits, Behavior beh>
struct Run {
	using L = lns<nbits, rbits, BT, beh>;
	static constexpr char B = beh == Behavior::Saturating ? 'S' : 'W';
	static uint64_t enc(const L& p) {
		uint64_t v = 0;
		for (unsigned i = 0; i < nbits; ++i) if (p.at(i)) v |= (1ull << i);
		// bits outside nbits in the top block would be a canonical-form defect: expose them
		unsigned top = L::nrBlocks * L::bitsInBlock;
		for (unsigned i = nbits; i < top && i < 64; ++i) {
			if ((uint64_t(p.block(i / L::bitsInBlock)) >> (i % L::bitsInBlock)) & 1ull) v |= (1ull << i);
		}
		return v;
	}
	static L mk(uint64_t b) { L p; p.setbits(b); return p; }
	static void hdr(const char* op) { std::printf("lns %u %u %s %c %s", nbits, rbits, BTN, B, op); }

	static void binary(uint64_t a, uint64_t b) {
		L pa = mk(a), pb = mk(b);
		if (g_muldiv) {
			// equal encodings: ONE object on both sides (x op= x) — the result must not depend on aliasing
			if (a == b) { L t = pa; t *= t; L u = pa; u /= u;
				hdr("mul"); std::printf(" %llx %llx => %llx\n", (ull)a, (ull)b, (ull)enc(t));
				hdr("div"); std::printf(" %llx %llx => %llx\n", (ull)a, (ull)b, (ull)enc(u)); }
			else {
			hdr("mul"); std::printf(" %llx %llx => %llx\n", (ull)a, (ull)b, (ull)enc(pa * pb));
			hdr("div"); std::printf(" %llx %llx => %llx\n", (ull)a, (ull)b, (ull)enc(pa / pb)); }
		}
		if (g_addsub) {
			static const double mx = double(L(SpecificValue::maxpos));
			static const double mn = double(L(SpecificValue::minpos));
			static const double hm = double(lns<nbits + 1, rbits + 1, BT, beh>(SpecificValue::minpos));
			volatile double da = double(pa), db = double(pb);
			volatile double s = da + db, d = da - db;
			double ls = std::log2(std::fabs(s)), ld = std::log2(std::fabs(d));
			hdr("add"); std::printf(" %llx %llx %016llx %016llx %016llx %016llx %016llx %016llx %016llx => %llx\n", (ull)a, (ull)b,
				(ull)uv::double2bits(da), (ull)uv::double2bits(db), (ull)uv::double2bits(s), (ull)uv::double2bits(ls),
				(ull)uv::double2bits(mx), (ull)uv::double2bits(mn), (ull)uv::double2bits(hm), (ull)enc(pa + pb));
			hdr("sub"); std::printf(" %llx %llx %016llx %016llx %016llx %016llx %016llx %016llx %016llx => %llx\n", (ull)a, (ull)b,
				(ull)uv::double2bits(da), (ull)uv::double2bits(db), (ull)uv::double2bits(d), (ull)uv::double2bits(ld),
				(ull)uv::double2bits(mx), (ull)uv::double2bits(mn), (ull)uv::double2bits(hm), (ull)enc(pa - pb));
		}
		if (g_order) {
			unsigned m = (pa == pb ? 1u : 0u) | (pa != pb ? 2u : 0u) | (pa < pb ? 4u : 0u) | (pa <= pb ? 8u : 0u) | (pa > pb ? 16u : 0u) | (pa >= pb ? 32u : 0u);
			hdr("cmp"); std::printf(" %llx %llx => %x\n", (ull)a, (ull)b, m);
		}
	}
	static void unary(uint64_t a) {
		L pa = mk(a);
		if (g_muldiv || g_addsub) { hdr("neg"); std::printf(" %llx => %llx\n", (ull)a, (ull)enc(-pa)); }
	}
	static void exhaustive() {
		const uint64_t N = 1ull << nbits;
		for (uint64_t a = 0; a < N; ++a) {
			unary(a);
			for (uint64_t b = 0; b < N; ++b) binary(a, b);
		}
	}
	// structured operand: sign | exponent field, aimed at the clamp / wrap / special-pattern branches
	static uint64_t operand(uv::Rng& g) {
		const uint64_t M = uv::mask(nbits), EM = uv::mask(nbits - 1);
		const uint64_t special = 1ull << (nbits - 2);          // 0.10…0 zero, 1.10…0 NaN
		uint64_t e;
		switch (g.below(10)) {
		case 0: e = g.next() & EM; break;                                   // uniform
		case 1: e = (special - 1 - g.below(6)) & EM; break;                 // at / just below maxpos exponent
		case 2: e = (special + 1 + g.below(6)) & EM; break;                 // at / just above minpos exponent
		case 3: e = special; break;                                         // zero / NaN pattern
		case 4: e = (uint64_t)((int64_t)g.below(9) - 4) & EM; break;        // around exponent 0 (value 1)
		case 5: e = ((special >> 1) + (uint64_t)((int64_t)g.below(9) - 4)) & EM; break;        // around maxexp/2 : sums hit the clamp
		case 6: e = (special + (special >> 1) + (uint64_t)((int64_t)g.below(9) - 4)) & EM; break; // around minexp/2
		case 7: { unsigned z = (unsigned)g.below(nbits - 1); e = (g.next() & EM) & ~uv::mask(z); break; } // low bits cleared (integer-ish exponents)
		case 8: { unsigned z = (unsigned)g.below(nbits - 1); e = (g.next() & EM) | uv::mask(z); break; }  // low bits set
		default: e = (1ull << g.below(nbits - 1)) & EM; break;              // single bit
		}
		if (g.below(10) == 0) {
			// exactly one non-zero storage limb: per-block code paths (iszero/isnan for 1, 2, n blocks) are told apart by these
			constexpr unsigned bpb = L::bitsInBlock; constexpr unsigned nl = L::nrBlocks;
			unsigned k = (unsigned)g.below(nl); uint64_t limb = g.next() & uv::mask(bpb); if (!limb) limb = 1;
			return ((bpb * k >= 64) ? 0 : (limb << (bpb * k))) & M;
		}
		return ((g.coin() ? (1ull << (nbits - 1)) : 0) | e) & M;
	}
	static void random(uint64_t count) {
		uv::Rng g(uv::seed_from_env() * 1000003ull + nbits * 131ull + rbits * 7ull + (B == 'W' ? 3 : 0));   // independent of the block type: C12 compares the same operands across block types
		const uint64_t M = uv::mask(nbits), EM = uv::mask(nbits - 1), SB = 1ull << (nbits - 1);
		for (uint64_t i = 0; i < count; ++i) {
			uint64_t a = operand(g), b;
			switch (g.below(8)) {
			case 0: case 1: case 2: b = operand(g); break;
			case 3: b = (a & SB) ^ (g.coin() ? SB : 0) | ((a + (uint64_t)((int64_t)g.below(9) - 4)) & EM); break;            // nearly equal exponents (cancellation in sub)
			case 4: b = (g.coin() ? SB : 0) | (((~(a & EM) + 1) + (uint64_t)((int64_t)g.below(9) - 4)) & EM); break;         // exponent ≈ -exponent(a): product ≈ 1
			case 5: b = (g.coin() ? SB : 0) | ((((1ull << (nbits - 2)) - 1 - (a & EM)) + (uint64_t)((int64_t)g.below(9) - 4)) & EM); break; // a+b ≈ maxexp
			case 6: b = (g.coin() ? SB : 0) | ((((1ull << (nbits - 2)) + 1 - (a & EM)) + (uint64_t)((int64_t)g.below(9) - 4)) & EM); break; // a+b ≈ minexp
			default: b = (g.coin() ? SB : 0) | (((a & EM) + ((uint64_t)g.below(4) << rbits) + (uint64_t)((int64_t)g.below(5) - 2)) & EM); break; // exponent gap 0..3 octaves
			}
			b &= M;
			binary(a, b);
			if ((i & 7) == 0) unary(a);
		}
	}
};

// configurations: every (nbits, rbits) with 2 <= nbits <= 9, rbits < nbits, plus the sampled large ones
#define SMALL(X) \
	X(2,0) X(2,1) X(3,0) X(3,1) X(3,2) X(4,0) X(4,1) X(4,2) X(4,3) X(5,0) X(5,1) X(5,2) X(5,3) X(5,4) \
	X(6,0) X(6,1) X(6,2) X(6,3) X(6,4) X(6,5) X(7,0) X(7,1) X(7,2) X(7,3) X(7,4) X(7,5) X(7,6) \
	X(8,0) X(8,1) X(8,2) X(8,3) X(8,4) X(8,5) X(8,6) X(8,7) \
	X(9,0) X(9,1) X(9,2) X(9,3) X(9,4) X(9,5) X(9,6) X(9,7) X(9,8)
#define LARGE(X) X(16,8) X(17,8) X(24,12) X(25,12) X(32,16) X(12,4) X(16,5)

int main(int argc, char** argv) {
	if (argc < 5) { std::fprintf(stderr, "usage: h_lns exh|rnd nbits rbits S|W [count] [all|muldiv|addsub|order]\n"); return 2; }
	std::cout.rdbuf(nullptr); // the library may print diagnostics on std::cout; the transcript goes through stdio
	uv::Out out;
	std::string mode = argv[1];
	unsigned n = (unsigned)std::atoi(argv[2]), r = (unsigned)std::atoi(argv[3]);
	char beh = argv[4][0];
	uint64_t count = argc > 5 ? std::strtoull(argv[5], nullptr, 10) : 1000;
	std::string ops = argc > 6 ? argv[6] : "all";
	g_muldiv = ops == "all" || ops == "muldiv" || ops == "arith";
	g_addsub = ops == "all" || ops == "addsub" || ops == "arith";
	g_order = ops == "all" || ops == "order";
#define X(N,R) if (n == N && r == R) { \
		if (beh == 'S') { if (mode == "exh") Run<N,R,Behavior::Saturating>::exhaustive(); else Run<N,R,Behavior::Saturating>::random(count); } \
		else            { if (mode == "exh") Run<N,R,Behavior::Wrapping>::exhaustive();   else Run<N,R,Behavior::Wrapping>::random(count); } \
		return 0; }
	SMALL(X)
	LARGE(X)
#undef X
	std::fprintf(stderr, "unsupported configuration %u %u\n", n, r);
	return 2;
}
