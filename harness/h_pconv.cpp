// h_pconv.cpp — conversions between posit configurations (C15, posit clause).
// usage: h_pconv exh|rnd <count>
// line:  pconv <n1> <es1> <n2> <es2> <a> => <r> <back>     r = posit<n2,es2>(posit<n1,es1>(a)), back = posit<n1,es1>(r)
#include <universal/number/posit/posit.hpp>
#include "proto.hpp"
using namespace sw::universal;

static uint64_t g_count = 2000;
static bool g_exh = true;

template<unsigned n1, unsigned e1, unsigned n2, unsigned e2>
void one(uint64_t a) {
	posit<n1, e1> p; p.setbits(a);
	posit<n2, e2> q(p);
	posit<n1, e1> back(q);
	std::printf("pconv %u %u %u %u %llx => %llx %llx\n", n1, e1, n2, e2, (unsigned long long)a,
		(unsigned long long)(q.bits() & uv::mask(n2)), (unsigned long long)(back.bits() & uv::mask(n1)));
}
template<unsigned n1, unsigned e1, unsigned n2, unsigned e2>
void run() {
	if (n1 <= 12 && g_exh) { for (uint64_t a = 0; a < (1ull << n1); ++a) one<n1, e1, n2, e2>(a); return; }
	uv::Rng g(uv::seed_from_env() * 31337ull + n1 * 1009ull + e1 * 101ull + n2 * 11ull + e2);
	const uint64_t M = uv::mask(n1);
	for (uint64_t i = 0; i < g_count; ++i) {
		uint64_t a;
		switch (g.below(6)) {
		case 0: a = g.next() & M; break;
		case 1: a = (1 + g.below(4)) & M; break;
		case 2: a = ((M >> 1) - g.below(4)) & M; break;
		case 3: { a = g.next() & M; a |= uv::mask((unsigned)g.below(n1 - 1)); break; }
		case 4: { a = g.next() & M; a &= ~uv::mask((unsigned)g.below(n1 - 1)); break; }
		default: { // a value of the TARGET lattice or its midpoint, mapped back: exercises exact / tie cases
			posit<n2, e2> t; t.setbits(g.next() & uv::mask(n2)); posit<n1, e1> s(t); a = s.bits() & M; a = (a + g.below(3) - 1) & M; break; }
		}
		if (g.coin()) a = (~a + 1) & M;
		one<n1, e1, n2, e2>(a);
	}
}

#define SRC(X, N2, E2) X(4,0,N2,E2) X(5,1,N2,E2) X(6,2,N2,E2) X(8,0,N2,E2) X(8,2,N2,E2) X(12,1,N2,E2) X(16,1,N2,E2) X(32,2,N2,E2) X(64,3,N2,E2)
#define ALL(X) SRC(X,4,0) SRC(X,5,1) SRC(X,6,2) SRC(X,8,0) SRC(X,8,2) SRC(X,12,1) SRC(X,16,1) SRC(X,32,2) SRC(X,64,3)

int main(int argc, char** argv) {
	uv::Out out;
	if (argc > 1) g_exh = std::string(argv[1]) == "exh";
	if (argc > 2) g_count = std::strtoull(argv[2], nullptr, 10);
#define X(A,B,C,D) run<A,B,C,D>();
	ALL(X)
#undef X
	return 0;
}
