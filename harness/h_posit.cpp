// h_posit.cpp — transcript of the generic posit<nbits,es> implementation.
// usage: h_posit exh <nbits> <es>          every operand pair, every operator
//        h_posit rnd <nbits> <es> <count>  structured random pairs (seed: VERIF_SEED)
#include <universal/number/posit/posit.hpp>
#include "proto.hpp"

using namespace sw::universal;

static bool g_arith = true, g_order = true;

template<unsigned nbits, unsigned es>
struct Run {
	using P = posit<nbits, es>;
	static uint64_t enc(const P& p) { return p.bits() & uv::mask(nbits); }
	static P mk(uint64_t b) { P p; p.setbits(b); return p; }

	static void binary(uint64_t a, uint64_t b) {
		P pa = mk(a), pb = mk(b);
		if (g_arith) {
		std::printf("posit %u %u add %llx %llx => %llx\n", nbits, es, (unsigned long long)a, (unsigned long long)b, (unsigned long long)enc(pa + pb));
		std::printf("posit %u %u sub %llx %llx => %llx\n", nbits, es, (unsigned long long)a, (unsigned long long)b, (unsigned long long)enc(pa - pb));
		std::printf("posit %u %u mul %llx %llx => %llx\n", nbits, es, (unsigned long long)a, (unsigned long long)b, (unsigned long long)enc(pa * pb));
		std::printf("posit %u %u div %llx %llx => %llx\n", nbits, es, (unsigned long long)a, (unsigned long long)b, (unsigned long long)enc(pa / pb));
		}
		if (!g_order) return;
		unsigned m = (pa == pb ? 1u : 0u) | (pa != pb ? 2u : 0u) | (pa < pb ? 4u : 0u) | (pa <= pb ? 8u : 0u) | (pa > pb ? 16u : 0u) | (pa >= pb ? 32u : 0u);
		std::printf("posit %u %u cmp %llx %llx => %x\n", nbits, es, (unsigned long long)a, (unsigned long long)b, m);
	}
	static void unary(uint64_t a) {
		P pa = mk(a);
		if (g_arith) {
		std::printf("posit %u %u rec %llx => %llx\n", nbits, es, (unsigned long long)a, (unsigned long long)enc(pa.reciprocal()));
		std::printf("posit %u %u neg %llx => %llx\n", nbits, es, (unsigned long long)a, (unsigned long long)enc(-pa));
		std::printf("posit %u %u abs %llx => %llx\n", nbits, es, (unsigned long long)a, (unsigned long long)enc(pa.abs()));
		}
		if (!g_order) return;
		P pi = pa; ++pi;
		std::printf("posit %u %u inc %llx => %llx\n", nbits, es, (unsigned long long)a, (unsigned long long)enc(pi));
		P pd = pa; --pd;
		std::printf("posit %u %u dec %llx => %llx\n", nbits, es, (unsigned long long)a, (unsigned long long)enc(pd));
	}
	static void exhaustive() {
		const uint64_t N = 1ull << nbits;
		for (uint64_t a = 0; a < N; ++a) {
			unary(a);
			for (uint64_t b = 0; b < N; ++b) binary(a, b);
		}
	}
	// structured operand: aimed at the branches of decode/convert_/module_add
	static uint64_t operand(uv::Rng& g) {
		const uint64_t M = uv::mask(nbits);
		switch (g.below(8)) {
		case 0: return g.next() & M;                                           // uniform
		case 1: { // chosen regime length, random rest
			unsigned run = 1 + (unsigned)g.below(nbits - 1);
			uint64_t body = g.next() & uv::mask(nbits - 1);
			uint64_t reg = g.coin() ? (uv::mask(run) << (nbits - 1 - run)) : 0;   // run of ones / zeros
			uint64_t keep = (nbits - 1 - run) ? uv::mask(nbits - 1 - run) : 0;
			uint64_t term = run < nbits - 1 ? (reg ? 0 : (1ull << (nbits - 2 - run))) : 0;
			uint64_t rest = run + 1 < nbits - 1 ? (body & uv::mask(nbits - 2 - run)) : 0;
			uint64_t y = (reg & uv::mask(nbits - 1)) | term | rest; (void)keep;
			if (reg == 0 && run >= nbits - 1) y = 1;
			return (g.coin() ? y : ((~y + 1) & M));
		}
		case 2: { uint64_t d = g.below(4); return (g.coin() ? (1 + d) : ((M >> 1) - d)) & M; }   // near minpos / maxpos
		case 3: { uint64_t d = g.below(4); return (g.coin() ? (M - d) : ((M >> 1) + 2 + d)) & M; } // near -minpos / -maxpos
		case 4: { // power of two: fraction bits cleared
			uint64_t y = g.next() & uv::mask(nbits - 1); unsigned z = (unsigned)g.below(nbits); y &= ~uv::mask(z); if (!y) y = 1ull << (nbits - 2);
			return g.coin() ? y : ((~y + 1) & M);
		}
		case 5: { // all-ones tail
			uint64_t y = g.next() & uv::mask(nbits - 1); unsigned z = (unsigned)g.below(nbits - 1); y |= uv::mask(z);
			return g.coin() ? y : ((~y + 1) & M);
		}
		case 6: return g.coin() ? 0 : (1ull << (nbits - 1));                  // zero / NaR
		default: { // around one
			uint64_t one = 1ull << (nbits - 2); int64_t d = (int64_t)g.below(33) - 16;
			uint64_t y = (one + (uint64_t)d) & M; return g.coin() ? y : ((~y + 1) & M);
		}
		}
	}
	static void random(uint64_t count) {
		uv::Rng g(uv::seed_from_env() * 1000003ull + nbits * 131ull + es);
		const uint64_t M = uv::mask(nbits);
		for (uint64_t i = 0; i < count; ++i) {
			uint64_t a = operand(g), b;
			switch (g.below(6)) {
			case 0: case 1: b = operand(g); break;
			case 2: b = ((~a + 1) + (uint64_t)((int64_t)g.below(9) - 4)) & M; break;      // near cancellation
			case 3: b = (a + (uint64_t)((int64_t)g.below(9) - 4)) & M; break;             // near equal
			case 4: { // same magnitude structure, shifted regime: scale gap
				b = a ^ (g.next() & uv::mask((unsigned)g.below(nbits)));
				break;
			}
			default: b = (g.coin() ? a : ((~a + 1) & M)) ^ (1ull << g.below(nbits)); break; // one bit flipped
			}
			binary(a, b);
			if ((i & 3) == 0) unary(a);
		}
	}
};

#define CONFIGS(X) \
	X(2,0) X(3,0) X(3,1) X(4,0) X(4,1) X(4,2) X(5,0) X(5,1) X(5,2) X(5,3) \
	X(6,0) X(6,1) X(6,2) X(6,3) X(6,4) X(7,0) X(7,1) X(7,2) X(7,3) X(7,4) X(7,5) \
	X(8,0) X(8,1) X(8,2) X(8,3) X(8,4) X(8,5) \
	X(9,1) X(10,2) X(12,1) X(16,1) X(16,2) X(20,1) X(24,2) X(32,2) X(32,3) X(48,2) X(64,3) X(64,2)

int main(int argc, char** argv) {
	if (argc < 4) { std::fprintf(stderr, "usage: h_posit exh|rnd nbits es [count] [all|arith|order]\n"); return 2; }
	uv::Out out;
	std::string mode = argv[1];
	unsigned n = (unsigned)std::atoi(argv[2]), e = (unsigned)std::atoi(argv[3]);
	uint64_t count = argc > 4 ? std::strtoull(argv[4], nullptr, 10) : 1000;
	std::string ops = argc > 5 ? argv[5] : "all";
	g_arith = ops == "all" || ops == "arith";
	g_order = ops == "all" || ops == "order";
#define X(N,E) if (n == N && e == E) { if (mode == "exh") Run<N,E>::exhaustive(); else Run<N,E>::random(count); return 0; }
	CONFIGS(X)
#undef X
	std::fprintf(stderr, "unsupported configuration %u %u\n", n, e);
	return 2;
}
