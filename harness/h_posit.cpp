// h_posit.cpp — transcript of the generic posit<nbits,es> implementation.
// usage: h_posit exh <nbits> <es>          every operand pair, every operator
//        h_posit rnd <nbits> <es> <count>  structured random pairs (seed: VERIF_SEED)
#include <universal/number/posit/posit.hpp>
#include <cmath>
#include <vector>
#include <string>
#include <fstream>
#include <sstream>
#include "proto.hpp"

using namespace sw::universal;

static bool g_arith = true, g_order = true, g_conv = false, g_from = true, g_to = true;

template<unsigned nbits, unsigned es>
struct Run {
	using P = posit<nbits, es>;
	static uint64_t enc(const P& p) { return p.bits() & uv::mask(nbits); }
	static P mk(uint64_t b) { P p; p.setbits(b); return p; }

	static void binary(uint64_t a, uint64_t b) {
		UV_MARK("posit %u %u binary %llx %llx", nbits, es, (unsigned long long)a, (unsigned long long)b);
		P pa = mk(a), pb = mk(b);
		if (g_arith) {
		// equal encodings: ONE object on both sides (x op= x) — the result must not depend on aliasing
		auto self = [&](int op) { P t = pa; switch (op) { case 0: t += t; break; case 1: t -= t; break; case 2: t *= t; break; default: t /= t; } return t; };
		const bool same = (a == b);
		std::printf("posit %u %u add %llx %llx => %llx\n", nbits, es, (unsigned long long)a, (unsigned long long)b, (unsigned long long)enc(same ? self(0) : pa + pb));
		std::printf("posit %u %u sub %llx %llx => %llx\n", nbits, es, (unsigned long long)a, (unsigned long long)b, (unsigned long long)enc(same ? self(1) : pa - pb));
		std::printf("posit %u %u mul %llx %llx => %llx\n", nbits, es, (unsigned long long)a, (unsigned long long)b, (unsigned long long)enc(same ? self(2) : pa * pb));
		std::printf("posit %u %u div %llx %llx => %llx\n", nbits, es, (unsigned long long)a, (unsigned long long)b, (unsigned long long)enc(same ? self(3) : pa / pb));
		}
		if (!g_order) return;
		unsigned m = (pa == pb ? 1u : 0u) | (pa != pb ? 2u : 0u) | (pa < pb ? 4u : 0u) | (pa <= pb ? 8u : 0u) | (pa > pb ? 16u : 0u) | (pa >= pb ? 32u : 0u);
		std::printf("posit %u %u cmp %llx %llx => %x\n", nbits, es, (unsigned long long)a, (unsigned long long)b, m);
	}
	static void unary(uint64_t a) {
		UV_MARK("posit %u %u unary %llx", nbits, es, (unsigned long long)a);
		P pa = mk(a);
		if (g_arith) {
		std::printf("posit %u %u rec %llx => %llx\n", nbits, es, (unsigned long long)a, (unsigned long long)enc(pa.reciprocal()));
		std::printf("posit %u %u neg %llx => %llx\n", nbits, es, (unsigned long long)a, (unsigned long long)enc(-pa));
		std::printf("posit %u %u abs %llx => %llx\n", nbits, es, (unsigned long long)a, (unsigned long long)enc(pa.abs()));
		}
		if (!g_order) return;
		P pi = pa; ++pi;
		std::printf("posit %u %u inc %llx => %llx\n", nbits, es, (unsigned long long)a, (unsigned long long)enc(pi));
		P pd = pa; --pd;
		std::printf("posit %u %u dec %llx => %llx\n", nbits, es, (unsigned long long)a, (unsigned long long)enc(pd));
	}

	// ---- conversions (C03 / C04) ------------------------------------------------------------
	static void ld_parts(long double x, unsigned& se, uint64_t& mant) {
		unsigned char b[16] = {0}; std::memcpy(b, &x, 10);
		std::memcpy(&mant, b, 8); se = (unsigned)b[8] | ((unsigned)b[9] << 8);
	}
	static long double ld_make(unsigned se, uint64_t mant) {
		unsigned char b[16] = {0}; std::memcpy(b, &mant, 8); b[8] = se & 0xff; b[9] = (se >> 8) & 0xff;
		long double x; std::memcpy(&x, b, sizeof x); return x;
	}
	static void from_f64(double d) { if (!g_from) return; P p; p.setbits(0xa5a5a5a5a5a5a5a5ull & uv::mask(nbits)); p = d; std::printf("posit %u %u fromf64 %llx => %llx\n", nbits, es, (unsigned long long)uv::double2bits(d), (unsigned long long)enc(p)); }
	static void from_f32(float f) { if (!g_from) return; P p; p.setbits(0xa5a5a5a5a5a5a5a5ull & uv::mask(nbits)); p = f; std::printf("posit %u %u fromf32 %x => %llx\n", nbits, es, uv::float2bits(f), (unsigned long long)enc(p)); }
	static void from_ld(long double x) {
		if (!g_from) return;
		unsigned se; uint64_t m; ld_parts(x, se, m);
		if ((se & 0x7fff) != 0 && !(m >> 63)) return;        // unnormal patterns are not valid x87 values
		P p; p.setbits(0xa5a5a5a5a5a5a5a5ull & uv::mask(nbits)); p = x; std::printf("posit %u %u fromld %x %llx => %llx\n", nbits, es, se, (unsigned long long)m, (unsigned long long)enc(p));
	}
	static void from_int(uint64_t w) {
		if (!g_from) return;
		unsigned long long W = w;
		{ P p; p.setbits(0x5a5a5a5a5a5a5a5aull & uv::mask(nbits)); p = (signed char)W;        std::printf("posit %u %u fromi i8 %llx => %llx\n", nbits, es, W, (unsigned long long)enc(p)); }
		{ P p; p.setbits(0x5a5a5a5a5a5a5a5aull & uv::mask(nbits)); p = (short)W;              std::printf("posit %u %u fromi i16 %llx => %llx\n", nbits, es, W, (unsigned long long)enc(p)); }
		{ P p; p.setbits(0x5a5a5a5a5a5a5a5aull & uv::mask(nbits)); p = (int)W;                std::printf("posit %u %u fromi i32 %llx => %llx\n", nbits, es, W, (unsigned long long)enc(p)); }
		{ P p; p.setbits(0x5a5a5a5a5a5a5a5aull & uv::mask(nbits)); p = (long)W;               std::printf("posit %u %u fromi l64 %llx => %llx\n", nbits, es, W, (unsigned long long)enc(p)); }
		{ P p; p.setbits(0x5a5a5a5a5a5a5a5aull & uv::mask(nbits)); p = (long long)W;          std::printf("posit %u %u fromi i64 %llx => %llx\n", nbits, es, W, (unsigned long long)enc(p)); }
		{ P p; p.setbits(0x5a5a5a5a5a5a5a5aull & uv::mask(nbits)); p = (unsigned long)W;      std::printf("posit %u %u fromi ul64 %llx => %llx\n", nbits, es, W, (unsigned long long)enc(p)); }
		{ P p; p.setbits(0x5a5a5a5a5a5a5a5aull & uv::mask(nbits)); p = (unsigned short)W;     std::printf("posit %u %u fromi u16 %llx => %llx\n", nbits, es, W, (unsigned long long)enc(p)); }
		{ P p; p.setbits(0x5a5a5a5a5a5a5a5aull & uv::mask(nbits)); p = (unsigned int)W;       std::printf("posit %u %u fromi u32 %llx => %llx\n", nbits, es, W, (unsigned long long)enc(p)); }
		{ P p; p.setbits(0x5a5a5a5a5a5a5a5aull & uv::mask(nbits)); p = (unsigned long long)W; std::printf("posit %u %u fromi u64 %llx => %llx\n", nbits, es, W, (unsigned long long)enc(p)); }
	}
	static constexpr unsigned fbits_ = (es + 2 >= nbits ? 0 : nbits - 3 - es);
	static constexpr long maxscale_ = long(nbits - 2) * (1l << es);
	static void to_native(uint64_t a) {
		if (!g_to) return;
		P pa = mk(a);
		if constexpr (fbits_ <= 52 && maxscale_ <= 1022) {
			double d = double(pa); P back; back = d;
			std::printf("posit %u %u todbl %llx => %llx %llx\n", nbits, es, (unsigned long long)a, (unsigned long long)uv::double2bits(d), (unsigned long long)enc(back));
		}
		if constexpr (fbits_ <= 23 && maxscale_ <= 126) {
			float f = float(pa); P back; back = f;
			std::printf("posit %u %u tof32 %llx => %x %llx\n", nbits, es, (unsigned long long)a, uv::float2bits(f), (unsigned long long)enc(back));
		}
		if constexpr (fbits_ <= 63 && maxscale_ <= 16382) {
			long double x = (long double)pa; unsigned se; uint64_t m; ld_parts(x, se, m); P back; back = x;
			std::printf("posit %u %u told %llx => %x %llx %llx\n", nbits, es, (unsigned long long)a, se, (unsigned long long)m, (unsigned long long)enc(back));
		}
		if (!pa.isnar()) {
			// to_short() ... to_ulong_long() compute the integer from the decoded fields (to_integer<Int>, repair of D23): every
			// real-valued operand is defined behaviour (saturation outside the type's range, negative values wrap into unsigned
			// types); the driver judges the line only when the exact value fits the type
			std::printf("posit %u %u toi i16 %llx => %llx\n", nbits, es, (unsigned long long)a, (unsigned long long)(long long)short(pa));
			std::printf("posit %u %u toi u16 %llx => %llx\n", nbits, es, (unsigned long long)a, (unsigned long long)(unsigned short)(pa));
			std::printf("posit %u %u toi i32 %llx => %llx\n", nbits, es, (unsigned long long)a, (unsigned long long)(long long)int(pa));
			std::printf("posit %u %u toi i64 %llx => %llx\n", nbits, es, (unsigned long long)a, (unsigned long long)(long long)(pa));
			std::printf("posit %u %u toi u32 %llx => %llx\n", nbits, es, (unsigned long long)a, (unsigned long long)(unsigned int)(pa));
			std::printf("posit %u %u toi u64 %llx => %llx\n", nbits, es, (unsigned long long)a, (unsigned long long)(unsigned long long)(pa));
		}
	}
	// encodings at, just below and just above integers (k +- 1, 2 posit ulps; |v| < 1 next to +-1): the integer part must come from
	// the exact value — with more than 52 (23) fraction bits a detour through double (float) rounds across the integer
	static void near_integers(uv::Rng& g, unsigned randoms) {
		const uint64_t M = uv::mask(nbits);
		auto at = [&](long long k) {
			P p; p = k;
			for (int sgn = 0; sgn < 2; ++sgn) {
				uint64_t y = sgn ? ((~enc(p) + 1) & M) : enc(p);
				for (int d = -2; d <= 2; ++d) to_native((y + (uint64_t)(int64_t)d) & M);
			}
		};
		const long long ks[] = { 1, 2, 3, 4, 7, 8, 127, 128, 255, 256, 32767, 32768, 32769, 65535, 65536, 65537, (1ll << 24) - 1, 1ll << 24, (1ll << 24) + 1,
			(1ll << 31) - 2, (1ll << 31) - 1, 1ll << 31, (1ll << 31) + 1, (1ll << 32) - 2, (1ll << 32) - 1, 1ll << 32, (1ll << 32) + 1,
			(1ll << 53) - 1, 1ll << 53, (1ll << 53) + 1, 1ll << 62, (1ll << 62) + (1ll << 40), 0x7fffffffffffffffll };
		for (long long k : ks) at(k);
		for (unsigned i = 0; i < randoms; ++i) at((long long)((g.next() >> 1) >> g.below(63)) | 1ll);
	}
	// sources generated FROM the target lattice: the value itself, the (n+1)-bit midpoint above it, +-1 source ulp around both
	static void around(long double v) {
		double d = (double)v; float f = (float)v;
		for (int k = -1; k <= 1; ++k) {
			double dd = d; if (k) dd = std::nextafter(d, k > 0 ? HUGE_VAL : -HUGE_VAL); from_f64(dd);
			float ff = f; if (k) ff = std::nextafterf(f, k > 0 ? HUGE_VALF : -HUGE_VALF); from_f32(ff);
			long double ll = v; if (k) ll = std::nextafterl(v, k > 0 ? HUGE_VALL : -HUGE_VALL); from_ld(ll);
		}
		if (v > -9.2e18L && v < 9.2e18L) {
			long long i = (long long)v;
			for (long long k = -1; k <= 2; ++k) from_int((uint64_t)(i + k));
		} else if (v > 0 && v < 1.8e19L) {
			unsigned long long u = (unsigned long long)v;
			for (long long k = -1; k <= 1; ++k) from_int((uint64_t)(u + (unsigned long long)k));
		}
	}
	static void conv_target(uint64_t y) {
		UV_MARK("posit %u %u conv_target %llx", nbits, es, (unsigned long long)y);
		to_native(y);
		P py = mk(y);
		if (py.isnar()) return;
		around((long double)py);
		if constexpr (nbits < 64) {
			posit<nbits + 1, es> mid; mid.setbits(((y << 1) | 1) & uv::mask(nbits + 1));
			if (!mid.isnar()) around((long double)mid);
		}
	}
	static void conv_fixed(uv::Rng& g, unsigned randoms) {
		const uint64_t specials[] = { 0ull, 1ull, 0x7fffffffull, 0x80000000ull, 0xffffffffull, 0x100000000ull, (1ull << 53) - 1, 1ull << 53, (1ull << 53) + 1,
			0x7fffffffffffffffull, 0x8000000000000000ull, 0x8000000000000001ull, 0xffffffffffffffffull, 0xfffffffffffffffeull, (1ull << 63) + (1ull << 10),
			0x7ffffffffffffc00ull, 0x7ffffffffffffdffull, 0x7ffffffffffffe00ull, 0xfffffffffffff800ull, 0xfffffffffffffbffull, 0xfffffffffffffc00ull };
		for (uint64_t w : specials) { from_int(w); from_int(~w + 1); }
		const uint64_t dspecial[] = { 0x0ull, 0x8000000000000000ull, 0x1ull, 0x8000000000000001ull, 0x000fffffffffffffull, 0x0010000000000000ull, 0x7fefffffffffffffull,
			0xffefffffffffffffull, 0x7ff0000000000000ull, 0xfff0000000000000ull, 0x7ff8000000000000ull, 0x7ff0000000000001ull, 0xfff8000000000001ull };
		for (uint64_t b : dspecial) from_f64(uv::bits2double(b));
		const uint32_t fspecial[] = { 0u, 0x80000000u, 1u, 0x80000001u, 0x007fffffu, 0x00800000u, 0x7f7fffffu, 0xff7fffffu, 0x7f800000u, 0xff800000u, 0x7fc00000u, 0x7f800001u };
		for (uint32_t b : fspecial) from_f32(uv::bits2float(b));
		for (unsigned i = 0; i < randoms; ++i) {
			from_f64(uv::bits2double(g.next()));
			from_f32(uv::bits2float((uint32_t)g.next()));
			uint64_t w = g.next() >> g.below(64); from_int(g.coin() ? w : (~w + 1));
			// doubles inside the posit's dynamic range
			int e = (int)g.below(2 * (unsigned)maxscale_ + 9) - (int)maxscale_ - 4;
			if (e > -1070 && e < 1020) from_f64(std::ldexp(1.0 + (double)(g.next() >> 11) * 0x1p-53, e) * (g.coin() ? 1 : -1));
		}
	}
	static void conversions(uint64_t count, bool all) {
		uv::Rng g(uv::seed_from_env() * 2654435761ull + nbits * 131ull + es);
		if (all) { for (uint64_t y = 0; y < (1ull << (nbits < 63 ? nbits : 1)); ++y) conv_target(y); conv_fixed(g, 2000); }
		else { conv_fixed(g, (unsigned)(count / 8)); for (uint64_t i = 0; i < count * (g_from ? 1 : 20); ++i) conv_target(operand(g)); }
		if (g_to) near_integers(g, all ? 50 : (unsigned)(count / 4));
	}
	// re-execute the inputs of one recorded transcript line (replay / corpus): toks = op and operands
	static void replay(const std::vector<std::string>& t) {
		g_arith = g_order = true; g_from = g_to = true;
		const std::string& op = t[0];
		auto hx = [&](size_t i) { return i < t.size() ? std::strtoull(t[i].c_str(), nullptr, 16) : 0ull; };
		if (op == "add" || op == "sub" || op == "mul" || op == "div" || op == "cmp") { binary(hx(1), hx(2)); return; }
		if (op == "rec" || op == "neg" || op == "abs" || op == "inc" || op == "dec") { unary(hx(1)); return; }
		if (op == "limits") { limits(); return; }
		if (op == "fromf64") { from_f64(uv::bits2double(hx(1))); return; }
		if (op == "fromf32") { from_f32(uv::bits2float((uint32_t)hx(1))); return; }
		if (op == "fromld") { from_ld(ld_make((unsigned)hx(1), hx(2))); return; }
		if (op == "fromi") { from_int(hx(2)); return; }
		if (op == "todbl" || op == "tof32" || op == "told") { to_native(hx(1)); return; }
		if (op == "toi") { to_native(hx(2)); return; }
	}
	static void limits() {
		using L = std::numeric_limits<P>;
		std::printf("posit %u %u limits => %llx %llx %llx %llx %llx %llx %d %d %d\n", nbits, es,
			(unsigned long long)enc(L::min()), (unsigned long long)enc(L::max()), (unsigned long long)enc(L::lowest()),
			(unsigned long long)enc(L::epsilon()), (unsigned long long)enc(P(SpecificValue::minneg)), (unsigned long long)enc(P(SpecificValue::maxneg)),
			L::max_exponent, L::min_exponent, L::digits);
	}
	static void exhaustive() {
		if (g_conv) { conversions(0, true); return; }
		if (g_order) limits();
		const uint64_t N = 1ull << nbits;
		for (uint64_t a = 0; a < N; ++a) {
			unary(a);
			for (uint64_t b = 0; b < N; ++b) binary(a, b);
		}
	}
	// structured operand: aimed at the branches of decode/convert_/module_add
	static uint64_t operand(uv::Rng& g) {
		const uint64_t M = uv::mask(nbits);
		switch (g.below(8)) {
		case 0: return g.next() & M;                                           // uniform
		case 1: { // chosen regime length, random rest
			unsigned run = 1 + (unsigned)g.below(nbits - 1);
			uint64_t body = g.next() & uv::mask(nbits - 1);
			uint64_t reg = g.coin() ? (uv::mask(run) << (nbits - 1 - run)) : 0;   // run of ones / zeros
			uint64_t keep = (nbits - 1 - run) ? uv::mask(nbits - 1 - run) : 0;
			uint64_t term = run < nbits - 1 ? (reg ? 0 : (1ull << (nbits - 2 - run))) : 0;
			uint64_t rest = run + 1 < nbits - 1 ? (body & uv::mask(nbits - 2 - run)) : 0;
			uint64_t y = (reg & uv::mask(nbits - 1)) | term | rest; (void)keep;
			if (reg == 0 && run >= nbits - 1) y = 1;
			return (g.coin() ? y : ((~y + 1) & M));
		}
		case 2: { uint64_t d = g.below(4); return (g.coin() ? (1 + d) : ((M >> 1) - d)) & M; }   // near minpos / maxpos
		case 3: { uint64_t d = g.below(4); return (g.coin() ? (M - d) : ((M >> 1) + 2 + d)) & M; } // near -minpos / -maxpos
		case 4: { // power of two: fraction bits cleared
			uint64_t y = g.next() & uv::mask(nbits - 1); unsigned z = (unsigned)g.below(nbits); y &= ~uv::mask(z); if (!y) y = 1ull << (nbits - 2);
			return g.coin() ? y : ((~y + 1) & M);
		}
		case 5: { // all-ones tail
			uint64_t y = g.next() & uv::mask(nbits - 1); unsigned z = (unsigned)g.below(nbits - 1); y |= uv::mask(z);
			return g.coin() ? y : ((~y + 1) & M);
		}
		case 6: return g.coin() ? 0 : (1ull << (nbits - 1));                  // zero / NaR
		default: { // around one
			uint64_t one = 1ull << (nbits - 2); int64_t d = (int64_t)g.below(33) - 16;
			uint64_t y = (one + (uint64_t)d) & M; return g.coin() ? y : ((~y + 1) & M);
		}
		}
	}
	// operand pairs whose exact product / quotient / sum is an (n+1)-bit midpoint (a tie) or one ulp of an operand away from it
	static bool exact_ld(long double v, uint64_t& e) { P p; p.setbits(0x5a5a5a5a5a5a5a5aull & uv::mask(nbits)); p = v; if ((long double)p != v || p.isnar() || p.iszero()) return false; e = enc(p); return true; }
	static void ties(uv::Rng& g) {
		if constexpr (nbits < 64 && fbits_ + 2 <= 63 && maxscale_ <= 8000) {
			posit<nbits + 1, es> mid; mid.setbits(((g.next() << 1) | 1) & uv::mask(nbits + 1));
			if (mid.isnar()) return;
			long double m = (long double)mid;
			const uint64_t M = uv::mask(nbits);
			for (int tries = 0; tries < 8; ++tries) {
				int k = (int)g.below(2 * (unsigned)maxscale_ + 1) - (int)maxscale_;
				uint64_t a, b;
				long double pw = std::ldexp(1.0L, k);
				if (exact_ld(pw, a)) {
					if (exact_ld(m / pw, b)) { binary(a, b); binary(a, (b + 1) & M); binary(a, (b - 1) & M); binary(b, a); }        // a*b = midpoint
					if (exact_ld(m * pw, b)) { binary(b, a); binary((b + 1) & M, a); binary((b - 1) & M, a); }                      // b/a = midpoint
				}
			}
			// sum: U + half an ulp
			posit<nbits + 1, es> lo = mid; --lo;
			uint64_t U = (lo.bits() & uv::mask(nbits + 1)) >> 1, h;
			long double half = m - (long double)lo;
			if (exact_ld(half, h)) { binary(U, h); binary(h, U); binary((U + 1) & M, (~h + 1) & M); }
		}
	}
	static void random(uint64_t count) {
		if (g_conv) { conversions(count, false); return; }
		if (g_order) limits();
		uv::Rng g(uv::seed_from_env() * 1000003ull + nbits * 131ull + es);
		const uint64_t M = uv::mask(nbits);
		for (uint64_t i = 0; i < count; ++i) {
			uint64_t a = operand(g), b;
			switch (g.below(6)) {
			case 0: case 1: b = operand(g); break;
			case 2: b = ((~a + 1) + (uint64_t)((int64_t)g.below(9) - 4)) & M; break;      // near cancellation
			case 3: b = (a + (uint64_t)((int64_t)g.below(9) - 4)) & M; break;             // near equal
			case 4: { // same magnitude structure, shifted regime: scale gap
				b = a ^ (g.next() & uv::mask((unsigned)g.below(nbits)));
				break;
			}
			default: b = (g.coin() ? a : ((~a + 1) & M)) ^ (1ull << g.below(nbits)); break; // one bit flipped
			}
			binary(a, b);
			if ((i & 3) == 0) unary(a);
			if ((i & 7) == 0 && g_arith) ties(g);
		}
	}
};

#ifdef UV_SAN_SMALL
#define CONFIGS(X) X(2,0) X(3,0) X(3,1) X(4,0) X(4,2) X(5,1) X(5,3) X(6,2) X(6,4) X(7,0) X(7,5) X(8,0) X(8,2) X(8,5) X(16,1) X(32,2) X(64,3)
#else
#define CONFIGS(X) \
	X(2,0) X(3,0) X(3,1) X(4,0) X(4,1) X(4,2) X(5,0) X(5,1) X(5,2) X(5,3) \
	X(6,0) X(6,1) X(6,2) X(6,3) X(6,4) X(7,0) X(7,1) X(7,2) X(7,3) X(7,4) X(7,5) \
	X(8,0) X(8,1) X(8,2) X(8,3) X(8,4) X(8,5) \
	X(9,1) X(10,2) X(12,1) X(16,1) X(16,2) X(20,1) X(24,2) X(32,2) X(32,3) X(48,2) X(64,3) X(64,2)
#endif

static int replay_file(const char* path) {
	std::ifstream in(path); std::string line;
	while (std::getline(in, line)) {
		if (line.empty() || line[0] == '#') continue;
		std::istringstream ss(line); std::vector<std::string> t; std::string w;
		while (ss >> w) { if (w == "=>") break; t.push_back(w); }
		if (t.size() < 4 || t[0] != "posit") continue;
		unsigned n = (unsigned)std::atoi(t[1].c_str()), e = (unsigned)std::atoi(t[2].c_str());
		std::vector<std::string> rest(t.begin() + 3, t.end());
#define X(N,E) if (n == N && e == E) { Run<N,E>::replay(rest); continue; }
		CONFIGS(X)
#undef X
	}
	return 0;
}

int main(int argc, char** argv) {
	if (argc == 3 && std::string(argv[1]) == "file") { uv::Out out; return replay_file(argv[2]); }
	if (argc < 4) { std::fprintf(stderr, "usage: h_posit exh|rnd nbits es [count] [all|arith|order]\n"); return 2; }
	uv::Out out;
	std::string mode = argv[1];
	unsigned n = (unsigned)std::atoi(argv[2]), e = (unsigned)std::atoi(argv[3]);
	uint64_t count = argc > 4 ? std::strtoull(argv[4], nullptr, 10) : 1000;
	std::string ops = argc > 5 ? argv[5] : "all";
	g_arith = ops == "all" || ops == "arith";
	g_order = ops == "all" || ops == "order";
	g_conv = ops == "conv" || ops == "from" || ops == "to";
	g_from = ops != "to"; g_to = ops != "from";
#define X(N,E) if (n == N && e == E) { if (mode == "exh") Run<N,E>::exhaustive(); else Run<N,E>::random(count); return 0; }
	CONFIGS(X)
#undef X
	std::fprintf(stderr, "unsupported configuration %u %u\n", n, e);
	return 2;
}
