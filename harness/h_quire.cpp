// h_quire.cpp — histories of quire accumulations (C05).
// usage: h_quire hist|part|fdp <nbits> <es> <capacity> <count>
// line:  quire n es cap hist <ops…> => <s:mag:r per step> [throw:<name>]
//        quire n es cap part <ops…> | <ops…> => s:mag:r
//        quire n es 20  fdp a,b a,b … => r
#include <universal/number/posit/posit.hpp>
#include <universal/number/posit/fdp.hpp>
#include <vector>
#include <string>
#include "proto.hpp"

using namespace sw::universal;

template<unsigned nbits, unsigned es, unsigned capacity>
struct Run {
	using P = posit<nbits, es>;
	using Q = quire<nbits, es, capacity>;
	static constexpr unsigned tot = Q::qbits + 1;
	static uint64_t enc(const P& p) { return p.bits() & uv::mask(nbits); }
	static P mk(uint64_t b) { P p; p.setbits(b); return p; }

	static std::string state(const Q& q) {
		std::string s = q.sign() ? "1:" : "0:";
		// hex of the magnitude bits [tot-1 .. 0]
		std::string h;
		bool started = false;
		int top = ((int(tot) + 3) / 4) * 4 - 1;
		for (int i = top; i >= 0; i -= 4) {
			unsigned d = 0;
			for (int j = 0; j < 4; ++j) { int idx = i - j; d = (d << 1) | ((idx < int(tot) && q[idx]) ? 1u : 0u); }
			if (d || started || i < 4) { h.push_back("0123456789abcdef"[d]); started = true; }
		}
		P r; convert(q.to_value(), r);
		char buf[32]; std::snprintf(buf, sizeof buf, ":%llx", (unsigned long long)enc(r));
		return s + h + buf;
	}

	struct Op { int kind; uint64_t a, b; }; // 0 +p 1 -p 2 +m 3 -m
	static std::string opstr(const Op& o) {
		char buf[64];
		switch (o.kind) {
		case 0: std::snprintf(buf, sizeof buf, "+p:%llx", (unsigned long long)o.a); break;
		case 1: std::snprintf(buf, sizeof buf, "-p:%llx", (unsigned long long)o.a); break;
		case 2: std::snprintf(buf, sizeof buf, "+m:%llx,%llx", (unsigned long long)o.a, (unsigned long long)o.b); break;
		default: std::snprintf(buf, sizeof buf, "-m:%llx,%llx", (unsigned long long)o.a, (unsigned long long)o.b); break;
		}
		return buf;
	}
	static void apply(Q& q, const Op& o) {
		switch (o.kind) {
		case 0: q += mk(o.a); break;
		case 1: q -= mk(o.a); break;
		case 2: q += quire_mul(mk(o.a), mk(o.b)); break;
		default: q -= quire_mul(mk(o.a), mk(o.b)); break;
		}
	}
	static uint64_t operand(uv::Rng& g) {
		const uint64_t M = uv::mask(nbits), one = 1ull << (nbits - 2);
		uint64_t y;
		switch (g.below(8)) {
		case 0: y = g.next() & uv::mask(nbits - 1); break;
		case 1: y = 1 + g.below(3); break;                               // minpos neighbourhood
		case 2: y = (M >> 1) - g.below(3); break;                        // maxpos neighbourhood
		case 3: y = one + (uint64_t)((int64_t)g.below(9) - 4); break;     // around 1: the lower/upper segment boundary
		case 4: { y = g.next() & uv::mask(nbits - 1); y |= uv::mask((unsigned)g.below(nbits - 1)); break; } // all-ones tails (carry chains)
		case 5: { y = g.next() & uv::mask(nbits - 1); y &= ~uv::mask((unsigned)g.below(nbits - 1)); break; } // powers of two
		case 6: y = one >> g.below(nbits - 2); break;
		default: y = one | (g.next() & uv::mask(nbits - 2)); break;      // [1, useed)
		}
		y &= uv::mask(nbits - 1);
		if (!y) y = one;
		if (g.below(40) == 0) return 0;                                    // zero operand now and then
		return g.coin() ? y : ((~y + 1) & M);
	}
	static std::vector<Op> gen_history(uv::Rng& g, unsigned len) {
		std::vector<Op> h;
		while (h.size() < len) {
			Op o; o.kind = (int)g.below(4); o.a = operand(g); o.b = operand(g);
			unsigned pat = (unsigned)g.below(10);
			if (pat == 0 && !h.empty()) {                 // cancel the previous operation exactly
				o = h.back(); o.kind ^= 1; h.push_back(o);
			} else if (pat == 1 && !h.empty()) {          // nearly cancel: previous operand ± 1 ulp, opposite sign
				o = h.back(); o.kind ^= 1; o.a = (o.a + (g.coin() ? 1 : uv::mask(nbits))) & uv::mask(nbits);
				if (o.a == (1ull << (nbits - 1))) o.a = 1;
				h.push_back(o);
			} else if (pat == 2) {                        // burst of equal large terms: carries into the capacity segment
				o.kind = 2 + (int)g.below(2); o.a = o.b = (uv::mask(nbits) >> 1) - g.below(2);
				unsigned reps = 1 + (unsigned)g.below(4);
				for (unsigned i = 0; i < reps && h.size() < len; ++i) h.push_back(o);
			} else if (pat == 3) {                        // burst of smallest terms
				o.kind = 2 + (int)g.below(2); o.a = 1 + g.below(2); o.b = 1 + g.below(2);
				h.push_back(o);
			} else h.push_back(o);
		}
		return h;
	}
	static void hist(uint64_t count) {
		uv::Rng g(uv::seed_from_env() * 7919ull + nbits * 131ull + es * 17ull + capacity);
		for (uint64_t c = 0; c < count; ++c) {
			unsigned len = 1 + (unsigned)g.below(c % 16 == 0 ? 200 : 24);
			auto h = gen_history(g, len);
			std::string line = "quire " + std::to_string(nbits) + " " + std::to_string(es) + " " + std::to_string(capacity) + " hist";
			for (auto& o : h) line += " " + opstr(o);
			line += " =>";
			Q q;
			for (auto& o : h) {
				UV_MARK("quire %u %u %u %s", nbits, es, capacity, line.c_str());
				try { apply(q, o); }
				catch (const operand_too_large_for_quire&) { line += " throw:too_large"; break; }
				catch (const operand_too_small_for_quire&) { line += " throw:too_small"; break; }
				catch (const posit_operand_is_nar&) { line += " throw:nar"; break; }
				catch (...) { line += " throw:other"; break; }
				line += " " + state(q);
			}
			std::puts(line.c_str());
		}
	}
	static void part(uint64_t count) {
		uv::Rng g(uv::seed_from_env() * 104729ull + nbits * 131ull + es * 17ull + capacity);
		for (uint64_t c = 0; c < count; ++c) {
			unsigned len = 2 + (unsigned)g.below(30);
			auto h = gen_history(g, len);
			unsigned cut = (unsigned)g.below(len + 1);
			std::string line = "quire " + std::to_string(nbits) + " " + std::to_string(es) + " " + std::to_string(capacity) + " part";
			for (unsigned i = 0; i < cut; ++i) line += " " + opstr(h[i]);
			line += " |";
			for (unsigned i = cut; i < len; ++i) line += " " + opstr(h[i]);
			line += " =>";
			try {
				Q q1, q2;
				for (unsigned i = 0; i < cut; ++i) apply(q1, h[i]);
				for (unsigned i = cut; i < len; ++i) apply(q2, h[i]);
				q1 += q2;
				line += " " + state(q1);
			}
			catch (const operand_too_large_for_quire&) { line += " throw:too_large"; }
			catch (const operand_too_small_for_quire&) { line += " throw:too_small"; }
			catch (const posit_operand_is_nar&) { line += " throw:nar"; }
			catch (...) { line += " throw:other"; }
			std::puts(line.c_str());
		}
	}
	static void dot(uint64_t count) {
		uv::Rng g(uv::seed_from_env() * 15485863ull + nbits * 131ull + es);
		for (uint64_t c = 0; c < count; ++c) {
			unsigned len = 1 + (unsigned)g.below(16);
			std::vector<P> x(len), y(len);
			std::string line = "quire " + std::to_string(nbits) + " " + std::to_string(es) + " 20 fdp";
			for (unsigned i = 0; i < len; ++i) {
				uint64_t a = operand(g), b = operand(g);
				if (i > 0 && g.below(4) == 0) { a = enc(x[i - 1]); b = (~enc(y[i - 1]) + 1) & uv::mask(nbits); } // cancelling pair
				x[i] = mk(a); y[i] = mk(b);
				char buf[48]; std::snprintf(buf, sizeof buf, " %llx,%llx", (unsigned long long)a, (unsigned long long)b); line += buf;
			}
			line += " =>";
			try { P r = fdp(x, y); char buf[32]; std::snprintf(buf, sizeof buf, " %llx", (unsigned long long)enc(r)); line += buf; }
			catch (const posit_operand_is_nar&) { line += " throw:nar"; }
			catch (...) { line += " throw:other"; }
			std::puts(line.c_str());
		}
	}
};

#define CONFIGS(X) X(4,0,2) X(5,1,3) X(6,1,3) X(6,2,2) X(8,0,4) X(8,1,6) X(8,2,4) X(8,1,30) X(8,0,20) X(8,1,20) X(8,2,20) \
	X(12,1,5) X(16,1,10) X(16,1,20) X(16,2,30) X(16,2,20) X(32,2,30) X(32,2,20)

int main(int argc, char** argv) {
	if (argc < 6) { std::fprintf(stderr, "usage: h_quire hist|part|fdp nbits es capacity count\n"); return 2; }
	uv::Out out;
	std::string mode = argv[1];
	unsigned n = (unsigned)std::atoi(argv[2]), e = (unsigned)std::atoi(argv[3]), c = (unsigned)std::atoi(argv[4]);
	uint64_t count = std::strtoull(argv[5], nullptr, 10);
#define X(N,E,C) if (n == N && e == E && c == C) { if (mode == "hist") Run<N,E,C>::hist(count); else if (mode == "part") Run<N,E,C>::part(count); else Run<N,E,C>::dot(count); return 0; }
	CONFIGS(X)
#undef X
	std::fprintf(stderr, "unsupported configuration\n");
	return 2;
}
