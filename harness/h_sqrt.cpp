// h_sqrt.cpp — transcript of the sqrt routines for property C17.
// Compiled twice: plain ("posit"), and with -DPOSIT_FAST_SPECIALIZATION=1 ("positfast": posit lines only).
//   h_sqrt posit   <nbits> <es> exh|rnd [count]     sqrt of every non-negative encoding (+ the negative ones once) / samples
//   h_sqrt fixpnt  <nbits> <rbits> exh|rnd [count]
//   h_sqrt integer <nbits> 0 exh|rnd [count]
// lines: sqrt posit|positfast n es a => r            sqrt positpair|positfastpair n es a b => ra rb   (b = a+1)
//        sqrt fixpnt n rb a => r                     sqrt fixpntpair n rb a b => ra rb
//        sqrt integer n a => r
#include <universal/number/posit/posit.hpp>
#ifndef POSIT_FAST_SPECIALIZATION
#include <universal/number/fixpnt/fixpnt.hpp>
#include <universal/number/integer/integer.hpp>
#endif
#include "proto.hpp"

using namespace sw::universal;
typedef unsigned long long ull;

#ifdef POSIT_FAST_SPECIALIZATION
static const char* PK = "positfast";
#elif defined(POSIT_NATIVE_SQRT) && POSIT_NATIVE_SQRT
static const char* PK = "positnative";   // the non-default build option: Newton iteration `fast_sqrt` instead of the double detour
#else
static const char* PK = "posit";
#endif

template<class T> static uint64_t rawbits(const T& v, unsigned n) {
	uint64_t r = 0;
	for (unsigned i = 0; i < n && i < 64; ++i) if (v.at(i)) r |= (1ull << i);
	return r;
}

template<unsigned nbits, unsigned es>
struct PRun {
	using P = posit<nbits, es>;
	static constexpr uint64_t M = (nbits >= 64) ? ~0ull : ((1ull << nbits) - 1);
	static uint64_t enc(const P& p) {
		if constexpr (requires { p.bits(); }) return (uint64_t)p.bits() & M;
		else return (uint64_t)p.encoding() & M;
	}
	static uint64_t root(uint64_t a) { P p; p.setbits(a); return enc(sqrt(p)); }
	static void one(uint64_t a) { std::printf("sqrt %s %u %u %llx => %llx\n", PK, nbits, es, (ull)a, (ull)root(a)); }
	static void pair(uint64_t a) {   // a and a+1 both non-negative, non-NaR
		std::printf("sqrt %spair %u %u %llx %llx => %llx %llx\n", PK, nbits, es, (ull)a, (ull)(a + 1), (ull)root(a), (ull)root(a + 1));
	}
	static void run(const std::string& mode, uint64_t count) {
		const uint64_t NARE = 1ull << (nbits - 1);
		if (mode == "exh") {
			for (uint64_t a = 0; a < NARE; ++a) { one(a); if (a + 1 < NARE) pair(a); }
			// negative arguments and NaR: every one for small sizes, a sample otherwise
			if (nbits <= 10) for (uint64_t a = NARE; a <= M; ++a) one(a);
			else { one(NARE); one(NARE + 1); one(M); one(M - 1); one(NARE + (NARE >> 1)); }
			return;
		}
		uv::Rng g(uv::seed_from_env() * 1000003ull + nbits * 131ull + es);
		one(0); one(1); one(NARE - 1); one(NARE - 2); one(NARE); one(NARE + 1); one(M); one(NARE >> 1); one((NARE >> 1) + 1); one((NARE >> 1) - 1);
		for (uint64_t i = 0; i < count; ++i) {
			uint64_t a;
			switch (g.below(6)) {
			case 0: a = g.next() & (NARE - 1); break;                                              // uniform non-negative
			case 1: { unsigned z = (unsigned)g.below(nbits - 1); a = (g.next() & (NARE - 1)) & ~uv::mask(z); break; }   // few fraction bits (perfect squares live here)
			case 2: { unsigned z = (unsigned)g.below(nbits - 1); a = (g.next() & (NARE - 1)) | uv::mask(z); break; }
			case 3: { int64_t d = (int64_t)g.below(65) - 32; a = ((NARE >> 1) + (uint64_t)d) & (NARE - 1); break; }       // around one
			case 4: { unsigned run = 1 + (unsigned)g.below(nbits - 2); a = g.coin() ? ((uv::mask(run) << (nbits - 1 - run)) | (g.next() & uv::mask(nbits - 1 - run))) : ((g.next() & uv::mask(nbits - 1 - run)) | 1); a &= (NARE - 1); break; }
			default: a = g.coin() ? g.below(64) : (NARE - 1 - g.below(64)); break;              // near minpos / maxpos
			}
			one(a);
			if (a + 1 < NARE && (i & 1)) pair(a);
			if ((i & 63) == 0) one((~a + 1) & M);                                                    // a negative argument now and then
		}
	}
};

#ifndef POSIT_FAST_SPECIALIZATION
template<unsigned nbits, unsigned rbits, typename bt>
struct FRun {
	using F = fixpnt<nbits, rbits, Modulo, bt>;
	static uint64_t root(uint64_t a) { F f; f.setbits(a); return rawbits(sqrt(f), nbits); }
	static void one(uint64_t a) {
		try { std::printf("sqrt fixpnt %u %u %llx => %llx\n", nbits, rbits, (ull)a, (ull)root(a)); }
		catch (...) { std::printf("sqrt fixpnt %u %u %llx => throw\n", nbits, rbits, (ull)a); }
	}
	static void pair(uint64_t a) { std::printf("sqrt fixpntpair %u %u %llx %llx => %llx %llx\n", nbits, rbits, (ull)a, (ull)(a + 1), (ull)root(a), (ull)root(a + 1)); }
	static void run(const std::string& mode, uint64_t count) {
		const uint64_t H = 1ull << (nbits - 1), M = uv::mask(nbits);
		if (mode == "exh") {
			for (uint64_t a = 0; a < H; ++a) { one(a); if (a + 1 < H) pair(a); }
			one(H); one(M); one(H + 1); one(M - 1);
			return;
		}
		uv::Rng g(uv::seed_from_env() * 1000003ull + nbits * 131ull + rbits);
		one(0); one(1); one(2); one(H - 1); one(H - 2); one(1ull << rbits); one((1ull << rbits) + 1); one((1ull << rbits) - 1); one(H); one(M);
		for (uint64_t i = 0; i < count; ++i) {
			uint64_t a;
			switch (g.below(5)) {
			case 0: a = g.next() & (H - 1); break;
			case 1: a = (g.next() & (H - 1)) >> g.below(nbits - 1); break;                      // small magnitudes
			case 2: { uint64_t r = g.next() & uv::mask((nbits - 1) / 2 + 1); a = (r * r) >> (g.coin() ? 0 : 1); a &= (H - 1); break; }   // squares of lattice points (and halves)
			case 3: { uint64_t r = g.next() & uv::mask((nbits - 1 + rbits) / 2); a = ((r * r) >> rbits) & (H - 1); break; }          // exact squares in value
			default: a = g.coin() ? g.below(64) : (H - 1 - g.below(64)); break;
			}
			one(a);
			if (a + 1 < H && (i & 1)) pair(a);
		}
	}
};

template<unsigned nbits, typename bt>
struct IRun {
	using I = integer<nbits, bt, IntegerNumberType::IntegerNumber>;
	static void one(uint64_t a) { I v; v.setbits(a); std::printf("sqrt integer %u %llx => %llx\n", nbits, (ull)a, (ull)rawbits(sqrt(v), nbits)); }
	static void run(const std::string& mode, uint64_t count) {
		const uint64_t H = 1ull << (nbits - 1), M = uv::mask(nbits);
		if (mode == "exh") {
			for (uint64_t a = 0; a < H; ++a) one(a);
			one(H); one(M); one(H + 1);
			return;
		}
		uv::Rng g(uv::seed_from_env() * 1000003ull + nbits * 131ull);
		one(0); one(1); one(2); one(3); one(4); one(H - 1); one(H - 2); one(H); one(M);
		for (uint64_t i = 0; i < count; ++i) {
			uint64_t a;
			switch (g.below(4)) {
			case 0: a = g.next() & (H - 1); break;
			case 1: a = (g.next() & (H - 1)) >> g.below(nbits - 1); break;
			case 2: { uint64_t r = g.next() & uv::mask((nbits - 1) / 2); int64_t d = (int64_t)g.below(5) - 2; a = (r * r + (uint64_t)d) & (H - 1); break; }   // r² − 2 … r² + 2
			default: a = g.coin() ? g.below(64) : (H - 1 - g.below(64)); break;
			}
			one(a);
		}
	}
};
#endif

#ifdef POSIT_FAST_SPECIALIZATION
#define PCONFIGS(X) X(2,0) X(3,0) X(3,1) X(4,0) X(8,0) X(8,1) X(8,2) X(16,1) X(16,2) X(32,2)
#else
#define PCONFIGS(X) \
	X(2,0) X(3,0) X(3,1) X(4,0) X(4,1) X(4,2) X(5,0) X(5,1) X(5,2) X(5,3) \
	X(6,0) X(6,1) X(6,2) X(6,3) X(6,4) X(7,0) X(7,1) X(7,2) X(7,3) X(7,4) X(7,5) \
	X(8,0) X(8,1) X(8,2) X(8,3) X(8,4) X(8,5) \
	X(9,1) X(10,0) X(10,2) X(12,0) X(12,1) X(14,0) X(14,1) X(16,0) X(16,1) X(16,2) X(16,3) X(20,1) X(24,2) X(32,2) X(32,3)
#endif

int main(int argc, char** argv) {
	if (argc < 5) { std::fprintf(stderr, "usage: h_sqrt posit|fixpnt|integer n p2 exh|rnd [count]\n"); return 2; }
	uv::Out out;
	// the quiet builds report a negative argument on stderr; nobody drains that pipe while the transcript is consumed
	if (!std::freopen("/dev/null", "w", stderr)) { /* keep going */ }
	std::cout.setstate(std::ios_base::failbit);      // fixpnt sqrt announces a negative argument on std::cout; the transcript is written with printf
	std::string fam = argv[1];
	unsigned n = (unsigned)std::atoi(argv[2]), p2 = (unsigned)std::atoi(argv[3]);
	std::string mode = argv[4];
	uint64_t count = argc > 5 ? std::strtoull(argv[5], nullptr, 10) : 1000;
	if (fam == "posit") {
#define X(N,E) if (n == N && p2 == E) { PRun<N,E>::run(mode, count); return 0; }
		PCONFIGS(X)
#undef X
	}
#ifndef POSIT_FAST_SPECIALIZATION
	if (fam == "fixpnt") {
#define F(N,R,BT) if (n == N && p2 == R) { FRun<N,R,BT>::run(mode, count); return 0; }
		F(6,2,uint8_t) F(8,4,uint8_t) F(8,2,uint8_t) F(10,5,uint8_t) F(12,3,uint16_t) F(16,8,uint16_t) F(16,4,uint8_t) F(16,11,uint32_t)
		F(24,10,uint32_t) F(32,16,uint32_t) F(32,8,uint32_t) F(48,20,uint16_t)
#undef F
	}
	if (fam == "integer") {
#define I(N,BT) if (n == N) { IRun<N,BT>::run(mode, count); return 0; }
		I(8,uint8_t) I(12,uint16_t) I(16,uint8_t) I(20,uint32_t) I(32,uint32_t) I(40,uint8_t) I(64,uint32_t)
#undef I
	}
#endif
	std::fprintf(stderr, "unsupported configuration\n");
	return 2;
}
