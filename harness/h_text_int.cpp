// h_text_int.cpp — C16 transcript for the text forms of integer<nbits,bt>, einteger<bt> and edecimal.
// usage: h_text_int file <replay>                re-run the integer / eint / edec lines of a replay file
//        h_text_int exh integer [n bytes]        every encoding of the configurations with nbits <= 13 + digit strings
//        h_text_int rnd integer <count> [n bytes] structured encodings / digit strings of the wide configurations
//        h_text_int rnd eint <count> | rnd edec <count>
#include <universal/number/integer/integer.hpp>
#include <universal/number/einteger/einteger.hpp>
#include <universal/number/edecimal/edecimal.hpp>
#include <climits>
#include "text_common.hpp"

using namespace sw::universal;
using uvt::Bits;

// decimal text of a non-negative number given as bits (for generating boundary strings around 2^nbits)
static std::string dec_of_bits(const Bits& x) {
	std::vector<uint8_t> d{0};                    // little-endian decimal digits
	for (int i = (int)x.size() - 1; i >= 0; --i) {
		unsigned carry = x.b[i];
		for (auto& g : d) { unsigned t = g * 2u + carry; g = (uint8_t)(t % 10); carry = t / 10; }
		if (carry) d.push_back((uint8_t)carry);
	}
	std::string s; for (auto it = d.rbegin(); it != d.rend(); ++it) s += (char)('0' + *it);
	return s;
}

// ------------------------------------------------------------------------------------------------ integer
template<unsigned nbits, typename bt>
struct IN {
	using T = integer<nbits, bt>;
	static constexpr bool hexfmt_ok = sizeof(bt) < 8;   // nibble() shifts an int by up to 60 for uint64_t blocks (undefined)
	// operator<< divides in integer<max(nbits+1, bitsInBlock),bt>; with more than one uint64_t block that arithmetic drops carries
	// (integer::operator+= `if constexpr (bitsInBlock == 64) carry = 0`) — a C08/C12 defect, not a text path: not streamed
	static constexpr bool ostream_ok = !(sizeof(bt) == 8 && nbits + 1 > 64);
	static constexpr bool parsedec_ok = !(sizeof(bt) == 8 && nbits > 64);   // the decimal parser multiplies and adds in integer<nbits,bt>
	// the receiving object of every parse holds a value with EVERY bit set beforehand: bytes that parse fails to clear or to write show up
	static void dirty(T& v) { v.clear(); for (unsigned i = 0; i < nbits; ++i) v.setbit(i, true); }
	static std::string head(const char* op) { char buf[64]; std::snprintf(buf, sizeof buf, "integer %u %s %s", nbits, uvt::btname(sizeof(bt)), op); return buf; }
	static void encoding(const Bits& x) {
		T a; uvt::write_bits(a, x);
		std::string d = to_string(a);
		uvt::emit(head("dec").c_str(), x.hex(), d);
		if constexpr (ostream_ok) {
			std::stringstream ss; ss << a;
			uvt::emit(head("ostream").c_str(), x.hex(), ss.str());
		}
		bool ok = false;
		if constexpr (parsedec_ok) {
			T b; dirty(b);
			ok = parse(d, b);
			uvt::emit(head("rtdec").c_str(), x.hex(), ok ? uvt::read_bits(b, nbits).hex() : std::string("fail"));
		}
		if constexpr (hexfmt_ok) {
			std::string h = to_hex(a);
			uvt::emit(head("hexfmt").c_str(), x.hex(), h);
			T c; dirty(c);
			ok = parse(h, c);
			uvt::emit(head("roundtrip").c_str(), x.hex(), ok ? uvt::read_bits(c, nbits).hex() : std::string("fail"));
		}
	}
	static void text(const char* op, const std::string& s) {
		if (!parsedec_ok && std::strcmp(op, "parsedec") == 0) return;
		T b; dirty(b);
		bool ok = parse(s, b);
		uvt::emit(head(op).c_str(), s, ok ? uvt::read_bits(b, nbits).hex() : std::string("fail"));
	}
	static void replay(const std::string& op, const std::string& arg) {
		if (op == "parsedec" || op == "parsehex") text(op.c_str(), arg); else encoding(uvt::bits_from_hex(arg, nbits));
	}
	static std::string digits(uv::Rng& g, unsigned len, const char* alphabet) {
		std::string s; unsigned m = (unsigned)g.below(5);
		for (unsigned i = 0; i < len; ++i) s += m == 0 ? alphabet[std::strlen(alphabet) - 1] : m == 1 && i ? '0' : uvt::pick(g, alphabet);
		return s;
	}
	static std::string sign(uv::Rng& g) {
		switch (g.below(10)) { case 0: case 1: case 2: return "-"; case 3: return "+"; case 4: { const char* m[] = {"--", "+-", "-+", "++", "-+-"}; return m[g.below(5)]; } default: return ""; }
	}
	static std::string gen_decimal(uv::Rng& g) {
		unsigned cap = nbits * 30103u / 100000u + 1;                     // digits of 2^nbits
		unsigned len;
		switch (g.below(6)) { case 0: len = 1 + (unsigned)g.below(cap); break; case 1: len = cap; break; case 2: len = cap + 1; break;
			case 3: len = cap > 1 ? cap - 1 : 1; break; case 4: len = cap + 2 + (unsigned)g.below(6); break; default: len = 1 + (unsigned)g.below(cap + 3); break; }
		std::string body;
		switch (g.below(8)) {
		case 0: { Bits x = uvt::random_bits(g, nbits + 1 + (unsigned)g.below(3)); body = dec_of_bits(x); break; }   // around / past the capacity
		case 1: { Bits x(nbits + 1); x.b[nbits] = 1; body = dec_of_bits(x); break; }                                  // exactly 2^nbits
		case 2: { Bits x(nbits); for (auto& b : x.b) b = 1; body = dec_of_bits(x); break; }                          // 2^nbits - 1
		case 3: { Bits x(nbits); x.b[nbits - 1] = 1; body = dec_of_bits(x); break; }                                  // 2^(nbits-1)
		case 4: body = std::string(1 + g.below(4), '0') + digits(g, len, "0123456789"); break;                        // leading zeros
		case 5: body = "0" + digits(g, 1 + (unsigned)g.below(3), "01234567"); break;                                  // octal-looking
		default: body = digits(g, len, "0123456789"); break;
		}
		return sign(g) + body;
	}
	static std::string gen_hex(uv::Rng& g) {
		unsigned cap = (nbits + 3) / 4;
		unsigned len;
		switch (g.below(10)) { case 0: len = 1 + (unsigned)g.below(cap); break; case 1: len = cap; break; case 2: len = cap + 1; break;
			case 3: len = cap > 1 ? cap - 1 : 1; break; case 4: len = 2 * (nbits / 8) ? 2 * (nbits / 8) : 1; break; case 5: len = 2 * (nbits / 8) + 1; break;
			// the repaired scanner: exactly / one short of / one past 2*ceil(nbits/8) nibbles (sign in front of a full-width string, clipped top byte)
			case 6: len = 2 * ((nbits + 7) / 8); break; case 7: len = 2 * ((nbits + 7) / 8) - 1; break; case 8: len = 2 * ((nbits + 7) / 8) + 1 + (unsigned)g.below(3); break;
			default: len = 1 + (unsigned)g.below(cap + 4); break; }
		std::string body = digits(g, len, g.coin() ? "0123456789abcdef" : "0123456789ABCDEFabcdef");
		if (g.below(6) == 0) body.insert(g.below(body.size() + 1), "'");
		if (g.below(12) == 0) body.insert(g.below(body.size() + 1), "'");
		return sign(g) + (g.below(5) == 0 ? "0X" : "0x") + body;
	}
	static void strings(uv::Rng& g, unsigned count) {
		for (unsigned i = 0; i < count; ++i) { text("parsedec", gen_decimal(g)); text("parsehex", gen_hex(g)); }
		const char* misc[] = { "0", "00", "-0", "+0", "1", "-1", "+1", "9", "10", "0x0", "0x1", "-0x1", "0xf", "0xF", "0x10", "0x100", "0x1000", "0xff", "-0xff",
			"0xfff", "0xffff", "-0xffff", "0x0001", "0x'1", "0x1'", "x1", "0x", "1x", "0x1g", "12a", "-", "+", "1-", "0b101", "017", "-017", "08", "0008",
			"-0x01", "+0x01", "-0x001", "-0x0001", "-0x00000001", "-0x0000000000000001", "-0x100", "-0x1000", "0xfff0", "-0xfff0", "0x7f", "0x80", "-0x80", "0x1ff", "-0x1ff", "0x3f", "0x40" };
		for (const char* m : misc) text(std::strchr(m, 'x') || std::strchr(m, 'X') ? "parsehex" : "parsedec", m);
	}
	static void exhaustive() {
		const uint64_t N = 1ull << nbits;
		for (uint64_t a = 0; a < N; ++a) encoding(Bits::of_u64(nbits, a));
		uv::Rng g(uv::seed_from_env() * 7919ull + nbits * 131ull + sizeof(bt));
		strings(g, 500);
	}
	static void random(uint64_t count) {
		uv::Rng g(uv::seed_from_env() * 1000003ull + nbits * 131ull + sizeof(bt));
		for (uint64_t i = 0; i < count; ++i) {
			encoding(uvt::random_bits(g, nbits));
			text("parsedec", gen_decimal(g)); text("parsehex", gen_hex(g));
		}
		strings(g, 0);
	}
};

// ------------------------------------------------------------------------------------------------ einteger
template<typename bt>
struct EI {
	static void one(bool neg, const std::vector<uint64_t>& limbs) {
		einteger<bt> e;
		for (unsigned k = 0; k < limbs.size(); ++k) e.setblock(k, (bt)limbs[k]);
		e.setsign(neg);
		std::stringstream ss; ss << e;
		std::string in = neg ? "-" : "+";
		for (auto l : limbs) { char buf[24]; std::snprintf(buf, sizeof buf, " %llx", (unsigned long long)l); in += buf; }
		std::printf("text eint %s dec %s => %s\n", uvt::btname(sizeof(bt)), in.c_str(), ss.str().c_str());
	}
	static void run(uint64_t count) {
		uv::Rng g(uv::seed_from_env() * 1000003ull + 17 * sizeof(bt));
		const uint64_t top = (sizeof(bt) == 4) ? 0xffffffffull : (sizeof(bt) == 2 ? 0xffffull : 0xffull);
		for (uint64_t i = 0; i < count; ++i) {
			unsigned nl = (unsigned)g.below(i % 7 == 0 ? 24 : 7);
			std::vector<uint64_t> limbs(nl);
			unsigned mode = (unsigned)g.below(6);
			for (auto& l : limbs) {
				switch (mode) { case 0: l = g.next() & top; break; case 1: l = top; break; case 2: l = g.below(3) == 0 ? g.next() & top : 0; break;
					case 3: l = g.below(200); break; default: { const uint64_t pick[] = {0, 1, top, top - 1, 99, 100, 101, 9999, 10000, 999999999, 1000000000}; l = g.coin() ? (g.next() & top) : (pick[g.below(11)] & top); } }
			}
			if (g.below(5) == 0 && nl) limbs[nl - 1] = 0;                   // a leading zero limb (not normalised)
			if (g.below(9) == 0 && nl) limbs[0] = 0;
			bool allzero = true; for (auto l : limbs) if (l) allzero = false;
			bool neg = !allzero && g.below(3) == 0;                          // negative zero is not a reachable printer input
			one(neg, limbs);
		}
	}
};

// ------------------------------------------------------------------------------------------------ edecimal
static std::string edec_str(const edecimal& d) { std::stringstream ss; ss << d; return ss.str(); }
static void edec_replay(const std::vector<std::string>& t) {
	if (t.size() == 4 && t[2] == "ofu64") { edecimal d; d = (unsigned long long)std::strtoull(t[3].c_str(), nullptr, 16); uvt::emit("edec ofu64", t[3], edec_str(d)); }
	else if (t.size() == 4 && t[2] == "ofi64") { long long v = (long long)std::strtoull(t[3].c_str(), nullptr, 16); if (v != LLONG_MIN) { edecimal d; d = v; uvt::emit("edec ofi64", t[3], edec_str(d)); } }
	else if (t.size() == 4 && t[2] == "parse") { edecimal d; bool ok = d.parse(t[3]); uvt::emit("edec parse", t[3], ok ? edec_str(d) : std::string("fail")); }
	else if (t.size() == 5 && t[2] == "reparse") { edecimal d; d.parse(t[3]); bool ok = d.parse(t[4]); std::printf("text edec reparse %s %s => %s\n", t[3].c_str(), t[4].c_str(), ok ? edec_str(d).c_str() : "fail"); }
}
static void edec(uint64_t count) {
	uv::Rng g(uv::seed_from_env() * 1000003ull + 99);
	auto str = [](const edecimal& d) { std::stringstream ss; ss << d; return ss.str(); };
	auto digits = [&](unsigned len) { std::string s; unsigned m = (unsigned)g.below(4); for (unsigned i = 0; i < len; ++i) s += m == 0 ? '9' : m == 1 && i ? '0' : uvt::pick(g, "0123456789"); return s; };
	for (uint64_t i = 0; i < count; ++i) {
		uint64_t u;
		switch (g.below(6)) { case 0: u = g.next(); break; case 1: u = g.next() >> g.below(64); break; case 2: u = 1ull << g.below(64); break;
			case 3: u = (1ull << g.below(64)) - 1; break; case 4: { uint64_t p = 1; unsigned k = (unsigned)g.below(20); for (unsigned j = 0; j < k; ++j) p *= 10; u = p - g.below(2); break; } default: u = g.below(1000); }
		{ edecimal d; d = (unsigned long long)u; char b[32]; std::snprintf(b, sizeof b, "%llx", (unsigned long long)u); uvt::emit("edec ofu64", b, str(d)); }
		long long v = (long long)u;
		if (v != LLONG_MIN) { edecimal d; d = v; char b[32]; std::snprintf(b, sizeof b, "%llx", (unsigned long long)u); uvt::emit("edec ofi64", b, str(d)); }
		// parse then print; on a fresh object and on an object that held another value before
		std::string sg; switch (g.below(8)) { case 0: case 1: sg = "-"; break; case 2: sg = "+"; break; case 3: { const char* m[] = {"--", "+-", "-+", "++"}; sg = m[g.below(4)]; break; } default: break; }
		std::string body = digits(1 + (unsigned)g.below(g.below(4) == 0 ? 60 : 12));
		if (g.below(6) == 0) body = std::string(1 + g.below(3), '0') + body;
		if (g.below(25) == 0) body = "0";
		std::string s = sg + body;
		{ edecimal d; bool ok = d.parse(s); uvt::emit("edec parse", s, ok ? str(d) : std::string("fail")); }
		{ std::string first = (g.coin() ? "-" : "") + digits(1 + (unsigned)g.below(5));
		  edecimal d; d.parse(first); bool ok = d.parse(s);
		  std::printf("text edec reparse %s %s => %s\n", first.c_str(), s.c_str(), ok ? str(d).c_str() : "fail"); }
	}
	const char* bad[] = { "", "x", "1x", "-", "+", "1-", "1.5", "0x10" };
	for (const char* b : bad) if (*b) { edecimal d; bool ok = d.parse(b); uvt::emit("edec parse", b, ok ? str(d) : std::string("fail")); }
	// the repaired parse: padding, negative zero, and a receiving object that held a negative value
	const char* pad[] = { "0", "-0", "+0", "00", "-00", "-000", "007", "-007", "+007", "0070", "-0070", "5", "-5", "+5", "10", "-10" };
	for (const char* b : pad) {
		{ edecimal d; bool ok = d.parse(b); uvt::emit("edec parse", b, ok ? str(d) : std::string("fail")); }
		for (const char* first : { "-3", "3", "-0" }) { edecimal d; d.parse(first); bool ok = d.parse(b);
			std::printf("text edec reparse %s %s => %s\n", first, b, ok ? str(d).c_str() : "fail"); }
	}
}

#define IN_SMALL(X) \
	X(4,uint8_t) X(6,uint8_t) X(7,uint8_t) X(8,uint8_t) X(9,uint8_t) X(10,uint8_t) X(11,uint8_t) X(12,uint8_t) \
	X(8,uint16_t) X(12,uint16_t) X(13,uint16_t) X(9,uint32_t) X(12,uint32_t)
#define IN_LARGE(X) \
	X(15,uint16_t) X(16,uint8_t) X(16,uint16_t) X(16,uint32_t) X(24,uint8_t) X(31,uint32_t) X(32,uint8_t) X(32,uint16_t) X(32,uint32_t) X(32,uint64_t) \
	X(33,uint8_t) X(63,uint64_t) X(64,uint8_t) X(64,uint32_t) X(64,uint64_t) X(100,uint8_t) X(100,uint32_t) X(128,uint16_t) X(128,uint32_t) \
	X(14,uint16_t) X(29,uint32_t) X(30,uint32_t) X(59,uint64_t) X(60,uint64_t)   /* either side of 10^k < 2^nbits (operator<< working type) */

int main(int argc, char** argv) {
	if (argc < 3) { std::fprintf(stderr, "usage: h_text_int exh integer [n bytes] | rnd integer|eint|edec <count> [n bytes]\n"); return 2; }
	uvt::silence_iostreams();
	uv::Out out;
	std::string mode = argv[1], fam = argv[2];
	if (mode == "file") {   // re-run the integer / eint / edec lines of a replay / corpus file through the current headers
		for (auto& t : uvt::read_replay(argv[2])) {
			if (t[1] == "integer" && t.size() == 6) {
				unsigned n = (unsigned)std::atoi(t[2].c_str());
				std::string bt = t[3];
#define X(N,B) if (n == N && bt == uvt::btname(sizeof(B))) IN<N,B>::replay(t[4], t[5]);
				IN_SMALL(X) IN_LARGE(X)
#undef X
			} else if (t[1] == "eint" && t.size() >= 5 && t[3] == "dec") {
				std::vector<uint64_t> limbs;
				for (size_t i = 5; i < t.size(); ++i) limbs.push_back(std::strtoull(t[i].c_str(), nullptr, 16));
				bool neg = t[4] == "-";
				if (t[2] == "u8") EI<uint8_t>::one(neg, limbs); else if (t[2] == "u16") EI<uint16_t>::one(neg, limbs); else if (t[2] == "u32") EI<uint32_t>::one(neg, limbs);
			} else if (t[1] == "edec") edec_replay(t);
		}
		return 0;
	}
	uint64_t count = argc > 3 ? std::strtoull(argv[3], nullptr, 10) : 1000;
	unsigned n = argc > 5 ? (unsigned)std::atoi(argv[4]) : 0, by = argc > 5 ? (unsigned)std::atoi(argv[5]) : 0;
	if (fam == "integer") {
#define X(N,B) if (n == 0 || (n == N && by == sizeof(B))) IN<N,B>::exhaustive();
		if (mode == "exh") { IN_SMALL(X) }
#undef X
#define X(N,B) if (n == 0 || (n == N && by == sizeof(B))) IN<N,B>::random(count);
		if (mode == "rnd") { IN_LARGE(X) }
#undef X
	} else if (fam == "eint") {
		EI<uint8_t>::run(count); EI<uint16_t>::run(count); EI<uint32_t>::run(count);
	} else if (fam == "edec") {
		edec(count);
	}
	return 0;
}
