// h_text_posit.cpp — C16 transcript for the posit text forms: hex_format / to_hex / parse / operator>>.
// usage: h_text_posit file <replay>     re-run the posit lines of a replay file
//        h_text_posit exh [n es]          every encoding of the configurations with nbits <= 12 + boundary strings
//        h_text_posit rnd <count> [n es]  <count> structured encodings and <count> strings per configuration
#include <universal/number/posit/posit.hpp>
#include "text_common.hpp"

using namespace sw::universal;
using uvt::Bits;

template<unsigned nbits, unsigned es>
struct Run {
	using P = posit<nbits, es>;
	static std::string head(const char* op) { char buf[64]; std::snprintf(buf, sizeof buf, "posit %u %u %s", nbits, es, op); return buf; }
	static Bits enc(const P& p) { bitblock<nbits> b = p.get(); Bits r(nbits); for (unsigned i = 0; i < nbits; ++i) r.b[i] = b[i]; return r; }
	static P mk(const Bits& x) { bitblock<nbits> b; for (unsigned i = 0; i < nbits; ++i) b.set(i, x.b[i] != 0); P p; p.setBitblock(b); return p; }

	static void encoding(const Bits& x) {
		P p = mk(x);
		std::string s = hex_format(p);
		uvt::emit(head("hexfmt").c_str(), x.hex(), s);
		P q; q.setbits(0x5);                       // stale content must not matter
		std::string t = s;
		parse(t, q);
		uvt::emit(head("roundtrip").c_str(), x.hex(), enc(q).hex());
		P r; r.setbits(0x2);
		std::stringstream ss(s);
		ss >> r;
		uvt::emit(head("rtstream").c_str(), x.hex(), enc(r).hex());
	}
	static void text(const std::string& s) {
		P q; q.setbits(0x5);
		std::string t = s;
		parse(t, q);
		uvt::emit(head("parse").c_str(), s, enc(q).hex());
	}

	// strings aimed at the branches of parse(): field extraction, the hex extractor, the alignment shift
	static std::string gen_string(uv::Rng& g) {
		std::string s;
		unsigned kind = (unsigned)g.below(16);
		// nbits field
		unsigned nb = nbits;
		switch (g.below(6)) {
		case 0: case 1: case 2: nb = nbits; break;
		case 3: nb = nbits + 1 + (unsigned)g.below(63); break;                 // wider text: alignment shift 1..63
		case 4: nb = (unsigned)g.below(nbits + 1); break;                      // narrower text (incl. 0): no shift
		default: nb = nbits + 4 * (unsigned)g.below(16); break;
		}
		if (kind == 0) s += "0";                                               // leading zero in the nbits field
		if (kind == 1) s += "00";
		s += std::to_string(nb);
		s += '.';
		s += (char)('0' + (kind == 2 ? g.below(10) : es % 10));
		s += g.below(5) == 0 ? 'X' : 'x';
		// hex field
		unsigned pre = (unsigned)g.below(4);
		if (pre == 0) s += "0x"; else if (pre == 1) s += "0X";
		unsigned maxd = (nbits + 3) / 4;
		unsigned len;
		switch (g.below(6)) {
		case 0: len = 1 + (unsigned)g.below(maxd); break;
		case 1: len = maxd; break;
		case 2: len = maxd + 1; break;
		case 3: len = 16; break;                                               // the uint64 capacity
		case 4: len = 17 + (unsigned)g.below(3); break;                        // one past capacity: extractor overflows
		default: len = 1 + (unsigned)g.below(20); break;
		}
		const char* hexd = g.coin() ? "0123456789abcdef" : "0123456789ABCDEFabcdef";
		bool lead0 = g.below(4) == 0, allf = g.below(6) == 0;
		for (unsigned i = 0; i < len; ++i) s += (lead0 && i < len / 2) ? '0' : allf ? 'f' : uvt::pick(g, hexd);
		switch (kind) {
		case 3: s += 'g'; s += uvt::pick(g, hexd); break;                      // \w that is no hex digit stops the extractor
		case 4: s += '_'; break;
		case 5: s.insert(s.size() - len / 2, "p"); break;                      // a 'p' in the middle ends the bit string
		case 6: s += "x1"; break;
		default: break;
		}
		unsigned ps = (unsigned)g.below(4); if (ps == 3) ps = 1;
		for (unsigned i = 0; i < ps; ++i) s += 'p';
		// strings outside the grammar: these fall through to the `double` branch; they are built so that the
		// leading floating-point text is absent or zero (the value conversion itself is C03's subject)
		switch (kind) {
		case 7: s = std::string(1, uvt::pick(g, "qzxXp_ghn")) + s; break;      // does not start with a digit
		case 8: { size_t d = s.find('.'); s = "0" + s.substr(d); s[2] = '0'; s.insert(3, "0"); break; }   // "0.<d>0x…": two es digits
		case 9: { size_t d = s.find('.'); s = "0" + s.substr(d); s[2] = '0'; size_t x = s.find_first_of("xX"); s[x] = 'y'; break; }     // no x
		case 10: { size_t d = s.find('.'); s = "0" + s.substr(d); s[2] = '0'; size_t x = s.find_first_of("xX"); s = s.substr(0, x + 1); break; } // nothing after x
		case 11: { size_t d = s.find('.'); s = "0" + s.substr(d); s[2] = '0'; s += "-1"; break; }                                           // a non-\w character
		default: break;
		}
		return s;
	}

	static void boundary_strings() {
		char buf[128];
		auto fmt = [&](const char* f) { std::snprintf(buf, sizeof buf, f, nbits, es); return std::string(buf); };
		const char* forms[] = {
			"%u.%ux0p", "%u.%ux1p", "%u.%uxffffffffffffffffp", "%u.%ux10000000000000000p", "%u.%ux0xffffffffffffffffp",
			"%u.%ux0x10000000000000000p", "%u.%uxfffffffffffffffff", "%u.%ux8000000000000000", "%u.%ux0x",
			"%u.%ux0xp", "%u.%ux00x1p", "%u.%ux0x0x1p", "%u.%uxg", "%u.%ux_", "%u.%uXAbCdp", "%u.%ux0XAbp", "0%u.%ux7p", "%u.%ux7P",
			"%u.%ux00000000000000000001p", "%u.%ux0x00000000000000000001p", "%u.%uxx1p", "%u.%ux1x",
		};
		for (const char* f : forms) text(fmt(f));
		// alignment: text nbits larger / smaller than the target
		for (unsigned d : {1u, 2u, 3u, 4u, 7u, 8u, 31u, 32u, 63u}) {
			std::snprintf(buf, sizeof buf, "%u.%uxfedcba9876543210p", nbits + d, es); text(buf);
			std::snprintf(buf, sizeof buf, "%u.%ux0x8000000000000001p", nbits + d, es); text(buf);
			if (d < nbits) { std::snprintf(buf, sizeof buf, "%u.%ux1f5p", nbits - d, es); text(buf); }
		}
		text("0.0xffp"); text("0.0x"); text("0.0"); text("0"); text("x"); text("q8.1x40p"); text("0.00x1p"); text("0.0y1p"); text("0.0x-1");
	}

	static void replay(const std::string& op, const std::string& arg) {
		if (op == "parse") text(arg); else encoding(uvt::bits_from_hex(arg, nbits));
	}
	static void exhaustive() {
		const uint64_t N = 1ull << nbits;
		for (uint64_t a = 0; a < N; ++a) encoding(Bits::of_u64(nbits, a));
		boundary_strings();
		uv::Rng g(uv::seed_from_env() * 7919ull + nbits * 131ull + es);
		for (unsigned i = 0; i < 600; ++i) text(gen_string(g));
	}
	static void random(uint64_t count) {
		uv::Rng g(uv::seed_from_env() * 1000003ull + nbits * 131ull + es);
		boundary_strings();
		for (uint64_t i = 0; i < count; ++i) {
			encoding(uvt::random_bits(g, nbits));
			text(gen_string(g));
		}
	}
};

#define SMALL(X) \
	X(2,0) X(3,0) X(3,1) X(4,0) X(4,1) X(4,2) X(5,0) X(5,1) X(5,2) X(6,0) X(6,1) X(6,3) X(7,0) X(7,1) X(7,2) \
	X(8,0) X(8,1) X(8,2) X(8,3) X(9,1) X(9,2) X(10,0) X(10,2) X(11,1) X(11,3) X(12,1) X(12,2)
#define LARGE(X) \
	X(13,1) X(16,1) X(16,2) X(20,1) X(24,2) X(28,3) X(32,2) X(32,3) X(33,2) X(48,2) X(63,3) X(64,2) X(64,3) X(80,2) X(128,4)

int main(int argc, char** argv) {
	if (argc < 2) { std::fprintf(stderr, "usage: h_text_posit exh [n es] | rnd count [n es]\n"); return 2; }
	uvt::silence_iostreams();
	uv::Out out;
	std::string mode = argv[1];
	if (mode == "file") {   // re-run the posit lines of a replay / corpus file through the current headers
		if (argc < 3) return 2;
		for (auto& t : uvt::read_replay(argv[2])) {
			if (t.size() != 6 || t[1] != "posit") continue;
			unsigned n = (unsigned)std::atoi(t[2].c_str()), e = (unsigned)std::atoi(t[3].c_str());
#define X(N,E) if (n == N && e == E) Run<N,E>::replay(t[4], t[5]);
			SMALL(X) LARGE(X)
#undef X
		}
		return 0;
	}
	if (mode == "exh") {
		unsigned n = argc > 3 ? (unsigned)std::atoi(argv[2]) : 0, e = argc > 3 ? (unsigned)std::atoi(argv[3]) : 0;
#define X(N,E) if (n == 0 || (n == N && e == E)) Run<N,E>::exhaustive();
		SMALL(X)
#undef X
		return 0;
	}
	uint64_t count = argc > 2 ? std::strtoull(argv[2], nullptr, 10) : 1000;
	unsigned n = argc > 4 ? (unsigned)std::atoi(argv[3]) : 0, e = argc > 4 ? (unsigned)std::atoi(argv[4]) : 0;
#define X(N,E) if (n == 0 || (n == N && e == E)) Run<N,E>::random(count);
	LARGE(X)
#undef X
	return 0;
}
