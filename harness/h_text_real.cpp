// h_text_real.cpp — C16 transcript for the binary text forms of cfloat and fixpnt and the decimal output of fixpnt.
// usage: h_text_real file <replay>              re-run the cfloat / fixpnt lines of a replay file
//        h_text_real exh cfloat|fixpnt            every encoding of the configurations with nbits <= 12 + strings
//        h_text_real rnd cfloat|fixpnt <count>    <count> structured encodings / strings per wide configuration
#include <universal/number/cfloat/cfloat.hpp>
#include <universal/number/fixpnt/fixpnt.hpp>
#include "text_common.hpp"

using namespace sw::universal;
using uvt::Bits;

// ------------------------------------------------------------------------------------------------ cfloat
template<unsigned nbits, unsigned es, typename bt>
struct CF {
	using T = cfloat<nbits, es, bt, true, true, false>;
	static constexpr unsigned fbits = nbits - 1 - es;
	static std::string head(const char* op) { char buf[64]; std::snprintf(buf, sizeof buf, "cfloat %u %u %s %s", nbits, es, uvt::btname(sizeof(bt)), op); return buf; }
	static void encoding(const Bits& x) {
		T a; uvt::write_bits(a, x);
		std::string s = to_binary(a);
		uvt::emit(head("tobin").c_str(), x.hex(), s);
		T b; b.setbits(0x5);
		b.assign(s);
		uvt::emit(head("roundtrip").c_str(), x.hex(), uvt::read_bits(b, nbits).hex());
		T c; c.setbits(0x2);
		c.assign(to_binary(a, true));              // nibble markers are consumed by assign
		uvt::emit(head("rtmarked").c_str(), x.hex(), uvt::read_bits(c, nbits).hex());
		if constexpr (sizeof(bt) < 8) {            // nibble() shifts an int by up to 60 for uint64_t blocks (undefined)
			uvt::emit(head("tohex").c_str(), x.hex(), to_hex(a));
			uvt::emit(head("hexprint").c_str(), x.hex(), hex_print(a));
		}
	}
	static void text(const std::string& s) {
		T b; b.setbits(0x5);
		b.assign(s);
		uvt::emit(head("assign").c_str(), s, uvt::read_bits(b, nbits).hex());
	}
	static void replay(const std::string& op, const std::string& arg) {
		if (op == "assign") text(arg); else encoding(uvt::bits_from_hex(arg, nbits));
	}
	static std::string bitsrun(uv::Rng& g, unsigned k) { std::string s; unsigned m = (unsigned)g.below(4); for (unsigned i = 0; i < k; ++i) s += m == 0 ? '0' : m == 1 ? '1' : (g.coin() ? '1' : '0'); return s; }
	static std::string gen_string(uv::Rng& g) {
		unsigned kind = (unsigned)g.below(20);
		unsigned e = es, f = fbits, sg = 1;
		switch (kind) {
		case 0: e = es + 1; f = fbits - 1; break;                 // right length, wrong exponent width
		case 1: if (es > 1) { e = es - 1; f = fbits + 1; } break;
		case 2: f = fbits + 1; break;                             // one bit too many
		case 3: f = fbits - 1; break;                             // one bit short
		case 4: sg = 2; f = fbits - 1; break;                     // two "sign" bits
		case 5: sg = 0; f = fbits + 1; break;                     // empty sign field
		default: break;
		}
		std::string s = "0b" + bitsrun(g, sg) + "." + bitsrun(g, e) + "." + bitsrun(g, f);
		switch (kind) {
		case 6: s += "."; break;                                  // three dots
		case 7: { size_t d = s.rfind('.'); s.erase(d, 1); break; } // one dot
		case 8: s.insert(2 + g.below(s.size() - 1), "'"); break;  // nibble markers anywhere
		case 9: s.insert(2 + g.below(s.size() - 1), "'"); s.insert(2 + g.below(s.size() - 1), "'"); break;
		case 10: s[2 + g.below(s.size() - 2)] = uvt::pick(g, "2xb -"); break;   // non-standard character
		case 11: s[1] = 'B'; break;
		case 12: s = s.substr(1); break;
		case 13: s = s.substr(0, 2 + g.below(2)); break;          // too short / nearly empty
		case 14: s = "0b" + bitsrun(g, nbits); break;             // no dots
		case 15: { size_t d = s.find('.'); s.erase(d, 1); s.insert(d + 1 + g.below(s.size() - d - 1), "."); break; } // dots displaced
		default: break;
		}
		for (auto& c : s) if (c == ' ') c = '_';
		return s;
	}
	static void exhaustive() {
		const uint64_t N = 1ull << nbits;
		for (uint64_t a = 0; a < N; ++a) encoding(Bits::of_u64(nbits, a));
		uv::Rng g(uv::seed_from_env() * 7919ull + nbits * 131ull + es * 7 + sizeof(bt));
		for (unsigned i = 0; i < 800; ++i) text(gen_string(g));
	}
	static void random(uint64_t count) {
		uv::Rng g(uv::seed_from_env() * 1000003ull + nbits * 131ull + es * 7 + sizeof(bt));
		for (uint64_t i = 0; i < count; ++i) { encoding(uvt::random_bits(g, nbits)); text(gen_string(g)); }
	}
};

// ------------------------------------------------------------------------------------------------ fixpnt
template<unsigned nbits, unsigned rbits, typename bt>
struct FX {
	using T = fixpnt<nbits, rbits, Modulo, bt>;
	static std::string head(const char* op) { char buf[64]; std::snprintf(buf, sizeof buf, "fixpnt %u %u %s %s", nbits, rbits, uvt::btname(sizeof(bt)), op); return buf; }
	static void encoding(const Bits& x) {
		T a; uvt::write_bits(a, x);
		std::string s = to_binary(a);
		uvt::emit(head("tobin").c_str(), x.hex(), s);
		T b; b.setbits(0x5);
		b.assign(s);
		uvt::emit(head("roundtrip").c_str(), x.hex(), uvt::read_bits(b, nbits).hex());
		T c; c.setbits(0x2);
		c.assign(to_binary(a, true));
		uvt::emit(head("rtmarked").c_str(), x.hex(), uvt::read_bits(c, nbits).hex());
		if constexpr (sizeof(bt) < 8) uvt::emit(head("tohex").c_str(), x.hex(), to_hex(a));
		uvt::emit(head("dec").c_str(), x.hex(), convert_to_decimal_string(a));
		std::stringstream ss; ss << a;
		uvt::emit(head("ostream").c_str(), x.hex(), ss.str());
	}
	static void text(const std::string& s) {
		T b; b.setbits(0x5);
		b.assign(s);
		uvt::emit(head("assign").c_str(), s, uvt::read_bits(b, nbits).hex());
	}
	static void replay(const std::string& op, const std::string& arg) {
		if (op == "assign") text(arg); else encoding(uvt::bits_from_hex(arg, nbits));
	}
	static std::string bitsrun(uv::Rng& g, unsigned k) { std::string s; unsigned m = (unsigned)g.below(4); for (unsigned i = 0; i < k; ++i) s += m == 0 ? '0' : m == 1 ? '1' : (g.coin() ? '1' : '0'); return s; }
	static std::string gen_string(uv::Rng& g) {
		unsigned kind = (unsigned)g.below(18);
		unsigned ib = nbits - rbits, fb = rbits;
		switch (kind) {
		case 0: ib += 1; break;                                   // one past capacity on the integer side
		case 1: ib += 1 + (unsigned)g.below(8); break;
		case 2: if (ib) ib -= 1; break;                           // short: upper bits stay zero
		case 3: fb += 1; break;                                   // radix misaligned
		case 4: if (fb) fb -= 1; break;
		default: break;
		}
		std::string s = "0b" + (ib == 0 && kind > 4 ? std::string("0") : bitsrun(g, ib)) + "." + bitsrun(g, fb);
		switch (kind) {
		case 5: s.insert(2 + g.below(s.size() - 1), "'"); break;
		case 6: s.insert(2 + g.below(s.size() - 1), "'"); s.insert(2 + g.below(s.size() - 1), "'"); break;
		case 7: if (s.size() > 3) s[2 + g.below(s.size() - 2)] = uvt::pick(g, "2x9a-"); break;   // any other character counts as a 1
		case 8: { size_t d = s.find('.'); s.erase(d, 1); break; }                                   // no radix point
		case 9: s += "."; break;                                   // second radix point at position 0
		case 10: if (s.size() > 4) s.insert(3 + g.below(s.size() - 3), "b"); break;                 // scanning stops at the last 'b'
		case 11: s = s.substr(0, 2 + g.below(2)); if (s.size() < 3) s += g.coin() ? "1" : "."; break;
		default: break;
		}
		if (s.size() < 2 || s[0] != '0' || s[1] != 'b') s = "0b" + s;   // the decimal branch of assign is a stub ("TBD"): not exercised
		return s;
	}
	static void exhaustive() {
		const uint64_t N = 1ull << nbits;
		for (uint64_t a = 0; a < N; ++a) encoding(Bits::of_u64(nbits, a));
		uv::Rng g(uv::seed_from_env() * 7919ull + nbits * 131ull + rbits * 7 + sizeof(bt));
		for (unsigned i = 0; i < 800; ++i) text(gen_string(g));
		text("0b"); text("0"); text("0b."); text("0b1"); text("0b0");
	}
	static void random(uint64_t count) {
		uv::Rng g(uv::seed_from_env() * 1000003ull + nbits * 131ull + rbits * 7 + sizeof(bt));
		for (uint64_t i = 0; i < count; ++i) { encoding(uvt::random_bits(g, nbits)); text(gen_string(g)); }
	}
};

#define CF_SMALL(X) \
	X(3,1,uint8_t) X(4,1,uint8_t) X(4,2,uint8_t) X(5,1,uint8_t) X(5,2,uint8_t) X(5,3,uint8_t) X(6,2,uint8_t) X(6,4,uint8_t) \
	X(7,3,uint8_t) X(8,2,uint8_t) X(8,3,uint8_t) X(8,4,uint8_t) X(8,5,uint8_t) X(8,2,uint16_t) X(8,4,uint32_t) \
	X(9,3,uint8_t) X(9,5,uint16_t) X(10,4,uint8_t) X(11,5,uint8_t) X(12,5,uint8_t) X(12,3,uint16_t) X(12,7,uint32_t) X(12,10,uint8_t)
#define CF_LARGE(X) \
	X(16,5,uint16_t) X(16,8,uint8_t) X(17,6,uint8_t) X(24,5,uint8_t) X(32,8,uint32_t) X(32,8,uint8_t) X(33,9,uint16_t) X(40,8,uint16_t) \
	X(64,11,uint64_t) X(64,11,uint16_t) X(65,12,uint8_t) X(80,11,uint32_t) X(80,15,uint8_t) X(128,15,uint32_t) X(128,15,uint64_t)
#define FX_SMALL(X) \
	X(4,0,uint8_t) X(4,2,uint8_t) X(4,4,uint8_t) X(5,2,uint8_t) X(6,3,uint8_t) X(7,0,uint8_t) X(8,0,uint8_t) X(8,4,uint8_t) X(8,7,uint8_t) X(8,8,uint8_t) \
	X(8,4,uint16_t) X(8,8,uint32_t) X(9,4,uint8_t) X(10,5,uint8_t) X(11,3,uint8_t) X(12,5,uint8_t) X(12,12,uint8_t) X(12,0,uint8_t) X(12,6,uint16_t) X(12,12,uint16_t) X(12,4,uint32_t)
#define FX_LARGE(X) \
	X(16,8,uint8_t) X(16,16,uint16_t) X(17,9,uint8_t) X(24,12,uint8_t) X(32,16,uint32_t) X(32,32,uint8_t) X(33,1,uint16_t) X(40,20,uint16_t) \
	X(64,32,uint32_t) X(64,63,uint8_t) X(64,0,uint64_t) X(65,33,uint8_t) X(100,50,uint8_t) X(128,64,uint32_t) X(128,127,uint16_t)

int main(int argc, char** argv) {
	if (argc < 3) { std::fprintf(stderr, "usage: h_text_real exh|rnd cfloat|fixpnt [count]\n"); return 2; }
	uvt::silence_iostreams();
	uv::Out out;
	std::string mode = argv[1], fam = argv[2];
	if (mode == "file") {   // re-run the cfloat / fixpnt lines of a replay / corpus file through the current headers
		for (auto& t : uvt::read_replay(argv[2])) {
			if (t.size() != 7 || (t[1] != "cfloat" && t[1] != "fixpnt")) continue;
			unsigned n = (unsigned)std::atoi(t[2].c_str()), e = (unsigned)std::atoi(t[3].c_str());
			std::string bt = t[4];
#define X(N,E,B) if (t[1] == "cfloat" && n == N && e == E && bt == uvt::btname(sizeof(B))) CF<N,E,B>::replay(t[5], t[6]);
			CF_SMALL(X) CF_LARGE(X)
#undef X
#define X(N,E,B) if (t[1] == "fixpnt" && n == N && e == E && bt == uvt::btname(sizeof(B))) FX<N,E,B>::replay(t[5], t[6]);
			FX_SMALL(X) FX_LARGE(X)
#undef X
		}
		return 0;
	}
	uint64_t count = argc > 3 ? std::strtoull(argv[3], nullptr, 10) : 1000;
	unsigned n = argc > 5 ? (unsigned)std::atoi(argv[4]) : 0, e = argc > 5 ? (unsigned)std::atoi(argv[5]) : 0;
	if (fam == "cfloat") {
#define X(N,E,B) if (n == 0 || (n == N && e == E)) CF<N,E,B>::exhaustive();
		if (mode == "exh") { CF_SMALL(X) }
#undef X
#define X(N,E,B) if (n == 0 || (n == N && e == E)) CF<N,E,B>::random(count);
		if (mode == "rnd") { CF_LARGE(X) }
#undef X
	} else {
#define X(N,E,B) if (n == 0 || (n == N && e == E)) FX<N,E,B>::exhaustive();
		if (mode == "exh") { FX_SMALL(X) }
#undef X
#define X(N,E,B) if (n == 0 || (n == N && e == E)) FX<N,E,B>::random(count);
		if (mode == "rnd") { FX_LARGE(X) }
#undef X
	}
	return 0;
}
