// h_threads.cpp — C20 thread clause (validation only): the same straight-line programs over DISTINCT objects run on N
// threads must give the sequential results; built with -fsanitize=thread in the thorough tier so that any
// namespace-scope mutable state touched by the arithmetic headers is reported as a race.
// line: thr <family> <nthreads> <ops> => <sequential checksum> <all-threads-equal 0|1>
#include <universal/number/posit/posit.hpp>
#include <universal/number/cfloat/cfloat.hpp>
#include <universal/number/fixpnt/fixpnt.hpp>
#include <universal/number/integer/integer.hpp>
#include <universal/number/lns/lns.hpp>
#include <universal/number/dd/dd.hpp>
#include <sstream>
#include <string>
#include <thread>
#include <vector>
#include "proto.hpp"
using namespace sw::universal;

static inline uint64_t mix(uint64_t h, uint64_t v) { h ^= v + 0x9E3779B97F4A7C15ull + (h << 6) + (h >> 2); return h; }

// decimal / stream output of a value (to_string where the type has it, operator<< otherwise), hashed
template<typename T> uint64_t text(const T& x) {
	std::string str;
	if constexpr (requires { to_string(x); }) { str = to_string(x); }
	std::stringstream ss; ss << x; str += ss.str();
	uint64_t h = 1469598103934665603ull; for (char c : str) h = (h ^ (unsigned char)c) * 1099511628211ull; return h;
}

template<typename T, typename Set, typename Get>
uint64_t program(uint64_t seed, unsigned ops, Set set, Get get) {
	uv::Rng g(seed);
	T acc; set(acc, g.next());
	uint64_t h = 1469598103934665603ull;
	for (unsigned i = 0; i < ops; ++i) {
		T x; set(x, g.next());
		switch (g.below(4)) {
		case 0: acc = acc + x; break;
		case 1: acc = acc - x; break;
		case 2: acc = acc * x; break;
		default: acc = x; break;
		}
		h = mix(h, get(acc));
		if ((i & 31) == 0) h = mix(h, text(acc));
	}
	return h;
}

template<typename F>
void family(const char* name, unsigned nthreads, unsigned ops, F run) {
	uint64_t seed = uv::seed_from_env() * 977 + 13;
	std::vector<uint64_t> res(nthreads, 0);
	std::vector<std::thread> th;
	// the threads run FIRST, while every lazily initialised static / cache of the library is still cold; the sequential
	// reference is computed afterwards (a harness that warms the library up first can never see an initialisation race)
	for (unsigned t = 0; t < nthreads; ++t) th.emplace_back([&, t] { res[t] = run(seed, ops); });
	for (auto& t : th) t.join();
	uint64_t seq = run(seed, ops);
	bool same = true; for (auto r : res) same = same && (r == seq);
	std::printf("thr %s %u %u => %llx %d\n", name, nthreads, ops, (unsigned long long)seq, same ? 1 : 0);
}

int main(int argc, char** argv) {
	unsigned nthreads = argc > 1 ? (unsigned)std::atoi(argv[1]) : 4, ops = argc > 2 ? (unsigned)std::atoi(argv[2]) : 2000;
	family("posit16_1", nthreads, ops, [](uint64_t s, unsigned n) { using T = posit<16,1>;
		return program<T>(s, n, [](T& p, uint64_t b) { p.setbits(b & 0xffff); }, [](const T& p) { return (uint64_t)p.bits(); }); });
	family("posit32_2", nthreads, ops, [](uint64_t s, unsigned n) { using T = posit<32,2>;
		return program<T>(s, n, [](T& p, uint64_t b) { p.setbits(b & 0xffffffffull); }, [](const T& p) { return (uint64_t)p.bits(); }); });
	family("cfloat16_5", nthreads, ops, [](uint64_t s, unsigned n) { using T = cfloat<16,5,uint16_t,true,false,false>;
		return program<T>(s, n, [](T& p, uint64_t b) { p.setbits(b & 0xffff); }, [](const T& p) { return uv::double2bits(double(p)) ; }); });
	family("fixpnt16_8", nthreads, ops, [](uint64_t s, unsigned n) { using T = fixpnt<16,8,Modulo,uint16_t>;
		return program<T>(s, n, [](T& p, uint64_t b) { p.setbits(b & 0xffff); }, [](const T& p) { return uv::double2bits(double(p)); }); });
	family("integer40", nthreads, ops, [](uint64_t s, unsigned n) { using T = integer<40,uint8_t>;
		return program<T>(s, n, [](T& p, uint64_t b) { p.setbits(b & 0xffffffffffull); }, [](const T& p) { return (uint64_t)(long long)p; }); });
	family("lns16_8", nthreads, ops, [](uint64_t s, unsigned n) { using T = lns<16,8,uint16_t>;
		return program<T>(s, n, [](T& p, uint64_t b) { p.setbits(b & 0xffff); }, [](const T& p) { return uv::double2bits(double(p)); }); });
	family("dd", nthreads, ops, [](uint64_t s, unsigned n) { using T = dd;
		return program<T>(s, n, [](T& p, uint64_t b) { p = dd(double(int64_t(b >> 12)) * 0x1p-20); }, [](const T& p) { return uv::double2bits(p.high()) ^ (uv::double2bits(p.low()) << 1); }); });
	return 0;
}
