// h_ub.cpp — C20: operations known (or suspected) to leave defined behaviour, each executed in a forked child of a
// -fsanitize=undefined build so that an abort / signal is observed without killing the harness.
// line: ub <site id> => ok | abort:<signal or exit code>
#include <universal/number/posit/posit.hpp>
#include <universal/number/integer/integer.hpp>
#include <universal/number/areal/areal.hpp>
#include <universal/number/cfloat/cfloat.hpp>
#include <universal/number/fixpnt/fixpnt.hpp>
#include <universal/number/qd/qd.hpp>
#include <fcntl.h>
#include <sys/wait.h>
#include <unistd.h>
#include <climits>
#include <functional>
#include "proto.hpp"
using namespace sw::universal;

static void probe(const char* id, const std::function<void()>& f) {
	std::fflush(stdout);
	pid_t pid = fork();
	if (pid == 0) {
		int fd = open("/dev/null", 1); if (fd >= 0) { dup2(fd, 2); }
		f();
		_exit(0);
	}
	int st = 0; waitpid(pid, &st, 0);
	if (WIFEXITED(st) && WEXITSTATUS(st) == 0) std::printf("ub %s => ok\n", id);
	else if (WIFSIGNALED(st)) std::printf("ub %s => abort:sig%d\n", id, WTERMSIG(st));
	else std::printf("ub %s => abort:exit%d\n", id, WEXITSTATUS(st));
}

int main() {
	uv::Out out;
	volatile long long llmin = LLONG_MIN; volatile int m1 = -1;
	probe("posit.from_llong_min.negation_overflow", [&] { posit<32, 2> p; p = (long long)llmin; volatile uint64_t b = p.bits(); (void)b; });
	probe("integer32.div.maxneg_by_minus1", [&] { integer<32, uint32_t> a, b; a.setbits(0x80000000u); b = (int)m1; a /= b; volatile long long r = (long long)a; (void)r; });
	probe("integer64.rem.maxneg_by_minus1", [&] { integer<64, uint64_t> a, b; a.setbits(0x8000000000000000ull); b = (int)m1; a %= b; volatile long long r = (long long)a; (void)r; });
	probe("areal.to_native.es8.shift", [&] { areal<16, 8, uint16_t> a; a.setbits(0x0080); volatile double d = double(a); (void)d; });
#if defined(__x86_64__) && __LDBL_MANT_DIG__ == 64 && LONG_DOUBLE_SUPPORT
	// convert_ieee754<long double>: a value in [minpos/2, minpos) of a target with subnormals and fbits < 63 needs a shift count of 63 - fbits + fbits + 1 = 64 (guarded since the repair)
	probe("cfloat.from_long_double.shift64", [&] { volatile long double x = 0x1p-10L; cfloat<8, 4, uint8_t, true, false, false> c; c = (long double)x; volatile unsigned b = c.block(0); (void)b; });
	// convert_ieee754 'source is subnormal' branch: `mask = 0x00FF'FFFFu >> (fbits + exponent + subnormal_reciprocal_shift[es] + 1)` — a
	// 32-bit value shifted by fbits = 48 for a subnormal long double into cfloat<64,15> (the mask is not used afterwards)
	probe("cfloat.from_ieee.subnormal_source.mask_shift", [&] { volatile long double x = 0x1p-16400L; cfloat<64, 15, uint32_t, true, false, false> c; c = (long double)x; volatile unsigned b = c.block(0); (void)b; });
	// control: the smallest subnormal itself shifts by 63
	probe("control.cfloat.from_long_double.minpos", [&] { volatile long double x = 0x1p-9L; cfloat<8, 4, uint8_t, true, false, false> c; c = (long double)x; volatile unsigned b = c.block(0); (void)b; });
#endif
	probe("fixpnt.from_int_min.negation_overflow", [&] { volatile int im = INT_MIN; fixpnt<40, 4, Modulo, uint8_t> f; f = (int)im; volatile double d = double(f); (void)d; });
	probe("qd.from_int64_max.cast_overflow", [&] { volatile long long big = LLONG_MAX; qd q((long long)big); volatile double d = q[0]; (void)d; });
	// controls: must be clean
	probe("control.posit.add", [&] { posit<16, 1> a(1.5), b(2.25); a += b; volatile uint64_t r = a.bits(); (void)r; });
	probe("control.integer.div", [&] { integer<32, uint32_t> a(100), b(7); a /= b; volatile long long r = (long long)a; (void)r; });
	return 0;
}
