// limbio.hpp — wide operands for the blockbinary / integer / fixpnt harnesses.
// Big is a 384-bit little-endian bit vector used only to carry encodings between the PRNG, the library
// types (through setblock()/block()) and the hex text of the transcript. No arithmetic of the library is
// re-implemented here.
#pragma once
#include <csetjmp>
#include <csignal>
#include <cstdint>
#include <cstdio>
#include <cstring>
#include <string>
#include "proto.hpp"

namespace uv {

struct Big {
	static constexpr unsigned W = 6;
	uint64_t v[W];
	Big() { for (unsigned i = 0; i < W; ++i) v[i] = 0; }
	explicit Big(uint64_t x) { for (unsigned i = 0; i < W; ++i) v[i] = 0; v[0] = x; }
	bool bit(unsigned i) const { return i < 64 * W && ((v[i / 64] >> (i % 64)) & 1u); }
	void setbit(unsigned i, bool b = true) {
		if (i >= 64 * W) return;
		if (b) v[i / 64] |= (1ull << (i % 64)); else v[i / 64] &= ~(1ull << (i % 64));
	}
	// bits [pos, pos+width), width <= 64
	uint64_t slice(unsigned pos, unsigned width) const {
		uint64_t r = 0;
		unsigned wi = pos / 64, sh = pos % 64;
		if (wi < W) r = v[wi] >> sh;
		if (sh && wi + 1 < W) r |= v[wi + 1] << (64 - sh);
		return width >= 64 ? r : (r & ((1ull << width) - 1));
	}
	void put(unsigned pos, unsigned width, uint64_t x) {
		for (unsigned i = 0; i < width; ++i) setbit(pos + i, (x >> i) & 1u);
	}
	void truncate(unsigned nbits) {
		for (unsigned i = nbits; i < 64 * W; ++i) if (bit(i)) setbit(i, false);
	}
	bool iszero() const { for (unsigned i = 0; i < W; ++i) if (v[i]) return false; return true; }
	bool operator==(const Big& o) const { return std::memcmp(v, o.v, sizeof v) == 0; }
	std::string hex() const {
		int top = W - 1;
		while (top > 0 && v[top] == 0) --top;
		char buf[32];
		std::snprintf(buf, sizeof buf, "%llx", (unsigned long long)v[top]);
		std::string s = buf;
		for (int i = top - 1; i >= 0; --i) { std::snprintf(buf, sizeof buf, "%016llx", (unsigned long long)v[i]); s += buf; }
		return s;
	}
	static Big fromhex(const char* s) {
		Big r;
		size_t len = std::strlen(s);
		for (size_t i = 0; i < len; ++i) {
			char c = s[len - 1 - i];
			unsigned d = (c >= '0' && c <= '9') ? unsigned(c - '0') : (c >= 'a' && c <= 'f') ? unsigned(c - 'a' + 10) : (c >= 'A' && c <= 'F') ? unsigned(c - 'A' + 10) : 0u;
			r.put(unsigned(4 * i), 4, d);
		}
		return r;
	}
	// helpers used only to BUILD operands (never to judge results)
	static Big ones(unsigned nbits) { Big r; for (unsigned i = 0; i < nbits; ++i) r.setbit(i); return r; }
	static Big pow2(unsigned k) { Big r; r.setbit(k); return r; }
	// two's complement negation inside nbits, used to build "near -a" operands
	Big negated(unsigned nbits) const {
		Big r; bool carry = true;
		for (unsigned i = 0; i < nbits; ++i) { bool b = !bit(i); bool s = b ^ carry; carry = b && carry; r.setbit(i, s); }
		return r;
	}
	Big plus(int64_t d, unsigned nbits) const {   // add a small signed constant modulo 2^nbits
		Big r; bool neg = d < 0; uint64_t m = neg ? uint64_t(-d) : uint64_t(d);
		if (!neg) { unsigned carry = 0; for (unsigned i = 0; i < nbits; ++i) { unsigned a = bit(i), b = i < 64 ? unsigned((m >> i) & 1u) : 0u; unsigned s = a + b + carry; r.setbit(i, s & 1u); carry = s >> 1; } }
		else { unsigned borrow = 0; for (unsigned i = 0; i < nbits; ++i) { int a = bit(i), b = i < 64 ? int((m >> i) & 1u) : 0; int s = a - b - int(borrow); r.setbit(i, (s & 1) != 0); borrow = s < 0; } }
		return r;
	}
};

// load / store through the public limb interface of blockbinary and integer
template<typename T> inline void load(T& t, const Big& b) {
	using bt = typename T::BlockType;
	constexpr unsigned w = 8 * sizeof(bt);
	t.clear();
	for (unsigned i = 0; i < T::nrBlocks; ++i) t.setblock(i, bt(b.slice(i * w, w)));
}
template<typename T> inline Big store(const T& t) {
	using bt = typename T::BlockType;
	constexpr unsigned w = 8 * sizeof(bt);
	Big r;
	for (unsigned i = 0; i < T::nrBlocks; ++i) r.put(i * w, w, uint64_t(t.block(i)));
	return r;
}

// structured operand of nbits: aimed at carry chains across 8/16/32-bit limb boundaries, the extremes,
// small magnitudes, single bits, long runs
inline Big operand(Rng& g, unsigned nbits) {
	Big r;
	auto rnd = [&](unsigned n) { Big x; for (unsigned i = 0; i < Big::W; ++i) x.v[i] = g.next(); x.truncate(n); return x; };
	switch (g.below(12)) {
	case 0: case 1: return rnd(nbits);
	case 2: { int64_t d = int64_t(g.below(33)) - 16; return Big().plus(d, nbits); }                     // small magnitude, both signs
	case 3: { Big m = Big::ones(nbits - 1); int64_t d = -int64_t(g.below(5)); return m.plus(d, nbits); }  // near maxpos
	case 4: { Big m = Big::pow2(nbits - 1); int64_t d = int64_t(g.below(5)); return m.plus(d, nbits); }   // near maxneg
	case 5: { unsigned k = unsigned(g.below(nbits + 1)); Big m = Big::ones(k); return g.coin() ? m : m.negated(nbits); } // 2^k-1 : carry chain
	case 6: { unsigned k = unsigned(g.below(nbits)); Big m = Big::pow2(k); int64_t d = int64_t(g.below(3)) - 1; Big x = m.plus(d, nbits); return g.coin() ? x : x.negated(nbits); }
	case 7: { // limb-boundary pattern: all ones below a multiple of 8, random above
		unsigned k = 8 * unsigned(g.below(nbits / 8 + 1)); Big x = rnd(nbits); for (unsigned i = 0; i < k && i < nbits; ++i) x.setbit(i); return x; }
	case 8: { // all zeros below a multiple of 8, random above
		unsigned k = 8 * unsigned(g.below(nbits / 8 + 1)); Big x = rnd(nbits); for (unsigned i = 0; i < k && i < nbits; ++i) x.setbit(i, false); return x; }
	case 9: { // random with a run of ones / zeros at a random place
		Big x = rnd(nbits); unsigned a = unsigned(g.below(nbits)), len = unsigned(g.below(nbits - a + 1)); bool b = g.coin();
		for (unsigned i = a; i < a + len; ++i) x.setbit(i, b); return x; }
	case 10: { // short magnitude: only the low k bits random (divisors, multi-limb by single-limb)
		unsigned k = 1 + unsigned(g.below(nbits)); Big x = rnd(k); return g.coin() ? x : x.negated(nbits); }
	default: return g.coin() ? Big() : Big::ones(nbits);                                                   // 0 / -1
	}
}

// second operand related to the first
inline Big partner(Rng& g, const Big& a, unsigned nbits) {
	switch (g.below(8)) {
	case 0: case 1: case 2: return operand(g, nbits);
	case 3: return a.negated(nbits).plus(int64_t(g.below(5)) - 2, nbits);   // near cancellation
	case 4: return a.plus(int64_t(g.below(5)) - 2, nbits);                  // near equal
	case 5: { Big x = a; x.setbit(unsigned(g.below(nbits)), g.coin()); return x; }
	case 6: { Big x; for (unsigned i = 0; i < nbits; ++i) x.setbit(i, !a.bit(i)); return x; } // complement
	default: { unsigned k = 1 + unsigned(g.below(nbits < 12 ? nbits : 12)); Big x; for (unsigned i = 0; i < k; ++i) x.setbit(i, g.coin()); if (x.iszero()) x.setbit(0); return g.coin() ? x : x.negated(nbits); }
	}
}

// run f(); returns false when the hardware raised SIGFPE (native INT_MIN / -1)
extern "C" inline void uv_on_fpe(int);
inline sigjmp_buf& fpe_jb() { static sigjmp_buf jb; return jb; }
extern "C" inline void uv_on_fpe(int) { siglongjmp(fpe_jb(), 1); }
inline void install_fpe_handler() {
	struct sigaction sa; std::memset(&sa, 0, sizeof sa); sa.sa_handler = uv_on_fpe; sigemptyset(&sa.sa_mask); sa.sa_flags = SA_NODEFER;
	sigaction(SIGFPE, &sa, nullptr);
}
template<typename F> inline bool guarded(F&& f) {
	if (sigsetjmp(fpe_jb(), 1) == 0) { f(); return true; }
	return false;
}

inline void silence_stderr() { if (!std::freopen("/dev/null", "w", stderr)) {} }

} // namespace uv
