// ops_bb.hpp — one place where the harnesses call blockbinary<nbits, bt, Signed> directly.
// Results are the RAW storage (block(i)) as hex, "trap", or a small number.
#pragma once
#include <universal/internal/blockbinary/blockbinary.hpp>
#include "limbio.hpp"

namespace uvbb {
using namespace sw::universal;

enum Op { ADD, SUB, MUL, DIV, REM, CMP, URADD, URSUB, URMUL2, NEG, INC, DEC, MSB, SHL, SHR, RMODE, ANY };
inline const char* opname(Op o) {
	static const char* n[] = { "add","sub","mul","div","rem","cmp","uradd","ursub","urmul2","neg","inc","dec","msb","shl","shr","rmode","any" };
	return n[o];
}

template<unsigned nbits, typename bt>
struct BbOps {
	using B = blockbinary<nbits, bt, BinaryNumberType::Signed>;
	static constexpr unsigned w = 8 * sizeof(bt);
	static B mk(const uv::Big& b) { B x; uv::load(x, b); return x; }
	template<typename T> static std::string out(const T& x) { return uv::store(x).hex(); }
	static std::string num(long long v) { char buf[32]; std::snprintf(buf, sizeof buf, "%lld", v); return buf; }

	static std::string bin(Op op, const uv::Big& a, const uv::Big& b) {
		B x = mk(a), y = mk(b);
		switch (op) {
		case ADD: return out(x + y);
		case SUB: return out(x - y);
		case MUL: return out(x * y);
		case DIV: case REM: {
			B r; r.clear();
			bool ok = true;
			if constexpr (nbits == w && w >= 32) ok = uv::guarded([&] { r = (op == DIV) ? (x / y) : (x % y); });
			else r = (op == DIV) ? (x / y) : (x % y);
			return ok ? out(r) : std::string("trap");
		}
		case CMP: {
			unsigned m = (x == y ? 1u : 0u) | (x != y ? 2u : 0u) | (x < y ? 4u : 0u) | (x <= y ? 8u : 0u) | (x > y ? 16u : 0u) | (x >= y ? 32u : 0u);
			char buf[8]; std::snprintf(buf, sizeof buf, "%x", m); return buf;
		}
		case URADD: return out(uradd(x, y));
		case URSUB: return out(ursub(x, y));
		case URMUL2: return out(urmul2(x, y));
		default: return "?";
		}
	}
	static std::string un(Op op, const uv::Big& a) {
		B x = mk(a);
		switch (op) {
		case NEG: return out(-x);
		case INC: { B y = x; ++y; return out(y); }
		case DEC: { B y = x; --y; return out(y); }
		case MSB: return num(x.msb());
		default: return "?";
		}
	}
	static std::string sh(Op op, const uv::Big& a, int k) {
		B x = mk(a);
		switch (op) {
		case SHL: x <<= k; return out(x);
		case SHR: x >>= k; return out(x);
		case RMODE: return num(x.roundingMode(unsigned(k)) ? 1 : 0);
		case ANY: return num(x.any(unsigned(k)) ? 1 : 0);
		default: return "?";
		}
	}
};

} // namespace uvbb
