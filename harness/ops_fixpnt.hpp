// ops_fixpnt.hpp — one place where the harnesses call the operators of fixpnt<nbits, rbits, arithmetic, bt>.
// Encodings go in through a blockbinary (setblock) and come out as the RAW storage of bits() (block(i)).
#pragma once
#include <universal/number/fixpnt/fixpnt.hpp>
#include "limbio.hpp"

namespace uvfix {
using namespace sw::universal;

enum Op { ADD, SUB, MUL, DIV, CMP, NEG, INC, DEC, SHL, SHR };
inline const char* opname(Op o) {
	static const char* n[] = { "add","sub","mul","div","cmp","neg","inc","dec","shl","shr" };
	return n[o];
}

template<unsigned nbits, unsigned rbits, bool arith, typename bt>
struct FixOps {
	using F = fixpnt<nbits, rbits, arith, bt>;
	using B = blockbinary<nbits, bt, BinaryNumberType::Signed>;
	static constexpr unsigned w = 8 * sizeof(bt);
	static F mk(const uv::Big& b) { B bb; uv::load(bb, b); F f; f = bb; return f; }
	static std::string out(const F& f) { return uv::store(f.bits()).hex(); }

	static std::string bin(Op op, const uv::Big& a, const uv::Big& b) {
		F x = mk(a), y = mk(b);
		switch (op) {
		// equal encodings: use ONE object on both sides (x op= x) — the result must not depend on aliasing
		case ADD: if (a == b) { x += x; return out(x); } return out(x + y);
		case SUB: if (a == b) { x -= x; return out(x); } return out(x - y);
		case MUL: if (a == b) { x *= x; return out(x); } return out(x * y);
		case DIV: {
			F r; r.clear();
			bool ok = uv::guarded([&] { r = x / y; });
			return ok ? out(r) : std::string("trap");
		}
		case CMP: {
			unsigned m = (x == y ? 1u : 0u) | (x != y ? 2u : 0u) | (x < y ? 4u : 0u) | (x <= y ? 8u : 0u) | (x > y ? 16u : 0u) | (x >= y ? 32u : 0u);
			char buf[8]; std::snprintf(buf, sizeof buf, "%x", m); return buf;
		}
		default: return "?";
		}
	}
	static std::string un(Op op, const uv::Big& a) {
		F x = mk(a);
		switch (op) {
		case NEG: return out(-x);
		case INC: { F y = x; ++y; return out(y); }
		case DEC: { F y = x; --y; return out(y); }
		default: return "?";
		}
	}
	static std::string sh(Op op, const uv::Big& a, int k) {
		F x = mk(a);
		if (op == SHL) x <<= k; else x >>= k;
		return out(x);
	}
};

} // namespace uvfix
