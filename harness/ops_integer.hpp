// ops_integer.hpp — one place where the harnesses call the operators of integer<nbits, bt>.
// Results are the RAW storage (all nrBlocks*bitsInBlock bits through block(i)) as hex, or "trap".
#pragma once
#include <universal/number/integer/integer.hpp>
#include "limbio.hpp"

namespace uvint {
using namespace sw::universal;

template<typename bt> struct BtName;
template<> struct BtName<uint8_t>  { static constexpr const char* s = "u8"; };
template<> struct BtName<uint16_t> { static constexpr const char* s = "u16"; };
template<> struct BtName<uint32_t> { static constexpr const char* s = "u32"; };
template<> struct BtName<uint64_t> { static constexpr const char* s = "u64"; };

enum Op { ADD, SUB, MUL, DIV, REM, AND, OR, XOR, CMP, NEG, NOT, INC, DEC, TOI64, TOU64, SHL, SHR };
inline const char* opname(Op o) {
	static const char* n[] = { "add","sub","mul","div","rem","and","or","xor","cmp","neg","not","inc","dec","toi64","tou64","shl","shr" };
	return n[o];
}

template<unsigned nbits, typename bt>
struct IntOps {
	using I = integer<nbits, bt, IntegerNumberType::IntegerNumber>;
	static constexpr unsigned w = 8 * sizeof(bt);
	static constexpr bool nativeDiv = (nbits == w);
	static I mk(const uv::Big& b) { I x; uv::load(x, b); return x; }
	static std::string out(const I& x) { return uv::store(x).hex(); }
	static bool isMinusOne(const uv::Big& b) { return b == uv::Big::ones(nbits); }
	static bool isMaxneg(const uv::Big& b) { return b == uv::Big::pow2(nbits - 1); }

	static std::string bin(Op op, const uv::Big& a, const uv::Big& b) {
		I x = mk(a), y = mk(b);
		switch (op) {
		// equal encodings: use ONE object on both sides (x op= x) — the result must not depend on aliasing
		case ADD: if (a == b) { x += x; return out(x); } return out(x + y);
		case SUB: if (a == b) { x -= x; return out(x); } return out(x - y);
		case MUL: if (a == b) { x *= x; return out(x); } return out(x * y);
		case DIV: case REM: {
			I r; r.clear();
			bool ok = true;
			if constexpr (nativeDiv && w >= 32) ok = uv::guarded([&] { r = (op == DIV) ? (x / y) : (x % y); });
			else r = (op == DIV) ? (x / y) : (x % y);
			return ok ? out(r) : std::string("trap");
		}
		case AND: return out(x & y);
		case OR:  return out(x | y);
		case XOR: return out(x ^ y);
		case CMP: {
			unsigned m = (x == y ? 1u : 0u) | (x != y ? 2u : 0u) | (x < y ? 4u : 0u) | (x <= y ? 8u : 0u) | (x > y ? 16u : 0u) | (x >= y ? 32u : 0u);
			char buf[8]; std::snprintf(buf, sizeof buf, "%x", m); return buf;
		}
		default: return "?";
		}
	}
	static std::string un(Op op, const uv::Big& a) {
		I x = mk(a);
		char buf[32];
		switch (op) {
		case NEG: return out(-x);
		case NOT: return out(~x);
		case INC: { I y = x; ++y; return out(y); }
		case DEC: { I y = x; --y; return out(y); }
		case TOI64: { long long v = (long long)x; std::snprintf(buf, sizeof buf, "%llx", (unsigned long long)v); return buf; }
		case TOU64: { unsigned long long v = (unsigned long long)x; std::snprintf(buf, sizeof buf, "%llx", v); return buf; }
		default: return "?";
		}
	}
	static std::string sh(Op op, const uv::Big& a, int k) {
		I x = mk(a);
		if (op == SHL) x <<= k; else x >>= k;
		return out(x);
	}
	template<unsigned m> static std::string cvt(const uv::Big& a) {
		I x = mk(a);
		integer<m, bt, IntegerNumberType::IntegerNumber> y(x);
		return uv::store(y).hex();
	}
	static std::string fromi64(long long v) { I x(v); return out(x); }
	static std::string fromu64(unsigned long long v) { I x(v); return out(x); }
};

// the conversion targets exercised for a source size n
template<unsigned n> struct Targets {
	static constexpr unsigned t0 = n + 1;
	static constexpr unsigned t1 = n > 1 ? n - 1 : 1;
	static constexpr unsigned t2 = n + 8;
	static constexpr unsigned t3 = 2 * n + 3;
	static constexpr unsigned t4 = (n + 1) / 2;
};

} // namespace uvint
