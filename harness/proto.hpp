// proto.hpp — transcript writer and PRNG shared by all harness translation units.
// One operation per line:  family cfg... op in... => out...   (hex, lower case, no 0x)
#pragma once
#include <cstdint>
#include <cstdio>
#include <cstdlib>
#include <cstring>
#include <string>

namespace uv {

struct Rng {
	uint64_t s;
	explicit Rng(uint64_t seed) : s(seed * 0x9E3779B97F4A7C15ull + 0xD1B54A32D192ED03ull) { if (!s) s = 1; next(); next(); }
	uint64_t next() { s ^= s >> 12; s ^= s << 25; s ^= s >> 27; return s * 0x2545F4914F6CDD1Dull; }
	uint64_t below(uint64_t n) { return n ? next() % n : 0; }
	bool coin() { return next() & 1; }
};

inline uint64_t seed_from_env() {
	const char* e = std::getenv("VERIF_SEED");
	return e ? std::strtoull(e, nullptr, 10) : 1ull;
}

inline uint64_t mask(unsigned n) { return n >= 64 ? ~0ull : ((1ull << n) - 1); }

// big output buffer: the transcript is written with fwrite in large chunks
struct Out {
	FILE* f;
	explicit Out(FILE* f_ = stdout) : f(f_) { static char buf[1 << 20]; setvbuf(f, buf, _IOFBF, sizeof buf); }
};

// crash localisation: with UV_MARK=1 every operation is announced (and flushed) before it is executed, so the last
// "# at" line of an aborted run names the operands that crashed
inline bool mark_enabled() { static int e = -1; if (e < 0) { const char* v = std::getenv("UV_MARK"); e = (v && *v == '1') ? 1 : 0; } return e == 1; }
#define UV_MARK(...) do { if (uv::mark_enabled()) { std::printf("# at " __VA_ARGS__); std::printf("\n"); std::fflush(stdout); } } while (0)

inline double bits2double(uint64_t b) { double d; std::memcpy(&d, &b, 8); return d; }
inline uint64_t double2bits(double d) { uint64_t b; std::memcpy(&b, &d, 8); return b; }
inline float bits2float(uint32_t b) { float d; std::memcpy(&d, &b, 4); return d; }
inline uint32_t float2bits(float d) { uint32_t b; std::memcpy(&b, &d, 4); return b; }

} // namespace uv
