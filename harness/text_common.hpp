// text_common.hpp — helpers shared by the h_text_*.cpp harness translation units (property C16).
// Line protocol:  text <family> <cfg…> <op> <input> => <output>
// Encodings travel as lower-case hex without prefix (arbitrary width), strings verbatim (they never contain
// blanks; a blank would be written as '_' here and in the Lean handler alike).
#pragma once
#include <clocale>
#include <cstdint>
#include <cstdio>
#include <iostream>
#include <sstream>
#include <streambuf>
#include <string>
#include <vector>
#include "proto.hpp"

namespace uvt {

// the library chats on std::cout / std::cerr ("found an octal representation", "string is too short" …);
// the transcript is written with printf on stdout, so both C++ streams are pointed at a sink.
struct NullBuf : std::streambuf { int overflow(int c) override { return c; } };
inline void silence_iostreams() {
	static NullBuf nb;
	std::cout.rdbuf(&nb);
	std::cerr.rdbuf(&nb);
	std::setlocale(LC_ALL, "C");
	std::locale::global(std::locale::classic());
}

// an encoding of arbitrary width, bit 0 first
struct Bits {
	std::vector<uint8_t> b;
	explicit Bits(unsigned n = 0) : b(n, 0) {}
	unsigned size() const { return (unsigned)b.size(); }
	static Bits of_u64(unsigned n, uint64_t v) { Bits r(n); for (unsigned i = 0; i < n && i < 64; ++i) r.b[i] = (v >> i) & 1; return r; }
	std::string hex() const {
		static const char* hx = "0123456789abcdef";
		std::string s;
		unsigned nn = (size() + 3) / 4;
		bool started = false;
		for (int k = (int)nn - 1; k >= 0; --k) {
			unsigned d = 0;
			for (unsigned j = 0; j < 4; ++j) { unsigned i = (unsigned)k * 4 + j; if (i < size() && b[i]) d |= 1u << j; }
			if (d || started || k == 0) { s += hx[d]; started = true; }
		}
		return s;
	}
};

// structured encodings: uniform, sparse, dense, runs, boundary values
inline Bits random_bits(uv::Rng& g, unsigned n) {
	Bits r(n);
	switch (g.below(8)) {
	case 0: case 1: for (unsigned i = 0; i < n; ++i) r.b[i] = g.coin(); break;
	case 2: { unsigned k = 1 + (unsigned)g.below(3); for (unsigned j = 0; j < k; ++j) r.b[g.below(n)] = 1; break; }             // sparse
	case 3: { for (unsigned i = 0; i < n; ++i) r.b[i] = 1; unsigned k = (unsigned)g.below(3); for (unsigned j = 0; j < k; ++j) r.b[g.below(n)] = 0; break; } // dense
	case 4: { unsigned lo = (unsigned)g.below(n), hi = lo + (unsigned)g.below(n - lo) ; for (unsigned i = lo; i <= hi && i < n; ++i) r.b[i] = 1; break; }     // one run
	case 5: { unsigned k = (unsigned)g.below(n + 1); for (unsigned i = 0; i < k; ++i) r.b[i] = g.coin(); break; }                  // small magnitude
	case 6: { unsigned k = (unsigned)g.below(n + 1); for (unsigned i = 0; i < n; ++i) r.b[i] = i < k ? g.coin() : 1; break; }      // small negative
	default: { // boundary: 0, 1, -1, maxneg, maxpos, +-small
		switch (g.below(6)) {
		case 0: break;
		case 1: r.b[0] = 1; break;
		case 2: for (unsigned i = 0; i < n; ++i) r.b[i] = 1; break;
		case 3: r.b[n - 1] = 1; break;
		case 4: for (unsigned i = 0; i + 1 < n; ++i) r.b[i] = 1; break;
		default: r.b[n - 1] = 1; r.b[0] = 1; break;
		}
	}
	}
	return r;
}

inline std::string sanitize(const std::string& s) {
	std::string r = s;
	for (auto& c : r) if (c == ' ') c = '_';
	return r;
}

inline void emit(const char* head, const std::string& in, const std::string& out) {
	std::printf("text %s %s => %s\n", head, sanitize(in).c_str(), sanitize(out).c_str());
}

template<typename T> inline Bits read_bits(const T& v, unsigned n) { Bits r(n); for (unsigned i = 0; i < n; ++i) r.b[i] = v.at(i) ? 1 : 0; return r; }
template<typename T> inline void write_bits(T& v, const Bits& x) { v.clear(); for (unsigned i = 0; i < x.size(); ++i) v.setbit(i, x.b[i] != 0); }

inline Bits bits_from_hex(const std::string& h, unsigned n) {
	Bits r(n);
	unsigned pos = 0;
	for (int i = (int)h.size() - 1; i >= 0; --i, pos += 4) {
		char c = h[(size_t)i];
		unsigned d = (c >= '0' && c <= '9') ? (unsigned)(c - '0') : (c >= 'a' && c <= 'f') ? (unsigned)(c - 'a' + 10) : (c >= 'A' && c <= 'F') ? (unsigned)(c - 'A' + 10) : 0u;
		for (unsigned j = 0; j < 4; ++j) if (pos + j < n && ((d >> j) & 1)) r.b[pos + j] = 1;
	}
	return r;
}

// the left-hand side tokens of the `text …` lines of a replay / corpus file (comment lines and foreign families skipped)
inline std::vector<std::vector<std::string>> read_replay(const char* path) {
	std::vector<std::vector<std::string>> out;
	FILE* f = std::fopen(path, "r");
	if (!f) return out;
	char buf[1 << 16];
	while (std::fgets(buf, sizeof buf, f)) {
		std::vector<std::string> t;
		std::istringstream ss(buf);
		std::string w;
		while (ss >> w) { if (w == "=>") break; t.push_back(w); }
		if (t.size() >= 3 && t[0] == "text") out.push_back(t);
	}
	std::fclose(f);
	return out;
}

inline const char* btname(unsigned bytes) { return bytes == 1 ? "u8" : bytes == 2 ? "u16" : bytes == 4 ? "u32" : "u64"; }

inline char pick(uv::Rng& g, const char* alphabet) { size_t n = std::strlen(alphabet); return alphabet[g.below(n)]; }

} // namespace uvt
