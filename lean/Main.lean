import Std.Data.HashMap
import Std.Data.HashSet
import UVerif.Driver.All
open UVerif.Driver

structure Stats where
  total : Nat := 0
  ok : Nat := 0
  diff : Nat := 0
  specfail : Nat := 0
  bad : Nat := 0
  tags : Std.HashMap String Nat := {}
  shownD : Nat := 0
  noncanon : Nat := 0
  clsCount : Std.HashMap String Nat := {}
  seen : Std.HashSet UInt64 := {}
  distinct : Nat := 0
  first : Nat := 0

def maxShown : Nat := 2000
def maxShownPerClass : Nat := 200

partial def loop (h : IO.FS.Stream) (st : Stats) (lineno : Nat) : IO Stats := do
  let line ← h.getLine
  if line.isEmpty then return st
  let l := line.trimAscii.toString
  if l.isEmpty || l.startsWith "#" then return ← loop h st (lineno + 1)
  match splitLine l with
  | none => loop h { st with total := st.total + 1, bad := st.bad + 1 } (lineno + 1)
  | some (lhs, rhs) =>
    match lhs with
    | fam :: rest =>
      match lookupHandler fam with
      | none =>
        IO.println s!"B {lineno} unknown-family | {l}"
        loop h { st with total := st.total + 1, bad := st.bad + 1 } (lineno + 1)
      | some hd =>
        match hd rest rhs with
        | .error e =>
          IO.println s!"B {lineno} {e} | {l}"
          loop h { st with total := st.total + 1, bad := st.bad + 1 } (lineno + 1)
        | .ok r =>
          let implOut := joinToks rhs
          let isDiff := r.model != implOut
          let st := { st with total := st.total + 1, tags := st.tags.insert r.tag (st.tags.getD r.tag 0 + 1) }
          let mut st := st
          if st.first < 2 then
            IO.println s!"F {l}"
            st := { st with first := st.first + 1 }
          if !r.trivial then
            let hsh := hash l
            if !st.seen.contains hsh then
              st := { st with seen := st.seen.insert hsh, distinct := st.distinct + 1 }
          if isDiff then
            if st.shownD < maxShown then
              IO.println s!"D {lineno} model={r.model} | {l}"
            st := { st with diff := st.diff + 1, shownD := st.shownD + 1 }
          if !r.specOk then
            let c := if r.cls.isEmpty then "-" else r.cls
            let k := st.clsCount.getD c 0
            if k < maxShownPerClass then
              IO.println s!"S {lineno} class={c} modeldiff={isDiff} reason={r.reason} | {l}"
            st := { st with specfail := st.specfail + 1, clsCount := st.clsCount.insert c (k + 1) }
          if !r.canonical then
            IO.println s!"K {lineno} non-canonical output | {l}"
            st := { st with noncanon := st.noncanon + 1 }
          if !isDiff && r.specOk then st := { st with ok := st.ok + 1 }
          loop h st (lineno + 1)
    | [] => loop h { st with total := st.total + 1, bad := st.bad + 1 } (lineno + 1)

def main (args : List String) : IO UInt32 := do
  let h ← match args with
    | [f] => do
      let hd ← IO.FS.Handle.mk f .read
      pure (IO.FS.Stream.ofHandle hd)
    | _ => IO.getStdin
  let st ← loop h {} 1
  for (t, c) in st.tags.toList do
    IO.println s!"T {t} {c}"
  for (c, k) in st.clsCount.toList do
    IO.println s!"C {c} {k}"
  IO.println s!"N total={st.total} ok={st.ok} diff={st.diff} specfail={st.specfail} bad={st.bad} distinct={st.distinct} noncanon={st.noncanon}"
  return 0
