import UVerif.Basic
import UVerif.Spec.Posit
import UVerif.Model.Posit
import UVerif.Driver.All
