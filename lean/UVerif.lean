import UVerif.Basic
import UVerif.Spec.Posit
import UVerif.Model.Posit
import UVerif.Model.PositConv
import UVerif.Spec.Ieee
import UVerif.Model.Quire
import UVerif.Driver.All
