/-
  UVerif.Basic — shared helpers for models, specs and the line-protocol driver.
  Core Lean only (no Mathlib) so that `uvdriver` links.
-/

namespace UVerif

/-- 2^e as a rational for an integer exponent. -/
def pow2 (e : Int) : Rat :=
  if e ≥ 0 then ((2 ^ e.toNat : Nat) : Rat) else 1 / ((2 ^ (-e).toNat : Nat) : Rat)

/-- m · 2^e as a rational (dyadic). -/
def dyadic (m : Int) (e : Int) : Rat := (m : Rat) * pow2 e

/-- bit `i` of `v`. -/
@[inline] def bit (v i : Nat) : Bool := v.testBit i

/-- keep the low `n` bits. -/
@[inline] def lowBits (v n : Nat) : Nat := v % 2 ^ n

/-- two's complement in `n` bits (as the C++ `twos_complement(bitblock<n>)`). -/
@[inline] def twosComp (n v : Nat) : Nat := (2 ^ n - v % 2 ^ n) % 2 ^ n

/-- signed reading of an `n`-bit pattern. -/
def toSigned (n v : Nat) : Int :=
  if n = 0 then 0 else
  let v := v % 2 ^ n
  if v < 2 ^ (n - 1) then (v : Int) else (v : Int) - (2 ^ n : Nat)

/-- wrap an integer to the `n`-bit two's complement pattern. -/
def ofSigned (n : Nat) (x : Int) : Nat := (x % (2 ^ n : Nat)).toNat

/-- sticky right shift: shift right by `k`, or-ing every shifted-out bit into bit 0. -/
def stickyShr (x k : Nat) : Nat :=
  (x >>> k) ||| (if x % 2 ^ k ≠ 0 then 1 else 0)

/-- round-half-to-even of a rational to an integer. -/
def rne (q : Rat) : Int :=
  let f := q.floor
  let r := q - (f : Rat)
  if r < 1/2 then f
  else if r > 1/2 then f + 1
  else if f % 2 = 0 then f else f + 1

/-- truncate toward zero. -/
def truncZ (q : Rat) : Int := if q ≥ 0 then q.floor else q.ceil

/-- round-half-even of `x / 2^k` on naturals. -/
def rneShr (x k : Nat) : Nat :=
  let q := x >>> k
  let r := x % 2 ^ k
  let h := 2 ^ k
  if 2 * r < h then q else if 2 * r > h then q + 1 else if q % 2 = 0 then q else q + 1

/-- ⌊log2 q⌋ for a positive rational -/
def floorLog2 (q : Rat) : Int :=
  let n := q.num.natAbs
  let d := q.den
  let e : Int := (n.log2 : Int) - (d.log2 : Int)
  -- 2^e ≤ q < 2^(e+1) up to one step: adjust
  if pow2 e > q then e - 1 else if pow2 (e + 1) ≤ q then e + 1 else e

/-- round-half-even of a rational to `p` significant bits (0 stays 0; unbounded exponent) -/
def rndSig (p : Nat) (x : Rat) : Rat :=
  if x = 0 then 0 else
  let a := if x < 0 then -x else x
  let e := floorLog2 a
  let ulp := pow2 (e - (p : Int) + 1)
  let r := (rne (a / ulp) : Rat) * ulp
  if x < 0 then -r else r

/-- round-half-even to a multiple of 2^k -/
def rndAbs (k : Int) (x : Rat) : Rat := (rne (x / pow2 k) : Rat) * pow2 k

/-! ### text helpers for the line protocol -/

def hexDigitVal (c : Char) : Option Nat :=
  if '0' ≤ c ∧ c ≤ '9' then some (c.toNat - '0'.toNat)
  else if 'a' ≤ c ∧ c ≤ 'f' then some (c.toNat - 'a'.toNat + 10)
  else if 'A' ≤ c ∧ c ≤ 'F' then some (c.toNat - 'A'.toNat + 10)
  else none

def parseHex (s : String) : Option Nat :=
  if s.isEmpty then none else
  s.foldl (fun acc c => match acc, hexDigitVal c with
    | some a, some d => some (a * 16 + d)
    | _, _ => none) (some 0)

def hexDigitChar (d : Nat) : Char :=
  if d < 10 then Char.ofNat ('0'.toNat + d) else Char.ofNat ('a'.toNat + d - 10)

partial def toHexAux (v : Nat) (acc : List Char) : List Char :=
  if v < 16 then hexDigitChar v :: acc else toHexAux (v / 16) (hexDigitChar (v % 16) :: acc)

def toHex (v : Nat) : String := String.ofList (toHexAux v [])

def parseNat (s : String) : Option Nat := s.toNat?

def parseInt (s : String) : Option Int := s.toInt?

/-- signed hex: optional leading '-' -/
def parseHexInt (s : String) : Option Int :=
  if s.startsWith "-" then (parseHex (s.drop 1).toString).map (fun n => -(n : Int))
  else (parseHex s).map (fun n => (n : Int))

def showRat (q : Rat) : String :=
  if q.den = 1 then toString q.num else s!"{q.num}/{q.den}"

end UVerif
