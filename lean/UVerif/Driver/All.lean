import UVerif.Driver.Core
import UVerif.Driver.Posit
import UVerif.Driver.Quire

namespace UVerif.Driver

/-- family name ↦ handler. One line per family. -/
def lookupHandler (fam : String) : Option Handler :=
  match fam with
  | "posit" => some positHandler
  | "quire" => some quireHandler
  | "pconv" => some pconvHandler
  | "thr" => some thrHandler
  | _ => none

end UVerif.Driver
