import UVerif.Driver.Core
import UVerif.Driver.Posit

namespace UVerif.Driver

/-- family name ↦ handler. One line per family. -/
def lookupHandler (fam : String) : Option Handler :=
  match fam with
  | "posit" => some positHandler
  | _ => none

end UVerif.Driver
