import UVerif.Driver.Core
import UVerif.Driver.Posit
import UVerif.Driver.Quire
import UVerif.Driver.Except
import UVerif.Driver.Text

namespace UVerif.Driver

/-- family name ↦ handler. One line per family. -/
def lookupHandler (fam : String) : Option Handler :=
  match fam with
  | "posit" => some positHandler
  | "quire" => some quireHandler
  | "pconv" => some pconvHandler
  | "thr" => some thrHandler
  | "exc" => some excHandler
  | "text" => some textHandler
  | _ => none

end UVerif.Driver
