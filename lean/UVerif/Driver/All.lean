import UVerif.Driver.Core
import UVerif.Driver.Posit
import UVerif.Driver.Quire
import UVerif.Driver.Except
import UVerif.Driver.Text

import UVerif.Driver.F64
import UVerif.Driver.DD

import UVerif.Driver.Fast
import UVerif.Driver.Sqrt

import UVerif.Driver.Cfloat

import UVerif.Driver.Lns
import UVerif.Driver.Areal

import UVerif.Driver.Integer
import UVerif.Driver.Fixpnt
import UVerif.Driver.Blk

import UVerif.Driver.Elastic

import UVerif.Driver.ConvFixpnt
import UVerif.Driver.ConvDD
import UVerif.Driver.ConvPosInt
import UVerif.Driver.ConvLns
import UVerif.Driver.ConvCfloat

namespace UVerif.Driver

/-- family name ↦ handler. One line per family. -/
def lookupHandler (fam : String) : Option Handler :=
  match fam with
  | "posit" => some positHandler
  | "quire" => some quireHandler
  | "pconv" => some pconvHandler
  | "thr" => some thrHandler
  | "hist" => some histHandler
  | "ub" => some ubHandler
  | "exc" => some excHandler
  | "text" => some textHandler
  | "f64" => some f64Handler
  | "eft" => some eftHandler
  | "eftc" => some eftcHandler
  | "eftcf" => some eftcfHandler
  | "dd" => some ddHandler
  | "ddc" => some ddcHandler
  | "qd" => some qdHandler
  | "qdc" => some qdcHandler
  | "ddconv" => some ddconvHandler
  | "fast" => some fastHandler
  | "sqrt" => some sqrtHandler
  | "cfloat" => some cfloatHandler
  | "lns" => some lnsHandler
  | "areal" => some arealHandler
  | "integer" => some integerHandler
  | "fixpnt" => some fixpntHandler
  | "blk" => some blkHandler
  | "eint" => some eintHandler
  | "edec" => some edecHandler
  | "erat" => some eratHandler
  | "convfix" => some convfixHandler
  | "convdd" => some convddHandler
  | "convpi" => some convpiHandler
  | "convlns" => some convlnsHandler
  | "convcf" => some convcfHandler
  | _ => none

end UVerif.Driver
