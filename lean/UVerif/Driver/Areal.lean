import UVerif.Driver.Core
import UVerif.Spec.Areal
import UVerif.Model.Areal

namespace UVerif.Driver
open UVerif UVerif.IeeeBits

private def parseBtA (s : String) : Option Nat :=
  match s with
  | "u8" => some 8
  | "u16" => some 16
  | "u32" => some 32
  | "u64" => some 64
  | _ => none

/-- the source pattern as the spec sees it -/
def arealSrc (f : Fmt) (b : Nat) : Areal.Src :=
  if isNaN f b then .nan
  else if isInf f b then .inf (signOf f b)
  else .fin (signOf f b) (dyadic (mant f b) (ulpExp f b))

/- No input class is attached to an areal line any more: the five D13 regions (NaN payloads, exponent == MAX_EXP, the
   all-ones corner of the top binade, subnormal sources, targets not narrower than the source) were repaired in the
   library; a source that is not enclosed is an UNKNOWN class, i.e. a violation. -/

private def srcTag (c : Areal.Model.Cfg) (f : Fmt) (b : Nat) : String :=
  let e := expOf f b
  if e == f.eAll then (if fracOf f b == 0 then "inf" else "nan")
  else if e == 0 && fracOf f b == 0 then "zero"
  else
    let exponent : Int := if e == 0 then (fracOf f b).log2 - (f.fbits : Int) + 1 - (f.bias : Int) else (e : Int) - (f.bias : Int)
    let src := if e == 0 then "subnormal-src/" else ""
    let wide := if (f.fbits : Int) - (c.fbits : Int) - 1 < 0 then "wider/" else if f.fbits == c.fbits + 1 then "shift0/" else ""
    if exponent ≥ c.MAX_EXP then src ++ "above-range"
    else if exponent < c.MIN_EXP_SUBNORMAL then src ++ "below-range"
    else if exponent < c.MIN_EXP_NORMAL then src ++ wide ++ "subnormal-target"
    else if exponent == c.MAX_EXP - 1 &&
        (if f.fbits ≥ c.fbits then (fracOf f b) >>> (f.fbits - c.fbits) == 2 ^ c.fbits - 1 && e != 0
         else false) then src ++ wide ++ "top-corner"
    else src ++ wide ++ "normal-target"

def arealHandler : Handler := fun lhs rhs => do
  match lhs with
  | [ns, ess, bts, op, xs] =>
    let some n := parseNat ns | throw "nbits"
    let some es := parseNat ess | throw "es"
    let some w := parseBtA bts | throw "block type"
    let some x := parseHex xs | throw "operand"
    if es = 0 || n < es + 3 then throw "configuration"
    let mc : Areal.Model.Cfg := { nbits := n, es := es, w := w }
    let sc : Areal.Cfg := { nbits := n, es := es }
    match op, rhs with
    | "f32", [os] | "f64", [os] =>
      let some o := parseHex os | throw "result"
      let f := if op == "f32" then f32 else f64
      let m := if op == "f32" then Areal.Model.assignF32 mc x else Areal.Model.assignF64 mc x
      let src := arealSrc f x
      let ok := Areal.encloses sc src o
      let cls := ""
      let exact := o % 2 == 0
      let expected := match src with
        | .fin neg v => toHex (Areal.enclosing sc neg v)
        | .inf neg => toHex (Areal.Model.setinf mc neg)
        | .nan => "NaN pattern"
      let trivial := match src with | .fin _ v => v == 0 | _ => true
      return { model := toHex m, specOk := ok,
               reason := if ok then "" else s!"source is not enclosed; enclosing encoding is {expected}",
               cls := cls, tag := s!"{op}/{srcTag mc f x}/{if exact then "exact" else "ubit"}", trivial := trivial }
    | "tod", [ds, backs] | "tof", [ds, backs] =>
      let some d := parseHex ds | throw "native"
      let some back := parseHex backs | throw "back"
      let f := if op == "tof" then f32 else f64
      -- the model writes the factor 2^exponent at value level: exact in binary64 for es ≤ 10, in binary32 for es ≤ 7
      if (op == "tof" && es > 7) || es > 10 then throw "to_native: 2^exponent leaves the native range; not a harness configuration"
      let mNat := Areal.Model.toNative mc f x
      let mBack := if op == "tof" then Areal.Model.assignF32 mc mNat else Areal.Model.assignF64 mc mNat
      -- spec: value of the encoding with the ubit ignored; NaN ↦ NaN, inf ↦ inf, sign of zero kept; and the
      -- native value converts back to the encoding with the ubit cleared
      let xm := x % 2 ^ n
      let lower := xm - xm % 2
      let okVal :=
        if Areal.isNaN sc xm then isNaN f d
        else if Areal.isInf sc xm then isInf f d && signOf f d == Areal.signOf sc xm
        else
          isFinite f d && signOf f d == Areal.signOf sc xm &&
            dyadic (mant f d) (ulpExp f d) == Areal.magVal sc (Areal.magOf sc lower)
      let okBack :=
        if Areal.isNaN sc xm then Areal.isNaN sc back && back < 2 ^ n
        else back == lower
      let cls := ""
      return { model := s!"{toHex mNat} {toHex mBack}" |> fun s => padNative f s, specOk := okVal && okBack,
               reason := if !okVal then "to_native is not the value of the encoding with the ubit cleared"
                         else "converting the native value back does not give the encoding with the ubit cleared",
               cls := cls, tag := s!"{op}/{if Areal.isNaN sc xm then "nan" else if Areal.isInf sc xm then "inf" else if xm % 2 == 1 then "ubit" else "exact"}",
               trivial := Areal.isNaN sc xm || Areal.isInf sc xm }
    | "told", [ds] =>
      -- to_native<long double> (x86-64, 64-bit significand) as the virtual implicit-bit format ⟨15, 63⟩
      let some d := parseHex ds | throw "native"
      let f : Fmt := ⟨15, 63⟩
      if es > 10 then throw "to_native<long double>: 2^exponent is built in double; not a harness configuration"
      let mNat := Areal.Model.toNative mc f x
      let xm := x % 2 ^ n
      let lower := xm - xm % 2
      let okVal :=
        if Areal.isNaN sc xm then isNaN f d
        else if Areal.isInf sc xm then isInf f d && signOf f d == Areal.signOf sc xm
        else
          isFinite f d && signOf f d == Areal.signOf sc xm &&
            dyadic (mant f d) (ulpExp f d) == Areal.magVal sc (Areal.magOf sc lower)
      return { model := toHex mNat, specOk := okVal,
               reason := if okVal then "" else "to_native<long double> is not the value of the encoding with the ubit cleared",
               cls := "", tag := s!"{op}/{if Areal.isNaN sc xm then "nan" else if Areal.isInf sc xm then "inf" else if xm % 2 == 1 then "ubit" else "exact"}",
               trivial := Areal.isNaN sc xm || Areal.isInf sc xm }
    | _, _ => throw s!"unknown op/arity {op}"
  | _ => throw "arity"
where
  /-- the harness prints the native pattern zero-padded (8 / 16 digits); pad the model text the same way -/
  padNative (f : Fmt) (s : String) : String :=
    match s.splitOn " " with
    | [a, b] =>
      let width := if f.fbits == 23 then 8 else 16
      let pad := String.ofList (List.replicate (width - a.length) '0')
      pad ++ a ++ " " ++ b
    | _ => s

end UVerif.Driver
