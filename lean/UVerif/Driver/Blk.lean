/-
  UVerif.Driver.Blk — line handler of family `blk` (property C12: results do not depend on the BlockType).
    blk integer <nbits> <op> <operands…>           => r_u8 r_u16 r_u32 [r_u64]
    blk bb      <nbits> <op> <operands…>           => r_u8 r_u16 r_u32 [r_u64]
    blk fixpnt  <nbits> <rbits> <M|S> <op> <ops…>  => r_u8 r_u16 r_u32
  The model output is the width-parametric limb model evaluated at each block width; the spec predicate is the
  property itself: all instantiations printed the same raw storage.
-/
import UVerif.Driver.Core
import UVerif.Driver.Integer
import UVerif.Driver.Fixpnt

namespace UVerif.Driver
open UVerif UVerif.Limbs

def blkWidths (fam : String) (n : Nat) : List Nat :=
  match fam with
  | "integer" => if n ≤ 64 then [8, 16, 32, 64] else [8, 16, 32]
  | "bb" => if n ≤ 32 then [8, 16, 32, 64] else [8, 16, 32]
  | _ => [8, 16, 32]

def bbCmpMask (w n : Nat) (a b : List Nat) : Nat :=
  let e := a == b
  let l := BB.lt w n a b
  (if e then 1 else 0) + (if !e then 2 else 0) + (if l then 4 else 0) + (if BB.le w n a b then 8 else 0)
    + (if BB.gt w n a b then 16 else 0) + (if BB.ge w n a b then 32 else 0)

/-- model of one `integer` operation at block width `w`, as the text the harness prints -/
def blkInteger (w n : Nat) (op : String) (args : List String) : Except String String := do
  let lim (v : Nat) : List Nat := ofNat w (nrBlocks w n) v
  let hexL (l : List Nat) : String := toHex (toNat w l)
  match op, args with
  | "cvt", [ms, as] =>
    let some m := parseNat ms | throw "target"
    let some a := parseHex as | throw "a"
    return hexL (Integer.resize w m n (lim a))
  | _, [as, bs] =>
    let some a := parseHex as | throw "a"
    if op == "shl" || op == "shr" then
      let some c := parseInt bs | throw "count"
      return hexL (if op == "shl" then Integer.shl w n (lim a) c else Integer.shr w n (lim a) c)
    let some b := parseHex bs | throw "b"
    match op with
    | "add" => return hexL (Integer.add w n (lim a) (lim b))
    | "sub" => return hexL (Integer.sub w n (lim a) (lim b))
    | "mul" => return hexL (Integer.mul w n (lim a) (lim b))
    | "div" => return hexL (Integer.divrem w n (lim a) (lim b) false)
    | "rem" => return hexL (Integer.divrem w n (lim a) (lim b) true)
    | "and" => return hexL (Integer.band w n (lim a) (lim b))
    | "or" => return hexL (Integer.bor w n (lim a) (lim b))
    | "xor" => return hexL (Integer.bxor w n (lim a) (lim b))
    | "cmp" => return toHex (Integer.cmpMask w n (lim a) (lim b))
    | _ => throw s!"unknown op {op}"
  | _, [as] =>
    let some a := parseHex as | throw "a"
    match op with
    | "neg" => return hexL (Integer.neg w n (lim a))
    | "not" => return hexL (Integer.flip w n (lim a))
    | "inc" => return hexL (Integer.inc w n (lim a))
    | "dec" => return hexL (Integer.dec w n (lim a))
    | "toi64" => return toHex (Integer.toI64 w n (lim a))
    | "tou64" => return toHex (Integer.toU64 w n (lim a))
    | _ => throw s!"unknown op {op}"
  | _, _ => throw "arity"

def blkBB (w n : Nat) (op : String) (args : List String) : Except String String := do
  let lim (v : Nat) : List Nat := ofNat w (nrBlocks w n) v
  let hexL (l : List Nat) : String := toHex (toNat w l)
  match args with
  | [as, bs] =>
    let some a := parseHex as | throw "a"
    if op == "shl" || op == "shr" || op == "rmode" || op == "any" then
      let some c := parseInt bs | throw "count"
      match op with
      | "shl" => return hexL (BB.shl w n (lim a) c)
      | "shr" => return hexL (BB.shr w n (lim a) c)
      | "rmode" => return (if BB.roundingMode w n (lim a) c.toNat then "1" else "0")
      | _ => return (if anyUpTo w n (lim a) c.toNat then "1" else "0")
    let some b := parseHex bs | throw "b"
    match op with
    | "add" => return hexL (BB.add w n (lim a) (lim b))
    | "sub" => return hexL (BB.sub w n (lim a) (lim b))
    | "mul" => return hexL (BB.mul w n (lim a) (lim b))
    | "div" => return hexL (BB.divrem w n (lim a) (lim b) false)
    | "rem" => return hexL (BB.divrem w n (lim a) (lim b) true)
    | "cmp" => return toHex (bbCmpMask w n (lim a) (lim b))
    | "uradd" => return hexL (BB.uradd w n (lim a) (lim b))
    | "ursub" => return hexL (BB.ursub w n (lim a) (lim b))
    | "urmul2" => return hexL (BB.urmul2 w n (lim a) (lim b))
    | _ => throw s!"unknown op {op}"
  | [as] =>
    let some a := parseHex as | throw "a"
    match op with
    | "neg" => return hexL (BB.twosC w n (lim a))
    | "inc" => return hexL (BB.inc w n (lim a))
    | "dec" => return hexL (BB.dec w n (lim a))
    | "msb" => return toString (msbPos w (lim a))
    | _ => throw s!"unknown op {op}"
  | _ => throw "arity"

def blkFixpnt (w n r : Nat) (sat : Bool) (op : String) (args : List String) : Except String String := do
  let lim (v : Nat) : List Nat := ofNat w (nrBlocks w n) v
  let hexL (l : List Nat) : String := toHex (toNat w l)
  match args with
  | [as, bs] =>
    let some a := parseHex as | throw "a"
    if op == "shl" || op == "shr" then
      let some c := parseInt bs | throw "count"
      return hexL (if op == "shl" then BB.shl w n (lim a) c else BB.shr w n (lim a) c)
    let some b := parseHex bs | throw "b"
    match op with
    | "add" => return hexL (Fixpnt.add w n sat (lim a) (lim b))
    | "sub" => return hexL (Fixpnt.sub w n sat (lim a) (lim b))
    | "mul" => return hexL (Fixpnt.mul w n r sat (lim a) (lim b))
    | "div" => return hexL (Fixpnt.div w n r sat (lim a) (lim b))
    | "cmp" => return toHex (Fixpnt.cmpMask w n (lim a) (lim b))
    | _ => throw s!"unknown op {op}"
  | [as] =>
    let some a := parseHex as | throw "a"
    match op with
    | "neg" => return hexL (Fixpnt.neg w n sat (lim a))
    | "inc" => return hexL (Fixpnt.inc w n sat (lim a))
    | "dec" => return hexL (Fixpnt.dec w n sat (lim a))
    | _ => throw s!"unknown op {op}"
  | _ => throw "arity"

/-- known-finding classes of C12 (decidable on the inputs): none is left for integer / blockbinary / fixpnt
    (`blocktype.div.native_maxneg_by_minus1` is repaired: a trap in one instantiation is a violation again) -/
def blkClass (_fam : String) (_n : Nat) (_op : String) (_args : List String) : String := ""

def blkHandler : Handler := fun lhs rhs => do
  let (fam, rest) ← match lhs with | fam :: rest => pure (fam, rest) | _ => throw "arity"
  let (n, models, op, args) ← match fam, rest with
    | "integer", ns :: op :: args =>
      let some n := parseNat ns | throw "nbits"
      let ms ← (blkWidths fam n).mapM (fun w => blkInteger w n op args)
      pure (n, ms, op, args)
    | "bb", ns :: op :: args =>
      let some n := parseNat ns | throw "nbits"
      let ms ← (blkWidths fam n).mapM (fun w => blkBB w n op args)
      pure (n, ms, op, args)
    | "fixpnt", ns :: rs :: md :: op :: args =>
      let some n := parseNat ns | throw "nbits"
      let some r := parseNat rs | throw "rbits"
      let sat ← match md with | "M" => pure false | "S" => pure true | _ => throw "mode"
      let ms ← (blkWidths fam n).mapM (fun w => blkFixpnt w n r sat op args)
      pure (n, ms, op, args)
    | _, _ => throw "blk family"
  if rhs.length != models.length then throw "number of block types"
  let same := match rhs with | [] => true | x :: xs => xs.all (· == x)
  return { model := joinToks models, specOk := same,
           reason := if same then "" else "block types disagree", cls := blkClass fam n op args,
           tag := s!"{fam}/{op}" }

end UVerif.Driver
