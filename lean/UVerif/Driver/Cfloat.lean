/-
  UVerif.Driver.Cfloat — line handler of family `cfloat`:
    cfloat <nbits> <es> <u8|u16|u32> <flags sub sup sat> <op> <in…> => <out…>
  For every line the model output is recomputed (Model.Cfloat) and the executable spec predicate
  (Spec.Cfloat) is evaluated on the IMPLEMENTATION's output. Known-defect classes are decidable
  predicates on the inputs of the line.
-/
import UVerif.Driver.Core
import UVerif.Model.Cfloat

namespace UVerif.Driver
open UVerif UVerif.Cfloat UVerif.Generated

private def parseBt (s : String) : Option Nat :=
  match s with | "u8" => some 8 | "u16" => some 16 | "u32" => some 32 | _ => none

private def parseCfg (ns ess bts fl : String) : Except String Cfg := do
  let some n := parseNat ns | throw "nbits"
  let some es := parseNat ess | throw "es"
  let some bt := parseBt bts | throw "bt"
  let fs := fl.toList
  if fs.length != 3 then throw "flags"
  let c : Cfg := { nbits := n, es := es, bt := bt, sub := fs[0]! == '1', sup := fs[1]! == '1', sat := fs[2]! == '1' }
  if !c.valid then throw "invalid configuration"
  return c

/-- class of in-range integer sources: the target binade is subnormal (only es = 1). The classes
    cfloat.from_int.round_carry and cfloat.from_int.sticky_gap were repaired in /repo (`round<>`): a recurrence has no
    class and is a VIOLATION -/
private def intClass (c : Cfg) (X : Rat) : String :=
  if floorLog2 X < 1 - c.bias then "cfloat.from_int.subnormal_target"
  else ""

private def roundTag (c : Cfg) (x : Rat) : String :=
  let X := absR x
  if !c.sub && X < minNormal c then "flush"
  else if overflows c X then "overflow"
  else
    let u := ulpAt c X
    let q := X / u
    let d := q - (q.floor : Rat)
    let k := if X < minNormal c then "sub-" else ""
    if d == 0 then k ++ "exact" else if d == 1/2 then k ++ "tie" else if d < 1/2 then k ++ "down" else k ++ "up"

private def expectTag (c : Cfg) : Expect → String
  | .nan => "nan"
  | .inf _ => "inf"
  | .zero _ => "zero"
  | .real x => roundTag c x

/-- hardware twin (single / duble): `hw` is `nan` or IEEE bits; must agree with the implementation's
    output as values on non-NaN results, up to the sign of a zero sum. -/
private def hwAgree (c : Cfg) (op : String) (r : Nat) (hw : String) : Except String (Bool × String) := do
  let eb := c.es
  let fb := c.fbits
  if hw == "nan" then
    return ((cfVal c r).isNan, "hardware result is NaN")
  let some h := parseHex hw | throw "hw"
  let hv := ieeeVal eb fb h
  let rv := cfVal c r
  let ok := match hv, rv with
    | .inf s, .inf t => s == t
    | .fin s x, .fin t y => x == y && (s == t || (x == 0 && (op == "add" || op == "sub")))
    | _, _ => false
  return (ok, s!"hardware result {showVal hv}")

private def cmpSpecMask (c : Cfg) (a b : Nat) : Nat :=
  let key (v : Val) : Option (Int × Rat) := match v with
    | .nan _ => none
    | .inf s => some (if s then -1 else 1, 0)
    | .fin s m => some (0, if s then -m else m)
  match key (cfVal c a), key (cfVal c b) with
  | some (ka, xa), some (kb, xb) =>
    let lt := ka < kb || (ka == kb && xa < xb)
    let eq := ka == kb && xa == xb
    let gt := !lt && !eq
    (if eq then 1 else 0) + (if !eq then 2 else 0) + (if lt then 4 else 0) + (if lt || eq then 8 else 0)
      + (if gt then 16 else 0) + (if gt || eq then 32 else 0)
  | _, _ => 2

private def cmpModelMask (c : Cfg) (a b : Nat) : Nat :=
  (if eq c a b then 1 else 0) + (if !eq c a b then 2 else 0) + (if lt c a b then 4 else 0) + (if le c a b then 8 else 0)
    + (if gt c a b then 16 else 0) + (if ge c a b then 32 else 0)

/-- smallest positive value -/
private def minPosVal (c : Cfg) : Rat := if c.sub then pow2 (1 - c.bias - (c.fbits : Int)) else minNormal c

/-- next representable magnitude above m ≥ 0 (none: beyond maxFinite) -/
private def nextUp (c : Cfg) (m : Rat) : Option Rat :=
  let n := if m = 0 then minPosVal c else m + ulpAt c m
  if n > maxFinite c then none else some n

/-- next representable magnitude below m > 0 -/
private def nextDown (c : Cfg) (m : Rat) : Rat :=
  if m ≤ minPosVal c then 0
  else
    let u := ulpAt c m
    if m > minNormal c && pow2 (floorLog2 m) == m then m - u / 2 else m - u

/-- spec of ++ (up = true) / -- on a finite operand -/
private def stepExpect (c : Cfg) (up : Bool) (neg : Bool) (m : Rat) : Val :=
  -- moving away from zero?
  let away := (up && !neg) || (!up && neg) || m = 0
  if away then
    match nextUp c m with
    | some n => .fin (if m = 0 then !up else neg) n
    | none => .inf (if m = 0 then !up else neg)
  else .fin neg (nextDown c m)

private def valEqZeroInsensitive (a b : Val) : Bool :=
  match a, b with
  | .fin s x, .fin t y => x == y && (s == t || x == 0)
  | .inf s, .inf t => s == t
  | _, _ => false

private def canonicalEnc (c : Cfg) (a : Nat) : Bool :=
  match cfVal c a with
  | .nan _ => isNanEnc c a
  | .inf _ => true
  | .fin _ m => m != 0 || isZeroEnc c a

private def toTwos (w : Nat) (x : Int) : Nat := ofSigned w x

private def srcParams (op : String) : Nat × Nat × Nat × Nat :=
  if op == "fromld" || op == "rtld" || op == "told" then (ieeeF80_ebits, ieeeF80_fbits, ieeeF80_qnanmask, ieeeF80_snanmask)
  else if op == "fromf" || op == "rtf" || op == "toflt" then (ieeeF32_ebits, ieeeF32_fbits, ieeeF32_qnanmask, ieeeF32_snanmask)
  else (ieeeF64_ebits, ieeeF64_fbits, ieeeF64_qnanmask, ieeeF64_snanmask)

/-- bits of the native NaN the library produces in to_native (signaling_NaN / quiet_NaN) -/
private def nativeBits (eb fb qm sm : Nat) (v : Val) : Nat :=
  match v with
  | .nan s => if s then sm else qm
  | v => ieeeEncode eb fb v

/-- classes of from-native lines (inputs only). `subnBranch`: the source is an IEEE subnormal and the code
    reaches its unimplemented "source is subnormal" branch (returns the cleared value +0). -/
private def fromClass (c : Cfg) (src : Val) (subnBranch : Bool) : String :=
  match src with
  | .nan _ => ""      -- cfloat.from_ieee.nan_payload was repaired in /repo: a NaN source that does not give a NaN is a VIOLATION
  | .fin _ m =>
    if m = 0 then ""
    else if subnBranch then "cfloat.from_ieee.subnormal_source"
    else if c.sat && c.sup && overflows c m then "cfloat.sat_sup.maxpos_is_inf"
    else ""
  | _ => ""

/-- transcript pattern (sign | 15 | 63, implicit leading bit) of `std::numeric_limits<long double>::quiet_NaN()` /
    `signaling_NaN()` on x86-64: significand 0xC000… / 0xA000… -/
private def ldNativeBits (v : Val) : Nat :=
  match v with
  | .nan s => (0x7fff <<< 63) + (if s then 2 ^ 61 else 2 ^ 62)
  | v => ieeeEncode 15 63 v

/-- values of the es = 15 configurations have thousands of digits: messages are cut -/
private def short (s : String) : String := if s.length > 200 then (s.take 190).toString ++ "…" else s

/-- the narrowing path of convert_ieee754<long double> composes the encoding in a uint64_t: the model covers
    nbits ≤ 64 there, and the block path (fbits ≥ 63, hence nbits ≥ 65) -/
private def ldSupported (c : Cfg) : Bool := c.nbits ≤ 64 || c.fbits ≥ 63

/-- classes of `fromld` lines (inputs only): long double source with raw exponent field `rawExp`, value `src` -/
private def fromLdClass (c : Cfg) (rawExp : Nat) (src : Val) : String :=
  match src with
  | .fin _ m =>
    if m = 0 then ""
    else
      let exponent : Int := (rawExp : Int) - 16383
      let reached := exponent ≤ c.maxExp && exponent ≥ (if c.sub then c.minExpSubnormal - 1 else c.minExpNormal)
      if rawExp == 0 then (if reached then "cfloat.from_ieee.subnormal_source" else "")
      else if c.sub && reached && exponent < c.minExpNormal then
        -- the value lies in the target's subnormal range
        -- cfloat.from_ld.shift64 and cfloat.from_ld.hidden_mask were repaired in /repo: a recurrence has no class and is a VIOLATION
        if c.fbits ≥ 63 then "cfloat.from_ld.wide_subnormal_target" else ""
      else if c.sat && c.sup && overflows c m then "cfloat.sat_sup.maxpos_is_inf"
      else ""
  | _ => ""

/-- class of `told` lines: to_native<long double> builds 2^e with the double function ipow for |e| ≥ 64 and reads the
    double table subnormal_exponent[es] (0.0 for es ≥ 12) -/
private def toLdClass (c : Cfg) (a : Nat) : String :=
  match cfVal c a with
  | .fin _ x =>
    if x == 0 then ""
    else if c.expOf a == 0 then (if c.sub && c.es ≥ 12 then "cfloat.to_native.ld_beyond_double" else "")
    else
      let ex : Int := (c.expOf a : Int) - c.bias
      if ex > 1023 || ex < -1074 then "cfloat.to_native.ld_beyond_double" else ""
  | _ => ""

def cfloatHandler : Handler := fun lhs rhs => do
  match lhs with
  | ns :: ess :: bts :: fl :: op :: ins =>
    let c ← parseCfg ns ess bts fl
    let full := 2 ^ c.nbits
    match op, ins, rhs with
    -- ------------------------------------------------------------------ arithmetic (C02)
    | _, [as, bs], rs :: hwt =>
      let some a := parseHex as | throw "a"
      let some b := parseHex bs | throw "b"
      let some r := parseHex rs | throw "r"
      if a ≥ full || b ≥ full then throw "operand out of range"
      if op == "cmp" then
        let m := cmpModelMask c a b
        let s := cmpSpecMask c a b
        -- D3 (cfloat.eq.bitwise_zero, recorded again): both operands read as zero and the encodings differ
        let zeroAlias := (cfVal c a).isZero && (cfVal c b).isZero && a != b
        return { model := toHex m, specOk := r == s, reason := s!"expected mask {toHex s}",
                 cls := if zeroAlias then "cfloat.eq.bitwise_zero" else "",
                 tag := "cmp/" ++ (if (cfVal c a).isNan || (cfVal c b).isNan then "nan" else if s % 2 == 1 then "eq" else if s &&& 4 != 0 then "lt" else "gt"),
                 trivial := (cfVal c a).isNan || (cfVal c b).isNan }
      if !(["add", "sub", "mul", "div"].contains op) then throw s!"unknown op {op}"
      let m := arithOp op c a b
      let e := expectOp op (cfVal c a) (cfVal c b)
      let ok1 := satisfies c e r
      let (ok2, why2) ← match hwt with
        | [hw] => hwAgree c op r hw
        | _ => pure (true, "")
      let mstr := match hwt with | [hw] => toHex m ++ " " ++ hw | _ => toHex m
      let special := match e with | .real _ => false | _ => true
      return { model := mstr, specOk := ok1 && ok2,
               reason := if !ok1 then "expected " ++ showExpect c e else why2,
               cls := arithClass c op a b e,
               tag := op ++ "/" ++ expectTag c e ++ (if (opOf op).bfbits c.fbits ≥ 65 then "/wide" else ""),
               trivial := special }
    -- ------------------------------------------------------------------ extremes (C06)
    | "lim", [], outs =>
      let model := [maxposEnc c, minposEnc c, maxnegEnc c, minnegEnc c,
                    2 ^ c.fbits, maxposEnc c, maxnegEnc c, minposEnc c, setInf c false,
                    Cfloat.sub c (incr c (fromIeee c 8 23 ieeeF32_qnanmask ieeeF32_snanmask 0x3f800000) % full)
                                 (fromIeee c 8 23 ieeeF32_qnanmask ieeeF32_snanmask 0x3f800000)]
      let vals ← outs.mapM (fun s => match parseHex s with | some v => pure v | none => throw "lim")
      if vals.length != 10 then throw "lim arity"
      let mx := maxFinite c
      let mn := minPosVal c
      let one : Rat := 1
      let eps : Val := match nextUp c one with | some n => .fin false (n - 1) | none => .nan false
      let want : List Val := [.fin false mx, .fin false mn, .fin true mx, .fin true mn,
                              .fin false (minNormal c), .fin false mx, .fin true mx, .fin false mn, .inf false, eps]
      -- epsilon is judged only when 1 and the true spacing above 1 are values of the configuration
      let oneRepresentable := exactlyRepresentable c 1 && (match eps with | .fin _ e => exactlyRepresentable c e | _ => false)
      let oks := (List.zip vals want).mapIdx (fun i (v, w) => (i == 9 && !oneRepresentable) || (v < full && cfVal c v == w))
      let names := ["maxpos", "minpos", "maxneg", "minneg", "min", "max", "lowest", "denorm_min", "infinity", "epsilon"]
      let bad := (List.zip names oks).filter (fun p => !p.2) |>.map (·.1)
      return { model := " ".intercalate (model.map toHex), specOk := bad.isEmpty,
               reason := "wrong extremes: " ++ " ".intercalate bad ++ s!" (maxFinite {showRat mx}, minpos {showRat mn})",
               cls := if c.sat && c.sup && bad.all (fun n => ["maxpos", "maxneg", "max", "lowest"].contains n) then "cfloat.sat_sup.maxpos_is_inf" else "",
               tag := "lim" }
    -- ------------------------------------------------------------------ unary
    | _, [as], [rs] =>
      if op == "fromi8" || op == "fromi16" || op == "fromi32" || op == "fromi64" then
        let some v := parseInt as | throw "int"
        let some r := parseHex rs | throw "r"
        let w := (parseNat (op.drop 5).toString).getD 64
        let m := fromSigned c w v
        let ok := if v = 0 then r < full && (cfVal c r).isZero else r < full && nearestNZ c (v : Rat) r
        let X := absR (v : Rat)
        return { model := toHex m, specOk := ok,
                 reason := if v = 0 then "zero expected" else "expected " ++ showExpect c (.real (v : Rat)),
                 -- cfloat.from_int.out_of_range (recorded again, the repair was withdrawn): no range check — beyond the largest
                 -- finite value, or without supernormals in the binade of the all-ones exponent
                 cls := if v = 0 then "" else if overflows c X || (if c.sup then false else floorLog2 X == c.maxExp) then "cfloat.from_int.out_of_range"
                        else intClass c X,
                 tag := "fromi/" ++ (if v = 0 then "zero" else roundTag c (v : Rat)), trivial := v == 0 }
      else if op == "fromu16" || op == "fromu32" || op == "fromu64" then
        let some v := parseNat as | throw "uint"
        let some r := parseHex rs | throw "r"
        let w := (parseNat (op.drop 5).toString).getD 64
        let m := fromUnsigned c w v
        let ok := if v = 0 then r < full && (cfVal c r).isZero else r < full && nearestNZ c (v : Rat) r
        let X : Rat := (v : Rat)
        return { model := toHex m, specOk := ok,
                 reason := if v = 0 then "zero expected" else "expected " ++ showExpect c (.real (v : Rat)),
                 -- cfloat.from_int.out_of_range (recorded again, the repair was withdrawn): no range check — beyond the largest
                 -- finite value, or without supernormals in the binade of the all-ones exponent
                 cls := if v = 0 then "" else if overflows c X || (if c.sup then false else floorLog2 X == c.maxExp) then "cfloat.from_int.out_of_range"
                        else intClass c X,
                 tag := "fromu/" ++ (if v = 0 then "zero" else roundTag c (v : Rat)), trivial := v == 0 }
      else
      let some a := parseHex as | throw "a"
      let (eb, fb, qm, sm) := srcParams op
      match op with
      | "inc" | "dec" =>
        let some r := parseHex rs | throw "r"
        if a ≥ full then throw "operand out of range"
        let up := op == "inc"
        let m := if up then incr c a else decr c a
        let canon := r < full
        let (ok, why, triv) := match cfVal c a with
          | .fin s x =>
            let w := stepExpect c up s x
            (canon && valEqZeroInsensitive (cfVal c r) w, s!"expected {showVal w}", false)
          | _ => (canon, "bit set above nbits", true)
        -- the classes cfloat.dec.block_overflow (D6), cfloat.inc.minneg_manyblocks, cfloat.step.negative_zero and
        -- cfloat.step.zero_alias were repaired in /repo: a recurrence has no class and is a VIOLATION
        let cls :=
          match cfVal c a with
            | .fin s x =>
              if x == maxFinite c && s != up && !c.sup then "cfloat.step.maxpos_nosup"
              else ""
            | _ => ""
        return { model := toHex m, specOk := ok, reason := if canon then why else "bit set above nbits",
                 cls := cls, tag := op ++ "/" ++ (if triv then "special" else "finite"), trivial := triv }
      | "todbl" | "toflt" =>
        if a ≥ full then throw "operand out of range"
        let mv := toNative c a
        let mstr := match mv with | .nan _ => "nan" | v => toHex (ieeeEncode eb fb v)
        let want := cfVal c a
        -- judged only when the native type can hold the value
        let holdable := match want with
          | .fin _ x => ieeeVal eb fb (ieeeEncode eb fb want) == want || x == 0
          | _ => true
        let got : Except String Val := match rs with
          | "nan" => pure (.nan false)
          | s => match parseHex s with | some h => pure (ieeeVal eb fb h) | none => throw "native bits"
        let g ← got
        let ok := match want, g with
          | .nan _, .nan _ => true
          | x, y => x == y
        return { model := mstr, specOk := !holdable || ok, reason := s!"value is {showVal want}, native result {showVal g}",
                 tag := op ++ "/" ++ (if !holdable then "not-holdable" else match want with | .nan _ => "nan" | .inf _ => "inf" | .fin _ x => if x == 0 then "zero" else "finite"),
                 trivial := match want with | .fin _ x => x == 0 | _ => true }
      | "rtd" | "rtf" =>
        let some r := parseHex rs | throw "r"
        if a ≥ full then throw "operand out of range"
        let nb := nativeBits eb fb qm sm (toNative c a)
        let m := fromIeee c eb fb qm sm nb
        let want := cfVal c a
        let holdable := match want with
          | .fin _ x => ieeeVal eb fb (ieeeEncode eb fb want) == want || x == 0
          | _ => true
        let ok := r < full && (if canonicalEnc c a then r == a else match want, cfVal c r with
          | .nan _, .nan _ => true
          | x, y => x == y)
        return { model := toHex m, specOk := !holdable || ok, reason := "round trip through the native type does not return the encoding",
                 cls := match want with
                   | .fin _ x => if x != 0 && ieeeVal eb fb nb != want then "" else
                                 if x != 0 && (nb >>> fb) % 2 ^ eb == 0 then "cfloat.from_ieee.subnormal_source" else ""
                   | _ => "",
                 tag := op ++ "/" ++ (if !holdable then "not-holdable" else if canonicalEnc c a then "canonical" else "alias"),
                 trivial := match want with | .fin _ x => x == 0 | _ => true }
      | "toint" | "toll" =>
        let some r := parseHex rs | throw "r"
        if a ≥ full then throw "operand out of range"
        let w := if op == "toint" then 32 else 64
        -- to_int (since the repair "to_int() must not round the value to float before truncating") and to_long_long
        -- both go through double
        let via := toNativeIn c 11 52 a
        let m := match via with | .fin s x => toTwos w (truncZ (if s then -x else x)) | _ => 0
        let (ok, why) := match cfVal c a with
          | .fin s x =>
            let t := truncZ (if s then -x else x)
            (r == toTwos w t, s!"expected {t}")
          | _ => (true, "")
        return { model := toHex m, specOk := ok, reason := why,
                 tag := op }   -- cfloat.to_int.via_float was repaired in /repo: no class, a wrong integer is a VIOLATION
      | "told" =>
        if a ≥ full then throw "operand out of range"
        let mv := toNativeLD c a
        let mstr := match mv with | .nan _ => "nan" | v => toHex (ieeeEncode eb fb v)
        let want := cfVal c a
        let holdable := match want with
          | .fin _ x => x == 0 || ieeeVal eb fb (ieeeEncode eb fb want) == want
          | _ => true
        let got : Except String Val := match rs with
          | "nan" => pure (.nan false)
          | s => match parseHex s with | some h => pure (ieeeVal eb fb h) | none => throw "native bits"
        let g ← got
        let ok := match want, g with
          | .nan _, .nan _ => true
          | x, y => x == y
        return { model := mstr, specOk := !holdable || ok, reason := short s!"value is {showVal want}" ++ short s!", long double result {showVal g}",
                 cls := toLdClass c a,
                 tag := op ++ "/" ++ (if !holdable then "not-holdable" else match want with | .nan _ => "nan" | .inf _ => "inf" | .fin _ x => if x == 0 then "zero" else
                          (if toLdClass c a != "" then "beyond-double" else if c.fbits > 52 then "finite-wide" else "finite")),
                 trivial := match want with | .fin _ x => x == 0 | _ => true }
      | "rtld" =>
        let some r := parseHex rs | throw "r"
        if a ≥ full then throw "operand out of range"
        if !ldSupported c then throw "configuration not covered by the long double model"
        let nb := ldNativeBits (toNativeLD c a)
        let m := fromLD c qm sm ieeeF80_hmask nb
        let want := cfVal c a
        let holdable := match want with
          | .fin _ x => x == 0 || ieeeVal eb fb (ieeeEncode eb fb want) == want
          | _ => true
        let ok := r < full && (if canonicalEnc c a then r == a else match want, cfVal c r with
          | .nan _, .nan _ => true
          | x, y => x == y)
        return { model := toHex m, specOk := !holdable || ok, reason := "round trip through long double does not return the encoding",
                 cls := match want with
                   | .nan _ => ""    -- cfloat.from_ld.nan_masks was repaired in /repo (long double NaN masks)
                   | .fin _ x => if x == 0 then "" else
                                 if ieeeVal eb fb nb != want then toLdClass c a else
                                 fromLdClass c ((nb >>> fb) % 2 ^ eb) want
                   | _ => "",
                 tag := op ++ "/" ++ (if !holdable then "not-holdable" else if canonicalEnc c a then "canonical" else "alias"),
                 trivial := match want with | .fin _ x => x == 0 | _ => true }
      | "fromld" =>
        let some r := parseHex rs | throw "r"
        if !ldSupported c then throw "configuration not covered by the long double model"
        if a ≥ 2 ^ 79 then throw "long double pattern out of range"
        let m := fromLD c qm sm ieeeF80_hmask a
        let src := ieeeVal eb fb a
        let e : Expect := match src with
          | .nan _ => .nan
          | .inf s => .inf s
          | .fin s x => if x == 0 then .zero (some s) else .real (if s then -x else x)
        let ok := satisfies c e r
        let rawExp := (a >>> fb) % 2 ^ eb
        -- does the source need more than binary64's 53 significant bits / lie outside its range?
        let beyond := a % 2 ^ 11 != 0 || (rawExp != 0 && (rawExp < 16383 - 1022 || rawExp > 16383 + 1023))
        return { model := toHex m, specOk := ok, reason := short ("expected " ++ showExpect c e) ++ (match e with | .real x => " = " ++ toHex (ieeeRound c x) | _ => ""),
                 cls := fromLdClass c rawExp src,
                 tag := op ++ "/" ++ expectTag c e ++ (match e with | .real _ => (if beyond then "/x64" else "/d53") | _ => ""),
                 trivial := match e with | .real _ => false | _ => true }
      | "fromd" | "fromf" =>
        let some r := parseHex rs | throw "r"
        let m := fromIeee c eb fb qm sm a
        let src := ieeeVal eb fb a
        let e : Expect := match src with
          | .nan _ => .nan
          | .inf s => .inf s
          | .fin s x => if x == 0 then .zero (some s) else .real (if s then -x else x)
        let ok := satisfies c e r
        let rawExp := (a >>> fb) % 2 ^ eb
        return { model := toHex m, specOk := ok, reason := "expected " ++ showExpect c e,
                 cls := fromClass c src
                   (rawExp == 0 && !(c.nbits == 1 + eb + fb && c.es == eb) &&
                    (0 : Int) - ((2 ^ (eb - 1) : Nat) - 1 : Int) ≥ (if c.sub then c.minExpSubnormal - 1 else c.minExpNormal)),
                 tag := op ++ "/" ++ expectTag c e, trivial := match e with | .real _ => false | _ => true }
      | _ => throw s!"unknown op {op}"
    | _, _, _ => throw "arity"
  | _ => throw "arity"

end UVerif.Driver
