/-
  UVerif.Driver.ConvCfloat — line handler of family `convcf` (harness/h_convcf.cpp): cfloat → cfloat converting constructor (C15)
    convcf <n1> <es1> <flags1> <n2> <es2> <flags2> <bt> c2c <src enc> => <dst enc>
    convcf <n1> <es1> <flags1> <n2> <es2> <flags2> <bt> rt  <src enc> => <dst enc> <back enc>
  Model: Model.ConvCfloat.cf2cf.  Spec (property C15): the target value nearest to the EXACT value of the source encoding under
  the target's rounding and range rule (`Spec.Cfloat.satisfies c2 (.real x)`), identity whenever the source value is
  representable, NaN ↦ NaN, ±inf ↦ ±inf, zero ↦ zero (either sign: the property speaks about values; tagged); and, when the
  first conversion is exact (widening), narrowing back returns the original value.
-/
import UVerif.Driver.Core
import UVerif.Model.Cfloat
import UVerif.Model.ConvCfloat

namespace UVerif.Driver
open UVerif UVerif.Cfloat UVerif.Generated

namespace ConvCfD

def parseBt (s : String) : Option Nat :=
  match s with | "u8" => some 8 | "u16" => some 16 | "u32" => some 32 | _ => none

def parseCfg (ns ess fl : String) (bt : Nat) : Except String Cfg := do
  let some n := parseNat ns | throw "nbits"
  let some es := parseNat ess | throw "es"
  let fs := fl.toList
  if fs.length != 3 then throw "flags"
  let c : Cfg := { nbits := n, es := es, bt := bt, sub := fs[0]! == '1', sup := fs[1]! == '1', sat := fs[2]! == '1' }
  if !c.valid then throw "invalid configuration"
  return c

def expectOf (v : Val) : Expect :=
  match v with
  | .nan _ => .nan
  | .inf s => .inf s
  | .fin s x => if x == 0 then .zero none else .real (if s then -x else x)

def absR (x : Rat) : Rat := if x < 0 then -x else x

/-- the value is a binary64 number (finite, exactly representable) -/
def isDouble (x : Rat) : Bool :=
  match rndIeee 11 52 x with
  | .fin _ m => m == absR x
  | _ => false

/-- the double detour can change the result: the source value is outside binary64's normal range, or a rounding boundary
    of the target lies within two binary64 ulps of it (spec functions only: `ieeeRound` of the target is monotone, so the
    rounding is constant on [x - 2u, x + 2u] iff it agrees at the two ends).  `to_native<double>` rounds several times
    (fraction accumulation, 1 + f, the product), hence two ulps rather than a half. -/
def doubleDetourMatters (c2 : Cfg) (x : Rat) : Bool :=
  let X := absR x
  if X ≥ pow2 1024 || X < pow2 (-1022) then true
  else
    let u := pow2 (floorLog2 X - 52)
    X + 2 * u ≥ pow2 1024 ||         -- the double nearest to x may be infinity
    ieeeRound c2 (x - 2 * u) != ieeeRound c2 (x + 2 * u) || overflows c2 (X - 2 * u) != overflows c2 (X + 2 * u)

/-- class of a failing c2c line (inputs only: the exact source value and the two configurations) -/
def c2cClass (c1 c2 : Cfg) (x : Rat) : String :=
  let X := absR x
  -- (cfloat.c2c.ipow_underflow was repaired in /repo: ipow reaches the subnormal doubles; no class any more)
  if !isDouble x && doubleDetourMatters c2 x then "cfloat.c2c.source_exceeds_double"
  else if c2.sat && c2.sup && overflows c2 X then "cfloat.sat_sup.maxpos_is_inf"
  else if X < pow2 (-1022) && !(c2.nbits == 64 && c2.es == 11) &&
          (-1023 : Int) ≥ (if c2.sub then c2.minExpSubnormal - 1 else c2.minExpNormal) then "cfloat.from_ieee.subnormal_source"
  else ""

def roundTag (c : Cfg) (x : Rat) : String :=
  let X := absR x
  if !c.sub && X < minNormal c then "flush"
  else if overflows c X then "overflow"
  else
    let u := ulpAt c X
    let q := X / u
    let d := q - (q.floor : Rat)
    let k := if X < minNormal c then "sub-" else ""
    if d == 0 then k ++ "exact" else if d == 1/2 then k ++ "tie" else if d < 1/2 then k ++ "down" else k ++ "up"

def valEq (a b : Val) : Bool :=
  match a, b with
  | .nan _, .nan _ => true
  | .inf s, .inf t => s == t
  | .fin s x, .fin t y => x == y && (s == t || x == 0)
  | _, _ => false

end ConvCfD
open ConvCfD

def convcfHandler : Handler := fun lhs rhs => do
  match lhs with
  | [n1s, e1s, f1s, n2s, e2s, f2s, bts, op0, as] =>
    -- `c2c=` : the same conversion as an assignment onto a non-fresh target: same model, same spec
    let assigned := op0.endsWith "="
    let op := if assigned then (op0.dropEnd 1).toString else op0
    let asg := if assigned then "=" else ""
    let some bt := ConvCfD.parseBt bts | throw "bt"
    let c1 ← ConvCfD.parseCfg n1s e1s f1s bt
    let c2 ← ConvCfD.parseCfg n2s e2s f2s bt
    let some a := parseHex as | throw "src"
    if a ≥ 2 ^ c1.nbits then throw "source encoding out of range"
    let src := cfVal c1 a
    let m := cf2cf c1 c2 a
    let e := expectOf src
    let wide := if c1.es ≤ 11 && c1.fbits ≤ 52 then "" else "/wide-source"
    match op, rhs with
    | "c2c", [rs] =>
      let some r := parseHex rs | throw "dst"
      let ok := satisfies c2 e r
      let (tg, triv) := match src with
        | .nan _ => ("nan", true)
        | .inf _ => ("inf", true)
        | .fin s x => if x == 0 then ((if s then "negzero" else "zero") ++ (if r == 0 then "->+0" else "->other"), true) else (roundTag c2 x, false)
      return { model := toHex m, specOk := ok, reason := if ok then "" else "expected " ++ showExpect c2 e,
               cls := if ok then "" else match src with
                 | .fin s x => if x == 0 then "" else c2cClass c1 c2 (if s then -x else x)
                 | _ => "",
               tag := "c2c" ++ asg ++ "/" ++ tg ++ wide, trivial := triv, canonical := r < 2 ^ c2.nbits }
    | "rt", [rs, bs] =>
      let some r := parseHex rs | throw "dst"
      let some b := parseHex bs | throw "back"
      let mb := cf2cf c2 c1 (if r < 2 ^ c2.nbits then r else m)
      -- judged only when the first conversion is exact (the target holds the source value: "widening")
      let widening := r < 2 ^ c2.nbits && valEq (cfVal c2 r) src
      let ok := !widening || (b < 2 ^ c1.nbits && valEq (cfVal c1 b) src)
      let cls := if ok then "" else match src with
        | .fin s x => if x == 0 then "" else
            -- narrowing back goes through double again: the same classes, seen from the wide type
            c2cClass c2 c1 (if s then -x else x)
        | _ => ""
      return { model := toHex m ++ " " ++ toHex mb, specOk := ok,
               reason := if ok then "" else s!"widening was exact but narrowing back gives {showVal (cfVal c1 b)} instead of {showVal src}",
               cls := cls, tag := "rt/" ++ (if widening then "widening" else "not-widening") ++ wide,
               trivial := match src with | .fin _ x => x == 0 | _ => true }
    | _, _ => throw s!"unknown op/arity {op}"
  | _ => throw "arity"

end UVerif.Driver
