/-
  UVerif.Driver.ConvDD — line handler of family `convdd`: conversions between native numbers and dd / qd that the `ddconv`
  handler of Driver/DD.lean does not cover (float, the narrower integer types, everything of qd).  Properties C03 / C04.

  Spec (from the property texts): construction from a native value stores that value — a float, a double and every 64-bit
  integer fit the 106-bit (212-bit) significand, so the limbs must sum to the source EXACTLY (NaN ↦ NaN, ±inf ↦ ±inf, the sign of
  zero is kept); `double(x)` is the double nearest to the represented value (the sum of the limbs); integer reads return the
  value truncated toward zero whenever that fits the integer type (judged for normalised operands, like `ddconv`).
-/
import UVerif.Driver.DD
import UVerif.Driver.ConvFixpnt
import UVerif.Model.ConvDD
import UVerif.Spec.Ieee

namespace UVerif.Driver
open UVerif UVerif.F64 UVerif.SpecF64 UVerif.DD

namespace ConvDDH

def hex8 (v : Nat) : String :=
  let s := toHex v
  String.ofList (List.replicate (8 - s.length) '0') ++ s

def ofBits32 (b : Nat) : F := ofBits 24 8 b
def toBits32 (x : F) : Nat := toBits 24 8 x
def val32 (b : Nat) : Rat := valOf 24 8 b

/-- the harness casts the 64-bit word to the source type -/
def srcInt (sz : Nat) (signed : Bool) (w : Nat) : Int :=
  if signed then toSigned sz (w % 2 ^ sz) else ((w % 2 ^ sz : Nat) : Int)

/-- limbs (bit patterns) hold exactly the native source `b` of format (p, ew): same special kind, same value, sign of zero kept -/
def holdsNative (p ew : Nat) (b : Nat) (limbs : List Nat) : Bool :=
  match limbs with
  | [] => false
  | x0 :: rest =>
    if isNaNPat p ew b then isNaN64 x0
    else if isInfPat p ew b then isInf64 x0 && signOf 53 11 x0 == signOf p ew b && rest.all (fun l => mag64 l == 0)
    else limbs.all isFin64 && sumVals limbs == valOf p ew b &&
         (magOf p ew b != 0 || (mag64 x0 == 0 && signOf 53 11 x0 == signOf p ew b))

def outInt (sz : Nat) (signed : Bool) (pat : Nat) : String :=
  hex16 (if signed then ofSigned 64 (toSigned sz pat) else pat)

/-- `x` is exactly a finite double -/
def isDoubleVal (x : Rat) : Bool :=
  let y := x * pow2 1074
  y.den == 1 && F64.isFloatNat 53 y.num.natAbs && F64.size y.num.natAbs ≤ b64.top

/-- is some PARTIAL sum of the left-to-right addition (all but the last one) not a double?  (the region in which a second
    rounding can happen) -/
def partialInexact (limbs : List Nat) : Bool :=
  let n := limbs.length
  (List.range (n - 2)).any (fun k => !isDoubleVal (sumVals (limbs.take (k + 2))))

end ConvDDH
open ConvDDH

def convddHandler : Handler := fun lhs rhs => do
  match lhs with
  | ty :: op :: ins =>
    if ty != "dd" && ty != "qd" then throw "type"
    let isQ := ty == "qd"
    match op with
    | "from_f32" | "from_f64" =>
      let some [b] := parseAll ins | throw "operand"
      let some rs := parseAll rhs | throw "result"
      let (p, ew) := if op == "from_f32" then (24, 8) else (53, 11)
      let src : F := ofBits p ew b
      let m : String :=
        if isQ then outQD (if op == "from_f32" then ConvDD.qdFromF32 src else ConvDD.qdFromF64 src)
        else outDD (ConvDD.ddFromF32 src)
      if rs.length != (if isQ then 4 else 2) then throw "arity"
      return { model := m, specOk := holdsNative p ew b rs, reason := "the limbs do not hold the native source exactly",
               tag := s!"{ty}.{op}", trivial := !isFinPat p ew b || magOf p ew b == 0 }
    | "from_ld" =>
      let some [se, mant] := parseAll ins | throw "operand"
      let some rs := parseAll rhs | throw "result"
      if rs.length != (if isQ then 4 else 2) then throw "arity"
      let src := ConvDD.ofX87 se mant
      let m := if isQ then outQD (ConvDD.qdFromLD src) else outDD (ConvDD.ddFromLD src)
      let x0 := rs.headD 0
      match x87Val se mant with
      | none =>
        let isInf := mant % 2 ^ 63 == 0
        let ok := if isInf then isInf64 x0 && signOf 53 11 x0 == se.testBit 15 && (rs.drop 1).all (fun l => isFin64 l)
                  else isNaN64 x0
        return { model := m, specOk := ok, reason := "±inf must become (±inf, finite tail), NaN a NaN",
                 cls := "", tag := s!"{ty}.from_ld/special", trivial := true }
      | some x =>
        -- judged when the source is inside the double range and on the 2^-1074 grid (neither overflow nor underflow of a limb)
        let inRange := absR x < pow2 1024 - pow2 970
        let grid := onGrid x
        if !inRange then
          let ok := isInf64 x0 && signOf 53 11 x0 == se.testBit 15 && (rs.drop 1).all (fun l => isFin64 l)
          return { model := m, specOk := ok, reason := "a magnitude beyond the double range must become ±inf with a finite tail",
                   cls := "", tag := s!"{ty}.from_ld/overflow", trivial := true }
        else if !grid then
          return { model := m, specOk := rs.all isFin64, reason := "non-finite limb", tag := s!"{ty}.from_ld/below-grid", trivial := true }
        else
          let ok := rs.all isFin64 && sumVals rs == x && (x != 0 || signOf 53 11 x0 == se.testBit 15)
          return { model := m, specOk := ok, reason := "a long double has 64 significant bits: the limbs must hold it exactly",
                   tag := s!"{ty}.from_ld/" ++ (if isDoubleVal x then "double" else "wide"), trivial := x == 0 }
    | "fromi" =>
      let (kind, ws, prev) ← match ins with
        | k :: w :: rest => pure (k, w, rest)
        | _ => throw "arity"
      let some (sz, signed) := convIntKind kind | throw "kind"
      let some w := parseHex ws | throw "w64"
      let some pv := parseAll prev | throw "prev"
      let some rs := parseAll rhs | throw "result"
      let v := srcInt sz signed w
      -- `pv`: the lower limbs the qd target held before the assignment (they must not survive; the model does not read them)
      let stale := pv.any (fun x => mag64 x != 0)
      let m : String := if isQ then outQD (ConvDD.qdFromInt v) else outDD (ofInt64 b64 v)
      if rs.length != (if isQ then 4 else 2) then throw "arity"
      let ok := rs.all isFin64 && sumVals rs == (v : Rat)
      let big := v.natAbs ≥ 2 ^ 53
      -- branch tags: the integer is not a double (a second limb is needed); the head is rounded UP (negative remainder)
      let notDouble := !isDoubleVal (v : Rat)
      let roundedUp := F64.rnNat 53 v.natAbs > v.natAbs
      return { model := m, specOk := ok, reason := s!"a 64-bit integer fits the significand: the limbs must sum to {v}",
               cls := "", tag := s!"{ty}.fromi/{kind}/{if big then "ge2^53" else "lt2^53"}" ++ (if notDouble then (if roundedUp then "/head-up" else "/head-down") else "")
                                  ++ (if isQ && stale then "/dirty-target" else ""), trivial := v == 0 }
    | "to_f32" | "to_f64" =>
      let some xs := parseAll ins | throw "operand"
      let some [r] := parseAll rhs | throw "result"
      if xs.length != (if isQ then 4 else 2) then throw "arity"
      let mf : F :=
        if isQ then (if op == "to_f32" then ConvDD.qdToF32 (mkQD xs) else ConvDD.qdToF64 (mkQD xs))
        else ConvDD.ddToF32 (mkDD (xs.getD 0 0) (xs.getD 1 0))
      let m := if op == "to_f32" then hex8 (toBits32 mf) else hex16 (toBits64 mf)
      let guarded := xs.all isFin64
      let X := sumVals xs
      let (p, ew) := if op == "to_f32" then (24, 8) else (53, 11)
      let ok := !guarded || isRN p ew X r
      let cls :=
        if op == "to_f64" then (if partialInexact xs then "qd.to_double.sequential_sum" else "")
        else (if !isDoubleVal X || partialInexact xs then s!"{ty}.to_float.via_double" else "")
      return { model := m, specOk := ok, reason := s!"not the nearest value to the sum of the limbs", cls := cls,
               tag := s!"{ty}.{op}" ++ (if guarded then "" else "/special"), trivial := !guarded }
    | "toi" =>
      let (kind, xsS) ← match ins with
        | k :: rest => pure (k, rest)
        | _ => throw "arity"
      let some (sz, signed) := convIntKind kind | throw "kind"
      let some xs := parseAll xsS | throw "operand"
      let some [r] := parseAll rhs | throw "result"
      if xs.length != (if isQ then 4 else 2) then throw "arity"
      let pat := if isQ then ConvDD.qdToInt sz signed (mkQD xs) else ConvDD.ddToInt sz signed (mkDD (xs.getD 0 0) (xs.getD 1 0))
      let X := sumVals xs
      let fin := xs.all isFin64
      let t := truncZ X
      let fits := ConvFixpntSpec.fitsInt sz signed t
      let guarded := fin && qdNormalised xs && fits
      let ok := !guarded || hex16 r == outInt sz signed (ofSigned sz t)
      -- branch tags: which limb is the first with a fraction, whether its sign opposes the value's, unsigned reads from 2^63 on
      let firstFrac := (List.range xs.length).find? (fun i => !isIntegral b64 (ofBits64 (xs.getD i 0)))
      let fracTag := match firstFrac with
        | some i => s!"/frac@{i}" ++ (if i > 0 && signOf 53 11 (xs.getD i 0) != signOf 53 11 (xs.getD 0 0) then "-opposite" else "")
        | none => "/integer"
      return { model := outInt sz signed pat, specOk := ok, reason := s!"truncation toward zero gives {t}", cls := "",
               tag := s!"{ty}.toi/{kind}" ++ (if guarded then fracTag ++ (if !signed && t ≥ (2 ^ 63 : Int) then "/ge2^63" else "") else "/unguarded"), trivial := !guarded }
    | _ => throw s!"unknown op {op}"
  | _ => throw "arity"

end UVerif.Driver
