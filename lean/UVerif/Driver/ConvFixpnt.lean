/-
  UVerif.Driver.ConvFixpnt — line handler of family `convfix` (fixpnt conversions: C03 from native, C04 to native, C15 resize).
    convfix <n> <r> <M|S> <bt> fromi <kind> <w64> => <raw>
    convfix <n> <r> <M|S> <bt> fromd <bits64> => <raw>          fromf <bits32> => <raw>
       (fromi / fromd / fromf: operator= onto a target whose bits were all set; ctori / ctord / ctorf: fresh constructor)
    convfix <n> <r> <M|S> <bt> tod <raw> => <bits64> <raw back>  tof <raw> => <bits32> <raw back>
    convfix <n> <r> <M|S> <bt> toi <kind> <raw> => <64-bit two's complement of the native value>
    convfix <n> <r> <M|S> <bt> resize <n2> <r2> <raw> <prev> => <raw2>
-/
import UVerif.Driver.Core
import UVerif.Driver.Integer
import UVerif.Model.ConvFixpnt
import UVerif.Spec.ConvFixpnt
import UVerif.Spec.F64

namespace UVerif.Driver
open UVerif UVerif.Limbs

/-- native integer kinds of the harness: (bits, signed) -/
def convIntKind (k : String) : Option (Nat × Bool) :=
  match k with
  | "i8" => some (8, true) | "c8" => some (8, true) | "i16" => some (16, true) | "i32" => some (32, true)
  | "l64" => some (64, true) | "i64" => some (64, true)
  | "u8" => some (8, false) | "u16" => some (16, false) | "u32" => some (32, false) | "ul64" => some (64, false) | "u64" => some (64, false)
  | _ => none

namespace ConvFix
open UVerif.ConvFixpnt

def rangeTag (n : Nat) (x : Int) : String :=
  if x > FixpntSpec.maxposZ n then "over" else if x < FixpntSpec.maxnegZ n then "under" else "in"

def roundTag (q : Rat) : String :=
  let f := q.floor
  let d := q - (f : Rat)
  if d = 0 then "exact" else if d < 1/2 then "down" else if d > 1/2 then "up" else (if f % 2 = 0 then "tie-even" else "tie-odd")

end ConvFix

def convfixHandler : Handler := fun lhs rhs => do
  let (ns, rs, ms, bts, op, args) ← match lhs with
    | ns :: rs :: ms :: bts :: op :: args => pure (ns, rs, ms, bts, op, args)
    | _ => throw "arity"
  let some n := parseNat ns | throw "nbits"
  let some r := parseNat rs | throw "rbits"
  let sat ← match ms with | "M" => pure false | "S" => pure true | _ => throw "mode"
  let some w := btWidth bts | throw "bt"
  if n = 0 || r > n then throw "configuration"
  let md := if sat then "S" else "M"
  let judge (model : String) (out : Nat) (expect : Nat) (tag cls : String) (trivial : Bool := false) : LineResult :=
    let ok := out == expect
    { model := model, specOk := ok, reason := if ok then "" else s!"expected {toHex expect}", cls := cls, tag := tag,
      trivial := trivial, canonical := out < 2 ^ n }
  match op, args, rhs with
  | "fromi", [kind, ws], [os] | "ctori", [kind, ws], [os] =>
    let some (sz, signed) := convIntKind kind | throw "kind"
    let some W := parseHex ws | throw "w64"
    let some o := parseHex os | throw "out"
    let v : Int := if signed then toSigned sz (W % 2 ^ sz) else ((W % 2 ^ sz : Nat) : Int)
    let m := if signed then ConvFixpnt.fromSigned n r sat sz v else ConvFixpnt.fromUnsigned n r sat sz v.toNat
    let e := ConvFixpntSpec.fromInt n r sat v
    let raw : Int := v * ((2 ^ r : Nat) : Int)
    return judge (toHex m) o e s!"{op}/{md}/{if signed then "s" else "u"}{sz}/{ConvFix.rangeTag n raw}"
      "" (v == 0)
  | "fromd", [bs], [os] | "fromf", [bs], [os] | "ctord", [bs], [os] | "ctorf", [bs], [os] =>
    let (p, ew) := if op == "fromd" || op == "ctord" then (53, 11) else (24, 8)
    let some b := parseHex bs | throw "bits"
    let some o := parseHex os | throw "out"
    let m := ConvFixpnt.fromIeee n r sat ew (p - 1) b
    let neg := SpecF64.signOf p ew b
    if SpecF64.isNaNPat p ew b then
      return { model := toHex m, specOk := true, tag := s!"{op}/{md}/nan", trivial := true, canonical := o < 2 ^ n }
    else if SpecF64.isInfPat p ew b then
      if sat then return judge (toHex m) o (if neg then ConvFixpnt.maxnegP n else ConvFixpnt.maxposP n) s!"{op}/{md}/inf" "" true
      else return { model := toHex m, specOk := true, tag := s!"{op}/{md}/inf", trivial := true, canonical := o < 2 ^ n }
    else
      let x := SpecF64.valOf p ew b
      let e := ConvFixpntSpec.fromRat n r sat x
      let q := x * ((2 ^ r : Nat) : Rat)
      return judge (toHex m) o e s!"{op}/{md}/{ConvFix.roundTag q}/{ConvFix.rangeTag n (rne q)}"
        "" (x == 0)
  | "tod", [as], [bs, ks] | "tof", [as], [bs, ks] =>
    let (p, ew, fmt) := if op == "tod" then (53, 11, F64.binary64) else (24, 8, F64.binary32)
    let some a := parseHex as | throw "raw"
    let some b := parseHex bs | throw "bits"
    let some k := parseHex ks | throw "back"
    if a ≥ 2 ^ n then throw "operand out of range"
    let mf := ConvFixpnt.toNative fmt n r a
    let mb := F64.toBits p ew mf
    let mk := ConvFixpnt.fromIeee n r sat ew (p - 1) mb
    let x := ConvFixpntSpec.value n r a
    let holdable := F64.isFloatNat p (toSigned n a).natAbs
    let okVal := !SpecF64.isNaNPat p ew b && SpecF64.isFinPat p ew b && SpecF64.valOf p ew b == x && (a != 0 || b == 0)
    let okBack := k == a
    return { model := s!"{toHex mb} {toHex mk}", specOk := !holdable || (okVal && okBack),
             reason := if !okVal then s!"the value is {showRat x}" else "converting the native value back does not return the encoding",
             cls := "", tag := s!"{op}/{md}/{if holdable then "holdable" else "not-holdable"}", trivial := a == 0, canonical := k < 2 ^ n }
  | "toi", [kind, as], [os] =>
    let some (sz, signed) := convIntKind kind | throw "kind"
    let some a := parseHex as | throw "raw"
    let some o := parseHex os | throw "out"
    if a ≥ 2 ^ n then throw "operand out of range"
    let m := if signed then ofSigned 64 (toSigned sz (ConvFixpnt.toSignedPat n r sz a)) else ConvFixpnt.toUnsignedPat n r sz a
    let t := ConvFixpntSpec.toInt n r a
    let fits := ConvFixpntSpec.fitsInt sz signed t
    let ok := !fits || o == ofSigned 64 t
    return { model := toHex m, specOk := ok, reason := s!"the value truncated toward zero is {t}", cls := "",
             tag := s!"toi/{if signed then "s" else "u"}{sz}/{if fits then "fits" else "unconstrained"}", trivial := a == 0 }
  | "resize", [n2s, r2s, as, ps], [os] =>
    let some n2 := parseNat n2s | throw "n2"
    let some r2 := parseNat r2s | throw "r2"
    let some a := parseHex as | throw "raw"
    let some pv := parseHex ps | throw "prev"
    let some o := parseHex os | throw "out"
    if a ≥ 2 ^ n || n2 = 0 || r2 > n2 then throw "operand out of range"
    let m := toNat w (ConvFixpnt.resize w n r n2 r2 sat (ofNat w (nrBlocks w n) a) (ofNat w (nrBlocks w n2) pv))
    let e := ConvFixpntSpec.resize n r n2 r2 sat a
    let q := ConvFixpntSpec.value n r a * ((2 ^ r2 : Nat) : Rat)
    -- no known-finding class is left for the size adapter (all four repaired): any spec failure is an unknown class
    let cls := ""
    let sh := if r > r2 then (if r - r2 ≥ n then "fullshift" else "round") else if r < r2 then "upshift" else "same"
    let o2 := { judge (toHex m) o e s!"resize/{md}/{if n ≤ n2 then "widen" else "narrow"}/{sh}/{ConvFix.roundTag q}/{ConvFix.rangeTag n2 (rne q)}" cls (a == 0)
                with canonical := o < 2 ^ n2 }
    return o2
  | _, _, _ => throw s!"unknown op/arity {op}"

end UVerif.Driver
