/-
  UVerif.Driver.ConvLns — line handler of family `convlns` (harness/h_convlns.cpp): conversions of lns<nbits,rbits,bt,Behavior>
    convlns n r uW B fromd|fromf <src> <lg> <mx> <mn> <hm> => <enc>                    (C03)
    convlns n r uW B fromi <type> <value> <lg> <mx> <mn> <hm> => <enc>                 (C03)
    convlns n r uW B tod|tof <enc> => <native bits>                                    (C04)
    convlns n r uW B toi <type> <enc> <double> => <value>                              (C04)
    convlns n r uW B rtd|rtf <enc> <lg> <mx> <mn> <hm> => <native bits> <enc'>         (C04)
    convlns n2 r2 uW B l2l <n1> <r1> <src enc> <double> <lg> <mx> <mn> <hm> => <enc>   (C15)
  The model output is recomputed (Model.ConvLns / Model.Lns) from the inputs of the line — the observed libm values
  (log2, the thresholds, and the result of std::pow where it is not a power of two) are inputs; the observed std::pow
  result is accepted by the MODEL only if it is within one ulp of 2^value for the exponent `value` the model accumulated.
  The spec predicate (Spec.ConvLns) judges the IMPLEMENTATION's output against the exact source value.
-/
import UVerif.Driver.Core
import UVerif.Spec.Lns
import UVerif.Spec.ConvLns
import UVerif.Model.Lns
import UVerif.Model.ConvLns

namespace UVerif.Driver
open UVerif UVerif.Lns UVerif.IeeeBits UVerif.ConvLns UVerif.ConvLns.Spec

namespace ConvLnsD

def parseBt (s : String) : Option Nat :=
  match s with
  | "u8" => some 8
  | "u16" => some 16
  | "u32" => some 32
  | "u64" => some 64
  | _ => none

/-- zero-padded hex (the harness prints native bit patterns with %016llx / %08x) -/
def hexPad (w : Nat) (v : Nat) : String :=
  let s := toHex v
  String.ofList (List.replicate (w - s.length) '0') ++ s

def fmtWidth (f : Fmt) : Nat := (f.width + 3) / 4

/-- is the finite / infinite pattern `d` within `k` ulps of (-1)^neg · 2^(E/2^r)?  (integer comparison on a common exponent) -/
def powWithin (f : Fmt) (r : Nat) (neg : Bool) (E : Int) (d : Nat) (k : Nat) : Bool :=
  if IeeeBits.isNaN f d || signOf f d != neg then false else
  let N : Nat := 2 ^ r
  if IeeeBits.isInf f d then E ≥ ((2 ^ (f.ebits - 1) : Nat) : Int) * N else
  let q := E / (N : Int)             -- floor
  let j := (E % (N : Int)).toNat
  match pow2Frac r j with
  | none => false
  | some iv =>
    -- 2^(E/N) ∈ [lo, hi] · 2^(q - P);  d = m · 2^e.  Compare on the common exponent c = min e (q-P).
    let e := ulpExp f d
    let eI := q - (P : Int)
    -- far below the smallest subnormal: only zero (or the smallest subnormal) is within an ulp; avoid huge shifts
    if eI + (P : Int) + 2 < e - 2 then mant f d ≤ k else
    let c := min e eI
    let sh (x : Nat) (ex : Int) : Int := (x : Int) * ((2 ^ (ex - c).toNat : Nat) : Int)
    let lo := sh iv.lo eI
    let hi := sh iv.hi eI
    let v := sh (mant f d) e
    let u := sh k e
    lo - u ≤ v && v ≤ hi + u

/-- exact bit pattern of (-1)^neg · 2^q in the format (overflow to infinity, underflow to zero / subnormal) -/
def pow2Exact (f : Fmt) (neg : Bool) (q : Int) : Nat := encodeRound f neg 1 q

/-- the exponent (units 2^-r) of a finite native pattern that is an integer multiple of 2^-r -/
def unitsOf (f : Fmt) (r : Nat) (b : Nat) : Int :=
  (toRat f b * ((2 ^ r : Nat) : Rat)).floor

/-- model of `TargetFloat(lns)`: `(text, E')` — the text the model predicts for the observed native result `obs`
    and the exponent the model handed to std::pow (units 2^-r) -/
def toNativeModel (f : Fmt) (c : Lns.Model.Cfg) (a obs : Nat) : String × Option Int :=
  match toIeeeSpecial f c a, toIeeeExponent f c a with
  | some x, _ => (hexPad (fmtWidth f) x, none)
  | none, some (neg, vb) =>
    let E' := unitsOf f c.rbits vb
    let N : Int := ((2 ^ c.rbits : Nat) : Int)
    if E' % N = 0 then (hexPad (fmtWidth f) (pow2Exact f neg (E' / N)), some E')
    else if powWithin f c.rbits neg E' obs 1 then (hexPad (fmtWidth f) obs, some E')
    else (s!"pow(2,{E'}/2^{c.rbits})>1ulp", some E')
  | none, none => ("?", none)

/-- the normal range of the native format holds 2^(E/2^r) -/
def holdable (f : Fmt) (r : Nat) (E : Int) : Bool :=
  let N : Int := ((2 ^ r : Nat) : Int)
  let lim : Int := ((2 ^ (f.ebits - 1) : Nat) : Int)
  (2 - lim) * N ≤ E && E < lim * N

/-- C04 read-back predicate: exact for powers of two, within one ulp otherwise -/
def toNativeOk (f : Fmt) (r : Nat) (v : Val) (obs : Nat) : Bool :=
  match v with
  | .nan => IeeeBits.isNaN f obs
  | .zero => IeeeBits.isZero f obs
  | .num s E =>
    let N : Int := ((2 ^ r : Nat) : Int)
    if E % N = 0 then obs == pow2Exact f s (E / N) else powWithin f r s E obs 1

/-- more than 24 (53) significant bits in the exponent field: `value` cannot be accumulated exactly in the target format -/
def expNeedsMoreBits (f : Fmt) (E : Int) : Bool :=
  let m := E.natAbs
  if m = 0 then false else
  let tz := (List.range 64).find? (fun i => m.testBit i) |>.getD 0
  (m >>> tz) ≥ 2 ^ (f.fbits + 1)

/-- the integers ⌊d⌋ for the doubles d within one ulp of 2^(E/2^r) (an interval; a single integer when E is a multiple
    of 2^r, where the read-back must be exact): the truncation of a faithful read-back -/
def truncInterval (r : Nat) (E : Int) : Option (Int × Int) :=
  let N : Nat := 2 ^ r
  let q := E / (N : Int)
  let j := (E % (N : Int)).toNat
  match pow2Frac r j with
  | none => none
  | some iv =>
    let sc : Rat := pow2 (q - (P : Int))
    let lo : Rat := (iv.lo : Rat) * sc
    let hi : Rat := (iv.hi : Rat) * sc
    if j = 0 then some (lo.floor, hi.floor)
    else
      let u : Rat := pow2 (q - 52)            -- ulp of the doubles in [2^q, 2^(q+1))
      some ((lo - u).floor, (hi + u).floor)

def srcOfBits (f : Fmt) (b : Nat) : Src :=
  if IeeeBits.isNaN f b then .nan
  else if IeeeBits.isInf f b then .inf (signOf f b)
  else if IeeeBits.isZero f b then .zero
  else .num (signOf f b) (mant f b) (ulpExp f b)

/-- relative tolerance (units 2^-52) that corresponds to one ulp of the NATIVE log2 of the source: |log2 x| < 2^mm,
    ulp ≤ 2^(mm-1-fbits), d(log2 x) = dx/x / ln 2 -/
def logUlpTol (fb : Nat) (r : Nat) (m : Nat) (e : Int) : Nat :=
  match scaledLog (r + 1) m e 0 with
  | none => fewUlps
  | some g =>
    let A := g.natAbs / 2 ^ (r + 1) + 1
    let mm := Nat.log2 A + 1
    let ex : Int := (mm : Int) - 1 - (fb : Int) + 52
    if ex ≤ 2 then fewUlps else if ex ≥ 51 then 2 ^ 51 else 2 ^ ex.toNat

/-- class of a failing from-native line (inputs only) -/
def fromClass (fb : Nat) (r : Nat) (src : Src) : String :=
  match src with
  | .num _ m e =>
    let tw := logUlpTol fb r m e
    match accepted r m e, acceptedWith r m e tw with
    | some a, some b => if a != b then "lns.from_ieee.log2_ulp_exceeds_source_ulps" else ""
    | _, _ => ""
  | _ => ""

def fromTag (n r : Nat) (src : Src) (res : Nat) : String :=
  match src with
  | .nan => "nan"
  | .zero => "zero"
  | .inf _ => "inf"
  | .num _ m e =>
    match nearestE r m e, accepted r m e with
    | some E0, some (lo, hi) =>
      let pos := if E0 > maxE n then "above-range" else if E0 < minE n then "below-range" else "inrange"
      let mid := if lo != hi then "/near-midpoint" else ""
      let how := match decode n res with
        | .num _ E => if E == E0 then "/nearest" else if lo ≤ E && E ≤ hi then "/neighbour"
                      else if E0 > maxE n && E == maxE n then "/clamped" else if E0 < minE n && E == minE n then "/minpos" else "/other"
        | .zero => "/zero"
        | .nan => "/nan"
      pos ++ mid ++ how
    | _, _ => "undecided"

end ConvLnsD
open ConvLnsD

def convlnsHandler : Handler := fun lhs rhs => do
  match lhs with
  | ns :: rs :: bts :: bs :: op0 :: args =>
    -- `op=` : the same conversion executed by operator= onto a non-fresh target: same model, same spec
    let assigned := op0.endsWith "="
    let op := if assigned then (op0.dropEnd 1).toString else op0
    let asg := if assigned then "=" else ""
    let some n := parseNat ns | throw "nbits"
    let some r := parseNat rs | throw "rbits"
    let some w := ConvLnsD.parseBt bts | throw "block type"
    let wrap ← match bs with
      | "S" => pure false
      | "W" => pure true
      | _ => throw "behaviour"
    if n < 2 || r ≥ n then throw "configuration"
    let c : Lns.Model.Cfg := { nbits := n, rbits := r, w := w, wrap := wrap }
    let bt := if wrap then "W" else "S"
    let hx (s : String) (what : String) : Except String Nat := match parseHex s with
      | some v => pure v
      | none => throw what
    match op, args, rhs with
    -- ------------------------------------------------------------------ from native floating point (C03)
    | "fromd", [vs, lgs, mxs, mns, hms], [os] | "fromf", [vs, lgs, mxs, mns, hms], [os] =>
      let v ← hx vs "src"; let lg ← hx lgs "lg"; let mx ← hx mxs "mx"; let mn ← hx mns "mn"; let hm ← hx hms "hm"; let o ← hx os "enc"
      let nt := if op == "fromd" then natF64 else natF32
      let f := nt.f
      if v ≥ 2 ^ f.width then throw "source wider than the format"
      let m := if op == "fromd" then Lns.Model.convertF64 c ⟨mx, mn, hm⟩ v lg else convertIeee nt c ⟨mx, mn, hm⟩ v lg
      let src := srcOfBits f v
      let (ok, why) := match fromOk n r wrap src o with
        | some b => (b, "not the nearest value in the log domain (nor its neighbour next to a midpoint)")
        | none => (false, "spec evaluation undecided")
      let triv := match src with | .num _ _ _ => false | _ => true
      return { model := toHex m, specOk := ok,
               reason := if ok then "" else why ++ (match src with
                 | .num _ mm e => s!" nearest exponent {repr (nearestE r mm e)} accepted {repr (accepted r mm e)} result {repr (decode n o)}"
                 | _ => s!" source {repr src} result {repr (decode n o)}"),
               cls := if ok then "" else fromClass f.fbits r src,
               tag := s!"{op}{asg}/{bt}/{fromTag n r src o}", trivial := triv }
    -- ------------------------------------------------------------------ from native integers (C03)
    | "fromi", [ty, vs, lgs, mxs, mns, hms], [os] =>
      let pat ← hx vs "value"; let lg ← hx lgs "lg"; let mx ← hx mxs "mx"; let mn ← hx mns "mn"; let hm ← hx hms "hm"; let o ← hx os "enc"
      if pat ≥ 2 ^ 64 then throw "value"
      let signed := ty.startsWith "i" || ty.startsWith "l"
      let x : Int := if signed then toSigned 64 pat else (pat : Int)
      let neg := decide (x < 0)
      let mag := x.natAbs
      let m := fromInt c ⟨mx, mn, hm⟩ neg mag lg
      let src : Src := if mag = 0 then .zero else .num neg mag 0
      let (ok, why) := match fromOk n r wrap src o with
        | some b => (b, "not the nearest value in the log domain (nor its neighbour next to a midpoint)")
        | none => (false, "spec evaluation undecided")
      return { model := toHex m, specOk := ok,
               reason := if ok then "" else why ++ s!" value {x} nearest exponent {repr (nearestE r mag 0)} accepted {repr (accepted r mag 0)} result {repr (decode n o)}",
               cls := if ok then "" else fromClass 52 r src,
               tag := s!"fromi{asg}/{bt}/{fromTag n r src o}" ++ (if mag ≥ 2 ^ 53 then "/above-2^53" else ""), trivial := mag == 0 }
    -- ------------------------------------------------------------------ to native floating point (C04)
    | "tod", [as], [os] | "tof", [as], [os] =>
      let a ← hx as "enc"; let o ← hx os "native"
      if a ≥ 2 ^ n then throw "encoding out of range"
      let f := if op == "tod" then f64 else f32
      let (mstr, _) := toNativeModel f c a o
      let v := decode n a
      let hold := match v with | .num _ E => holdable f r E | _ => true
      let ok := !hold || toNativeOk f r v o
      let cls := match v with
        | .num _ E => if !ok && expNeedsMoreBits f E then "lns.to_native.exponent_accumulated_in_target_format" else ""
        | _ => ""
      return { model := mstr, specOk := ok,
               reason := if ok then "" else s!"value {repr v}: native result is not exact / not within one ulp",
               cls := cls,
               tag := s!"{op}/" ++ (if !hold then "not-holdable" else match v with
                 | .num _ E => if E % ((2 ^ r : Nat) : Int) = 0 then "pow2-exact" else "faithful"
                 | .zero => "zero" | .nan => "nan"),
               trivial := match v with | .num _ _ => false | _ => true }
    | "toi", [ty, as, ds], [os] =>
      let a ← hx as "enc"; let d ← hx ds "double"; let o ← hx os "value"
      if a ≥ 2 ^ n then throw "encoding out of range"
      let m := ConvLns.toSignedInt d
      let v := decode n a
      let (ok, why) : Bool × String := match v with
        | .nan => (true, "")
        | .zero => (o == 0, "expected 0")
        | .num s E =>
          match truncInterval r E with
          | none => (false, "undecided")
          | some (lo, hi) =>
            let got : Int := let t := UVerif.toSigned 64 o; if s then -t else t
            (lo ≤ got && got ≤ hi, s!"expected magnitude in [{lo}, {hi}]")
      return { model := toHex m, specOk := ok, reason := if ok then "" else why, tag := s!"toi/{ty}",
               trivial := match v with | .num _ _ => false | _ => true }
    -- ------------------------------------------------------------------ round trip through the native type (C04)
    | "rtd", [as, lgs, mxs, mns, hms], [ds, os] | "rtf", [as, lgs, mxs, mns, hms], [ds, os] =>
      let a ← hx as "enc"; let lg ← hx lgs "lg"; let mx ← hx mxs "mx"; let mn ← hx mns "mn"; let hm ← hx hms "hm"
      let d ← hx ds "native"; let o ← hx os "enc'"
      if a ≥ 2 ^ n then throw "encoding out of range"
      let nt := if op == "rtd" then natF64 else natF32
      let f := nt.f
      let (mstr, _) := toNativeModel f c a d
      let back := if op == "rtd" then Lns.Model.convertF64 c ⟨mx, mn, hm⟩ d lg else convertIeee nt c ⟨mx, mn, hm⟩ d lg
      let v := decode n a
      let hold := match v with | .num _ E => holdable f r E | _ => true
      let ok := !hold || o == a
      let cls := match v with
        | .num _ E => if !ok && expNeedsMoreBits f E then "lns.to_native.exponent_accumulated_in_target_format" else ""
        | _ => ""
      return { model := mstr ++ " " ++ toHex back, specOk := ok,
               reason := if ok then "" else s!"round trip of {repr v} returns {repr (decode n o)}",
               cls := cls,
               tag := s!"{op}/{bt}/" ++ (if !hold then "not-holdable" else "holdable"),
               trivial := match v with | .num _ _ => false | _ => true }
    -- ------------------------------------------------------------------ lns -> lns (C15)
    | "l2l", [n1s, r1s, as, ds, lgs, mxs, mns, hms], [os] =>
      let some n1 := parseNat n1s | throw "n1"
      let some r1 := parseNat r1s | throw "r1"
      if n1 < 2 || r1 ≥ n1 then throw "source configuration"
      let a ← hx as "enc"; let d ← hx ds "double"; let lg ← hx lgs "lg"; let mx ← hx mxs "mx"; let mn ← hx mns "mn"; let hm ← hx hms "hm"
      let o ← hx os "enc"
      if a ≥ 2 ^ n1 then throw "encoding out of range"
      let c1 : Lns.Model.Cfg := { nbits := n1, rbits := r1, w := w, wrap := wrap }
      let (dstr, _) := toNativeModel f64 c1 a d
      let m := lnsToLns c1 c ⟨mx, mn, hm⟩ a d lg
      -- the model's result is conditional on the observed double being what the model predicts for double(rhs)
      let mstr := if dstr == hexPad 16 d then toHex m else s!"double(rhs)={dstr}"
      let v := decode n1 a
      let ok := l2lOk n r1 r wrap v o
      let N1 : Int := ((2 ^ r1 : Nat) : Int)
      let cls := match v with
        | .num _ E => if !ok && (E ≥ 1024 * N1 || E < -1022 * N1) then "lns.convert.double_range" else ""
        | _ => ""
      let tg := match v with
        | .num _ E =>
          let (lo, hi) := rescale r1 r E
          (if r ≥ r1 then "exact" else if lo != hi then "tie" else if E % ((2 ^ (r1 - r) : Nat) : Int) = 0 then "exact" else "rounded") ++
          (if hi ≥ maxE n then "/above-range" else if lo < minE n then "/below-range" else "")
        | .zero => "zero" | .nan => "nan"
      return { model := mstr, specOk := ok,
               reason := if ok then "" else s!"source {repr v} accepted target exponents {repr (match v with | .num _ E => rescale r1 r E | _ => (0, 0))} result {repr (decode n o)}",
               cls := cls, tag := s!"l2l{asg}/{bt}/{tg}", trivial := match v with | .num _ _ => false | _ => true }
    | _, _, _ => throw s!"unknown op/arity {op}"
  | _ => throw "arity"

end UVerif.Driver
