/-
  UVerif.Driver.ConvPosInt — line handler of family `convpi` (property C15, posit ↔ integer adapters).
    convpi p2i <n> <es> <ibits> <bt> i <posit enc> => <integer raw storage hex>
    convpi i2p <ibits> <bt> i <n> <es> <integer hex> => <posit enc> | exc | hang
    convpi p2i= … / convpi i2p= …   the same conversions assigned onto a target that held all-ones before (same model, same spec)
    convpi rtp <n> <es> <ibits> <bt> i <posit enc> => <integer raw storage hex> <posit enc back | exc | hang>
    convpi rti <ibits> <bt> i <n> <es> <integer hex> => <posit enc | exc | hang> <integer raw storage hex back | ->
  kind: `i` = IntegerNumberType::IntegerNumber, `w` = WholeNumber, `n` = NaturalNumber (the two unsigned number types share
  one model: the adapters reach no code that tells them apart in the default, non-throwing build).
-/
import UVerif.Driver.Core
import UVerif.Driver.Integer
import UVerif.Driver.Posit
import UVerif.Model.ConvPosInt
import UVerif.Spec.ConvPosInt

namespace UVerif.Driver
open UVerif UVerif.Limbs UVerif.Posit

/-! ### known-finding classes: predicates on the INPUTS (configuration and exact source value)

None is left: the two consequences of the multi-block `uint64_t` carry defect of `integer::operator+=` disappeared with its
repair; no region of the adapters has a class, a spec failure anywhere is a VIOLATION. -/

/-- posit → integer -/
def p2iClass (w ibits n es p : Nat) : String :=
  match positVal n es p with
  | none => ""
  | some x =>
    let _ := (w, ibits, x)
    ""

/-- integer → posit (`u` = unsigned number type) -/
def i2pClassK (u : Bool) (w ibits : Nat) : String :=
  let _ := (u, w, ibits)
  ""

private def orCls' (a b : String) : String := if a.isEmpty then b else a

private def p2iTag (u : Bool) (n es ibits p : Nat) : String × Bool :=
  match positVal n es p with
  | none => ("nar", true)
  | some x =>
    if x == 0 then ("zero", true)
    else
      let ax := if x < 0 then -x else x
      if ax < 1 then ("below-one", false)
      else if !(if u then 0 ≤ truncZ x && truncZ x < (2 ^ ibits : Nat) else IntegerSpec.fits ibits (truncZ x)) then ("wraps", false)
      else if x.den == 1 then ("exact", false) else ("truncated", false)

private def parseI2P (s : String) : Option ConvPosInt.I2P :=
  if s == "exc" then some .exc else if s == "hang" then some .hang else (parseHex s).map .enc

def convpiHandler : Handler := fun lhs rhs => do
  let (op0, rest) ← match lhs with | op :: rest => pure (op, rest) | _ => throw "arity"
  -- `p2i=` / `i2p=`: the same conversion assigned onto a non-fresh target; model and spec are those of `p2i` / `i2p`
  let dirty := op0 == "p2i=" || op0 == "i2p="
  let op := if op0 == "p2i=" then "p2i" else if op0 == "i2p=" then "i2p" else op0
  let dt := if dirty then "=" else ""
  -- both argument orders carry the same six configuration tokens
  let (ns, ess, ibs, bts, kind, arg) ← match op, rest with
    | "p2i", [ns, ess, ibs, bts, kind, arg] | "rtp", [ns, ess, ibs, bts, kind, arg] => pure (ns, ess, ibs, bts, kind, arg)
    | "i2p", [ibs, bts, kind, ns, ess, arg] | "rti", [ibs, bts, kind, ns, ess, arg] => pure (ns, ess, ibs, bts, kind, arg)
    | _, _ => throw "arity"
  let u ← match kind with
    | "i" => pure false
    | "w" | "n" => pure true
    | _ => throw "number type"
  let some n := parseNat ns | throw "nbits"
  let some es := parseNat ess | throw "es"
  let some ibits := parseNat ibs | throw "ibits"
  let some w := btWidth bts | throw "bt"
  let some v := parseHex arg | throw "operand"
  if n < 2 || ibits < 2 then throw "configuration"
  let k := nrBlocks w ibits
  let hexL (l : List Nat) : String := toHex (toNat w l)
  match op, rhs with
  | "p2i", [rs] =>
    let some r := parseHex rs | throw "r"
    let m := ConvPosInt.p2i w ibits n es v
    let ok := ConvPosIntSpec.p2iOk n es ibits v r
    let (tg, triv) := p2iTag u n es ibits v
    let why := match ConvPosIntSpec.p2iExpect n es ibits v with
      | some e => s!"value {showRat ((positVal n es v).getD 0)} truncates to {toHex e}"
      | none => "storage bits above ibits"
    return { model := hexL m, specOk := ok, reason := if ok then "" else why, cls := p2iClass w ibits n es v,
             tag := "p2i" ++ dt ++ "/" ++ tg, trivial := triv, canonical := r < 2 ^ (k * w) && r < 2 ^ ibits }
  | "i2p", [rs] =>
    let some r := parseI2P rs | throw "r"
    let a := v % 2 ^ ibits
    let m := ConvPosInt.i2pK u w ibits n es (ofNat w k a)
    let x := ConvPosIntSpec.intValK u ibits a
    let cls := i2pClassK u w ibits
    match r with
    | .enc e =>
      let ok := ConvPosIntSpec.i2pOkK u ibits n es a e
      return { model := m.show, specOk := ok,
               reason := if ok then "" else s!"integer {x} rounds to {toHex (positRound n es (x : Rat))}", cls := cls,
               tag := "i2p" ++ dt ++ "/" ++ roundTag n es (x : Rat) e, trivial := x == 0, canonical := e < 2 ^ n }
    | .exc => return { model := m.show, specOk := false, cls := cls, tag := "i2p" ++ dt ++ "/exc",
                       reason := s!"the conversion throws std::out_of_range; integer {x} rounds to {toHex (positRound n es (x : Rat))}" }
    | .hang => return { model := m.show, specOk := false, cls := cls, tag := "i2p" ++ dt ++ "/hang",
                        reason := s!"the conversion does not terminate; integer {x} rounds to {toHex (positRound n es (x : Rat))}" }
  | "rtp", [vs, bs] =>
    let some iv := parseHex vs | throw "v"
    let some back := parseI2P bs | throw "back"
    let (mv, mb) := ConvPosInt.rtpK u w ibits n es v
    let rep := ConvPosIntSpec.p2iRepresentableK u n es ibits v
    let ok := match back with
      | .enc b => ConvPosIntSpec.rtpOkK u n es ibits v iv b
      | _ => !rep
    -- class: the forward leg's, else the class of the back leg
    let c2 := i2pClassK u w ibits
    return { model := s!"{hexL mv} {mb.show}", specOk := ok,
             reason := if ok then "" else "the posit's value is an integer that fits, but posit -> integer -> posit is not the identity",
             cls := orCls' (p2iClass w ibits n es v) c2,
             tag := if rep then "rtp/representable" else "rtp/not-representable", trivial := (positVal n es v).isNone || v % 2 ^ n == 0 }
  | "rti", [rs, bs] =>
    let some r := parseI2P rs | throw "r"
    let a := v % 2 ^ ibits
    let (mr, mb) := ConvPosInt.rtiK u w ibits n es (ofNat w k a)
    let x := ConvPosIntSpec.intValK u ibits a
    let ms := match mb with | some l => hexL l | none => "-"
    let back? := parseHex bs
    let expectP := positRound n es (x : Rat)
    let rep := positVal n es expectP == some (x : Rat)
    let ok := match r, back? with
      | .enc e, some b => ConvPosIntSpec.rtiOkK u ibits n es a e b
      | _, _ => !rep
    return { model := s!"{mr.show} {ms}", specOk := ok,
             reason := if ok then "" else "the integer is a value of the posit, but integer -> posit -> integer is not the identity",
             cls := orCls' (i2pClassK u w ibits) (p2iClass w ibits n es expectP),
             tag := if rep then "rti/representable" else "rti/not-representable", trivial := x == 0 }
  | _, _ => throw "arity"

end UVerif.Driver
