/-
  UVerif.Driver.Core — line protocol shared by all families.
  A transcript line is `family cfg… op in… => out…`; a family handler recomputes the model output
  and evaluates the executable spec predicate on the implementation's output.
-/
import UVerif.Basic

namespace UVerif.Driver

structure LineResult where
  model  : String          -- the model's output, same canonical text as the harness prints
  specOk : Bool := true    -- spec predicate evaluated on the IMPLEMENTATION's output
  reason : String := ""    -- why the spec predicate rejected
  cls    : String := ""    -- input class id (matched against known_findings.json by check.py)
  tag    : String := ""    -- coverage tag (histogram key)
  trivial : Bool := false  -- special-value-only case (not counted as non-trivial coverage)
  canonical : Bool := true -- false when the implementation's output has a bit outside the type's width (C20)
deriving Repr

/-- handler: (tokens before `=>`, without the family name) → (tokens after `=>`) → result -/
abbrev Handler := List String → List String → Except String LineResult

def splitLine (line : String) : Option (List String × List String) :=
  let toks := (line.trimAscii.toString.splitOn " ").filter (· ≠ "")
  let lhs := toks.takeWhile (· ≠ "=>")
  let rhs := (toks.dropWhile (· ≠ "=>")).drop 1
  if lhs.isEmpty then none else some (lhs, rhs)

def joinToks (l : List String) : String := " ".intercalate l

end UVerif.Driver

namespace UVerif.Driver

/-- `thr <family> <nthreads> <ops> => <checksum> <flag>`: thread-determinism validation (C20). The model cannot recompute the
    checksum (it spans several families); the spec predicate is that all threads reproduced the sequential result. -/
def thrHandler : Handler := fun _ rhs =>
  match rhs with
  | [c, flag] => .ok { model := joinToks [c, flag], specOk := flag == "1",
                       reason := "results on N threads differ from the sequential run", tag := "threads" }
  | _ => .error "arity"

end UVerif.Driver

namespace UVerif.Driver

/-- `hist <family> <cfg…> <bt> <ops…> => <bits> <eq> <ne> <lt> <gt> <stale>` (C06 history clause): after an arbitrary operation
    history, x must compare equal to a fresh object holding the same nbits-bit pattern, and its storage must have no bit at or
    above nbits. The operators themselves are modelled and judged by C07/C08; here the model echoes the transcript and only the
    spec predicate judges. Known: D7 — blockbinary/fixpnt `<<=` never masks the top block (class requires a `shl` in the
    history AND stale storage bits, so any other way of breaking equality is still reported). -/
def histHandler : Handler := fun lhs rhs =>
  match rhs with
  | [b, eq, ne, lt, gt, stale] =>
    let ok := eq == "1" && ne == "0" && lt == "0" && gt == "0" && stale == "0"
    let fam := lhs.headD ""
    let hasShl := lhs.any (fun t => t.startsWith "shl:")
    let cls := if fam == "fixpnt" && hasShl && stale == "1" then "hist.fixpnt.shl_in_history.stale_bits" else ""
    .ok { model := joinToks [b, eq, ne, lt, gt, stale], specOk := ok,
          reason := "after this operation history x does not compare equal to a fresh object with the same bit pattern (or has bits above nbits)",
          cls := cls, tag := s!"hist/{fam}", canonical := stale == "0" }
  | _ => .error "arity"

end UVerif.Driver

namespace UVerif.Driver

/-- `ub <site id> => ok | abort:<how>` (C20): an operation executed in a forked child of a UBSan build. The spec is that
    every operation is defined behaviour (`ok`); the class id is the site id, so a listed known finding is matched exactly
    and a new abort (or a control that aborts) is reported. -/
def ubHandler : Handler := fun lhs rhs =>
  match lhs, rhs with
  | [site], [r] => .ok { model := r, specOk := r == "ok", reason := "operation aborts under UBSan / raises a signal",
                         cls := "ub." ++ site, tag := "ub-probe" }
  | _, _ => .error "arity"

end UVerif.Driver
