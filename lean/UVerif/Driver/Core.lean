/-
  UVerif.Driver.Core — line protocol shared by all families.
  A transcript line is `family cfg… op in… => out…`; a family handler recomputes the model output
  and evaluates the executable spec predicate on the implementation's output.
-/
import UVerif.Basic

namespace UVerif.Driver

structure LineResult where
  model  : String          -- the model's output, same canonical text as the harness prints
  specOk : Bool := true    -- spec predicate evaluated on the IMPLEMENTATION's output
  reason : String := ""    -- why the spec predicate rejected
  cls    : String := ""    -- input class id (matched against known_findings.json by check.py)
  tag    : String := ""    -- coverage tag (histogram key)
  trivial : Bool := false  -- special-value-only case (not counted as non-trivial coverage)
  canonical : Bool := true -- false when the implementation's output has a bit outside the type's width (C20)
deriving Repr

/-- handler: (tokens before `=>`, without the family name) → (tokens after `=>`) → result -/
abbrev Handler := List String → List String → Except String LineResult

def splitLine (line : String) : Option (List String × List String) :=
  let toks := (line.trimAscii.toString.splitOn " ").filter (· ≠ "")
  let lhs := toks.takeWhile (· ≠ "=>")
  let rhs := (toks.dropWhile (· ≠ "=>")).drop 1
  if lhs.isEmpty then none else some (lhs, rhs)

def joinToks (l : List String) : String := " ".intercalate l

end UVerif.Driver

namespace UVerif.Driver

/-- `thr <family> <nthreads> <ops> => <checksum> <flag>`: thread-determinism validation (C20). The model cannot recompute the
    checksum (it spans several families); the spec predicate is that all threads reproduced the sequential result. -/
def thrHandler : Handler := fun _ rhs =>
  match rhs with
  | [c, flag] => .ok { model := joinToks [c, flag], specOk := flag == "1",
                       reason := "results on N threads differ from the sequential run", tag := "threads" }
  | _ => .error "arity"

end UVerif.Driver
