/-
  UVerif.Driver.DD — handlers for the families
    dd / qd     double-double and quad-double operators (C10): model = Model.DD, spec predicate = normalisation,
                relative error bound (measured exactly on rationals), exactness clauses, special values
    ddc / qdc   the same from a contracted build (-ffp-contract=fast -mfma): spec predicate only
    ddconv      dd <-> native conversions (C03/C04 material; not part of the C10 streams)
-/
import UVerif.Driver.F64
import UVerif.Model.DD

namespace UVerif.Driver
open UVerif UVerif.F64 UVerif.SpecF64 UVerif.DD

/-- `2^-n` as a rational. -/
def epsR (n : Nat) : Rat := pow2 (-(n : Int))

/-- error bucket: smallest listed `c` with `|R − X| ≤ c · 2^-n · |X|` (powers of two above 4). -/
def errBucket (n : Nat) (R X : Rat) : String :=
  let d := absR (R - X)
  let u := epsR n * absR X
  if d = 0 then "err=0"
  else if u = 0 then "err=inf"
  else if 4 * d ≤ u then "err<=1/4"
  else if 2 * d ≤ u then "err<=1/2"
  else if d ≤ u then "err<=1"
  else if d ≤ 2 * u then "err<=2"
  else if d ≤ 4 * u then "err<=4"
  else
    let c := (d / u).ceil.toNat
    s!"err<=2^{F64.size (c - 1)}"

/-- `|R − √A| ≤ c·2^-n·√A` decided on squares (`R ≥ 0`, `A ≥ 0`). -/
def sqrtErrLe (n : Nat) (c : Rat) (R A : Rat) : Bool :=
  let e := c * epsR n
  R ≥ 0 && (if e < 1 then (1 - e) * (1 - e) * A ≤ R * R else true) && R * R ≤ (1 + e) * (1 + e) * A

def sqrtBucket (n : Nat) (R A : Rat) : String :=
  if R * R = A then "err=0"
  else if sqrtErrLe n (1/2) R A then "err<=1/2"
  else if sqrtErrLe n 1 R A then "err<=1"
  else if sqrtErrLe n 2 R A then "err<=2"
  else if sqrtErrLe n 4 R A then "err<=4"
  else if sqrtErrLe n 8 R A then "err<=2^3"
  else if sqrtErrLe n 10 R A then "err<=10"
  else if sqrtErrLe n 1024 R A then "err<=2^10"
  else if sqrtErrLe n 1048576 R A then "err<=2^20"
  else "err>2^20"

inductive Kind where
  | nan | inf (s : Bool) | zero (s : Bool) | fin (s : Bool)
deriving DecidableEq

def kindOf (b : Nat) : Kind :=
  if isNaN64 b then .nan else if isInf64 b then .inf (signOf 53 11 b)
  else if mag64 b = 0 then .zero (signOf 53 11 b) else .fin (signOf 53 11 b)

/-- what IEEE double arithmetic does with the leading components when one of them is inf/NaN:
    `some k` = the kind of result the property demands, `none` = not a special-value case. -/
def specialExpect (op : String) (a b : Kind) : Option Kind :=
  match op, a, b with
  | _, .nan, _ => some .nan
  | _, _, .nan => some .nan
  | "add", .inf s, .inf t => if s = t then some (.inf s) else some .nan
  | "sub", .inf s, .inf t => if s != t then some (.inf s) else some .nan
  | "add", .inf s, _ => some (.inf s)
  | "sub", .inf s, _ => some (.inf s)
  | "add", _, .inf t => some (.inf t)
  | "sub", _, .inf t => some (.inf !t)
  | "mul", .inf s, .inf t => some (.inf (s != t))
  | "mul", .inf _, .zero _ => some .nan
  | "mul", .zero _, .inf _ => some .nan
  | "mul", .inf s, .fin t => some (.inf (s != t))
  | "mul", .fin s, .inf t => some (.inf (s != t))
  | "div", .inf _, .inf _ => some .nan
  | "div", .inf s, .fin t => some (.inf (s != t))
  | "div", .inf s, .zero t => some (.inf (s != t))
  | "div", .fin s, .inf t => some (.zero (s != t))
  | "div", .zero s, .inf t => some (.zero (s != t))
  | _, _, _ => none

/-- does the result pattern have the demanded kind (sign of a zero not constrained)? -/
def kindMatches (k : Kind) (r : Nat) : Bool :=
  match k, kindOf r with
  | .nan, .nan => true
  | .inf s, .inf t => s == t
  | .zero _, .zero _ => true
  | _, _ => false

def ddMin : Rat := pow2 (-969)     -- numeric_limits<dd>::min()
def qdMin : Rat := pow2 (-863)     -- 2^(-1022 + 3*53)
def dblMax : Rat := val64 0x7fefffffffffffff

def isPow2Pat (b : Nat) : Bool :=
  let B := mag64 b
  isFin64 b && B != 0 && (if B >>> 52 = 0 then (B &&& (B - 1)) == 0 else B % 2 ^ 52 == 0)

/-- `x` is an integer multiple of the smallest subnormal. -/
def onGrid (x : Rat) : Bool := (x * pow2 1074).den == 1

/-- within 2^-24 (relative) of the overflow threshold: Dekker's `split`/`two_prod` form the 26-bit heads
    `a_hi`, `b_hi` (up to 1 + 2^-26 times the operand) and their product, which then overflows although the
    exact result is a finite double (`split` itself overflows for |x| ≥ 2^1024 − 2^997). -/
def nearMaxR (x : Rat) : Bool := absR x ≥ pow2 1024 - pow2 1000

/-- a dd value below `numeric_limits<dd>::min()` = 2^-969 (its tail cannot carry 53 further bits). -/
def belowDDMin (x : Rat) : Bool := x ≠ 0 && absR x < ddMin

structure DDJudge where
  guarded : Bool
  ok : Bool
  reason : String := ""
  cls : String := ""
  tag : String := ""

def ddBinSpec (op : String) (ahi alo bhi blo rhi rlo : Nat) : DDJudge :=
  let ka := kindOf ahi
  let kb := kindOf bhi
  match specialExpect op ka kb with
  | some k =>
    let ok := kindMatches k rhi
    { guarded := false, ok := ok, reason := "infinities/NaNs propagate like doubles", cls := "", tag := "special" }
  | none =>
    if !(isFin64 ahi && isFin64 alo && isFin64 bhi && isFin64 blo) then { guarded := false, ok := true, tag := "unguarded-nonfinite-tail" }
    else if !(halfUlpOK 53 11 ahi alo && halfUlpOK 53 11 bhi blo) then { guarded := false, ok := true, tag := "unguarded-operand-not-normalised" }
    else
    let A := val64 ahi + val64 alo
    let B := val64 bhi + val64 blo
    if op == "div" && B = 0 then { guarded := false, ok := true, tag := "unguarded-div-by-zero" } else
    let X := match op with
      | "add" => A + B
      | "sub" => A - B
      | "mul" => A * B
      | _ => A / B
    if X ≠ 0 && (absR X < ddMin) then { guarded := false, ok := true, tag := "unguarded-underflow" }
    else if absR X > dblMax then { guarded := false, ok := true, tag := "unguarded-overflow" }
    else
    -- input regions of recorded defects (decidable on the operands)
    let regionCls :=
      if op == "mul" && (nearMaxR (val64 ahi) || nearMaxR (val64 bhi) || nearMaxR (val64 ahi * val64 bhi)) then "dd.mul.near_overflow"
      else if op == "div" && (nearMaxR (val64 ahi) || nearMaxR (val64 bhi) || nearMaxR X) then "dd.div.near_overflow"
      else if op == "div" && (belowDDMin A || belowDDMin B) then "dd.div.operand_below_min"
      else ""
    if !(isFin64 rhi && isFin64 rlo) then { guarded := true, ok := false, reason := "non-finite result for a result in range", cls := regionCls, tag := "nonfinite" }
    else
    let R := val64 rhi + val64 rlo
    let k : Rat := if op == "div" then 10 else 4
    let errOK := absR (R - X) ≤ k * epsR 106 * absR X
    let strict := halfUlpOK 53 11 rhi rlo
    let weak := weakUlpOK 53 11 rhi rlo
    let doubles := mag64 alo = 0 && mag64 blo = 0
    let hm := halfMaxOK64 ahi && halfMaxOK64 bhi
    let exactDemanded :=
      ((op == "add" || op == "sub") && doubles && hm)
      || (op == "mul" && doubles && hm && (X = 0 || (pow2 (-900) ≤ absR X && absR X ≤ pow2 1000)))
      || (op == "mul" && ((isPow2Pat bhi && mag64 blo = 0 && onGrid (val64 alo * val64 bhi)) || (isPow2Pat ahi && mag64 alo = 0 && onGrid (val64 blo * val64 ahi))))
    let exactOK := !exactDemanded || R = X
    let selfOK := !(op == "sub" && ahi = bhi && alo = blo) || (mag64 rhi = 0 && mag64 rlo = 0)
    let ok := errOK && strict && exactOK && selfOK
    let cls := if errOK && exactOK && selfOK && !strict && weak then s!"dd.{op}.weakly_normalised"
      else if !errOK && exactOK && selfOK && (strict || weak) then regionCls else ""
    let reason := if !errOK then s!"relative error above {k}*2^-106"
      else if !exactOK then "exactness clause (sum/product of two doubles, power of two)"
      else if !selfOK then "x - x is not zero"
      else "result not normalised: |lo| > ulp(hi)/2"
    { guarded := true, ok := ok, reason := reason, cls := cls,
      tag := errBucket 106 R X ++ (if exactDemanded then "/exact-clause" else "") ++ (if strict then (if isRN64 R rhi then "" else "/hi-not-RN") else if weak then "/weak" else "/unnormalised") }

def ddUnSpec (op : String) (ahi alo rhi rlo : Nat) : DDJudge :=
  match kindOf ahi with
  | .nan => { guarded := false, ok := isNaN64 rhi, reason := "NaN propagates", tag := "special" }
  | .inf s =>
    if op == "sqrt" then
      { guarded := false, ok := if s then isNaN64 rhi else kindMatches (.inf false) rhi, reason := "sqrt(+inf) = +inf like doubles",
        cls := "", tag := "special" }
    else { guarded := false, ok := true, tag := "model-only" }
  | _ =>
    if !(isFin64 alo) then { guarded := false, ok := true, tag := "unguarded-nonfinite-tail" }
    else if !(halfUlpOK 53 11 ahi alo) then { guarded := false, ok := true, tag := "unguarded-operand-not-normalised" }
    else
    let A := val64 ahi + val64 alo
    if op == "sqrt" then
      if A < 0 then { guarded := false, ok := true, tag := "unguarded-negative" }
      else if A ≠ 0 && (A < ddMin * ddMin || A > dblMax) then { guarded := false, ok := true, tag := "unguarded-range" }
      else
      let regionCls := if nearMaxR (val64 ahi) then "dd.sqrt.near_overflow" else if belowDDMin A then "dd.sqrt.operand_below_min" else ""
      if !(isFin64 rhi && isFin64 rlo) then { guarded := true, ok := false, reason := "non-finite result", cls := regionCls, tag := "nonfinite" }
      else
      let R := val64 rhi + val64 rlo
      let errOK := if A = 0 then R = 0 else sqrtErrLe 106 10 R A
      let strict := halfUlpOK 53 11 rhi rlo
      let weak := weakUlpOK 53 11 rhi rlo
      { guarded := true, ok := errOK && strict, reason := if errOK then "result not normalised" else "relative error above 10*2^-106",
        cls := if errOK && !strict && weak then "dd.sqrt.weakly_normalised" else if !errOK && (strict || weak) then regionCls else "",
        tag := sqrtBucket 106 R A ++ (if strict then "" else if weak then "/weak" else "/unnormalised") }
    else
      -- `sqr` is not one of the operators C10 names: correspondence only, error reported in the histogram
      let X := A * A
      if !(isFin64 rhi && isFin64 rlo) || X = 0 then { guarded := false, ok := true, tag := "model-only" }
      else { guarded := false, ok := true, tag := "model-only/" ++ errBucket 106 (val64 rhi + val64 rlo) X }

/-- spec mask of the six comparisons for finite normalised operands: the order of the exact values. -/
def cmpSpecMask (A B : Rat) : Nat :=
  let eq := A == B
  let lt := decide (A < B)
  let gt := decide (B < A)
  (if eq then 1 else 0) + (if !eq then 2 else 0) + (if lt then 4 else 0) + (if lt || eq then 8 else 0)
    + (if gt then 16 else 0) + (if gt || eq then 32 else 0)

def mkDD (hi lo : Nat) : DD := ⟨ofBits64 hi, ofBits64 lo⟩
def outDD (x : DD) : String := outF x.hi ++ " " ++ outF x.lo

def ddHandlerWith (compare : Bool) : Handler := fun lhs rhs => do
  match lhs with
  | op :: ins =>
    let some xs := parseAll ins | throw "operand"
    let some rs := parseAll rhs | throw "result"
    let fin (m : String) (j : DDJudge) : LineResult :=
      { model := if compare then m else joinToks rhs, specOk := j.ok, reason := j.reason, cls := if j.ok then "" else j.cls,
        tag := "dd." ++ op ++ "/" ++ j.tag, trivial := !j.guarded }
    match op, xs, rs with
    | _, [ahi, alo, bhi, blo], [rhi, rlo] =>
      if !(["add", "sub", "mul", "div"].contains op) then throw s!"unknown op {op}"
      let a := mkDD ahi alo
      let b := mkDD bhi blo
      let m := match op with
        | "add" => DD.add b64 a b
        | "sub" => DD.sub b64 a b
        | "mul" => DD.mul b64 a b
        | _ => DD.div b64 a b
      return fin (outDD m) (ddBinSpec op ahi alo bhi blo rhi rlo)
    | "cmp", [ahi, alo, bhi, blo], [r] =>
      let m := cmpMask (mkDD ahi alo) (mkDD bhi blo)
      let guarded := [ahi, alo, bhi, blo].all isFin64 && halfUlpOK 53 11 ahi alo && halfUlpOK 53 11 bhi blo
      let s := cmpSpecMask (val64 ahi + val64 alo) (val64 bhi + val64 blo)
      return { model := if compare then toHex m else joinToks rhs, specOk := !guarded || r == s, reason := s!"order of the exact values gives mask {toHex s}",
               tag := if guarded then "dd.cmp/ordered" else "dd.cmp/unguarded", trivial := !guarded }
    | "sqrt", [ahi, alo], [rhi, rlo] =>
      return fin (outDD (DD.sqrt b64 (mkDD ahi alo))) (ddUnSpec op ahi alo rhi rlo)
    | "sqr", [ahi, alo], [rhi, rlo] =>
      return fin (outDD (DD.sqr b64 (mkDD ahi alo))) (ddUnSpec op ahi alo rhi rlo)
    | "mul_pwr2", [ahi, alo, b], [rhi, rlo] =>
      let m := DD.mulPwr2 b64 (mkDD ahi alo) (ofBits64 b)
      let guarded := [ahi, alo, b, rhi, rlo].all isFin64 && isPow2Pat b && onGrid (val64 alo * val64 b) && absR (val64 ahi * val64 b) ≤ dblMax
        && onGrid (val64 ahi * val64 b)
      let ok := !guarded || val64 rhi + val64 rlo == (val64 ahi + val64 alo) * val64 b
      return { model := if compare then outDD m else joinToks rhs, specOk := ok, reason := "multiplication by a power of two is exact",
               tag := if guarded then "dd.mul_pwr2/exact-clause" else "dd.mul_pwr2/unguarded", trivial := !guarded }
    | _, [a, b], [rhi, rlo] =>
      if !(["add_d2", "sub_d2", "mul_d2"].contains op) then throw s!"unknown op {op}"
      let fa := ofBits64 a
      let fb := ofBits64 b
      let m := match op with
        | "add_d2" => DD.addDD b64 fa fb
        | "sub_d2" => DD.subDD b64 fa fb
        | _ => DD.mulDD b64 fa fb
      if isNaN64 a || isNaN64 b then
        return { model := if compare then outDD m else joinToks rhs, specOk := isNaN64 rhi, reason := "NaN propagates", tag := "dd." ++ op ++ "/special", trivial := true }
      let X := match op with
        | "add_d2" => val64 a + val64 b
        | "sub_d2" => val64 a - val64 b
        | _ => val64 a * val64 b
      let inRange := op != "mul_d2" || X = 0 || (pow2 (-900) ≤ absR X && absR X ≤ pow2 1000)
      let guarded := isFin64 a && isFin64 b && halfMaxOK64 a && halfMaxOK64 b && inRange
      let ok := !guarded || (isFin64 rhi && isFin64 rlo && val64 rhi + val64 rlo == X && isRN64 X rhi)
      return { model := if compare then outDD m else joinToks rhs, specOk := ok, reason := "the dd sum/product of two doubles is exact and normalised",
               tag := "dd." ++ op ++ (if guarded then "/exact-clause" else "/unguarded"), trivial := !guarded }
    | _, _, _ => throw s!"unknown op/arity {op}"
  | _ => throw "arity"

def ddHandler : Handler := ddHandlerWith true
def ddcHandler : Handler := ddHandlerWith false

/-! ### quad-double -/

def mkQD (l : List Nat) : QD :=
  match l.map ofBits64 with
  | [a, b, c, d] => (a, b, c, d)
  | _ => (pzero, pzero, pzero, pzero)

def outQD (x : QD) : String := joinF [x.1, x.2.1, x.2.2.1, x.2.2.2]

def sumVals (l : List Nat) : Rat := l.foldl (fun acc b => acc + val64 b) 0

/-- every limb at most half an ulp of the previous one. -/
def qdNormalised (l : List Nat) : Bool :=
  match l with
  | a :: b :: rest => halfUlpOK 53 11 a b && qdNormalised (b :: rest)
  | _ => true

def qdWeak (l : List Nat) : Bool :=
  match l with
  | a :: b :: rest => weakUlpOK 53 11 a b && qdWeak (b :: rest)
  | _ => true

def qdHandlerWith (compare : Bool) : Handler := fun lhs rhs => do
  match lhs with
  | op :: ins =>
    let some xs := parseAll ins | throw "operand"
    let some rs := parseAll rhs | throw "result"
    if xs.length != 8 || rs.length != 4 then throw "arity"
    if !(["add", "sub", "mul"].contains op) then throw s!"unknown op {op}"
    let al := xs.take 4
    let bl := xs.drop 4
    let a := mkQD al
    let b := mkQD bl
    let m := match op with
      | "add" => qdAddQ b64 a b
      | "sub" => qdSubQ b64 a b
      | _ => qdMulQ b64 a b
    let modelTxt := if compare then outQD m else joinToks rhs
    if !(xs.all isFin64) then
      return { model := modelTxt, specOk := true, tag := s!"qd.{op}/unguarded-special", trivial := true }
    if !(qdNormalised al && qdNormalised bl) then
      return { model := modelTxt, specOk := true, tag := s!"qd.{op}/unguarded-operand-not-normalised", trivial := true }
    let A := sumVals al
    let B := sumVals bl
    let X := match op with
      | "add" => A + B
      | "sub" => A - B
      | _ => A * B
    if (X ≠ 0 && absR X < qdMin) || absR X > dblMax then
      return { model := modelTxt, specOk := true, tag := s!"qd.{op}/unguarded-range", trivial := true }
    if !(rs.all isFin64) then
      return { model := modelTxt, specOk := false, reason := "non-finite result for a result in range", tag := s!"qd.{op}/nonfinite" }
    let R := sumVals rs
    let errOK := absR (R - X) ≤ 4 * epsR 212 * absR X
    let strict := qdNormalised rs
    let weak := qdWeak rs
    let selfOK := !(op == "sub" && al = bl) || rs.all (fun r => mag64 r = 0)
    let pow2 := op == "mul" && (match bl with | [b0, b1, b2, b3] => isPow2Pat b0 && mag64 b1 = 0 && mag64 b2 = 0 && mag64 b3 = 0 && al.all (fun x => onGrid (val64 x * val64 b0)) | _ => false)
    let exactOK := !pow2 || R = X
    let ok := errOK && strict && selfOK && exactOK
    -- recorded class: addition loses low-order limbs on sparse / partially cancelling operands but keeps
    -- at least triple-double accuracy (2^-159); anything worse is still a violation
    let tripleOK := absR (R - X) ≤ epsR 159 * absR X
    let cls := if errOK && selfOK && exactOK && !strict && weak then s!"qd.{op}.weakly_normalised"
      else if !errOK && selfOK && exactOK && (strict || weak) && tripleOK && op != "mul" then s!"qd.{op}.precision_loss" else ""
    let reason := if !errOK then "relative error above 4*2^-212" else if !selfOK then "x - x is not zero"
      else if !exactOK then "multiplication by a power of two is not exact" else "result not normalised"
    return { model := modelTxt, specOk := ok, reason := reason, cls := if ok then "" else cls,
             tag := s!"qd.{op}/" ++ errBucket 212 R X ++ (if pow2 then "/exact-clause" else "") ++ (if strict then "" else if weak then "/weak" else "/unnormalised") }
  | _ => throw "arity"

def qdHandler : Handler := qdHandlerWith true
def qdcHandler : Handler := qdHandlerWith false

/-! ### dd <-> native conversions (C03 / C04 material) -/

def hex16I (z : Int) : String := hex16 ((z % (2 ^ 64 : Int)).toNat)

def ddconvHandler : Handler := fun lhs rhs => do
  match lhs with
  | op :: ins =>
    let some xs := parseAll ins | throw "operand"
    let some rs := parseAll rhs | throw "result"
    match op, xs, rs with
    | "from_i64", [v], [hi, lo] =>
      let z : Int := if v < 2 ^ 63 then (v : Int) else (v : Int) - (2 ^ 64 : Int)
      let ok := isFin64 hi && isFin64 lo && val64 hi + val64 lo == (z : Rat)
      return { model := outDD (ofInt64 b64 z), specOk := ok, reason := "a 64-bit integer fits the 106-bit significand: conversion must be exact",
               cls := "", tag := "from_i64" }
    | "from_u64", [v], [hi, lo] =>
      let ok := isFin64 hi && isFin64 lo && val64 hi + val64 lo == ((v : Int) : Rat)
      return { model := outDD (ofInt64 b64 (v : Int)), specOk := ok, reason := "a 64-bit integer fits the 106-bit significand: conversion must be exact",
               cls := "", tag := "from_u64" }
    | "from_double", [a], [hi, lo] =>
      let ok := hex16 (toBits64 (ofBits64 a)) == hex16 hi && mag64 lo = 0
      return { model := outDD (ofF (ofBits64 a)), specOk := ok, reason := "dd(double) is (d, 0)", tag := "from_double" }
    | "to_double", [hi, lo], [r] =>
      let guarded := isFin64 hi && isFin64 lo
      let ok := !guarded || isRN64 (val64 hi + val64 lo) r
      return { model := outF (toDouble b64 (mkDD hi lo)), specOk := ok, reason := "double(dd) is the nearest double", tag := "to_double", trivial := !guarded }
    | "to_i64", [hi, lo], [r] =>
      let m := toInt64 b64 (mkDD hi lo)
      let guarded := isFin64 hi && isFin64 lo && halfUlpOK 53 11 hi lo && absR (val64 hi + val64 lo) < pow2 63
      let t := truncZ (val64 hi + val64 lo)
      return { model := hex16I m, specOk := !guarded || hex16I t == hex16 r, reason := s!"truncation toward zero gives {t}",
               cls := "", tag := "to_i64" ++ (if isIntegral b64 (ofBits64 hi) && mag64 lo != 0 then "/integer-head" else ""), trivial := !guarded }
    | "to_u64", [hi, lo], [r] =>
      let m := toUInt64 b64 (mkDD hi lo)
      let x := val64 hi + val64 lo
      let t := truncZ x
      let guarded := isFin64 hi && isFin64 lo && halfUlpOK 53 11 hi lo && t ≥ 0 && x < pow2 64
      return { model := hex16 m, specOk := !guarded || hex16I t == hex16 r, reason := s!"truncation toward zero gives {t}",
               cls := "", tag := "to_u64" ++ (if x ≥ pow2 63 then "/ge2^63" else "") ++ (if isIntegral b64 (ofBits64 hi) && mag64 lo != 0 then "/integer-head" else ""), trivial := !guarded }
    | _, _, _ => throw s!"unknown op/arity {op}"
  | _ => throw "arity"

end UVerif.Driver
