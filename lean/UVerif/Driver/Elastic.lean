/-
  UVerif.Driver.Elastic — handlers for the transcript families `eint`, `edec`, `erat` (harness/h_elastic.cpp).
  For every line: recompute the model output (einteger/edecimal/erational as transcribed in Model/Elastic),
  evaluate the spec predicate of Spec/Elastic on the IMPLEMENTATION's output, and name the input class when the
  inputs lie in a region where the pinned code is known to be wrong (known_findings.json).
-/
import UVerif.Driver.Core
import UVerif.Spec.Elastic
import UVerif.Model.Elastic

namespace UVerif.Driver
open UVerif UVerif.ElasticSpec

/-! ### einteger -/
namespace EIntD
open UVerif.EInt

def widthOf (bt : String) : Option Nat :=
  match bt with
  | "u8" => some 8
  | "u16" => some 16
  | "u32" => some 32
  | _ => none

def rawText (x : EI) : String :=
  (if x.sign then "-" else "+") ++ ",".intercalate (x.limbs.map toHex)

def parseRaw (s : String) : Option EI :=
  let cs := s.toList
  match cs with
  | [] => none
  | c :: rest =>
    if c ≠ '+' ∧ c ≠ '-' then none else
    let body := String.ofList rest
    if body.isEmpty then some { sign := c == '-', limbs := [] }
    else
      let parts := body.splitOn ","
      let vals := parts.map parseHex
      if vals.all Option.isSome then some { sign := c == '-', limbs := vals.map (·.getD 0) } else none

def outText (w : Nat) (x : EI) : String := toDecimal w x ++ " " ++ rawText x

def canon (x : EI) : Bool := noLeadingZeroB x.limbs

/-- input class of one operator application, on the model states of its operands. Empty = the pinned code
    is expected to be right there. -/
def stepClass (w : Nat) (op : String) (a b : EI) (k : Nat) : String :=
  match op with
  | _ => ""

def lenClass (a b : EI) : String :=
  let la := a.limbs.length
  let lb := b.limbs.length
  let m := max la lb
  if m ≤ 1 then "1x1"
  else if m > 16 then "huge"
  else if m > 4 then "big"
  else if la ≤ 1 then "1xN" else if lb ≤ 1 then "Nx1" else "NxN"

def pathTag (d : DivResult) : String :=
  match d.path with
  | .zero => "zero"
  | .native => "native"
  | .less => "less"
  | .single => "single"
  | .knuth => if d.addback > 0 then "knuth+addback" else if d.corr > 0 then "knuth+qhatcorr" else "knuth"

/-- apply one operator of the model. -/
def applyOp (w : Nat) (op : String) (a b : EI) (k : Nat) : Option EI :=
  match op with
  | "add" => some (EInt.add w a b)
  | "sub" => some (EInt.sub w a b)
  | "mul" => some (EInt.mul w a b)
  | "div" => some (EInt.div w a b)
  | "rem" => some (EInt.rem w a b)
  | "shl" => some (EInt.shl w a k)
  | "shr" => some (EInt.shr w a k)
  | "neg" => some (EInt.neg a)
  | _ => none

/-- exact candidates after one operator (a list because `>>` of a negative value allows two readings). -/
def applySpec (op : String) (vs : List Int) (bv : Int) (k : Nat) : Option (List Int) :=
  match op with
  | "shl" => some (vs.map (fun v => shlSpec 2 v k))
  | "shr" => some ((vs.map (fun v => shrSpec 2 v k)).flatten.eraseDups)
  | "neg" => some (vs.map (fun v => -v))
  | _ =>
    let rs := vs.map (fun v => intBin op v bv)
    if rs.all Option.isSome then some ((rs.map (·.getD 0)).eraseDups) else none

/-- spec predicate on an implementation output `dec raw`. -/
def judge (w : Nat) (cands : List Int) (rhs : List String) : Bool × String :=
  match rhs with
  | [ds, rs] =>
    match parseRaw rs with
    | none => (false, "unparsable raw limbs")
    | some st =>
      let okText := cands.any (fun v => decText v == ds)
      let okRaw := cands.any (fun v => toInt w st == v)
      if okText && okRaw then (true, "")
      else (false, s!"exact result {" or ".intercalate (cands.map decText)}" ++ (if okRaw then " (limbs hold it, text differs)" else ""))
  | _ => (false, "expected `decimal raw`")

partial def chainSteps (w : Nat) (toks : List String) (st : EI) (vs : List Int) (cls : String) (done : Bool) (grew shrank : Bool)
    : Except String (EI × List Int × String × Bool × Bool × Bool) :=
  match toks with
  | [] => pure (st, vs, cls, done, grew, shrank)
  | op :: arg :: rest => do
    let isShift := op == "shl" || op == "shr"
    let k := if isShift then arg.toNat?.getD 0 else 0
    let b : EI := if isShift || op == "neg" then {} else parseDec w arg
    let bv : Int := if isShift || op == "neg" then 0 else arg.toInt?.getD 0
    let some st' := applyOp w op st b k | throw s!"unknown chain op {op}"
    let some vs' := applySpec op vs bv k | throw "chain: division by zero"
    -- the class of a chain is the class of the FIRST step at which the modelled code leaves the exact value
    -- (or produces the object that prints `-0`); earlier steps inside a defect region that happen to be right do not count
    let deviates := !(vs'.any (fun v => toInt w st' == v)) || (st'.sign && !st'.limbs.isEmpty && toNat w st'.limbs == 0)
    let (c, dev) := if !done && deviates then (stepClass w op st b k, true) else (cls, done)
    chainSteps w rest st' vs' c dev (grew || st'.limbs.length > st.limbs.length) (shrank || st'.limbs.length < st.limbs.length)
  | _ => throw "chain: odd number of tokens"

def handler : Handler := fun lhs rhs => do
  match lhs with
  | bt :: op :: args =>
    let some w := widthOf bt | throw "block type"
    match op, args with
    | "chain", init :: steps =>
      let st0 := parseDec w init
      let some v0 := init.toInt? | throw "init"
      let (st, vs, cls, dev, grew, shrank) ← chainSteps w steps st0 [v0] "" false false false
      let (ok, why) := judge w vs rhs
      let n := steps.length / 2
      let lb := if n ≤ 3 then "1-3" else if n ≤ 10 then "4-10" else if n ≤ 25 then "11-25" else "26-50"
      return { model := outText w st, specOk := ok, reason := why, cls := cls,
               tag := s!"eint:{bt}:chain:{lb}:{if grew && shrank then "grow+shrink" else if grew then "grow" else if shrank then "shrink" else "flat"}:{if dev then "model-leaves-exact" else "exact-throughout"}" }
    | "cmp", [as, bs] =>
      let a := parseDec w as
      let b := parseDec w bs
      let some av := as.toInt? | throw "a"
      let some bv := bs.toInt? | throw "b"
      let m := EInt.cmpMask a b
      let s := ElasticSpec.cmpMask av bv
      match rhs with
      | [rs] =>
        let some r := parseHex rs | throw "mask"
        return { model := toHex m, specOk := r == s, reason := s!"expected mask {toHex s}", cls := stepClass w "cmp" a b 0,
                 tag := s!"eint:{bt}:cmp:{lenClass a b}" }
      | _ => throw "cmp arity"
    | "parse", [as] =>
      let a := parseDec w as
      let some av := as.toInt? | throw "a"
      let (ok, why) := judge w [av] rhs
      return { model := outText w a, specOk := ok, reason := why, tag := s!"eint:{bt}:parse:{lenClass a a}" }
    | "print", [rs] =>
      let some a := parseRaw rs | throw "raw"
      let v := toInt w a
      match rhs with
      | [ds] => return { model := toDecimal w a, specOk := ds == decText v, reason := s!"decimal expansion is {decText v}",
                         tag := s!"eint:{bt}:print:{lenClass a a}" }
      | _ => throw "print arity"
    | "neg", [as] =>
      let a := parseDec w as
      let some av := as.toInt? | throw "a"
      let (ok, why) := judge w [-av] rhs
      return { model := outText w (EInt.neg a), specOk := ok, reason := why, tag := s!"eint:{bt}:neg:{lenClass a a}" }
    | _, [as, bs] =>
      if op == "shl" || op == "shr" then
        let a := parseDec w as
        let some av := as.toInt? | throw "a"
        let some k := bs.toNat? | throw "shift"
        let some r := applyOp w op a {} k | throw "op"
        let some cands := applySpec op [av] 0 k | throw "op"
        let (ok, why) := judge w cands rhs
        let kc := if k % w == 0 then "blocks" else if k < w then "bits" else "blocks+bits"
        return { model := outText w r, specOk := ok, reason := why, cls := stepClass w op a {} k,
                 tag := s!"eint:{bt}:{op}:{kc}:{lenClass a a}" }
      else
        if !(["add", "sub", "mul", "div", "rem"].contains op) then throw s!"unknown op {op}"
        let a := parseDec w as
        let b := parseDec w bs
        let some av := as.toInt? | throw "a"
        let some bv := bs.toInt? | throw "b"
        let some r := applyOp w op a b 0 | throw "op"
        match intBin op av bv with
        | none => return { model := outText w r, specOk := true, tag := s!"eint:{bt}:{op}:by-zero", trivial := true }
        | some x =>
          let (ok, why) := judge w [x] rhs
          let pt := if op == "div" || op == "rem" then ":" ++ pathTag (reduce w a b) else ""
          let sg := (if a.sign then "-" else "+") ++ (if b.sign then "-" else "+")
          return { model := outText w r, specOk := ok, reason := why, cls := stepClass w op a b 0,
                   tag := s!"eint:{bt}:{op}:{lenClass a b}:{sg}{pt}" }
    | _, _ => throw "arity"
  | _ => throw "arity"

end EIntD

/-! ### edecimal -/
namespace EDecD
open UVerif.EDec

def unpadded (x : ED) : Bool := x.d.length ≤ 1 || x.d.getLast? != some 0

/-- input classes of the edecimal defects (D17 and the padded zero produced by `<<`). -/
def stepClass (op : String) (a b : ED) : String :=
  if !(unpadded a && unpadded b) || (a.neg && isZero a) || (b.neg && isZero b) then "edec.state.padded-or-negative-zero"
  else match op with
  | _ => ""

def applyOp (op : String) (a b : ED) (k : Nat) : Option ED :=
  match op with
  | "add" => some (EDec.add a b)
  | "sub" => some (EDec.sub a b)
  | "mul" => some (EDec.mul a b)
  | "div" => some (EDec.div a b)
  | "rem" => some (EDec.rem a b)
  | "shl" => some (EDec.shl a k)
  | "shr" => some (EDec.shr a k)
  | "neg" => some (EDec.neg a)
  | _ => none

def applySpec (op : String) (vs : List Int) (bv : Int) (k : Nat) : Option (List Int) :=
  match op with
  | "shl" => some (vs.map (fun v => shlSpec 10 v k))
  | "shr" => some ((vs.map (fun v => shrSpec 10 v k)).flatten.eraseDups)
  | "neg" => some (vs.map (fun v => -v))
  | _ =>
    let rs := vs.map (fun v => intBin op v bv)
    if rs.all Option.isSome then some ((rs.map (·.getD 0)).eraseDups) else none

def judge (cands : List Int) (rhs : List String) : Bool × String :=
  match rhs with
  | [ds] => if cands.any (fun v => decText v == ds) then (true, "")
            else (false, s!"exact result {" or ".intercalate (cands.map decText)}")
  | _ => (false, "expected one decimal string")

def sizeClass (a b : ED) : String :=
  let m := max a.d.length b.d.length
  if m ≤ 1 then "1" else if m ≤ 9 then "2-9" else if m ≤ 40 then "10-40" else "41+"

partial def chainSteps (toks : List String) (st : ED) (vs : List Int) (cls : String) (done : Bool) (grew shrank : Bool)
    : Except String (ED × List Int × String × Bool × Bool × Bool) :=
  match toks with
  | [] => pure (st, vs, cls, done, grew, shrank)
  | op :: arg :: rest => do
    let isShift := op == "shl" || op == "shr"
    let k := if isShift then arg.toNat?.getD 0 else 0
    let b : ED := if isShift || op == "neg" then EDec.zero else parseDec arg
    let bv : Int := if isShift || op == "neg" then 0 else arg.toInt?.getD 0
    let some st' := applyOp op st b k | throw s!"unknown chain op {op}"
    let some vs' := applySpec op vs bv k | throw "chain: division by zero"
    -- first step whose modelled result no longer PRINTS as the exact value decides the class
    let deviates := !(vs'.any (fun v => decText v == toDecimal st'))
    let (c, dev) := if !done && deviates then (stepClass op st b, true) else (cls, done)
    chainSteps rest st' vs' c dev (grew || st'.d.length > st.d.length) (shrank || st'.d.length < st.d.length)
  | _ => throw "chain: odd number of tokens"

def handler : Handler := fun lhs rhs => do
  match lhs with
  | "chain" :: init :: steps =>
    let st0 := parseDec init
    let some v0 := init.toInt? | throw "init"
    let (st, vs, cls, dev, grew, shrank) ← chainSteps steps st0 [v0] "" false false false
    let (ok, why) := judge vs rhs
    let n := steps.length / 2
    let lb := if n ≤ 3 then "1-3" else if n ≤ 10 then "4-10" else if n ≤ 25 then "11-25" else "26-50"
    return { model := toDecimal st, specOk := ok, reason := why, cls := cls,
             tag := s!"edec:chain:{lb}:{if grew && shrank then "grow+shrink" else if grew then "grow" else if shrank then "shrink" else "flat"}:{if dev then "model-leaves-exact" else "exact-throughout"}" }
  | ["cmp", as, bs] =>
    let a := parseDec as
    let b := parseDec bs
    let some av := as.toInt? | throw "a"
    let some bv := bs.toInt? | throw "b"
    match rhs with
    | [rs] =>
      let some r := parseHex rs | throw "mask"
      let s := ElasticSpec.cmpMask av bv
      return { model := toHex (EDec.cmpMask a b), specOk := r == s, reason := s!"expected mask {toHex s}",
               cls := stepClass "cmp" a b, tag := s!"edec:cmp:{sizeClass a b}" }
    | _ => throw "cmp arity"
  | ["parse", as] =>
    let a := parseDec as
    let some av := as.toInt? | throw "a"
    let (ok, why) := judge [av] rhs
    return { model := toDecimal a, specOk := ok, reason := why, tag := s!"edec:parse:{sizeClass a a}" }
  | ["neg", as] =>
    let a := parseDec as
    let some av := as.toInt? | throw "a"
    let (ok, why) := judge [-av] rhs
    return { model := toDecimal (EDec.neg a), specOk := ok, reason := why, cls := stepClass "neg" a EDec.zero,
             tag := s!"edec:neg:{sizeClass a a}" }
  | [op, as, bs] =>
    if op == "shl" || op == "shr" then
      let a := parseDec as
      let some av := as.toInt? | throw "a"
      let some k := bs.toNat? | throw "shift"
      let some r := applyOp op a EDec.zero k | throw "op"
      let some cands := applySpec op [av] 0 k | throw "op"
      let (ok, why) := judge cands rhs
      return { model := toDecimal r, specOk := ok, reason := why, cls := stepClass op a EDec.zero,
               tag := s!"edec:{op}:{sizeClass a a}" }
    else
      if !(["add", "sub", "mul", "div", "rem"].contains op) then throw s!"unknown op {op}"
      let a := parseDec as
      let b := parseDec bs
      let some av := as.toInt? | throw "a"
      let some bv := bs.toInt? | throw "b"
      let some r := applyOp op a b 0 | throw "op"
      match intBin op av bv with
      | none => return { model := toDecimal r, specOk := true, tag := s!"edec:{op}:by-zero", trivial := true }
      | some x =>
        let (ok, why) := judge [x] rhs
        let sg := (if a.neg then "-" else "+") ++ (if b.neg then "-" else "+")
        return { model := toDecimal r, specOk := ok, reason := why, cls := stepClass op a b,
                 tag := s!"edec:{op}:{sizeClass a b}:{sg}" }
  | _ => throw "arity"

end EDecD

/-! ### erational -/
namespace ERatD
open UVerif.ERat

/-- `[-]p/q` → model state (as the harness builds it: setnumerator / setdenominator / setsign) -/
def parseState (s : String) : Option ER :=
  let neg := s.startsWith "-"
  let body := if neg then (s.drop 1).toString else s
  match body.splitOn "/" with
  | [p, q] => if p.isEmpty || q.isEmpty then none else some { neg := neg, num := EDec.parseDec p, den := EDec.parseDec q }
  | _ => none

def parseValue (s : String) : Option Rat :=
  match s.splitOn "/" with
  | [p, q] =>
    match p.toInt?, q.toNat? with
    | some n, some d => if d = 0 then none else some ((n : Rat) / (d : Rat))
    | _, _ => none
  | _ => none

def applyOp (op : String) (a b : ER) : Option ER :=
  match op with
  | "add" => some (ERat.add a b)
  | "sub" => some (ERat.sub a b)
  | "mul" => some (ERat.mul a b)
  | "div" => some (ERat.div a b)
  | _ => none

def lowest (x : ER) : Bool :=
  Nat.gcd (EDec.toNat x.num.d) (EDec.toNat x.den.d) == 1

/-- erational has no known-defect input class left (D17 repaired in 5d744db): every spec failure is unclassified. -/
def stepClass (_op : String) (_a _b : ER) : String := ""

def judge (x : Rat) (rhs : List String) : Bool × String :=
  match rhs with
  | [s] => if s == ratText x then (true, "")
           else
             let same := match parseValue s with
               | some v => v == x
               | none => false
             (false, s!"exact result {ratText x}" ++ (if same then " (same value, not the canonical text)" else ""))
  | _ => (false, "expected one fraction")

partial def chainSteps (toks : List String) (st : ER) (v : Rat) (cls : String) (done : Bool)
    : Except String (ER × Rat × String × Bool) :=
  match toks with
  | [] => pure (st, v, cls, done)
  | op :: arg :: rest => do
    let some b := parseState arg | throw "chain arg"
    let some bv := parseValue arg | throw "chain arg value"
    let some st' := applyOp op st b | throw s!"unknown chain op {op}"
    let some v' := ratBin op v bv | throw "chain: division by zero"
    let deviates := toText st' != ratText v'
    let (c, dev) := if !done && deviates then (stepClass op st b, true) else (cls, done)
    chainSteps rest st' v' c dev
  | _ => throw "chain: odd number of tokens"

def handler : Handler := fun lhs rhs => do
  match lhs with
  | "chain" :: init :: steps =>
    let some st0 := parseState init | throw "init"
    let some v0 := parseValue init | throw "init value"
    let (st, v, cls, dev) ← chainSteps steps st0 v0 "" false
    let (ok, why) := judge v rhs
    let n := steps.length / 2
    let lb := if n ≤ 3 then "1-3" else if n ≤ 10 then "4-10" else "11-25"
    return { model := toText st, specOk := ok, reason := why, cls := cls,
             tag := s!"erat:chain:{lb}:{if dev then "model-leaves-exact" else "exact-throughout"}" }
  | [op, as, bs] =>
    let some a := parseState as | throw "a"
    let some b := parseState bs | throw "b"
    let some av := parseValue as | throw "a value"
    let some bv := parseValue bs | throw "b value"
    let some r := applyOp op a b | throw s!"unknown op {op}"
    match ratBin op av bv with
    | none => return { model := toText r, specOk := true, tag := s!"erat:{op}:by-zero", trivial := true }
    | some x =>
      let (ok, why) := judge x rhs
      let sz := max (max a.num.d.length a.den.d.length) (max b.num.d.length b.den.d.length)
      let sc := if sz ≤ 2 then "1-2" else if sz ≤ 10 then "3-10" else "11+"
      let red := if lowest a && lowest b then "reduced" else "unreduced"
      let z := if x = 0 then ":zero" else ""
      return { model := toText r, specOk := ok, reason := why, cls := stepClass op a b,
               tag := s!"erat:{op}:{sc}:{red}{z}" }
  | _ => throw "arity"

end ERatD

def eintHandler : Handler := EIntD.handler
def edecHandler : Handler := EDecD.handler
def eratHandler : Handler := ERatD.handler

end UVerif.Driver
