/-
  UVerif.Driver.Except — family `exc` (property C19): one line carries what the quiet build and the throwing build of the
  same operator did with the same operands,

      exc <family> <cfg…> <op> <a> [<b>] => q:<res> qe:<0|1> t:<res> te:<0|1>
      res = ok:<hex bits | text>  |  throw:<exception type>  |  sig:FPE

  model output: the prologue model (`UVerif.Exc.*.prologue`) decides throw / early value / fall-through for both builds;
  where both builds fall through into the shared arithmetic the throwing build's value is predicted to be the quiet
  build's value. (A branch in which only the throwing build falls through would take the value over from the transcript;
  since the repair of D22, commit d2b4539, the prologue models contain no such branch.)
  spec: `UVerif.Exc.specCheck` on the two observed outcomes.
-/
import UVerif.Driver.Core
import UVerif.Model.Except

namespace UVerif.Driver
open UVerif UVerif.Exc

private def blockBits : String → Option Nat
  | "u8" => some 8 | "u16" => some 16 | "u32" => some 32 | "u64" => some 64 | _ => none

private def stripPrefix (pre s : String) : Option String :=
  if s.startsWith pre then some (s.drop pre.length).toString else none

/-- model text of the two outcomes and the two stderr flags: `runQ` / `runT` of the prologue model on the value of the
    shared arithmetic, which is read off the transcript — from the quiet build where the quiet build reaches the shared
    arithmetic, otherwise (a quiet-only early return; none is left in the model since fix d2b4539) from the throwing build. -/
private def modelText (p : Prologue String) (q t : Obs) : String :=
  let src := if p.qEarly.isNone && !p.qTrap then q else t
  let core := match src with
    | .val v => v
    | _ => "?"          -- the build did not deliver a value where the model says the shared arithmetic runs
  let mq := ((runQ p core).obs id).toString
  let mt := ((runT p core).obs id).toString
  s!"q:{mq} qe:{if p.qStderr then 1 else 0} t:{mt} te:{if p.tStderr then 1 else 0}"

private def hexPrologue (p : Prologue Nat) : Prologue String :=
  { throws := p.throws, tEarly := p.tEarly.map toHex, qEarly := p.qEarly.map toHex, qTrap := p.qTrap,
    qStderr := p.qStderr, tStderr := p.tStderr }

private def branchTag (p : Prologue String) : String :=
  match p.throws with
  | some k => k.name
  | none => if p.tEarly.isSome then "early" else if p.qEarly.isSome || p.qTrap then "quiet-only-early" else "shared"

structure ExcCase where
  p : Prologue String
  errCond : Bool
  applies : ExcKind → Bool
  stderrSignal : Bool
  cls : String := ""

/-- family-specific part: configuration tokens, operator, operands ↦ prologue model, spec ingredients, input class -/
def excCase (fam : String) (cfg : List String) (op : Op) (as bs : String) : Except String ExcCase := do
  let natOps : Except String (Nat × Nat) := do
    let some a := parseHex as | throw "a"
    let b ← if bs.isEmpty then pure 0 else match parseHex bs with
      | some b => pure b
      | none => throw "b"
    pure (a, b)
  let intOps : Except String (Int × Int) := do
    let some a := parseInt as | throw "a"
    let some b := parseInt bs | throw "b"
    pure (a, b)
  match fam, cfg with
  | "posit", [ns, _ess] =>
    let some n := parseNat ns | throw "nbits"
    let (a, b) ← natOps
    let cls := if op == .recip && PositSpec.err n op a b then "exc.posit.reciprocal" else ""
    return { p := hexPrologue (Posit.prologue n op a b), errCond := PositSpec.err n op a b,
             applies := PositSpec.kindApplies n op a b, stderrSignal := false, cls := cls }
  | "cfloat", [ns, ess, _bt, flags] =>
    let some n := parseNat ns | throw "nbits"
    let some es := parseNat ess | throw "es"
    let fl := flags.toList
    let c : CFloatSpec.Cfg := { n := n, es := es, sub := fl.getD 0 '0' == '1', sup := fl.getD 1 '0' == '1' }
    let (a, b) ← natOps
    -- exc.cfloat.div.qnan_numerator was repaired in /repo (a quiet-NaN numerator propagates in both builds): no class
    return { p := hexPrologue (CFloat.prologue c op a b), errCond := CFloatSpec.err c op a b,
             applies := CFloatSpec.kindApplies c op a b, stderrSignal := false, cls := "" }
  | "fixpnt", [_ns, _rs, _mode, _bt] =>
    let (a, b) ← natOps
    return { p := hexPrologue (Fixpnt.prologue op a b), errCond := FixedSpec.err op a b,
             applies := FixedSpec.kindApplies .fixpnt_divide_by_zero op a b, stderrSignal := true }
  | "integer", [ns, bt] =>
    let some n := parseNat ns | throw "nbits"
    let some w := blockBits bt | throw "block type"
    let (a, b) ← natOps
    return { p := hexPrologue (Integer.prologue n w op a b), errCond := FixedSpec.err op a b,
             applies := FixedSpec.kindApplies .integer_divide_by_zero op a b, stderrSignal := true }
  | "lns", [ns, _rs, _bt] =>
    let some n := parseNat ns | throw "nbits"
    let (a, b) ← natOps
    return { p := hexPrologue (Lns.prologue n op a b), errCond := LnsSpec.err n op a b,
             applies := LnsSpec.kindApplies n op a b, stderrSignal := false }
  | "eint", [_bt] =>
    let (a, b) ← intOps
    return { p := Elastic.eintPrologue op a b, errCond := ElasticSpec.err op a b,
             applies := ElasticSpec.kindApplies .einteger_divide_by_zero op a b, stderrSignal := true }
  | "edec", [_] =>
    let (a, b) ← intOps
    return { p := Elastic.edecPrologue op a b, errCond := ElasticSpec.err op a b,
             applies := ElasticSpec.kindApplies .edecimal_integer_divide_by_zero op a b, stderrSignal := true }
  | "erat", [_] =>
    let (a, b) ← intOps
    return { p := Elastic.eratPrologue op a b, errCond := ElasticSpec.err op a b,
             applies := ElasticSpec.kindApplies .erational_divide_by_zero op a b, stderrSignal := true }
  | _, _ => throw s!"unknown exc family/configuration {fam}"

def excHandler : Handler := fun lhs rhs => do
  -- lhs = family cfg… op a [b]
  let some opIdx := lhs.findIdx? (fun t => (Op.ofString? t).isSome) | throw "no operator"
  if opIdx == 0 then throw "no family"
  let fam := lhs.head!
  let cfg := (lhs.take opIdx).drop 1
  let opS := lhs.getD opIdx ""
  let some op := Op.ofString? opS | throw "op"
  let operands := lhs.drop (opIdx + 1)
  let (as, bs) ← match operands with
    | [a] => pure (a, "")
    | [a, b] => pure (a, b)
    | _ => throw "arity"
  match rhs with
  | [qt, qet, tt, tet] =>
    let some qS := stripPrefix "q:" qt | throw "q"
    let some qeS := stripPrefix "qe:" qet | throw "qe"
    let some tS := stripPrefix "t:" tt | throw "t"
    let some _teS := stripPrefix "te:" tet | throw "te"
    let some q := Obs.ofString qS | throw "q outcome"
    let some t := Obs.ofString tS | throw "t outcome"
    let c ← excCase fam cfg op as bs
    let model := modelText c.p q t
    let tag := s!"{fam}/{opS}/{branchTag c.p}"
    match specCheck c.errCond c.applies c.stderrSignal q t (qeS == "1") with
    | .ok () => return { model := model, tag := tag }
    | .error why => return { model := model, specOk := false, reason := why, cls := c.cls, tag := tag }
  | _ => throw "rhs arity"

end UVerif.Driver
