/-
  UVerif.Driver.F64 — handlers for the families
    f64   hardware binary64 primitives           (model: Model.F64; spec: the RN relation of Spec.F64)
    eft   error-free transformations (C13)       (model: the straight-line programs of Model.F64;
                                                  spec: exact identity + correctly rounded first output under
                                                  the property's magnitude guards)
    eftc  the same functions from a build with -ffp-contract=fast -mfma: spec predicate only, the model
          is not compared (contraction is invisible to the model, DESIGN.md section 10)
-/
import UVerif.Driver.Core
import UVerif.Model.F64
import UVerif.Spec.F64

namespace UVerif.Driver
open UVerif UVerif.F64 UVerif.SpecF64

def hex16 (v : Nat) : String :=
  let s := toHex v
  String.ofList (List.replicate (16 - s.length) '0') ++ s

def b64 : Fmt := binary64

def outF (x : F) : String := hex16 (toBits64 x)

def parseAll (l : List String) : Option (List Nat) := l.mapM parseHex

/-- classification of an exact result against the binary64 lattice, for the coverage histogram. -/
def rnTag (x : Rat) (r : Nat) : String :=
  if isNaN64 r then "nan"
  else if isInf64 r then "overflow"
  else
    let v := val64 r
    let sub := mag64 r < 0x0010000000000000
    if v = x then (if x = 0 then "zero" else if sub then "exact-sub" else "exact")
    else
      let B := mag64 r
      let y := absR x
      let tie := (2 * y = valMag 53 11 B + valMag 53 11 (B + 1)) || (B > 0 && 2 * y = valMag 53 11 B + valMag 53 11 (B - 1))
      (if tie then "tie" else "inexact") ++ (if sub then "-sub" else "")

/-- `r = RN(√x)` for `x > 0`, decided on squares. -/
def isRNsqrt (x : Rat) (r : Nat) : Bool :=
  let B := mag64 r
  if signOf 53 11 r || B = 0 || B ≥ infMag 53 11 then false
  else
    let lo := (valMag 53 11 (B - 1) + valMag 53 11 B) / 2
    let hi := (valMag 53 11 B + valMag 53 11 (B + 1)) / 2
    let okLo := if B % 2 = 0 then lo * lo ≤ x else lo * lo < x
    let okHi := if B % 2 = 0 then x ≤ hi * hi else x < hi * hi
    okLo && okHi

def f64Handler : Handler := fun lhs rhs => do
  match lhs, rhs with
  | op :: ins, [rs] =>
    let some xs := parseAll ins | throw "operand"
    let some r := parseHex rs | throw "result"
    let fs := xs.map ofBits64
    let allFin := xs.all isFin64
    match op, fs, xs with
    | "sqrt", [a], [xa] =>
      let m := sqrt b64 a
      if !allFin || signOf 53 11 xa || mag64 xa = 0 then
        return { model := outF m, specOk := outF m == hex16 r, reason := "special-value table", tag := "f64.sqrt/special", trivial := true }
      let x := val64 xa
      let ok := isRNsqrt x r
      let v := val64 r
      return { model := outF m, specOk := ok, reason := "not the nearest double to the square root",
               tag := "f64.sqrt/" ++ (if v * v = x then "exact" else "inexact") }
    | "fma", [a, b, c], [xa, xb, xc] =>
      let m := fma b64 a b c
      if !allFin then
        return { model := outF m, specOk := outF m == hex16 r, reason := "special-value table", tag := "f64.fma/special", trivial := true }
      let x := val64 xa * val64 xb + val64 xc
      let ok := isRN64 x r
      return { model := outF m, specOk := ok, reason := "not a round-to-nearest-even image of a*b+c", tag := "f64.fma/" ++ rnTag x r }
    | _, [a, b], [xa, xb] =>
      if !(["add", "sub", "mul", "div"].contains op) then throw s!"unknown op {op}"
      let m := match op with
        | "add" => add b64 a b
        | "sub" => sub b64 a b
        | "mul" => mul b64 a b
        | _ => div b64 a b
      if !allFin || (op == "div" && mag64 xb = 0) then
        return { model := outF m, specOk := outF m == hex16 r, reason := "special-value table", tag := "f64." ++ op ++ "/special", trivial := true }
      let x := match op with
        | "add" => val64 xa + val64 xb
        | "sub" => val64 xa - val64 xb
        | "mul" => val64 xa * val64 xb
        | _ => val64 xa / val64 xb
      let ok := isRN64 x r
      return { model := outF m, specOk := ok, reason := s!"not a round-to-nearest-even image of the exact result", tag := "f64." ++ op ++ "/" ++ rnTag x r }
    | _, _, _ => throw "arity"
  | _, _ => throw "arity"

/-! ### eft -/

def pow2R (e : Int) : Rat := pow2 e

/-- significant bits of a finite pattern's significand (trailing zeros removed). -/
def sigBits (b : Nat) : Nat :=
  let B := mag64 b
  let e := B >>> 52
  let m := if e = 0 then B % 2 ^ 52 else 2 ^ 52 + B % 2 ^ 52
  if m = 0 then 0 else size m - trailingZeros m

def joinF (l : List F) : String := " ".intercalate (l.map outF)

/-- spec predicate of C13 for one line.  Returns (guarded?, ok, reason, class, tag-suffix). -/
def eftSpec (op : String) (xs rs : List Nat) : Bool × Bool × String × String × String :=
  let fin := xs.all isFin64
  let hm := xs.all halfMaxOK64
  let rfin := rs.all isFin64
  match op, xs, rs with
  | "two_sum", [a, b], [s, r] | "twosum_generic", [a, b], [s, r] =>
    if !(fin && hm) then (false, true, "", "", "unguarded") else
    let x := val64 a + val64 b
    let ok := rfin && val64 s + val64 r == x && isRN64 x s
    (true, ok, "s + r = a + b with s = RN(a+b)", "", rnTag x s)
  | "two_diff", [a, b], [s, r] =>
    if !(fin && hm) then (false, true, "", "", "unguarded") else
    let x := val64 a - val64 b
    let ok := rfin && val64 s + val64 r == x && isRN64 x s
    (true, ok, "s + r = a - b with s = RN(a-b)", "", rnTag x s)
  | "quick_two_sum", [a, b], [s, r] =>
    if !(fin && hm && mag64 a ≥ mag64 b) then (false, true, "", "", "unguarded") else
    let x := val64 a + val64 b
    let ok := rfin && val64 s + val64 r == x && isRN64 x s
    (true, ok, "s + r = a + b with s = RN(a+b) (|a| >= |b|)", "", rnTag x s)
  | "two_prod", [a, b], [p, r] =>
    let x := val64 a * val64 b
    let inRange := x = 0 || (pow2R (-900) ≤ absR x && absR x ≤ pow2R 1000)
    if !(fin && hm && inRange) then (false, true, "", "", "unguarded") else
    let ok := rfin && val64 p + val64 r == x && isRN64 x p
    (true, ok, "p + r = a * b with p = RN(a*b)", "", rnTag x p)
  | "two_sqr", [a], [p, r] =>
    let x := val64 a * val64 a
    let inRange := x = 0 || (pow2R (-900) ≤ absR x && absR x ≤ pow2R 1000)
    if !(fin && hm && inRange) then (false, true, "", "", "unguarded") else
    let ok := rfin && val64 p + val64 r == x && isRN64 x p
    (true, ok, "p + r = a * a with p = RN(a*a)", "", rnTag x p)
  | "split", [a], [hi, lo] =>
    if !(fin && hm) then (false, true, "", "", "unguarded") else
    let ok := rfin && val64 hi + val64 lo == val64 a
    (true, ok, "hi + lo = a", "", if sigBits hi ≤ 26 && sigBits lo ≤ 26 then "fit26" else "nofit26")
  | "three_sum", [a, b, c], [x, y, z] =>
    if !(fin && hm) then (false, true, "", "", "unguarded") else
    let e := val64 a + val64 b + val64 c
    let ok := rfin && val64 x + val64 y + val64 z == e
    -- the per-operand guard of the property does not exclude overflow of a three-term sum
    let cls := if absR (val64 a) + absR (val64 b) + absR (val64 c) ≥ val64 0x7fefffffffffffff then "eft.three_sum.overflow" else ""
    (true, ok, "x + y + z = a + b + c", cls, if isRN64 e x then "first-is-RN" else "first-not-RN")
  | _, _, _ => (false, true, "", "", "model-only")

def eftModel (op : String) (fs : List F) : Option (List F) :=
  match op, fs with
  | "two_sum", [a, b] => let (s, r) := twoSum b64 a b; some [s, r]
  | "twosum_generic", [a, b] => let (s, r) := twoSumGeneric b64 a b; some [s, r]
  | "two_diff", [a, b] => let (s, r) := twoDiff b64 a b; some [s, r]
  | "quick_two_sum", [a, b] => let (s, r) := quickTwoSum b64 a b; some [s, r]
  | "quick_two_diff", [a, b] => let (s, r) := quickTwoDiff b64 a b; some [s, r]
  | "two_prod", [a, b] => let (s, r) := twoProd b64 a b; some [s, r]
  | "two_sqr", [a] => let (s, r) := twoSqr b64 a; some [s, r]
  | "split", [a] => let (s, r) := split b64 a; some [s, r]
  | "three_sum", [a, b, c] => let (x, y, z) := threeSum b64 a b c; some [x, y, z]
  | "three_sum2", [a, b, c] => let (x, y) := threeSum2 b64 a b c; some [x, y]
  | "renorm4", [a0, a1, a2, a3] => let (r0, r1, r2, r3) := renorm4 b64 a0 a1 a2 a3; some [r0, r1, r2, r3]
  | "renorm5", [a0, a1, a2, a3, a4] => let (r0, r1, r2, r3) := renorm5 b64 a0 a1 a2 a3 a4; some [r0, r1, r2, r3]
  | _, _ => none

def eftHandlerWith (compare : Bool) : Handler := fun lhs rhs => do
  match lhs with
  | op :: ins =>
    let some xs := parseAll ins | throw "operand"
    let some rs := parseAll rhs | throw "result"
    let some m := eftModel op (xs.map ofBits64) | throw s!"unknown op/arity {op}"
    let (guarded, ok, reason, cls, t) := eftSpec op xs rs
    let modelTxt := if compare then joinF m else joinToks rhs
    return { model := modelTxt, specOk := ok, reason := reason, cls := if ok then "" else cls,
             tag := "eft." ++ op ++ "/" ++ t, trivial := !guarded }
  | _ => throw "arity"

def eftHandler : Handler := eftHandlerWith true
def eftcHandler : Handler := eftHandlerWith false

/-! ### generic twoSum<Scalar> on cfloat<nbits, es, bt, subnormals, no supernormals, not saturating> -/

/-- decode a cfloat encoding of that family: IEEE layout except that infinity is `exponent all ones,
    fraction 1…10` and every other all-ones-exponent pattern is NaN. -/
def ofBitsCf (p ew b : Nat) : F :=
  let frac := b % 2 ^ (p - 1)
  let e := (b >>> (p - 1)) % 2 ^ ew
  let sgn := b.testBit (p - 1 + ew)
  if e = 2 ^ ew - 1 then (if frac = 2 ^ (p - 1) - 2 then .inf sgn else .nan)
  else ofBits p ew b

/-- encode, canonicalised like the harness: NaN = all ones (positive), zero = +0. -/
def toBitsCf (p ew : Nat) (x : F) : Nat :=
  match x with
  | .nan => 2 ^ (p - 1 + ew) - 1
  | .inf sgn => (if sgn then 2 ^ (p - 1 + ew) else 0) + ((2 ^ ew - 1) <<< (p - 1)) + (2 ^ (p - 1) - 2)
  | .fin _ 0 => 0
  | y => toBits p ew y

def eftcfHandler : Handler := fun lhs rhs => do
  match lhs, rhs with
  | [ns, ess, op, as, bs], [ss, rs] =>
    let some n := parseNat ns | throw "nbits"
    let some es := parseNat ess | throw "es"
    let some a := parseHex as | throw "a"
    let some b := parseHex bs | throw "b"
    let some sv := parseHex ss | throw "s"
    let some rv := parseHex rs | throw "r"
    if op != "twosum" then throw s!"unknown op {op}"
    let p := n - es
    let fm := Fmt.ieee p es
    let (ms, mr) := twoSumGeneric fm (ofBitsCf p es a) (ofBitsCf p es b)
    let model := toHex (toBitsCf p es ms) ++ " " ++ toHex (toBitsCf p es mr)
    let finPat (v : Nat) : Bool := isFinPat p es v
    let halfMax (v : Nat) : Bool := magOf p es v + 2 ^ (p - 1) < infMag p es
    let guarded := finPat a && finPat b && halfMax a && halfMax b
    if !guarded then
      return { model := model, specOk := true, tag := s!"eftcf<{n},{es}>/unguarded", trivial := true }
    let x := valOf p es a + valOf p es b
    let ok := finPat sv && finPat rv && valOf p es sv + valOf p es rv == x && isRN p es x sv
    return { model := model, specOk := ok, reason := "s + r = a + b with s = RN(a+b) (generic twoSum on cfloat)",
             tag := s!"eftcf<{n},{es}>/" ++ (if valOf p es sv == x then "exact" else "inexact") }
  | _, _ => throw "arity"

end UVerif.Driver
