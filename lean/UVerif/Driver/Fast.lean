/-
  UVerif.Driver.Fast — property C11: every alternative implementation of a posit configuration agrees with the generic one.
  line:  fast <generic|fast|purec|shim> <nbits> <es> <op> <in…> => <out>
  * model  = what THIS implementation computes (generic model, or the transcription of the fast routine where it differs)
  * spec   = the generic model's output (impl ≠ generic); for impl = generic the C01 predicate on arithmetic lines
  * class  = (header, routine, input class) — only assigned when the implementation shows exactly the recorded behaviour
-/
import UVerif.Driver.Core
import UVerif.Driver.Posit
import UVerif.Model.PositConvFP
import UVerif.Model.FastPosit
import UVerif.Model.PositC
import UVerif.Model.Sqrt

namespace UVerif.Driver
open UVerif UVerif.Posit UVerif.FP UVerif.Fast UVerif.Sqrt

def showSHex (x : Int) : String := if x < 0 then "-" ++ toHex x.natAbs else toHex x.toNat
def optHex (o : Option Nat) : String := match o with | some b => toHex b | none => "nan"

/-- widen binary32 bits to binary64 bits (exact); none = NaN -/
def floatBitsToDouble (f : Nat) : Option Nat :=
  match FP.decode 8 23 f with
  | .nan => none
  | .inf neg => some ((if neg then 2 ^ 63 else 0) + 0x7ff0000000000000)
  | .fin neg m e => some ((if neg then 2 ^ 63 else 0) + (if m = 0 then 0 else encodeMag 11 52 (dyadic m e)))

/-- the value after `(float)` of an exact real -/
def viaFloat (x : Rat) : Rat := match valueOf 8 23 (f32 x) with | some y => y | none => x

def isBinaryOp (op : String) : Bool := ["add", "sub", "mul", "div", "cmp"].contains op
def isUnaryEnc (op : String) : Bool := ["rec", "neg", "abs", "inc", "dec", "sqrt"].contains op
def isToNative (op : String) : Bool := ["td", "tf", "ti", "tl", "tll", "tui", "tul", "tull"].contains op
def isFromSigned (op : String) : Bool := ["fi", "fl", "fll"].contains op
def isFromUnsigned (op : String) : Bool := ["fui", "ful", "full"].contains op

def intWidth (op : String) : Nat := if op == "ti" || op == "tui" then 32 else 64

/-- generic implementation: output text for an operation. `x`: first operand (encoding, source bits or unsigned source),
    `sx`: signed source, `b`: second operand -/
def genericOut (n es : Nat) (op : String) (x : Nat) (sx : Int) (b : Nat) : String :=
  match op with
  | "add" => toHex (Posit.add n es x b)
  | "sub" => toHex (Posit.sub n es x b)
  | "mul" => toHex (Posit.mul n es x b)
  | "div" => toHex (Posit.div n es x b)
  | "cmp" => toHex (cmpMaskModel n x b)
  | "rec" => toHex (Posit.reciprocal n es x)
  | "neg" => toHex (Posit.neg n x)
  | "abs" => toHex (Posit.abs n x)
  | "inc" => toHex (Posit.incr n x)
  | "dec" => toHex (Posit.decr n x)
  | "sqrt" => toHex (positSqrtGeneric n es x)
  | "td" => optHex (toDouble n es x)
  | "tf" => optHex (toFloat n es x)
  | "ti" | "tl" | "tll" => (match toIntTrunc n es x with | some t => showSHex t | none => "nar")
  | "tui" | "tul" | "tull" => (match toIntTrunc n es x with | some t => toHex (ofSigned (intWidth op) t) | none => "nar")
  | "fi" | "fl" | "fll" => toHex (fromInt n es sx)
  | "fui" | "ful" | "full" => toHex (fromUInt n es x)
  | "ff" => toHex (fromFloat n es x)
  | "fd" => toHex (fromDouble n es x)
  | "cmp3" => showSHex (if Posit.lt n b x then 1 else if Posit.lt n x b then -1 else 0)
  | _ => "?"

/-- `int(to_float())`-style read-back of the fast classes: value → (optionally via float) → truncation with the x86
    out-of-range result, reinterpreted in the destination type -/
def fastToInt (op : String) (v : Rat) (throughFloat : Bool) (w : Nat) : String :=
  let y := if throughFloat then viaFloat v else v
  let bits := cvtt w y
  match op with
  | "ti" => showSHex (toSigned 32 bits)
  | "tl" | "tll" => showSHex (toSigned 64 (if w = 32 then ofSigned 64 (toSigned 32 bits) else bits))
  | "tui" => toHex (bits % 2 ^ 32)
  | _ => toHex (if w = 32 then ofSigned 64 (toSigned 32 bits) else bits)     -- tul, tull

/-- (model output, routine class) of the fast build for an operation, `none` = same code path as generic -/
def fastOut (n es : Nat) (op : String) (x : Nat) (sx : Int) (b : Nat) : Option (String × String) :=
  -- an unsigned long (long) source after `rhs > 0x7FFF'FFFF'FFFF'FFFFull ? 0x7FFF'FFFF'FFFF'FFFFll : (long long)(rhs)`
  let sgnOfU : Int := if x > 0x7FFFFFFFFFFFFFFF then 0x7FFFFFFFFFFFFFFF else (x : Int)
  match n, es with
  | 2, 0 =>
    if ["add", "sub", "mul", "div"].contains op then (tableBinary 2 0 op x b).map (fun r => (toHex r, s!"fast.posit_2_0.{op}_lookup"))
    else match op with
    | "rec" => (tableRec 2 0 x).map (fun r => (toHex r, "fast.posit_2_0.reciprocal_lookup"))
    | "cmp" => some (toHex (cmpMaskOf (tableLt 2 0) 2 x b), "fast.posit_2_0.less_than_lookup")
    | "fi" | "fl" | "fll" => some (toHex (assignInt_2_0 sx), "fast.posit_2_0.assign_int")
    | "ff" => some (toHex (assignFP_2_0 8 23 x), "fast.posit_2_0.float_assign")
    | "fd" => some (toHex (assignFP_2_0 11 52 x), "fast.posit_2_0.float_assign")
    | "td" => some (optHex (toDouble_2_0 x), "fast.posit_2_0.to_double")
    | "tf" => some (optHex ((toDouble_2_0 x).bind doubleToFloat), "fast.posit_2_0.to_double")
    | _ => none
  | 3, 0 =>
    if ["add", "sub", "mul", "div"].contains op then (tableBinary 3 0 op x b).map (fun r => (toHex r, s!"fast.posit_3_0.{op}_lookup"))
    else match op with
    | "rec" => (tableRec 3 0 x).map (fun r => (toHex r, "fast.posit_3_0.reciprocal_lookup"))
    | "cmp" => some (toHex (cmpMaskOf (tableLt 3 0) 3 x b), "fast.posit_3_0.less_than_lookup")
    | "fi" => some (toHex (assignInt_3_0 sx), "fast.posit_3_0.assign_int")
    | "fll" => some (toHex (assignInt_3_0 sx), "fast.posit_3_0.assign_int")
    | "tf" => some (match FP.decode 8 23 (toFloatBits_3_0 x) with | .nan => "nan" | _ => toHex (toFloatBits_3_0 x), "fast.posit_3_0.values_lookup")
    | "td" => some (optHex (floatBitsToDouble (toFloatBits_3_0 x)), "fast.posit_3_0.values_lookup")
    | "ti" | "tl" | "tll" | "tui" | "tul" | "tull" =>
      (match valueOf 8 23 (toFloatBits_3_0 x) with
       | some v => some (fastToInt op v false (if op == "ti" || op == "tui" then 32 else 64), "fast.posit_3_0.values_lookup")
       | none => none)
    | _ => none
  | 3, 1 =>
    if ["add", "sub", "mul", "div"].contains op then (tableBinary 3 1 op x b).map (fun r => (toHex r, s!"fast.posit_3_1.{op}_lookup"))
    else match op with
    | "rec" => (tableRec 3 1 x).map (fun r => (toHex r, "fast.posit_3_1.reciprocal_lookup"))
    | "cmp" => some (toHex (cmpMaskOf (tableLt 3 1) 3 x b), "fast.posit_3_1.less_than")
    | "neg" => some (toHex (neg_3_1 x), "fast.posit_3_1.negate")
    | "fi" => some (toHex (assignInt_3_1 sx), "fast.posit_3_1.assign_int")
    | "ff" => some (toHex (assignFP_3_1 8 23 x), "fast.posit_3_1.float_assign")
    | "fd" => some (toHex (assignFP_3_1 11 52 x), "fast.posit_3_1.float_assign")
    | "td" => some (optHex ((value_3_1 x).map f64), "fast.posit_3_1.to_double.nbits_is_2")
    | "tf" => some (optHex ((value_3_1 x).map f32), "fast.posit_3_1.to_double.nbits_is_2")
    | "ti" | "tl" | "tll" | "tui" | "tul" | "tull" =>
      (match value_3_1 x with
       | some v => some (fastToInt op v false (if op == "ti" || op == "tui" then 32 else 64), "fast.posit_3_1.to_double.nbits_is_2")
       | none => none)
    | _ => none
  | 4, 0 =>
    if ["add", "sub", "mul", "div"].contains op then (tableBinary 4 0 op x b).map (fun r => (toHex r, s!"fast.posit_4_0.{op}_lookup"))
    else match op with
    | "rec" => (tableRec 4 0 x).map (fun r => (toHex r, "fast.posit_4_0.reciprocal_lookup"))
    | "cmp" => some (toHex (cmpMaskOf (tableLt 4 0) 4 x b), "fast.posit_4_0.less_than.by_subtraction")
    | "fi" | "fl" | "fll" => some (toHex (assignInt_4_0 sx), "fast.posit_4_0.assign_int")
    | "fui" | "ful" | "full" => some (toHex (assignInt_4_0 sgnOfU), "fast.posit_4_0.assign_unsigned")
    | _ => none
  | 8, 0 =>
    match op with
    | "fi" | "fl" | "fll" => some (toHex (integerAssign8 sx), "fast.posit_8_0.integer_assign")
    | "fui" | "ful" | "full" => some (toHex (integerAssign8 sgnOfU), "fast.posit_8_0.assign_unsigned")
    | "fd" => some (match doubleToFloat x with | some f => toHex (fromFloat 8 0 f) | none => "80", "fast.posit_8_0.assign_double.via_float")
    | _ => none
  | 8, 2 =>
    match op with
    | "fi" | "fl" | "fll" => some (toHex (integerAssign8_2 sx), if sx > 0 then "fast.posit_8_2.integer_assign.positive" else "fast.posit_8_2.integer_assign.negative_es0_layout")
    | "fui" | "ful" | "full" => some (toHex (integerAssign8_2 sgnOfU), if sgnOfU > 0 then "fast.posit_8_2.integer_assign.positive" else "fast.posit_8_2.assign_unsigned")
    | "ff" => some (toHex (floatAssign_8_2 x), "fast.posit_8_2.float_assign.truncates")
    | "fd" => some (match doubleToFloat x with | some f => toHex (floatAssign_8_2 f) | none => "80", "fast.posit_8_2.assign_double.via_float_truncates")
    | "sqrt" => some (toHex (positSqrtFast 8 2 x), "fast.posit_8_2.sqrt.via_float_assign")
    | _ => none
  | 16, 1 =>
    match op with
    | "ful" | "full" => some (toHex (fromInt 16 1 sgnOfU), "fast.posit_16_1.assign_unsigned")
    | "sqrt" => some (toHex (sqrt_16_1 x), "fast.posit_16_1.sqrt.integer_algorithm")
    | _ => none
  | 16, 2 =>
    match op with
    | "fi" | "fl" | "fll" => some (toHex (integerAssign_16_2 sx), "fast.posit_16_2.integer_assign")
    | "fui" | "ful" | "full" => some (toHex (integerAssign_16_2 sgnOfU), "fast.posit_16_2.assign_unsigned")
    | "ti" =>                                      -- int(to_float()): an 11-bit fraction is exact in a float
      (match positVal 16 2 x with
       | some v => some (fastToInt op v true 32, "fast.posit_16_2.to_int")
       | none => none)
    | "tui" =>                                     -- (unsigned int)(to_long()), to_long() = long(to_double())
      (match positVal 16 2 x with
       | some v => some (toHex (cvtt 64 v % 2 ^ 32), "fast.posit_16_2.to_uint")
       | none => none)
    | _ => none
  | 32, 2 =>
    match op with
    | "fi" | "fl" => some (toHex (integerAssign_32_2 sx), "fast.posit_32_2.integer_assign")
    | "fui" => some (toHex (integerAssign_32_2 (x : Int)), "fast.posit_32_2.integer_assign")
    | "ti" =>                                      -- int(to_double())
      (match positVal 32 2 x with
       | some v => some (fastToInt op v false 32, "fast.posit_32_2.to_int")
       | none => none)
    | "tui" =>                                     -- (unsigned int)(to_long()), to_long() = long(to_double())
      (match positVal 32 2 x with
       | some v => some (toHex (cvtt 64 v % 2 ^ 32), "fast.posit_32_2.to_uint")
       | none => none)
    | "tl" | "tll" =>
      (match positVal 32 2 x with
       | some v => some (fastToInt op v false 64, "fast.posit_32_2.to_long")
       | none => none)
    | "tul" | "tull" =>                            -- isneg() ? (unsigned long)(to_long()) : (unsigned long)(to_long_double())
      (match positVal 32 2 x with
       | some v => some (toHex (if v < 0 then cvtt 64 v else ofSigned 64 (truncZ v)), "fast.posit_32_2.to_ulong")
       | none => none)
    | "mul" => some (toHex (mul_32_2 x b), "fast.posit_32_2.round_mul")
    | "sqrt" => some (toHex (sqrt_32_2 x), "fast.posit_32_2.sqrt.integer_algorithm")
    | _ => none
  | _, _ => none

/-- operations the fast class of a configuration does not offer (requires-expression is false) -/
def fastMissing (n es : Nat) (op : String) : Bool :=
  match n, es with
  | 2, 0 => ["abs", "fui", "ful", "full"].contains op
  | 3, 0 => ["abs", "fl", "fui", "ful", "full"].contains op
  | 3, 1 => ["abs", "fl", "fll", "fui", "ful", "full"].contains op
  | 4, 0 => ["abs"].contains op
  | _, _ => false

/-- functions that posit_c_api.h declares for posit8 but c_api/pure_c/posit/posit8.c does not define -/
def purecMissing (op : String) : Bool := ["fl", "fll", "fui", "ful", "full", "tl", "tll", "tui", "tul", "tull"].contains op

/-- pure C posit8 API (posit_8_0.h + c_api/pure_c/posit/posit8.c) -/
def purecOut (op : String) (x : Nat) (sx : Int) (b : Nat) : Option (String × String) :=
  match op with
  | "rec" => some (toHex (Posit.div 8 0 0x40 x), "purec.posit8_reciprocal")
  | "cmp" => some (toHex (PositC.relMask8 x b), "purec.posit8_lessThan")
  | "cmp3" => some (showSHex (PositC.cmpp8 x b), "purec.posit8_cmpp8")
  | "fi" => some (toHex (PositC.fromsi sx), "purec.posit8_fromsi")
  | "fd" => some (match doubleToFloat x with | some f => toHex (fromFloat 8 0 f) | none => "80", "purec.posit8_fromd.via_float")
  | "sqrt" => some (toHex (PositC.sqrt8 x), "purec.posit8_sqrt.via_sqrtf")
  | _ => none

def roundReason (n es : Nat) (op : String) (x : Nat) (sx : Int) (b : Nat) : String :=
  -- what the property's reference (Posit Standard rounding of the exact result) says, for the report only
  let ex : Option Rat :=
    if ["add", "sub", "mul", "div"].contains op then positExact n es op x b
    else if isFromSigned op then some (sx : Rat)
    else if isFromUnsigned op then some (x : Rat)
    else if op == "ff" then valueOf 8 23 x
    else if op == "fd" then valueOf 11 52 x
    else none
  match ex with
  | some q => s!" exact={showRat q} standard-rounding={toHex (positRound n es q)}"
  | none => ""

def fastHandler : Handler := fun lhs rhs => do
  match lhs with
  | impl :: ns :: ess :: "has" :: [opn] =>
    let some n := parseNat ns | throw "nbits"
    let some es := parseNat ess | throw "es"
    let some r := (match rhs with | [rs] => parseNat rs | _ => none) | throw "r"
    let m := if (impl == "fast" && fastMissing n es opn) || (impl == "purec" && purecMissing opn) then 0 else 1
    return { model := toString m, specOk := (r == 1), reason := "operation offered by the generic posit is not available in this implementation",
             cls := if r == m && m == 0 then (if impl == "purec" then s!"purec.posit8.api.missing_{opn}" else s!"fast.posit_{n}_{es}.api.missing_{opn}") else "",
             tag := "has", trivial := true }
  | impl :: ns :: ess :: op :: args =>
    let some n := parseNat ns | throw "nbits"
    let some es := parseNat ess | throw "es"
    let some rs := rhs.head? | throw "no result"
    if rhs.length ≠ 1 then throw "arity"
    -- operands
    let (x, sx, b) ← (match args with
      | [a] =>
        if isFromSigned op then (match parseHexInt a with | some v => pure (0, v, 0) | none => throw "src")
        else (match parseHex a with | some v => pure (v, (v : Int), 0) | none => throw "a")
      | [a, b] => (match parseHex a, parseHex b with | some v, some w => pure (v, (v : Int), w) | _, _ => throw "ab")
      | _ => throw "arity")
    if !(isBinaryOp op || isUnaryEnc op || isToNative op || isFromSigned op || isFromUnsigned op || op == "ff" || op == "fd" || op == "cmp3") then
      throw s!"unknown op {op}"
    if (isBinaryOp op || op == "cmp3") != (args.length == 2) then throw "arity"
    let gen := genericOut n es op x sx b
    if impl == "generic" then
      -- the generic build: correspondence of the generic model; arithmetic additionally judged by the C01 predicate
      if ["add", "sub", "mul", "div", "cmp", "rec", "neg", "abs", "inc", "dec"].contains op then
        let r ← positHandler (ns :: ess :: op :: args) rhs
        return { r with tag := "generic/" ++ r.tag }
      else
        return { model := gen, specOk := true, tag := "generic/" ++ op }
    let alt : Option (String × String) :=
      if impl == "fast" then fastOut n es op x sx b
      else if impl == "purec" then purecOut op x sx b
      else none
    let (mdl, rcls) := match alt with | some p => p | none => (gen, "")
    let ok := rs == gen
    let cls := if !ok && rs == mdl && mdl != gen then rcls else ""
    return { model := mdl, specOk := ok,
             reason := if ok then "" else s!"generic={gen} model-of-{impl}={mdl}" ++ roundReason n es op x sx b,
             cls := cls, tag := impl ++ "/" ++ op ++ (if mdl != gen then "/deviates" else ""),
             trivial := false }
  | _ => throw "arity"

end UVerif.Driver
