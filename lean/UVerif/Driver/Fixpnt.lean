/-
  UVerif.Driver.Fixpnt — line handler of family `fixpnt` (property C07).
    fixpnt <nbits> <rbits> <M|S> <u8|u16|u32> <op> <operands…> => <raw storage hex | mask>
-/
import UVerif.Driver.Core
import UVerif.Driver.Integer
import UVerif.Model.Fixpnt
import UVerif.Spec.Fixpnt

namespace UVerif.Driver
open UVerif UVerif.Limbs

/-- known-finding classes of C07 (decidable on the inputs) -/
def fixClass (n r : Nat) (sat : Bool) (op : String) (a b : Nat) : String :=
  -- D11: Saturate division is a stub that returns the left operand
  if op == "div" && sat then
    (if FixpntSpec.div n r true a b != a then "fixpnt.div.saturate_unimplemented" else "")
  else ""

def fixpntHandler : Handler := fun lhs rhs => do
  let (ns, rs, ms, bts, op, args) ← match lhs with
    | ns :: rs :: ms :: bts :: op :: args => pure (ns, rs, ms, bts, op, args)
    | _ => throw "arity"
  let some n := parseNat ns | throw "nbits"
  let some r := parseNat rs | throw "rbits"
  let sat ← match ms with | "M" => pure false | "S" => pure true | _ => throw "mode"
  let some w := btWidth bts | throw "bt"
  let k := nrBlocks w n
  let lim (v : Nat) : List Nat := ofNat w k v
  let outS ← match rhs with | [x] => pure x | _ => throw "rhs arity"
  let implV : Option Nat := if outS == "trap" then none else parseHex outS
  if outS != "trap" && implV.isNone then throw "out"
  let hexL (l : List Nat) : String := toHex (toNat w l)
  let judge (model : String) (expect : Nat) (tag : String) (cls : String) : LineResult :=
    let ok := match implV with | some v => v == expect | none => false
    { model := model, specOk := ok, reason := if ok then "" else s!"expected {toHex expect}", cls := cls, tag := tag }
  let clampTag (x : Int) : String :=
    if x > FixpntSpec.maxposZ n then "over" else if x < FixpntSpec.maxnegZ n then "under" else "in"
  let roundTag (q : Rat) : String :=
    let f := q.floor
    let d := q - (f : Rat)
    if d = 0 then "exact" else if d < 1/2 then "down" else if d > 1/2 then "up" else (if f % 2 = 0 then "tie-even" else "tie-odd")
  match op, args with
  | "cmp", [as, bs] =>
    let some a := parseHex as | throw "a"
    let some b := parseHex bs | throw "b"
    return judge (toHex (Fixpnt.cmpMask w n (lim a) (lim b))) (FixpntSpec.cmpMask n a b) "cmp" ""
  | _, [as, bs] =>
    let some a := parseHex as | throw "a"
    let some b := parseHex bs | throw "b"
    let x := FixpntSpec.val n a
    let y := FixpntSpec.val n b
    match op with
    | "add" => return judge (hexL (Fixpnt.add w n sat (lim a) (lim b))) (FixpntSpec.add n sat a b) s!"add/{clampTag (x + y)}" ""
    | "sub" => return judge (hexL (Fixpnt.sub w n sat (lim a) (lim b))) (FixpntSpec.sub n sat a b) s!"sub/{clampTag (x - y)}" ""
    | "mul" =>
      let q := FixpntSpec.mulExact n r a b
      return judge (hexL (Fixpnt.mul w n r sat (lim a) (lim b))) (FixpntSpec.mul n r sat a b) s!"mul/{roundTag q}/{clampTag (rne q)}" ""
    | "div" =>
      if b == 0 then throw "division by zero is outside the property"
      let q := FixpntSpec.divExact n r a b
      let ms := hexL (Fixpnt.div w n r sat (lim a) (lim b))
      return judge ms (FixpntSpec.div n r sat a b) s!"div/{roundTag q}/{clampTag (rne q)}" (fixClass n r sat op a b)
    | _ => throw s!"unknown op {op}"
  | _, [as] =>
    let some a := parseHex as | throw "a"
    let x := FixpntSpec.val n a
    match op with
    | "neg" => return judge (hexL (Fixpnt.neg w n sat (lim a))) (FixpntSpec.neg n sat a) s!"neg/{clampTag (-x)}" ""
    | "inc" => return judge (hexL (Fixpnt.inc w n sat (lim a))) (FixpntSpec.inc n sat a) s!"inc/{clampTag (x + 1)}" ""
    | "dec" => return judge (hexL (Fixpnt.dec w n sat (lim a))) (FixpntSpec.dec n sat a) s!"dec/{clampTag (x - 1)}" ""
    | _ => throw s!"unknown op {op}"
  | _, _ => throw "arity"

end UVerif.Driver
