/-
  UVerif.Driver.Integer — line handler of family `integer` (property C08).
    integer <nbits> <u8|u16|u32|u64> <op> <operands…> => <raw storage hex | trap | mask>
-/
import UVerif.Driver.Core
import UVerif.Model.Integer
import UVerif.Spec.Integer

namespace UVerif.Driver
open UVerif UVerif.Limbs

def btWidth (s : String) : Option Nat :=
  match s with
  | "u8" => some 8 | "u16" => some 16 | "u32" => some 32 | "u64" => some 64 | _ => none

/-- known-finding class of C08 (decidable on the inputs): D8, `>>=` by a count ≥ nbits calls `setzero()`, so a negative value
    becomes 0 instead of −1; `k` is the count as a RIGHT shift (`<<=` with a negative count forwards to `>>=`) -/
def intClassShr (n : Nat) (a : Nat) (k : Int) : String :=
  if k ≥ (n : Int) && a ≥ 2 ^ (n - 1) then "integer.shr.count_ge_nbits_negative" else ""

/- The other classes are gone: `integer.div.native_maxneg_by_minus1` (exact-fit native division trapped on most negative / −1)
   and `integer.u64.multiblock_carry` (`+=` dropped the carry between `uint64_t` blocks) are repaired; a recurrence has no class
   and is reported as a violation.  (Multi-block `uint64_t` `*=` is still not usable — 64×64-bit partial products in a 64-bit
   accumulator, `segment >>= 64` — and is not sent by the streams: known finding `integer.u64.multiblock_mul`, documented in
   known_findings.json, theorem `C08_mul` keeps its guard.) -/

def integerHandler : Handler := fun lhs rhs => do
  let (ns, bts, op, args) ← match lhs with
    | ns :: bts :: op :: args => pure (ns, bts, op, args)
    | _ => throw "arity"
  let some n := parseNat ns | throw "nbits"
  let some w := btWidth bts | throw "bt"
  let k := nrBlocks w n
  let lim (v : Nat) : List Nat := ofNat w k v
  let outS ← match rhs with | [r] => pure r | _ => throw "rhs arity"
  -- the implementation's raw storage, or none for "trap"
  let implV : Option Nat := if outS == "trap" then none else parseHex outS
  if outS != "trap" && implV.isNone then throw "out"
  let hexL (l : List Nat) : String := toHex (toNat w l)
  let judge (model : String) (expect : Nat) (tag : String) (cls : String) : LineResult :=
    let ok := match implV with | some r => r == expect | none => false
    { model := model, specOk := ok, reason := if ok then "" else s!"expected {toHex expect}", cls := cls, tag := tag }
  match op, args with
  | "cmp", [as, bs] =>
    let some a := parseHex as | throw "a"
    let some b := parseHex bs | throw "b"
    let m := Integer.cmpMask w n (lim a) (lim b)
    return judge (toHex m) (IntegerSpec.cmpMask n a b) "cmp" ""
  | "div", [as, bs] | "rem", [as, bs] =>
    let some a := parseHex as | throw "a"
    let some b := parseHex bs | throw "b"
    if b == 0 then throw "division by zero is outside the property"
    let isRem := op == "rem"
    let m := Integer.divrem w n (lim a) (lim b) isRem
    let ms := hexL m
    let e := if isRem then IntegerSpec.rem n a b else IntegerSpec.div n a b
    let path := if n == w then (if b == 2 ^ n - 1 then "native-minus1" else "native") else "idiv"
    let q := Int.tdiv (IntegerSpec.val n a) (IntegerSpec.val n b)
    let kind := if q == 0 then "q0" else if IntegerSpec.fits n q then "q" else "qwrap"
    return judge ms e s!"{op}/{path}/{kind}" ""
  | _, [as, bs] =>
    if op == "shl" || op == "shr" then
      let some a := parseHex as | throw "a"
      let some c := parseInt bs | throw "count"
      let m := if op == "shl" then Integer.shl w n (lim a) c else Integer.shr w n (lim a) c
      let e := if op == "shl" then IntegerSpec.shl n a c else IntegerSpec.shr n a c
      let right : Int := if op == "shr" then c else -c
      let cls := intClassShr n a right
      let mag := right.natAbs
      let kind := if c == 0 then "zero" else if mag > n then "gt-n" else if mag == n then "eq-n"
        else if mag % w == 0 then "blocks" else if mag > w then "blocks+bits" else "bits"
      return judge (hexL m) e s!"{if right > 0 then "shr" else "shl"}/{kind}" cls
    else if op == "cvt" then
      let some m := parseNat as | throw "target"
      let some a := parseHex bs | throw "a"
      let r := Integer.resize w m n (lim a)
      let ok := match implV with | some v => IntegerSpec.resizeOk n m a v | none => false
      return { model := hexL r, specOk := ok, reason := if ok then "" else s!"value {IntegerSpec.val n a} not preserved", cls := "",
               tag := if m > n then "cvt/widen" else if m < n then (if IntegerSpec.fits m (IntegerSpec.val n a) then "cvt/narrow-fits" else "cvt/narrow-wraps") else "cvt/same" }
    else
      let some a := parseHex as | throw "a"
      let some b := parseHex bs | throw "b"
      let (m, e) ← match op with
        | "add" => pure (Integer.add w n (lim a) (lim b), IntegerSpec.add n a b)
        | "sub" => pure (Integer.sub w n (lim a) (lim b), IntegerSpec.sub n a b)
        | "mul" => pure (Integer.mul w n (lim a) (lim b), IntegerSpec.mul n a b)
        | "and" => pure (Integer.band w n (lim a) (lim b), IntegerSpec.band n a b)
        | "or"  => pure (Integer.bor w n (lim a) (lim b), IntegerSpec.bor n a b)
        | "xor" => pure (Integer.bxor w n (lim a) (lim b), IntegerSpec.bxor n a b)
        | _ => throw s!"unknown op {op}"
      let exact : Int := match op with
        | "add" => IntegerSpec.val n a + IntegerSpec.val n b
        | "sub" => IntegerSpec.val n a - IntegerSpec.val n b
        | "mul" => IntegerSpec.val n a * IntegerSpec.val n b
        | _ => 0
      let kind := if op == "and" || op == "or" || op == "xor" then "bits"
        else if IntegerSpec.fits n exact then (if k > 1 && (a % 2 ^ w + b % 2 ^ w ≥ 2 ^ w) then "fits-limbcarry" else "fits") else "wraps"
      return judge (hexL m) e s!"{op}/{kind}" ""
  | _, [as] =>
    match op with
    | "fromi64" =>
      let some v := parseInt as | throw "v"
      let m := Integer.convertSigned w n v
      let ok := match implV with | some r => IntegerSpec.fromIntOk n v r | none => false
      return { model := hexL m, specOk := ok, reason := if ok then "" else "value not preserved", cls := "",
               tag := if IntegerSpec.fits n v then "fromi64/fits" else "fromi64/wraps" }
    | "fromu64" =>
      let some v := parseHex as | throw "v"
      let m := Integer.convertUnsigned w n v
      let ok := match implV with | some r => IntegerSpec.fromIntOk n (v : Int) r | none => false
      return { model := hexL m, specOk := ok, reason := if ok then "" else "value not preserved", cls := "",
               tag := if IntegerSpec.fits n (v : Int) then "fromu64/fits" else "fromu64/wraps" }
    | "toi64" =>
      let some a := parseHex as | throw "a"
      let m := Integer.toI64 w n (lim a)
      let ok := match implV with | some r => IntegerSpec.toI64Ok n a r | none => false
      return { model := toHex m, specOk := ok, reason := if ok then "" else "value not preserved", cls := "", tag := "toi64" }
    | "tou64" =>
      let some a := parseHex as | throw "a"
      let m := Integer.toU64 w n (lim a)
      let ok := match implV with | some r => IntegerSpec.toU64Ok n a r | none => false
      return { model := toHex m, specOk := ok, reason := if ok then "" else "value not preserved", cls := "",
               tag := if IntegerSpec.val n a < 0 then "tou64/negative" else "tou64" }
    | _ =>
      let some a := parseHex as | throw "a"
      let (m, e) ← match op with
        | "neg" => pure (Integer.neg w n (lim a), IntegerSpec.neg n a)
        | "not" => pure (Integer.flip w n (lim a), IntegerSpec.bnot n a)
        | "inc" => pure (Integer.inc w n (lim a), IntegerSpec.inc n a)
        | "dec" => pure (Integer.dec w n (lim a), IntegerSpec.dec n a)
        | _ => throw s!"unknown op {op}"
      return judge (hexL m) e op ""
  | _, _ => throw "arity"

end UVerif.Driver
