import UVerif.Driver.Core
import UVerif.Spec.Lns
import UVerif.Model.Lns

namespace UVerif.Driver
open UVerif UVerif.Lns UVerif.IeeeBits

private def parseBt (s : String) : Option Nat :=
  match s with
  | "u8" => some 8
  | "u16" => some 16
  | "u32" => some 32
  | "u64" => some 64
  | _ => none

/-- is the observed `double(a)` within `k` ulps of 2^(E/N)·(-1)^s ?  (libm `pow` sanity, reported as a tag) -/
def powWithinUlps (r : Nat) (neg : Bool) (E : Int) (d : Nat) (k : Nat) : Bool :=
  if !isFinite f64 d || signOf f64 d != neg then false else
  let N : Nat := 2 ^ r
  let q := E / (N : Int)             -- floor
  let j := (E % (N : Int)).toNat
  match pow2Frac r j with
  | none => false
  | some iv =>
    -- 2^(E/N) ∈ [lo, hi] · 2^(q - P);  d = m · 2^e.  Compare on the common exponent c = min e (q-P).
    let e := ulpExp f64 d
    let eI := q - (P : Int)
    let c := min e eI
    let sh (x : Nat) (ex : Int) : Int := (x : Int) * ((2 ^ (ex - c).toNat : Nat) : Int)
    let lo := sh iv.lo eI
    let hi := sh iv.hi eI
    let v := sh (mant f64 d) e
    let u := sh k e
    lo - u ≤ v && v ≤ hi + u

private def magTag (n : Nat) (m : Mag) (res : Val) : String :=
  match m with
  | .zero => "cancel"
  | .undecided => "undecided"
  | .at F => if F ≥ maxE n then "exact-clampmax" else if F < minE n then "exact-below-minpos" else "exact"
  | .between F =>
    if F ≥ maxE n then "clampmax"
    else if F < minE n then (if res == .zero then "below-minpos->zero" else "below-minpos->minpos")
    else match res with
      | .num _ E => if E = F then "lower-neighbour" else if E = F + 1 then "upper-neighbour" else "other"
      | _ => "other"

def lnsHandler : Handler := fun lhs rhs => do
  match lhs with
  | ns :: rs :: bts :: bs :: op :: args =>
    let some n := parseNat ns | throw "nbits"
    let some r := parseNat rs | throw "rbits"
    let some w := parseBt bts | throw "block type"
    let wrap ← match bs with
      | "S" => pure false
      | "W" => pure true
      | _ => throw "behaviour"
    if n < 2 || r ≥ n then throw "configuration"
    let c : Model.Cfg := { nbits := n, rbits := r, w := w, wrap := wrap }
    let bt := if wrap then "W" else "S"
    match op, args, rhs with
    | "mul", [as, bs2], [os] | "div", [as, bs2], [os] =>
      let some a := parseHex as | throw "a"
      let some b := parseHex bs2 | throw "b"
      let some o := parseHex os | throw "r"
      let isDiv := op == "div"
      let m := if isDiv then Model.div c a b else Model.mul c a b
      let va := decode n a
      let vb := decode n b
      let special := !(match va, vb with | .num _ _, .num _ _ => true | _, _ => false)
      if !wrap then
        match mulDivSat n isDiv va vb with
        | none => return { model := toHex m, specOk := true, tag := s!"{op}/{bt}/unconstrained", trivial := true }
        | some ex =>
          let ok := o < 2 ^ n && decode n o == ex
          let tg := match va, vb with
            | .num _ ea, .num _ eb =>
              let S := if isDiv then ea - eb else ea + eb
              if S > maxE n then "clampmax" else if S = maxE n then "at-maxpos" else if S < minE n then "flush" else "inrange"
            | _, _ => "special"
          return { model := toHex m, specOk := ok, reason := if ok then "" else s!"expected {repr ex}",
                   tag := s!"{op}/{bt}/{tg}", trivial := special }
      else
        let ok := mulDivWrapOk n isDiv va vb o
        let tg := match va, vb with
          | .num _ ea, .num _ eb =>
            let S := if isDiv then ea - eb else ea + eb
            if S > maxE n || S < minE n - 1 then "wrapped"
            else if S = minE n - 1 then "special-pattern" else "inrange"
          | _, _ => "special"
        return { model := toHex m, specOk := ok,
                 reason := if ok then "" else "exponent field is not the wrapped exact " ++ (if isDiv then "difference" else "sum"),
                 tag := s!"{op}/{bt}/{tg}", trivial := special }
    | "add", [as, bs2, das, dbs, ss, lgs, mxs, mns, hms], [os]
    | "sub", [as, bs2, das, dbs, ss, lgs, mxs, mns, hms], [os] =>
      let some a := parseHex as | throw "a"
      let some b := parseHex bs2 | throw "b"
      let some da := parseHex das | throw "da"
      let some db := parseHex dbs | throw "db"
      let some sObs := parseHex ss | throw "sum"
      let some lg := parseHex lgs | throw "lg"
      let some mx := parseHex mxs | throw "mx"
      let some mn := parseHex mns | throw "mn"
      let some hm := parseHex hms | throw "hm"
      let some o := parseHex os | throw "r"
      let isSub := op == "sub"
      -- operands' doubles: fixed for the special encodings, libm (observed) otherwise
      match Model.toDoubleSpecial c a with
      | some x => if x != da then throw s!"double(a) of a special encoding is {toHex da}, model {toHex x}"
      | none => pure ()
      match Model.toDoubleSpecial c b with
      | some x => if x != db then throw s!"double(b) of a special encoding is {toHex db}, model {toHex x}"
      | none => pure ()
      let (sM, m) := Model.addSub c ⟨mx, mn, hm⟩ isSub da db lg
      if sM != sObs then throw s!"hardware sum {toHex sObs} differs from IeeeBits result {toHex sM}"
      let va := decode n a
      let vb := decode n b
      let special := !(match va, vb with | .num _ _, .num _ _ => true | _, _ => false)
      -- libm sanity (tag only): pow within one ulp
      let powOk (v : Val) (d : Nat) : Bool := match v with
        | .num s E => powWithinUlps r s E d 1
        | _ => true
      let libm := if powOk va da && powOk vb db then "" else "/pow>1ulp"
      let ex := addSubExpect r isSub va vb
      let res := decode n o
      let ok := o < 2 ^ n && addSubOk n ex res
      let inRange := match ex with
        | .num _ mg => mg.inRange n
        | _ => true
      let tg := match ex with
        | .nan => "nan"
        | .zero => "zero"
        | .num _ mg => magTag n mg res
      -- the double detour leaves binary64's range: an operand at or above 2^1024 / below 2^-1022, or a sum ≥ 2^1024
      let Nn : Int := ((2 ^ r : Nat) : Int)
      let outDbl (v : Val) : Bool := match v with
        | .num _ E => E ≥ 1024 * Nn || E < -1022 * Nn
        | _ => false
      let sumBig := match ex with
        | .num _ (.at F) => F ≥ 1024 * Nn
        | .num _ (.between F) => F ≥ 1024 * Nn
        | _ => false
      let cls := if ok then ""
        else if outDbl va || outDbl vb || sumBig then "lns.addsub.double_range"
        else if wrap && !inRange then "lns.addsub.wrapping.out_of_range" else ""
      return { model := toHex m, specOk := ok,
               reason := if ok then "" else s!"exact real result {repr ex} result {repr res}",
               cls := cls, tag := s!"{op}/{bt}/{tg}{libm}", trivial := special }
    | "neg", [as], [os] =>
      let some a := parseHex as | throw "a"
      let some o := parseHex os | throw "r"
      let m := Model.neg c a
      let ex := match decode n a with
        | .num s E => Val.num (!s) E
        | v => v
      let ok := o < 2 ^ n && decode n o == ex
      return { model := toHex m, specOk := ok, reason := "negation is not exact", tag := s!"neg/{bt}",
               trivial := !(match decode n a with | .num _ _ => true | _ => false) }
    | "cmp", [as, bs2], [os] =>
      let some a := parseHex as | throw "a"
      let some b := parseHex bs2 | throw "b"
      let some o := parseHex os | throw "mask"
      let m := Model.cmpMask c a b
      let sp := lnsCmpSpec (decode n a) (decode n b)
      return { model := toHex m, specOk := o == sp, reason := s!"expected mask {toHex sp}", tag := "cmp" }
    | _, _, _ => throw s!"unknown op/arity {op}"
  | _ => throw "arity"

end UVerif.Driver
