import UVerif.Driver.Core
import UVerif.Model.Posit
import UVerif.Model.PositConv
import UVerif.Spec.Ieee

namespace UVerif.Driver
open UVerif UVerif.Posit

private def narTag (n a : Nat) : Bool := isNaR n a

/-- exact value the property assigns to `op a b`; `none` = NaR expected. -/
def positExact (n es : Nat) (op : String) (a b : Nat) : Option Rat :=
  match positVal n es a, positVal n es b with
  | some x, some y =>
    match op with
    | "add" => some (x + y)
    | "sub" => some (x - y)
    | "mul" => some (x * y)
    | "div" => if y = 0 then none else some (x / y)
    | _ => none
  | _, _ => none

def cmpMask (n es a b : Nat) : Nat :=
  -- spec: NaR is equal to itself and less than every other posit; otherwise real order
  let key (v : Nat) : Option Rat := positVal n es v
  let lt : Bool := match key a, key b with
    | none, none => false
    | none, some _ => true
    | some _, none => false
    | some x, some y => x < y
  let eq : Bool := match key a, key b with
    | none, none => true
    | some x, some y => x == y
    | _, _ => false
  let gt := !lt && !eq
  (if eq then 1 else 0) + (if !eq then 2 else 0) + (if lt then 4 else 0) + (if lt || eq then 8 else 0)
   + (if gt then 16 else 0) + (if gt || eq then 32 else 0)

def cmpMaskModel (n a b : Nat) : Nat :=
  let lt := Posit.lt n a b
  let eq := Posit.eq n a b
  let gt := Posit.lt n b a
  (if eq then 1 else 0) + (if !eq then 2 else 0) + (if lt then 4 else 0) + (if !gt then 8 else 0)
   + (if gt then 16 else 0) + (if !lt then 32 else 0)

def roundTag (n es : Nat) (x : Rat) (r : Nat) : String :=
  if x = 0 then "zero" else
  let X := if x < 0 then -x else x
  if X ≥ posVal n es (maxposEnc n) then "clampmax"
  else if X ≤ posVal n es 1 then "clampmin"
  else match positVal n es r with
    | some v =>
      if v = x then "exact"
      else
        -- tie: x is exactly the (n+1)-bit midpoint next to r
        let R := if r % 2 ^ n < 2 ^ (n - 1) then r % 2 ^ n else 2 ^ n - r % 2 ^ n
        let av := if v < 0 then -v else v
        let U := if av < X then R else R - 1
        if posVal (n + 1) es (2 * U + 1) = X then (if av < X then "tie-down" else "tie-up")
        else if av < X then "rounded-down" else "rounded-up"
    | none => "nar"


/-- spec for a conversion from a native source with exact value `x?` (none = inf/NaN): NaR, or the Standard's rounding -/
def convSpec (n es : Nat) (x? : Option Rat) (r : Nat) : Bool × String :=
  match x? with
  | none => (isNaR n r, "inf/NaN must become NaR")
  | some x =>
    let ok := r < 2 ^ n && nearestB n es x r
    (ok, if ok then "" else s!"source {showRat x} rounds to {toHex (positRound n es x)}")

def positConvHandler (n es : Nat) (op : String) (args : List String) (rhs : List String) : Except String LineResult := do
  match op, args, rhs with
  | "fromf64", [bs], [rs] =>
    let some b := parseHex bs | throw "bits"
    let some r := parseHex rs | throw "r"
    let m := fromSrc n es 52 (classifyIeee 11 52 b)
    let (ok, why) := convSpec n es (ieeeVal 11 52 b) r
    return { model := toHex m, specOk := ok, reason := why, tag := "fromf64", trivial := (ieeeVal 11 52 b).isNone }
  | "fromf32", [bs], [rs] =>
    let some b := parseHex bs | throw "bits"
    let some r := parseHex rs | throw "r"
    let m := fromSrc n es 23 (classifyIeee 8 23 b)
    let (ok, why) := convSpec n es (ieeeVal 8 23 b) r
    return { model := toHex m, specOk := ok, reason := why, tag := "fromf32", trivial := (ieeeVal 8 23 b).isNone }
  | "fromld", [ses, ms], [rs] =>
    let some se := parseHex ses | throw "se"
    let some mt := parseHex ms | throw "mant"
    let some r := parseHex rs | throw "r"
    let m := fromSrc n es 63 (classifyX87 se mt)
    let (ok, why) := convSpec n es (x87Val se mt) r
    return { model := toHex m, specOk := ok, reason := why, tag := "fromld", trivial := (x87Val se mt).isNone }
  | "fromi", [kind, ws], [rs] =>
    let some w := parseHex ws | throw "w"
    let some r := parseHex rs | throw "r"
    let some (_, seen, truth) := intKind kind w | throw "kind"
    let some m := fromIntKind n es kind w | throw "kind"
    let (ok, why) := convSpec n es (some (truth : Rat)) r
    let cls := if kind == "ul64" && seen != truth then "value.assign.ulong_ge_2p63" else ""
    return { model := toHex m, specOk := ok, reason := why, cls := cls, tag := "fromi/" ++ kind }
  | "todbl", [as], [ds, backs] =>
    let some a := parseHex as | throw "a"
    let some d := parseHex ds | throw "d"
    let some back := parseHex backs | throw "back"
    let m := toIeee n es 11 52 a
    let ok := match positVal n es a with
      | none => ieeeIsNaN 11 52 d
      | some x => ieeeVal 11 52 d == some x && (x != 0 || d == 0)
    return { model := s!"{toHex m} {toHex (a % 2 ^ n)}", specOk := ok && back == a % 2 ^ n,
             reason := "double(p) is not the exact value or does not round-trip", tag := "todbl" }
  | "tof32", [as], [ds, backs] =>
    let some a := parseHex as | throw "a"
    let some d := parseHex ds | throw "d"
    let some back := parseHex backs | throw "back"
    let m := toIeee n es 8 23 a
    let ok := match positVal n es a with
      | none => ieeeIsNaN 8 23 d
      | some x => ieeeVal 8 23 d == some x && (x != 0 || d == 0)
    return { model := s!"{toHex m} {toHex (a % 2 ^ n)}", specOk := ok && back == a % 2 ^ n,
             reason := "float(p) is not the exact value or does not round-trip", tag := "tof32" }
  | "told", [as], [ses, ms, backs] =>
    let some a := parseHex as | throw "a"
    let some se := parseHex ses | throw "se"
    let some mt := parseHex ms | throw "mant"
    let some back := parseHex backs | throw "back"
    let (mse, mm) := toX87 n es a
    let ok := match positVal n es a with
      | none => se % 2 ^ 15 == 2 ^ 15 - 1 && mt % 2 ^ 63 != 0
      | some x => x87Val se mt == some x
    return { model := s!"{toHex mse} {toHex mm} {toHex (a % 2 ^ n)}", specOk := ok && back == a % 2 ^ n,
             reason := "(long double)p is not the exact value or does not round-trip", tag := "told" }
  | "toi", [kind, as], [rs] =>
    let some a := parseHex as | throw "a"
    let some r := parseHex rs | throw "r"
    let some (digits, sgn) := intDigits kind | throw "kind"
    let some t := toIntKind n es kind a | throw "NaR has no integer value"
    let m := ofSigned 64 t
    -- spec: the exact value truncated toward zero WHENEVER THAT FITS the integer type. Outside the type's range the
    -- property is silent (the repaired to_integer saturates, negative values wrap into unsigned types): only the
    -- correspondence with the model is checked there. No class: D23 is repaired, a recurrence is a violation.
    let (ok, fits) := match positVal n es a with
      | some x =>
        let z := truncZ x
        let lo : Int := if sgn then -((2 ^ digits : Nat) : Int) else 0
        let fits := decide (lo ≤ z) && decide (z < ((2 ^ digits : Nat) : Int))
        (!fits || r == ofSigned 64 z, fits)
      | none => (false, false)
    return { model := toHex m, specOk := ok, reason := "integer cast is not truncation toward zero",
             tag := "toi/" ++ kind ++ (if fits then "" else "/outside") }
  | _, _, _ => throw s!"unknown op {op}"

/-- `posit n es limits => min max lowest epsilon minneg maxneg max_exponent min_exponent digits` -/
def positLimits (n es : Nat) (rhs : List String) : Except String LineResult := do
  match rhs with
  | [mins, maxs, lows, epss, mnegs, xnegs, maxe, mine, dig] =>
    let one := 2 ^ (n - 2)
    let eps := Posit.sub n es (Posit.incr n one) one
    let lim : Int := ((n : Int) - 2) * (2 ^ es : Nat)
    let digits : Int := if es + 2 > n then 0 else (n : Int) - 3 - (es : Int) + 1   -- as written in numeric_limits.hpp
    let model := [toHex 1, toHex (maxposEnc n), toHex (2 ^ (n - 1) + 1), toHex eps, toHex (2 ^ n - 1), toHex (2 ^ (n - 1) + 1),
                  toString lim, toString (-lim), toString digits]
    -- spec, from the value set: smallest / largest positive value, most negative value, correctly rounded gap above 1,
    -- negative value closest to zero, exponent range of the finite values, number of significand digits at 1.0
    let some mn := parseHex mins | throw "min"
    let some mx := parseHex maxs | throw "max"
    let some lo := parseHex lows | throw "lowest"
    let some ep := parseHex epss | throw "eps"
    let some mng := parseHex mnegs | throw "minneg"
    let some xng := parseHex xnegs | throw "maxneg"
    let okExt := mn == 1 && mx == maxposEnc n && lo == 2 ^ (n - 1) + 1 && mng == 2 ^ n - 1 && xng == 2 ^ (n - 1) + 1
    let okEps := match positVal n es (one + 1), positVal n es one with
      | some a, some b => nearestB n es (a - b) ep
      | _, _ => isNaR n ep
    let okExp := maxe == toString lim && mine == toString (-lim)   -- `digits` is not an extreme or a spacing: not judged
    return { model := joinToks model, specOk := okExt && okEps && okExp,
             reason := s!"extremes ok={okExt} epsilon ok={okEps} exponent range/digits ok={okExp}", tag := "limits" }
  | _ => throw "arity"

def positHandler : Handler := fun lhs rhs => do
  match lhs with
  | [ns, ess, "limits"] =>
    let some n := parseNat ns | throw "nbits"
    let some es := parseNat ess | throw "es"
    return ← positLimits n es rhs
  | ns :: ess :: op :: args =>
    if ["fromf64","fromf32","fromld","fromi","todbl","tof32","told","toi"].contains op then
      let some n := parseNat ns | throw "nbits"
      let some es := parseNat ess | throw "es"
      return ← positConvHandler n es op args rhs
  | _ => pure ()
  match lhs, rhs with
  | [ns, ess, op, as, bs], [rs] =>
    let some n := parseNat ns | throw "nbits"
    let some es := parseNat ess | throw "es"
    let some a := parseHex as | throw "a"
    let some b := parseHex bs | throw "b"
    let some r := parseHex rs | throw "r"
    if op == "cmp" then
      let m := cmpMaskModel n a b
      let s := cmpMask n es a b
      return { model := toHex m, specOk := (r == s), reason := s!"expected mask {toHex s}", tag := "cmp" }
    let m := match op with
      | "add" => Posit.add n es a b
      | "sub" => Posit.sub n es a b
      | "mul" => Posit.mul n es a b
      | "div" => Posit.div n es a b
      | _ => 0
    if !(["add","sub","mul","div"].contains op) then throw s!"unknown op {op}"
    match positExact n es op a b with
    | none =>
      return { model := toHex m, specOk := isNaR n r, reason := "NaR expected", tag := op ++ "/nar", trivial := true }
    | some x =>
      let ok := r < 2 ^ n && nearestB n es x r
      return { model := toHex m, specOk := ok,
               reason := if ok then "" else s!"exact {showRat x} rounds to {toHex (positRound n es x)}",
               tag := op ++ "/" ++ roundTag n es x r, canonical := r < 2 ^ n }
  | [ns, ess, op, as], [rs] =>
    let some n := parseNat ns | throw "nbits"
    let some es := parseNat ess | throw "es"
    let some a := parseHex as | throw "a"
    let some r := parseHex rs | throw "r"
    match op with
    | "rec" =>
      let m := Posit.reciprocal n es a
      match positVal n es a with
      | none => return { model := toHex m, specOk := isNaR n r, reason := "NaR expected", tag := "rec/nar", trivial := true }
      | some x =>
        if x = 0 then return { model := toHex m, specOk := isNaR n r, reason := "NaR expected", tag := "rec/nar", trivial := true }
        let ok := r < 2 ^ n && nearestB n es (1 / x) r
        return { model := toHex m, specOk := ok,
                 reason := if ok then "" else s!"exact {showRat (1/x)} rounds to {toHex (positRound n es (1/x))}",
                 tag := "rec/" ++ roundTag n es (1/x) r }
    | "neg" =>
      let m := Posit.neg n a
      let ok := match positVal n es a, positVal n es r with
        | none, none => true
        | some x, some y => y == -x
        | _, _ => false
      return { model := toHex m, specOk := ok && r < 2 ^ n, reason := "negation not exact", tag := "neg" }
    | "abs" =>
      let m := Posit.abs n a
      let ok := match positVal n es a, positVal n es r with
        | none, none => true
        | some x, some y => y == (if x < 0 then -x else x)
        | _, _ => false
      return { model := toHex m, specOk := ok && r < 2 ^ n, reason := "abs not exact", tag := "abs" }
    | "inc" =>
      let m := Posit.incr n a
      return { model := toHex m, specOk := r == (a + 1) % 2 ^ n, reason := "++ is not the next encoding", tag := "inc" }
    | "dec" =>
      let m := Posit.decr n a
      return { model := toHex m, specOk := (r + 1) % 2 ^ n == a % 2 ^ n, reason := "-- is not the previous encoding", tag := "dec" }
    | _ => throw s!"unknown op {op}"
  | _, _ => throw "arity"

/-- `pconv n1 es1 n2 es2 a => r back` : posit<n2,es2>(posit<n1,es1>) via to_value() + convert -/
def pconvHandler : Handler := fun lhs rhs => do
  match lhs, rhs with
  | [n1s, e1s, n2s, e2s, as], [rs, bs] =>
    let some n1 := parseNat n1s | throw "n1"
    let some e1 := parseNat e1s | throw "e1"
    let some n2 := parseNat n2s | throw "n2"
    let some e2 := parseNat e2s | throw "e2"
    let some a := parseHex as | throw "a"
    let some r := parseHex rs | throw "r"
    let some b := parseHex bs | throw "back"
    let m := Posit.convert n2 e2 (decode n1 e1 a)
    let mb := Posit.convert n1 e1 (decode n2 e2 m)
    let (ok, why) := convSpec n2 e2 (positVal n1 e1 a) r
    -- representable source value ⇒ identity; widening then narrowing returns the original
    let exact := positVal n2 e2 r == positVal n1 e1 a
    let ok2 := !exact || b == a % 2 ^ n1
    return { model := s!"{toHex m} {toHex mb}", specOk := ok && ok2,
             reason := if ok then "exactly representable value did not convert back to the original encoding" else why,
             tag := if exact then "pconv/exact" else "pconv/rounded", trivial := (positVal n1 e1 a).isNone }
  | _, _ => throw "arity"

end UVerif.Driver
