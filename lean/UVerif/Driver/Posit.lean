import UVerif.Driver.Core
import UVerif.Model.Posit

namespace UVerif.Driver
open UVerif UVerif.Posit

private def narTag (n a : Nat) : Bool := isNaR n a

/-- exact value the property assigns to `op a b`; `none` = NaR expected. -/
def positExact (n es : Nat) (op : String) (a b : Nat) : Option Rat :=
  match positVal n es a, positVal n es b with
  | some x, some y =>
    match op with
    | "add" => some (x + y)
    | "sub" => some (x - y)
    | "mul" => some (x * y)
    | "div" => if y = 0 then none else some (x / y)
    | _ => none
  | _, _ => none

def cmpMask (n es a b : Nat) : Nat :=
  -- spec: NaR is equal to itself and less than every other posit; otherwise real order
  let key (v : Nat) : Option Rat := positVal n es v
  let lt : Bool := match key a, key b with
    | none, none => false
    | none, some _ => true
    | some _, none => false
    | some x, some y => x < y
  let eq : Bool := match key a, key b with
    | none, none => true
    | some x, some y => x == y
    | _, _ => false
  let gt := !lt && !eq
  (if eq then 1 else 0) + (if !eq then 2 else 0) + (if lt then 4 else 0) + (if lt || eq then 8 else 0)
   + (if gt then 16 else 0) + (if gt || eq then 32 else 0)

def cmpMaskModel (n a b : Nat) : Nat :=
  let lt := Posit.lt n a b
  let eq := Posit.eq n a b
  let gt := Posit.lt n b a
  (if eq then 1 else 0) + (if !eq then 2 else 0) + (if lt then 4 else 0) + (if !gt then 8 else 0)
   + (if gt then 16 else 0) + (if !lt then 32 else 0)

def roundTag (n es : Nat) (x : Rat) (r : Nat) : String :=
  if x = 0 then "zero" else
  let X := if x < 0 then -x else x
  if X ≥ posVal n es (maxposEnc n) then "clampmax"
  else if X ≤ posVal n es 1 then "clampmin"
  else match positVal n es r with
    | some v => if v = x then "exact" else if (if v < 0 then -v else v) < X then "up-not-taken" else "rounded-up"
    | none => "nar"

def positHandler : Handler := fun lhs rhs => do
  match lhs, rhs with
  | [ns, ess, op, as, bs], [rs] =>
    let some n := parseNat ns | throw "nbits"
    let some es := parseNat ess | throw "es"
    let some a := parseHex as | throw "a"
    let some b := parseHex bs | throw "b"
    let some r := parseHex rs | throw "r"
    if op == "cmp" then
      let m := cmpMaskModel n a b
      let s := cmpMask n es a b
      return { model := toHex m, specOk := (r == s), reason := s!"expected mask {toHex s}", tag := "cmp" }
    let m := match op with
      | "add" => Posit.add n es a b
      | "sub" => Posit.sub n es a b
      | "mul" => Posit.mul n es a b
      | "div" => Posit.div n es a b
      | _ => 0
    if !(["add","sub","mul","div"].contains op) then throw s!"unknown op {op}"
    match positExact n es op a b with
    | none =>
      return { model := toHex m, specOk := isNaR n r, reason := "NaR expected", tag := op ++ "/nar", trivial := true }
    | some x =>
      let ok := r < 2 ^ n && nearestB n es x r
      return { model := toHex m, specOk := ok,
               reason := if ok then "" else s!"exact {showRat x} rounds to {toHex (positRound n es x)}",
               tag := op ++ "/" ++ roundTag n es x r }
  | [ns, ess, op, as], [rs] =>
    let some n := parseNat ns | throw "nbits"
    let some es := parseNat ess | throw "es"
    let some a := parseHex as | throw "a"
    let some r := parseHex rs | throw "r"
    match op with
    | "rec" =>
      let m := Posit.reciprocal n es a
      match positVal n es a with
      | none => return { model := toHex m, specOk := isNaR n r, reason := "NaR expected", tag := "rec/nar", trivial := true }
      | some x =>
        if x = 0 then return { model := toHex m, specOk := isNaR n r, reason := "NaR expected", tag := "rec/nar", trivial := true }
        let ok := r < 2 ^ n && nearestB n es (1 / x) r
        return { model := toHex m, specOk := ok,
                 reason := if ok then "" else s!"exact {showRat (1/x)} rounds to {toHex (positRound n es (1/x))}",
                 tag := "rec/" ++ roundTag n es (1/x) r }
    | "neg" =>
      let m := Posit.neg n a
      let ok := match positVal n es a, positVal n es r with
        | none, none => true
        | some x, some y => y == -x
        | _, _ => false
      return { model := toHex m, specOk := ok && r < 2 ^ n, reason := "negation not exact", tag := "neg" }
    | "abs" =>
      let m := Posit.abs n a
      let ok := match positVal n es a, positVal n es r with
        | none, none => true
        | some x, some y => y == (if x < 0 then -x else x)
        | _, _ => false
      return { model := toHex m, specOk := ok && r < 2 ^ n, reason := "abs not exact", tag := "abs" }
    | "inc" =>
      let m := Posit.incr n a
      return { model := toHex m, specOk := r == (a + 1) % 2 ^ n, reason := "++ is not the next encoding", tag := "inc" }
    | "dec" =>
      let m := Posit.decr n a
      return { model := toHex m, specOk := (r + 1) % 2 ^ n == a % 2 ^ n, reason := "-- is not the previous encoding", tag := "dec" }
    | _ => throw s!"unknown op {op}"
  | _, _ => throw "arity"

end UVerif.Driver
