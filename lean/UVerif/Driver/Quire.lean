import UVerif.Driver.Core
import UVerif.Model.Quire

namespace UVerif.Driver
open UVerif UVerif.Posit UVerif.Quire

def parseOp (s : String) : Option Op :=
  let neg := s.startsWith "-"
  let body := (s.drop 1).toString
  if body.startsWith "p:" then
    (parseHex (body.drop 2).toString).map (fun a => if neg then Op.subP a else Op.addP a)
  else if body.startsWith "m:" then
    match (body.drop 2).toString.splitOn "," with
    | [x, y] => match parseHex x, parseHex y with
      | some a, some b => some (if neg then Op.subM a b else Op.addM a b)
      | _, _ => none
    | _ => none
  else none

/-- exact value of an accumulation (the property's reference); `none` when a NaR is involved -/
def opExact (n es : Nat) : Op → Option Rat
  | .addP a => positVal n es a
  | .subP a => (positVal n es a).map (fun x => -x)
  | .addM a b => match positVal n es a, positVal n es b with
    | some x, some y => some (x * y) | _, _ => none
  | .subM a b => match positVal n es a, positVal n es b with
    | some x, some y => some (-(x * y)) | _, _ => none

def errName : QErr → String
  | .tooLarge => "throw:too_large" | .tooSmall => "throw:too_small" | .nar => "throw:nar"

def stateStr (n es : Nat) (L : Layout) (q : QState) : String :=
  s!"{if q.sign then 1 else 0}:{toHex (q.mag L)}:{toHex (roundToPosit n es L q)}"

/-- model run over a history, printing the state after every step -/
def runHist (n es : Nat) (L : Layout) : QState → List Op → List String
  | _, [] => []
  | q, op :: rest =>
    match step n es L q op with
    | .error e => [errName e]
    | .ok q' => stateStr n es L q' :: runHist n es L q' rest

/-- spec: after every step the state is sign/magnitude of the exact sum (units 2^-hr), zero has sign 0,
    and the rounded value is the Posit-Standard rounding of the exact sum. Steps after the exact sum left the
    quire's capacity are outside the property. Returns (ok, reason, sawOverflow). -/
def specHist (n es : Nat) (L : Layout) : Rat → List Op → List String → Bool × String
  | _, [], [] => (true, "")
  | _, [], _ :: _ => (false, "more outputs than operations")
  | _, _ :: _, [] => (false, "missing outputs")
  | acc, op :: rest, out :: outs =>
    match opExact n es op with
    | none => (out == "throw:nar", "NaR operand must be rejected")
    | some x =>
      let acc' := acc + x
      let magR : Rat := (if acc' < 0 then -acc' else acc') * pow2 L.hr
      -- an operand beyond the range of a posit product is rejected by the quire
      if out.startsWith "throw" then
        let ax := if x < 0 then -x else x
        (x != 0 && (ax ≥ pow2 ((L.hr : Int) + 1) || ax < pow2 (-(L.hr : Int))), s!"unexpected {out}")
      else if magR ≥ ((2 ^ L.tot : Nat) : Rat) then (true, "")    -- capacity exceeded: outside the property
      else
        let expS := if acc' < 0 then "1" else "0"
        let expM := if magR.den = 1 then toHex magR.num.toNat else "non-integer"
        match out.splitOn ":" with
        | [s, m, r] =>
          if s != expS || m != expM then (false, s!"exact sum {showRat acc'} is state {expS}:{expM}")
          else match parseHex r with
            | some rr =>
              if nearestB n es acc' rr then specHist n es L acc' rest outs
              else (false, s!"exact sum {showRat acc'} rounds to {toHex (positRound n es acc')}")
            | none => (false, "bad r")
        | _ => (false, "bad state token")

def quireHandler : Handler := fun lhs rhs => do
  match lhs with
  | ns :: ess :: caps :: mode :: opsS =>
    let some n := parseNat ns | throw "nbits"
    let some es := parseNat ess | throw "es"
    let some cap := parseNat caps | throw "cap"
    let L := layoutOf n es cap
    match mode with
    | "hist" =>
      let some ops := opsS.mapM parseOp | throw "ops"
      let model := runHist n es L {} ops
      let (ok, why) := specHist n es L 0 ops rhs
      return { model := joinToks model, specOk := ok, reason := why, tag := s!"hist/len{min (ops.length / 10 * 10) 100}" }
    | "part" =>
      let left := opsS.takeWhile (· ≠ "|")
      let right := (opsS.dropWhile (· ≠ "|")).drop 1
      let some l := left.mapM parseOp | throw "ops"
      let some r := right.mapM parseOp | throw "ops"
      let run (ops : List Op) : Except QErr QState := ops.foldlM (step n es L) {}
      let model := match run l, run r with
        | .ok q1, .ok q2 => match addQuire L q1 q2 with
          | .ok q => stateStr n es L q
          | .error e => errName e
        | .error e, _ => errName e
        | _, .error e => errName e
      -- spec: the merged state equals the state of the exact total, provided no partial sum left the capacity
      let exacts := (l ++ r).map (opExact n es)
      if exacts.any (·.isNone) then
        return { model := model, specOk := rhs == ["throw:nar"], reason := "NaR operand must be rejected", tag := "part/nar", trivial := true }
      let tot : Rat := exacts.foldl (fun a x => a + x.getD 0) 0
      -- partial sums of each part and the final sum must fit
      let fits (xs : List Op) : Bool :=
        (xs.foldl (fun (st : Rat × Bool) op =>
            let a := st.1 + (opExact n es op).getD 0
            (a, st.2 && ((if a < 0 then -a else a) * pow2 L.hr < ((2 ^ L.tot : Nat) : Rat)))) ((0 : Rat), true)).2
      -- quire-to-quire addition is specified for an addend within the range of a posit product
      let rsum : Rat := (r.map (opExact n es)).foldl (fun a x => a + x.getD 0) 0
      let rFits := (if rsum < 0 then -rsum else rsum) * pow2 L.hr < ((2 ^ (2 * L.hr + 1) : Nat) : Rat)
      let totFits := (if tot < 0 then -tot else tot) * pow2 L.hr < ((2 ^ L.tot : Nat) : Rat)
      if !(fits l && fits r && totFits && rFits) then
        return { model := model, specOk := true, tag := "part/out-of-capacity", trivial := true }
      let magR : Rat := (if tot < 0 then -tot else tot) * pow2 L.hr
      let expS := if tot < 0 then "1" else "0"
      let expM := if magR.den = 1 then toHex magR.num.toNat else "non-integer"
      let ok := match rhs with
        | [o] => match o.splitOn ":" with
          | [s, m, rr] => s == expS && m == expM && (match parseHex rr with | some x => nearestB n es tot x | none => false)
          | _ => false
        | _ => false
      return { model := model, specOk := ok, reason := s!"exact total {showRat tot} is state {expS}:{expM}", tag := "part" }
    | "fdp" =>
      let some pairs := opsS.mapM (fun s => match s.splitOn "," with
        | [x, y] => match parseHex x, parseHex y with | some a, some b => some (a, b) | _, _ => none
        | _ => none) | throw "pairs"
      let model := match fdp n es cap pairs with
        | .ok r => toHex r
        | .error e => errName e
      let exacts := pairs.map (fun ab => opExact n es (.addM ab.1 ab.2))
      if exacts.any (·.isNone) then
        return { model := model, specOk := rhs == ["throw:nar"], reason := "NaR operand must be rejected", tag := "fdp/nar", trivial := true }
      let tot : Rat := exacts.foldl (fun a x => a + x.getD 0) 0
      let ok := match rhs with
        | [o] => match parseHex o with | some x => nearestB n es tot x | none => false
        | _ => false
      return { model := model, specOk := ok, reason := s!"exact dot product {showRat tot} rounds to {toHex (positRound n es tot)}", tag := "fdp" }
    | _ => throw "mode"
  | _ => throw "arity"

end UVerif.Driver
