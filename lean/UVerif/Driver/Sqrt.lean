/-
  UVerif.Driver.Sqrt — property C17.
  lines:  sqrt posit|positfast <n> <es> <a> => <r>            one argument
          sqrt positpair|positfastpair <n> <es> <a> <b> => <ra> <rb>   monotonicity on neighbouring arguments a < b
          sqrt fixpnt <n> <rb> <a> => <r>      sqrt fixpntpair <n> <rb> <a> <b> => <ra> <rb>
          sqrt integer <n> <a> => <r>          (n-bit two's complement patterns)
-/
import UVerif.Driver.Core
import UVerif.Spec.Sqrt
import UVerif.Model.Sqrt

namespace UVerif.Driver
open UVerif UVerif.Posit UVerif.Sqrt

/-- class id of a posit sqrt spec failure: (header, routine, input class) -/
def sqrtClass (fast : Bool) (n es a : Nat) : String :=
  if rootsTable n es |>.isSome then s!"posit.sqrt_tables.posit_{n}_{es}_roots.entry_{a % 2 ^ n}"
  else if fast && n == 8 && es == 2 then "fast.posit_8_2.sqrt.via_float_assign"
  else if fast && n == 16 && es == 1 then "fast.posit_16_1.sqrt.integer_algorithm"
  else if fast && n == 32 && es == 2 then "fast.posit_32_2.sqrt.integer_algorithm"
  else s!"posit.sqrt.double_detour.{n}_{es}"

def sqrtHandler : Handler := fun lhs rhs => do
  match lhs, rhs with
  | [kind, ns, ess, as], [rs] =>
    let some n := parseNat ns | throw "n"
    let some p2 := parseNat ess | throw "cfg2"
    let some a := parseHex as | throw "a"
    match kind with
    | "posit" | "positfast" =>
      let some r := parseHex rs | throw "r"
      let fast := kind == "positfast"
      let m := if fast then positSqrtFast n p2 a else positSqrtGeneric n p2 a
      let (ok, why) := positSqrtOk n p2 a r
      let special := match positVal n p2 a with | none => true | some x => x ≤ 0
      return { model := toHex m, specOk := ok, reason := why, cls := if !ok && r == m then sqrtClass fast n p2 a else "",
               tag := kind ++ (if special then "/special" else if n ≤ 16 then "/nearest" else "/faithful"), trivial := special }
    | "positnative" =>
      -- build option POSIT_NATIVE_SQRT=1 (Newton iteration `fast_sqrt`): not modelled — the model echoes the transcript and the
      -- spec predicate (correctly rounded up to 16 bits, faithful above) judges. Known on the pinned tree: sqrt(0) ≠ 0 and
      -- unfaithful results for configurations wider than 16 bits.
      let some r := parseHex rs | throw "r"
      let (ok, why) := positSqrtOk n p2 a r
      let special := match positVal n p2 a with | none => true | some x => x ≤ 0
      let cls := if ok then "" else if a % 2 ^ n == 0 then "posit.sqrt.native_option.zero"
                 else if n > 16 && !special then "posit.sqrt.native_option.wide_not_faithful" else ""
      return { model := toHex r, specOk := ok, reason := why, cls := cls,
               tag := kind ++ (if special then "/special" else if n ≤ 16 then "/nearest" else "/faithful"), trivial := special }
    | "fixpnt" =>
      let neg := fixVal n p2 a < 0
      if neg then
        -- `if (a < 0) throw fixpnt_arithmetic_exception(...)`: the documented exception
        return { model := "throw", specOk := rs == "throw", reason := "negative argument must raise the documented exception",
                 tag := "fixpnt/negative", trivial := true }
      let some r := parseHex rs | throw "r"
      let m := fixSqrt n p2 a
      let (ok, why) := fixSqrtOk n p2 a r
      let kindOf : String :=
        if toSigned n m < 0 then "result_negative"
        else if (faithfulIdx (fun i => dyadic i (-(p2 : Int))) 0 (2 ^ (n - 1) - 1) (fixVal n p2 a) m) then "faithful_not_nearest"
        else "not_faithful"
      return { model := toHex m, specOk := ok, reason := why,
               cls := if !ok && r == m then s!"fixpnt.sqrt.native_iteration.{kindOf}" else "",
               tag := if n ≤ 16 then "fixpnt/nearest" else "fixpnt/faithful", trivial := a == 0 }
    | _ => throw s!"unknown kind {kind}"
  | ["integer", ns, as], [rs] =>
    let some n := parseNat ns | throw "n"
    let some a := parseHex as | throw "a"
    let some r := parseHex rs | throw "r"
    let v := toSigned n a
    if v < 0 then
      -- quiet build: message on stderr, the binary search does not start, result 0
      return { model := "0", specOk := true, tag := "integer/negative", trivial := true }
    let m := intSqrt v.toNat
    let ok := r < 2 ^ n && intSqrtOk v.toNat r
    return { model := toHex m, specOk := ok, reason := "not the floor of the root: r² ≤ x < (r+1)² fails",
             cls := "", tag := "integer/floor", trivial := v ≤ 1 }
  | [kind, ns, ess, as, bs], [ras, rbs] =>
    let some n := parseNat ns | throw "n"
    let some p2 := parseNat ess | throw "cfg2"
    let some a := parseHex as | throw "a"
    let some b := parseHex bs | throw "b"
    let some ra := parseHex ras | throw "ra"
    let some rb := parseHex rbs | throw "rb"
    match kind with
    | "positpair" | "positfastpair" =>
      let fast := kind == "positfastpair"
      let f := fun v => if fast then positSqrtFast n p2 v else positSqrtGeneric n p2 v
      let ok := positMonoOk n p2 a b ra rb
      return { model := toHex (f a) ++ " " ++ toHex (f b), specOk := ok, reason := "sqrt is not monotone on this pair",
               cls := if !ok && ra == f a && rb == f b then "sqrt.monotone." ++ sqrtClass fast n p2 a else "", tag := kind }
    | "positnativepair" =>
      let ok := positMonoOk n p2 a b ra rb
      return { model := toHex ra ++ " " ++ toHex rb, specOk := ok, reason := "sqrt is not monotone on this pair",
               cls := if !ok && n > 16 then "posit.sqrt.native_option.wide_not_monotone" else "", tag := kind }
    | "fixpntpair" =>
      let ok := if fixVal n p2 a ≥ 0 ∧ fixVal n p2 a ≤ fixVal n p2 b then decide (fixVal n p2 ra ≤ fixVal n p2 rb) else true
      let ma := fixSqrt n p2 a; let mb := fixSqrt n p2 b
      return { model := toHex ma ++ " " ++ toHex mb, specOk := ok, reason := "sqrt is not monotone on this pair",
               cls := if !ok && ra == ma && rb == mb then "fixpnt.sqrt.native_iteration.not_monotone" else "", tag := kind }
    | _ => throw s!"unknown kind {kind}"
  | _, _ => throw "arity"

end UVerif.Driver
