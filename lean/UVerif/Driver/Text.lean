/-
  UVerif.Driver.Text — handler of the `text …` lines (property C16).
  For every line: recompute the model's output, evaluate the spec predicate on the implementation's output,
  assign the input-class id when the input lies in a recorded defect region.
-/
import UVerif.Driver.Core
import UVerif.Spec.Text
import UVerif.Model.TextPosit
import UVerif.Model.TextFloat
import UVerif.Model.TextDecimal
import UVerif.Model.TextInteger

namespace UVerif.Driver
open UVerif UVerif.Text UVerif.TextSpec

private def str (l : List Char) : String := String.ofList l

/-- the `double` branch of posit `parse` yields zero when the text has no leading floating-point literal, or a
    leading literal all of whose digits are zero (the harness only produces such texts outside the grammar). -/
def leadingDoubleIsZero (s : List Char) : Bool :=
  let s := match s with
    | '-' :: r => r
    | '+' :: r => r
    | r => r
  let pre := s.takeWhile (fun c => isDigitC c || c == '.')
  pre.all (fun c => c == '0' || c == '.')

def positHexClass (n enc : Nat) : String :=
  if n > 64 && enc ≥ 2 ^ 64 then "text.posit.parse.wider_than_64"
  else ""

def textPosit (lhs rhs : List String) : Except String LineResult := do
  match lhs, rhs with
  | [ns, ess, op, arg], [out] =>
    let some n := parseNat ns | throw "nbits"
    let some es := parseNat ess | throw "es"
    match op with
    | "hexfmt" =>
      let some enc := parseHex arg | throw "enc"
      let m := positHexFormat n es enc
      let ok := positHexDenotes n es enc out.toList
      return { model := str m, specOk := ok, reason := "the text does not denote the encoding",
               tag := s!"posit/hexfmt/{if n % 4 == 0 then "aligned" else "unaligned"}" }
    | "roundtrip" | "rtstream" =>
      let some enc := parseHex arg | throw "enc"
      let some r := parseHex out | throw "out"
      let m := match positRoundTrip n es enc with
        | some v => toHex v
        | none => "nomatch"
      return { model := m, specOk := r == enc, reason := "parse(hex_format(p)) != p", cls := positHexClass n enc,
               tag := s!"posit/{op}/{if n % 4 == 0 then "aligned" else "unaligned"}", trivial := enc == 0 }
    | "parse" =>
      let s := arg.toList
      let some r := parseHex out | throw "out"
      match positParse n s with
      | some v =>
        match positCanonicalText n es s with
        | some want =>
          return { model := toHex v, specOk := r == want, reason := s!"the text denotes {toHex want}",
                   cls := if n > 64 && want ≥ 2 ^ 64 then "text.posit.parse.wider_than_64" else "", tag := "posit/parse/canonical" }
        | none => return { model := toHex v, tag := "posit/parse/other" }
      | none =>
        let m := if leadingDoubleIsZero s then "0" else "double-branch-not-modelled"
        return { model := m, tag := "posit/parse/nomatch", trivial := true }
    | _ => throw s!"unknown op {op}"
  | _, _ => throw "arity"


def textBtWidth (s : String) : Option Nat :=
  match s with
  | "u8" => some 8
  | "u16" => some 16
  | "u32" => some 32
  | "u64" => some 64
  | _ => none

/-! ### cfloat -/

def textCfloat (lhs rhs : List String) : Except String LineResult := do
  match lhs, rhs with
  | [ns, ess, _bt, op, arg], [out] =>
    let some n := parseNat ns | throw "nbits"
    let some es := parseNat ess | throw "es"
    match op with
    | "tobin" =>
      let some enc := parseHex arg | throw "enc"
      let m := cfloatToBinary n es enc
      let ok := cfloatBinaryText n es out.toList false == some enc
      return { model := str m, specOk := ok, reason := "the text does not denote the encoding's sign|exponent|fraction fields",
               tag := "cfloat/tobin" }
    | "roundtrip" | "rtmarked" =>
      let some enc := parseHex arg | throw "enc"
      let some r := parseHex out | throw "out"
      let txt := if op == "roundtrip" then cfloatToBinary n es enc else cfloatToBinaryMarked n es enc
      let m := cfloatAssign n es txt
      return { model := toHex m, specOk := r == enc, reason := "assign(to_binary(x)) != x",
               tag := s!"cfloat/{op}", trivial := enc == 0 }
    | "tohex" | "hexprint" =>
      let some enc := parseHex arg | throw "enc"
      let hx := integerToHex n enc                       -- cfloat to_hex: the same nibble loop as integer to_hex
      let m := if op == "tohex" then hx else natToDec n ++ ['.'] ++ natToDec es ++ ['x'] ++ hx ++ ['c']
      let body := if op == "tohex" then out.toList else ((out.toList.drop (toString n ++ "." ++ toString es ++ "x").length).reverse.drop 1).reverse
      let ok := readSignedHex body == some (enc : Int) &&
        (op == "tohex" || (out.startsWith (toString n ++ "." ++ toString es ++ "x") && out.endsWith "c"))
      return { model := str m, specOk := ok, reason := "the text does not denote the encoding", tag := s!"cfloat/{op}" }
    | "assign" =>
      let s := arg.toList
      let some r := parseHex out | throw "out"
      let m := cfloatAssign n es s
      match cfloatBinaryText n es s true with
      | some want => return { model := toHex m, specOk := r == want, reason := s!"the text denotes {toHex want}", tag := "cfloat/assign/wellformed" }
      | none => return { model := toHex m, tag := "cfloat/assign/malformed", trivial := true }
    | _ => throw s!"unknown op {op}"
  | _, _ => throw "arity"

/-! ### fixpnt -/

def textFixpnt (lhs rhs : List String) : Except String LineResult := do
  match lhs, rhs with
  | [ns, rs, _bt, op, arg], [out] =>
    let some n := parseNat ns | throw "nbits"
    let some rb := parseNat rs | throw "rbits"
    match op with
    | "tobin" =>
      let some enc := parseHex arg | throw "enc"
      let m := fixpntToBinary n rb enc
      let ok := fixpntBinaryText n rb out.toList false == some enc
      return { model := str m, specOk := ok, reason := "the text does not denote the encoding", tag := "fixpnt/tobin" }
    | "roundtrip" | "rtmarked" =>
      let some enc := parseHex arg | throw "enc"
      let some r := parseHex out | throw "out"
      let txt := if op == "roundtrip" then fixpntToBinary n rb enc else fixpntToBinaryMarked n rb enc
      let m := match fixpntAssign n rb txt with
        | some v => toHex v
        | none => "decimal-branch-not-modelled"
      return { model := m, specOk := r == enc, reason := "assign(to_binary(x)) != x", tag := s!"fixpnt/{op}", trivial := enc == 0 }
    | "assign" =>
      let s := arg.toList
      let some r := parseHex out | throw "out"
      let m := match fixpntAssign n rb s with
        | some v => toHex v
        | none => "decimal-branch-not-modelled"
      match fixpntBinaryText n rb s true with
      | some want => return { model := m, specOk := r == want, reason := s!"the text denotes {toHex want}", tag := "fixpnt/assign/wellformed" }
      | none => return { model := m, tag := "fixpnt/assign/malformed", trivial := true }
    | "tohex" =>
      let some enc := parseHex arg | throw "enc"
      let m := integerToHex n enc                        -- fixpnt to_hex: the same nibble loop as integer to_hex
      return { model := str m, specOk := readSignedHex out.toList == some (enc : Int),
               reason := "the text does not denote the encoding", tag := "fixpnt/tohex" }
    | "dec" | "ostream" =>
      let some enc := parseHex arg | throw "enc"
      let m := fixpntToDecimalString n rb enc
      let ok := fixpntDecimalOk n rb enc out.toList
      return { model := str m, specOk := ok, reason := s!"not the decimal expansion of {showRat (fixpntVal n rb enc)}",
               tag := s!"fixpnt/{op}/{if enc.testBit (n - 1) then "neg" else "nonneg"}", trivial := enc == 0 }
    | _ => throw s!"unknown op {op}"
  | _, _ => throw "arity"

/-! ### integer -/

/-- number of hexadecimal digits in a text (separators and the `0x` prefix excluded). -/
def hexNibbleCount (s : List Char) : Nat :=
  let r := UVerif.Text.dropSigns s
  ((r.drop 2).filter (fun c => c != '\'')).length

def signCount (s : List Char) : Nat := (s.takeWhile (fun c => c == '-' || c == '+')).length

def textInteger (lhs rhs : List String) : Except String LineResult := do
  match lhs, rhs with
  | [ns, bts, op, arg], [out] =>
    let some n := parseNat ns | throw "nbits"
    let some w := textBtWidth bts | throw "bt"
    let k := digitsInBlock10 w
    match op with
    | "dec" =>
      let some enc := parseHex arg | throw "enc"
      let m := integerToDecimalString n enc
      return { model := str m, specOk := out == decimalOfInt (integerVal n enc),
               reason := s!"the value is {decimalOfInt (integerVal n enc)}", tag := "integer/dec", trivial := enc == 0 }
    | "ostream" =>
      let some enc := parseHex arg | throw "enc"
      let m := match integerOstream n w enc with
        | some l => str l
        | none => "division-by-zero-not-modelled"
      return { model := m, specOk := out == decimalOfInt (integerVal n enc),
               reason := s!"the value is {decimalOfInt (integerVal n enc)}",
               tag := s!"integer/ostream/{if 10 ^ k ≥ 2 ^ n then "block10-needs-a-whole-block" else "block10-fits-nbits"}", trivial := enc == 0 }
    | "hexfmt" =>
      let some enc := parseHex arg | throw "enc"
      let m := integerToHex n enc
      let ok := readSignedHex out.toList == some (enc : Int)
      return { model := str m, specOk := ok, reason := "the text does not denote the encoding", tag := "integer/hexfmt" }
    | "roundtrip" | "rtdec" =>
      let some enc := parseHex arg | throw "enc"
      let txt := if op == "roundtrip" then integerToHex n enc else integerToDecimalString n enc
      let m := match integerParse n txt with
        | some v => toHex v
        | none => "fail"
      let ok := parseHex out == some enc
      let tag := if op == "roundtrip" then s!"integer/roundtrip/{if n % 8 != 0 && enc ≥ 2 ^ (8 * (n / 8)) then "partial-top-byte" else "whole-bytes"}" else s!"integer/{op}"
      return { model := m, specOk := ok, reason := "parse(text(x)) != x", tag := tag, trivial := enc == 0 }
    | "parsedec" | "parsehex" =>
      let s := arg.toList
      let m := match integerParse n s with
        | some v => toHex v
        | none => "fail"
      let form := integerForm s
      let want : Option Int := if op == "parsedec" then readSignedDecimal s else readSignedHex s
      match want with
      | none => return { model := m, tag := s!"integer/{op}/not-a-number-text", trivial := true }
      | some x =>
        let wantEnc := ofSigned n x
        let ok := parseHex out == some wantEnc
        let cls := if form == .octal then "text.integer.parse.leading_zero_taken_for_octal" else ""
        let region :=
          if op == "parsehex" then
            (if hexNibbleCount s ≥ 2 * ((n + 7) / 8) then "/full-width" else "/short") ++
            (if n % 8 != 0 && wantEnc ≥ 2 ^ (8 * (n / 8)) then "/partial-top-byte" else "")
          else ""
        return { model := m, specOk := ok, reason := s!"the text denotes {x}, i.e. encoding {toHex wantEnc}", cls := cls,
                 tag := s!"integer/{op}/{if signCount s == 0 then "unsigned" else if x < 0 then "negative" else "signed"}{region}" }
    | _ => throw s!"unknown op {op}"
  | _, _ => throw "arity"

/-! ### einteger / edecimal -/

def parseHexList : List String → Option (List Nat)
  | [] => some []
  | t :: ts => match parseHex t, parseHexList ts with
    | some v, some vs => some (v :: vs)
    | _, _ => none

def textEint (lhs rhs : List String) : Except String LineResult := do
  match lhs, rhs with
  | bts :: "dec" :: sg :: limbToks, [out] =>
    let some w := textBtWidth bts | throw "bt"
    let some limbs := parseHexList limbToks | throw "limbs"
    let neg := sg == "-"
    let m := eintOstream w neg limbs
    let x := eintVal w neg limbs
    return { model := str m, specOk := out == decimalOfInt x, reason := s!"the value is {x}",
             tag := s!"eint/dec/{bts}/limbs{min limbs.length 9}", trivial := limbs.all (· == 0) }
  | _, _ => throw "arity"

def int64OfHex (v : Nat) : Int := toSigned 64 v

/-- a text with redundant leading zeros or a negative zero: the decimal expansion of its value is a different text. -/
def decimalTextPadded (s : List Char) : Bool :=
  let body := match s with
    | '-' :: r => r
    | '+' :: r => r
    | r => r
  (body.length > 1 && body.head? == some '0') || (s.head? == some '-' && body.all (· == '0'))

def textEdec (lhs rhs : List String) : Except String LineResult := do
  match lhs, rhs with
  | ["ofu64", arg], [out] =>
    let some v := parseHex arg | throw "value"
    return { model := str (edecOfInt (v : Int)), specOk := out == decimalOfInt (v : Int), reason := s!"the value is {v}", tag := "edec/ofu64", trivial := v == 0 }
  | ["ofi64", arg], [out] =>
    let some v := parseHex arg | throw "value"
    let x := int64OfHex v
    return { model := str (edecOfInt x), specOk := out == decimalOfInt x, reason := s!"the value is {x}", tag := "edec/ofi64", trivial := v == 0 }
  | ["parse", arg], [out] =>
    let s := arg.toList
    let m := match edecParsePrint false s with
      | some l => str l
      | none => "fail"
    match readSignedDecimal s with
    | some x =>
      return { model := m, specOk := out == decimalOfInt x, reason := s!"the value is {x}",
               tag := s!"edec/parse{if decimalTextPadded s then "/padded" else ""}" }
    | none => return { model := m, tag := "edec/parse/not-a-number-text", trivial := true }
  | ["reparse", first, arg], [out] =>
    let s := arg.toList
    let neg0 := first.toList.head? == some '-'
    let m := match edecParsePrint neg0 s with
      | some l => str l
      | none => "fail"
    match readSignedDecimal s with
    | some x =>
      return { model := m, specOk := out == decimalOfInt x, reason := s!"the value is {x}",
               tag := s!"edec/reparse{if neg0 && s.head? != some '-' then "/after-negative" else ""}{if decimalTextPadded s then "/padded" else ""}" }
    | none => return { model := m, tag := "edec/reparse/not-a-number-text", trivial := true }
  | _, _ => throw "arity"

def textHandler : Handler := fun lhs rhs =>
  match lhs with
  | "posit" :: rest => textPosit rest rhs
  | "cfloat" :: rest => textCfloat rest rhs
  | "fixpnt" :: rest => textFixpnt rest rhs
  | "integer" :: rest => textInteger rest rhs
  | "eint" :: rest => textEint rest rhs
  | "edec" :: rest => textEdec rest rhs
  | fam :: _ => throw s!"unknown text family {fam}"
  | [] => throw "arity"

end UVerif.Driver
