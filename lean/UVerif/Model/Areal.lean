/-
  UVerif.Model.Areal — areal<nbits,es,bt>::operator=(float), operator=(double) and to_native as written in
  include/universal/number/areal/areal_impl.hpp, line by line (uint32 / uint64 arithmetic made explicit as `% 2^32`,
  `% 2^64`; the limb store `_block[MSU] = bt(bits)` / `copyBits(bits)` as truncation to the blocks that are written).
-/
import UVerif.Basic
import UVerif.Model.IeeeBits

namespace UVerif.Areal.Model
open UVerif UVerif.IeeeBits

structure Cfg where
  nbits : Nat
  es    : Nat
  w     : Nat        -- bitsInBlock
deriving Repr

def Cfg.fbits (c : Cfg) : Nat := c.nbits - 2 - c.es
def Cfg.nrBlocks (c : Cfg) : Nat := 1 + (c.nbits - 1) / c.w
def Cfg.EXP_BIAS (c : Cfg) : Int := (2 ^ (c.es - 1) : Nat) - 1
def Cfg.MAX_EXP (c : Cfg) : Int := (2 ^ c.es : Nat) - c.EXP_BIAS
def Cfg.MIN_EXP_NORMAL (c : Cfg) : Int := 1 - c.EXP_BIAS
def Cfg.MIN_EXP_SUBNORMAL (c : Cfg) : Int := 1 - c.EXP_BIAS - (c.fbits : Int)

/-- native/subnormal.hpp `subnormal_reciprocal_shift[es]` (es = 1 … 20) -/
def subnormalReciprocalShift (es : Nat) : Int :=
  match es with
  | 0 => 0
  | 1 => -1
  | k + 2 => (2 ^ (k + 1) : Nat) - 2

def setnanSignalling (c : Cfg) : Nat := 2 ^ c.nbits - 1
def setnanQuiet (c : Cfg) : Nat := 2 ^ (c.nbits - 1) - 1
def setinf (c : Cfg) (s : Bool) : Nat := if s then 2 ^ c.nbits - 2 else 2 ^ (c.nbits - 1) - 2
def maxpos (c : Cfg) : Nat := 2 ^ (c.nbits - 1) - 4      -- clear; flip; reset sign, bit 0, bit 1
def maxneg (c : Cfg) : Nat := 2 ^ c.nbits - 4            -- clear; flip; reset bit 0, bit 1
def signBit (c : Cfg) : Nat := 2 ^ (c.nbits - 1)

/-- `_block[MSU] = bt(bits)` (one block) or `copyBits(bits)` (min(blocksRequired, nrBlocks) blocks of the argument) -/
def store (c : Cfg) (argBits : Nat) (bits : Nat) : Nat :=
  if c.nrBlocks = 1 then bits % 2 ^ c.w
  else
    let blocksRequired := (argBits + 1) / c.w
    let k := min blocksRequired c.nrBlocks
    bits % 2 ^ (k * c.w)

/-- shift count computed in `unsigned` arithmetic: fbits + exponent + shift + 1 (mod 2^32) -/
def maskShift (c : Cfg) (exponent : Int) : Nat :=
  (((c.fbits : Int) + exponent + subnormalReciprocalShift c.es + 1) % (2 ^ 32 : Nat)).toNat

/-- x >> k on a W-bit unsigned where the hardware masks nothing: counts ≥ W are undefined in C++; the harness
    never produces them for the configurations it runs (checked by the model-vs-implementation comparison). -/
def shr (x k : Nat) : Nat := x >>> k

/-- the common body of both assignment operators.
    srcF = 23 | 52 fraction bits, srcBias = 127 | 1023, W = 32 | 64 (width of `bits`). -/
def assignCore (c : Cfg) (srcF srcBias W : Nat) (subnormalSrcImplemented : Bool)
    (s : Bool) (raw_exp raw0 : Nat) : Nat :=
  let fbits := c.fbits
  let exponent : Int := (raw_exp : Int) - (srcBias : Int)
  if exponent > c.MAX_EXP then
    (if s then maxneg c else maxpos c) ||| 1
  else if exponent < c.MIN_EXP_SUBNORMAL then
    (if s then signBit c else 0) ||| 1
  else
    let shiftRight : Int := (srcF : Int) - (fbits : Int) - 1
    let fracMask := 2 ^ srcF - 1
    let hfMask := 2 ^ (srcF + 1) - 1
    -- (biasedExponent, raw, ubit)
    let (biasedExponent, raw, ubit) : Nat × Nat × Bool :=
      if exponent ≥ c.MIN_EXP_SUBNORMAL && exponent < c.MIN_EXP_NORMAL then
        if exponent > -(srcBias : Int) then
          -- normal source, subnormal target: make the hidden bit explicit
          let raw := raw0 ||| 2 ^ srcF
          let mask := shr hfMask (maskShift c exponent)
          let adjustment : Int := -(exponent + subnormalReciprocalShift c.es)
          if shiftRight > 0 then (0, shr raw (shiftRight + adjustment).toNat, (mask &&& raw) != 0)
          else (0, raw, false)
        else
          -- subnormal source
          if subnormalSrcImplemented then
            let mask := shr hfMask (maskShift c exponent)
            let adjustment : Int := -(exponent + subnormalReciprocalShift c.es)
            if shiftRight > 0 then (0, shr raw0 (shiftRight + adjustment).toNat, (mask &&& raw0) != 0)
            else (0, raw0, false)
          else (0, raw0, false)        -- double: "conversion of subnormal IEEE doubles not implemented yet"
      else
        let be := (exponent + c.EXP_BIAS).toNat
        let mask := shr fracMask fbits
        if shiftRight > 0 then (be, shr raw0 shiftRight.toNat, (mask &&& raw0) != 0)
        else (be, raw0, false)
    -- construct the target
    let bits := if s then 1 else 0
    let bits := (bits <<< c.es) % 2 ^ W
    let bits := bits ||| (biasedExponent % 2 ^ W)
    let bits := (bits <<< (c.nbits - 1 - c.es)) % 2 ^ W
    let bits := bits ||| raw
    let bits := bits - bits % 2            -- bits &= ~1
    let bits := bits ||| (if ubit then 1 else 0)
    store c W bits

/-- `areal& operator=(float rhs)` on the bit pattern of rhs -/
def assignF32 (c : Cfg) (bc : Nat) : Nat :=
  let s := bc.testBit 31
  let raw_exp := (bc >>> 23) % 256
  let raw := bc % 2 ^ 23
  if raw_exp == 0xFF && raw == 1 then setnanSignalling c
  else if raw_exp == 0xFF && raw == 0x400000 then setnanQuiet c
  else if raw_exp == 0xFF && raw == 0 then setinf c s
  else if raw_exp == 0 && raw == 0 then (if s then signBit c else 0)      -- rhs == 0.0
  else assignCore c 23 127 32 true s raw_exp raw

/-- `areal& operator=(double rhs)` -/
def assignF64 (c : Cfg) (bc : Nat) : Nat :=
  let s := bc.testBit 63
  let raw_exp := (bc >>> 52) % 2048
  let raw := bc % 2 ^ 52
  if raw_exp == 0x7FF && raw == 1 then setnanSignalling c
  else if raw_exp == 0x7FF && raw == 0x8000000000000 then setnanQuiet c
  else if raw_exp == 0x7FF && raw == 0 then setinf c s
  else if raw_exp == 0 && raw == 0 then (if s then signBit c else 0)
  else assignCore c 52 1023 64 false s raw_exp raw

/-! ### to_native<TargetFloat> (areal_impl.hpp:1063-1108), for es ≤ 7 (the shifts are defined) -/

/-- product of two finite patterns, correctly rounded (hardware multiplication) -/
def fmul (f : Fmt) (a b : Nat) : Nat :=
  encodeRound f (signOf f a != signOf f b) (mant f a * mant f b) (ulpExp f a + ulpExp f b)

/-- the pattern of the integer power 2^k (|k| small enough to be a normal number of the format) -/
def pow2Bits (f : Fmt) (k : Int) : Nat := encodeRound f false 1 k

def oneBits (f : Fmt) : Nat := pow2Bits f 0

/-- the loop `for i = fbits … 1: f += at(i) ? fbit : 0; fbit *= 0.5` -/
def fracLoop (f : Fmt) (b : Nat) : Nat → Nat → Nat → Nat
  | 0, acc, _ => acc
  | i + 1, acc, fbit =>
    let acc := if b.testBit (i + 1) then add f acc fbit else add f acc 0
    fracLoop f b i acc (fmul f fbit (pow2Bits f (-1)))

def toNative (c : Cfg) (f : Fmt) (b : Nat) : Nat :=
  let sgn := b.testBit (c.nbits - 1)
  let mag := b % 2 ^ (c.nbits - 1)
  let negBit := 2 ^ (f.ebits + f.fbits)
  if mag == 0 then (if sgn then negBit else 0)
  else if mag == 2 ^ (c.nbits - 1) - 1 then
    -- signaling_NaN / quiet_NaN of the target type (libstdc++ on x86-64)
    f.eAll * 2 ^ f.fbits + (if sgn then 2 ^ (f.fbits - 2) else 2 ^ (f.fbits - 1))
  else if mag == 2 ^ (c.nbits - 1) - 2 then infBits f sgn
  else
    let fr := fracLoop f b c.fbits 0 (pow2Bits f (-1))
    let e := (b >>> (1 + c.fbits)) % 2 ^ c.es
    let v :=
      if e == 0 then fmul f (pow2Bits f (2 - ((2 ^ (c.es - 1) : Nat) : Int))) fr     -- subnormal_exponent[es] * f
      else
        let exponent : Int := (e : Int) + 1 - ((2 ^ (c.es - 1) : Nat) : Int)
        fmul f (pow2Bits f exponent) (add f (oneBits f) fr)
    if sgn then negate f v else v

end UVerif.Areal.Model
