/-
  UVerif.Model.Areal — areal<nbits,es,bt>::operator=(float), operator=(double) and to_native as written in
  include/universal/number/areal/areal_impl.hpp (after the repairs of D13: `exponent >= MAX_EXP`, every NaN payload,
  top-binade all-ones saturation, normalisation of subnormal sources, left shift for targets wider than the source), line by line (uint32 / uint64 arithmetic made explicit as `% 2^32`,
  `% 2^64`; the limb store `_block[MSU] = bt(bits)` / `copyBits(bits)` as truncation to the blocks that are written).
-/
import UVerif.Basic
import UVerif.Model.IeeeBits

namespace UVerif.Areal.Model
open UVerif UVerif.IeeeBits

structure Cfg where
  nbits : Nat
  es    : Nat
  w     : Nat        -- bitsInBlock
deriving Repr

def Cfg.fbits (c : Cfg) : Nat := c.nbits - 2 - c.es
def Cfg.nrBlocks (c : Cfg) : Nat := 1 + (c.nbits - 1) / c.w
def Cfg.EXP_BIAS (c : Cfg) : Int := (2 ^ (c.es - 1) : Nat) - 1
def Cfg.MAX_EXP (c : Cfg) : Int := (2 ^ c.es : Nat) - c.EXP_BIAS
def Cfg.MIN_EXP_NORMAL (c : Cfg) : Int := 1 - c.EXP_BIAS
def Cfg.MIN_EXP_SUBNORMAL (c : Cfg) : Int := 1 - c.EXP_BIAS - (c.fbits : Int)

/-- native/subnormal.hpp `subnormal_reciprocal_shift[es]` (es = 1 … 20) -/
def subnormalReciprocalShift (es : Nat) : Int :=
  match es with
  | 0 => 0
  | 1 => -1
  | k + 2 => (2 ^ (k + 1) : Nat) - 2

def setnanSignalling (c : Cfg) : Nat := 2 ^ c.nbits - 1
def setnanQuiet (c : Cfg) : Nat := 2 ^ (c.nbits - 1) - 1
def setinf (c : Cfg) (s : Bool) : Nat := if s then 2 ^ c.nbits - 2 else 2 ^ (c.nbits - 1) - 2
def maxpos (c : Cfg) : Nat := 2 ^ (c.nbits - 1) - 4      -- clear; flip; reset sign, bit 0, bit 1
def maxneg (c : Cfg) : Nat := 2 ^ c.nbits - 4            -- clear; flip; reset bit 0, bit 1
def signBit (c : Cfg) : Nat := 2 ^ (c.nbits - 1)

/-- `_block[MSU] = bt(bits)` (one block) or `copyBits(bits)` (min(blocksRequired, nrBlocks) blocks of the argument) -/
def store (c : Cfg) (argBits : Nat) (bits : Nat) : Nat :=
  if c.nrBlocks = 1 then bits % 2 ^ c.w
  else
    let blocksRequired := (argBits + 1) / c.w
    let k := min blocksRequired c.nrBlocks
    bits % 2 ^ (k * c.w)

/-- shift count computed in `unsigned` arithmetic: fbits + exponent + shift + 1 (mod 2^32) -/
def maskShift (c : Cfg) (exponent : Int) : Nat :=
  (((c.fbits : Int) + exponent + subnormalReciprocalShift c.es + 1) % (2 ^ 32 : Nat)).toNat

/-- x >> k on a W-bit unsigned where the hardware masks nothing: counts ≥ W are undefined in C++; the harness
    never produces them for the configurations it runs (checked by the model-vs-implementation comparison). -/
def shr (x k : Nat) : Nat := x >>> k

/-- `raw <<= k` on a W-bit unsigned -/
def shl (W x k : Nat) : Nat := (x <<< k) % 2 ^ W

/-- the construction of the target: `bits = s; bits <<= es; bits |= biasedExponent; bits <<= nbits-1-es; bits |= raw;
    bits &= ~1; bits |= ubit` on a W-bit unsigned, then the limb store -/
def assemble (c : Cfg) (W : Nat) (s : Bool) (biasedExponent raw : Nat) (ubit : Bool) : Nat :=
  let bits := if s then 1 else 0
  let bits := (bits <<< c.es) % 2 ^ W
  let bits := bits ||| (biasedExponent % 2 ^ W)
  let bits := (bits <<< (c.nbits - 1 - c.es)) % 2 ^ W
  let bits := bits ||| raw
  let bits := bits - bits % 2            -- bits &= ~1
  let bits := bits ||| (if ubit then 1 else 0)
  store c W bits

/-- subnormal sources (exponent field 0, fraction ≠ 0) are normalised first:
    `shift = srcF+1 - find_msb(raw); raw = (raw << shift) & fracMask; exponent = 1 - srcBias - shift`;
    returns (unbiased exponent, fraction without the hidden bit). -/
def normalizeSrc (srcF srcBias raw_exp raw : Nat) : Int × Nat :=
  if raw_exp == 0 then
    let shift := srcF + 1 - (raw.log2 + 1)          -- find_msb(raw) = log2 raw + 1 for raw ≠ 0
    (1 - (srcBias : Int) - (shift : Int), (raw <<< shift) % 2 ^ srcF)
  else ((raw_exp : Int) - (srcBias : Int), raw)

/-- fraction processing of the subnormal-target branch: the hidden bit is made explicit, then
    `if (shiftRight + adjustment >= 0) { ubit = (mask & raw) != 0; raw >>= shiftRight + adjustment; } else raw <<= -(…)`;
    returns (raw, ubit) -/
def subPair (c : Cfg) (srcF W : Nat) (exponent : Int) (raw0 : Nat) : Nat × Bool :=
  let shiftRight : Int := (srcF : Int) - (c.fbits : Int) - 1
  let hfMask := 2 ^ (srcF + 1) - 1
  let raw := raw0 ||| 2 ^ srcF
  let mask := shr hfMask (maskShift c exponent)
  let adjustment : Int := -(exponent + subnormalReciprocalShift c.es)
  let rs : Int := shiftRight + adjustment
  if rs ≥ 0 then (shr raw rs.toNat, (mask &&& raw) != 0)
  else (shl W raw (-rs).toNat, false)

/-- fraction processing of the normal-target branch:
    `if (shiftRight >= 0) { ubit = (mask & raw) != 0; raw >>= shiftRight; } else raw <<= -shiftRight` -/
def normalPair (c : Cfg) (srcF W : Nat) (raw0 : Nat) : Nat × Bool :=
  let shiftRight : Int := (srcF : Int) - (c.fbits : Int) - 1
  let fracMask := 2 ^ srcF - 1
  let mask := shr fracMask c.fbits
  if shiftRight ≥ 0 then (shr raw0 shiftRight.toNat, (mask &&& raw0) != 0)
  else (shl W raw0 (-shiftRight).toNat, false)

/-- the common body of both assignment operators on the normalised source (value (raw0 + 2^srcF)·2^(exponent-srcF)).
    srcF = 23 | 52 fraction bits, W = 32 | 64 (width of `raw` and `bits`). -/
def assignCore (c : Cfg) (srcF W : Nat) (s : Bool) (exponent : Int) (raw0 : Nat) : Nat :=
  if exponent ≥ c.MAX_EXP then
    (if s then maxneg c else maxpos c) ||| 1
  else if exponent < c.MIN_EXP_SUBNORMAL then
    (if s then signBit c else 0) ||| 1
  else
    if exponent ≥ c.MIN_EXP_SUBNORMAL && exponent < c.MIN_EXP_NORMAL then
      -- subnormal target
      let p := subPair c srcF W exponent raw0
      assemble c W s 0 p.1 p.2
    else
      let be := (exponent + c.EXP_BIAS).toNat
      let p := normalPair c srcF W raw0
      -- all exponent bits and all fraction bits set would be the inf / NaN encoding: saturate
      if exponent == c.MAX_EXP - 1 && p.1 >>> 1 == 2 ^ c.fbits - 1 then
        (if s then maxneg c else maxpos c) ||| 1
      else assemble c W s be p.1 p.2

/-- `areal& operator=(float rhs)` on the bit pattern of rhs -/
def assignF32 (c : Cfg) (bc : Nat) : Nat :=
  let s := bc.testBit 31
  let raw_exp := (bc >>> 23) % 256
  let raw := bc % 2 ^ 23
  if raw_exp == 0xFF && raw != 0 && raw &&& 0x400000 == 0 then setnanSignalling c
  else if raw_exp == 0xFF && raw &&& 0x400000 != 0 then setnanQuiet c
  else if raw_exp == 0xFF && raw == 0 then setinf c s
  else if raw_exp == 0 && raw == 0 then (if s then signBit c else 0)      -- rhs == 0.0
  else
    let (exponent, raw) := normalizeSrc 23 127 raw_exp raw
    assignCore c 23 32 s exponent raw

/-- `areal& operator=(double rhs)` -/
def assignF64 (c : Cfg) (bc : Nat) : Nat :=
  let s := bc.testBit 63
  let raw_exp := (bc >>> 52) % 2048
  let raw := bc % 2 ^ 52
  if raw_exp == 0x7FF && raw != 0 && raw &&& 0x8000000000000 == 0 then setnanSignalling c
  else if raw_exp == 0x7FF && raw &&& 0x8000000000000 != 0 then setnanQuiet c
  else if raw_exp == 0x7FF && raw == 0 then setinf c s
  else if raw_exp == 0 && raw == 0 then (if s then signBit c else 0)
  else
    let (exponent, raw) := normalizeSrc 52 1023 raw_exp raw
    assignCore c 52 64 s exponent raw

/-! ### to_native<TargetFloat>.  The factor 2^exponent is written at value level (`pow2Bits`): the code builds it as
    `TargetFloat(1ull << exponent)`, `1.0f / TargetFloat(1ull << -exponent)` for -64 < exponent < 64 (the lower bound is the
    repair of the undefined shift for es ≥ 8) and as `ipow(exponent)` in double otherwise — all exact powers of two while
    2^exponent is a normal number of the format (double: es ≤ 10, float: es ≤ 7; the driver rejects other lines). -/

/-- product of two finite patterns, correctly rounded (hardware multiplication) -/
def fmul (f : Fmt) (a b : Nat) : Nat :=
  encodeRound f (signOf f a != signOf f b) (mant f a * mant f b) (ulpExp f a + ulpExp f b)

/-- the pattern of the integer power 2^k (|k| small enough to be a normal number of the format) -/
def pow2Bits (f : Fmt) (k : Int) : Nat := encodeRound f false 1 k

def oneBits (f : Fmt) : Nat := pow2Bits f 0

/-- the loop `for i = fbits … 1: f += at(i) ? fbit : 0; fbit *= 0.5` -/
def fracLoop (f : Fmt) (b : Nat) : Nat → Nat → Nat → Nat
  | 0, acc, _ => acc
  | i + 1, acc, fbit =>
    let acc := if b.testBit (i + 1) then add f acc fbit else add f acc 0
    fracLoop f b i acc (fmul f fbit (pow2Bits f (-1)))

def toNative (c : Cfg) (f : Fmt) (b : Nat) : Nat :=
  let sgn := b.testBit (c.nbits - 1)
  let mag := b % 2 ^ (c.nbits - 1)
  let negBit := 2 ^ (f.ebits + f.fbits)
  if mag == 0 then (if sgn then negBit else 0)
  else if mag == 2 ^ (c.nbits - 1) - 1 then
    -- signaling_NaN / quiet_NaN of the target type (libstdc++ on x86-64)
    f.eAll * 2 ^ f.fbits + (if sgn then 2 ^ (f.fbits - 2) else 2 ^ (f.fbits - 1))
  else if mag == 2 ^ (c.nbits - 1) - 2 then infBits f sgn
  else
    let fr := fracLoop f b c.fbits 0 (pow2Bits f (-1))
    let e := (b >>> (1 + c.fbits)) % 2 ^ c.es
    let v :=
      if e == 0 then fmul f (pow2Bits f (2 - ((2 ^ (c.es - 1) : Nat) : Int))) fr     -- subnormal_exponent[es] * f
      else
        let exponent : Int := (e : Int) + 1 - ((2 ^ (c.es - 1) : Nat) : Int)
        fmul f (pow2Bits f exponent) (add f (oneBits f) fr)
    if sgn then negate f v else v

end UVerif.Areal.Model
