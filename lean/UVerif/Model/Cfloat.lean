/-
  UVerif.Model.Cfloat — executable model of cfloat<nbits,es,bt,sub,sup,sat>
  (include/universal/number/cfloat/cfloat_impl.hpp, internal/blocktriple/blocktriple.hpp,
   internal/blocksignificant/blocksignificant.hpp, native/subnormal.hpp tables via UVerif.Generated).
  Transcribed branch by branch; bit loops are written as the shifts/masks they compute.
  The code is modelled AS IT IS, including
    D3  operator== compares blocks (so +0 != -0; the repair d3ba933 was withdrawn, a library test encodes the behaviour),
    D4  convert(): saturating configurations return the inf encoding when rounding lands on it,
    D5  convert(): blocktriples wider than 64 bits are truncated, not rounded, and not remapped,
    (D6, decrement carrying out of nbits, isminnegencoding() for > 4 blocks and increment / decrement on −0 and on
     the zero aliases were repaired in /repo: the model follows the repaired code)
  Encodings are canonical naturals < 2^nbits unless stated (inc/dec return the whole block storage).
-/
import UVerif.Basic
import UVerif.Spec.Cfloat
import UVerif.Generated.CfloatTables

namespace UVerif.Cfloat
open UVerif.Generated

/-! ### layout constants (cfloat_impl.hpp:325-356) -/
namespace Cfg
def maxExp (c : Cfg) : Int := if c.es = 1 then 1 else ((2 ^ c.es : Nat) : Int) - c.bias - 1
def minExpNormal (c : Cfg) : Int := 1 - c.bias
def minExpSubnormal (c : Cfg) : Int := 1 - c.bias - (c.fbits : Int)
/-- `subnormal_reciprocal_shift[es]` (regenerated from native/subnormal.hpp) -/
def srs (c : Cfg) : Int := subnormalReciprocalShift.getD c.es 0
def nrBlocks (c : Cfg) : Nat := 1 + (c.nbits - 1) / c.bt
def signMask (c : Cfg) : Nat := 2 ^ (c.nbits - 1)
end Cfg

/-! ### classification (iszero / isnan / isinf / issupernormal …, cfloat_impl.hpp:1474-1657) -/
def absBits (c : Cfg) (b : Nat) : Nat := b % 2 ^ (c.nbits - 1)
def isNanEnc (c : Cfg) (b : Nat) : Bool := absBits c b == 2 ^ (c.nbits - 1) - 1
def isInf (c : Cfg) (b : Nat) : Bool := absBits c b == 2 ^ (c.nbits - 1) - 2
def isZeroEnc (c : Cfg) (b : Nat) : Bool := absBits c b == 0
def isZero (c : Cfg) (b : Nat) : Bool := if c.sub then isZeroEnc c b else c.expOf b == 0
def isSuper (c : Cfg) (b : Nat) : Bool := c.expOf b == c.emax
def isNan (c : Cfg) (b : Nat) : Bool := if c.sup then isNanEnc c b else isSuper c b && !isInf c b
/-- `isnan(NAN_TYPE_SIGNALLING)` (signalling = sign bit set) / `isnan(NAN_TYPE_QUIET)` -/
def isNanT (c : Cfg) (b : Nat) (signalling : Bool) : Bool := isNan c b && (c.signOf b == signalling)
def isNormal (c : Cfg) (b : Nat) : Bool := isZeroEnc c b || (c.expOf b != 0 && c.expOf b != c.emax)
def isDenormal (c : Cfg) (b : Nat) : Bool := !isZeroEnc c b && c.expOf b == 0

def qnan (c : Cfg) : Nat := 2 ^ (c.nbits - 1) - 1
def snan (c : Cfg) : Nat := 2 ^ c.nbits - 1
def setNan (c : Cfg) (signalling : Bool) : Nat := if signalling then snan c else qnan c
def setInf (c : Cfg) (s : Bool) : Nat := signBit c s + (2 ^ (c.nbits - 1) - 2)
def setSign (c : Cfg) (b : Nat) (s : Bool) : Nat := absBits c b + signBit c s
def negate (c : Cfg) (b : Nat) : Nat := setSign c b (!c.signOf b)

/-- `maxpos()` (cfloat_impl.hpp:1231): the four flag cases -/
def maxposEnc (c : Cfg) : Nat :=
  let allpos := 2 ^ (c.nbits - 1) - 1
  if c.sat then (if c.sup then allpos - 1 else allpos - 2 ^ c.fbits)
  else (if c.sup then allpos - 2 else allpos - 2 ^ c.fbits)
def maxnegEnc (c : Cfg) : Nat := maxposEnc c + c.signMask
def minposEnc (c : Cfg) : Nat := if c.sub then 1 else 2 ^ c.fbits
def minnegEnc (c : Cfg) : Nat := minposEnc c + c.signMask

/-- `scale()` (cfloat_impl.hpp:1427): exponent field 0 ⇒ scale of the leading fraction bit (bit 0 is never
    tested, an all-zero fraction gives MIN_EXP_SUBNORMAL). -/
def scaleOf (c : Cfg) (b : Nat) : Int :=
  let e := c.expOf b
  if e = 0 then
    let f := c.fracOf b
    let p : Nat := if f ≥ 2 then Nat.log2 f else 0
    let gap : Int := ((c.fbits - 1 - p : Nat) : Int)
    (0 : Int) - c.bias - gap
  else (e : Int) - c.bias

/-! ### blocktriple -/
inductive Op where | add | mul | div
deriving Repr, DecidableEq

/-- `blocktriple<fbits,op>::radix` and `bfbits` -/
def Op.radix (o : Op) (fb : Nat) : Nat := match o with | .add => fb + 3 | .mul => 2 * fb | .div => 3 * fb + 4
def Op.bfbits (o : Op) (fb : Nat) : Nat := match o with | .add => fb + 6 | .mul => 2 * fb + 2 | .div => 3 * fb + 6

structure Triple where
  nan : Bool := false
  inf : Bool := false
  zero : Bool := true
  sign : Bool := false
  scale : Int := 0
  sig : Nat := 0
deriving Repr, DecidableEq

/-- the bits a cfloat hands to a blocktriple before the operator-specific shift: normals and supernormals
    get the hidden bit; a subnormal is shifted left so that its leading bit lands on the hidden position. -/
def sigBits (c : Cfg) (b : Nat) : Nat :=
  let f := c.fracOf b
  if c.expOf b = 0 then f <<< (c.minExpNormal - scaleOf c b).toNat
  else f ||| 2 ^ c.fbits

/-- `normalizeAddition / normalizeMultiplication / normalizeDivision` (cfloat_impl.hpp:1975-2178) for an
    operand that passed the operator prologue (not NaN, not inf, not zero). -/
def normalizeOp (c : Cfg) (o : Op) (b : Nat) : Triple :=
  let fb := c.fbits
  let s := sigBits c b
  let sig := match o with
    | .add => s <<< 3                               -- rbits = 3
    | .mul => s ||| (if c.expOf b = 0 then 2 ^ fb else 0)   -- `raw |= 1<<fbits` also on the subnormal path
    | .div => (s ||| (if c.expOf b = 0 then 2 ^ fb else 0)) <<< (2 * fb + 4)   -- divshift
  { zero := false, sign := c.signOf b, scale := scaleOf c b, sig := sig }

/-- `blocktriple::add` (blocktriple.hpp:436): align the smaller scale with sticky into bit 0, two's
    complement negative operands, add in bfbits bits, recover sign, renormalise 000.### . -/
def tripleAdd (fb : Nat) (l r : Triple) : Triple :=
  let w := Op.bfbits .add fb
  let d := l.scale - r.scale
  let ls := if d < 0 then stickyShr l.sig (-d).toNat else l.sig
  let rs := if d < 0 then r.sig else stickyShr r.sig d.toNat
  let lt := if l.sign then twosComp w ls else ls
  let rt := if r.sign then twosComp w rs else rs
  let sum := (lt + rt) % 2 ^ w
  if sum = 0 then {}
  else
    let neg := sum.testBit (w - 1)
    let m := if neg then twosComp w sum else sum
    let sc := max l.scale r.scale
    if !m.testBit (w - 2) && !m.testBit (w - 3) then
      let sh := w - 3 - Nat.log2 m
      { zero := false, sign := neg, scale := sc - sh, sig := (m <<< sh) % 2 ^ w }
    else { zero := false, sign := neg, scale := sc, sig := m }

/-- `blocktriple::mul`: exact product of the two significants, no normalisation needed for 1.f × 1.f -/
def tripleMul (fb : Nat) (l r : Triple) : Triple :=
  let w := Op.bfbits .mul fb
  let p := (l.sig * r.sig) % 2 ^ w
  if p = 0 then {}
  else
    let sc := l.scale + r.scale
    let sg := l.sign != r.sign
    if !p.testBit (w - 1) && !p.testBit (w - 2) then
      let sh := w - 3 - Nat.log2 p
      { zero := false, sign := sg, scale := sc - sh, sig := (p <<< sh) % 2 ^ w }
    else { zero := false, sign := sg, scale := sc, sig := p }

/-- `blocksignificant::div`: restoring long division; the divider is shifted right (and truncated) each step.
    `n` steps remaining, `i` the current step. -/
def divLoop (radix : Nat) : Nat → Nat → Nat → Nat → Nat → Nat
  | 0, _, _, _, q => q
  | n + 1, i, base, dv, q =>
    if dv ≤ base then divLoop radix n (i + 1) (base - dv) (dv >>> 1) (q ||| 2 ^ (radix - i))
    else divLoop radix n (i + 1) base (dv >>> 1) q

def tripleDiv (fb : Nat) (l r : Triple) : Triple :=
  let w := Op.bfbits .div fb
  let radix := Op.radix .div fb
  let steps := 2 * (radix / 2) + 1
  let q := divLoop radix steps 0 l.sig r.sig 0
  if q = 0 then {}
  else
    let sc := l.scale - r.scale
    let sg := l.sign != r.sign
    if !q.testBit (w - 1) && !q.testBit (w - 2) then
      let sh := w - 2 - Nat.log2 q
      { zero := false, sign := sg, scale := sc - sh, sig := (q <<< sh) % 2 ^ w }
    else { zero := false, sign := sg, scale := sc, sig := q }

/-- `significantscale()` -/
def sigScale (radix sig : Nat) : Nat :=
  let hi := sig >>> radix
  if hi = 0 then 0 else Nat.log2 hi

/-- `blocksignificant::roundingDirection(targetLsb)`: lsb/guard/round/sticky -/
def roundingDirection (sig t : Nat) : Bool :=
  let lsb := sig.testBit t
  let guard := t ≥ 1 && sig.testBit (t - 1)
  let round := t ≥ 2 && sig.testBit (t - 2)
  let sticky := t ≥ 3 && sig % 2 ^ (t - 2) != 0
  let tie := guard && !round && !sticky
  (lsb && tie) || (guard && !tie)

/-- the ≤ 64-bit tail of `convert` (cfloat_impl.hpp:221-269): shift, mask, round up, carry into the exponent,
    assemble, remap NaN encodings. -/
def assemble (c : Cfg) (sign : Bool) (biased : Nat) (sig t : Nat) : Nat :=
  let fb := c.fbits
  let roundup := roundingDirection sig t
  let fr0 := (sig >>> t) % 2 ^ fb
  let fr1 := if roundup then fr0 + 1 else fr0
  let (be, fr) :=
    if fr1 = 2 ^ fb then (if biased = c.emax then (biased, 2 ^ fb - 2) else (biased + 1, 0))
    else (biased, fr1)
  let raw := ((((if sign then 1 else 0) <<< c.es) ||| be) <<< fb ||| fr) % 2 ^ c.nbits
  if isNan c raw then
    (if c.sat then (if sign then maxnegEnc c else maxposEnc c) else setInf c sign)
  else raw

/-- the `bfbits ≥ 65` tail (cfloat_impl.hpp:270-295): shift, copy the blocks holding fraction bits, set sign,
    `setexponent` — no rounding, no remap (D5). -/
def assembleWide (c : Cfg) (sign : Bool) (exponent : Int) (sig t : Nat) : Nat :=
  let fb := c.fbits
  let copyBits := min ((1 + (fb - 1) / c.bt) * c.bt) (c.nrBlocks * c.bt)
  let body := (sig >>> t) % 2 ^ copyBits
  let low := body % 2 ^ fb
  let mid := (body >>> fb) % 2 ^ c.es          -- what the block copy left in the exponent field
  -- setexponent(exponent): refuses out-of-range scales, writes 0 in the subnormal range
  let field : Nat :=
    if exponent < c.minExpSubnormal ∨ exponent > c.maxExp then mid
    else if exponent < c.minExpNormal then 0 else (exponent + c.bias).toNat % 2 ^ c.es
  signBit c sign + (field <<< fb) + low

/-- `convert(blocktriple → cfloat)` for a finite non-zero triple (cfloat_impl.hpp:130-296). -/
def convertFinite (c : Cfg) (o : Op) (sign : Bool) (scale : Int) (sig : Nat) : Nat :=
  let fb := c.fbits
  let radix := o.radix fb
  let ss := sigScale radix sig
  let exponent : Int := scale + ss
  let shift : Nat := ss + radix - fb
  let zr := signBit c sign
  -- underflow
  if c.sub ∧ exponent < c.minExpSubnormal then
    if exponent = c.minExpSubnormal - 1 then
      let adj := (-(exponent + c.srs)).toNat
      if roundingDirection sig (shift + adj) then zr + 1 else zr
    else zr
  else if ¬ c.sub ∧ exponent + c.bias ≤ 0 then zr
  -- overflow
  else if exponent > c.maxExp then
    (if c.sat then (if sign then maxnegEnc c else maxposEnc c) else setInf c sign)
  else
    let subn := c.sub ∧ exponent < c.minExpNormal
    let biased : Nat := if subn then 0 else (if ¬ c.sub ∧ exponent < c.minExpNormal then 1 else (exponent + c.bias).toNat)
    let adj : Nat := if subn then (-(exponent + c.srs)).toNat else 0
    let t := shift + adj
    if o.bfbits fb < 65 then assemble c sign biased sig t
    else assembleWide c sign exponent sig t

def convertTriple (c : Cfg) (o : Op) (t : Triple) : Nat :=
  if t.nan then setNan c t.sign
  else if t.inf then setInf c t.sign
  else if t.zero then signBit c t.sign
  else convertFinite c o t.sign t.scale t.sig

/-! ### known-defect classes of the arithmetic operators (shared by the driver and by `C02_arith_partial`) -/

def absR (x : Rat) : Rat := if x < 0 then -x else x

/-- the operator reaches `convert` with this operand as a finite non-zero triple -/
def finiteNZ (c : Cfg) (a : Nat) : Bool := !isNan c a && !isInf c a && !isZero c a

def opOf (op : String) : Op := match op with | "mul" => .mul | "div" => .div | _ => .add

/-- known-defect class of an arithmetic line, decided on the inputs (the exact result comes from the operands):
    "" when none of the recorded findings of known_findings.json applies -/
def arithClass (c : Cfg) (op : String) (a b : Nat) (e : Expect) : String :=
  match e with
  | .real x =>
    if !(finiteNZ c a && finiteNZ c b) then "" else
    let X := absR x
    if (opOf op).bfbits c.fbits ≥ 65 && !exactlyRepresentable c X then "cfloat.convert.wide_path"
    else if c.sat && !c.sup && roundsToInfPattern c X then "cfloat.convert.sat_nosup_cusp"
    else if c.sat && c.sup && overflows c X then "cfloat.sat_sup.maxpos_is_inf"
    else ""
  | _ => ""

/-! ### operators (cfloat_impl.hpp:485-709) -/

def add (c : Cfg) (a b : Nat) : Nat :=
  if isNanT c a true || isNanT c b true then snan c
  else if isNanT c a false || isNanT c b false then qnan c
  else if isInf c a then (if isInf c b && c.signOf a != c.signOf b then snan c else a)
  else if isInf c b then b
  else if isZero c a then b
  else if isZero c b then a
  else convertTriple c .add (tripleAdd c.fbits (normalizeOp c .add a) (normalizeOp c .add b))

def sub (c : Cfg) (a b : Nat) : Nat :=
  if isNan c b then add c a b else add c a (negate c b)

def mul (c : Cfg) (a b : Nat) : Nat :=
  if isNanT c a true || isNanT c b true then snan c
  else if isNanT c a false || isNanT c b false then qnan c
  else
    let rs := c.signOf a != c.signOf b
    if isInf c a then (if isZero c b then qnan c else setSign c a rs)
    else if isInf c b then (if isZero c a then qnan c else setInf c rs)
    else if isZero c a || isZero c b then signBit c rs
    else convertTriple c .mul (tripleMul c.fbits (normalizeOp c .mul a) (normalizeOp c .mul b))

def div (c : Cfg) (a b : Nat) : Nat :=
  if isNanT c a true || isNanT c b true then snan c
  else if isNanT c a false || isNanT c b false then qnan c
  else
    let rs := c.signOf a != c.signOf b
    if isZero c b then (if isZero c a then qnan c else setInf c rs)
    else if isInf c a then (if isInf c b then qnan c else setSign c a rs)
    else if isInf c b then signBit c rs
    else if isZero c a then signBit c rs
    else convertTriple c .div (tripleDiv c.fbits (normalizeOp c .div a) (normalizeOp c .div b))

/-- the operator a transcript line / `C02_arith_partial` names -/
def arithOp (op : String) (c : Cfg) (a b : Nat) : Nat :=
  match op with
  | "add" => add c a b
  | "sub" => sub c a b
  | "mul" => mul c a b
  | _ => div c a b

/-! ### comparisons (cfloat_impl.hpp:3356-3422) -/

/-- `operator==`: NaN unequal to everything, otherwise block-wise equality (D3: +0 ≠ −0, and without subnormals the
    exponent-0 aliases of zero differ from each other). The repair d3ba933 was withdrawn — the library's own
    static/cfloat/logic/logic.cpp uses bit-pattern equality as its reference for == and != — so the model follows the
    block-wise code of branch `final` again and the finding cfloat.eq.bitwise_zero is recorded. -/
def eq (c : Cfg) (a b : Nat) : Bool :=
  if isNan c a || isNan c b then false else a == b

def lt (c : Cfg) (a b : Nat) : Bool :=
  if isNan c a || isNan c b then false
  else if isInf c a && isInf c b && c.signOf a == c.signOf b then false
  else if c.sub then
    let d := sub c a b
    !isZero c d && c.signOf d
  else
    if isZero c a && isZero c b then false
    else if c.signOf a && !c.signOf b then true
    else if !c.signOf a && c.signOf b then false
    else
      let pos := !c.signOf a
      let sa := scaleOf c a
      let sb := scaleOf c b
      if pos && sa < sb then true
      else if pos && sa > sb then false
      else if !pos && sa > sb then true
      else if !pos && sa < sb then false
      else if pos then c.fracOf a < c.fracOf b else c.fracOf a > c.fracOf b

def gt (c : Cfg) (a b : Nat) : Bool :=
  if isNan c a || isNan c b then false
  else if isInf c a && isInf c b && c.signOf a == c.signOf b then false
  else lt c b a
def le (c : Cfg) (a b : Nat) : Bool := if isNan c a || isNan c b then false else !gt c a b
def ge (c : Cfg) (a b : Nat) : Bool := if isNan c a || isNan c b then false else !lt c a b

/-! ### operator++ / operator-- (cfloat_impl.hpp:718-919). Input canonical; output = whole block storage. -/

/-- `setfraction(all ones)` -/
def setFracOnes (c : Cfg) (b : Nat) : Nat := b >>> c.fbits <<< c.fbits ||| (2 ^ c.fbits - 1)

/-- `isminnegencoding()` — the multi-block variants; the single-block variant is not used by ++.
    More than four blocks: block 0 is 1, the middle blocks 1 … nrBlocks−2 are zero (all of them since the repair
    "isminnegencoding() must compare every middle block"), the top block is the sign bit. -/
def isMinNegEnc (c : Cfg) (b : Nat) : Bool :=
  let n := c.nrBlocks
  let B := c.bt
  let blk (i : Nat) : Nat := (b >>> (i * B)) % 2 ^ B
  let signBlk := 2 ^ ((c.nbits - 1) % B)
  if n ≤ 4 then b == c.signMask + 1
  else blk 0 == 1 && (List.range (n - 2)).all (fun j => blk (j + 1) == 0) && blk (n - 1) == signBlk

/-- `if (iszero()) setzero();` — the first statement of operator++ and operator-- since the repair "must step from
    every encoding of zero as they do from +0": −0 and, without subnormals, every exponent-0 pattern become +0 -/
def stepStart (c : Cfg) (a : Nat) : Nat := if isZero c a then 0 else a

def incr (c : Cfg) (a0 : Nat) : Nat :=
  let a := stepStart c a0
  let B := c.bt
  let store := 2 ^ (c.nrBlocks * B)
  let sgn := c.signMask
  if c.nrBlocks = 1 then
    if c.signOf a then
      let b1 := if a == sgn + 1 then 0 else (a + store - 1) % store
      if !c.sub && isDenormal c (b1 % 2 ^ c.nbits) then 0 else b1
    else
      let b0 := if !c.sub && a == 0 then setFracOnes c a else a
      if b0 % 2 ^ (c.nbits - 1) == 2 ^ (c.nbits - 1) - 1 then b0 ||| sgn else (b0 + 1) % store
  else
    if c.signOf a then
      if isMinNegEnc c a then 0
      else
        let b1 := (a + store - 1) % store
        if !c.sub && isDenormal c (b1 % 2 ^ c.nbits) then 0 else b1
    else
      if isNanEnc c a then snan c
      else
        let b0 := if !c.sub && isZero c a then setFracOnes c a else a
        (b0 + 1) % store

def decr (c : Cfg) (a0 : Nat) : Nat :=
  let a := stepStart c a0
  let B := c.bt
  let store := 2 ^ (c.nrBlocks * B)
  let sgn := c.signMask
  if c.nrBlocks = 1 then
    -- `++_block[MSU]; _block[MSU] &= MSU_MASK;` (the mask since the repair of D6)
    if c.signOf a then (a + 1) % store % 2 ^ c.nbits
    else
      let b1 :=
        if a == 0 then
          (if c.sub then sgn ||| 1 else ((setFracOnes c a + 1) % store) ||| sgn)
        else a - 1
      if !c.sub && isDenormal c (b1 % 2 ^ c.nbits) then 0 else b1
  else
    if c.signOf a then
      -- ripple carry through the lower blocks, then `++_block[MSU]` in block arithmetic, `&= MSU_MASK` (repair of D6)
      let low := 2 ^ ((c.nrBlocks - 1) * B)
      let lo := a % low
      let hi := a / low
      if lo + 1 < low then a + 1 else ((hi + 1) % 2 ^ B % 2 ^ (c.nbits - (c.nrBlocks - 1) * B)) * low
    else
      if isZeroEnc c a then
        (if c.sub then sgn + 1 else sgn + 2 ^ c.fbits)
      else
        let b1 := a - 1
        if !c.sub && isDenormal c b1 then 0 else b1

/-! ### to_native (cfloat_impl.hpp:1836-1906): every step is exact when the target type holds the value,
    so the model returns the exact value and the driver encodes it in the target IEEE format. -/
def toNative (c : Cfg) (b : Nat) : Val :=
  let s := c.signOf b
  if isZero c b then .fin s 0
  else if isNan c b then .nan s
  else if isInf c b then .inf s
  else
    let f : Rat := (c.fracOf b : Rat) / ((2 ^ c.fbits : Nat) : Rat)
    let e := c.expOf b
    if c.sub ∧ e = 0 then
      let (m, k) := subnormalExponent.getD c.es (0, 0)
      .fin s (dyadic m k * f)
    else if ¬ c.sup ∧ e = c.emax then .nan false
    else .fin s (pow2 ((e : Int) - c.bias) * (1 + f))

/-- round a rational to the IEEE format (eb, fb): RNE, overflow to infinity -/
def rndIeee (eb fb : Nat) (x : Rat) : Val :=
  ieeeVal eb fb (ieeeEncode eb fb (.fin (decide (x < 0)) (if x < 0 then -x else x)))

def valToRat : Val → Rat
  | .fin s m => if s then -m else m
  | _ => 0

/-- `to_native<TargetFloat>` computed IN the target precision (eb, fb), step by step as the code does: the
    fraction is accumulated bit by bit (each partial sum rounded), then 1 + f and the product with the power of
    two are rounded; exponents outside (−64, 64) go through double `ipow`. For targets that hold the
    configuration every step is exact and this coincides with `toNative`; `to_int()` / `to_long_long()` use it with
    double (`to_int()` went through float before the repair "to_int() must not round the value to float"). -/
def toNativeIn (c : Cfg) (eb fb : Nat) (b : Nat) : Val :=
  let s := c.signOf b
  if isZero c b then .fin s 0
  else if isNan c b then .nan s
  else if isInf c b then .inf s
  else
    let rnd (x : Rat) : Rat := valToRat (rndIeee eb fb x)
    let f : Rat := (List.range c.fbits).foldl (fun acc k =>
        -- k-th step: bit index fbits-1-k with weight 2^-(k+1)
        if (c.fracOf b).testBit (c.fbits - 1 - k) then rnd (acc + pow2 (-((k : Int) + 1))) else acc) 0
    let e := c.expOf b
    let sgn (v : Val) : Val := match v with
      | .fin _ m => .fin s m
      | .inf _ => .inf s
      | v => v
    if c.sub ∧ e = 0 then
      let (m, k) := subnormalExponent.getD c.es (0, 0)
      sgn (rndIeee eb fb (rnd (dyadic m k) * f))
    else if ¬ c.sup ∧ e = c.emax then .nan false
    else
      let ex : Int := (e : Int) - c.bias
      if -64 < ex ∧ ex < 64 then sgn (rndIeee eb fb (rnd (pow2 ex) * rnd (1 + f)))
      else sgn (rndIeee eb fb (valToRat (rndIeee 11 52 (pow2 ex * valToRat (rndIeee 11 52 (1 + f))))))

/-- `ipow(exponent)` — a `double`: 2^e for −1074 ≤ e ≤ 1023 (exponentiation by squaring of 2.0 / 0.5, every product a
    power of two), 0 below, +∞ (`none`) above -/
def ipowDouble (e : Int) : Option Rat :=
  if e > 1023 then none else if e < -1074 then some 0 else some (pow2 e)

/-- `to_native<long double>` (x86-64: 15 exponent bits, 64-bit significand = 63 fraction bits), computed step by step in
    that precision as the code does: the fraction bit by bit, `1 + f` (rounds when fbits ≥ 64), the power of two built
    from `1ull << |e|` for |e| < 64 and **through the `double` function `ipow` otherwise** (0 below 2^−1074, ∞ above
    2^1023 — configurations with es > 11 leave that range), subnormal encodings through the `double` table
    `subnormal_exponent[es]` (0.0 for es ≥ 12: every subnormal of such a configuration reads back as ±0). -/
def toNativeLD (c : Cfg) (b : Nat) : Val :=
  let eb := 15
  let fbn := 63
  let s := c.signOf b
  if isZero c b then .fin s 0
  else if isNan c b then .nan s
  else if isInf c b then .inf s
  else
    let rnd (x : Rat) : Rat := valToRat (rndIeee eb fbn x)
    -- sums of distinct powers 2^-1 … 2^-64 are long doubles: the partial sums only round for fbits > 64
    let f : Rat :=
      if c.fbits ≤ 64 then (c.fracOf b : Rat) / ((2 ^ c.fbits : Nat) : Rat)
      else (List.range c.fbits).foldl (fun acc k =>
        if (c.fracOf b).testBit (c.fbits - 1 - k) then rnd (acc + rnd (pow2 (-((k : Int) + 1)))) else acc) 0
    let e := c.expOf b
    let sgn (v : Val) : Val := match v with
      | .fin _ m => .fin s m
      | .inf _ => .inf s
      | v => v
    if c.sub ∧ e = 0 then
      let (m, k) := subnormalExponent.getD c.es (0, 0)
      sgn (rndIeee eb fbn (dyadic m k * f))
    else if ¬ c.sup ∧ e = c.emax then .nan false
    else
      let ex : Int := (e : Int) - c.bias
      if -64 < ex ∧ ex < 64 then sgn (rndIeee eb fbn (pow2 ex * rnd (1 + f)))
      else match ipowDouble ex with
        | none => .inf s
        | some p => sgn (rndIeee eb fbn (p * rnd (1 + f)))

/-! ### conversion from native IEEE-754 (convert_ieee754, cfloat_impl.hpp:2346-2822) -/

/-- post-processing of convert_ieee754 (cfloat_impl.hpp:2804-2819) -/
def postProcess (c : Cfg) (b : Nat) : Nat :=
  if c.sat then
    if (isInf c b && !c.signOf b) || isNanT c b false then maxposEnc c
    else if (isInf c b && c.signOf b) || isNanT c b true then maxnegEnc c
    else b
  else
    if isNanT c b false then setInf c false
    else if isNanT c b true then setInf c true
    else b

/-- NaN / infinity recognition of convert_ieee754 (cfloat_impl.hpp:2441-2466): the three NaN fraction patterns built
    from `ieee754_parameter<Real>::qnanmask/snanmask`, infinity, and (since the repair "must convert a NaN with any
    payload to a NaN") every other fraction: quiet when `rawFraction & fmask & qnanmask` is non-zero, else signalling -/
def ieeeSpecial (c : Cfg) (seb sfb : Nat) (qmask smask : Nat) (bits : Nat) : Option Nat :=
  let s := bits.testBit (seb + sfb)
  let rawExp := (bits >>> sfb) % 2 ^ seb
  let rawFrac := bits % 2 ^ sfb
  let fmask := 2 ^ sfb - 1
  if rawExp = 2 ^ seb - 1 then
    if rawFrac = (fmask &&& smask) ∨ rawFrac = (fmask &&& (qmask ||| smask)) then some (snan c)
    else if rawFrac = (fmask &&& qmask) then some (qnan c)
    else if rawFrac = 0 then some (setInf c s)
    else some (if rawFrac &&& (fmask &&& qmask) ≠ 0 then qnan c else snan c)
  else none

/-- source format: `seb` exponent bits, `sfb` fraction bits, NaN-recognition masks from ieee754_parameter -/
def fromIeee (c : Cfg) (seb sfb : Nat) (qmask smask : Nat) (bits : Nat) : Nat :=
  let fb := c.fbits
  let s := bits.testBit (seb + sfb)
  let rawExp := (bits >>> sfb) % 2 ^ seb
  let rawFrac := bits % 2 ^ sfb
  let sbias : Int := (2 ^ (seb - 1) : Nat) - 1
  let special : Option Nat := ieeeSpecial c seb sfb qmask smask bits
  match special with
  | some r => r
  | none =>
  if c.nbits = 1 + seb + sfb ∧ c.es = seb then
    -- identical layout: the bits are copied (cfloat<32,8> from float, cfloat<64,11> from double)
    (signBit c s + (rawExp <<< fb) + rawFrac) % 2 ^ c.nbits
  else if rawExp = 0 ∧ rawFrac = 0 then signBit c s
  else
    let exponent : Int := (rawExp : Int) - sbias
    if exponent > c.maxExp then
      (if c.sat then (if s then maxnegEnc c else maxposEnc c) else setInf c s)
    else if c.sub ∧ exponent < c.minExpSubnormal - 1 then signBit c s
    else if ¬ c.sub ∧ exponent < c.minExpNormal then signBit c s
    else if fb < sfb then
      let rightShift := sfb - fb
      if rawExp ≠ 0 then
        let subn := exponent < c.minExpNormal
        let frac := if subn then rawFrac ||| 2 ^ sfb else rawFrac
        let biased : Nat := if subn then 0 else (exponent + c.bias).toNat
        let adj : Nat := if subn then (-(exponent + c.srs)).toNat else 0
        let t := rightShift + adj
        let lsb := frac.testBit t
        let guard := frac.testBit (t - 1)
        let round := t ≥ 2 && frac.testBit (t - 2)
        let sticky := t ≥ 2 && frac % 2 ^ (t - 2) != 0
        let fr0 := frac >>> t
        let fr1 := if guard then
            (if lsb && !round && !sticky then fr0 + 1 else fr0) + (if round || sticky then 1 else 0)
          else fr0
        let (be, fr) :=
          if guard ∧ fr1 = 2 ^ fb then (if biased = c.emax then (biased, 2 ^ fb - 2) else (biased + 1, 0))
          else (biased, fr1)
        let raw := ((((if s then 1 else 0) <<< c.es) ||| be) <<< fb ||| fr) % 2 ^ c.nbits
        postProcess c raw
      else
        -- the source is a subnormal: "TBD" in the code, the cleared value (+0) is returned
        postProcess c 0
    else
      let biased : Nat := (exponent + c.bias).toNat
      if rawExp ≠ 0 then
        let raw := ((((if s then 1 else 0) <<< c.es) ||| biased) <<< fb ||| (rawFrac <<< (fb - sfb))) % 2 ^ c.nbits
        postProcess c raw
      else postProcess c 0

/-- `convert_ieee754<long double>` on x86-64 (gcc). The transcript form of the source is sign | 15 exponent bits | 63
    fraction bits: exactly the fields `extractFields(long double, …)` reads through `long_double_decoder`
    (`parts.fraction : 63`, `parts.bit63 : 1` — the explicit integer bit, never read —, `parts.exponent : 15`, `parts.sign`);
    there is NO detour through double in this build (`LONG_DOUBLE_DOWNCAST` is only defined when bit_cast is not constexpr).
    What differs from the float/double instantiations (`fromIeee`):
    * sizeof(long double) = 16: neither identical-layout copy branch is taken;
    * `ieee754_parameter<long double>::hmask / qnanmask / snanmask` are parameters (regenerated from the header: since the
      repairs 0x8000'0000'0000'0000 — the integer bit —, 0x4000… — the quiet bit of the 63-bit fraction — and 0x2000…);
    * in the subnormal range the shift `rightShift + adjustment` reaches 64 at exponent MIN_EXP_SUBNORMAL − 1 (for float /
      double it stays below the width): since the repair "must not shift by 64" the lsb mask is 0, the guard mask bit 63
      and the shifted fraction 0 there;
    * `bits` is a uint64_t: requires nbits ≤ 64 on the narrowing path (fbits < 63);
    * fbits ≥ 63 implies nbits ≥ 65: the block path (`setbits(biasedExponent); shiftLeft(fbits);` fraction blocks
      shifted by fbits − 63 and or-ed in, `&= MSU_MASK`, `setsign`), `biasedExponent` = exponent + bias as a uint64_t —
      it wraps for exponents below the target's normal range (no subnormal handling on this path). -/
def fromLD (c : Cfg) (qmask smask hmask : Nat) (bits : Nat) : Nat :=
  let seb := 15
  let sfb := 63
  let fb := c.fbits
  let s := bits.testBit (seb + sfb)
  let rawExp := (bits >>> sfb) % 2 ^ seb
  let rawFrac := bits % 2 ^ sfb
  let sbias : Int := (2 ^ (seb - 1) : Nat) - 1
  match ieeeSpecial c seb sfb qmask smask bits with
  | some r => r
  | none =>
  if rawExp = 0 ∧ rawFrac = 0 then signBit c s
  else
    let exponent : Int := (rawExp : Int) - sbias
    if exponent > c.maxExp then
      (if c.sat then (if s then maxnegEnc c else maxposEnc c) else setInf c s)
    else if c.sub ∧ exponent < c.minExpSubnormal - 1 then signBit c s
    else if ¬ c.sub ∧ exponent < c.minExpNormal then signBit c s
    else if fb < sfb then
      let rightShift := sfb - fb
      if rawExp ≠ 0 then
        let subn := exponent < c.minExpNormal
        let frac := if subn then rawFrac ||| hmask else rawFrac
        let biased : Nat := if subn then 0 else (exponent + c.bias).toNat
        let adj : Nat := if subn then (-(exponent + c.srs)).toNat else 0
        let t := rightShift + adj
        -- `lsbShift` = t ≤ 64; the masks and the shift are guarded for 64 (repair "must not shift by 64 …")
        let lsb := t < 64 && frac.testBit t
        let guard := if t < 64 then frac.testBit (t - 1) else frac.testBit 63
        let round := t ≥ 2 && frac.testBit (t - 2)
        let sticky := t ≥ 2 && frac % 2 ^ (t - 2) != 0
        let fr0 := if t < 64 then frac >>> t else 0
        let fr1 := if guard then
            (if lsb && !round && !sticky then fr0 + 1 else fr0) + (if round || sticky then 1 else 0)
          else fr0
        let (be, fr) :=
          if guard ∧ fr1 = 2 ^ fb then (if biased = c.emax then (biased, 2 ^ fb - 2) else (biased + 1, 0))
          else (biased, fr1)
        let raw := (((((if s then 1 else 0) <<< c.es) ||| be) <<< fb) % 2 ^ 64 ||| fr) % 2 ^ c.nbits
        postProcess c raw
      else
        -- the source is a subnormal long double: "TBD" in the code, the cleared value (+0) is returned
        postProcess c 0
    else
      if rawExp ≠ 0 then
        let store := 2 ^ (c.nrBlocks * c.bt)
        let biasedU : Nat := ((exponent + c.bias) % ((2 ^ 64 : Nat) : Int)).toNat
        let ex := ((biasedU % 2 ^ c.nbits) <<< fb) % store
        let fr := (rawFrac <<< (fb - sfb)) % store
        postProcess c (setSign c ((ex ||| fr) % 2 ^ c.nbits) s)
      else postProcess c 0

/-! ### conversion from native integers (convert_signed/unsigned_integer + round<>, cfloat_impl.hpp:2269-2342, 2855) -/

/-- `round<srcbits,uint64_t>(raw, exponent)` : returns (fraction bits, exponent). After the repairs "sticky mask
    must include the bit below the round bit" (sticky = every bit below the round bit) and "must clear the fraction
    when rounding carries into the next binade" (carry ⇒ fraction 0, exponent + 1). -/
def roundInt (c : Cfg) (srcbits : Nat) (raw : Nat) (exponent : Int) : Nat × Int :=
  let fh := c.fbits + 1
  if fh < srcbits then
    let shift := srcbits - fh - 1
    let guard := raw.testBit shift
    let round := shift ≥ 1 && raw.testBit (shift - 1)
    let sticky := shift ≥ 2 && raw % 2 ^ (shift - 1) != 0
    let r0 := raw >>> (shift + 1)
    let lsb := r0.testBit 0
    if guard then
      let r1 := (if lsb && !round && !sticky then r0 + 1 else r0) + (if round || sticky then 1 else 0)
      if r1 = 2 ^ c.fbits then (0, exponent + 1) else (r1, exponent)
    else (r0, exponent)
  else ((raw <<< (fh - srcbits)) % 2 ^ 64, exponent)

/-- `width` = 8·sizeof(Ty); `mag` = |value| as the uint64 the code computes; `neg` = sign. There is NO range check
    (finding cfloat.from_int.out_of_range; the repair "conversion from integers must project out-of-range values …" was
    withdrawn because static/cfloat/math/fractional.cpp depends on the old conversion): the biased exponent is or-ed into
    the 64-bit word as it is and `setbits` keeps the low nbits. -/
def fromIntMag (c : Cfg) (width : Nat) (neg : Bool) (mag : Nat) : Nat :=
  if mag = 0 then 0
  else
    let msb := Nat.log2 mag
    let raw := ((mag - 2 ^ msb) <<< (width - msb - 1)) % 2 ^ 64
    let (fr, ex) := roundInt c width raw msb
    let biased := (ex + c.bias).toNat % 2 ^ 64
    let hi := (((if neg then 1 else 0) <<< c.es) ||| biased) % 2 ^ 64
    let bits := ((hi <<< c.fbits) % 2 ^ 64) ||| fr
    bits % 2 ^ c.nbits

/-- signed source of `width` bits (after repair 4dc3f74): the magnitude is computed in unsigned arithmetic,
    `s ? (0ull - static_cast<uint64_t>(rhs)) : static_cast<uint64_t>(rhs)`, i.e. |v| mod 2^64 for every v ≥ −2^63
    (also for the most negative value of the type) -/
def fromSigned (c : Cfg) (width : Nat) (v : Int) : Nat :=
  if v = 0 then 0
  else
    let neg := decide (v < 0)
    let mag := ofSigned 64 (if neg then -v else v)
    fromIntMag c width neg mag

def fromUnsigned (c : Cfg) (width : Nat) (v : Nat) : Nat := fromIntMag c width false (v % 2 ^ 64)

end UVerif.Cfloat
