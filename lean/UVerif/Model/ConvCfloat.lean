/-
  UVerif.Model.ConvCfloat — the cfloat → cfloat converting constructor (include/universal/number/cfloat/cfloat_impl.hpp:368-402)

      if (rhs.isnan())       setnan(rhs.sign() ? NAN_TYPE_SIGNALLING : NAN_TYPE_QUIET);
      else if (rhs.isinf())  setinf(rhs.sign());
      else if (rhs.iszero()) setzero();                // +0, also for -0 and for the exponent-0 aliases of a configuration without subnormals
      else                   *this = double(rhs);      // to_native<double>() then convert_ieee754<double>()

  `double(rhs)` = `to_native<double>` (cfloat_impl.hpp:1836-1906).  When the source has es ≤ 11 and at most 52 fraction
  bits every step of that routine is exact in double precision (the fraction sum, 1 + f, the power of two, the product;
  theorem C04_cfloat_to_native), so the result is the double that encodes the exact value `Cfloat.toNative`.  For wider
  sources (more than 52 fraction bits or es ≥ 12) the routine is followed step by step in double precision
  (`toDoubleWide`): the fraction is accumulated bit by bit with a rounding after every addition, `1.0 + f` is rounded, the
  power of two comes from `1ull << e` for |e| < 64 and from `ipow` otherwise (2^e for −1074 ≤ e ≤ 1023, infinity above,
  0 below), `subnormal_exponent[es]` is 0.0 for es ≥ 12, and the final product is rounded.
  When source and target are the same type the defaulted copy constructor is selected.
-/
import UVerif.Basic
import UVerif.Spec.Cfloat
import UVerif.Model.Cfloat
import UVerif.Generated.CfloatTables

namespace UVerif.Cfloat
open UVerif.Generated

/-- `ipow(exponent)` : exponentiation by squaring in double precision, base 2.0 for positive and (since the repair
    "ipow() must not underflow to 0 …") base 0.5 for negative exponents: every partial product is a power of two, exact
    down to the smallest subnormal 2^-1074; below that the product rounds to 0 (2^-1075 is a tie, to even) -/
def ipowVal (ex : Int) : Val :=
  if ex ≥ 1024 then .inf false
  else if ex ≤ -1075 then .fin false 0
  else .fin false (pow2 ex)

/-- `to_native<double>` followed step by step in double precision (the general case; used for sources wider than a double) -/
def toDoubleWide (c : Cfg) (b : Nat) : Val :=
  let s := c.signOf b
  if isZero c b then .fin s 0
  else if isNan c b then .nan s
  else if isInf c b then .inf s
  else
    let rnd (x : Rat) : Rat := valToRat (rndIeee 11 52 x)
    let f : Rat := (List.range c.fbits).foldl (fun acc k =>
        if (c.fracOf b).testBit (c.fbits - 1 - k) then rnd (acc + pow2 (-((k : Int) + 1))) else acc) 0
    let e := c.expOf b
    let sgn (v : Val) : Val := match v with
      | .fin _ m => .fin s m
      | .inf _ => .inf s
      | v => v
    if c.sub ∧ e = 0 then
      let (m, k) := subnormalExponent.getD c.es (0, 0)
      sgn (rndIeee 11 52 (dyadic m k * f))
    else if ¬ c.sup ∧ e = c.emax then .nan false
    else
      let ex : Int := (e : Int) - c.bias
      let g := rnd (1 + f)
      if -64 < ex ∧ ex < 64 then sgn (rndIeee 11 52 (pow2 ex * g))
      else match ipowVal ex with
        | .inf _ => .inf s
        | .fin _ p => sgn (rndIeee 11 52 (p * g))
        | v => v

/-- bit pattern of `double(rhs)` -/
def toDoubleBits (c : Cfg) (a : Nat) : Nat :=
  if c.es ≤ 11 ∧ c.fbits ≤ 52 then ieeeEncode 11 52 (toNative c a)
  else ieeeEncode 11 52 (toDoubleWide c a)

/-- `cfloat<c2>(const cfloat<c1>& rhs)` -/
def cf2cf (c1 c2 : Cfg) (a : Nat) : Nat :=
  if c1 = c2 then a                                                    -- same type: copy constructor
  else if isNan c1 a then setNan c2 (c1.signOf a)
  else if isInf c1 a then setInf c2 (c1.signOf a)
  else if isZero c1 a then 0                                           -- setzero()
  else fromIeee c2 11 52 ieeeF64_qnanmask ieeeF64_snanmask (toDoubleBits c1 a)

end UVerif.Cfloat
