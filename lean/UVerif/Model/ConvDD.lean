/-
  UVerif.Model.ConvDD — conversions between native numbers and double-double / quad-double
  (include/universal/number/dd/dd_impl.hpp:604-668, include/universal/number/qd/qd_impl.hpp:870-940), statement by
  statement over the exact-integer model of binary64 (UVerif.Model.F64).  `Model.DD` already has `ofInt64`, `toInt64`,
  `toDouble` of dd; this file adds float sources / targets, the narrower integer types, and everything of qd.

  Modelled AS IT IS:
    * dd / qd (int64 / uint64): `low = v & 0xFFFFFFFF; h = double(v − low); l = double(low); x0 = h + l; x1 = l − (x0 − h)`
      (`DD.ofInt64`), qd additionally x[2] = x[3] = 0 (after the repairs: exact for every 64-bit integer);
    * (long long)dd = int64(hi) + int64(lo) + correction (`DD.tailAdjust`: truncation of the VALUE toward zero), unsigned reads
      take the head through uint64_t from 2^63 on (`DD.toUInt64`);  (long long)qd sums the integer parts of all four limbs
      and lets the first limb with a fraction decide the correction (`qdToIntStep`);
    * double(qd) = ((x0 + x1) + x2) + x3 in double arithmetic (three roundings);  float(dd) = float(hi + lo) (two roundings).
  Core Lean only.
-/
import UVerif.Model.F64
import UVerif.Model.DD

namespace UVerif.ConvDD
open UVerif UVerif.F64

abbrev b64 : Fmt := binary64
abbrev b32 : Fmt := binary32

/-- `double(float)`: exact widening (units 2^-149 → units 2^-1074) -/
def widen32 : F → F
  | .fin s n => .fin s (n <<< (b64.q - b32.q))
  | x => x

/-- `float(double)`: one rounding to binary32 (units 2^-1074 → 2^-149) -/
def narrow32 : F → F
  | .fin s n => roundShr b32 s n (b64.q - b32.q)
  | x => x

/-! ### dd -/

/-- `dd = float`: (double(f), 0) -/
def ddFromF32 (x : F) : DD.DD := ⟨widen32 x, pzero⟩

/-- `float(dd)` = float(hi + lo) -/
def ddToF32 (a : DD.DD) : F := narrow32 (F64.add b64 a.hi a.lo)

/-- `Signed(h + l)` / `Unsigned(h + uint64_t(l))`: the low `sz` bits of the wrapped sum -/
def ddToInt (sz : Nat) (signed : Bool) (a : DD.DD) : Nat :=
  (if signed then ofSigned 64 (DD.toInt64 b64 a) else DD.toUInt64 b64 a) % 2 ^ sz

/-! ### qd -/

abbrev QD := F × F × F × F

def qdFromF64 (x : F) : QD := (x, pzero, pzero, pzero)
def qdFromF32 (x : F) : QD := (widen32 x, pzero, pzero, pzero)

/-- `qd = int64` / `qd = uint64` (every narrower type converts to one of them first): the same statement sequence as dd —
    the two halves of the integer, an inline quick_two_sum into x[0], x[1] — and `x[2] = x[3] = 0.0`.  No cast back to an
    integer type any more. -/
def qdFromInt (v : Int) : QD :=
  let d := DD.ofInt64 b64 v
  (d.hi, d.lo, pzero, pzero)

/-- `double(qd)` = x[0] + x[1] + x[2] + x[3], left to right -/
def qdToF64 (a : QD) : F := F64.add b64 (F64.add b64 (F64.add b64 a.1 a.2.1) a.2.2.1) a.2.2.2

def qdToF32 (a : QD) : F := narrow32 (qdToF64 a)

/-- one iteration of the loop of `qd::convert_to_signed` / `convert_to_unsigned` (state: sum, decided):
      `t = std::trunc(x[i]);  sum += int64_t(t)`   (unsigned: `t < 2^63 ? uint64_t(int64_t(t)) : uint64_t(t)`)
      `f = x[i] - t;  if (!decided && f != 0.0) { if (x[0] > 0.0 && f < 0.0) --sum;  if (x[0] < 0.0 && f > 0.0) ++sum;  decided = true; }`
    (casting `trunc(x)` and casting `x` give the same integer; `trunc(x) < 2^63 ⇔ x < 2^63`) -/
def qdToIntStep (unsigned : Bool) (x0 : F) (st : Int × Bool) (xi : F) : Int × Bool :=
  let ti : Int :=
    if unsigned && !(flt xi (ofNatExact b64 (2 ^ 63))) then ((toU64 b64 xi : Nat) : Int) else toI64 b64 xi
  let fr := fracPart b64 xi
  let sum := st.1 + ti
  if !st.2 && nez fr then
    (sum + (if fgt x0 pzero && flt fr pzero then -1 else 0) + (if flt x0 pzero && fgt fr pzero then 1 else 0), true)
  else (sum, st.2)

/-- `Signed(sum)` / `Unsigned(sum)` after the four iterations: the low `sz` bits of the wrapped sum -/
def qdToInt (sz : Nat) (signed : Bool) (a : QD) : Nat :=
  let st := [a.1, a.2.1, a.2.2.1, a.2.2.2].foldl (qdToIntStep (!signed) a.1) (0, false)
  ofSigned 64 st.1 % 2 ^ sz

/-! ### long double (x87 extended: 64-bit significand, 15 exponent bits) sources, dd_impl.hpp:638-645 / qd_impl.hpp:908-917

      volatile long double truncated = static_cast<long double>(double(rhs));
      volatile double remainder = static_cast<double>(rhs - truncated);
      hi = static_cast<double>(truncated);  lo = std::isfinite(hi) ? remainder : 0.0;                            -/

abbrev x87 : Fmt := Fmt.ieee 64 15

/-- an x87 pattern (sign+exponent word, 64-bit significand with explicit integer bit) as a value in units of 2^-16445 -/
def ofX87 (se mant : Nat) : F :=
  let s := se.testBit 15
  let E := se % 2 ^ 15
  if E = 2 ^ 15 - 1 then (if mant % 2 ^ 63 = 0 then .inf s else .nan)
  else .fin s (mant <<< ((if E = 0 then 1 else E) - 1))

/-- `double(long double)`: one rounding (units 2^-16445 → 2^-1074) -/
def narrowLD : F → F
  | .fin s n => roundShr b64 s n (x87.q - b64.q)
  | x => x

/-- `(long double)double`: exact -/
def widenLD : F → F
  | .fin s n => .fin s (n <<< (x87.q - b64.q))
  | x => x

def ddFromLD (x : F) : DD.DD :=
  let truncated := widenLD (narrowLD x)
  let remainder := narrowLD (F64.sub x87 x truncated)
  let hi := narrowLD truncated
  ⟨hi, if hi.isFinite then remainder else pzero⟩

def qdFromLD (x : F) : QD :=
  let d := ddFromLD x
  (d.hi, d.lo, pzero, pzero)

end UVerif.ConvDD
