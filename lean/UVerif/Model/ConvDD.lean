/-
  UVerif.Model.ConvDD — conversions between native numbers and double-double / quad-double
  (include/universal/number/dd/dd_impl.hpp:604-668, include/universal/number/qd/qd_impl.hpp:870-940), statement by
  statement over the exact-integer model of binary64 (UVerif.Model.F64).  `Model.DD` already has `ofInt64`, `toInt64`,
  `toDouble` of dd; this file adds float sources / targets, the narrower integer types, and everything of qd.

  Modelled AS IT IS:
    * dd(int64 / uint64) keeps only `static_cast<double>(v)` (53 bits), lo = 0;
    * qd(int64): x[0] = double(v), x[1] = double(v − int64(x[0])) — `int64(2^63)` is the x86 "indefinite" value −2^63 and
      the subtraction wraps, which happens to give the right tail; x[2], x[3] are NOT written (they keep their old content);
    * qd(uint64): x[1] = double(v − uint64(x[0])) in unsigned arithmetic: when x[0] was rounded UP the difference wraps to
      ≈ 2^64, and `uint64(2^64)` is 0 on x86-64 (g++ emits cvttsd2si(x − 2^63) xor 2^63);
    * (long long)dd / qd = int64(x0) + int64(x1) (limb-wise truncation, the lower qd limbs are ignored);
    * double(qd) = ((x0 + x1) + x2) + x3 in double arithmetic (three roundings);  float(dd) = float(hi + lo) (two roundings).
  Core Lean only.
-/
import UVerif.Model.F64
import UVerif.Model.DD

namespace UVerif.ConvDD
open UVerif UVerif.F64

abbrev b64 : Fmt := binary64
abbrev b32 : Fmt := binary32

/-- `double(float)`: exact widening (units 2^-149 → units 2^-1074) -/
def widen32 : F → F
  | .fin s n => .fin s (n <<< (b64.q - b32.q))
  | x => x

/-- `float(double)`: one rounding to binary32 (units 2^-1074 → 2^-149) -/
def narrow32 : F → F
  | .fin s n => roundShr b32 s n (b64.q - b32.q)
  | x => x

/-- `static_cast<uint64_t>(double)` as g++ emits it for x86-64: below 2^63 `cvttsd2si`, otherwise
    `cvttsd2si(x − 2^63) xor 2^63` (so 2^64 ↦ 0); negative values wrap like the signed conversion. -/
def toU64 (a : F) : Nat :=
  match truncInt b64 a with
  | some z =>
    if z < (2 ^ 63 : Int) then ofSigned 64 (toI64 b64 a)
    else
      let t := z - (2 ^ 63 : Int)
      let c : Int := if t < (2 ^ 63 : Int) then t else -(2 ^ 63 : Int)
      (ofSigned 64 c) ^^^ 2 ^ 63
  | none => 2 ^ 63

/-! ### dd -/

/-- `dd = float`: (double(f), 0) -/
def ddFromF32 (x : F) : DD.DD := ⟨widen32 x, pzero⟩

/-- `float(dd)` = float(hi + lo) -/
def ddToF32 (a : DD.DD) : F := narrow32 (F64.add b64 a.hi a.lo)

/-- `Signed(h + l)` / `Unsigned(h + l)` with int64 h, l: the low `sz` bits of the wrapped sum -/
def ddToInt (sz : Nat) (a : DD.DD) : Nat := ofSigned 64 (DD.toInt64 b64 a) % 2 ^ sz

/-! ### qd -/

abbrev QD := F × F × F × F

def qdFromF64 (x : F) : QD := (x, pzero, pzero, pzero)
def qdFromF32 (x : F) : QD := (widen32 x, pzero, pzero, pzero)

/-- `qd = int64`: x[2], x[3] keep `p2`, `p3` -/
def qdFromI64 (v : Int) (p2 p3 : F) : QD :=
  if v = 0 then (pzero, pzero, pzero, pzero)
  else
    let x0 := ofInt b64 v
    let x1 := ofInt b64 (wrapI64 (v - toI64 b64 x0))
    (x0, x1, p2, p3)

/-- `qd = uint64` -/
def qdFromU64 (v : Nat) (p2 p3 : F) : QD :=
  if v = 0 then (pzero, pzero, pzero, pzero)
  else
    let x0 := ofInt b64 (v : Int)
    let d : Nat := (v + 2 ^ 64 - toU64 x0) % 2 ^ 64
    let x1 := ofInt b64 (d : Int)
    (x0, x1, p2, p3)

/-- `double(qd)` = x[0] + x[1] + x[2] + x[3], left to right -/
def qdToF64 (a : QD) : F := F64.add b64 (F64.add b64 (F64.add b64 a.1 a.2.1) a.2.2.1) a.2.2.2

def qdToF32 (a : QD) : F := narrow32 (qdToF64 a)

/-- `Signed(int64(x[0]) + int64(x[1]))` -/
def qdToInt (sz : Nat) (a : QD) : Nat := ofSigned 64 (wrapI64 (toI64 b64 a.1 + toI64 b64 a.2.1)) % 2 ^ sz

/-! ### long double (x87 extended: 64-bit significand, 15 exponent bits) sources, dd_impl.hpp:638-645 / qd_impl.hpp:908-917

      volatile long double truncated = static_cast<long double>(double(rhs));
      volatile double remainder = static_cast<double>(rhs - truncated);
      hi = static_cast<double>(truncated);  lo = remainder;                                                      -/

abbrev x87 : Fmt := Fmt.ieee 64 15

/-- an x87 pattern (sign+exponent word, 64-bit significand with explicit integer bit) as a value in units of 2^-16445 -/
def ofX87 (se mant : Nat) : F :=
  let s := se.testBit 15
  let E := se % 2 ^ 15
  if E = 2 ^ 15 - 1 then (if mant % 2 ^ 63 = 0 then .inf s else .nan)
  else .fin s (mant <<< ((if E = 0 then 1 else E) - 1))

/-- `double(long double)`: one rounding (units 2^-16445 → 2^-1074) -/
def narrowLD : F → F
  | .fin s n => roundShr b64 s n (x87.q - b64.q)
  | x => x

/-- `(long double)double`: exact -/
def widenLD : F → F
  | .fin s n => .fin s (n <<< (x87.q - b64.q))
  | x => x

def ddFromLD (x : F) : DD.DD :=
  let truncated := widenLD (narrowLD x)
  let remainder := narrowLD (F64.sub x87 x truncated)
  ⟨narrowLD truncated, remainder⟩

def qdFromLD (x : F) : QD :=
  let d := ddFromLD x
  (d.hi, d.lo, pzero, pzero)

end UVerif.ConvDD
