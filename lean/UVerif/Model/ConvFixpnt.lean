/-
  UVerif.Model.ConvFixpnt — the conversions of `fixpnt<nbits, rbits, Modulo|Saturate, bt>`
  (include/universal/number/fixpnt/fixpnt_impl.hpp), transcribed branch by branch:

    convert<Arith>            :643-770   native signed / unsigned integers, float, double  → fixpnt
    to_signed / to_unsigned   :773-801   fixpnt → native integers
    to_native<TargetFloat>    :803-831   fixpnt → float / double
    operator=(fixpnt<n1,r1>)  :172-211   the size adapter

  The native conversions only use `setbit` (a no-op at or above nbits), `setbits(uint64)` (low 64 bits, MSU masked),
  `twosComplement` and `at`: their arithmetic content does not depend on the block type, so an encoding is a `Nat`
  below `2^nbits` here (`n` = nbits, `r` = rbits, `sat` = Saturate).  The size adapter goes through blockbinary
  `assign`, `roundingMode`, `>>=`, `++`, whose corner cases (shift by the full width) depend on the limb code: it is
  modelled on limb lists with the blockbinary model of UVerif.Model.Limbs (`w` = bits in a block).

  The code is modelled AS IT IS.  Deviations from properties C03/C04/C15 that this model reproduces:
    * Saturate, signed integer source: the range test is `v >= static_cast<Arith>(maxpos)`, i.e. against the integer
      part of maxpos read into the SOURCE type: `v = floor(maxpos)` returns maxpos (not v) when rbits > 0, and when
      the integer part does not fit the source type the threshold wraps (to −1 / 0);
    * Saturate, unsigned integer source: `static_cast<Arith>(maxpos)` is `to_unsigned` = the RAW bit pattern read as
      an integer (the radix point is ignored) and `static_cast<Arith>(maxneg)` is a huge unsigned number: almost every
      source is "≤ maxneg";
    * Saturate, float/double source: the thresholds are `float(maxpos)` / `float(maxneg)` — single precision even for a
      double source; for nbits > 25 float(maxpos) rounds up to 2^(nbits−1−rbits) and sources just below it wrap;
    * nbits > 64: `setbits(uint64)` does not sign-extend negative results; nbits − rbits > 64: the unsigned loop copies
      only 64 − rbits bits;
    * `to_signed` reads the integer-part bits (floor, not truncation toward zero); `to_unsigned` returns the raw bits;
    * the size adapter copies raw bits when widening (D12), does nothing when narrowing to ≥ as many fraction bits,
      never saturates.
  Core Lean only.
-/
import UVerif.Basic
import UVerif.Model.Limbs
import UVerif.Model.F64
import UVerif.Model.Lns

namespace UVerif.ConvFixpnt
open UVerif UVerif.Limbs UVerif.F64

/-! ### encodings -/

/-- `maxpos()` : 01…1 -/
def maxposP (n : Nat) : Nat := 2 ^ (n - 1) - 1
/-- `maxneg()` : 10…0 -/
def maxnegP (n : Nat) : Nat := 2 ^ (n - 1)
/-- `sign()` -/
def signP (n p : Nat) : Bool := p.testBit (n - 1)
/-- `setbits(uint64_t)`: the low 64 bits of the word, masked to nbits (no sign extension above bit 63) -/
def setbits64 (n q : Nat) : Nat := (q % 2 ^ 64) % 2 ^ n
/-- `(s ? ~x + 1 : x)` on a uint64_t -/
def neg64 (s : Bool) (x : Nat) : Nat := if s then (2 ^ 64 - x % 2 ^ 64) % 2 ^ 64 else x % 2 ^ 64

/-! ### fixpnt → native integers -/

/-- `to_signed<NativeInt>()` with `sz` = bits of NativeInt; the result as an `sz`-bit two's complement pattern.
    The loop ORs bit i (rbits ≤ i < upper) into a `NativeInt mask` that is shifted out after `sz` steps; a negative
    value is sign-extended from `upper` to `sz + rbits`. -/
def toSignedPat (n r sz p : Nat) : Nat :=
  if n ≤ r then 0 else
  let upper := if n - r > 64 then r + 64 else n
  let ll := ((p >>> r) % 2 ^ (upper - r)) % 2 ^ sz
  if signP n p && decide (upper < sz + r) then ll ||| (2 ^ sz - 2 ^ (upper - r)) else ll

/-- `blockbinary::to_long_long()` as a 64-bit pattern: the low min(nbits,64) bits, sign-extended when nbits < 64 -/
def toLongLong (n p : Nat) : Nat :=
  if n < 64 then ofSigned 64 (toSigned n p) else p % 2 ^ 64

/-- `to_unsigned<NativeInt>()` = `NativeInt(_block.to_long_long())`: the RAW pattern, radix point ignored -/
def toUnsignedPat (n sz p : Nat) : Nat := toLongLong n p % 2 ^ sz

/-! ### native integers → fixpnt (convert<Arith>, integral branches) -/

/-- signed source of `sz` bits holding `v` (−2^(sz−1) ≤ v < 2^(sz−1)).
    `v == -v` (the most negative value; signed overflow for int / long) is folded to `false` by g++ 12.2 -O1 since
    `v != 0` is known, so every non-zero value takes the bit-copy branch: |v| is read as an sz-bit pattern, its low
    min(sz, nbits − rbits) bits are copied to position rbits, a negative source is two's-complemented. -/
def fromSigned (n r : Nat) (sat : Bool) (sz : Nat) (v : Int) : Nat :=
  if v = 0 then 0 else
  let mp := toSigned sz (toSignedPat n r sz (maxposP n))
  let mn := toSigned sz (toSignedPat n r sz (maxnegP n))
  if sat && decide (v ≥ mp) then maxposP n
  else if sat && decide (v ≤ mn) then maxnegP n
  else
    let mag := v.natAbs % 2 ^ sz
    let upper := min sz (n - r)
    let x := (mag % 2 ^ upper) <<< r
    if v < 0 then twosComp n x else x

/-- unsigned source of `sz` bits holding `v < 2^sz`. -/
def fromUnsigned (n r : Nat) (sat : Bool) (sz : Nat) (v : Nat) : Nat :=
  if v = 0 then 0 else
  let mp := toUnsignedPat n sz (maxposP n)
  let mn := toUnsignedPat n sz (maxnegP n)
  if sat && decide (v ≥ mp) then maxposP n
  else if sat && decide (v ≤ mn) then maxnegP n
  else
    let upper := if n - r ≤ 64 then n else 64
    (v % 2 ^ (upper - r)) <<< r

/-! ### fixpnt → float / double (to_native<TargetFloat>) -/

/-- the value is accumulated in the TARGET precision: `value += multiplier` for every set bit of the magnitude,
    multiplier = 2^(i − rbits) (exact powers of two).  `fmt.q ≥ r` for float and double. -/
def toNative (fmt : Fmt) (n r p : Nat) : F :=
  let neg := signP n p
  let mag := if neg then twosComp n p else p % 2 ^ n
  let v := (List.range n).foldl
    (fun acc i => if mag.testBit i then F64.add fmt acc (.fin false (2 ^ (i + fmt.q - r))) else acc) (F.fin false 0)
  if neg then v.neg else v

/-! ### float / double → fixpnt (convert<Arith>, floating-point branch) -/

/-- exact comparison of a finite source (sign, magnitude in units of 2^-qs) with a finite float (units of 2^-qt) -/
def valUnits (s : Bool) (mag q : Nat) : Rat := (if s then -(mag : Rat) else (mag : Rat)) / ((2 ^ q : Nat) : Rat)

/-- `ew` exponent bits, `fb` fraction bits of the SOURCE type (float: 8, 23; double: 11, 52). -/
def fromIeee (n r : Nat) (sat : Bool) (ew fb : Nat) (bits : Nat) : Nat :=
  let s := bits.testBit (ew + fb)
  let rawExp := (bits >>> fb) % 2 ^ ew
  let rawFrac := bits % 2 ^ fb
  let bias : Int := (2 ^ (ew - 1) : Nat) - 1
  if rawExp = 0 ∧ rawFrac = 0 then 0                       -- v == 0.0 (either sign)
  else
    let isNaN := rawExp = 2 ^ ew - 1 ∧ rawFrac ≠ 0
    let isInf := rawExp = 2 ^ ew - 1 ∧ rawFrac = 0
    -- the Saturate range test compares v with float(maxpos) / float(maxneg) (SINGLE precision conversions)
    let src : F := F64.ofBits (fb + 1) ew bits
    let qs := (Fmt.ieee (fb + 1) ew).q
    let vR : Rat := valUnits s src.mag qs
    let fmp := toNative binary32 n r (maxposP n)
    let fmn := toNative binary32 n r (maxnegP n)
    let geMax : Bool := !isNaN && ((isInf && !s) || (!isInf && decide (vR ≥ valUnits fmp.sign fmp.mag binary32.q)))
    let leMin : Bool := !isNaN && ((isInf && s) || (!isInf && decide (vR ≤ valUnits fmn.sign fmn.mag binary32.q)))
    if sat && geMax then maxposP n
    else if sat && leMin then maxnegP n
    else
      let fraction := if rawExp > 0 then rawFrac + 2 ^ fb else rawFrac
      let exponent : Int := (rawExp : Int) - bias
      let radixPoint : Int := (fb : Int) - exponent
      let shiftRight : Int := min (radixPoint - (r : Int)) 64
      if shiftRight > (fb : Int) + 1 then 0
      else if shiftRight > 0 then
        let q := Lns.Model.roundGRS fraction shiftRight.toNat       -- the same guard/round/sticky code as lns
        setbits64 n (neg64 s q)
      else
        let sl := (-shiftRight).toNat
        if sl < 64 - fb then setbits64 n (neg64 s (fraction <<< sl))
        else
          -- project the bits one by one (setbit is a no-op at or above nbits), then two's complement in nbits
          let x := (fraction <<< sl) % 2 ^ n
          if s then twosComp n x else x

/-! ### the size adapter `fixpnt<n2,r2> = fixpnt<n1,r1>` (same arithmetic, same block type) -/

/-- `prev` is the content of the target before the assignment (it survives when the adapter does nothing). -/
def resize (w n1 r1 n2 r2 : Nat) (src prev : List Nat) : List Nat :=
  if n1 ≤ n2 then
    -- `_block = a.bits()` (blockbinary assign: copy + sign-extend + mask); the explicit sign-extension loop repeats it
    let t := BB.assign w n2 n1 src
    if n1 < n2 && BB.sign w n1 src then setRange w t n1 n2 true else t
  else if r1 > r2 then
    let roundUp := BB.roundingMode w n1 src (r1 - r2)
    let sh := BB.shr w n1 src ((r1 - r2 : Nat) : Int)
    let sh := if roundUp then BB.inc w n1 sh else sh
    BB.assign w n2 n1 sh
  else prev

end UVerif.ConvFixpnt
