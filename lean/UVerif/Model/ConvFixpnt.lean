/-
  UVerif.Model.ConvFixpnt — the conversions of `fixpnt<nbits, rbits, Modulo|Saturate, bt>`
  (include/universal/number/fixpnt/fixpnt_impl.hpp), transcribed branch by branch:

    convert<Arith>            :643-770   native signed / unsigned integers, float, double  → fixpnt
    to_signed / to_unsigned   :773-801   fixpnt → native integers
    to_native<TargetFloat>    :803-831   fixpnt → float / double
    operator=(fixpnt<n1,r1>)  :172-211   the size adapter

  The native conversions only use `setbit` (a no-op at or above nbits), `setbits(uint64)` (low 64 bits, MSU masked),
  `twosComplement` and `at`: their arithmetic content does not depend on the block type, so an encoding is a `Nat`
  below `2^nbits` here (`n` = nbits, `r` = rbits, `sat` = Saturate).  The size adapter goes through blockbinary
  `assign`, `roundingMode`, `>>=`, `++`, whose corner cases (shift by the full width) depend on the limb code: it is
  modelled on limb lists with the blockbinary model of UVerif.Model.Limbs (`w` = bits in a block).

  The code is modelled AS IT IS (after the repair wave: the `fix:` commits "fixpnt Saturate conversion from a signed integer …",
  "… from an unsigned integer …", "… must copy all 64 source bits …", "… must sign-extend beyond bit 63", "… must clamp values that
  round up beyond maxpos", "… to a signed integer must truncate …", "… to an unsigned integer must return the integer part …"):
    * Saturate, signed integer source: the range test `v > static_cast<Arith>(maxpos)`, `v <= static_cast<Arith>(maxneg)` (the
      integer parts of maxpos / maxneg) is only made when the integer part fits the source type (nbits − rbits ≤ bits of Arith);
    * Saturate, unsigned integer source: `v > (unsigned long long)(long long)(maxpos)` when nbits − rbits ≤ 64, no lower test;
    * Saturate, float/double source: the thresholds are still `float(maxpos)` / `float(maxneg)` (float(maxpos) rounds UP to
      2^(nbits−1−rbits) for nbits > 25), and a positive source whose rounding carried into the sign bit is replaced by maxpos;
    * negative float/double sources: `setbits(uint64)` of the magnitude, then `twosComplement()` in all nbits;
    * `to_signed` reads the integer-part bits and adds one for a negative value with a non-zero fraction (truncation toward
      zero); `to_unsigned` is `to_signed<long long>` cast to the unsigned type;
  (the size adapter has no deviation left: the radix point is aligned in every branch and a Saturate target clamps since the repairs
      "fix: fixpnt size adapter must align the radix point when the target is at least as wide …",
      "fix: fixpnt size adapter assigned nothing when narrowing to at least as many fraction bits",
      "fix: fixpnt size adapter dropping every source bit turned small negative values into +1 ulp …",
      "fix: fixpnt size adapter never saturated: a Saturate target wrapped values that do not fit".)
  Core Lean only.
-/
import UVerif.Basic
import UVerif.Model.Limbs
import UVerif.Model.F64
import UVerif.Model.Lns

namespace UVerif.ConvFixpnt
open UVerif UVerif.Limbs UVerif.F64

/-! ### encodings -/

/-- `maxpos()` : 01…1 -/
def maxposP (n : Nat) : Nat := 2 ^ (n - 1) - 1
/-- `maxneg()` : 10…0 -/
def maxnegP (n : Nat) : Nat := 2 ^ (n - 1)
/-- `sign()` -/
def signP (n p : Nat) : Bool := p.testBit (n - 1)
/-- `setbits(uint64_t)`: the low 64 bits of the word, masked to nbits (no sign extension above bit 63) -/
def setbits64 (n q : Nat) : Nat := (q % 2 ^ 64) % 2 ^ n

/-! ### fixpnt → native integers -/

/-- `to_signed<NativeInt>()` with `sz` = bits of NativeInt; the result as an `sz`-bit two's complement pattern.
    The loop ORs bit i (rbits ≤ i < upper) into a `NativeInt mask` that is shifted out after `sz` steps; a negative
    value is sign-extended from `upper` to `sz + rbits`; a negative value with a non-zero fraction is then incremented
    (`static_cast<NativeInt>(make_unsigned_t<NativeInt>(ll) + 1u)`): truncation toward zero. -/
def toSignedPat (n r sz p : Nat) : Nat :=
  if n ≤ r then 0 else
  let upper := if n - r > 64 then r + 64 else n
  let ll := ((p >>> r) % 2 ^ (upper - r)) % 2 ^ sz
  let ll := if signP n p && decide (upper < sz + r) then ll ||| (2 ^ sz - 2 ^ (upper - r)) else ll
  -- a negative value with a non-zero fraction: `ll + 1` in the unsigned type of the same width (truncation toward zero)
  if signP n p && decide (p % 2 ^ r ≠ 0) then (ll + 1) % 2 ^ sz else ll

/-- `to_unsigned<NativeInt>()` = `static_cast<NativeInt>(to_signed<long long>())` -/
def toUnsignedPat (n r sz p : Nat) : Nat := toSignedPat n r 64 p % 2 ^ sz

/-! ### native integers → fixpnt (convert<Arith>, integral branches) -/

/-- signed source of `sz` bits holding `v` (−2^(sz−1) ≤ v < 2^(sz−1)).
    `v == -v` (the most negative value; signed overflow for int / long) is folded to `false` by g++ 12.2 -O1 since
    `v != 0` is known, so every non-zero value takes the bit-copy branch: |v| is read as an sz-bit pattern, its low
    min(sz, nbits − rbits) bits are copied to position rbits, a negative source is two's-complemented. -/
def fromSigned (n r : Nat) (sat : Bool) (sz : Nat) (v : Int) : Nat :=
  if v = 0 then 0 else
  let mp := toSigned sz (toSignedPat n r sz (maxposP n))
  let mn := toSigned sz (toSignedPat n r sz (maxnegP n))
  -- the range test is compiled only when the integer part fits the source type: (nbits - rbits) <= 8 * sizeof(Arith)
  if sat && decide (n - r ≤ sz) && decide (v > mp) then maxposP n
  else if sat && decide (n - r ≤ sz) && decide (v ≤ mn) then maxnegP n
  else
    let mag := v.natAbs % 2 ^ sz
    let upper := min sz (n - r)
    let x := (mag % 2 ^ upper) <<< r
    if v < 0 then twosComp n x else x

/-- unsigned source of `sz` bits holding `v < 2^sz`. -/
def fromUnsigned (n r : Nat) (sat : Bool) (_sz : Nat) (v : Nat) : Nat :=
  if v = 0 then 0 else
  -- `static_cast<unsigned long long>(static_cast<long long>(maxpos))`, compiled only when nbits - rbits <= 64
  let mp := toSignedPat n r 64 (maxposP n)
  if sat && decide (n - r ≤ 64) && decide (v > mp) then maxposP n
  else
    let upper := if n - r ≤ 64 then n else r + 64
    (v % 2 ^ (upper - r)) <<< r

/-! ### fixpnt → float / double (to_native<TargetFloat>) -/

/-- the value is accumulated in the TARGET precision: `value += multiplier` for every set bit of the magnitude,
    multiplier = 2^(i − rbits) (exact powers of two).  `fmt.q ≥ r` for float and double. -/
def toNative (fmt : Fmt) (n r p : Nat) : F :=
  let neg := signP n p
  let mag := if neg then twosComp n p else p % 2 ^ n
  let v := (List.range n).foldl
    (fun acc i => if mag.testBit i then F64.add fmt acc (.fin false (2 ^ (i + fmt.q - r))) else acc) (F.fin false 0)
  if neg then v.neg else v

/-! ### float / double → fixpnt (convert<Arith>, floating-point branch) -/

/-- exact comparison of a finite source (sign, magnitude in units of 2^-qs) with a finite float (units of 2^-qt) -/
def valUnits (s : Bool) (mag q : Nat) : Rat := (if s then -(mag : Rat) else (mag : Rat)) / ((2 ^ q : Nat) : Rat)

/-- `ew` exponent bits, `fb` fraction bits of the SOURCE type (float: 8, 23; double: 11, 52). -/
def fromIeee (n r : Nat) (sat : Bool) (ew fb : Nat) (bits : Nat) : Nat :=
  let s := bits.testBit (ew + fb)
  let rawExp := (bits >>> fb) % 2 ^ ew
  let rawFrac := bits % 2 ^ fb
  let bias : Int := (2 ^ (ew - 1) : Nat) - 1
  if rawExp = 0 ∧ rawFrac = 0 then 0                       -- v == 0.0 (either sign)
  else
    let isNaN := rawExp = 2 ^ ew - 1 ∧ rawFrac ≠ 0
    let isInf := rawExp = 2 ^ ew - 1 ∧ rawFrac = 0
    -- the Saturate range test compares v with float(maxpos) / float(maxneg) (SINGLE precision conversions)
    let src : F := F64.ofBits (fb + 1) ew bits
    let qs := (Fmt.ieee (fb + 1) ew).q
    let vR : Rat := valUnits s src.mag qs
    let fmp := toNative binary32 n r (maxposP n)
    let fmn := toNative binary32 n r (maxnegP n)
    let geMax : Bool := !isNaN && ((isInf && !s) || (!isInf && decide (vR ≥ valUnits fmp.sign fmp.mag binary32.q)))
    let leMin : Bool := !isNaN && ((isInf && s) || (!isInf && decide (vR ≤ valUnits fmn.sign fmn.mag binary32.q)))
    if sat && geMax then maxposP n
    else if sat && leMin then maxnegP n
    else
      let fraction := if rawExp > 0 then rawFrac + 2 ^ fb else rawFrac
      let exponent : Int := (rawExp : Int) - bias
      let radixPoint : Int := (fb : Int) - exponent
      let shiftRight : Int := min (radixPoint - (r : Int)) 64
      if shiftRight > (fb : Int) + 1 then 0
      else if shiftRight > 0 then
        let q := Lns.Model.roundGRS fraction shiftRight.toNat       -- the same guard/round/sticky code as lns
        -- `f.setbits(fraction); if (s) f.twosComplement();` then, Saturate: `if (!s && f.sign()) f.maxpos();`
        let x := setbits64 n q
        let y := if s then twosComp n x else x
        if sat && !s && signP n y then maxposP n else y
      else
        let sl := (-shiftRight).toNat
        if sl < 64 - fb then
          let x := setbits64 n (fraction <<< sl)
          if s then twosComp n x else x
        else
          -- project the bits one by one (setbit is a no-op at or above nbits), then two's complement in nbits
          let x := (fraction <<< sl) % 2 ^ n
          if s then twosComp n x else x

/-! ### the size adapter `fixpnt<n2,r2> = fixpnt<n1,r1>` (same arithmetic, same block type) -/

/-- the rounding branch `src_rbits > rbits` (the same code in the widening and in the narrowing branch):
    `blockbinary<src_nbits + (src_rbits - rbits == src_nbits ? 1 : 0), bt> rawbb(a.bits())` (a copy, or a sign extension by one
    bit when every source bit is shifted out), `roundingMode(src_rbits - rbits)`, arithmetic `>>=`, `++` when rounding up, and
    `_block = rawbb` (blockbinary assign: sign-extends or truncates) -/
def resizeRound (w n1 r1 n2 r2 : Nat) (src : List Nat) : List Nat :=
  let k := r1 - r2
  let M := if k = n1 then n1 + 1 else n1
  let raw := if k = n1 then BB.assign w (n1 + 1) n1 src else src
  let roundUp := BB.roundingMode w M raw k
  let sh := BB.shr w M raw ((k : Nat) : Int)
  let sh := if roundUp then BB.inc w M sh else sh
  BB.assign w n2 M sh

/-- the Modulo code path of the adapter (also executed by a Saturate target when no clamp applies) -/
def resizeM (w n1 r1 n2 r2 : Nat) (src : List Nat) : List Nat :=
  if n1 ≤ n2 then
    -- `_block = a.bits()` (blockbinary assign: copy + sign-extend + mask); the explicit sign-extension loop repeats it
    let t := BB.assign w n2 n1 src
    let t := if n1 < n2 && BB.sign w n1 src then setRange w t n1 n2 true else t
    if r1 > r2 then resizeRound w n1 r1 n2 r2 src
    else if r1 < r2 then BB.shl w n2 t ((r2 - r1 : Nat) : Int)      -- `_block <<= rbits - src_rbits` in the target width
    else t
  else if r1 > r2 then resizeRound w n1 r1 n2 r2 src
  else
    -- `_block = a.bits()` truncates, then the same left shift
    let t := BB.assign w n2 n1 src
    if r1 < r2 then BB.shl w n2 t ((r2 - r1 : Nat) : Int) else t

/-- `prev` is the content of the target before the assignment; since the repairs every branch assigns, `prev` is not read.
    Saturate, `src_nbits + upshift > nbits` (otherwise every aligned value fits the target): the source bits are put into a
    Modulo fixpnt of the source configuration, converted by the Modulo adapter into `fixpnt<src_nbits + upshift, rbits, Modulo>`
    (wide enough for every rounded / scaled value), and compared as blockbinary<src_nbits + upshift> with the sign-extended
    maxpos / maxneg of the target: `return *this = maxpos` / `maxneg`; otherwise the Modulo path runs. -/
def resize (w n1 r1 n2 r2 : Nat) (sat : Bool) (src _prev : List Nat) : List Nat :=
  let W := n1 + (r2 - r1)
  if sat && decide (W > n2) then
    let c := resizeM w n1 r1 W r2 src
    if BB.ge w W c (BB.assign w W n2 (BB.maxpos w n2)) then BB.maxpos w n2
    else if BB.le w W c (BB.assign w W n2 (BB.maxneg w n2)) then BB.maxneg w n2
    else resizeM w n1 r1 n2 r2 src
  else resizeM w n1 r1 n2 r2 src

end UVerif.ConvFixpnt
