/-
  UVerif.Model.ConvLns — the conversion routines of lns<nbits,rbits,bt,Behavior>
  (include/universal/number/lns/lns_impl.hpp), branch by branch:

  * `convertIeee`  = `convert_ieee754<Real>` (lines 555-702) generic over the IEEE format of `Real` (float: fbits 23,
    log2f, float thresholds; double: the instantiation `Lns.Model.convertF64`, reused as it is for double sources).
    As in `Lns.Model.convertF64` the libm-dependent intermediates are INPUTS of the model: the observed value of
    `std::log2(|v|)` and the three observed thresholds Real(maxpos), Real(minpos), Real(lns<n+1,r+1>(minpos)).
  * `fromSInt` / `fromUInt` = `convert_signed` / `convert_unsigned` = `convert_ieee754(double(v))`: the hardware
    integer → double conversion is round-to-nearest-even (`IeeeBits.encodeRound`).
  * `toIeeeExponent` = the part of `to_ieee754<TargetFloat>` (lines 717-760) in front of `std::pow`: the exponent field
    is accumulated bit by bit IN THE TARGET FORMAT (`value += multiplier`, each addition rounds) — exact for double as long
    as nbits-1 ≤ 53, rounded for float when the exponent field has more than 24 significant bits.
    `std::pow(2, value)` itself is libm: observed.
  * `toSigned` = `to_signed<Int>` = `SignedInt(to_ieee754<double>())`: truncation of the observed double.
  * `lnsToLns` = the converting constructor `*this = double(rhs)`.
-/
import UVerif.Basic
import UVerif.Model.IeeeBits
import UVerif.Model.Lns

namespace UVerif.ConvLns
open UVerif UVerif.IeeeBits UVerif.Lns.Model

/-- `ieee754_parameter<Real>`: format, qnanmask, snanmask (gcc) -/
structure Native where
  f : Fmt
  qnanmask : Nat
  snanmask : Nat
deriving Repr

def natF64 : Native := ⟨f64, 0x7FF8000000000000, 0x7FF4000000000000⟩
def natF32 : Native := ⟨f32, 0x7FC00000, 0x7FA00000⟩

/-- `convert_ieee754<Real>(v)`; `v`, `logv` and the thresholds are bit patterns of `Real`s; `logv` is the observed
    std::log2(|v|). -/
def convertIeee (nt : Native) (c : Cfg) (t : Thresholds) (v logv : Nat) : Nat :=
  let f := nt.f
  let n := c.nbits
  let s := signOf f v
  let ue := expOf f v
  let rf := fracOf f v
  let fmask := 2 ^ f.fbits - 1
  -- special exponent: three NaN fractions, fraction 0 (infinity), and — since the fix "lns convert_ieee754 must map every NaN
  -- payload to the NaN encoding" — `setnan(); return *this;` for every remaining fraction
  if ue == f.eAll && (rf == (fmask &&& nt.snanmask) || rf == (fmask &&& (nt.qnanmask ||| nt.snanmask))) then setNaN n
  else if ue == f.eAll && rf == (fmask &&& nt.qnanmask) then setNaN n
  else if ue == f.eAll && rf == 0 then (if s then maxnegEnc n else maxposEnc n)     -- setinf(s)
  else if ue == f.eAll then setNaN n
  else if IeeeBits.isZero f v then setZero n                                          -- v == 0.0
  else
    let satEarly : Option Nat :=
      if c.wrap then none
      else
        let absv := absB f v
        if IeeeBits.lt f 0 v && IeeeBits.le f t.mx v then some (maxposEnc n)                      -- v > 0 && v >= Real(maxpos)
        else if IeeeBits.lt f v 0 && IeeeBits.le f v (negate f t.mx) then some (maxnegEnc n)      -- v < 0 && v <= Real(maxneg)
        else if IeeeBits.le f absv t.hm then some (setZero n)
        else if IeeeBits.le f absv t.mn then
          some (if IeeeBits.lt f 0 v then minposEnc n else neg c (minposEnc n))
        else none
    match satEarly with
    | some r => r
    | none =>
      let negative := IeeeBits.lt f v 0
      if IeeeBits.isZero f logv then setBit 0 (n - 1) negative                            -- logv == 0.0
      else
        let ls := signOf f logv
        let lue := expOf f logv
        let lrf0 := fracOf f logv
        let lrf := if lue > 0 then lrf0 ||| 2 ^ f.fbits else lrf0
        let radixPoint : Int := (f.fbits : Int) - ((lue : Int) - (f.bias : Int))
        let shiftRight : Int := radixPoint - (c.rbits : Int)
        let twos (x : Nat) : Nat := if ls then (u64 - x % u64) % u64 else x
        let lnsExponent : Nat :=
          if shiftRight > 0 then
            if shiftRight > 63 then 0          -- rawFraction = 0; setbits(0)
            else
              let q := roundGRS lrf shiftRight.toNat
              (twos q) % 2 ^ (n - 1)           -- setbits(rawFraction)
          else
            let sl := (-shiftRight).toNat
            if sl < 64 - f.fbits then
              (twos ((lrf <<< sl) % u64)) % 2 ^ (n - 1)
            else
              -- project the bits one by one, then two's complement inside nbits-1 bits
              let x := (lrf <<< sl) % 2 ^ (n - 1)
              if ls then twosComp (n - 1) x else x
        setSign n (assign (n - 1) n lnsExponent) negative

/-- `double(v)` of a 64-bit integer: hardware conversion, round to nearest even (exact below 2^53) -/
def intToF64 (neg : Bool) (mag : Nat) : Nat := encodeRound f64 neg mag 0

/-- `convert_signed(v)` / `convert_unsigned(v)` = `convert_ieee754(double(v))` -/
def fromInt (c : Cfg) (t : Thresholds) (neg : Bool) (mag : Nat) (logv : Nat) : Nat :=
  convertF64 c t (intToF64 neg mag) logv

/-- bit pattern of 2^e in the format (e inside the format's range) -/
def pow2Bits (f : Fmt) (e : Int) : Nat := encodeRound f false 1 e

/-- the loop of `to_ieee754<TargetFloat>`: `value += multiplier` for every set bit of the magnitude `m` of the
    exponent field (bit i has weight 2^(i - rbits)), from bit 0 upwards, each addition in the target format -/
def accumulate (f : Fmt) (r : Nat) (m : Nat) : Nat → Nat → Nat → Nat
  | 0, _, acc => acc
  | k + 1, i, acc =>
    let acc' := if m.testBit i then IeeeBits.add f acc (pow2Bits f ((i : Int) - (r : Int))) else acc
    accumulate f r m k (i + 1) acc'

/-- the argument handed to `std::pow(2, ·)`: `none` for the special encodings, otherwise (sign of the lns,
    bit pattern of `value` in the target format) -/
def toIeeeExponent (f : Fmt) (c : Cfg) (a : Nat) : Option (Bool × Nat) :=
  let n := c.nbits
  if isNaN n c.w a || isZero n c.w a then none
  else
    let bb := assign n (n - 1) a                      -- ExponentBlockBinary bb(_block)
    let expNeg := bb.testBit (n - 2)
    let m := if expNeg then twosComp (n - 1) bb else bb
    let value := accumulate f c.rbits m (n - 1) 0 0
    some (sign n c.w a, if expNeg then negate f value else value)

/-- result of `to_ieee754` for the special encodings: TargetFloat(NAN), TargetFloat(0.0f) -/
def toIeeeSpecial (f : Fmt) (c : Cfg) (a : Nat) : Option Nat :=
  if isNaN c.nbits c.w a then some (quietNaN f)
  else if isZero c.nbits c.w a then some 0
  else none

/-- C++ `SignedInt(double)` for a double inside the integer's range: truncation toward zero, as `w`-bit two's complement
    printed as a 64-bit pattern (sign-extended) -/
def toSignedInt (d : Nat) : Nat :=
  ofSigned 64 (truncZ (toRat f64 d))

/-- lns<n1,r1,bt,B> → lns<n2,r2,bt,B>: the converting constructor `*this = double(rhs)`; `d` = the observed double(rhs),
    `logv` the observed log2(|d|).  When both types are the same the (defaulted) copy constructor is selected instead. -/
def lnsToLns (c1 c2 : Cfg) (t : Thresholds) (a d logv : Nat) : Nat :=
  if c1.nbits = c2.nbits ∧ c1.rbits = c2.rbits ∧ c1.w = c2.w ∧ c1.wrap = c2.wrap then a
  else convertF64 c2 t d logv

end UVerif.ConvLns
