/-
  UVerif.Model.ConvPosInt — the posit ↔ integer adapters `convert_p2i` / `convert_i2p`
  (include/universal/adapters/adapt_integer_and_posit.hpp:35-101, after the repairs of the repair wave), transcribed branch by branch on top of
  the posit model (UVerif.Model.Posit: `extractFields`, `decode`, `convert`) and the limb model of
  `integer<ibits, bt, IntegerNumber>` (UVerif.Model.Integer).  `w` = bits in a block, `ibits` = integer size.
  Core Lean only.
-/
import UVerif.Model.Posit
import UVerif.Model.Integer

namespace UVerif.ConvPosInt
open UVerif UVerif.Limbs UVerif.Posit

/-- `scale(const posit&)` (posit/attributes.hpp:179-189): two's complement of a negative pattern, `decode_regime`,
    `assign_regime_pattern`, `extract_exponent_bits`, `regime.scale() + exponent.scale()`. This is the field extraction of
    `extract_fields` WITHOUT its special-case tests, so it also runs on the patterns of 0 and NaR (all zeros after the
    sign: a regime run of n−1 zeros, clamped to k = −(n−2); for n = 2 that is k = 0). -/
def positScale (n es p : Nat) : Int := (extractFields n es (p % 2 ^ n)).scale

/-- `extract_significant` (attributes.hpp:193-201): `decode` (fraction reset for 0 / NaR), hidden bit made explicit:
    a `bitblock<fbits+1>` = 2^fbits + fraction. -/
def significant (n es p : Nat) : Nat := 2 ^ fbitsOf n es + (decode n es p).frac

/-- the `_scale ≥ 0` part of `convert_p2i` before the sign is applied (adapt_integer_and_posit.hpp:43-63); `sig` = significand
    with the hidden bit (`fb + 1` bits), `sc` = scale -/
def p2iMag (w ibits fb sig : Nat) (sc : Int) : List Nat :=
  if sc = 0 then Integer.convertSigned w ibits 1                       -- `v = 1`
  else
    let shift : Int := sc - (fb : Int)
    -- `lsb = shift < 0 ? -shift : 0`: the bits of the significand below the radix point are not copied
    let lsb : Nat := if shift < 0 then (-shift).toNat else 0
    -- `v.clear(); msb = min(v.nbits, fbits+1-lsb); for (i = msb-1 … 0) v.setbit(i, significant[i + lsb])`
    let msb := if ibits < fb + 1 - lsb then ibits else fb + 1 - lsb
    let v0 := ofNat w (nrBlocks w ibits) ((sig >>> lsb) % 2 ^ msb)
    -- `if (shift > 0) v <<= shift`
    if shift > 0 then Integer.shl w ibits v0 shift else v0

/-- `convert_p2i` (adapt_integer_and_posit.hpp:35-69). -/
def p2i (w ibits n es p : Nat) : List Nat :=
  let p := p % 2 ^ n
  let sc := positScale n es p
  -- `if (p.iszero() || p.isnar() || _scale < 0) { v = 0; return; }`
  if p = 0 ∨ p = 2 ^ (n - 1) ∨ sc < 0 then Integer.convertSigned w ibits 0
  else
    let v := p2iMag w ibits (fbitsOf n es) (significant n es p) sc
    -- `if (p.isneg()) { v.flip(); v += 1; }` — after both branches
    if p.testBit (n - 1) then Integer.add w ibits (Integer.flip w ibits v) (Integer.convertSigned w ibits 1) else v

/-- outcome of `convert_i2p` as the harness reports it. The repaired routine always returns an encoding: it no longer calls
    `scale(const integer&)` (whose loop did not terminate on multi-block `uint64_t`: `hang`) and no longer indexes position −1
    of the `bitblock<nbits>` (std::out_of_range: `exc`); the two other outcomes remain in the protocol so that a recurrence is
    reported as a difference to the model. -/
inductive I2P
  | hang                 -- the conversion did not return within the harness's time limit
  | exc                  -- the conversion threw std::out_of_range
  | enc (r : Nat)        -- the posit encoding
deriving Repr, DecidableEq

/-- the fraction loop of `convert_i2p` (adapt_integer_and_posit.hpp:87-98): bit `msb-1-j` of |w| goes to position `nbits-1-j` of
    a `bitblock<nbits>` while `j < nbits`; every further (lower) bit that is set sets position 0 — a sticky bit. `m` = msb. -/
def i2pFrac (n m mag : Nat) : Nat :=
  if m ≤ n then (mag % 2 ^ m) <<< (n - m) else stickyShr (mag % 2 ^ m) (m - n)

/-- `convert_i2p` (adapt_integer_and_posit.hpp:73-101) after `sign = w < 0` has been evaluated (the only place where the
    number type of the integer matters): `w == 0`, `w2 = sign ? twosComplement(w) : w`, `msb = findMsb(w2)` (−1 for zero),
    `_scale = msb`, the fraction loop, `value<nbits>::set`, `posit::operator=(value)` = `Posit.convert`. -/
def i2pCore (w ibits n es : Nat) (sign : Bool) (a : List Nat) : I2P :=
  let isZero := Integer.eq a (Integer.convertSigned w ibits 0)         -- `w == 0`
  let w2 := if sign then Integer.twosC w ibits a else a
  let msb := msbPos w w2
  .enc (Posit.convert n es { sign := sign, scale := msb, frac := i2pFrac n msb.toNat (toNat w w2), fb := n,
                             zero := isZero, inf := false })

/-- `convert_i2p` for IntegerNumber: `w < 0` = `operator<(w, integer(0))` -/
def i2p (w ibits n es : Nat) (a : List Nat) : I2P :=
  i2pCore w ibits n es (Integer.isneg w ibits a) a

def I2P.show : I2P → String
  | .hang => "hang"
  | .exc => "exc"
  | .enc r => toHex r

/-- p → i → p, as the harness does it: the integer produced by `p2i` converted back -/
def rtp (w ibits n es p : Nat) : List Nat × I2P :=
  let v := p2i w ibits n es p
  (v, i2p w ibits n es v)

/-- i → p → i -/
def rti (w ibits n es : Nat) (a : List Nat) : I2P × Option (List Nat) :=
  match i2p w ibits n es a with
  | .enc r => (.enc r, some (p2i w ibits n es r))
  | o => (o, none)


/-! ### `integer<ibits, bt, WholeNumber | NaturalNumber>`

`convert_p2i` uses only `operator=(int)`, `clear`, `setbit`, `<<=`, `flip`, `+=`, none of which looks at the number type (in the
default build without INTEGER_THROW_ARITHMETIC_EXCEPTION), so `p2i` above is also the model for the unsigned number types.
`convert_i2p` differs through `operator<` in `w < 0` only. -/

/-- `operator<` for WholeNumber / NaturalNumber (integer_impl.hpp:1702-1708): block scan from the top,
    `if (l == r) continue; if (l < r) return true;` — a block with `l > r` does NOT end the scan. Lists are most significant first. -/
def ltWholeRev : List Nat → List Nat → Bool
  | x :: xs, y :: ys => if x == y then ltWholeRev xs ys else if x < y then true else ltWholeRev xs ys
  | _, _ => false

def ltWhole (a b : List Nat) : Bool := ltWholeRev a.reverse b.reverse

/-- `convert_i2p` for WholeNumber / NaturalNumber: `w < 0` is the block scan (never true against zero) -/
def i2pWhole (w ibits n es : Nat) (a : List Nat) : I2P :=
  i2pCore w ibits n es (ltWhole a (Integer.convertSigned w ibits 0)) a

/-- number type of the integer: `false` = IntegerNumber, `true` = WholeNumber / NaturalNumber -/
def i2pK (unsignedKind : Bool) (w ibits n es : Nat) (a : List Nat) : I2P :=
  if unsignedKind then i2pWhole w ibits n es a else i2p w ibits n es a

def rtpK (u : Bool) (w ibits n es p : Nat) : List Nat × I2P :=
  let v := p2i w ibits n es p
  (v, i2pK u w ibits n es v)

def rtiK (u : Bool) (w ibits n es : Nat) (a : List Nat) : I2P × Option (List Nat) :=
  match i2pK u w ibits n es a with
  | .enc r => (.enc r, some (p2i w ibits n es r))
  | o => (o, none)

end UVerif.ConvPosInt
