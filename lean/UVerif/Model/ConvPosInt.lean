/-
  UVerif.Model.ConvPosInt — the posit ↔ integer adapters `convert_p2i` / `convert_i2p`
  (include/universal/adapters/adapt_integer_and_posit.hpp:35-89), transcribed branch by branch on top of
  the posit model (UVerif.Model.Posit: `extractFields`, `decode`, `convert`) and the limb model of
  `integer<ibits, bt, IntegerNumber>` (UVerif.Model.Integer).  `w` = bits in a block, `ibits` = integer size.
  Core Lean only.
-/
import UVerif.Model.Posit
import UVerif.Model.Integer

namespace UVerif.ConvPosInt
open UVerif UVerif.Limbs UVerif.Posit

/-- `scale(const posit&)` (posit/attributes.hpp:179-189): two's complement of a negative pattern, `decode_regime`,
    `assign_regime_pattern`, `extract_exponent_bits`, `regime.scale() + exponent.scale()`. This is the field extraction of
    `extract_fields` WITHOUT its special-case tests, so it also runs on the patterns of 0 and NaR (all zeros after the
    sign: a regime run of n−1 zeros, clamped to k = −(n−2); for n = 2 that is k = 0). -/
def positScale (n es p : Nat) : Int := (extractFields n es (p % 2 ^ n)).scale

/-- `extract_significant` (attributes.hpp:193-201): `decode` (fraction reset for 0 / NaR), hidden bit made explicit:
    a `bitblock<fbits+1>` = 2^fbits + fraction. -/
def significant (n es p : Nat) : Nat := 2 ^ fbitsOf n es + (decode n es p).frac

/-- `convert_p2i` (adapt_integer_and_posit.hpp:35-65). -/
def p2i (w ibits n es p : Nat) : List Nat :=
  let p := p % 2 ^ n
  let sc := positScale n es p
  if sc < 0 then Integer.convertSigned w ibits 0                       -- `v = 0`
  else if sc = 0 then Integer.convertSigned w ibits 1                  -- `v = 1` (whatever the sign)
  else
    let fb := fbitsOf n es
    let sig := significant n es p
    -- `v.clear(); msb = min(v.nbits, fbits+1); for (i = msb-1 … 0) v.setbit(i, significant[i])`: the LOW msb bits
    let msb := if ibits < fb + 1 then ibits else fb + 1
    let v0 := ofNat w (nrBlocks w ibits) (sig % 2 ^ msb)
    -- `v <<= _scale - fbits` (a negative count is the arithmetic `>>=`)
    let v1 := Integer.shl w ibits v0 (sc - (fb : Int))
    -- `if (p.isneg()) { v.flip(); v += 1; }`
    if p.testBit (n - 1) then Integer.add w ibits (Integer.flip w ibits v1) (Integer.convertSigned w ibits 1) else v1

/-- the loop of `scale(const integer&)` (integer_impl.hpp:57-61): `while (v > 1) { ++scale; v >>= 1; }`;
    `v > 1` is `operator<(integer(1), v)`. `none` = the loop does not terminate: after `n` arithmetic shifts `v` is a
    fixed point of `>>= 1`, so a loop that is still running after `n + 1` rounds runs forever. -/
def scaleLoop (w n : Nat) : Nat → List Nat → Option Nat
  | 0, _ => none
  | fuel + 1, v =>
    if Integer.lt w n (Integer.convertSigned w n 1) v then (scaleLoop w n fuel (Integer.shr w n v 1)).map (· + 1)
    else some 0

/-- `scale(const integer&)` (integer_impl.hpp:46-63) -/
def intScale (w n : Nat) (a : List Nat) : Option Nat :=
  if Integer.sign w n a then
    let v := Integer.twosC w n a
    if Integer.eq v a then some (n - 1) else scaleLoop w n (n + 2) v
  else scaleLoop w n (n + 2) a

/-- outcome of `convert_i2p` -/
inductive I2P
  | hang                 -- `scale(w)` never returns
  | exc                  -- `bitblock<nbits>::set(size_t(-1), …)` throws std::out_of_range
  | enc (r : Nat)        -- the posit encoding
deriving Repr, DecidableEq

/-- `convert_i2p` (adapt_integer_and_posit.hpp:69-89). The fraction loop writes bit `msb-1-j` of |w| to position
    `nbits-1-j` of a `bitblock<nbits>`; the `(nbits+1)`-th iteration indexes position −1 and std::bitset throws. -/
def i2p (w ibits n es : Nat) (a : List Nat) : I2P :=
  let zero := Integer.convertSigned w ibits 0
  let sign := Integer.isneg w ibits a                 -- `w < 0` = `operator<(w, integer(0))`
  let isZero := Integer.eq a zero                     -- `w == 0`
  match intScale w ibits a with
  | none => .hang
  | some sc =>
    let w2 := if sign then Integer.twosC w ibits a else a
    let msb := msbPos w w2                            -- `findMsb(w2)`, −1 for zero
    if msb > (n : Int) then .exc
    else
      let m := msb.toNat
      let frac := (toNat w w2 % 2 ^ m) <<< (n - m)
      .enc (Posit.convert n es { sign := sign, scale := (sc : Int), frac := frac, fb := n, zero := isZero, inf := false })

def I2P.show : I2P → String
  | .hang => "hang"
  | .exc => "exc"
  | .enc r => toHex r

/-- p → i → p, as the harness does it: the integer produced by `p2i` converted back -/
def rtp (w ibits n es p : Nat) : List Nat × I2P :=
  let v := p2i w ibits n es p
  (v, i2p w ibits n es v)

/-- i → p → i -/
def rti (w ibits n es : Nat) (a : List Nat) : I2P × Option (List Nat) :=
  match i2p w ibits n es a with
  | .enc r => (.enc r, some (p2i w ibits n es r))
  | o => (o, none)


/-! ### `integer<ibits, bt, WholeNumber | NaturalNumber>`

`convert_p2i` uses only `operator=(int)`, `clear`, `setbit`, `<<=`, `flip`, `+=`, none of which looks at the number type (in the
default build without INTEGER_THROW_ARITHMETIC_EXCEPTION), so `p2i` above is also the model for the unsigned number types.
`convert_i2p` differs through `operator<`: `w < 0`, and `v > 1` inside `scale(integer)`; `sign()` is still bit `nbits-1`
and `>>=` still sign-extends. -/

/-- `operator<` for WholeNumber / NaturalNumber (integer_impl.hpp:1702-1708): block scan from the top,
    `if (l == r) continue; if (l < r) return true;` — a block with `l > r` does NOT end the scan. Lists are most significant first. -/
def ltWholeRev : List Nat → List Nat → Bool
  | x :: xs, y :: ys => if x == y then ltWholeRev xs ys else if x < y then true else ltWholeRev xs ys
  | _, _ => false

def ltWhole (a b : List Nat) : Bool := ltWholeRev a.reverse b.reverse

def scaleLoopWhole (w n : Nat) : Nat → List Nat → Option Nat
  | 0, _ => none
  | fuel + 1, v =>
    if ltWhole (Integer.convertSigned w n 1) v then (scaleLoopWhole w n fuel (Integer.shr w n v 1)).map (· + 1)
    else some 0

/-- `scale(const integer&)` for the unsigned number types: `i.sign()` is the top bit all the same, so a value ≥ 2^(nbits-1)
    is two's-complemented before its bits are counted -/
def intScaleWhole (w n : Nat) (a : List Nat) : Option Nat :=
  if Integer.sign w n a then
    let v := Integer.twosC w n a
    if Integer.eq v a then some (n - 1) else scaleLoopWhole w n (n + 2) v
  else scaleLoopWhole w n (n + 2) a

/-- `convert_i2p` for WholeNumber / NaturalNumber -/
def i2pWhole (w ibits n es : Nat) (a : List Nat) : I2P :=
  let zero := Integer.convertSigned w ibits 0
  let sign := ltWhole a zero                          -- `w < 0`: never true
  let isZero := Integer.eq a zero
  match intScaleWhole w ibits a with
  | none => .hang
  | some sc =>
    let w2 := if sign then Integer.twosC w ibits a else a
    let msb := msbPos w w2
    if msb > (n : Int) then .exc
    else
      let m := msb.toNat
      let frac := (toNat w w2 % 2 ^ m) <<< (n - m)
      .enc (Posit.convert n es { sign := sign, scale := (sc : Int), frac := frac, fb := n, zero := isZero, inf := false })

/-- number type of the integer: `false` = IntegerNumber, `true` = WholeNumber / NaturalNumber -/
def i2pK (unsignedKind : Bool) (w ibits n es : Nat) (a : List Nat) : I2P :=
  if unsignedKind then i2pWhole w ibits n es a else i2p w ibits n es a

def rtpK (u : Bool) (w ibits n es p : Nat) : List Nat × I2P :=
  let v := p2i w ibits n es p
  (v, i2pK u w ibits n es v)

def rtiK (u : Bool) (w ibits n es : Nat) (a : List Nat) : I2P × Option (List Nat) :=
  match i2pK u w ibits n es a with
  | .enc r => (.enc r, some (p2i w ibits n es r))
  | o => (o, none)

end UVerif.ConvPosInt
