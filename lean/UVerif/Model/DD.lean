/-
  UVerif.Model.DD — double-double (`number/dd/dd_impl.hpp`) and quad-double (`number/qd/qd_impl.hpp`)
  operators as straight-line programs over Model.F64, in the written order of the C++.
  Generic in the float format `f` (binary64 is the instance the driver runs).
-/
import UVerif.Model.F64

namespace UVerif.DD
open UVerif.F64

structure DD where
  hi : F
  lo : F
deriving Repr, DecidableEq, Inhabited

section
variable (f : Fmt)

def ofF (x : F) : DD := ⟨x, pzero⟩

/-- `dd::isnan()`: only the leading limb is inspected (NaN payloads are not modelled: every NaN the
    hardware produces, and the two patterns the harness feeds, are recognised by `checkNaN`). -/
def DD.isnan (a : DD) : Bool := a.hi.isNaN
def DD.iszero (a : DD) : Bool := feq a.hi pzero
def DD.neg (a : DD) : DD := ⟨a.hi.neg, a.lo.neg⟩

def qnan : DD := ⟨.nan, pzero⟩
def infpos : DD := ⟨.inf false, pzero⟩

/-- `dd::operator+=`. -/
def add (a b : DD) : DD :=
  let (hi, s2) := twoSum f a.hi b.hi
  if hi.isFinite then
    let (t1, t2) := twoSum f a.lo b.lo
    let (lo, t1) := twoSum f s2 t1
    let t1 := F64.add f t1 t2
    let (hi, lo, _) := threeSum f hi lo t1
    ⟨hi, lo⟩
  else ⟨hi, pzero⟩

/-- `dd::operator-=` (negates the limbs of rhs inside the two_sum calls). -/
def sub (a b : DD) : DD := add f a b.neg

/-- `dd::operator*=`. -/
def mul (a b : DD) : DD :=
  let (p0, p1) := twoProd f a.hi b.hi
  if p0.isFinite then
    let (p2, p4) := twoProd f a.hi b.lo
    let (p3, p5) := twoProd f a.lo b.hi
    let p6 := F64.mul f a.lo b.lo
    let (p1, p2, _p3) := threeSum f p1 p2 p3
    let p2 := F64.add f p2 (F64.add f (F64.add f p4 p5) p6)
    let (p0, p1, _) := threeSum f p0 p1 p2
    ⟨p0, p1⟩
  else ⟨p0, pzero⟩

/-- `qd_mul(dd a, dd b, double p[4])`. -/
def qdMul (a b : DD) : F × F × F × F :=
  let (p0, p1) := twoProd f a.hi b.hi
  if p0.isFinite then
    let (p2, p4) := twoProd f a.hi b.lo
    let (p3, p5) := twoProd f a.lo b.hi
    let (p6, p7) := twoProd f a.lo b.lo
    let (p1, p2, p3) := threeSum f p1 p2 p3
    let (p4, p5, p6) := threeSum f p4 p5 p6
    let (p2, p4) := twoSum f p2 p4
    let (p3, p4, _p5) := threeSum f p3 p4 p5
    let (p3, p7) := twoSum f p3 p7
    let p4 := F64.add f p4 (F64.add f p6 p7)
    renorm5 f p0 p1 p2 p3 p4
  else (p0, pzero, pzero, pzero)

/-- `qd_add(double a[4], dd b, double s[4])`. -/
def qdAdd (a : F × F × F × F) (b : DD) : F × F × F × F :=
  let (a0, a1, a2, a3) := a
  let (s0, t0) := twoSum f a0 b.hi
  let (s1, t1) := twoSum f a1 b.lo
  let (s1, t0) := twoSum f s1 t0
  let s2 := a2
  let (s2, t0, t1) := threeSum f s2 t0 t1
  let (s3, t0) := twoSum f a3 t0
  let t0 := F64.add f t0 t1
  renorm5 f s0 s1 s2 s3 t0

/-- `fma(dd a, dd b, dd c)`. -/
def fma (a b c : DD) : DD :=
  let p := qdMul f a b
  let (p0, p1, p2, p3) := qdAdd f p c
  let (p0, p1) := twoSum f p0 (F64.add f (F64.add f p1 p2) p3)
  ⟨p0, p1⟩

/-- `dd::operator/=`: a zero divisor gives NaN (0/0) or `setinf(signbit(hi) != signbit(rhs.hi))`; the residual
    refinement runs only when the approximate quotient AND the divisor's head are finite (finite / inf is the signed zero q1). -/
def div (a b : DD) : DD :=
  if a.isnan then a
  else if b.isnan then b
  else if b.iszero then (if a.iszero then qnan else ⟨.inf (a.hi.sign != b.hi.sign), pzero⟩)
  else
    let q1 := F64.div f a.hi b.hi
    if q1.isFinite && b.hi.isFinite then
      let r := fma f (ofF q1.neg) b a
      let q2 := F64.div f r.hi b.hi
      let r := fma f (ofF q2.neg) b r
      let q3 := F64.div f r.hi b.hi
      let (q1, q2, _) := threeSum f q1 q2 q3
      ⟨q1, q2⟩
    else ⟨q1, pzero⟩

/-- `sqr(dd)`. -/
def sqr (a : DD) : DD :=
  if a.isnan then a else
  let (p1, p2) := twoSqr f a.hi
  let two := ofNatExact f 2
  let p2 := F64.add f p2 (F64.mul f (F64.mul f two a.hi) a.lo)
  let p2 := F64.add f p2 (F64.mul f a.lo a.lo)
  let (s1, s2) := quickTwoSum f p1 p2
  ⟨s1, s2⟩

/-- free function `add(double, double)` → dd. -/
def addDD (a b : F) : DD :=
  if a.isNaN || b.isNaN then qnan else
  let (s, e) := twoSum f a b
  ⟨s, e⟩

/-- free function `sub(double, double)` → dd. -/
def subDD (a b : F) : DD :=
  if a.isNaN || b.isNaN then qnan else
  let (s, e) := twoSum f a b.neg
  ⟨s, e⟩

/-- free function `mul(double, double)` → dd. -/
def mulDD (a b : F) : DD :=
  if a.isNaN || b.isNaN then qnan else
  let (p, e) := twoProd f a b
  ⟨p, e⟩

/-- `mul_pwr2(dd, double)`. -/
def mulPwr2 (a : DD) (b : F) : DD := ⟨F64.mul f a.hi b, F64.mul f a.lo b⟩

/-- `sqrt(dd)` with DOUBLEDOUBLE_NATIVE_SQRT (Karp's trick). Negative arguments only print a message; `+inf` is returned
    unchanged. -/
def sqrt (a : DD) : DD :=
  if a.iszero then ⟨pzero, pzero⟩ else
  if a.hi == .inf false then a else      -- `if (a.isinf(INF_TYPE_POSITIVE)) return a;`
  let one := ofNatExact f 1
  let x := F64.div f one (F64.sqrt f a.hi)
  let ax := F64.mul f a.hi x
  let half := F64.div f one (ofNatExact f 2)
  let d := sub f a (sqr f (ofF ax))
  addDD f ax (F64.mul f d.hi (F64.mul f x half))

/-- comparison mask: bit0 ==, bit1 !=, bit2 <, bit3 <=, bit4 >, bit5 >= as the C++ operators compute them. -/
def ddEq (a b : DD) : Bool := feq a.hi b.hi && feq a.lo b.lo
def ddLt (a b : DD) : Bool :=
  if flt a.hi b.hi then true
  else if fgt a.hi b.hi then false
  else if flt a.lo b.lo then true
  else false
def cmpMask (a b : DD) : Nat :=
  let eq := ddEq a b
  let lt := ddLt a b
  let gt := ddLt b a
  (if eq then 1 else 0) + (if !eq then 2 else 0) + (if lt then 4 else 0) + (if lt || eq then 8 else 0)
    + (if gt then 16 else 0) + (if !lt then 32 else 0)

/-- `convert_signed(int64_t)` / `convert_unsigned(uint64_t)`: the two halves of the integer (both exact doubles) and an
    inline quick_two_sum:
      `low = v & 0xFFFFFFFF;  h = double(v - low);  l = double(low);  hi = h + l;  lo = l - (hi - h);`
    (`v & 0xFFFFFFFF` of a two's-complement int64 is `v mod 2^32`, non-negative). -/
def ofInt64 (v : Int) : DD :=
  if v = 0 then ⟨pzero, pzero⟩ else
  let low := v % (2 ^ 32 : Int)
  let h := ofInt f (v - low)
  let l := ofInt f low
  let hi := F64.add f h l
  ⟨hi, F64.sub f l (F64.sub f hi h)⟩

/-- the correction of `l = int64(lo)` in `convert_to_signed` / `convert_to_unsigned`:
      `double f = lo - std::trunc(lo);
       if (hi == std::trunc(hi)) { if (hi > 0.0 && f < 0.0) --l;  if (hi < 0.0 && f > 0.0) ++l; }` -/
def tailAdjust (hi lo : F) : Int :=
  let fr := fracPart f lo
  if isIntegral f hi then
    (if fgt hi pzero && flt fr pzero then -1 else 0) + (if flt hi pzero && fgt fr pzero then 1 else 0)
  else 0

/-- `convert_to_signed<long long>()`: `int64(hi) + (int64(lo) corrected)` (wrapping): the value truncated toward zero. -/
def toInt64 (a : DD) : Int := wrapI64 (toI64 f a.hi + toI64 f a.lo + tailAdjust f a.hi a.lo)

/-- `convert_to_unsigned<unsigned long long>()`: the head through `int64_t` below 2^63 (as before the repair) and through
    `uint64_t` from 2^63 on (NaN compares false with 2^63 and takes the second branch); 64-bit pattern of `h + uint64_t(l)`. -/
def toUInt64 (a : DD) : Nat :=
  let h : Nat := if flt a.hi (ofNatExact f (2 ^ 63)) then ofSigned 64 (toI64 f a.hi) else toU64 f a.hi
  ofSigned 64 ((h : Int) + toI64 f a.lo + tailAdjust f a.hi a.lo)

/-- `convert_to_ieee754<double>()`: `hi + lo`. -/
def toDouble (a : DD) : F := F64.add f a.hi a.lo

/-! ### quad-double -/

abbrev QD := F × F × F × F

def qdNeg (a : QD) : QD := (a.1.neg, a.2.1.neg, a.2.2.1.neg, a.2.2.2.neg)

def absGt (x y : F) : Bool := fgt x.abs y.abs

def getL (l : List F) (i : Nat) : F := l.getD i pzero

/-- state of the merge loop of `accurate_addition`. -/
structure AccSt where
  i : Nat
  j : Nat
  k : Nat
  u : F
  v : F
  c : List F      -- four entries

def setL (l : List F) (i : Nat) (x : F) : List F := l.set i x

def accLoop (a b : List F) : Nat → AccSt → AccSt
  | 0, st => st
  | fuel + 1, st =>
    if st.k ≥ 4 then st
    else if st.i ≥ 4 && st.j ≥ 4 then
      let c := setL st.c st.k st.u
      if st.k < 3 then { st with c := setL c (st.k + 1) st.v, k := st.k + 1 } else { st with c := c }
    else
      let (t, i, j) :=
        if st.i ≥ 4 then (getL b st.j, st.i, st.j + 1)
        else if st.j ≥ 4 then (getL a st.i, st.i + 1, st.j)
        else if absGt (getL a st.i) (getL b st.j) then (getL a st.i, st.i + 1, st.j)
        else (getL b st.j, st.i, st.j + 1)
      let (s, u, v) := quickThreeAccum f st.u st.v t
      if nez s then accLoop a b fuel { st with i := i, j := j, u := u, v := v, c := setL st.c st.k s, k := st.k + 1 }
      else accLoop a b fuel { st with i := i, j := j, u := u, v := v }

/-- `qd::accurate_addition` (= `operator+=` with IEEE_ERROR_BOUND). -/
def qdAddQ (a b : QD) : QD :=
  let al := [a.1, a.2.1, a.2.2.1, a.2.2.2]
  let bl := [b.1, b.2.1, b.2.2.1, b.2.2.2]
  let (u, i, j) := if absGt (getL al 0) (getL bl 0) then (getL al 0, 1, 0) else (getL bl 0, 0, 1)
  let (v, i, j) := if absGt (getL al i) (getL bl j) then (getL al i, i + 1, j) else (getL bl j, i, j + 1)
  let (u, v) := quickTwoSum f u v
  let st := accLoop f al bl 10 { i := i, j := j, k := 0, u := u, v := v, c := [pzero, pzero, pzero, pzero] }
  -- add the rest
  let c3 := (List.range 4).foldl (fun acc k => if k ≥ st.i then F64.add f acc (getL al k) else acc) (getL st.c 3)
  let c3 := (List.range 4).foldl (fun acc k => if k ≥ st.j then F64.add f acc (getL bl k) else acc) c3
  renorm4 f (getL st.c 0) (getL st.c 1) (getL st.c 2) c3

def qdSubQ (a b : QD) : QD := qdAddQ f a (qdNeg b)

/-- `qd::accurate_multiplication` (= `operator*=` with ACCURATE_MULTIPLICATION). -/
def qdMulQ (a b : QD) : QD :=
  let (a0, a1, a2, a3) := a
  let (b0, b1, b2, b3) := b
  let (p0, q0) := twoProd f a0 b0
  let (p1, q1) := twoProd f a0 b1
  let (p2, q2) := twoProd f a1 b0
  let (p3, q3) := twoProd f a0 b2
  let (p4, q4) := twoProd f a1 b1
  let (p5, q5) := twoProd f a2 b0
  let (p1, p2, q0) := threeSum f p1 p2 q0
  let (p2, q1, q2) := threeSum f p2 q1 q2
  let (p3, p4, p5) := threeSum f p3 p4 p5
  let (s0, t0) := twoSum f p2 p3
  let (s1, t1) := twoSum f q1 p4
  let s2 := F64.add f q2 p5
  let (s1, t0) := twoSum f s1 t0
  let s2 := F64.add f s2 (F64.add f t0 t1)
  let (p6, q6) := twoProd f a0 b3
  let (p7, q7) := twoProd f a1 b2
  let (p8, q8) := twoProd f a2 b1
  let (p9, q9) := twoProd f a3 b0
  let (q0, q3) := twoSum f q0 q3
  let (q4, q5) := twoSum f q4 q5
  let (p6, p7) := twoSum f p6 p7
  let (p8, p9) := twoSum f p8 p9
  let (t0, t1) := twoSum f q0 q4
  let t1 := F64.add f t1 (F64.add f q3 q5)
  let (r0, r1) := twoSum f p6 p8
  let r1 := F64.add f r1 (F64.add f p7 p9)
  let (q3, q4) := twoSum f t0 r0
  let q4 := F64.add f q4 (F64.add f t1 r1)
  let (t0, t1) := twoSum f q3 s1
  let t1 := F64.add f t1 q4
  let ad := F64.add f
  let ml := F64.mul f
  let tail := ad (ad (ad (ad (ad (ad (ad (ml a1 b3) (ml a2 b2)) (ml a3 b1)) q6) q7) q8) q9) s2
  let t1 := ad t1 tail
  renorm5 f p0 p1 s0 t0 t1

end

end UVerif.DD
