/-
  UVerif.Model.Elastic — the elastic types of universal transcribed loop by loop:
    einteger<BlockType>  include/universal/number/einteger/einteger_impl.hpp
    edecimal             include/universal/number/edecimal/edecimal_impl.hpp
    erational            include/universal/number/erational/erational_impl.hpp
  The model follows the code as it stands after the elastic repair commits (einteger: `*=` row carry, `-=` with a
  negative left operand, signed `==`/`<`, signs of quotient and remainder, `>>=` limb move, `<<=` leading zero limb, Knuth-D
  borrow/carry/shift arithmetic;
  edecimal: no negative or padded zero from `%`, unary minus, `<<=`; erational: unsigned zero).  Core Lean only.
  Every function is structurally recursive (lists / explicit fuel) so that the kernel can evaluate
  concrete witnesses by `decide`.
-/
import UVerif.Basic

namespace UVerif.EInt

/-- state of an `einteger<bt>` object: `_sign`, `_block` (little endian limbs, each `< 2^w`). -/
structure EI where
  sign : Bool := false
  limbs : List Nat := []
deriving Repr, DecidableEq, Inhabited

/-- `block(i)`: limb `i`, 0 beyond the vector. -/
def block (l : List Nat) (i : Nat) : Nat := l.getD i 0

/-- `setblock(i, v)`: resize to `i+1` when needed, then store. -/
def setblock (l : List Nat) (i v : Nat) : List Nat :=
  if i < l.length then l.set i v else l ++ List.replicate (i - l.length) 0 ++ [v]

/-- `remove_leading_zeros()`: drop the most significant zero limbs (the tail of the little-endian list). -/
def stripTop : List Nat → List Nat
  | [] => []
  | x :: xs =>
    match stripTop xs with
    | [] => if x = 0 then [] else [x]
    | r => x :: r

/-- `iszero()`: no limbs, or exactly one limb equal to 0. -/
def isZero (x : EI) : Bool :=
  match x.limbs with
  | [] => true
  | [v] => v == 0
  | _ => false

/-- magnitude denoted by a limb vector at limb width `w`. -/
def toNat (w : Nat) : List Nat → Nat
  | [] => 0
  | x :: xs => x + 2 ^ w * toNat w xs

/-- integer denoted by an object. -/
def toInt (w : Nat) (x : EI) : Int :=
  if x.sign then -(toNat w x.limbs : Int) else (toNat w x.limbs : Int)

/-- every limb fits the block type. -/
def LimbsOk (w : Nat) (l : List Nat) : Prop := ∀ x ∈ l, x < 2 ^ w

/-- no most-significant zero limb (the invariant the class comment promises). -/
def NoLeadingZero (l : List Nat) : Prop := l.getLast? ≠ some 0

def noLeadingZeroB (l : List Nat) : Bool := l.getLast? != some 0

def absE (x : EI) : EI := { x with sign := false }

/-! ### operator+= / operator-= -/

/-- the carry loop of `operator+=` over the (resized) left operand. -/
def addLoop (w : Nat) : List Nat → List Nat → Nat → List Nat
  | [], _, c => if c = 1 then [1] else []
  | x :: xs, ys, c =>
    let s := x + ys.headD 0 + c
    (s % 2 ^ w) :: addLoop w xs ys.tail (s / 2 ^ w)

def padTo (n : Nat) (l : List Nat) : List Nat := l ++ List.replicate (n - l.length) 0

/-- same-sign branch of `operator+=`. -/
def addCore (w : Nat) (x r : EI) : EI :=
  { sign := x.sign, limbs := addLoop w (padTo r.limbs.length x.limbs) r.limbs 0 }

/-- `compare_magnitude` on equal-length vectors (most significant limb last). -/
def cmpLE : List Nat → List Nat → Ordering
  | x :: xs, y :: ys =>
    match cmpLE xs ys with
    | .eq => compare x y
    | o => o
  | _, _ => .eq

/-- `compare_magnitude`: limb counts first, then limbs from the top. -/
def cmpMag (a b : List Nat) : Ordering :=
  if a.length ≠ b.length then (if a.length > b.length then .gt else .lt) else cmpLE a b

/-- the borrow loops of `operator-=` (`a` is the longer vector; `b` is read as 0 beyond its end). The
    C++ computes `uint64(a) - uint64(b) - borrow` and takes bit `w` as the next borrow; for `w ≤ 32`
    that is this case split. -/
def subLoop (w : Nat) : List Nat → List Nat → Nat → List Nat
  | [], _, _ => []
  | x :: xs, ys, c =>
    let y := ys.headD 0
    if y + c ≤ x then (x - y - c) :: subLoop w xs ys.tail 0
    else (x + 2 ^ w - y - c) :: subLoop w xs ys.tail 1

/-- the borrow loops of `operator-=` (both operands non-negative when reached). -/
def subCore (w : Nat) (x r : EI) : EI :=
  if x.limbs.length = 0 then { sign := !r.sign, limbs := r.limbs }
  else
    let m := cmpMag x.limbs r.limbs
    let res := if m = .gt then subLoop w x.limbs r.limbs 0 else subLoop w r.limbs x.limbs 0
    { sign := (m == .lt), limbs := stripTop res }

/-- `operator+=`. -/
def add (w : Nat) (x r : EI) : EI :=
  if x.sign != r.sign then
    if x.sign then subCore w r (absE x)      -- *this = rhs - (-*this)
    else subCore w x (absE r)                -- *this -= (-rhs)
  else addCore w x r

/-- `operator-=`: negative rhs → `+=`; negative `*this` (with a non-negative rhs) → `-(|*this| + rhs)`;
    otherwise the borrow loops. -/
def sub (w : Nat) (x r : EI) : EI :=
  if r.sign then add w x (absE r)
  else if x.sign then
    let s := add w (absE x) r
    { s with sign := !isZero s }
  else subCore w x r

/-- `operator-()`. -/
def neg (x : EI) : EI := { x with sign := !x.sign }

/-! ### operator*= -/

/-- inner loop of `operator*=` for the left limb `bi` at row `i`: running segment, limb `i+j` updated. -/
def mulRow (w bi i : Nat) : List Nat → Nat → List Nat → Nat → List Nat × Nat
  | [], _, acc, seg => (acc, seg)
  | rj :: rs, j, acc, seg =>
    let s := seg + bi * rj + block acc (i + j)
    mulRow w bi i rs (j + 1) (setblock acc (i + j) (s % 2 ^ w)) (s / 2 ^ w)

/-- outer loop: the carry left by row `i` is stored in limb `i+rl` (when non-zero) and reset (repaired in b19930a). -/
def mulRowsFixed (w : Nat) (r : List Nat) : List Nat → Nat → List Nat → List Nat
  | [], _, acc => acc
  | bi :: bs, i, acc =>
    let p := mulRow w bi i r 0 acc 0
    mulRowsFixed w r bs (i + 1) (if p.2 ≠ 0 then setblock p.1 (i + r.length) p.2 else p.1)

def mulFixed (w : Nat) (x r : EI) : EI :=
  if isZero x || isZero r then {}
  else { sign := x.sign != r.sign, limbs := mulRowsFixed w r.limbs x.limbs 0 [] }

/-- `operator*=` (the loop as repaired by commit b19930a; `parse` multiplies through it). -/
@[inline] def mul (w : Nat) (x r : EI) : EI := mulFixed w x r

/-! ### shifts -/

def shlBits (w s : Nat) : Nat → List Nat → List Nat
  | _, [] => []
  | prev, x :: xs => ((x * 2 ^ s) % 2 ^ w + prev / 2 ^ (w - s)) :: shlBits w s x xs

/-- `operator<<=` for `k ≥ 0`. -/
def shl (w : Nat) (x : EI) (k : Nat) : EI :=
  if k = 0 then x
  else
    let l1 := x.limbs ++ [0]
    let bs := if k ≥ w then k / w else 0
    let l2 := List.replicate bs 0 ++ l1
    let s := k - bs * w
    if k ≥ w ∧ s = 0 then { x with limbs := stripTop l2 }   -- whole limbs only: remove_leading_zeros(), return
    else { x with limbs := stripTop (shlBits w s 0 l2) }

def shrBits (w s : Nat) : List Nat → List Nat
  | [] => []
  | x :: xs => (x / 2 ^ s + (xs.headD 0 % 2 ^ s) * 2 ^ (w - s)) :: shrBits w s xs

/-- the block move of `operator>>=`: limbs `bs…MSU` move down by `bs`, the vacated upper `bs` limbs are nulled. -/
def shrBlocks (l : List Nat) (bs : Nat) : List Nat :=
  if l.length - 1 ≥ bs then l.drop bs ++ List.replicate bs 0 else l

/-- `operator>>=` for `k ≥ 0`. -/
def shr (w : Nat) (x : EI) (k : Nat) : EI :=
  if k = 0 then x
  else if k ≥ x.limbs.length * w then {}
  else
    let bs := if k ≥ w then k / w else 0
    let l2 := if k ≥ w then shrBlocks x.limbs bs else x.limbs
    let s := k - bs * w
    if k ≥ w ∧ s = 0 then { x with limbs := stripTop l2 }
    else { x with limbs := stripTop (shrBits w s l2) }

/-! ### comparisons -/

/-- `operator==`: two zeros are equal whatever their flags; otherwise signs and limbs must agree. -/
def eqE (a b : EI) : Bool := (isZero a && isZero b) || (a.sign == b.sign && a.limbs == b.limbs)

/-- magnitude order as `operator<` and `compare_magnitude` compute it: limb counts, then limbs from the top. -/
def ltMag (a b : List Nat) : Bool :=
  if a.length < b.length then true
  else if a.length > b.length then false
  else cmpLE a b == .lt

/-- `operator<`: a non-zero negative value is below everything non-negative; equal signs order the magnitudes
    (the other way round for two negative values). -/
def ltE (a b : EI) : Bool :=
  let ln := a.sign && !isZero a
  let rn := b.sign && !isZero b
  if ln != rn then ln
  else if ln then ltMag b.limbs a.limbs else ltMag a.limbs b.limbs

def cmpMask (a b : EI) : Nat :=
  let eq := eqE a b
  let lt := ltE a b
  let gt := ltE b a
  (if eq then 1 else 0) + (if !eq then 2 else 0) + (if lt then 4 else 0) + (if lt || eq then 8 else 0)
   + (if gt then 16 else 0) + (if !lt then 32 else 0)

/-! ### reduce(): quotient and remainder -/

/-- long division by one limb, most significant limb first (the recursion reaches the top limb first). -/
def divLimb (w d : Nat) : List Nat → List Nat × Nat
  | [] => ([], 0)
  | x :: xs =>
    let p := divLimb w d xs
    let t := p.2 * 2 ^ w + x
    ((t / d) % 2 ^ w :: p.1, t % d)

/-- `nlz` of a non-zero limb. -/
def nlz (w x : Nat) : Nat := w - (Nat.log2 x + 1)

/-- the q̂ correction loop (Knuth D3): decrement while the two-limb test fails, stop once `rhat` no longer fits a limb. -/
def qhatLoop (B v d a2 : Nat) : Nat → Nat → Nat → Nat × Nat
  | 0, q, r => (q, r)
  | fuel + 1, q, r =>
    if q ≥ B || q * v > B * r + a2 then
      if r + d ≥ B then (q - 1, r + d) else qhatLoop B v d a2 fuel (q - 1) (r + d)
    else (q, r)

/-- multiply and subtract (Knuth D4) with the signed borrow of the C++ (`int64_t`, arithmetic shift). -/
def mulSubLoop (w qhat j : Nat) (nb : List Nat) : List Nat → Nat → List Nat → Int → List Nat × Int
  | [], _, na, borrow => (na, borrow)
  | bi :: bs, i, na, borrow =>
    let p := qhat * bi
    let t : Int := (block na (i + j) : Int) - borrow - ((p % 2 ^ w : Nat) : Int)
    mulSubLoop w qhat j nb bs (i + 1) (setblock na (i + j) (t % ((2 ^ w : Nat) : Int)).toNat)
      (((p / 2 ^ w : Nat) : Int) - t / ((2 ^ w : Nat) : Int))

/-- add back (Knuth D6): one limb-wise addition of the divisor. -/
def addBackLoop (w j : Nat) : List Nat → Nat → List Nat → Nat → List Nat × Nat
  | [], _, na, carry => (na, carry)
  | bi :: bs, i, na, carry =>
    let c := carry + block na (i + j) + bi
    addBackLoop w j bs (i + 1) (setblock na (i + j) (c % 2 ^ w)) (c / 2 ^ w)

structure KState where
  na : List Nat
  q : List Nat
  corr : Nat := 0     -- coverage: number of q̂ decrements
  addback : Nat := 0  -- coverage: number of add-back steps

/-- one iteration `j` of the Knuth-D loop. -/
def knuthStep (w n : Nat) (nb : List Nat) (st : KState) (j : Nat) : KState :=
  let B := 2 ^ w
  let divisor := block nb (n - 1)
  let v2 := block nb (n - 2)
  let dividend := block st.na (j + n) * B + block st.na (j + n - 1)
  let qhat0 := dividend / divisor
  let rhat0 := dividend - qhat0 * divisor
  let a2 := block st.na (j + n - 2)
  let qhat := (qhatLoop B v2 divisor a2 (qhat0 + 1) qhat0 rhat0).1
  let ms := mulSubLoop w qhat j nb nb 0 st.na 0
  let sb : Int := (block ms.1 (j + n) : Int) - ms.2
  let na1 := setblock ms.1 (j + n) (sb % ((B : Nat) : Int)).toNat
  let q1 := setblock st.q j (qhat % B)
  let ncorr := st.corr + (qhat0 - qhat)
  if sb < 0 then
    let q2 := setblock q1 j ((block q1 j + B - 1) % B)
    let ab := addBackLoop w j nb 0 na1 0
    let na2 := setblock ab.1 (j + n) ((block ab.1 (j + n) + ab.2) % B)
    { na := na2, q := q2, corr := ncorr, addback := st.addback + 1 }
  else { na := na1, q := q1, corr := ncorr, addback := st.addback }

inductive DivPath | zero | native | less | single | knuth
deriving Repr, DecidableEq

structure DivResult where
  q : EI
  r : EI
  path : DivPath
  corr : Nat := 0
  addback : Nat := 0

/-- epilogue of reduce(): the quotient (leading zero limbs removed) is negative iff the signs differ and it is not zero. -/
def signedQ (a b : EI) (l : List Nat) : EI :=
  { sign := (a.sign != b.sign) && !isZero { sign := false, limbs := l }, limbs := l }

/-- epilogue of reduce(): the remainder (leading zero limbs removed) takes the sign of the dividend unless it is zero. -/
def signedR (a : EI) (l : List Nat) : EI :=
  { sign := a.sign && !isZero { sign := false, limbs := l }, limbs := l }

/-- `q.reduce(a, b, r)` with fresh `q`, `r`. -/
def reduce (w : Nat) (a b : EI) : DivResult :=
  if isZero b then { q := {}, r := {}, path := .zero }
  else if isZero a then { q := {}, r := {}, path := .zero }
  else if a.limbs.length = 1 ∧ b.limbs.length = 1 then
    let a0 := block a.limbs 0
    let b0 := block b.limbs 0
    let qv := a0 / b0
    let rv := a0 % b0
    { q := signedQ a b (if qv = 0 then [] else [qv]),
      r := signedR a (if rv = 0 then [] else [rv]), path := .native }
  else if cmpMag a.limbs b.limbs == .lt then { q := {}, r := a, path := .less }   -- compare_magnitude(a, b) < 0
  else
    let m := (stripTop a.limbs).length
    let n := (stripTop b.limbs).length
    if n = 1 then
      let p := divLimb w (block b.limbs 0) (a.limbs.take m)
      { q := signedQ a b (stripTop p.1), r := signedR a (stripTop [p.2 % 2 ^ w]), path := .single }
    else
      let shift := nlz w (block b.limbs (n - 1))
      -- normalisation: both operands shifted left by `shift` bits, the dividend one limb longer
      let na : List Nat := if m = 0 then [0] else shlBits w shift 0 (a.limbs.take m ++ [0])
      let nb : List Nat := shlBits w shift 0 (b.limbs.take n)
      let js := if m ≥ n then (List.range (m - n + 1)).reverse else []
      let st := js.foldl (knuthStep w n nb) { na := na, q := [] }
      -- the remainder is the low n limbs, shifted back
      let r1 := shrBits w shift ((padTo n st.na).take n)
      { q := signedQ a b (stripTop st.q), r := signedR a (stripTop r1),
        path := .knuth, corr := st.corr, addback := st.addback }

def div (w : Nat) (a b : EI) : EI := (reduce w a b).q
def rem (w : Nat) (a b : EI) : EI := (reduce w a b).r

/-! ### decimal text -/

def block10 (w : Nat) : Nat × Nat :=
  if w = 8 then (100, 2) else if w = 16 then (10000, 4) else (1000000000, 9)

/-- `count` decimal digits of `v`, least significant first. -/
def blockDigits : Nat → Nat → List Nat
  | 0, _ => []
  | c + 1, v => (v % 10) :: blockDigits c (v / 10)

/-- the `while (!t.iszero())` loop of `convert_to_string`: digits, least significant first. -/
def printLoop (w : Nat) : Nat → EI → List Nat
  | 0, _ => []
  | fuel + 1, t =>
    if isZero t then []
    else
      let d := reduce w t { sign := false, limbs := [(block10 w).1] }
      blockDigits (block10 w).2 (block d.r.limbs 0) ++ printLoop w fuel d.q

def digitChar (d : Nat) : Char := Char.ofNat ('0'.toNat + d)

/-- `convert_to_string` (decimal branch): a buffer of `nbits/3 + 1` characters filled from the right,
    leading zeros erased, `-` for a set sign flag (also on a zero magnitude with limbs). -/
def toDecimalDigits (w : Nat) (x : EI) : List Nat :=
  let nbits := x.limbs.length * w
  let ds := (printLoop w (nbits + 1) x).take (nbits / 3 + 1)
  ds.reverse.dropWhile (· == 0)

def toDecimal (w : Nat) (x : EI) : String :=
  if x.limbs.length = 0 then "0"
  else
    let ds := toDecimalDigits w x
    let body := if ds.isEmpty then "0" else String.ofList (ds.map digitChar)
    if x.sign then "-" ++ body else body

/-- a small non-negative native integer as an einteger (`einteger(int)` → `setbits`). -/
def ofSmall (v : Nat) : EI := if v = 0 then {} else { sign := false, limbs := [v] }

structure ParseSt where
  value : EI := {}
  scale : EI := { sign := false, limbs := [1] }
  sign : Bool := false
  stop : Bool := false

/-- decimal branch of `parse`: digits from the right, `value += scale * digit; scale *= 10`. -/
def parseChars (w : Nat) (cs : List Char) : EI :=
  let st := cs.reverse.foldl (fun (st : ParseSt) c =>
    if st.stop then st
    else if c = '-' then { st with sign := true }
    else if c = '+' then { st with stop := true }
    else
      let digit := ofSmall (c.toNat - '0'.toNat)
      { st with value := add w st.value (mul w st.scale digit), scale := mul w st.scale (ofSmall 10) }) {}
  { st.value with sign := st.sign }

def parseDec (w : Nat) (s : String) : EI := parseChars w s.toList

end UVerif.EInt

/-! ## edecimal -/
namespace UVerif.EDec

/-- state of an `edecimal`: `negative` flag and the digit vector (10^0 first). -/
structure ED where
  neg : Bool := false
  d : List Nat := [0]
deriving Repr, DecidableEq, Inhabited

def zero : ED := { neg := false, d := [0] }

def toNat : List Nat → Nat
  | [] => 0
  | x :: xs => x + 10 * toNat xs

def toInt (x : ED) : Int := if x.neg then -(toNat x.d : Int) else (toNat x.d : Int)

def isZero (x : ED) : Bool := x.d.all (· == 0)

/-- drop every most-significant zero digit. -/
def stripZeros : List Nat → List Nat
  | [] => []
  | x :: xs =>
    match stripZeros xs with
    | [] => if x = 0 then [] else [x]
    | r => x :: r

/-- `unpad()`: pop most-significant zeros, never the digit at index 0. -/
def unpad : List Nat → List Nat
  | [] => []
  | x :: xs => x :: stripZeros xs

def padTo (n : Nat) (l : List Nat) : List Nat := l ++ List.replicate (n - l.length) 0

def addLoop : List Nat → List Nat → Nat → List Nat
  | [], _, c => if c ≠ 0 then [1] else []
  | x :: xs, ys, c =>
    let s := x + ys.headD 0 + c
    if s > 9 then (s - 10) :: addLoop xs ys.tail 1 else s :: addLoop xs ys.tail 0

/-- same-sign branch of `operator+=` (both padded to the longer size). -/
def addCore (x r : ED) : ED :=
  let n := max x.d.length r.d.length
  { neg := x.neg, d := addLoop (padTo n x.d) (padTo n r.d) 0 }

/-- digits from the most significant end: first difference decides. -/
def cmpLE : List Nat → List Nat → Ordering
  | x :: xs, y :: ys =>
    match cmpLE xs ys with
    | .eq => compare x y
    | o => o
  | _, _ => .eq

/-- `operator<` (assumes unpadded operands, as the comment in the source says). -/
def lt (a b : ED) : Bool :=
  if a.neg != b.neg then a.neg
  else if a.d.length < b.d.length then !a.neg
  else if a.d.length > b.d.length then a.neg
  else match cmpLE a.d b.d with
    | .lt => !a.neg
    | .gt => a.neg
    | .eq => false

def eq (a b : ED) : Bool := a.d.length == b.d.length && a.d == b.d && a.neg == b.neg

def le (a b : ED) : Bool := lt a b || eq a b

def cmpMask (a b : ED) : Nat :=
  let e := eq a b
  let l := lt a b
  let g := lt b a
  (if e then 1 else 0) + (if !e then 2 else 0) + (if l then 4 else 0) + (if l || e then 8 else 0)
   + (if g then 16 else 0) + (if !l then 32 else 0)

def subLoop : List Nat → List Nat → Nat → List Nat × Nat
  | [], _, c => ([], c)
  | x :: xs, ys, c =>
    let y := ys.headD 0
    if (y : Int) > (x : Int) - (c : Int) then
      let p := subLoop xs ys.tail 1
      ((10 + x - c - y) % 256 :: p.1, p.2)
    else
      let p := subLoop xs ys.tail 0
      ((x - c - y) :: p.1, p.2)

/-- same-sign branch of `operator-=`. -/
def subCore (x r : ED) : ED :=
  let l := x.d.length
  let rl := r.d.length
  let sign := x.neg
  -- (a, b, sign): a is subtracted from
  let abs : List Nat × List Nat × Bool :=
    if l < rl then (r.d, padTo rl x.d, !sign)
    else if rl < l then (x.d, padTo l r.d, sign)
    else if lt { neg := false, d := x.d } { neg := false, d := r.d } then (r.d, x.d, !sign)
    else (x.d, r.d, sign)
  let res := unpad (subLoop abs.1 abs.2.1 0).1
  if res.all (· == 0) then { neg := false, d := res } else { neg := abs.2.2, d := res }

def add (x r : ED) : ED :=
  if x.neg != r.neg then subCore x { r with neg := !r.neg } else addCore x r

def sub (x r : ED) : ED :=
  if x.neg != r.neg then addCore x { r with neg := !r.neg } else subCore x r

/-- `operator-()`: flips the flag of a non-zero value; zero has no sign. -/
def neg (x : ED) : ED := if isZero x then x else { x with neg := !x.neg }

/-- one partial product row: digit `s` times the big operand, shifted by `pos`. -/
def mulDigitRow (s : Nat) : List Nat → Nat → List Nat
  | [], c => if c ≠ 0 then [c] else []
  | b :: bs, c =>
    let dg := (s * b + c) % 256
    (dg % 10) :: mulDigitRow s bs (dg / 10)

/-- the partial-sum loop of `operator*=`: `small` supplies the row digits. -/
def mulRows (big : List Nat) : List Nat → Nat → ED → ED
  | [], _, prod => prod
  | s :: ss, pos, prod =>
    let partial_sum : ED := { neg := false, d := List.replicate pos 0 ++ mulDigitRow s big 0 }
    mulRows big ss (pos + 1) (add prod partial_sum)

def mul (x r : ED) : ED :=
  if isZero x || isZero r then zero
  else
    let prod := if x.d.length < r.d.length then mulRows r.d x.d 0 zero else mulRows x.d r.d 0 zero
    { neg := x.neg != r.neg, d := unpad prod.d }

/-- `operator<<=`: insert `k` zero digits below a non-zero value; zero stays the single digit 0. -/
def shl (x : ED) (k : Nat) : ED :=
  if k = 0 then x else if isZero x then x else { x with d := List.replicate k 0 ++ x.d }

def shr (x : ED) (k : Nat) : ED :=
  if k = 0 then x else if x.d.length ≤ k then zero else { x with d := x.d.drop k }

/-- `edecimal(long)` for a small non-negative value (used for the digit counters). -/
def ofDigit (v : Nat) : ED := { neg := false, d := [v] }

/-- `findLargestMultiple`: at most 12 rounds of subtract-and-count. -/
def flmLoop (rhs : ED) : Nat → ED → ED → ED
  | 0, _, mult => mult
  | fuel + 1, rem, mult =>
    if lt zero rem then flmLoop rhs fuel (sub rem rhs) (add mult (ofDigit 1))
    else if lt rem zero then sub mult (ofDigit 1)
    else mult

def findLargestMultiple (lhs rhs : ED) : ED :=
  flmLoop rhs 12 { lhs with neg := false } (ofDigit 0)

/-- `findMsd` on an unpadded value. -/
def findMsd (v : ED) : Int := if v.d.length = 1 ∧ eq v zero then -1 else (v.d.length : Int) - 1

/-- `int(multiple)` → `uint8_t` -/
def toSmall (x : ED) : Nat :=
  let v : Int := toInt x
  (v % 256).toNat

structure DivSt where
  acc : ED
  sub : ED
  quot : List Nat
  stop : Bool := false

/-- the long-division loop of `decint_divide`. -/
def divLoop : Nat → DivSt → DivSt
  | 0, st => st
  | fuel + 1, st =>
    if st.stop then st
    else
      let st1 : DivSt :=
        if le st.sub st.acc then
          let multiple := findLargestMultiple st.acc st.sub
          { st with acc := sub st.acc (mul multiple st.sub), quot := toSmall multiple :: st.quot }
        else { st with quot := 0 :: st.quot }
      let s2 := shr st1.sub 1
      divLoop fuel { st1 with sub := s2, stop := eq s2 zero }

/-- `decint_divide`: (quotient, remainder). -/
def divide (x y : ED) : ED × ED :=
  let a : ED := { x with neg := false }
  let b : ED := { y with neg := false }
  if lt a b then (zero, x)
  else
    let shift := findMsd a - findMsd b
    let st0 : DivSt := { acc := a, sub := shl b shift.toNat, quot := [0] }
    let st := divLoop (shift.toNat + 1) st0
    let q : ED := { neg := x.neg != y.neg, d := unpad st.quot }
    let r : ED := if lt x zero && !isZero st.acc then { st.acc with neg := !st.acc.neg, d := unpad st.acc.d } else { st.acc with d := unpad st.acc.d }
    (q, r)

def div (x y : ED) : ED := (divide x y).1
def rem (x y : ED) : ED := (divide x y).2

def digitChar (d : Nat) : Char := Char.ofNat ('0'.toNat + d)

/-- `operator<<`: `-` when the flag is set, then every stored digit. -/
def toDecimal (x : ED) : String :=
  (if x.neg then "-" else "") ++ String.ofList (x.d.reverse.map digitChar)

/-- `parse` of `[+-]?digits` into a fresh object (as repaired: the digits are `unpad()`ed and a zero is unsigned). -/
def parseDec (s : String) : ED :=
  let cs := s.toList
  let neg := cs.head? == some '-'
  let body := if cs.head? == some '-' || cs.head? == some '+' then cs.drop 1 else cs
  let x : ED := { neg := neg, d := unpad (body.map (fun c => c.toNat - '0'.toNat)).reverse }
  if isZero x then { x with neg := false } else x

end UVerif.EDec

/-! ## erational -/
namespace UVerif.ERat
open UVerif.EDec

structure ER where
  neg : Bool := false
  num : ED := EDec.zero
  den : ED := { neg := false, d := [1] }
deriving Repr, DecidableEq, Inhabited

/-- Euclid loop of `normalize()`: `while (a % b > 0) { r = a % b; a = b; b = r; }` -/
def gcdLoop : Nat → ED → ED → ED
  | 0, _, b => b
  | fuel + 1, a, b =>
    let r := EDec.rem a b
    if EDec.lt EDec.zero r then gcdLoop fuel b r else b

/-- `normalize()`; the fuel bounds the number of Euclid steps (5 per decimal digit suffices, Lamé).
    Last line (commit 5d744db): a zero numerator clears the sign flag. -/
def normalize (x : ER) : ER :=
  let b := gcdLoop (5 * (x.den.d.length + x.num.d.length) + 5) x.num x.den
  let n := EDec.div x.num b
  { neg := if EDec.isZero n then false else x.neg, num := n, den := EDec.div x.den b }

def signedNum (x : ER) : ED := if x.neg then EDec.neg x.num else x.num

def addsub (isSub : Bool) (x r : ER) : ER :=
  let a := signedNum x
  let b := x.den
  let c := signedNum r
  let d := r.den
  let op := if isSub then EDec.sub else EDec.add
  if EDec.eq x.den r.den then
    let n := op a c
    normalize { neg := n.neg, num := if n.neg then EDec.neg n else n, den := x.den }
  else
    let e := op (EDec.mul a d) (EDec.mul b c)
    let f := EDec.mul b d
    normalize { neg := e.neg, num := if e.neg then EDec.neg e else e, den := f }

def add (x r : ER) : ER := addsub false x r
def sub (x r : ER) : ER := addsub true x r

def mul (x r : ER) : ER :=
  normalize { neg := x.neg != r.neg, num := EDec.mul x.num r.num, den := EDec.mul x.den r.den }

def div (x r : ER) : ER :=
  normalize { neg := x.neg != r.neg, num := EDec.mul x.num r.den, den := EDec.mul x.den r.num }

def toText (x : ER) : String :=
  (if x.neg then "-" else "") ++ EDec.toDecimal x.num ++ "/" ++ EDec.toDecimal x.den

def toRat (x : ER) : Rat :=
  let v : Rat := (EDec.toInt x.num : Rat) / (EDec.toInt x.den : Rat)
  if x.neg then -v else v

end UVerif.ERat
