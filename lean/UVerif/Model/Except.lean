/-
  UVerif.Model.Except — the `#if …_THROW_ARITHMETIC_EXCEPTION` blocks of the arithmetic operators, transcribed branch by
  branch for both settings of the switch.

  An operator has the shape        prologue (differs between the builds)  ;  shared arithmetic (same source text).
  The model of one operation instance is a `Prologue`: what the throwing build's prologue does (throw / return a
  value / fall through), what the quiet build's prologue does (return a value / fall through / fall through into a
  native division by zero), and whether the quiet build writes to std::cerr.  The shared arithmetic is NOT modelled
  here (the family models do that); it is the parameter `core` of `runT` / `runQ`.

  Sources: posit_impl.hpp:728-737,770-779,813-822,854-910,1154-1204 · cfloat_impl.hpp:488-501,549-554,562-575,633-658 ·
  fixpnt_impl.hpp:508-513 · integer_impl.hpp:395-445,1300-1320 · lns_impl.hpp:253-266 · einteger_impl.hpp:323-331 ·
  edecimal_impl.hpp:801-808 · erational_impl.hpp:149-156,267-275.
-/
import UVerif.Basic
import UVerif.Spec.Except

namespace UVerif.Exc

/-- outcome of one build on one operation. -/
inductive Outcome (α : Type)
  | val (v : α)
  | thrown (k : ExcKind)
  | trap                      -- SIGFPE: native integer division by zero
deriving Repr, DecidableEq

/-- what the harness prints for an outcome (`sh` renders a value). -/
def Outcome.obs {α : Type} (sh : α → String) : Outcome α → Obs
  | .val v => .val (sh v)
  | .thrown k => .thrown k.name
  | .trap => .trap

/-- the build-dependent part of one operation instance. -/
structure Prologue (α : Type) where
  throws  : Option ExcKind := none   -- throwing build: a `throw` is reached
  tEarly  : Option α := none         -- throwing build: returns this without entering the shared arithmetic
  qEarly  : Option α := none         -- quiet build: returns this without entering the shared arithmetic
  qTrap   : Bool := false            -- quiet build: continues into a native `/` or `%` by zero
  qStderr : Bool := false            -- quiet build writes a message to std::cerr
  tStderr : Bool := false            -- throwing build writes a message to std::cerr

/-- throwing build: prologue, then the shared arithmetic `core`. -/
def runT {α : Type} (p : Prologue α) (core : α) : Outcome α :=
  match p.throws with
  | some k => .thrown k
  | none =>
    match p.tEarly with
    | some v => .val v
    | none => .val core

/-- quiet build. -/
def runQ {α : Type} (p : Prologue α) (core : α) : Outcome α :=
  match p.qEarly with
  | some v => .val v
  | none => if p.qTrap then .trap else .val core

/-! ### posit -/
namespace Posit

/-- `isnar()`: sign bit set and `tmp.reset(nbits-1); tmp.none()`. -/
def isNaR (n a : Nat) : Bool := a.testBit (n - 1) && (a % 2 ^ (n - 1) == 0)
/-- `iszero()`: `_bits.none()`. -/
def isZero (_n a : Nat) : Bool := a == 0
/-- `setnar()` -/
def nar (n : Nat) : Nat := 2 ^ (n - 1)

/-- flags of `module_divide`'s result: `normalize` copies `iszero()`/`isnar()` into the value's zero/inf flags and
    `module_divide` sets `inf` if an operand is inf, else `zero` if an operand is zero (value.hpp:1024-1031). -/
inductive Flag | val | zero | inf
deriving DecidableEq, Repr

def divFlag (n a b : Nat) : Flag :=
  if isNaR n a || isNaR n b then .inf else if isZero n a || isZero n b then .zero else .val

def prologue (n : Nat) (op : Op) (a b : Nat) : Prologue Nat :=
  match op with
  | .add | .sub | .mul =>
    -- #if: `if (isnar() || rhs.isnar()) throw posit_operand_is_nar{}`   #else: `… { setnar(); return *this; }`
    if isNaR n a || isNaR n b then { throws := some .posit_operand_is_nar, qEarly := some (nar n) } else {}
  | .div =>
    -- #if:  rhs.iszero → throw divide_by_zero; rhs.isnar → throw divide_by_nar; isnar → throw numerator_is_nar;
    --       `if (iszero() || isnar()) return *this`
    -- #else: rhs.iszero → setnar; rhs.isnar → setnar; `if (iszero() || isnar()) return *this`
    let thr : Option ExcKind :=
      if isZero n b then some .posit_divide_by_zero
      else if isNaR n b then some .posit_divide_by_nar
      else if isNaR n a then some .posit_numerator_is_nar
      else none
    let qE : Option Nat :=
      if isZero n b then some (nar n)
      else if isNaR n b then some (nar n)
      else if isZero n a || isNaR n a then some a
      else none
    match thr with
    | some k => { throws := some k, qEarly := qE }
    | none =>
      if isZero n a || isNaR n a then { tEarly := some a, qEarly := qE }
      else
        -- after module_divide — #if: ratio.iszero → throw division_result_is_zero; ratio.isinf → throw
        -- division_result_is_infinite   #else: setzero / setnar
        match divFlag n a b with
        | .zero => { throws := some .posit_division_result_is_zero, qEarly := some 0 }
        | .inf => { throws := some .posit_division_result_is_infinite, qEarly := some (nar n) }
        | .val => {}
  | .conv =>
    -- #if: `if (iszero()) return 0; if (isnar()) throw posit_nar{}; return to_integer<int>();`
    -- #else: `return isnar() ? int(to_double()) : to_integer<int>();`   where to_integer() starts with `if (iszero()) return 0;`
    if isZero n a then { tEarly := some 0, qEarly := some 0 }
    else if isNaR n a then { throws := some .posit_nar }
    else {}
  | .recip | .rem => {}            -- reciprocal() contains no #if block

end Posit

/-! ### cfloat -/
namespace CFloat
open CFloatSpec (Cfg)

def sign (c : Cfg) (a : Nat) : Bool := a.testBit (c.n - 1)
/-- `exponent(e)`: the es bits above the fraction. -/
def expField (c : Cfg) (a : Nat) : Nat := (a >>> (c.n - 1 - c.es)) % 2 ^ c.es
/-- `iszeroencoding()`: everything but the sign bit is 0. -/
def isZeroEnc (c : Cfg) (a : Nat) : Bool := a % 2 ^ (c.n - 1) == 0
/-- `iszero()`: with subnormals the zero encodings, otherwise exponent field 0. -/
def isZero (c : Cfg) (a : Nat) : Bool := if c.sub then isZeroEnc c a else expField c a == 0
/-- `isinf()`: `MSU_MASK ^ LSB_BIT_MASK` or the same without the sign bit. -/
def isInf (c : Cfg) (a : Nat) : Bool := a == 2 ^ c.n - 2 || a == 2 ^ (c.n - 1) - 2
/-- `issupernormal()`: exponent field all ones. -/
def isSuper (c : Cfg) (a : Nat) : Bool := expField c a == 2 ^ c.es - 1

inductive NaNType | either | signalling | quiet
deriving DecidableEq, Repr

/-- `isnanencoding(type)`: all ones (signalling) / all ones below the sign bit (quiet). -/
def isNaNEnc (c : Cfg) (ty : NaNType) (a : Nat) : Bool :=
  let neg := a == 2 ^ c.n - 1
  let pos := a == 2 ^ (c.n - 1) - 1
  match ty with
  | .either => neg || pos
  | .signalling => neg
  | .quiet => pos

/-- `isnan(type)`. -/
def isNaN (c : Cfg) (ty : NaNType) (a : Nat) : Bool :=
  if c.sup then isNaNEnc c ty a
  else if isSuper c a then
    let isnan := !(isInf c a)
    match ty with
    | .either => isnan
    | .signalling => isnan && sign c a
    | .quiet => isnan && !(sign c a)
  else false

/-- `setnan(type)`. -/
def nanEnc (c : Cfg) (ty : NaNType) : Nat := if ty == .signalling then 2 ^ c.n - 1 else 2 ^ (c.n - 1) - 1
/-- `setinf(sign)`. -/
def infEnc (c : Cfg) (s : Bool) : Nat := if s then 2 ^ c.n - 2 else 2 ^ (c.n - 1) - 2

def prologue (c : Cfg) (op : Op) (a b : Nat) : Prologue Nat :=
  let anyS := isNaN c .signalling a || isNaN c .signalling b
  let anyQ := isNaN c .quiet a || isNaN c .quiet b
  match op with
  | .add | .sub | .mul =>
    -- `-=`:  `if (rhs.isnan()) return *this += rhs; else return *this += -rhs;` — negation keeps a non-NaN a non-NaN,
    -- so the NaN tests of `+=` see the same answers.
    -- #if: `if (isnan(SIGNALLING) || rhs.isnan(SIGNALLING)) throw cfloat_operand_is_nan{}`
    -- #else: signalling → setnan(SIGNALLING); return.
    -- after #endif (both builds, since fix d2b4539): quiet → setnan(QUIET); return.
    if anyS then { throws := some .cfloat_operand_is_nan, qEarly := some (nanEnc c .signalling) }
    else if anyQ then { tEarly := some (nanEnc c .quiet), qEarly := some (nanEnc c .quiet) }
    else {}
  | .div =>
    -- #if: `if (rhs.iszero()) throw cfloat_divide_by_zero(); if (rhs.isnan()) throw cfloat_divide_by_nan();
    --       if (isnan(SIGNALLING)) throw cfloat_operand_is_nan();
    --       if (isnan(QUIET)) { setnan(QUIET); return *this; }`   (since the repair "operator/= in the throwing build
    --       must propagate a quiet NaN numerator instead of throwing")
    -- #else: signalling → sNaN; quiet → qNaN; rhs.iszero → (iszero ? qNaN : inf(sign != rhs.sign))
    let thr : Option ExcKind :=
      if isZero c b then some .cfloat_divide_by_zero
      else if isNaN c .either b then some .cfloat_divide_by_nan
      else if isNaN c .signalling a then some .cfloat_operand_is_nan
      else none
    let tE : Option Nat :=
      if isZero c b then none
      else if isNaN c .either b then none
      else if isNaN c .signalling a then none
      else if isNaN c .quiet a then some (nanEnc c .quiet)
      else none
    let qE : Option Nat :=
      if anyS then some (nanEnc c .signalling)
      else if anyQ then some (nanEnc c .quiet)
      else if isZero c b then
        (if isZero c a then some (nanEnc c .quiet) else some (infEnc c (sign c a != sign c b)))
      else none
    { throws := thr, tEarly := tE, qEarly := qE }
  | _ => {}

end CFloat

/-! ### fixpnt -/
namespace Fixpnt
/-- `operator/=`: #if `if (rhs.iszero()) throw fixpnt_divide_by_zero();` #else `… std::cerr << "fixpnt_divide_by_zero"`,
    then the shared division in both. -/
def prologue (op : Op) (_a b : Nat) : Prologue Nat :=
  match op with
  | .div => if b == 0 then { throws := some .fixpnt_divide_by_zero, qStderr := true } else {}
  | _ => {}
end Fixpnt

/-! ### integer -/
namespace Integer
/-- `operator/=`, `operator%=`: exact-fit single-block path tests `rhs._block[0] == 0`, the general path `idiv`/
    `remainder` test `_b.iszero()`; #if throw integer_divide_by_zero, #else message on std::cerr and CONTINUE — on the
    exact-fit path into the native `int8_t(a) / int8_t(0)` (a hardware trap). `w` = bits of the block type. -/
def prologue (n w : Nat) (op : Op) (_a b : Nat) : Prologue Nat :=
  match op with
  | .div | .rem =>
    if b == 0 then { throws := some .integer_divide_by_zero, qStderr := true, qTrap := (n == w) } else {}
  | _ => {}
end Integer

/-! ### lns -/
namespace Lns
/-- `iszero()`: 0.10…0 ; `isnan()`: 1.10…0 -/
def isZero (n a : Nat) : Bool := a == 2 ^ (n - 2)
def isNaN (n a : Nat) : Bool := a == 2 ^ (n - 1) + 2 ^ (n - 2)
def nan (n : Nat) : Nat := 2 ^ (n - 1) + 2 ^ (n - 2)

/-- `operator/=` (code after the fix "lns operator/= must test for a zero divisor before the NaN operands"):
    `if (rhs.iszero())` #if throw lns_divide_by_zero #else setnan; then, in both builds,
    `if (isnan()) return *this; if (rhs.isnan()) { setnan(); return }`. -/
def prologue (n : Nat) (op : Op) (a b : Nat) : Prologue Nat :=
  match op with
  | .div =>
    if isZero n b then { throws := some .lns_divide_by_zero, qEarly := some (nan n) }
    else if isNaN n a then { tEarly := some a, qEarly := some a }
    else if isNaN n b then { tEarly := some (nan n), qEarly := some (nan n) }
    else {}
  | _ => {}
end Lns

/-! ### elastic types (operands are integers; values are the printed text) -/
namespace Elastic
/-- einteger `reduce`: `if (b.iszero())` #if throw #else message, `return` (quotient and remainder stay 0). -/
def eintPrologue (op : Op) (_a b : Int) : Prologue String :=
  match op with
  | .div | .rem => if b == 0 then { throws := some .einteger_divide_by_zero, qEarly := some "0", qStderr := true } else {}
  | _ => {}
/-- edecimal `decint_divide`: #if throw #else message and continue. -/
def edecPrologue (op : Op) (_a b : Int) : Prologue String :=
  match op with
  | .div | .rem => if b == 0 then { throws := some .edecimal_integer_divide_by_zero, qStderr := true } else {}
  | _ => {}
/-- erational `operator/=` and `normalize()` (called by every operator; the denominator can only be zero after a division
    by zero): #if `if (zero) throw erational_divide_by_zero` #else `if (zero) std::cerr << "erational_divide_by_zero\n"`
    (code after fix 0df1c14, which repaired D15: the message used to be unconditional). -/
def eratPrologue (op : Op) (_a b : Int) : Prologue String :=
  match op with
  | .div => if b == 0 then { throws := some .erational_divide_by_zero, qStderr := true } else {}
  | _ => {}
end Elastic

end UVerif.Exc
