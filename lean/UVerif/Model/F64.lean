/-
  UVerif.Model.F64 — IEEE-754 binary floating-point arithmetic, generic precision and exponent range.
  Core Lean only (linked into `uvdriver`).

  Representation.  A format is `(p, q, top)`:  `p` = precision in bits, `2^(-q)` = the smallest positive
  subnormal (for binary64: p = 53, q = 1074), finite magnitudes are `< 2^top` units.  Every finite
  number of the format is an INTEGER multiple of `2^(-q)`; a finite float is stored as sign + that integer
  (`fin s n` denotes `(-1)^s · n · 2^(-q)`, i.e. the dyadic pair `(±n, -q)` with the exponent held at the
  format's minimum).  `F.toDyadic` gives the usual normalised `(significand, exponent)` pair.
  An integer `n` is (the magnitude of) a float iff it has at most `p` significant bits
  (`n < 2^p`, the subnormals and the first binade, or `2^(size n - p) ∣ n`).

  Rounding is round-to-nearest, ties-to-even, by exact integer arithmetic (`rnShr`): gradual underflow is
  automatic (a value below one unit is rounded to an integer number of units), overflow is decided
  after rounding (`pack`).  Signed zeros, infinities and one NaN (payloads are not modelled).

  Sections: rounding · format/encoding · + − × ÷ √ fma ldexp · comparisons/conversions ·
  the error-free transformations of `numerics/error_free_ops.hpp` · dd and qd operators.
-/
import UVerif.Basic

namespace UVerif.F64

/-! ### rounding on integers -/

/-- number of significant bits of `n` (0 for 0). -/
def size (n : Nat) : Nat := if n = 0 then 0 else n.log2 + 1

/-- `M · 2^(-t)` rounded to nearest-even among the integers with at most `p` significant bits
    (`t` = number of fraction bits below one unit).  The discarded bit count is
    `k = max (size M − p) t`; the result is `rne(M / 2^k) · 2^(k − t)`. -/
def rnShr (p M t : Nat) : Nat :=
  let k := max (size M - p) t
  rneShr M k * 2 ^ (k - t)

/-- an integer number of units rounded to `p` significant bits. -/
def rnNat (p n : Nat) : Nat := rnShr p n 0

/-- signed version of `rnNat`: RN on integer units, unbounded exponent range above. -/
def rnInt (p : Nat) (z : Int) : Int :=
  if z < 0 then -((rnNat p z.natAbs : Nat) : Int) else ((rnNat p z.natAbs : Nat) : Int)

/-- `n` is the magnitude of a float of precision `p` (unbounded above). -/
def isFloatNat (p n : Nat) : Bool := n % 2 ^ (size n - p) == 0

/-- `2^e`-quantum of the binade of `n` at precision `p`: ulp(n) in units. -/
def ulpNat (p n : Nat) : Nat := 2 ^ (size n - p)

/-! ### format and values -/

structure Fmt where
  p : Nat
  q : Nat
  top : Nat
deriving Repr, DecidableEq

/-- IEEE interchange-style format with `ew` exponent bits and precision `p` (hidden bit included). -/
def Fmt.ieee (p ew : Nat) : Fmt := ⟨p, 2 ^ (ew - 1) + p - 3, p + 2 ^ ew - 3⟩

def binary64 : Fmt := Fmt.ieee 53 11
def binary32 : Fmt := Fmt.ieee 24 8
def binary16 : Fmt := Fmt.ieee 11 5
def bfloat16 : Fmt := Fmt.ieee 8 8

inductive F where
  | fin (s : Bool) (n : Nat)
  | inf (s : Bool)
  | nan
deriving Repr, DecidableEq, Inhabited

namespace F

def isFinite : F → Bool
  | fin _ _ => true
  | _ => false

def isNaN : F → Bool
  | nan => true
  | _ => false

def isInf : F → Bool
  | inf _ => true
  | _ => false

def isZero : F → Bool
  | fin _ 0 => true
  | _ => false

/-- sign bit (false for NaN). -/
def sign : F → Bool
  | fin s _ => s
  | inf s => s
  | nan => false

/-- value in units of `2^(-q)` (0 for non-finite). -/
def toInt : F → Int
  | fin s n => if s then -(n : Int) else (n : Int)
  | _ => 0

def mag : F → Nat
  | fin _ n => n
  | _ => 0

def neg : F → F
  | fin s n => fin (!s) n
  | inf s => inf (!s)
  | nan => nan

def abs : F → F
  | fin _ n => fin false n
  | inf _ => inf false
  | nan => nan

end F

def pzero : F := .fin false 0
def nzero : F := .fin true 0

/-- exact rational value of a finite float. -/
def toRat (f : Fmt) (x : F) : Rat := (x.toInt : Rat) * pow2 (-(f.q : Int))

/-- number of trailing zero bits (0 for 0). -/
def trailingZeros (n : Nat) : Nat := go n (size n)
where
  go (n : Nat) : Nat → Nat
    | 0 => 0
    | fuel + 1 => if n % 2 = 0 && n != 0 then go (n / 2) fuel + 1 else 0

/-- normalised dyadic pair `(m, e)`, `value = m · 2^e`, `m` odd or zero. -/
def toDyadic (f : Fmt) (x : F) : Int × Int :=
  let z := x.toInt
  if z = 0 then (0, 0) else
    let tz := trailingZeros z.natAbs
    (z / ((2 ^ tz : Nat) : Int), (tz : Int) - f.q)

/-- overflow decision after rounding. -/
def pack (f : Fmt) (s : Bool) (n : Nat) : F :=
  if size n ≤ f.top then .fin s n else .inf s

/-- an exact integer number of units, rounded (`zs` = sign of an exact zero). -/
def roundInt (f : Fmt) (z : Int) (zs : Bool) : F :=
  if z = 0 then .fin zs 0 else pack f (decide (z < 0)) (rnNat f.p z.natAbs)

/-- `±M · 2^(-t)` units, rounded. -/
def roundShr (f : Fmt) (s : Bool) (M t : Nat) : F :=
  pack f s (rnShr f.p M t)

/-- largest finite magnitude in units. -/
def maxMag (f : Fmt) : Nat := (2 ^ f.p - 1) * 2 ^ (f.top - f.p)

/-! ### encodings (IEEE interchange layout: sign | ew exponent bits | p-1 fraction bits) -/

def ofBits (p ew : Nat) (b : Nat) : F :=
  let frac := b % 2 ^ (p - 1)
  let e := (b >>> (p - 1)) % 2 ^ ew
  let s := b.testBit (p - 1 + ew)
  if e = 2 ^ ew - 1 then (if frac = 0 then .inf s else .nan)
  else if e = 0 then .fin s frac
  else .fin s ((2 ^ (p - 1) + frac) <<< (e - 1))

/-- canonical quiet NaN: exponent all ones, top fraction bit. -/
def toBits (p ew : Nat) : F → Nat
  | .nan => (2 ^ ew - 1) <<< (p - 1) ||| 2 ^ (p - 2)
  | .inf s => (if s then 2 ^ (p - 1 + ew) else 0) + (2 ^ ew - 1) <<< (p - 1)
  | .fin s n =>
    let sb := if s then 2 ^ (p - 1 + ew) else 0
    if n < 2 ^ (p - 1) then sb + n
    else
      let e := n.log2 + 2 - p
      sb + (e <<< (p - 1)) + ((n >>> (e - 1)) - 2 ^ (p - 1))

def ofBits64 (b : Nat) : F := ofBits 53 11 b
def toBits64 (x : F) : Nat := toBits 53 11 x

/-! ### arithmetic -/

def add (f : Fmt) (a b : F) : F :=
  match a, b with
  | .nan, _ => .nan
  | _, .nan => .nan
  | .inf s, .inf t => if s = t then .inf s else .nan
  | .inf s, _ => .inf s
  | _, .inf t => .inf t
  | .fin s n, .fin t m => roundInt f ((F.fin s n).toInt + (F.fin t m).toInt) (s && t)

def sub (f : Fmt) (a b : F) : F := add f a b.neg

def mul (f : Fmt) (a b : F) : F :=
  match a, b with
  | .nan, _ => .nan
  | _, .nan => .nan
  | .inf s, .inf t => .inf (s != t)
  | .inf s, .fin t m => if m = 0 then .nan else .inf (s != t)
  | .fin s n, .inf t => if n = 0 then .nan else .inf (s != t)
  | .fin s n, .fin t m => roundShr f (s != t) (n * m) f.q

def div (f : Fmt) (a b : F) : F :=
  match a, b with
  | .nan, _ => .nan
  | _, .nan => .nan
  | .inf _, .inf _ => .nan
  | .inf s, .fin t _ => .inf (s != t)
  | .fin s _, .inf t => .fin (s != t) 0
  | .fin s n, .fin t m =>
    if m = 0 then (if n = 0 then .nan else .inf (s != t))
    else if n = 0 then .fin (s != t) 0
    else
      -- quotient with ≥ p+2 significant bits plus a sticky bit
      let sh := f.p + 2 + size m
      let num := n <<< (f.q + sh)
      let qt := num / m
      let st := if num % m = 0 then 0 else 1
      roundShr f (s != t) (2 * qt + st) (sh + 1)

def sqrt (f : Fmt) (a : F) : F :=
  match a with
  | .nan => .nan
  | .inf s => if s then .nan else .inf false
  | .fin s n =>
    if n = 0 then .fin s 0
    else if s then .nan
    else
      let sh := f.p + 2
      let x := n <<< (f.q + 2 * sh)
      let r := Nat.sqrt x
      let st := if r * r = x then 0 else 1
      roundShr f false (2 * r + st) (sh + 1)

/-- fused multiply-add `a·b + c` with a single rounding. -/
def fma (f : Fmt) (a b c : F) : F :=
  match a, b, c with
  | .nan, _, _ => .nan
  | _, .nan, _ => .nan
  | _, _, .nan => .nan
  | .inf s, .inf t, c => (match c with | .inf u => if u = (s != t) then .inf u else .nan | _ => .inf (s != t))
  | .inf s, .fin t m, c => if m = 0 then .nan else (match c with | .inf u => if u = (s != t) then .inf u else .nan | _ => .inf (s != t))
  | .fin s n, .inf t, c => if n = 0 then .nan else (match c with | .inf u => if u = (s != t) then .inf u else .nan | _ => .inf (s != t))
  | .fin _ _, .fin _ _, .inf u => .inf u
  | .fin s n, .fin t m, .fin u k =>
    let ps := s != t
    let P : Int := if ps then -((n * m : Nat) : Int) else ((n * m : Nat) : Int)
    let C : Int := if u then -((k <<< f.q : Nat) : Int) else ((k <<< f.q : Nat) : Int)
    let Z := P + C
    if Z = 0 then .fin (ps && u) 0
    else roundShr f (decide (Z < 0)) Z.natAbs f.q

/-- `x · 2^k` (std::ldexp). -/
def ldexp (f : Fmt) (a : F) (k : Int) : F :=
  match a with
  | .fin s n => if n = 0 then a else if k ≥ 0 then pack f s (n <<< k.toNat) else roundShr f s n (-k).toNat
  | x => x

/-! ### comparisons and conversions -/

def feq (a b : F) : Bool :=
  match a, b with
  | .nan, _ => false
  | _, .nan => false
  | .inf s, .inf t => s == t
  | .fin _ _, .fin _ _ => a.toInt == b.toInt
  | _, _ => false

def flt (a b : F) : Bool :=
  match a, b with
  | .nan, _ => false
  | _, .nan => false
  | .inf s, .inf t => s && !t
  | .inf s, .fin _ _ => s
  | .fin _ _, .inf t => !t
  | .fin _ _, .fin _ _ => decide (a.toInt < b.toInt)

def fne (a b : F) : Bool := !feq a b
def fgt (a b : F) : Bool := flt b a

/-- conversion of an integer to the format (`static_cast<double>(int64)`). -/
def ofInt (f : Fmt) (z : Int) : F :=
  if z = 0 then pzero else pack f (decide (z < 0)) (rnNat f.p (z.natAbs <<< f.q))

/-- truncation toward zero of a finite value (`none` for inf/NaN). -/
def truncInt (f : Fmt) (a : F) : Option Int :=
  match a with
  | .fin s n => some (if s then -((n >>> f.q : Nat) : Int) else ((n >>> f.q : Nat) : Int))
  | _ => none

/-- `static_cast<int64_t>(double)` as x86-64 `cvttsd2si` performs it: out of range / NaN ↦ 0x8000000000000000. -/
def toI64 (f : Fmt) (a : F) : Int :=
  match truncInt f a with
  | some z => if -(2 ^ 63 : Int) ≤ z ∧ z < (2 ^ 63 : Int) then z else -(2 ^ 63 : Int)
  | none => -(2 ^ 63 : Int)

/-- `static_cast<uint64_t>(double)` as g++ emits it for x86-64: below 2^63 (and for NaN, which compares unordered)
    `cvttsd2si`, otherwise `cvttsd2si(x − 2^63) xor 2^63` (so 2^64 ↦ 0, +inf ↦ 0); the result as a 64-bit pattern
    (flipping bit 63 of a 64-bit pattern = adding 2^63 modulo 2^64). -/
def toU64 (f : Fmt) (a : F) : Nat :=
  match a with
  | .nan => 2 ^ 63
  | .inf s => if s then 2 ^ 63 else 0
  | _ =>
    match truncInt f a with
    | some z =>
      if z < (2 ^ 63 : Int) then ofSigned 64 (toI64 f a)
      else
        let t := z - (2 ^ 63 : Int)
        let c : Int := if t < (2 ^ 63 : Int) then t else -(2 ^ 63 : Int)
        (ofSigned 64 c + 2 ^ 63) % 2 ^ 64
    | none => 2 ^ 63

/-- `std::trunc(x) == x` as a comparison of doubles: finite integers and ±inf (NaN compares false). -/
def isIntegral (f : Fmt) : F → Bool
  | .fin _ n => n % 2 ^ f.q == 0
  | .inf _ => true
  | .nan => false

/-- `x - std::trunc(x)`: the fraction of a finite value (exact, with the sign of `x`); `inf − inf` and NaN give NaN. -/
def fracPart (f : Fmt) : F → F
  | .fin s n => .fin s (n % 2 ^ f.q)
  | _ => .nan

/-- wrap to a signed 64-bit integer. -/
def wrapI64 (z : Int) : Int :=
  let m := z % (2 ^ 64 : Int)
  if m < (2 ^ 63 : Int) then m else m - (2 ^ 64 : Int)

/-- a small constant as a float: `c` must be an integer. -/
def ofNatExact (f : Fmt) (c : Nat) : F := .fin false (c <<< f.q)

/-! ### error-free transformations (numerics/error_free_ops.hpp), line by line -/

section EFT
variable (f : Fmt)

/-- `quick_two_sum(a, b, r)`: `s = a + b; r = isfinite(s) ? b - (s - a) : 0.0`. -/
def quickTwoSum (a b : F) : F × F :=
  let s := add f a b
  (s, if s.isFinite then sub f b (sub f s a) else pzero)

/-- `two_sum(a, b, r)`: Knuth. -/
def twoSum (a b : F) : F × F :=
  let s := add f a b
  if s.isFinite then
    let bb := sub f s a
    (s, add f (sub f a (sub f s bb)) (sub f b bb))
  else (s, pzero)

/-- `two_diff(a, b, r)`. -/
def twoDiff (a b : F) : F × F :=
  let s := sub f a b
  if s.isFinite then
    let bb := sub f s a
    (s, sub f (sub f a (sub f s bb)) (add f b bb))
  else (s, pzero)

/-- `quick_two_diff(a, b, r)`. -/
def quickTwoDiff (a b : F) : F × F :=
  let s := sub f a b
  (s, if s.isFinite then sub f (sub f a s) b else pzero)

/-- generic `twoSum<Scalar>` of numerics/twosum.hpp (no finiteness test). -/
def twoSumGeneric (a b : F) : F × F :=
  let s := add f a b
  let bDelta := sub f s a
  let aDelta := sub f s bDelta
  let aerr := sub f a aDelta
  let berr := sub f b bDelta
  (s, add f aerr berr)

/-- `three_sum(x, y, z)`. -/
def threeSum (x y z : F) : F × F × F :=
  let (u, v) := twoSum f x y
  let (x', w) := twoSum f z u
  let (y', z') := twoSum f v w
  (x', y', z')

/-- `three_sum2(x, y, z)`. -/
def threeSum2 (x y z : F) : F × F :=
  let (u, v) := twoSum f x y
  let (x', w) := twoSum f z u
  (x', add f v w)

/-- BITS of `split`: `(digits + 1) / 2` (27 for binary64). -/
def splitBits : Nat := (f.p + 1) / 2

/-- SPLITTER = 2^BITS + 1. -/
def splitter : F := ofNatExact f (2 ^ splitBits f + 1)

/-- SPLIT_THRESHOLD = ldexp(max, -BITS-1). -/
def splitThreshold : F := .fin false (maxMag f >>> (splitBits f + 1))

/-- `split(a, hi, lo)`: Veltkamp, with the rescaled branch above SPLIT_THRESHOLD. -/
def split (a : F) : F × F :=
  let body (a : F) : F × F :=
    let temp := mul f (splitter f) a
    let hi := sub f temp (sub f temp a)
    (hi, sub f a hi)
  if fgt a.abs (splitThreshold f) then
    let a' := ldexp f a (-((splitBits f : Int) + 1))
    let (hi, lo) := body a'
    (ldexp f hi ((splitBits f : Int) + 1), ldexp f lo ((splitBits f : Int) + 1))
  else body a

/-- `two_prod(a, b, r)` (no FMA macro defined: Dekker). -/
def twoProd (a b : F) : F × F :=
  let p := mul f a b
  if p.isFinite then
    let (ahi, alo) := split f a
    let (bhi, blo) := split f b
    let r := add f (add f (add f (sub f (mul f ahi bhi) p) (mul f ahi blo)) (mul f alo bhi)) (mul f alo blo)
    (p, r)
  else (p, pzero)

/-- `two_sqr(a, r)`. -/
def twoSqr (a : F) : F × F :=
  let p := mul f a a
  if p.isFinite then
    let (hi, lo) := split f a
    let two := ofNatExact f 2
    let r := add f (add f (sub f (mul f hi hi) p) (mul f (mul f two hi) lo)) (mul f lo lo)
    (p, r)
  else (p, pzero)

/-- `x != 0.0` on doubles (true for NaN). -/
def nez (x : F) : Bool := !feq x pzero

/-- `renorm(a0, a1, a2, a3)`. -/
def renorm4 (a0 a1 a2 a3 : F) : F × F × F × F :=
  if a0.isInf then (a0, a1, a2, a3) else
  let (s0, a3) := quickTwoSum f a2 a3
  let (s0, a2) := quickTwoSum f a1 s0
  let (a0, a1) := quickTwoSum f a0 s0
  let s0 := a0
  let s1 := a1
  let s2 := pzero
  let s3 := pzero
  if nez s1 then
    let (s1, s2) := quickTwoSum f s1 a2
    if nez s2 then
      let (s2, s3) := quickTwoSum f s2 a3
      (s0, s1, s2, s3)
    else
      let (s1, s2) := quickTwoSum f s1 a3
      (s0, s1, s2, s3)
  else
    let (s0, s1) := quickTwoSum f s0 a2
    if nez s1 then
      let (s1, s2) := quickTwoSum f s1 a3
      (s0, s1, s2, s3)
    else
      let (s0, s1) := quickTwoSum f s0 a3
      (s0, s1, s2, s3)

/-- `renorm(a0, a1, a2, a3, a4)`. -/
def renorm5 (a0 a1 a2 a3 a4 : F) : F × F × F × F :=
  if a0.isInf then (a0, a1, a2, a3) else
  let (s0, a4) := quickTwoSum f a3 a4
  let (s0, a3) := quickTwoSum f a2 s0
  let (s0, a2) := quickTwoSum f a1 s0
  let (a0, a1) := quickTwoSum f a0 s0
  let s2 := pzero
  let s3 := pzero
  let (s0, s1) := quickTwoSum f a0 a1
  if nez s1 then
    let (s1, s2) := quickTwoSum f s1 a2
    if nez s2 then
      let (s2, s3) := quickTwoSum f s2 a3
      if nez s3 then (s0, s1, s2, add f s3 a4)
      else (s0, s1, add f s2 a4, s3)
    else
      let (s1, s2) := quickTwoSum f s1 a3
      if nez s2 then
        let (s2, s3) := quickTwoSum f s2 a4
        (s0, s1, s2, s3)
      else
        let (s1, s2) := quickTwoSum f s1 a4
        (s0, s1, s2, s3)
  else
    let (s0, s1) := quickTwoSum f s0 a2
    if nez s1 then
      let (s1, s2) := quickTwoSum f s1 a3
      if nez s2 then
        let (s2, s3) := quickTwoSum f s2 a4
        (s0, s1, s2, s3)
      else
        let (s1, s2) := quickTwoSum f s1 a4
        (s0, s1, s2, s3)
    else
      let (s0, s1) := quickTwoSum f s0 a3
      if nez s1 then
        let (s1, s2) := quickTwoSum f s1 a4
        (s0, s1, s2, s3)
      else
        let (s0, s1) := quickTwoSum f s0 a4
        (s0, s1, s2, s3)

/-- `quick_three_accumulation(a, b, c)` returns `(s, a', b')`. -/
def quickThreeAccum (a b c : F) : F × F × F :=
  let (s, b) := twoSum f b c
  let (s, a) := twoSum f a s
  let za := nez a
  let zb := nez b
  if za && zb then (s, a, b)
  else if !zb then (pzero, s, a)
  else (pzero, s, b)

end EFT

end UVerif.F64
