/-
  UVerif.Model.FastPosit — the routines of the fast posit specialisations (include/universal/number/posit/specialized/*)
  that are NOT the generic algorithm: table look-ups (tables regenerated from the headers on every run), the hand-written
  integer / float assignment routines, the read-back paths that go through `float`, the integer-only `operator*=` of
  posit<32,2> and the integer-only square roots of posit<16,1> and posit<32,2>.
  Each definition follows the C++ statement by statement, with the fixed-width wrap-around made explicit.
  Core Lean only.
-/
import UVerif.Basic
import UVerif.Spec.Posit
import UVerif.Model.Posit
import UVerif.Model.PositConvFP
import UVerif.Generated.FastTables

namespace UVerif.Fast
open UVerif UVerif.Posit UVerif.FP UVerif.Generated

@[inline] def u8 (x : Nat) : Nat := x % 2 ^ 8
@[inline] def u16 (x : Nat) : Nat := x % 2 ^ 16
@[inline] def u32 (x : Nat) : Nat := x % 2 ^ 32
@[inline] def u64 (x : Nat) : Nat := x % 2 ^ 64
/-- unary minus in an unsigned type of `w` bits -/
@[inline] def negW (w x : Nat) : Nat := (2 ^ w - x % 2 ^ w) % 2 ^ w
@[inline] def tab (t : Array Nat) (i : Nat) : Nat := t.getD i 0

/-- x86 `cvttss2si` / `cvttsd2si` / `fistp` of a real: truncation, the "integer indefinite" 0x80…0 when out of range.
    Result as a `w`-bit two's complement pattern. -/
def cvtt (w : Nat) (x : Rat) : Nat :=
  let t := truncZ x
  if t < -((2 ^ (w - 1) : Nat) : Int) ∨ t ≥ ((2 ^ (w - 1) : Nat) : Int) then 2 ^ (w - 1) else ofSigned w t

/-! ### table-driven posits: posit_2_0, posit_3_0, posit_3_1, posit_4_0 -/

structure Tables where
  add : Array Nat
  sub : Array Nat
  mul : Array Nat
  div : Array Nat
  recip : Array Nat

def tables (n es : Nat) : Option Tables :=
  match n, es with
  | 2, 0 => some ⟨posit_2_0_addition_lookup, posit_2_0_subtraction_lookup, posit_2_0_multiplication_lookup, posit_2_0_division_lookup, posit_2_0_reciprocal_lookup⟩
  | 3, 0 => some ⟨posit_3_0_addition_lookup, posit_3_0_subtraction_lookup, posit_3_0_multiplication_lookup, posit_3_0_division_lookup, posit_3_0_reciprocal_lookup⟩
  | 3, 1 => some ⟨posit_3_1_addition_lookup, posit_3_1_subtraction_lookup, posit_3_1_multiplication_lookup, posit_3_1_division_lookup, posit_3_1_reciprocal_lookup⟩
  | 4, 0 => some ⟨posit_4_0_addition_lookup, posit_4_0_subtraction_lookup, posit_4_0_multiplication_lookup, posit_4_0_division_lookup, posit_4_0_reciprocal_lookup⟩
  | _, _ => none

/-- `index = (_bits << index_shift) | b._bits` with index_shift = nbits (posit_3_1: 3) -/
def tabIndex (n a b : Nat) : Nat := ((a % 2 ^ n) <<< n) ||| (b % 2 ^ n)

def tableBinary (n es : Nat) (op : String) (a b : Nat) : Option Nat :=
  (tables n es).map fun t =>
    let arr := match op with
      | "add" => t.add | "sub" => t.sub | "mul" => t.mul | _ => t.div
    tab arr (tabIndex n a b) % 2 ^ n

def tableRec (n es a : Nat) : Option Nat := (tables n es).map fun t => tab t.recip (a % 2 ^ n) % 2 ^ n

/-- `operator<` of the table-driven posits -/
def tableLt (n es a b : Nat) : Bool :=
  match n, es with
  | 2, 0 => tab posit_2_0_less_than_lookup (tabIndex 2 a b) ≠ 0
  | 3, 0 => tab posit_3_0_less_than_lookup (tabIndex 3 a b) ≠ 0
  | 3, 1 => toSigned 8 (u8 ((a % 8) <<< 5)) < toSigned 8 (u8 ((b % 8) <<< 5))   -- `int8_t(lhs._bits << 5) < int8_t(rhs._bits << 5)`
  | 4, 0 => if b % 16 = 8 then false                              -- rhs.isnar()
            else (tab posit_4_0_subtraction_lookup (tabIndex 4 a b)) &&& 8 ≠ 0   -- (lhs - rhs).isneg()
  | _, _ => Posit.lt n a b

/-- the six relational operators of the specialisations: `>` is `<` swapped, `<=` is `< || ==`, `>=` is `!<` -/
def cmpMaskOf (lt : Nat → Nat → Bool) (n a b : Nat) : Nat :=
  let eq := a % 2 ^ n == b % 2 ^ n
  let l := lt a b
  let g := lt b a
  (if eq then 1 else 0) + (if !eq then 2 else 0) + (if l then 4 else 0) + (if l || eq then 8 else 0)
   + (if g then 16 else 0) + (if !l then 32 else 0)

/-! ### posit<2,0> -/

/-- posit<2,0>::operator=(long long) -/
def assignInt_2_0 (x : Int) : Nat := if x ≤ -1 then 3 else if x = 0 then 0 else 1

/-- posit<2,0>::float_assign(T rhs): `rhs < 0` ↦ −1, `rhs == 0` ↦ 0, `rhs > 0` ↦ 1 (a non-zero value never becomes 0) -/
def assignFP_2_0 (eb fb bits : Nat) : Nat :=
  match FP.decode eb fb bits with
  | .nan => 2
  | .inf _ => 2
  | .fin neg m e =>
    let x : Rat := (if neg then -1 else 1) * dyadic m e
    if x < 0 then 3 else if x = 0 then 0 else 1

/-- posit<2,0>::to_double(): a four-way switch; NaR reads as NAN. Result: float64 bits, `none` = NaN -/
def toDouble_2_0 (a : Nat) : Option Nat :=
  match a % 4 with
  | 0 => some 0 | 1 => some 0x3ff0000000000000 | 2 => none | _ => some 0xbff0000000000000

/-! ### posit<3,0> -/

/-- posit<3,0>::operator=(long long); operator=(int) widens its argument and calls it -/
def assignInt_3_0 (x : Int) : Nat :=
  if x ≤ -2 then 5 else if x = -1 then 6 else if x = 0 then 0 else if x = 1 then 2 else 3

/-- posit<3,0>::to_float(): `posit_3_0_values_lookup[bits()]` (float32 bits; the NaR entry is NAN) -/
def toFloatBits_3_0 (a : Nat) : Nat := tab posit_3_0_values_lookup (a % 8)

/-! ### posit<3,1> -/

def assignInt_3_1 (x : Int) : Nat := if x ≤ -1 then 2 else if x = 0 then 0 else 1

def assignFP_3_1 (eb fb bits : Nat) : Nat :=
  match FP.decode eb fb bits with
  | .nan => 4
  | .inf _ => 4
  | .fin neg m e =>
    if m = 0 then 0 else
    let x : Rat := (if neg then -1 else 1) * dyadic m e
    if x ≤ -2 then 5 else if x < -(1/2) then 6 else if x < 0 then 7 else if x < 1/2 then 1 else if x ≤ 2 then 2 else 4

/-- posit<3,1>::to_double(): the class declares `nbits = NBITS_IS_2`, so only the two low bits are copied into a
    bitblock<2> and decoded as a posit<2,1>. The 2-bit pattern `10` takes decode()'s NaR branch, which only calls
    positRegime::setzero() (k := 1 - nbits = -1) and leaves sign = true: s·r·e·f = -1 · 2^(k·2^es) · 1 · 1 = -1/4. -/
def value_3_1 (a : Nat) : Option Rat :=
  let a := a % 8
  if a = 0 then some 0
  else if a = 4 then none
  else if a % 4 = 2 then some (-(1/4))
  else some (extractFields 2 1 (a % 4)).toRat

/-- posit<3,1>::operator-() -/
def neg_3_1 (a : Nat) : Nat := let a := a % 8; if a = 0 ∨ a = 4 then a else (8 - a) % 8

/-! ### posit<4,0> -/

def assignInt_4_0 (x : Int) : Nat :=
  if x ≤ -4 then 0x9 else if x ≤ -2 then 0xA else if x ≤ -1 then 0xC else if x < 1 then 0
  else if x < 2 then 0x4 else if x < 4 then 0x6 else 0x7

/-! ### posit<8,0> and posit<8,2>: `integer_assign(long long)` (identical text in both headers) -/

/-- the regime/fraction/rounding part of `integer_assign` for 2 ≤ v ≤ 48 (uint8_t arithmetic) -/
def intAssignCore8 (v : Nat) : Nat :=
  let fb0 := u8 v
  -- while (!(fraction_bits & 0x40)) { k--; fraction_bits <<= 1; }
  let sh := 6 - fb0.log2
  let k := 6 - sh
  let fb1 := u8 (fb0 <<< sh)
  let fb2 := fb1 ^^^ 0x40
  let raw0 := u8 ((0x7F ^^^ (0x3F >>> k)) ||| (fb2 >>> (k + 1)))
  let mask := u8 (1 <<< k)
  if mask &&& fb2 ≠ 0 then
    if (((mask - 1) &&& fb2) ||| ((mask <<< 1) &&& fb2)) ≠ 0 then u8 (raw0 + 1) else raw0
  else raw0

/-- the text shared by posit<8,0>::integer_assign and posit<8,2>::integer_assign. `rhs` is the `long long` argument.
    `oldGuard = true`: the guard is `v > 48 || v == rhs` (posit_8_2.hpp: every positive argument is sent to maxpos);
    `oldGuard = false`: the guard is `v > 48 || (sign && v == rhs)` (posit_8_0.hpp: only LLONG_MIN, its own negation). -/
def integerAssign8With (oldGuard : Bool) (rhs : Int) : Nat :=
  if rhs = 0 then 0 else
  let sign := decide (rhs < 0)
  -- long long v = sign ? -rhs : rhs   (LLONG_MIN stays LLONG_MIN)
  let v : Int := toSigned 64 (ofSigned 64 (if sign then -rhs else rhs))
  let raw : Nat :=
    if v > 48 ∨ ((oldGuard ∨ sign) ∧ v = rhs) then 0x7F
    else if v < 2 then u8 (ofSigned 64 (v * 64))
    else intAssignCore8 v.toNat
  if sign then negW 8 raw else raw

/-- posit<8,0>::integer_assign -/
def integerAssign8 (rhs : Int) : Nat := integerAssign8With false rhs
/-- posit<8,2>::integer_assign: still the es = 0 text with the guard that catches every positive argument -/
def integerAssign8_2 (rhs : Int) : Nat := integerAssign8With true rhs

/-- posit<8,2>::float_assign(float): truncates, no rounding. `bits` = binary32 pattern of rhs -/
def floatAssign_8_2 (bits : Nat) : Nat :=
  match FP.decode 8 23 bits with
  | .nan => 0x80
  | .inf _ => 0x80
  | .fin neg m e =>
    if m = 0 then 0 else
    let v : Rat := dyadic m e                       -- |rhs|
    let E := (bits >>> 23) % 256                    -- fd.parts.exponent
    let F := bits % 2 ^ 23                          -- fd.parts.fraction
    let scale : Int := (E : Int) - 127
    let common (reglen : Nat) (regime : Nat) : Nat :=
      let esval : Nat := (scale.fmod 4).toNat       -- scale % 0x04u on the unsigned image of scale
      let sre : Int := 1 + reglen + 1 + 2
      let nf : Nat := (8 - sre).toNat               -- std::max<int>(0, nbits - sign_regime_es)
      let exponent := u8 (esval <<< nf)
      let fraction := u8 (F >>> (23 - nf))
      regime ||| exponent ||| fraction
    let raw : Nat :=
      if v = 1 then 0x40
      else if v > 1 then
        if v > 4194304 then 0x7F else if v > 524288 then 0x7E else if v > 131072 then 0x7D
        else
          let reglen : Nat := (1 + scale.fdiv 4).toNat
          common reglen (u8 (0x7F - (0x7F >>> reglen)))
      else
        if v < dyadic 1 (-22) then 0x01              -- 2.384185791015625e-07f
        else if v < dyadic 1 (-19) then 0x02         -- 1.9073486328125e-06f
        else if v < dyadic 1 (-17) then 0x03         -- 7.62939453125e-06f
        else
          let reglen : Nat := (-(scale.fdiv 4)).toNat
          common reglen (0x40 >>> reglen)
    if neg then negW 8 raw else raw

/-! ### posit<16,2>::integer_assign(long long) -/

def integerAssign_16_2 (rhs : Int) : Nat :=
  if rhs = 0 then 0 else
  let sign := decide (rhs < 0)
  let v : Nat := ofSigned 64 (if sign then -rhs else rhs)      -- uint64_t v
  let raw : Nat :=
    if v > 0x0040000000000000 then 0x7FFF                       -- v > 2^54
    else if v ≥ 0x0008000000000000 then 0x7FFE                  -- 2^51 ≤ v ≤ 2^54
    else if v > 0x0002000000000000 then 0x7FFD                  -- 2^49 < v < 2^51
    else if v ≥ 0x0001000000000000 then 0x7FFC                  -- 2^48 ≤ v ≤ 2^49
    else if v = 1 then 0x4000
    else
      let mask := 0x0040000000000000                            -- bit 54
      let sh := 54 - v.log2                                     -- 2 ≤ v < 2^48 here
      let scale := 54 - sh
      let fb1 := u64 (v <<< sh)
      let k := scale >>> 2                                      -- ≤ 11
      let exp := u16 ((scale &&& 3) <<< (11 - k))
      let fb2 := fb1 ^^^ mask
      let raw0 := u16 ((0x7FFF ^^^ (0x3FFF >>> k)) ||| exp ||| (fb2 >>> (k + 43)))
      let m2 := 0x0000040000000000 <<< k                        -- bitNPlusOne: bit 42+k
      if m2 &&& fb2 ≠ 0 then
        if (((m2 - 1) &&& fb2) ||| (raw0 &&& 1)) ≠ 0 then u16 (raw0 + 1) else raw0
      else raw0
  if sign then negW 16 raw else raw

/-! ### posit<32,2> -/

/-- posit<32,2>::integer_assign(long rhs): `uint64_t v = sign ? -uint64_t(rhs) : rhs`, 64-bit normalisation loop -/
def integerAssign_32_2 (rhs : Int) : Nat :=
  if rhs = 0 then 0 else
  let sign := decide (rhs < 0)
  let v : Nat := ofSigned 64 (if sign then -rhs else rhs)
  let raw : Nat :=
    if v = 0x80000000 then 0x7FB00000
    else if v < 2 then u32 (v <<< 30)
    else
      let sh := 63 - v.log2
      let m := 63 - sh
      let fb1 := u64 (v <<< sh)
      let k := m >>> 2
      let ebits := (m &&& 3) <<< (27 - k)
      let fb2 := fb1 ^^^ 0x8000000000000000
      let raw0 := u32 ((0x7FFFFFFF ^^^ (0x3FFFFFFF >>> k)) ||| ebits ||| (fb2 >>> (k + 36)))
      let mask := 0x800000000 <<< k
      if mask &&& fb2 ≠ 0 then
        if (((mask - 1) &&& fb2) ||| ((mask <<< 1) &&& fb2)) ≠ 0 then u32 (raw0 + 1) else raw0
      else raw0
  if sign then negW 32 raw else raw

/-- posit<32,2>::decode_regime / extractMultiplicand: walk over the regime bits of `bits` starting from the running
    value `m0`. `stepPos` is added per leading one, `stepNeg` per leading zero, `negInit` is the adjustment made before the
    zero loop (decode_regime sets m to minus one, extractMultiplicand decrements the running m). Returns (m, remaining). -/
def regimeWalk32 (bits : Nat) (m0 : Int) (stepPos stepNeg : Int) (negInit : Int → Int) : Int × Nat :=
  let rem0 := u32 (bits <<< 2)
  if bits &&& 0x40000000 ≠ 0 then
    -- while (remaining >> 31) { m += stepPos; remaining <<= 1 }
    let ones := runLen rem0 true 32
    (m0 + stepPos * ones, u32 (rem0 <<< ones))
  else
    let zeros := runLen rem0 false 32
    -- bits ≠ 0 is guaranteed by the callers, so the loop terminates
    (negInit m0 + stepNeg * zeros, u32 (rem0 <<< zeros) &&& 0x7FFFFFFF)

/-- posit<32,2>::round_mul(m, exp, fraction) -/
def roundMul32 (m : Int) (exp : Nat) (fraction : Nat) : Nat :=
  let m := toSigned 8 (ofSigned 8 m)                       -- parameter type is int8_t
  let scale : Nat := if m < 0 then (-m).toNat else (m + 1).toNat
  let regime : Nat := if m < 0 then 0x40000000 >>> scale else 0x7FFFFFFF - (0x7FFFFFFF >>> scale)
  if scale > 30 then (if m < 0 then 1 else 0x7FFFFFFF)
  else
    let fr := (fraction &&& 0x0FFFFFFFFFFFFFFF) >>> scale
    let finalF0 := u32 (fr >>> 32)
    -- `moreBits0`: the low exponent bit that does not fit when scale = 30 (`moreBits = exp & 0x1`)
    let (bitN, moreBits0, exp', finalF) : Bool × Nat × Nat × Nat :=
      if scale ≤ 28 then (decide (fr &&& 0x80000000 ≠ 0), 0, u32 (exp <<< (28 - scale)), finalF0)
      else if scale = 30 then (decide (exp &&& 2 ≠ 0), exp &&& 1, 0, 0)
      else (decide (exp &&& 1 ≠ 0), 0, exp >>> 1, 0)
    let bits := u32 (regime + exp' + finalF)
    if bitN then
      let more := if fr &&& 0x7FFFFFFF ≠ 0 then 1 else moreBits0
      u32 (bits + ((bits &&& 1) ||| more))
    else bits

/-- posit<32,2>::operator*= -/
def mul_32_2 (a b : Nat) : Nat :=
  let a := u32 a; let b := u32 b
  if a = 0x80000000 ∨ b = 0x80000000 then 0x80000000
  else if a = 0 ∨ b = 0 then 0
  else
    let sign := (a &&& 0x80000000 ≠ 0) != (b &&& 0x80000000 ≠ 0)
    let lhs := if a &&& 0x80000000 ≠ 0 then negW 32 a else a
    let rhs := if b &&& 0x80000000 ≠ 0 then negW 32 b else b
    let (m1, rem1) := regimeWalk32 lhs 0 1 (-1) (fun _ => -1)
    let exp1 := rem1 >>> 29
    let lf := (u32 (rem1 <<< 1) ||| 0x40000000) &&& 0x7FFFFFFF
    let (m2, rem2) := regimeWalk32 rhs m1 1 (-1) (fun m => m - 1)
    let rf := (u32 (rem2 <<< 1) ||| 0x40000000) &&& 0x7FFFFFFF
    let prod := lf * rf
    let exp2 := exp1 + (rem2 >>> 29)
    let (m3, exp3) := if exp2 > 3 then (m2 + 1, exp2 &&& 3) else (m2, exp2)
    let rcarry := prod >>> 61 ≠ 0
    let (m4, exp4, prod') :=
      if rcarry then
        let e := exp3 + 1
        if e > 3 then (m3 + 1, e &&& 3, prod >>> 1) else (m3, e, prod >>> 1)
      else (m3, exp3, prod)
    let r := roundMul32 m4 exp4 prod'
    if sign then negW 32 r else r

/-! ### integer-only square roots (posit/math/sqrt.hpp) -/

/-- sqrt(posit<16,1>) when POSIT_FAST_POSIT_16_1 -/
def sqrt_16_1 (a : Nat) : Nat :=
  let a := u16 a
  if a &&& 0x8000 ≠ 0 then 0x8000          -- isneg() || isnar()
  else if a = 0 then 0
  else
    -- decode regime
    let (scale, raw1) : Int × Nat :=
      if a &&& 0x4000 ≠ 0 then
        let ones := runLen a true 15           -- number of leading ones from bit 14
        (-1 + (ones : Int), u16 (a <<< ones))
      else
        let zeros := runLen a false 15
        (-(zeros : Int), u16 (a <<< zeros))
    let raw2 := raw1 &&& 0x3FFF
    let exp := u16 (1 - (raw2 >>> 13) + 0x10000)
    let rf := u16 ((raw2 ||| 0x2000) >>> 1)
    let index := u16 (((rf >>> 8) &&& 0x000E) + exp)
    let r0 := u32 (tab approxRecipSqrt0 index + 2 ^ 32 - ((u32 (tab approxRecipSqrt1 index * (rf &&& 0x01FF))) >>> 13))
    let eSqrR0a := u32 (r0 * r0) >>> 1
    let eSqrR0 := if exp ≠ 0 then eSqrR0a >>> 1 else eSqrR0a
    let sigma0 := 0xFFFF ^^^ (0xFFFF &&& (u64 (eSqrR0 * rf) >>> 18))
    let oneOverSqrt := u32 (u32 (r0 <<< 2) + (u32 (r0 * sigma0) >>> 23))
    let rfr0 := u32 (u64 (rf * oneOverSqrt) >>> 13)
    let (shift, rawR0) : Nat × Nat :=
      if scale < 0 then
        let sh := u16 ((ofSigned 32 (-1 - scale)) >>> 1)
        (sh, u16 (0x2000 >>> sh))
      else
        let sh := u16 (scale.toNat >>> 1)
        (sh, u16 (0x7FFF - (0x7FFF >>> (sh + 1))))
    let rawR := if (ofSigned 16 scale) &&& 1 ≠ 0 then rawR0 ||| (0x1000 >>> shift) else rawR0
    let rfr1 := rfr0 >>> (exp + shift)
    let rfr2 := u32 (rfr1 + 1)
    let rfr3 :=
      if rfr2 &&& 0x0007 = 0 then
        let sf := rfr2 >>> 1
        let negRem := u32 (sf * sf) &&& 0x0003FFFF
        if negRem &&& 0x00020000 ≠ 0 then rfr2 ||| 1
        else if negRem ≠ 0 then u32 (rfr2 + 2 ^ 32 - 1) else rfr2
      else rfr2
    let rfr4 := u32 (rfr3 + 2 ^ 32 - (0x00010000 >>> shift))
    let bitN := (rfr4 >>> 3) &&& 1 ≠ 0
    let rfr5 := if bitN ∧ ((((rfr4 >>> 4) &&& 1) ||| (rfr4 &&& 7)) ≠ 0) then u32 (rfr4 + 0x10) else rfr4
    u16 (rawR ||| (rfr5 >>> 4))

/-- sqrt(posit<32,2>) when POSIT_FAST_POSIT_32_2 -/
def sqrt_32_2 (a : Nat) : Nat :=
  let a := u32 a
  if a &&& 0x80000000 ≠ 0 then 0x80000000
  else if a = 0 then 0
  else
    let (scale0, raw1) : Int × Nat :=
      if a &&& 0x40000000 ≠ 0 then
        let ones := runLen a true 31
        (-2 + 2 * (ones : Int), u32 (a <<< ones))
      else
        let zeros := runLen a false 31
        (-2 * (zeros : Int), u32 (a <<< zeros))
    let raw2 := raw1 &&& 0x3FFFFFFF
    let expF := raw2 >>> 28
    let scale : Int := scale0 + (expF >>> 1 : Nat)
    let exp := 1 ^^^ (expF &&& 1)
    let rf := (raw2 &&& 0x0FFFFFFF) ||| 0x10000000
    let index := ((rf >>> 24) &&& 0x000E) + exp
    let eps := (rf >>> 9) &&& 0xFFFF
    let r0 := u32 (tab approxRecipSqrt0 index + 2 ^ 32 - ((tab approxRecipSqrt1 index * eps) >>> 20))
    let eSqrR0a := r0 * r0
    let eSqrR0 := if exp = 0 then u64 (eSqrR0a <<< 1) else eSqrR0a
    let sigma0 := 0xFFFFFFFF &&& (0xFFFFFFFF ^^^ (u64 (eSqrR0 * rf) >>> 20))
    let recip0 := u64 ((r0 <<< 20) + (u64 (r0 * sigma0) >>> 21))
    let sqrSigma0 := u64 (sigma0 * sigma0) >>> 35
    let recip := u64 (recip0 + (u64 (u64 (recip0 + (recip0 >>> 2) + 2 ^ 64 - u64 (r0 <<< 19)) * sqrSigma0) >>> 46))
    let rfr0 := u64 (rf * recip) >>> 31
    let rfr1 := if exp ≠ 0 then rfr0 >>> 1 else rfr0
    let resultExp := (ofSigned 32 scale) &&& 3
    let (shift, rawR) : Nat × Nat :=
      if scale < 0 then
        let sh := u32 (ofSigned 32 (-1 - scale)) >>> 2
        (sh, 0x20000000 >>> sh)
      else
        let sh := scale.toNat >>> 2
        (sh, 0x7FFFFFFF - (0x3FFFFFFF >>> sh))
    let rfr2 := u64 (rfr1 + 1)
    let rfr3 :=
      if rfr2 &&& 0xF = 0 then
        let sf := rfr2 >>> 1
        let negRem := u64 (sf * sf) &&& 0x1FFFFFFFF
        if negRem &&& 0x100000000 ≠ 0 then rfr2 ||| 1
        else if negRem ≠ 0 then u64 (rfr2 + 2 ^ 64 - 1) else rfr2
      else rfr2
    let rfr4 := rfr3 &&& 0xFFFFFFFF
    let mask := 1 <<< (4 + shift)
    let rfr5 :=
      if mask &&& rfr4 ≠ 0 then
        if (((mask - 1) &&& rfr4) ||| ((mask <<< 1) &&& rfr4)) ≠ 0 then u64 (rfr4 + (mask <<< 1)) else rfr4
      else rfr4
    -- p.setbits(uint64_t(raw) | (uint64_t(result_exp) << (27 - shift)) | uint64_t(result_fraction >> (5 + shift)))
    u32 (rawR ||| (resultExp <<< (27 - shift)) ||| (rfr5 >>> (5 + shift)))

end UVerif.Fast
