/-
  UVerif.Model.Fixpnt — `fixpnt<nbits, rbits, Modulo|Saturate, bt>` (include/universal/number/fixpnt/fixpnt_impl.hpp)
  on top of the blockbinary model (UVerif.Model.Limbs, namespace BB).
  `w` = bits in a block, `n` = nbits, `r` = rbits, `sat` = Saturate.  Core Lean only.
-/
import UVerif.Model.Limbs

namespace UVerif.Fixpnt
open UVerif UVerif.Limbs

/-- `operator+=` (fixpnt_impl.hpp:435-456) -/
def add (w n : Nat) (sat : Bool) (a b : List Nat) : List Nat :=
  if !sat then BB.add w n a b
  else
    let N := n + 1
    let c := BB.uradd w n a b
    let satP := BB.assign w N n (BB.maxpos w n)
    if BB.ge w N c satP then BB.assign w n N satP
    else
      let satN := BB.assign w N n (BB.maxneg w n)
      if BB.le w N c satN then BB.assign w n N satN
      else BB.assign w n N c

/-- `operator-=` (fixpnt_impl.hpp:457-478) -/
def sub (w n : Nat) (sat : Bool) (a b : List Nat) : List Nat :=
  if !sat then BB.add w n a (BB.twosC w n b)
  else
    let N := n + 1
    let c := BB.ursub w n a b
    let satP := BB.assign w N n (BB.maxpos w n)
    if BB.ge w N c satP then BB.assign w n N satP
    else
      let satN := BB.assign w N n (BB.maxneg w n)
      if BB.le w N c satN then BB.assign w n N satN
      else BB.assign w n N c

/-- `operator*=` (fixpnt_impl.hpp:479-507) -/
def mul (w n r : Nat) (sat : Bool) (a b : List Nat) : List Nat :=
  let M := 2 * n
  let c := BB.urmul2 w n a b
  let roundUp := BB.roundingMode w M c r
  let c := BB.shr w M c r
  if !sat then
    let c := if roundUp then BB.inc w M c else c
    BB.assign w n M c
  else
    let satP := BB.assign w M n (BB.maxpos w n)
    if BB.ge w M c satP then BB.assign w n M satP
    else
      let satN := BB.assign w M n (BB.maxneg w n)
      if BB.lt w M c satN then BB.assign w n M satN
      else
        let c := if roundUp then BB.inc w M c else c
        BB.assign w n M c

/-- `operator/=` (fixpnt_impl.hpp:510-545): Modulo only; Saturate prints "TBD" and returns the lhs (defect D11). -/
def div (w n r : Nat) (sat : Bool) (a b : List Nat) : List Nat :=
  if sat then a
  else
    let positive := (!BB.sign w n a && !BB.sign w n b) || (BB.sign w n a && BB.sign w n b)
    let A := 2 * n + 2 * r + 2 * n
    let dividend := BB.assign w A n a
    let dividend := if BB.sign w A dividend then BB.twosC w A dividend else dividend
    let dividend := BB.shl w A dividend (2 * (r + n) : Nat)
    let divisor := BB.assign w A n b
    let divisor := if BB.sign w A divisor then BB.twosC w A divisor else divisor
    let divisor := BB.shl w A divisor (r + n : Nat)
    let q := BB.divrem w A dividend divisor false
    let roundUp := BB.roundingMode w A q n
    let q := BB.shr w A q n
    let q := if roundUp then BB.inc w A q else q
    BB.assign w n A (if positive then q else BB.twosC w A q)

/-- unary `operator-` (fixpnt_impl.hpp:382-391): two's complement; in Saturate arithmetic maxneg is replaced by its flip
    (= maxpos), in Modulo arithmetic it stays maxneg (repaired in "fix: fixpnt unary minus in Modulo arithmetic must wrap
    maxneg to maxneg, not flip it to maxpos": the flip used to happen in both modes) -/
def neg (w n : Nat) (sat : Bool) (a : List Nat) : List Nat :=
  let t := BB.twosC w n a
  if sat && t == BB.maxneg w n then BB.flip w n t else t

/-- `operator++`: `*this += fixpnt(setbits(1))` in the configuration's arithmetic -/
def inc (w n : Nat) (sat : Bool) (a : List Nat) : List Nat := add w n sat a (BB.setbits w n 1)
def dec (w n : Nat) (sat : Bool) (a : List Nat) : List Nat := sub w n sat a (BB.setbits w n 1)

/-- comparison mask as printed by the harness: == != < <= > >= -/
def cmpMask (w n : Nat) (a b : List Nat) : Nat :=
  let e := a == b
  let l := BB.lt w n a b
  let g := BB.lt w n b a
  (if e then 1 else 0) + (if !e then 2 else 0) + (if l then 4 else 0) + (if l || e then 8 else 0)
    + (if g then 16 else 0) + (if !l then 32 else 0)

end UVerif.Fixpnt
