/-
  UVerif.Model.IeeeBits — IEEE-754 binary interchange formats on bit patterns (`Nat`), core Lean only.
  Used by the lns model (the `double` detour of `+=`/`-=`) and by the areal model/spec (source floats/doubles).

  * field extraction exactly as `extractFields` / `std::bit_cast` + masks do it,
  * exact value of a finite pattern as a dyadic `(neg, m, e)` = (-1)^neg · m · 2^e and as a `Rat`,
  * `add`/`sub`: round-to-nearest-even of the exact sum (hardware addition; validated on every add/sub line of
    the lns transcript, where the harness prints both operands and the sum it computed),
  * comparisons of finite patterns (all comparisons with a NaN are false, as in C++).
-/
import UVerif.Basic

namespace UVerif.IeeeBits

structure Fmt where
  ebits : Nat
  fbits : Nat
deriving Repr, DecidableEq

def f64 : Fmt := ⟨11, 52⟩
def f32 : Fmt := ⟨8, 23⟩

def Fmt.bias (f : Fmt) : Nat := 2 ^ (f.ebits - 1) - 1
def Fmt.width (f : Fmt) : Nat := 1 + f.ebits + f.fbits
def Fmt.eAll (f : Fmt) : Nat := 2 ^ f.ebits - 1

def signOf (f : Fmt) (b : Nat) : Bool := b.testBit (f.ebits + f.fbits)
def expOf (f : Fmt) (b : Nat) : Nat := (b >>> f.fbits) % 2 ^ f.ebits
def fracOf (f : Fmt) (b : Nat) : Nat := b % 2 ^ f.fbits

def isNaN (f : Fmt) (b : Nat) : Bool := expOf f b == f.eAll && fracOf f b != 0
def isInf (f : Fmt) (b : Nat) : Bool := expOf f b == f.eAll && fracOf f b == 0
def isZero (f : Fmt) (b : Nat) : Bool := expOf f b == 0 && fracOf f b == 0
def isFinite (f : Fmt) (b : Nat) : Bool := expOf f b != f.eAll

/-- significand of a finite pattern (hidden bit added for normal numbers). -/
def mant (f : Fmt) (b : Nat) : Nat :=
  if expOf f b = 0 then fracOf f b else fracOf f b + 2 ^ f.fbits

/-- exponent of the unit in the last place of a finite pattern: value = ± mant · 2^ulpExp. -/
def ulpExp (f : Fmt) (b : Nat) : Int :=
  (Nat.max (expOf f b) 1 : Int) - (f.bias : Int) - (f.fbits : Int)

/-- exact value of a finite pattern. -/
def toRat (f : Fmt) (b : Nat) : Rat :=
  let v := dyadic (mant f b) (ulpExp f b)
  if signOf f b then -v else v

/-- signed integer `k` with value = k · 2^e for a common exponent `e ≤ ulpExp`. -/
def scaled (f : Fmt) (b : Nat) (e : Int) : Int :=
  let m : Int := (mant f b : Int) * (2 ^ (ulpExp f b - e).toNat : Nat)
  if signOf f b then -m else m

/-- `a < b` on patterns (false when either is NaN; infinities ordered). -/
def lt (f : Fmt) (a b : Nat) : Bool :=
  if isNaN f a || isNaN f b then false
  else
    let key (x : Nat) : Int × Int :=   -- (class, scaled) : -inf < finite < +inf
      if isInf f x then (if signOf f x then (-1, 0) else (1, 0))
      else (0, scaled f x (min (ulpExp f a) (ulpExp f b)))
    let ka := key a; let kb := key b
    ka.1 < kb.1 || (ka.1 == kb.1 && ka.2 < kb.2)

def le (f : Fmt) (a b : Nat) : Bool :=
  if isNaN f a || isNaN f b then false else !lt f b a

def eqv (f : Fmt) (a b : Nat) : Bool :=
  if isNaN f a || isNaN f b then false else !lt f a b && !lt f b a

def negate (f : Fmt) (b : Nat) : Nat := b ^^^ 2 ^ (f.ebits + f.fbits)
def absB (f : Fmt) (b : Nat) : Nat := b % 2 ^ (f.ebits + f.fbits)

def infBits (f : Fmt) (neg : Bool) : Nat :=
  (if neg then 2 ^ (f.ebits + f.fbits) else 0) + f.eAll * 2 ^ f.fbits

/-- round-to-nearest-even of (-1)^neg · M · 2^e into the format (overflow to infinity, gradual underflow). -/
def encodeRound (f : Fmt) (neg : Bool) (M : Nat) (e : Int) : Nat :=
  let sgn := if neg then 2 ^ (f.ebits + f.fbits) else 0
  if M = 0 then sgn else
  let L := Nat.log2 M + 1                                 -- bit length
  let eMin : Int := 1 - (f.bias : Int) - (f.fbits : Int)   -- ulp exponent of subnormals
  -- number of low bits to drop so that at most fbits+1 bits remain and the ulp exponent is ≥ eMin
  let drop : Int := max ((L : Int) - ((f.fbits : Int) + 1)) (eMin - e)
  let (Mr, er) : Nat × Int :=
    if drop > 0 then (rneShr M drop.toNat, e + drop) else (M <<< (-drop).toNat, e + drop)
  -- now value ≈ Mr · 2^er with Mr ≤ 2^(fbits+1) and er ≥ eMin; renormalise a rounding carry
  let (Mr, er) := if Mr = 2 ^ (f.fbits + 1) then (Mr / 2, er + 1) else (Mr, er)
  if Mr < 2 ^ f.fbits then
    -- subnormal (er = eMin necessarily) or zero
    sgn + Mr
  else
    let E : Int := er - eMin + 1
    if E ≥ (f.eAll : Int) then infBits f neg
    else sgn + E.toNat * 2 ^ f.fbits + (Mr - 2 ^ f.fbits)

def quietNaN (f : Fmt) : Nat := f.eAll * 2 ^ f.fbits + 2 ^ (f.fbits - 1)

/-- hardware addition (x86 SSE semantics for NaN operands: the first NaN operand, quieted). -/
def add (f : Fmt) (a b : Nat) : Nat :=
  let quiet (x : Nat) : Nat := x ||| 2 ^ (f.fbits - 1)
  if isNaN f a then quiet a
  else if isNaN f b then quiet b
  else if isInf f a then
    if isInf f b && signOf f a != signOf f b then 2 ^ (f.ebits + f.fbits) + quietNaN f   -- default NaN (negative)
    else a
  else if isInf f b then b
  else
    let e := min (ulpExp f a) (ulpExp f b)
    let s : Int := scaled f a e + scaled f b e
    if s = 0 then
      -- exact zero: -0 only when both operands are negative (zero) patterns
      if (mant f a = 0 && mant f b = 0 && signOf f a && signOf f b) then 2 ^ (f.ebits + f.fbits) else 0
    else encodeRound f (s < 0) s.natAbs e

def sub (f : Fmt) (a b : Nat) : Nat :=
  if isNaN f a || isNaN f b then add f a b else add f a (negate f b)

/-- number of units in the last place of `b` between the finite pattern `b` and the rational `x` is ≤ k -/
def withinUlps (f : Fmt) (b : Nat) (xlo xhi : Rat) (k : Nat) : Bool :=
  let v := toRat f b
  let u := pow2 (ulpExp f b)
  xlo - (k : Rat) * u ≤ v && v ≤ xhi + (k : Rat) * u

end UVerif.IeeeBits
