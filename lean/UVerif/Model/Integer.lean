/-
  UVerif.Model.Integer — `integer<nbits, bt, IntegerNumber>` (include/universal/number/integer/integer_impl.hpp)
  transcribed on limb lists (UVerif.Model.Limbs).  `w` = bits in a block, `n` = nbits.
  Core Lean only.
-/
import UVerif.Model.Limbs

namespace UVerif.Integer
open UVerif UVerif.Limbs

/-- `sign()` = `at(nbits-1)` -/
def sign (w n : Nat) (a : List Nat) : Bool := bitAt w n a (n - 1)

def iszero (a : List Nat) : Bool := a.all (· == 0)

/-- `convert_signed(int64)`: `for i < nbits && v != 0: if (v&1) setbit(i); v >>= 1`, sign extension above 64 -/
def convertSigned (w n : Nat) (v : Int) : List Nat := ofNat w (nrBlocks w n) (ofSigned n v)

/-- `convert_unsigned(uint64)` -/
def convertUnsigned (w n : Nat) (v : Nat) : List Nat := ofNat w (nrBlocks w n) ((v % 2 ^ 64) % 2 ^ n)

/-- `operator+=` (integer_impl.hpp:275-314): single-block sum, or the carry chain — on `uint64_t` blocks the branch of `addLoop`
    that recovers the carry from the wrap-around of the 64-bit additions -/
def add (w n : Nat) (a b : List Nat) : List Nat :=
  if nrBlocks w n = 1 then maskMSU w n [(blk a 0 + blk b 0) % 2 ^ w]
  else maskMSU w n (addLoop w (w == 64) 0 a b)

/-- `flip()` -/
def flip (w n : Nat) (a : List Nat) : List Nat := maskMSU w n (flipLimbs w a)

/-- `operator++`: `*this += integer(1)`, MSU mask -/
def inc (w n : Nat) (a : List Nat) : List Nat := maskMSU w n (add w n a (convertSigned w n 1))

/-- `twosComplement()`: `flip(); return ++(*this)` -/
def twosC (w n : Nat) (a : List Nat) : List Nat := inc w n (flip w n a)

/-- unary `operator-`: copy, `flip()`, `+= 1` -/
def neg (w n : Nat) (a : List Nat) : List Nat := add w n (flip w n a) (convertSigned w n 1)

/-- `operator-=`: `integer twos(rhs); operator+=(twos.twosComplement())` -/
def sub (w n : Nat) (a b : List Nat) : List Nat := add w n a (twosC w n b)

/-- `operator--`: `*this -= integer(1)`, MSU mask -/
def dec (w n : Nat) (a : List Nat) : List Nat := maskMSU w n (sub w n a (convertSigned w n 1))

/-- `operator<` (integer_impl.hpp:1697-1725), IntegerNumber branch -/
def lt (w n : Nat) (a b : List Nat) : Bool :=
  let sa := sign w n a
  let sb := sign w n b
  if sa && !sb then true
  else if sb && !sa then false
  else sign w n (sub w n a b)

def eq (a b : List Nat) : Bool := a == b

/-- `isneg()` = `*this < 0` = `operator<(lhs, integer(0))` -/
def isneg (w n : Nat) (a : List Nat) : Bool := lt w n a (convertSigned w n 0)

/-- comparison mask as printed by the harness: == != < <= > >= -/
def cmpMask (w n : Nat) (a b : List Nat) : Nat :=
  let e := eq a b
  let l := lt w n a b
  let g := lt w n b a          -- operator> (a,b) = operator<(b,a)
  (if e then 1 else 0) + (if !e then 2 else 0) + (if l then 4 else 0) + (if !g then 8 else 0)
    + (if g then 16 else 0) + (if !l then 32 else 0)

/-- converting constructor `integer<n>(const integer<src>&)`: `bitcopy` + sign extension when widening -/
def resize (w n src : Nat) (a : List Nat) : List Nat :=
  let k := nrBlocks w n
  let l0 := maskMSU w n ((List.range k).map (fun i => blk a i))
  if src < n && sign w src a then setRange w l0 src n true else l0

/-- `bitcopy` alone (no sign extension) -/
def bitcopy (w n : Nat) (a : List Nat) : List Nat :=
  maskMSU w n ((List.range (nrBlocks w n)).map (fun i => blk a i))

/-- `operator*=` (integer_impl.hpp:328-384), IntegerNumber branch -/
def mul (w n : Nat) (a b : List Nat) : List Nat :=
  let k := nrBlocks w n
  if k = 1 then maskMSU w n [(blk a 0 * blk b 0) % 2 ^ w]
  else
    let N := n + 1
    let base := resize w N n a
    let mult := resize w N n b
    let nb := isneg w N base
    let nm := isneg w N mult
    let base := if nb then twosC w N base else base
    let mult := if nm then twosC w N mult else mult
    let r := mulLoop w ((List.range k).map (fun i => blk base i)) mult (zeros k)
    let r := if nb != nm then twosC w n r else r
    maskMSU w n r

/-- `operator<<=` for a positive count (integer_impl.hpp:464-499) -/
def shlPos (w n : Nat) (a : List Nat) (s : Nat) : List Nat :=
  if s > n then zeros a.length
  else
    let bs := if s ≥ w then s / w else 0
    let a1 := if s ≥ w then shlBlocks a bs else a
    let s1 := s - bs * w
    if s ≥ w && s1 == 0 then maskMSU w n a1
    else maskMSU w n (shlBits w s1 0 a1)

/-- `operator>>=` for a positive count (integer_impl.hpp:516-585): `if (bitsToShift >= nbits) { setzero(); return *this; }` as it is —
    a negative value becomes 0, not −1 (defect D8, known finding `integer.shr.count_ge_nbits_negative`; the repair 11c577e was
    withdrawn because the library's own test static/integer/binary/logic/shift_right.cpp expects `maxneg >> nbits == 0`) -/
def shrPos (w n : Nat) (a : List Nat) (s : Nat) : List Nat :=
  if s ≥ n then zeros a.length
  else
    let signext := sign w n a
    let bs := if s ≥ w then s / w else 0
    let a1 := if s ≥ w then shrBlocks a bs else a
    let s1 := s - bs * w
    if s ≥ w && s1 == 0 then setRange w a1 (n - bs * w) n signext
    else
      let a2 := shrBits w s1 a1
      let a3 := setRange w a2 (n - (s1 + bs * w)) n signext
      maskMSU w n a3

def shl (w n : Nat) (a : List Nat) (s : Int) : List Nat :=
  if s = 0 then a else if s < 0 then shrPos w n a (-s).toNat else shlPos w n a s.toNat
def shr (w n : Nat) (a : List Nat) (s : Int) : List Nat :=
  if s = 0 then a else if s < 0 then shlPos w n a (-s).toNat else shrPos w n a s.toNat

def band (w n : Nat) (a b : List Nat) : List Nat := maskMSU w n (List.zipWith (· &&& ·) a b)
def bor  (w n : Nat) (a b : List Nat) : List Nat := maskMSU w n (List.zipWith (· ||| ·) a b)
def bxor (w n : Nat) (a b : List Nat) : List Nat := maskMSU w n (List.zipWith (· ^^^ ·) a b)

/-- one iteration of the long-division loop of `idiv`: `if (subtractand <= accumulator) { accumulator -= subtractand;
    quot.setbit(i); } else quot.setbit(i, false); subtractand >>= 1;` on the state (accumulator, subtractand, quotient).
    `subtractand <= accumulator` is `!(accumulator < subtractand)`. -/
def idivStep (w n : Nat) (st : List Nat × List Nat × List Nat) (i : Nat) : List Nat × List Nat × List Nat :=
  let (acc, sb', q) := st
  let (acc, q) := if !(lt w (n + 1) acc sb') then (sub w (n + 1) acc sb', setbit w q i true) else (acc, setbit w q i false)
  (acc, shr w (n + 1) sb' 1, q)

/-- `idiv` (integer_impl.hpp:1312-1399), IntegerNumber branch: (quotient, remainder). The zero divisor is
    reported on stderr and the routine carries on; the harness never sends it, the model returns zeros. -/
def idiv (w n : Nat) (a b : List Nat) : List Nat × List Nat :=
  let k := nrBlocks w n
  if iszero b then (zeros k, zeros k)
  else
    let sa := sign w n a
    let sb := sign w n b
    let N := n + 1
    let A := bitcopy w N (if sa then neg w n a else a)
    let B := bitcopy w N (if sb then neg w n b else b)
    if lt w N A B then (convertSigned w n 0, a)
    else
      let d := msbPos w A - msbPos w B
      let sub0 := shl w N B d
      let fin := ((List.range (d.toNat + 1)).reverse).foldl (idivStep w n) (A, sub0, convertSigned w n 0)
      let acc := fin.1
      let q := fin.2.2
      let q := if sa != sb then add w n (flip w n q) (convertSigned w n 1) else q
      let r := if isneg w n a then resize w n N (neg w N acc) else resize w n N acc
      (q, r)

/-- `operator/=`, `operator%=`: native fast path for the exact-fit single block (`BB.nativeDiv`: a divisor −1 negates in the
    block type instead of dividing, so most negative / −1 wraps), `idiv` otherwise. -/
def divrem (w n : Nat) (a b : List Nat) (rem : Bool) : List Nat :=
  if n = w then [BB.nativeDiv w (blk a 0) (blk b 0) rem &&& msuMask w n]
  else
    let (q, r) := idiv w n a b
    if rem then r else q

/-- `to_integer<long long>()` as a 64-bit pattern -/
def toI64 (w n : Nat) (a : List Nat) : Nat :=
  if iszero a then 0 else
  let ub := min (nrBlocks w n - 1) (63 / w)
  let v := (toNat w (a.take (ub + 1))) % 2 ^ 64
  if sign w n a && n < 64 then v ||| (2 ^ 64 - 2 ^ n) else v

/-- `to_unsigned_integer<unsigned long long>()` -/
def toU64 (w n : Nat) (a : List Nat) : Nat :=
  if iszero a then 0 else
  let ub := min (nrBlocks w n - 1) (63 / w)
  (toNat w (a.take (ub + 1))) % 2 ^ 64

end UVerif.Integer
