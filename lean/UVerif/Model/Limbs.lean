/-
  UVerif.Model.Limbs — limb-level model shared by blockbinary / integer / fixpnt.

  A number of `n` bits stored in blocks of `w` bits (`w ∈ {8,16,32,64}` in the C++, a PARAMETER here) is a
  little-endian `List Nat` of `nrBlocks w n` limbs, each `< 2^w`.  Every C++ limb loop is transcribed on
  the list (carry chains, block shift + bit shift, MSU mask, setbit loops), so that the same model
  instantiated at two different `w` has to be *proved* to give the same value — that is property C12.

  Sources: include/universal/internal/blockbinary/blockbinary.hpp (namespace `BB` below),
  the integer-specific transcriptions live in UVerif/Model/Integer.lean.
  Core Lean only.
-/
import UVerif.Basic

namespace UVerif.Limbs

/-! ### layout constants (blockbinary.hpp:95-105, integer_impl.hpp:111-124) -/

/-- `nrBlocks = 1 + (nbits-1)/bitsInBlock` -/
def nrBlocks (w n : Nat) : Nat := 1 + (n - 1) / w

/-- `bitSurplus = nrBlocks*bitsInBlock - nbits` (`maxShift` in blockbinary) -/
def surplus (w n : Nat) : Nat := nrBlocks w n * w - n

/-- `MSU_MASK = ALL_ONES >> bitSurplus` -/
def msuMask (w n : Nat) : Nat := (2 ^ w - 1) / 2 ^ surplus w n

/-! ### value of a limb list -/

def toNat (w : Nat) : List Nat → Nat
  | [] => 0
  | x :: xs => x + 2 ^ w * toNat w xs

/-- `k` limbs of `v` (what the harness does with `setblock(i, …)`) -/
def ofNat (w : Nat) : Nat → Nat → List Nat
  | 0, _ => []
  | k + 1, v => v % 2 ^ w :: ofNat w k (v / 2 ^ w)

/-- two's complement reading at `n` bits of the raw storage -/
def toInt (w n : Nat) (l : List Nat) : Int := toSigned n (toNat w l)

/-- no bit at or above `n`, every limb a `w`-bit value, right number of limbs -/
def Canon (w n : Nat) (l : List Nat) : Prop :=
  l.length = nrBlocks w n ∧ (∀ x ∈ l, x < 2 ^ w) ∧ toNat w l < 2 ^ n

def canonB (w n : Nat) (l : List Nat) : Bool :=
  l.length == nrBlocks w n && l.all (· < 2 ^ w) && toNat w l < 2 ^ n

/-! ### primitives -/

/-- `block(i)`: 0 when out of range -/
@[inline] def blk (l : List Nat) (i : Nat) : Nat := l.getD i 0

def zeros (k : Nat) : List Nat := List.replicate k 0

def mapLast (f : Nat → Nat) : List Nat → List Nat
  | [] => []
  | [x] => [f x]
  | x :: y :: ys => x :: mapLast f (y :: ys)

/-- `_block[MSU] &= MSU_MASK` -/
def maskMSU (w n : Nat) (l : List Nat) : List Nat := mapLast (fun x => x &&& msuMask w n) l

/-- limb carry chain of `operator+=`:
    `carry += (u64)a + (u64)b; *pC = (bt)carry; carry >>= bitsInBlock`  (blockbinary, and integer on 8/16/32-bit blocks:
    the sum of two limbs and a carry bit fits the 64-bit accumulator).
    `u64` is integer's `if constexpr (bitsInBlock == 64)` branch (integer_impl.hpp:289-295, passed as `w == 64`; repaired in
    "fix: integer operator+= must propagate the carry between uint64_t blocks" — the branch used to be `carry = 0`): the
    64-bit accumulator wraps, so `partial = carry + a; total = partial + b` in `uint64_t` arithmetic (modulo 2^w, w = 64 there),
    `carry = (partial < carry) + (total < partial)`, `*pC = total`. -/
def addLoop (w : Nat) (u64 : Bool) : Nat → List Nat → List Nat → List Nat
  | c, a :: as, b :: bs =>
    if u64 then
      let part := (c + a) % 2 ^ w
      let total := (part + b) % 2 ^ w
      total :: addLoop w u64 ((if part < c then 1 else 0) + (if total < part then 1 else 0)) as bs
    else
      let s := c + a + b
      (s % 2 ^ w) :: addLoop w u64 (s / 2 ^ w) as bs
  | _, _, _ => []

/-- `_block[i] = bt(~_block[i])` for every block -/
def flipLimbs (w : Nat) (l : List Nat) : List Nat := l.map (fun x => 2 ^ w - 1 - x)

/-- `setbit(i, v)`: `(block & ~(1<<(i%w))) | (v << (i%w))`, nop when the block index is out of range -/
def setbit (w : Nat) (l : List Nat) (i : Nat) (v : Bool) : List Nat :=
  let bi := i / w
  if bi < l.length then
    let x := blk l bi
    let p := 2 ^ (i % w)
    l.set bi ((x ^^^ (x &&& p)) ||| (if v then p else 0))
  else l

/-- `for (i = lo; i < hi; ++i) setbit(i, v)` -/
def setRange (w : Nat) (l : List Nat) (lo hi : Nat) (v : Bool) : List Nat :=
  (List.range' lo (hi - lo)).foldl (fun l i => setbit w l i v) l

/-- `at(i)` / `test(i)` -/
def bitAt (w n : Nat) (l : List Nat) (i : Nat) : Bool :=
  decide (i < n) && (blk l (i / w)).testBit (i % w)

/-- block part of `<<=`: `for i = MSU downto bs: b[i] = b[i-bs]; for i < bs: b[i] = 0` -/
def shlBlocks (l : List Nat) (bs : Nat) : List Nat := (zeros bs ++ l).take l.length

/-- block part of `>>=`: `for i = 0 .. MSU-bs: b[i] = b[i+bs]` — the top `bs` blocks keep their old content -/
def shrBlocks (l : List Nat) (bs : Nat) : List Nat := l.drop bs ++ l.drop (l.length - bs)

/-- bit part of `<<=` (0 < s < w): `b[i] = (b[i] << s) | ((mask & b[i-1]) >> (w-s))`, `b[0] <<= s` -/
def shlBits (w s : Nat) : Nat → List Nat → List Nat
  | _, [] => []
  | prev, x :: xs => (((x * 2 ^ s) % 2 ^ w) ||| (prev / 2 ^ (w - s))) :: shlBits w s x xs

/-- bit part of `>>=` (0 < s < w): `b[i] = (b[i] >> s) | ((mask & b[i+1]) << (w-s))`, `b[MSU] >>= s` -/
def shrBits (w s : Nat) : List Nat → List Nat
  | [] => []
  | [x] => [x / 2 ^ s]
  | x :: y :: rest => ((x / 2 ^ s) ||| ((y % 2 ^ s) * 2 ^ (w - s))) :: shrBits w s (y :: rest)

/-- one row of the schoolbook product: `segment += a_i * b_j + r[i+j]; r[i+j] = (bt)segment; segment >>= w`
    for the positions `i+j < nrBlocks` (the C++ keeps adding into `segment` beyond that, unused). -/
def mulRow (w ai : Nat) : Nat → List Nat → List Nat → List Nat
  | seg, b :: bs, r :: rs =>
    let s := seg + ai * b + r
    (s % 2 ^ w) :: mulRow w ai (s / 2 ^ w) bs rs
  | _, [], rs => rs
  | _, _, [] => []

/-- `for i: for j:` of `operator*=`; `acc` is the part of the result from position `i` upward -/
def mulLoop (w : Nat) : List Nat → List Nat → List Nat → List Nat
  | [], _, acc => acc
  | _ :: _, _, [] => []
  | a :: as, bs, r :: rs =>
    match mulRow w a 0 bs (r :: rs) with
    | [] => []
    | r0 :: rt => r0 :: mulLoop w as bs rt

/-- position of the most significant set bit of the stored value, -1 for zero
    (`blockbinary::msb`, `findMsb(integer)`: block scan from the top, then bit scan) -/
def msbPos (w : Nat) (l : List Nat) : Int :=
  let v := toNat w l
  if v = 0 then -1 else (Nat.log2 v : Int)

/-- `any(msb)`: any bit set in positions `0..min(msb, n-1)` — block loop + masked top block -/
def anyUpTo (w n : Nat) (l : List Nat) (msb : Nat) : Bool :=
  let m := if msb > n - 1 then n - 1 else msb
  let top := m / w
  let mask := (2 ^ w - 1) / 2 ^ (w - 1 - m % w)
  (l.take top).any (fun x => x > 0) || (blk l top &&& mask) != 0

/-! ### blockbinary<n, bt, Signed> -/
namespace BB

/-- `setbits(uint64)`: limbs of the low 64 bits, MSU masked -/
def setbits (w n v : Nat) : List Nat := maskMSU w n (ofNat w (nrBlocks w n) (v % 2 ^ 64))

/-- `operator=(long long)`: limbs of the sign-extended value (arithmetic `>>=`), MSU masked -/
def ofInt64 (w n : Nat) (v : Int) : List Nat :=
  maskMSU w n (ofNat w (nrBlocks w n) (ofSigned (nrBlocks w n * w) v))

def sign (w n : Nat) (a : List Nat) : Bool := (blk a (nrBlocks w n - 1)).testBit ((n - 1) % w)

def iszero (a : List Nat) : Bool := a.all (· == 0)

/-- `operator+=` (blockbinary.hpp:227-252) -/
def add (w n : Nat) (a b : List Nat) : List Nat :=
  if nrBlocks w n = 1 then maskMSU w n [(blk a 0 + blk b 0) % 2 ^ w]
  else maskMSU w n (addLoop w false 0 a b)

def flip (w n : Nat) (a : List Nat) : List Nat := maskMSU w n (flipLimbs w a)

/-- free `twosComplement` / member `twosComplement()` / `operator-`: flip, `+= blockbinary(1)` -/
def twosC (w n : Nat) (a : List Nat) : List Nat := add w n (flip w n a) (ofInt64 w n 1)

def sub (w n : Nat) (a b : List Nat) : List Nat := add w n a (twosC w n b)

def inc (w n : Nat) (a : List Nat) : List Nat := add w n a (setbits w n 1)
def dec (w n : Nat) (a : List Nat) : List Nat := sub w n a (setbits w n 1)

/-- `blockbinary<n>(const blockbinary<src>&)` = `assign`: clear, copy the common blocks, sign-extend when
    widening, mask the MSU -/
def assign (w n src : Nat) (a : List Nat) : List Nat :=
  let k := nrBlocks w n
  let m := min k (nrBlocks w src)
  let l0 := (a.take m) ++ zeros (k - m)
  let l1 := if n > src && sign w src a then setRange w l0 src n true else l0
  maskMSU w n l1

def maxneg (w n : Nat) : List Nat := setbit w (zeros (nrBlocks w n)) (n - 1) true
def maxpos (w n : Nat) : List Nat := setbit w (flip w n (zeros (nrBlocks w n))) (n - 1) false

/-- `operator<` (blockbinary.hpp:854-862) -/
def lt (w n : Nat) (a b : List Nat) : Bool :=
  if !sign w n a && sign w n b then false
  else if sign w n a && !sign w n b then true
  else if a == b then false
  else if b == maxneg w n then false
  else sign w n (sub w n a b)

def le (w n : Nat) (a b : List Nat) : Bool := lt w n a b || a == b
def gt (w n : Nat) (a b : List Nat) : Bool := !(le w n a b)
def ge (w n : Nat) (a b : List Nat) : Bool := !(lt w n a b)

/-- `operator<<=` for a positive count (blockbinary.hpp:411-446): `_block[MSU] &= MSU_MASK` on both exits
    (repaired in fd17b6d, was defect D7) -/
def shlPos (w n : Nat) (a : List Nat) (s : Nat) : List Nat :=
  if s > n then zeros a.length
  else
    let bs := if s ≥ w then s / w else 0
    let a1 := if s ≥ w then shlBlocks a bs else a
    let s1 := s - bs * w
    if s ≥ w && s1 == 0 then maskMSU w n a1
    else maskMSU w n (shlBits w s1 0 a1)

/-- `operator>>=` for a positive count (blockbinary.hpp:444-513) -/
def shrPos (w n : Nat) (a : List Nat) (s : Nat) : List Nat :=
  if s ≥ n then zeros a.length
  else
    let signext := sign w n a
    let bs := if s ≥ w then s / w else 0
    let a1 := if s ≥ w then shrBlocks a bs else a
    let s1 := s - bs * w
    if s ≥ w && s1 == 0 then setRange w a1 (n - bs * w) n signext
    else
      let a2 := shrBits w s1 a1
      let a3 := setRange w a2 (n - (s1 + bs * w)) n signext
      maskMSU w n a3

def shl (w n : Nat) (a : List Nat) (s : Int) : List Nat :=
  if s = 0 then a else if s < 0 then shrPos w n a (-s).toNat else shlPos w n a s.toNat
def shr (w n : Nat) (a : List Nat) (s : Int) : List Nat :=
  if s = 0 then a else if s < 0 then shlPos w n a (-s).toNat else shrPos w n a s.toNat

/-- `operator*=` (BLOCKBINARY_FAST_MUL, Signed) -/
def mul (w n : Nat) (a b : List Nat) : List Nat :=
  let k := nrBlocks w n
  if k = 1 then maskMSU w n [(blk a 0 * blk b 0) % 2 ^ w]
  else
    let base := assign w (n + 1) n a
    let mult := assign w (n + 1) n b
    let neg := sign w (n + 1) base != sign w (n + 1) mult
    let base := if sign w (n + 1) base then twosC w (n + 1) base else base
    let mult := if sign w (n + 1) mult then twosC w (n + 1) mult else mult
    let r := mulLoop w (base.take k) mult (zeros k)
    let r := if neg then twosC w n r else r
    maskMSU w n r

/-- `roundingMode(targetLsb)` (blockbinary.hpp:785-792) -/
def roundingMode (w n : Nat) (a : List Nat) (t : Nat) : Bool :=
  let lsb := bitAt w n a t
  let guard := if t = 0 then false else bitAt w n a (t - 1)
  let round := if t > 1 then bitAt w n a (t - 2) else false
  let sticky := if t < 3 then false else anyUpTo w n a (t - 3)
  let tie := guard && !round && !sticky
  (lsb && tie) || (guard && !tie)

/-- one iteration of the loop of `longdivision`: `if (subtractand <= accumulator) { accumulator -= subtractand;
    quo.setbit(i); } else quo.setbit(i, false); subtractand >>= 1;` on (accumulator, subtractand, quotient) at size N = n+1 -/
def ldStep (w n : Nat) (st : List Nat × List Nat × List Nat) (i : Nat) : List Nat × List Nat × List Nat :=
  let (acc, sb', q) := st
  let (acc, q) := if le w (n + 1) sb' acc then (sub w (n + 1) acc sb', setbit w q i true) else (acc, setbit w q i false)
  (acc, shr w (n + 1) sb' 1, q)

/-- `longdivision` (blockbinary.hpp:916-969): (quotient, remainder) -/
def longdivision (w n : Nat) (a b : List Nat) : List Nat × List Nat :=
  let k := nrBlocks w n
  if iszero b then (zeros k, zeros k)
  else
    let sa := sign w n a
    let sb := sign w n b
    let N := n + 1
    let A := assign w N n a
    let B := assign w N n b
    let A := if sa then twosC w N A else A
    let B := if sb then twosC w N B else B
    if lt w N A B then (zeros k, a)
    else
      let d := msbPos w A - msbPos w B
      let sub0 := shl w N B d
      let fin := ((List.range (d.toNat + 1)).reverse).foldl (ldStep w n) (A, sub0, zeros k)
      let acc := fin.1
      let q := fin.2.2
      let q := if sa != sb then add w n (flip w n q) (ofInt64 w n 1) else q
      let r := if sign w n a then assign w n N (twosC w N acc) else assign w n N acc
      (q, r)

/-- native division of the exact-fit single block (blockbinary.hpp:338-352, integer_impl.hpp:421-435 and the `%=` twins).
    A divisor of all ones (−1) is not handed to the hardware — most-negative / −1 overflows `int32_t` / `int64_t` and traps —
    but negated in the block type: quotient `bt(0 - block)`, remainder 0 (repaired in "fix: integer / blockbinary operator/=
    and %= native fast path must not trap on most negative / -1"); every other divisor: `int<w>_t(a) / int<w>_t(b)`, stored
    back into the block (8 and 16 bit operands are promoted to `int`, the result is truncated all the same). -/
def nativeDiv (w : Nat) (x y : Nat) (rem : Bool) : Nat :=
  if y == 2 ^ w - 1 then (if rem then 0 else (2 ^ w - x) % 2 ^ w)
  else
    let a := toSigned w x
    let b := toSigned w y
    ofSigned w (if rem then Int.tmod a b else Int.tdiv a b)

/-- `operator/=` / `operator%=` (blockbinary.hpp:332-389) -/
def divrem (w n : Nat) (a b : List Nat) (rem : Bool) : List Nat :=
  if n = w then
    if iszero b then ofInt64 w n 0
    else [nativeDiv w (blk a 0) (blk b 0) rem &&& msuMask w n]
  else
    let (q, r) := longdivision w n a b
    if rem then r else q

def uradd (w n : Nat) (a b : List Nat) : List Nat := add w (n + 1) (assign w (n + 1) n a) (assign w (n + 1) n b)
def ursub (w n : Nat) (a b : List Nat) : List Nat := sub w (n + 1) (assign w (n + 1) n a) (assign w (n + 1) n b)

/-- one iteration of the shift-and-add loop of `urmul2`: `if (a_new.at(i)) result += multiplicant; multiplicant <<= 1;` -/
def urmul2Step (w n : Nat) (an : List Nat) (st : List Nat × List Nat) (i : Nat) : List Nat × List Nat :=
  let res := if bitAt w (n + 1) an i then add w (2 * n) st.1 st.2 else st.1
  (res, shl w (2 * n) st.2 1)

/-- `urmul2` (blockbinary.hpp:1025-1057): result in `2n` bits -/
def urmul2 (w n : Nat) (a b : List Nat) : List Nat :=
  let M := 2 * n
  let zero := ofInt64 w M 0
  if iszero a || iszero b then zero
  else
    let rs := sign w n a != sign w n b
    let an := assign w (n + 1) n a
    let bn := assign w (n + 1) n b
    let an := if sign w n a then twosC w (n + 1) an else an
    let bn := if sign w n b then twosC w (n + 1) bn else bn
    let m0 := assign w M (n + 1) bn
    let res := ((List.range (n + 1)).foldl (urmul2Step w n an) (zero, m0)).1
    if rs then twosC w M res else res

end BB

end UVerif.Limbs
