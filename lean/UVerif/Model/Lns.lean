/-
  UVerif.Model.Lns — lns<nbits,rbits,bt,Behavior> as written in
  include/universal/number/lns/lns_impl.hpp (+ blockbinary uradd/ursub/assign/operator<), branch by branch.

  An encoding is a `Nat` below 2^nbits (the limbs `_block[i]` are `(b >>> (i·w)) % 2^w`, w = bits per block).
  `w` only matters for the hand-unrolled `iszero`/`isnan` (nrBlocks = 1 / 2 / >2, SPECIAL_BITS_TOGETHER or not);
  everything else in the class goes through blockbinary operations whose arithmetic content is stated directly.

  The `double` detour of `+=`/`-=`:  sum = double(a) + double(b) is IEEE addition (IeeeBits.add) of the two
  observed values of `to_ieee754` (std::pow — trusted libm, an INPUT of the model), and the conversion back
  (`convert_ieee754`) is modelled line by line with the observed value of `std::log2(|sum|)` and the three
  observed thresholds double(maxpos), double(minpos), double(halfMinpos) as inputs.
-/
import UVerif.Basic
import UVerif.Model.IeeeBits

namespace UVerif.Lns.Model
open UVerif UVerif.IeeeBits

structure Cfg where
  nbits : Nat
  rbits : Nat
  w     : Nat      -- bitsInBlock
  wrap  : Bool     -- Behavior::Wrapping
deriving Repr

/-! ### layout constants (lns_impl.hpp:82-98) -/

def nrBlocks (n w : Nat) : Nat := 1 + (n - 1) / w
def MSU (n w : Nat) : Nat := nrBlocks n w - 1
def MSB_UNIT (n w : Nat) : Nat := (1 + (n - 2) / w) - 1
def SIGN_BIT_MASK (n w : Nat) : Nat := 2 ^ ((n - 1) % w)
def MSB_BIT_MASK (n w : Nat) : Nat := 2 ^ ((n - 2) % w)
def BLOCK_MSB_MASK (w : Nat) : Nat := 2 ^ (w - 1)
def SPECIAL_BITS_TOGETHER (n w : Nat) : Bool := n > (nrBlocks n w - 1) * w + 1
def MSU_ZERO (n w : Nat) : Nat := MSB_BIT_MASK n w
def MSU_NAN (n w : Nat) : Nat := SIGN_BIT_MASK n w ||| MSU_ZERO n w

/-- `_block[i]` -/
def blk (w b i : Nat) : Nat := (b >>> (i * w)) % 2 ^ w

/-- `sign()` : (SIGN_BIT_MASK & _block[MSU]) != 0, SIGN_BIT_MASK = 1 << ((nbits-1) % bitsInBlock) -/
def sign (n w b : Nat) : Bool := (blk w b (MSU n w)).testBit ((n - 1) % w)

/-- all of `_block[0 .. k-1]` are zero -/
def lowBlocksZero (w b : Nat) : Nat → Bool
  | 0 => true
  | k + 1 => lowBlocksZero w b k && blk w b k == 0

/-- `iszero()` with its constexpr case split (lns_impl.hpp:390-416) -/
def isZero (n w b : Nat) : Bool :=
  let nb := nrBlocks n w
  if nb = 1 then blk w b (MSB_UNIT n w) == MSU_ZERO n w
  else if nb = 2 then
    if SPECIAL_BITS_TOGETHER n w then blk w b 0 == 0 && blk w b 1 == MSU_ZERO n w
    else !sign n w b && blk w b 0 == MSB_BIT_MASK n w
  else
    if SPECIAL_BITS_TOGETHER n w then lowBlocksZero w b (nb - 1) && blk w b (MSB_UNIT n w) == MSU_ZERO n w
    else lowBlocksZero w b (nb - 2) && !sign n w b && blk w b (MSB_UNIT n w) == BLOCK_MSB_MASK w

/-- `isnan()` (lns_impl.hpp:420-446) -/
def isNaN (n w b : Nat) : Bool :=
  let nb := nrBlocks n w
  if nb = 1 then blk w b (MSB_UNIT n w) == MSU_NAN n w
  else if nb = 2 then
    if SPECIAL_BITS_TOGETHER n w then blk w b 0 == 0 && blk w b 1 == MSU_NAN n w
    else sign n w b && blk w b (MSU n w - 1) == BLOCK_MSB_MASK w
  else
    if SPECIAL_BITS_TOGETHER n w then lowBlocksZero w b (nb - 1) && blk w b (MSB_UNIT n w) == MSU_NAN n w
    else lowBlocksZero w b (nb - 2) && sign n w b && blk w b (MSU n w - 1) == BLOCK_MSB_MASK w

/-- `setbit(i, v)` for i < nbits: `(block & ~(1 << i)) | (v << i)` -/
def setBit (b i : Nat) (v : Bool) : Nat :=
  if v then (if b.testBit i then b else b + 2 ^ i) else (if b.testBit i then b - 2 ^ i else b)

def setZero (n : Nat) : Nat := 2 ^ (n - 2)                      -- clear(); setbit(nbits-2)
def setNaN (n : Nat) : Nat := setBit (setBit 0 (n - 1) true) (n - 2) true
def setSign (n b : Nat) (s : Bool) : Nat := setBit b (n - 1) s
/-- lns `maxpos()` : all ones, sign and msb cleared -/
def maxposEnc (n : Nat) : Nat := setBit (setBit (2 ^ n - 1) (n - 1) false) (n - 2) false
/-- lns `maxneg()` : all ones, msb cleared -/
def maxnegEnc (n : Nat) : Nat := setBit (2 ^ n - 1) (n - 2) false
/-- lns `minpos()` : msb and lsb set -/
def minposEnc (n : Nat) : Nat := setBit (setBit 0 (n - 2) true) 0 true

/-! ### blockbinary pieces -/

/-- `blockbinary<to>(blockbinary<from>)` / `assign` with from < to: copy and sign-extend -/
def sext (frm to v : Nat) : Nat := if v.testBit (frm - 1) then v + (2 ^ to - 2 ^ frm) else v

/-- `blockbinary<m>::assign(blockbinary<k>)` for any k, m: copy blocks, sign-extend when widening, mask to m bits -/
def assign (frm to v : Nat) : Nat := if to > frm then sext frm to (v % 2 ^ frm) else v % 2 ^ to

/-- `uradd(a, b)` on N-bit operands: (N+1)-bit sign-extended sum -/
def uradd (N a b : Nat) : Nat := (sext N (N + 1) a + sext N (N + 1) b) % 2 ^ (N + 1)

/-- `ursub(a, b)`: result -= b  is  result += twosComplement(b)  in N+1 bits -/
def ursub (N a b : Nat) : Nat := (sext N (N + 1) a + twosComp (N + 1) (sext N (N + 1) b)) % 2 ^ (N + 1)

/-- blockbinary `operator<` (signed), blockbinary.hpp:854-862 -/
def bbLt (N x y : Nat) : Bool :=
  let sx := x.testBit (N - 1)
  let sy := y.testBit (N - 1)
  if !sx && sy then false
  else if sx && !sy then true
  else if x == y then false
  else if y == 2 ^ (N - 1) then false
  else ((x + twosComp N y) % 2 ^ N).testBit (N - 1)

def bbLe (N x y : Nat) : Bool := bbLt N x y || x == y
def bbGe (N x y : Nat) : Bool := !bbLt N x y
def bbGt (N x y : Nat) : Bool := !bbLe N x y

/-- ExponentBlockBinary constants: maxexp(SpecificValue::maxpos), minexp(SpecificValue::maxneg) on nbits-1 bits -/
def maxexp (n : Nat) : Nat := 2 ^ (n - 1) - 1 - 2 ^ (n - 2)     -- clear; flip; setbit(nbits-2, false)
def minexp (n : Nat) : Nat := 2 ^ (n - 2)                        -- clear; setbit(nbits-2)

/-! ### operator*= / operator/= (lns_impl.hpp:213-296) -/

/-- the Saturating tail shared by `*=` and `/=` : clamp `sum` (an nbits-bit signed pattern) -/
def satTail (n sum : Nat) (negative : Bool) : Nat :=
  let maxpos := assign (n - 1) n (maxexp n)
  let maxneg := assign (n - 1) n (minexp n)
  if bbGe n sum maxpos then setSign n maxpos negative
  else if bbLe n sum maxneg then setSign n maxneg false
  else setSign n sum negative

def mul (c : Cfg) (a b : Nat) : Nat :=
  let n := c.nbits
  if isNaN n c.w a then a
  else if isNaN n c.w b then setNaN n
  else if isZero n c.w a then a
  else if isZero n c.w b then setZero n
  else
    let lexp := assign n (n - 1) a
    let rexp := assign n (n - 1) b
    let negative := sign n c.w a != sign n c.w b
    if !c.wrap then
      let sum := assign (n + 1) n (uradd n (assign (n - 1) n lexp) (assign (n - 1) n rexp))
      satTail n sum negative
    else
      let l := (lexp + rexp) % 2 ^ (n - 1)                 -- lexp += rexp
      setSign n (assign (n - 1) n l) negative

def div (c : Cfg) (a b : Nat) : Nat :=
  let n := c.nbits
  -- quiet build; the zero-divisor test comes first since the fix "lns operator/= must test for a zero divisor before the
  -- NaN operands" (the throwing build throws there: Model/Except.lean `Lns.prologue`)
  if isZero n c.w b then setNaN n
  else if isNaN n c.w a then a
  else if isNaN n c.w b then setNaN n
  else if isZero n c.w a then a
  else
    let lexp := assign n (n - 1) a
    let rexp := assign n (n - 1) b
    let negative := sign n c.w a != sign n c.w b
    if !c.wrap then
      let sum := assign (n + 1) n (ursub n (assign (n - 1) n lexp) (assign (n - 1) n rexp))
      satTail n sum negative
    else
      let l := (lexp + twosComp (n - 1) rexp) % 2 ^ (n - 1) -- `lexp -= rexp` = lexp += twosComplement(rexp) (repair 848b03b)
      setSign n (assign (n - 1) n l) negative

/-- unary minus -/
def neg (c : Cfg) (a : Nat) : Nat :=
  if isNaN c.nbits c.w a || isZero c.nbits c.w a then a
  else setBit a (c.nbits - 1) (!sign c.nbits c.w a)

/-! ### comparisons (lns_impl.hpp:784-809) -/

def eq (c : Cfg) (a b : Nat) : Bool :=
  if isNaN c.nbits c.w a || isNaN c.nbits c.w b then false else a == b

def lt (c : Cfg) (a b : Nat) : Bool :=
  let n := c.nbits
  if isNaN n c.w a || isNaN n c.w b then false
  else
    let l := assign n (n - 1) a
    let r := assign n (n - 1) b
    let ln := sign n c.w a
    if ln != sign n c.w b then ln else if ln then bbGt (n - 1) l r else bbLt (n - 1) l r

def cmpMask (c : Cfg) (a b : Nat) : Nat :=
  let nan := isNaN c.nbits c.w a || isNaN c.nbits c.w b
  let e := eq c a b
  let l := lt c a b
  let g := lt c b a
  (if e then 1 else 0) + (if !e then 2 else 0) + (if l then 4 else 0)
   + (if !nan && !g then 8 else 0) + (if g then 16 else 0) + (if !nan && !l then 32 else 0)

/-! ### to_ieee754<double> for the special encodings (the general case is std::pow: an observed input) -/

def f64NaNConst : Nat := 0x7ff8000000000000     -- TargetFloat(NAN)

/-- `some bits` when the result of `double(a)` does not depend on libm -/
def toDoubleSpecial (c : Cfg) (a : Nat) : Option Nat :=
  if isNaN c.nbits c.w a then some f64NaNConst
  else if isZero c.nbits c.w a then some 0
  else none

/-! ### convert_ieee754<double> (lns_impl.hpp:554-702) -/

structure Thresholds where
  mx : Nat      -- double(lns(maxpos))
  mn : Nat      -- double(lns(minpos))
  hm : Nat      -- double(lns<nbits+1,rbits+1>(minpos))

def u64 : Nat := 2 ^ 64

/-- guard / round / sticky rounding of `x >> sr` (sr ≥ 1) exactly as written in convert_ieee754:
    `if (guard) { if (lsb && (!round && !sticky)) ++raw; if (round || sticky) ++raw; }` -/
def roundGRS (x sr : Nat) : Nat :=
  let guard := x.testBit (sr - 1)
  let round := decide (sr ≥ 2) && x.testBit (sr - 2)
  let sticky := decide (sr > 1) && x % 2 ^ (sr - 2) != 0
  let q := x >>> sr
  let lsb := q.testBit 0
  if guard then
    let q1 := if lsb && (!round && !sticky) then q + 1 else q
    if round || sticky then q1 + 1 else q1
  else q

/-- `v` and `logv` are bit patterns of doubles; `logv` is the observed std::log2(|v|). -/
def convertF64 (c : Cfg) (t : Thresholds) (v logv : Nat) : Nat :=
  let n := c.nbits
  let s := signOf f64 v
  let ue := expOf f64 v
  let rf := fracOf f64 v
  let fmask := 2 ^ 52 - 1
  let qnanmask := 0x7FF8000000000000
  let snanmask := 0x7FF4000000000000
  -- special exponent
  if ue == 0x7FF && (rf == (fmask &&& snanmask) || rf == (fmask &&& (qnanmask ||| snanmask))) then setNaN n
  else if ue == 0x7FF && rf == (fmask &&& qnanmask) then setNaN n
  else if ue == 0x7FF && rf == 0 then (if s then maxnegEnc n else maxposEnc n)     -- setinf(s)
  else if ue == 0x7FF then setNaN n          -- every other fraction: a NaN with a payload (fix "lns convert_ieee754 must map every NaN payload …")
  else if IeeeBits.isZero f64 v then setZero n                                               -- v == 0.0
  else
    let satEarly : Option Nat :=
      if c.wrap then none
      else
        let absv := absB f64 v
        if IeeeBits.lt f64 0 v && IeeeBits.le f64 t.mx v then some (maxposEnc n)                      -- v > 0 && v >= Real(maxpos)
        else if IeeeBits.lt f64 v 0 && IeeeBits.le f64 v (negate f64 t.mx) then some (maxnegEnc n)    -- v < 0 && v <= Real(maxneg)
        else if IeeeBits.le f64 absv t.hm then some (setZero n)
        else if IeeeBits.le f64 absv t.mn then
          some (if IeeeBits.lt f64 0 v then minposEnc n else neg c (minposEnc n))
        else none
    match satEarly with
    | some r => r
    | none =>
      let negative := IeeeBits.lt f64 v 0
      if IeeeBits.isZero f64 logv then setBit 0 (n - 1) negative                             -- logv == 0.0
      else
        let ls := signOf f64 logv
        let lue := expOf f64 logv
        let lrf0 := fracOf f64 logv
        let lrf := if lue > 0 then lrf0 ||| 2 ^ 52 else lrf0
        let radixPoint : Int := 52 - ((lue : Int) - 1023)
        let shiftRight : Int := radixPoint - (c.rbits : Int)
        let twos (x : Nat) : Nat := if ls then (u64 - x % u64) % u64 else x
        let lnsExponent : Nat :=
          if shiftRight > 0 then
            if shiftRight > 63 then 0          -- rawFraction = 0; setbits(0)
            else
              let q := roundGRS lrf shiftRight.toNat
              (twos q) % 2 ^ (n - 1)           -- setbits(rawFraction)
          else
            let sl := (-shiftRight).toNat
            if sl < 64 - 52 then
              (twos ((lrf <<< sl) % u64)) % 2 ^ (n - 1)
            else
              -- project the bits one by one, then two's complement inside nbits-1 bits
              let x := (lrf <<< sl) % 2 ^ (n - 1)
              if ls then twosComp (n - 1) x else x
        setSign n (assign (n - 1) n lnsExponent) negative

/-- `a + b` / `a - b` given the observed doubles of the operands and the observed log2 of the sum.
    Returns (the double sum computed by the model, the resulting encoding). -/
def addSub (c : Cfg) (t : Thresholds) (isSub : Bool) (da db lg : Nat) : Nat × Nat :=
  let s := if isSub then IeeeBits.sub f64 da db else IeeeBits.add f64 da db
  (s, convertF64 c t s lg)

end UVerif.Lns.Model
