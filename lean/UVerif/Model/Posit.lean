/-
  UVerif.Model.Posit — executable model of the generic posit<nbits,es> implementation
  (include/universal/number/posit/posit_impl.hpp, internal/value/value.hpp, internal/bitblock).
  Transcribed branch by branch; bit loops are written as the shifts/masks they compute.
-/
import UVerif.Basic
import UVerif.Spec.Posit

namespace UVerif.Posit

/-- `internal::value<fb>`: (sign, scale, fraction without hidden bit) + zero / inf(nan) flags. -/
structure Val where
  sign  : Bool := false
  scale : Int := 0
  frac  : Nat := 0
  fb    : Nat := 0
  zero  : Bool := false
  inf   : Bool := false
deriving Repr, DecidableEq

def Val.toRat (v : Val) : Rat :=
  if v.zero then 0 else
  let m : Rat := (1 + (v.frac : Rat) / ((2 ^ v.fb : Nat) : Rat)) * pow2 v.scale
  if v.sign then -m else m

/-- posit::fbits -/
def fbitsOf (n es : Nat) : Nat := if es + 2 ≥ n then 0 else n - 3 - es

/-- `decode_regime` (posit_impl.hpp:111): run length of the regime, as k. -/
def decodeRegime (n raw : Nat) : Int :=
  let top := raw.testBit (n - 2)
  let start := if n = 2 then n - 2 else n - 3
  let m : Nat := 1 + runLen raw top (start + 1)
  if top then (m : Int) - 1 else -(m : Int)

/-- `positRegime::assign_regime_pattern(k)`: returns (constrained k, nrRegimeBits). -/
def assignRegimePattern (n : Nat) (k : Int) : Int × Nat :=
  let lim : Int := (n : Int) - 2
  if k < 0 then
    let k' : Int := if -k < lim then k else -lim
    let kk : Int := -k' - 1
    if kk < lim then (k', (kk + 2).toNat) else (k', n - 1)
  else
    let k' : Int := if k < lim then k else lim
    if k < lim then (k', (k + 2).toNat) else (k', n - 1)

/-- `extract_fields` + `normalize`: non-special encoding ↦ value<fbits>. -/
def extractFields (n es raw : Nat) : Val :=
  let fb := fbitsOf n es
  let sign := raw.testBit (n - 1)
  let tmp := if sign then twosComp n raw else raw
  let (k, nrReg) := assignRegimePattern n (decodeRegime n tmp)
  let msb : Int := (n : Int) - 1 - (1 + (nrReg : Int))
  let nexp : Nat :=
    if es > 0 ∧ msb ≥ 0 then (if msb ≥ (es : Int) - 1 then es else (msb + 1).toNat) else 0
  let e : Nat :=
    if nexp = 0 then 0
    else ((tmp >>> ((msb + 1).toNat - nexp)) % 2 ^ nexp) <<< (es - nexp)
  let msb2 : Int := msb - nexp
  let nfr : Nat := if msb2 < 0 then 0 else (msb2 + 1).toNat
  let frac : Nat := (tmp % 2 ^ nfr) <<< (fb - nfr)
  { sign := sign, scale := k * (2 ^ es : Nat) + e, frac := frac, fb := fb }

/-- `posit::normalize` / `to_value`. -/
def decode (n es raw : Nat) : Val :=
  let raw := raw % 2 ^ n
  if raw = 0 then { fb := fbitsOf n es, zero := true }
  else if raw = 2 ^ (n - 1) then { fb := fbitsOf n es, sign := true, inf := true }
  else extractFields n es raw

/-- `check_inward_projection_range`. -/
def inwardProjection (n es : Nat) (scale : Int) : Bool :=
  let lim : Int := ((n : Int) - 2) * (2 ^ es : Nat)
  if scale < 0 then scale < -lim else scale > lim

/-- `calculate_unconstrained_k` (C++ `>>` on the non-negative magnitude). -/
def unconstrainedK (es : Nat) (scale : Int) : Int :=
  let k : Int := if scale < 0 then -(((-scale).toNat >>> es : Nat) : Int) else ((scale.toNat >>> es : Nat) : Int)
  if k = 0 ∧ scale < 0 then -1 else k

/-- `convert_<nbits,es,fbits>(sign, scale, fraction)` (posit_impl.hpp:320-391). -/
def convert_ (n es : Nat) (sign : Bool) (scale : Int) (fb frac : Nat) : Nat :=
  if inwardProjection n es scale then
    let k := unconstrainedK es scale
    let mag := if k < 0 then 1 else maxposEnc n
    if sign then twosComp n mag else mag
  else
    let ptLen := n + 3 + es
    let r := decide (scale ≥ 0)
    let sh : Int := scale.fdiv (2 ^ es : Nat)         -- arithmetic `e >> es`
    let run : Nat := if r then (1 + sh).toNat else (-sh).toNat
    -- regime: bit 0 = !r, bits 1..run = r
    let regime : Nat := if r then 2 ^ (run + 1) - 2 else 1
    let esval : Nat := (scale.fmod (2 ^ es : Nat)).toNat
    let nf : Nat := ((n : Int) + 1 - (2 + (run : Int) + (es : Int))).toNat
    let fracNf : Nat := if nf ≤ fb then frac >>> (fb - nf) else frac <<< (nf - fb)
    let sb : Bool := if nf ≤ fb then frac % 2 ^ (fb - nf) ≠ 0 else false
    let pt : Nat := ((regime <<< (es + nf + 1)) ||| (esval <<< (nf + 1)) ||| (fracNf <<< 1)
                      ||| (if sb then 1 else 0)) % 2 ^ ptLen
    let len : Nat := 1 + max (n + 1) (2 + run + es)
    let blast := pt.testBit (len - n)
    let bafter := pt.testBit (len - n - 1)
    let bsticky := pt % 2 ^ (len - n - 1) ≠ 0
    let rb := (blast && bafter) || (bafter && bsticky)
    -- pt_bits <<= pt_len - len; truncate → top n bits of the len-bit string
    let ptt : Nat := ((pt <<< (ptLen - len)) % 2 ^ ptLen) >>> (ptLen - n)
    let ptt := if rb then (ptt + 1) % 2 ^ n else ptt
    if sign then twosComp n ptt else ptt

/-- `convert(value, posit)`. -/
def convert (n es : Nat) (v : Val) : Nat :=
  if v.zero then 0
  else if v.inf then 2 ^ (n - 1)
  else convert_ n es v.sign v.scale v.fb v.frac

/-- `value::nshift<Size>(shift)` with fraction `fb` bits: hidden bit made explicit, shifted,
    shifted-out bits or-ed into bit 0 (the "uncertainty" bit). -/
def nshift (fb frac : Nat) (shift : Int) : Nat :=
  let x := 2 ^ fb + frac
  if shift ≥ 0 then x <<< shift.toNat else stickyShr x (-shift).toNat

/-- |lhs| < |rhs| on values (value.hpp operator< on abs): scale first, then fraction. -/
def absLt (a b : Val) : Bool :=
  if a.scale < b.scale then true else if a.scale > b.scale then false else a.frac < b.frac

/-- common tail of `module_add` / `module_subtract` after the operand signs are fixed. -/
def addCore (fb : Nat) (a b : Val) (r1s0 r2s0 : Bool) (swapCond : Bool) : Val :=
  let abits := fb + 4
  let sc := max a.scale b.scale
  let r1 := nshift fb a.frac (a.scale - sc + 3)
  let r2 := nshift fb b.frac (b.scale - sc + 3)
  let differ := r1s0 != r2s0
  let (r1, r2, r1s, r2s) := if swapCond then (r2, r1, r2s0, r1s0) else (r1, r2, r1s0, r2s0)
  let r2 := if differ then twosComp abits r2 else r2
  let full := r1 + r2                       -- abits+1 bits incl. carry
  let carry := full.testBit abits
  let sumv := full % 2 ^ (abits + 1)
  let shift : Int :=
    if carry then
      if r1s = r2s then -1
      else ((abits - (if sumv % 2 ^ abits = 0 then 0 else (sumv % 2 ^ abits).log2 + 1) : Nat) : Int)
    else 0
  if shift ≥ (abits : Int) then { fb := abits + 1, zero := true }
  else
    let hpos : Int := (abits : Int) - 1 - shift
    let sh : Nat := (1 + (abits : Int) - hpos).toNat
    let fr := (sumv <<< sh) % 2 ^ (abits + 1)
    { sign := r1s, scale := sc - shift, frac := fr, fb := abits + 1 }

/-- `module_add<fbits,abits>` -/
def moduleAdd (fb : Nat) (a b : Val) : Val :=
  if a.inf || b.inf then { fb := fb + 5, inf := true }
  else
    let differ := a.sign != b.sign
    addCore fb a b a.sign b.sign (differ && absLt a b)

/-- `module_subtract<fbits,abits>` -/
def moduleSub (fb : Nat) (a b : Val) : Val :=
  if a.inf || b.inf then { fb := fb + 5, inf := true }
  else addCore fb a b a.sign (!b.sign) (absLt a b)

/-- `module_multiply` (mbits = 2·fhbits). -/
def moduleMul (fb : Nat) (a b : Val) : Val :=
  let mbits := 2 * (fb + 1)
  if a.inf || b.inf then { fb := mbits, inf := true }
  else if a.zero || b.zero then { fb := mbits, zero := true }
  else
    let sgn := a.sign != b.sign
    let sc := a.scale + b.scale
    if fb > 0 then
      let p := (2 ^ fb + a.frac) * (2 ^ fb + b.frac)
      let top := p.testBit (mbits - 1)
      let sh := if top then 1 else 2
      { sign := sgn, scale := if top then sc + 1 else sc, frac := (p <<< sh) % 2 ^ mbits, fb := mbits }
    else
      { sign := sgn, scale := sc, frac := 0, fb := mbits }

/-- `module_divide` (divbits = 3·fhbits+4). -/
def moduleDiv (fb : Nat) (a b : Val) : Val :=
  let fh := fb + 1
  let dv := 3 * fh + 4
  if a.inf || b.inf then { fb := dv, inf := true }
  else if a.zero || b.zero then { fb := dv, zero := true }
  else
    let sgn := a.sign != b.sign
    let sc := a.scale - b.scale
    if fb > 0 then
      let q := ((2 ^ fb + a.frac) * 2 ^ (dv - fh)) / (2 ^ fb + b.frac)   -- divide_with_fraction
      let msb := q.log2
      let shift := fh + ((dv - fh) - msb)
      { sign := sgn, scale := sc - ((shift : Int) - fh), frac := (q <<< shift) % 2 ^ dv, fb := dv }
    else
      { sign := sgn, scale := sc, frac := 0, fb := dv }

def isZeroEnc (n b : Nat) : Bool := b % 2 ^ n == 0

def negEnc (n b : Nat) : Nat := twosComp n b

/-- posit::operator+= -/
def add (n es a b : Nat) : Nat :=
  let a := a % 2 ^ n; let b := b % 2 ^ n
  if isNaR n a || isNaR n b then 2 ^ (n - 1)
  else if a = 0 then b
  else if b = 0 then a
  else convert n es (moduleAdd (fbitsOf n es) (decode n es a) (decode n es b))

/-- posit::operator-= -/
def sub (n es a b : Nat) : Nat :=
  let a := a % 2 ^ n; let b := b % 2 ^ n
  if isNaR n a || isNaR n b then 2 ^ (n - 1)
  else if a = 0 then negEnc n b
  else if b = 0 then a
  else convert n es (moduleSub (fbitsOf n es) (decode n es a) (decode n es b))

/-- posit::operator*= -/
def mul (n es a b : Nat) : Nat :=
  let a := a % 2 ^ n; let b := b % 2 ^ n
  if isNaR n a || isNaR n b then 2 ^ (n - 1)
  else if a = 0 || b = 0 then 0
  else convert n es (moduleMul (fbitsOf n es) (decode n es a) (decode n es b))

/-- posit::operator/= (quiet build) -/
def div (n es a b : Nat) : Nat :=
  let a := a % 2 ^ n; let b := b % 2 ^ n
  if b = 0 then 2 ^ (n - 1)
  else if isNaR n b then 2 ^ (n - 1)
  else if a = 0 || isNaR n a then a
  else convert n es (moduleDiv (fbitsOf n es) (decode n es a) (decode n es b))

/-- posit::reciprocal -/
def reciprocal (n es a : Nat) : Nat :=
  let a := a % 2 ^ n
  if isNaR n a then 2 ^ (n - 1)
  else if a = 0 then 2 ^ (n - 1)
  else
    let v := decode n es a
    let oldSign := a.testBit (n - 1)
    if v.frac = 0 then
      -- power of two: two's complement, then force the sign bit
      let t := twosComp n a
      if oldSign then t ||| 2 ^ (n - 1) else t % 2 ^ (n - 1)
    else
      let fb := fbitsOf n es
      let osz := fb + 1
      let rsz := 3 * fb + 4
      let q := (2 ^ (osz - 1) * 2 ^ (rsz - osz)) / (2 ^ fb + v.frac)
      let rc := (q <<< (osz - 1)) % 2 ^ rsz
      let msb := rc.log2
      let newScale : Int := -v.scale
      if rc ≠ 0 ∧ msb > 0 then
        let shift := rsz - msb
        convert_ n es oldSign (newScale - ((shift : Int) - 1)) rsz ((rc <<< shift) % 2 ^ rsz)
      else
        convert_ n es oldSign newScale rsz rc

/-- unary minus -/
def neg (n a : Nat) : Nat := twosComp n a

/-- posit::abs -/
def abs (n a : Nat) : Nat :=
  let a := a % 2 ^ n
  if a.testBit (n - 1) then twosComp n a else a

/-- operator< : signed comparison of the encodings (NaR = most negative). -/
def lt (n a b : Nat) : Bool := toSigned n a < toSigned n b
def eq (n a b : Nat) : Bool := a % 2 ^ n == b % 2 ^ n

/-- ++ / -- : increment / decrement of the raw bit pattern. -/
def incr (n a : Nat) : Nat := (a + 1) % 2 ^ n
def decr (n a : Nat) : Nat := (a + 2 ^ n - 1) % 2 ^ n

end UVerif.Posit
