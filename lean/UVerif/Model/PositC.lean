/-
  UVerif.Model.PositC — the parts of the pure-C posit8 API (include/universal/number/posit/specialized/posit_8_0.h,
  c_api/pure_c/posit/posit8.c) that are not the generic algorithm. The C shim (c_api/shim/posit/posit_c_api.cpp) only
  marshals bytes to a generic posit and back: it is modelled as the identity on encodings.
-/
import UVerif.Basic
import UVerif.Model.Posit
import UVerif.Model.PositConvFP
import UVerif.Model.FastPosit

namespace UVerif.PositC
open UVerif UVerif.Posit UVerif.FP UVerif.Fast

/-- posit8_equal / notEqual / lessThan / lessOrEqual / greaterThan / greaterOrEqual compare the `uint8_t` fields -/
def relMask8 (a b : Nat) : Nat :=
  let a := a % 256; let b := b % 256
  (if a = b then 1 else 0) + (if a ≠ b then 2 else 0) + (if a < b then 4 else 0) + (if a ≤ b then 8 else 0)
   + (if a > b then 16 else 0) + (if a ≥ b then 32 else 0)

/-- posit8_cmpp8: `return a.v - b.v;` (uint8_t operands promoted to int) -/
def cmpp8 (a b : Nat) : Int := ((a % 256 : Nat) : Int) - ((b % 256 : Nat) : Int)

/-- posit8_fromsi(int rhs) -/
def fromsi (rhs : Int) : Nat :=
  if rhs = 0 then 0 else
  let sign := decide (rhs < 0)
  let v : Int := toSigned 32 (ofSigned 32 (if sign then -rhs else rhs))
  let raw : Nat :=
    if v > 48 then 0x7F
    else if v < 2 then u8 (ofSigned 32 (v * 64))
    else intAssignCore8 v.toNat
  if sign then negW 8 raw else raw

/-- posit8_sqrt: posit8_fromf(sqrtf(posit8_tof(a))) -/
def sqrt8 (a : Nat) : Nat :=
  match positVal 8 0 a with
  | none => 0x80
  | some x => if x < 0 then 0x80 else if x = 0 then 0 else fromFloat 8 0 (sqrtBits 8 23 x)

/-! ### the C shim: marshal / unmarshal (c_api/shim/posit/posit_c_api.cpp:29-107)
  `marshal` copies `w` bits per byte (w = 8; w = 4 for posit4_t, one byte) of the C union into a bitblock, least significant
  byte first; `unmarshal` is the inverse loop. On encodings the pair is the identity (theorems in Props/C11). -/

/-- bitblock value built by `marshal` from the byte array `x[0..]` -/
def marshal (w : Nat) : List Nat → Nat
  | [] => 0
  | b :: bs => b % 2 ^ w + 2 ^ w * marshal w bs

/-- byte array written by `unmarshal` (k bytes) from the bitblock value v -/
def unmarshal (w : Nat) : Nat → Nat → List Nat
  | 0, _ => []
  | k + 1, v => v % 2 ^ w :: unmarshal w k (v / 2 ^ w)

end UVerif.PositC
