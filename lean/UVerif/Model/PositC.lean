/-
  UVerif.Model.PositC — the parts of the pure-C posit8 API (include/universal/number/posit/specialized/posit_8_0.h,
  c_api/pure_c/posit/posit8.c) that are not the generic algorithm. The C shim (c_api/shim/posit/posit_c_api.cpp) only
  marshals bytes to a generic posit and back: it is modelled as the identity on encodings.
-/
import UVerif.Basic
import UVerif.Model.Posit
import UVerif.Model.PositConvFP
import UVerif.Model.FastPosit

namespace UVerif.PositC
open UVerif UVerif.Posit UVerif.FP UVerif.Fast

/-- posit8_equal / notEqual compare the `uint8_t` fields; lessThan / lessOrEqual / greaterThan / greaterOrEqual compare them
    after the cast `(int8_t)` -/
def relMask8 (a b : Nat) : Nat :=
  let a := a % 256; let b := b % 256
  let sa := toSigned 8 a; let sb := toSigned 8 b
  (if a = b then 1 else 0) + (if a ≠ b then 2 else 0) + (if sa < sb then 4 else 0) + (if sa ≤ sb then 8 else 0)
   + (if sa > sb then 16 else 0) + (if sa ≥ sb then 32 else 0)

/-- posit8_cmpp8: `return ((int8_t)a.v > (int8_t)b.v) - ((int8_t)a.v < (int8_t)b.v);` -/
def cmpp8 (a b : Nat) : Int :=
  let sa := toSigned 8 (a % 256); let sb := toSigned 8 (b % 256)
  (if sa > sb then 1 else 0) - (if sa < sb then 1 else 0)

/-- posit8_fromsi(int rhs) -/
def fromsi (rhs : Int) : Nat :=
  if rhs = 0 then 0 else
  let sign := decide (rhs < 0)
  let v : Int := toSigned 32 (ofSigned 32 (if sign then -rhs else rhs))
  let raw : Nat :=
    if v > 48 then 0x7F
    else if v < 2 then u8 (ofSigned 32 (v * 64))
    else intAssignCore8 v.toNat
  if sign then negW 8 raw else raw

/-- posit8_sqrt: posit8_fromf(sqrtf(posit8_tof(a))) -/
def sqrt8 (a : Nat) : Nat :=
  match positVal 8 0 a with
  | none => 0x80
  | some x => if x < 0 then 0x80 else if x = 0 then 0 else fromFloat 8 0 (sqrtBits 8 23 x)

/-! ### posit8 word-level arithmetic (posit_8_0.h), also the body of fast posit<8,0>::operator*=

  `posit<8,0>::operator*=` (posit_8_0.hpp) calls `posit8_mulp8`; transcribed statement by statement. -/

/-- posit8_decode_regime(bits, &remaining) for a non-zero magnitude: (m, remaining) -/
def decodeRegime8 (bits : Nat) : Int × Nat :=
  let rem0 := u8 (bits <<< 2)
  if bits &&& 0x40 ≠ 0 then
    let ones := runLen rem0 true 8          -- while (remaining >> 7) { ++m; remaining <<= 1 }
    ((ones : Int), u8 (rem0 <<< ones))
  else
    let zeros := runLen rem0 false 8        -- m = -1; while (!(remaining >> 7)) { --m; remaining <<= 1 }
    (-1 - (zeros : Int), u8 (rem0 <<< zeros) &&& 0x7F)

/-- posit8_round(m, fraction) -/
def round8 (m : Int) (fraction : Nat) : Nat :=
  let scale : Nat := if m < 0 then (-m).toNat % 256 else (m + 1).toNat
  let regime : Nat := if m < 0 then 0x40 >>> scale else u8 (0x7F - (0x7F >>> scale))
  if scale > 6 then (if m < 0 then 1 else 0x7F)
  else
    let fr := (fraction &&& 0x3FFF) >>> scale
    let finalF := u8 (fr >>> 8)
    let bitN := fr &&& 0x80 ≠ 0
    let bits := u8 (regime + finalF)
    if bitN then
      let more := if fr &&& 0x7F ≠ 0 then 1 else 0
      u8 (bits + ((bits &&& 1) ||| more))
    else bits

/-- posit8_mulp8 -/
def mulp8 (a b : Nat) : Nat :=
  let a := u8 a; let b := u8 b
  if a = 0x80 ∨ b = 0x80 then 0x80
  else if a = 0 ∨ b = 0 then 0
  else
    let sign := (a &&& 0x80 ≠ 0) != (b &&& 0x80 ≠ 0)
    let lhs := if a &&& 0x80 ≠ 0 then negW 8 a else a
    let rhs := if b &&& 0x80 ≠ 0 then negW 8 b else b
    let (mA, remA) := decodeRegime8 lhs
    let (mB, remB) := decodeRegime8 rhs
    let prod := (0x80 ||| remA) * (0x80 ||| remB)          -- uint16: at most 0xFF·0xFF
    let scale := mA + mB
    let (scale', prod') := if prod &&& 0x8000 ≠ 0 then (scale + 1, prod >>> 1) else (scale, prod)
    let raw := round8 scale' prod'
    if sign then negW 8 raw else raw

/-! ### the C shim: marshal / unmarshal (c_api/shim/posit/posit_c_api.cpp:29-107)
  `marshal` copies `w` bits per byte (w = 8; w = 4 for posit4_t, one byte) of the C union into a bitblock, least significant
  byte first; `unmarshal` is the inverse loop. On encodings the pair is the identity (theorems in Props/C11). -/

/-- bitblock value built by `marshal` from the byte array `x[0..]` -/
def marshal (w : Nat) : List Nat → Nat
  | [] => 0
  | b :: bs => b % 2 ^ w + 2 ^ w * marshal w bs

/-- byte array written by `unmarshal` (k bytes) from the bitblock value v -/
def unmarshal (w : Nat) : Nat → Nat → List Nat
  | 0, _ => []
  | k + 1, v => v % 2 ^ w :: unmarshal w k (v / 2 ^ w)

end UVerif.PositC
