/-
  UVerif.Model.PositConv — conversions between posits and native numbers
  (posit::operator=(native), value<fbits>::operator=(…), convert_ieee754, to_double/to_float/to_long_double,
  to_integer<Int> behind to_short … to_ulong_long).
-/
import UVerif.Model.Posit

namespace UVerif.Posit

/-- what `std::fpclassify` + `frexp`-based extraction produce for a binary float with `mb` mantissa bits and
    `eb` exponent bits (no explicit integer bit): the value<mb> triple. -/
inductive Src
  | zero | inf | nan
  | fin (sign : Bool) (scale : Int) (frac : Nat)      -- frac on mb bits, hidden bit implicit
deriving Repr, DecidableEq

def classifyIeee (eb mb bits : Nat) : Src :=
  let sign := bits.testBit (eb + mb)
  let E := (bits >>> mb) % 2 ^ eb
  let M := bits % 2 ^ mb
  let bias := 2 ^ (eb - 1) - 1
  if E = 2 ^ eb - 1 then (if M = 0 then .inf else .nan)
  else if E = 0 then
    if M = 0 then .zero
    else
      -- subnormal: frexp normalises it
      let msb := M.log2
      .fin sign ((msb : Int) - (bias : Int) + 1 - (mb : Int)) ((M - 2 ^ msb) <<< (mb - msb))
  else .fin sign ((E : Int) - bias) M

/-- x87 80-bit extended: `se` = sign + 15-bit exponent, `mant` = 64 bits with explicit integer bit → value<63> -/
def classifyX87 (se mant : Nat) : Src :=
  let sign := se.testBit 15
  let E : Nat := se % 2 ^ 15
  if E = 2 ^ 15 - 1 then (if mant % 2 ^ 63 = 0 then .inf else .nan)
  else if mant = 0 then .zero
  else
    let msb := mant.log2      -- 63 for normal numbers
    let E' : Int := if E = 0 then 1 else (E : Int)
    .fin sign (E' - 16383 - (63 - (msb : Int))) ((mant - 2 ^ msb) <<< (63 - msb))

/-- `convert_ieee754`: value<mb>(rhs) then convert -/
def fromSrc (n es mb : Nat) : Src → Nat
  | .zero => 0
  | .inf => 2 ^ (n - 1)
  | .nan => 2 ^ (n - 1)
  | .fin s sc fr => convert_ n es s sc mb fr

/-- `value<fb>::operator=(long long)`: sign, scale = msb, fraction = top fb bits of (|x| << (64 - scale)) -/
def valueOfInt (fb : Nat) (x : Int) : Val :=
  if x = 0 then { fb := fb, zero := true }
  else
    let mag := x.natAbs
    let sc := mag.log2
    let f64 := if sc = 0 then 0 else (mag <<< (64 - sc)) % 2 ^ 64
    let fr := if fb ≤ 64 then f64 >>> (64 - fb) else f64 <<< (fb - 64)
    { sign := decide (x < 0), scale := sc, frac := fr, fb := fb }

/-- integer kinds of the harness: (fb of the value<> the posit constructor uses, C++ conversion of the 64-bit word) -/
def intKind (kind : String) (w : Nat) : Option (Nat × Int × Int) :=
  -- returns (fb, value as seen by value::operator= after the C++ casts, true mathematical value of the source)
  let w := w % 2 ^ 64
  match kind with
  | "i8"  => let v := toSigned 8 w;  some (7, v, v)
  | "i16" => let v := toSigned 16 w; some (15, v, v)
  | "i32" => let v := toSigned 32 w; some (31, v, v)
  | "l64" => let v := toSigned 64 w; some (64, v, v)
  | "i64" => let v := toSigned 64 w; some (63, v, v)
  | "u16" => let v : Int := (w % 2 ^ 16 : Nat); some (16, v, v)
  | "u32" => let v : Int := (w % 2 ^ 32 : Nat); some (32, v, v)
  | "ul64" => some (64, (w : Int), (w : Int))           -- value::operator=(unsigned long) → unsigned long long (after fix 55c92e8)
  | "u64" => some (64, (w : Int), (w : Int))
  | _ => none

def fromIntKind (n es : Nat) (kind : String) (w : Nat) : Option Nat :=
  (intKind kind w).map (fun (fb, v, _) => convert n es (valueOfInt fb v))

/-- `to_double()` under the guard that every factor and the product are exact
    (fbits ≤ mb, normal exponent range): the encoding's value written as an IEEE pattern. -/
def toIeee (n es eb mb a : Nat) : Nat :=
  let a := a % 2 ^ n
  if a = 0 then 0
  else if a = 2 ^ (n - 1) then (2 ^ eb - 1) <<< mb ||| 2 ^ (mb - 1)       -- quiet NaN
  else
    let v := decode n es a
    let bias : Int := 2 ^ (eb - 1) - 1
    (if v.sign then 1 else 0) * 2 ^ (eb + mb) + (v.scale + bias).toNat * 2 ^ mb + v.frac * 2 ^ (mb - v.fb)

/-- `to_long_double()` as (se, mant) -/
def toX87 (n es a : Nat) : Nat × Nat :=
  let a := a % 2 ^ n
  if a = 0 then (0, 0)
  else if a = 2 ^ (n - 1) then (0x7fff, 0xc000000000000000)
  else
    let v := decode n es a
    (((if v.sign then 1 else 0) <<< 15) ||| (v.scale + 16383).toNat, 2 ^ 63 ||| (v.frac <<< (63 - v.fb)))

/-- `numeric_limits<Int>::digits` and signedness of the integer kinds of the harness -/
def intDigits (kind : String) : Option (Nat × Bool) :=
  match kind with
  | "i16" => some (15, true)
  | "u16" => some (16, false)
  | "i32" => some (31, true)
  | "u32" => some (32, false)
  | "i64" => some (63, true)
  | "u64" => some (64, false)
  | _ => none

/-- the loop of `to_integer`: the hidden bit followed by the top `s` fraction bits, zeros once the `fb` fraction
    bits are used up — i.e. the significand `2^fb + frac` shifted right by `fb − s`, or left by `s − fb` -/
def intMagnitude (fb frac s : Nat) : Nat :=
  if s ≤ fb then (2 ^ fb + frac) >>> (fb - s) else (2 ^ fb + frac) <<< (s - fb)

/-- `to_integer<Int>()` (posit_impl.hpp, after the repair of D23): the integer part of the value from the DECODED FIELDS,
    no floating-point detour. `digits` = numeric_limits<Int>::digits, `sgn` = Int is a signed type. The result is the
    value of the returned Int object. `none` = NaR (the throwing build throws posit_nar, the quiet build still casts
    the NaN of to_double()/to_float()/to_long_double(), which is undefined; the harness never executes it). -/
def toInteger (n es digits : Nat) (sgn : Bool) (a : Nat) : Option Int :=
  let a := a % 2 ^ n
  if a = 0 then some 0                                  -- `if (iszero()) return 0;`
  else if a = 2 ^ (n - 1) then none
  else
    let v := decode n es a
    if v.scale < 0 then some 0                          -- `if (scale < 0) return 0;`
    else if v.scale ≥ (digits : Int) then               -- saturate: numeric_limits<Int>::min() / max()
      some (if v.sign then (if sgn then -((2 ^ digits : Nat) : Int) else 0) else ((2 ^ digits : Nat) : Int) - 1)
    else
      let mag := intMagnitude v.fb v.frac v.scale.toNat
      -- `Int integer = Int(magnitude); return (_sign ? Int(0 - integer) : integer);` — unsigned types wrap
      some (if v.sign then (if sgn then -(mag : Int) else ((2 ^ digits : Nat) : Int) - (mag : Int)) else (mag : Int))

/-- `to_short()` … `to_ulong_long()` = `to_integer<…>()` for the integer kinds of the harness -/
def toIntKind (n es : Nat) (kind : String) (a : Nat) : Option Int :=
  match intDigits kind with
  | some (digits, sgn) => toInteger n es digits sgn a
  | none => none

end UVerif.Posit
