/-
  UVerif.Model.PositConv — generic posit<nbits,es> conversions from / to the native types and the IEEE helpers they need.
  C++: posit_impl.hpp operator=(int … unsigned long long, float, double) → internal::value<fbits> → convert_;
       to_double / to_float / to_int … (posit_impl.hpp:1196-1235); value.hpp operator=(long long / unsigned long long).
  Core Lean only.
-/
import UVerif.Basic
import UVerif.Spec.Posit
import UVerif.Model.Posit

namespace UVerif.FP

/-- an IEEE-754 binary datum decoded exactly: value of `fin` is (-1)^neg · m · 2^e -/
inductive Num where
  | nan
  | inf (neg : Bool)
  | fin (neg : Bool) (m : Nat) (e : Int)
deriving Repr, DecidableEq

/-- decode the bit pattern of a binary format with `eb` exponent bits and `fb` fraction bits -/
def decode (eb fb bits : Nat) : Num :=
  let neg := bits.testBit (eb + fb)
  let E := (bits >>> fb) % 2 ^ eb
  let F := bits % 2 ^ fb
  let bias : Int := (2 ^ (eb - 1) - 1 : Nat)
  if E = 2 ^ eb - 1 then (if F = 0 then .inf neg else .nan)
  else if E = 0 then .fin neg F (1 - bias - fb)
  else .fin neg (2 ^ fb + F) ((E : Int) - bias - fb)

def Num.toRat : Num → Option Rat
  | .fin neg m e => some ((if neg then -1 else 1) * dyadic m e)
  | _ => none

/-- floor(log2 q) for q > 0 -/
def ratLog2 (q : Rat) : Int :=
  let a := q.num.toNat
  let b := q.den
  let e : Int := (a.log2 : Int) - (b.log2 : Int)
  if pow2 e ≤ q then e else e - 1

/-- magnitude bits (without sign) of the round-to-nearest-even image of x > 0 in the format (eb, fb); overflow → infinity -/
def encodeMag (eb fb : Nat) (x : Rat) : Nat :=
  let bias : Int := (2 ^ (eb - 1) - 1 : Nat)
  let emin : Int := 1 - bias
  let e := ratLog2 x
  let ee := if e < emin then emin else e
  let m := (rne (x / pow2 (ee - fb))).toNat          -- significand in ulps, hidden bit included when normal
  let bits := ((ee - emin).toNat <<< fb) + m
  let infBits := (2 ^ eb - 1) <<< fb
  if bits ≥ infBits then infBits else bits

/-- bits of RNE(x) in the format (eb, fb) -/
def encode (eb fb : Nat) (x : Rat) : Nat :=
  if x = 0 then 0
  else if x > 0 then encodeMag eb fb x
  else 2 ^ (eb + fb) + encodeMag eb fb (-x)

def f32 (x : Rat) : Nat := encode 8 23 x
def f64 (x : Rat) : Nat := encode 11 52 x

/-- exact value of an encoded finite magnitude (used to chain float → double → float conversions) -/
def valueOf (eb fb bits : Nat) : Option Rat := (decode eb fb bits).toRat

/-- C++ `(float)d` on bit patterns: double bits → float bits; `none` = NaN -/
def doubleToFloat (d : Nat) : Option Nat :=
  match decode 11 52 d with
  | .nan => none
  | .inf neg => some ((if neg then 2 ^ 31 else 0) + 0x7f800000)
  | .fin neg m e =>
    if m = 0 then some (if neg then 2 ^ 31 else 0)
    else some ((if neg then 2 ^ 31 else 0) + encodeMag 8 23 (dyadic m e))

/-- correctly rounded square root of x ≥ 0 in the format (eb, fb) (IEEE sqrt): bits -/
def sqrtBits (eb fb : Nat) (x : Rat) : Nat :=
  if x ≤ 0 then 0 else
  -- x = a / b ; choose an even shift s so that a·2^s / b has at least 2·(fb+3) integer bits, take the integer root with a sticky bit
  let a := x.num.toNat
  let b := x.den
  let want := 2 * (fb + 4) + b.log2 + 2
  let s0 := if a.log2 ≥ want then 0 else want - a.log2
  let s := if s0 % 2 = 0 then s0 else s0 + 1
  let num := a <<< s
  let q := num / b
  let r := Nat.sqrt q
  let exact := decide (r * r = q) && decide (num % b = 0)
  -- √x = (r + θ)·2^(-s/2), 0 ≤ θ < 1; θ = 0 iff exact. Represent as the rational r or r + 1/4 (any value strictly inside the
  -- open interval keeps the rounding because r has more than fb+3 bits, so no midpoint lies strictly between r and r+1)
  let v : Rat := ((r : Rat) + (if exact then 0 else 1 / 4)) * pow2 (-((s / 2 : Nat) : Int))
  encodeMag eb fb v

end UVerif.FP

namespace UVerif.Posit
open UVerif.FP

/-- `convert(value, posit)` for the exact non-zero real (-1)^sign · m · 2^e held by an `internal::value<fbits>` wide enough
    to hold it exactly (every integer and IEEE source type satisfies that) -/
def convertDyadic (n es : Nat) (sign : Bool) (m : Nat) (e : Int) : Nat :=
  if m = 0 then 0 else
  let fb := m.log2
  convert_ n es sign ((fb : Int) + e) fb (m - 2 ^ fb)

/-- posit::operator=(signed integer type) -/
def fromInt (n es : Nat) (x : Int) : Nat :=
  if x = 0 then 0 else convertDyadic n es (decide (x < 0)) x.natAbs 0

/-- posit::operator=(unsigned int / unsigned long / unsigned long long): value::operator=(unsigned long long)
    (since repo commit 55c92e8 `unsigned long` no longer detours through `long long`) -/
def fromUInt (n es : Nat) (x : Nat) : Nat := fromInt n es x

/-- posit::operator=(float|double) via convert_ieee754: bits of the source in format (eb, fb) -/
def fromFP (n es eb fb bits : Nat) : Nat :=
  match FP.decode eb fb bits with
  | .nan => 2 ^ (n - 1)
  | .inf _ => 2 ^ (n - 1)
  | .fin neg m e => convertDyadic n es neg m e

def fromFloat (n es bits : Nat) : Nat := fromFP n es 8 23 bits
def fromDouble (n es bits : Nat) : Nat := fromFP n es 11 52 bits

/-- posit::to_double(): s·r·e·f in binary64 — exact whenever fbits ≤ 52 and the scale is inside the double range (all
    configurations of this family); the model rounds the exact value to nearest-even, which is the identity there. `none` = NaN -/
def toDouble (n es a : Nat) : Option Nat := (positVal n es a).map f64
/-- posit::to_float() = (float)to_double() -/
def toFloat (n es a : Nat) : Option Nat := (positVal n es a).map f32

/-- posit::to_int() … to_ulong_long(): C++ truncation of the (exact) floating-point value; only called in range -/
def toIntTrunc (n es a : Nat) : Option Int := (positVal n es a).map truncZ

end UVerif.Posit
