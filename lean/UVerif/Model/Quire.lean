/-
  UVerif.Model.Quire — model of quire<nbits,es,capacity> (include/universal/number/posit/quire.hpp)
  and of fdp (fdp.hpp).  The accumulator is kept, as in the C++, as a sign and three bit segments
  lower | upper | capacity; add_value / subtract_value are modelled per segment with the explicit
  carry / borrow that ripples from one segment into the next.
-/
import UVerif.Basic
import UVerif.Model.Posit

namespace UVerif.Quire
open UVerif UVerif.Posit

/-- segment widths of a quire configuration -/
structure Layout where
  hr  : Nat      -- half_range = radix point = width of `_lower`
  cap : Nat      -- capacity bits
deriving Repr, DecidableEq

def Layout.ur (L : Layout) : Nat := L.hr + 1          -- upper_range
def Layout.tot (L : Layout) : Nat := L.hr + L.ur + L.cap  -- qbits + 1
def Layout.qbits (L : Layout) : Nat := 2 * L.hr + L.cap

def layoutOf (n es cap : Nat) : Layout := { hr := (2 ^ es * (4 * n - 8)) / 2, cap := cap }

structure QState where
  sign  : Bool := false
  lower : Nat := 0
  upper : Nat := 0
  capa  : Nat := 0
deriving Repr, DecidableEq

/-- magnitude in units of 2^-hr -/
def QState.mag (L : Layout) (q : QState) : Nat :=
  q.lower + 2 ^ L.hr * q.upper + 2 ^ (L.hr + L.ur) * q.capa

def QState.WF (L : Layout) (q : QState) : Prop :=
  q.lower < 2 ^ L.hr ∧ q.upper < 2 ^ L.ur ∧ q.capa < 2 ^ L.cap

/-- signed content in units of 2^-hr -/
def QState.toInt (L : Layout) (q : QState) : Int :=
  if q.sign then -(q.mag L : Int) else (q.mag L : Int)

/-- the bits of `v` as they land in the quire (`get_fixed_point` shifted to the radix point;
    bits below the quire's lsb are not visited by the loops). -/
def aligned (L : Layout) (fb frac : Nat) (scale : Int) : Nat :=
  let F := 2 ^ fb + frac
  let lsb : Int := (L.hr : Int) + scale - (fb : Int)
  if lsb ≥ 0 then F <<< lsb.toNat else F >>> (-lsb).toNat

/-- `add_value`: ripple-carry addition of an aligned magnitude through lower → upper → capacity. -/
def addMag (L : Layout) (q : QState) (A : Nat) : QState :=
  let aLow := A % 2 ^ L.hr
  let aUp  := (A / 2 ^ L.hr) % 2 ^ L.ur
  let s0 := q.lower + aLow
  let c0 := s0 / 2 ^ L.hr
  let s1 := q.upper + aUp + c0
  let c1 := s1 / 2 ^ L.ur
  let s2 := q.capa + c1
  { q with lower := s0 % 2 ^ L.hr, upper := s1 % 2 ^ L.ur, capa := s2 % 2 ^ L.cap }

/-- `subtract_value`: ripple-borrow subtraction. -/
def subMag (L : Layout) (q : QState) (A : Nat) : QState :=
  let aLow := A % 2 ^ L.hr
  let aUp  := (A / 2 ^ L.hr) % 2 ^ L.ur
  let b0 := if q.lower < aLow then 1 else 0
  let d0 := (q.lower + 2 ^ L.hr - aLow) % 2 ^ L.hr
  let b1 := if q.upper < aUp + b0 then 1 else 0
  let d1 := (q.upper + 2 ^ L.ur - aUp - b0) % 2 ^ L.ur
  let d2 := (q.capa + 2 ^ L.cap - b1) % 2 ^ L.cap
  { q with lower := d0, upper := d1, capa := d2 }

/-- `operator=(value)`: place the bits, clear the rest. -/
def assignMag (L : Layout) (sign : Bool) (A : Nat) : QState :=
  { sign := sign, lower := A % 2 ^ L.hr, upper := (A / 2 ^ L.hr) % 2 ^ L.ur, capa := 0 }

/-- `to_value()`: (scale, fraction on qbits bits) of the magnitude; zero flag when empty. -/
def toValue (L : Layout) (q : QState) : Val :=
  let M := q.mag L
  let qb := L.qbits
  if M = 0 then { sign := q.sign, scale := 0, frac := 0, fb := qb, zero := true }
  else
    let msb := M.log2
    { sign := q.sign, scale := (msb : Int) - L.hr, frac := (M - 2 ^ msb) <<< (qb - msb), fb := qb }

inductive QErr | tooLarge | tooSmall | nar
deriving Repr, DecidableEq

/-- the sign/magnitude dispatch of `quire::operator+=(value)` for a non-zero, in-range operand with
    sign `s` whose bits land in the quire as `A`. -/
def accumulate (L : Layout) (q : QState) (s : Bool) (A : Nat) : QState :=
  if q.sign = s then addMag L q A
  else
    let M := q.mag L
    if M < A then
      -- swap: subtractend := to_value(); *this = rhs; subtract_value(subtractend); sign := rhs.sign
      let sv := toValue L q
      let q' := assignMag L s A
      let S := if sv.zero then 0 else aligned L sv.fb sv.frac sv.scale
      { subMag L q' S with sign := s }
    else if M > A then subMag L q A
    else { subMag L q A with sign := false }

/-- `quire::operator+=(value)` -/
def addValue (L : Layout) (q : QState) (v : Val) : Except QErr QState :=
  if v.zero then .ok q
  else if v.scale > (L.hr : Int) then .error .tooLarge
  else if v.scale < -(L.hr : Int) then .error .tooSmall
  else .ok (accumulate L q v.sign (aligned L v.fb v.frac v.scale))

def negVal (v : Val) : Val := { v with sign := !v.sign }

/-- one accumulation step as the harness performs it -/
inductive Op
  | addP (a : Nat) | subP (a : Nat)            -- q += p ; q -= p
  | addM (a b : Nat) | subM (a b : Nat)        -- q += quire_mul(a,b) ; q -= quire_mul(a,b)
deriving Repr, DecidableEq

/-- `quire_mul` -/
def quireMul (n es a b : Nat) : Val :=
  let fb := fbitsOf n es
  let mb := 2 * (fb + 1)
  if isNaR n a || isNaR n b then { fb := mb, inf := true }
  else if a % 2 ^ n = 0 || b % 2 ^ n = 0 then { fb := mb, zero := true }
  else moduleMul fb (decode n es a) (decode n es b)

def opValue (n es : Nat) : Op → Val
  | .addP a => decode n es a
  | .subP a => negVal (decode n es a)
  | .addM a b => quireMul n es a b
  | .subM a b => negVal (quireMul n es a b)

def step (n es : Nat) (L : Layout) (q : QState) (op : Op) : Except QErr QState :=
  let v := opValue n es op
  if v.inf then .error .nar else addValue L q v

/-- quire += quire (through `to_value`) -/
def addQuire (L : Layout) (q r : QState) : Except QErr QState := addValue L q (toValue L r)

/-- the single rounding: convert(q.to_value(), posit) -/
def roundToPosit (n es : Nat) (L : Layout) (q : QState) : Nat := Posit.convert n es (toValue L q)

/-- fdp: fold of quire_mul accumulations followed by one rounding -/
def fdp (n es cap : Nat) (xs : List (Nat × Nat)) : Except QErr Nat :=
  let L := layoutOf n es cap
  (xs.foldlM (fun q (ab : Nat × Nat) => step n es L q (.addM ab.1 ab.2)) ({} : QState)).map (roundToPosit n es L)

end UVerif.Quire
