/-
  UVerif.Model.Sqrt — models of the sqrt routines (property C17, and the sqrt column of C11):
    posit/math/sqrt.hpp       table look-ups for <3,0> <3,1> <4,0> <5,0> <8,0> <8,1> (both builds), the generic fallback
                              posit(std::sqrt(double(a))), the fast specialisations for <8,2> <16,1> <16,2> <32,2>
    fixpnt/math/sqrt.hpp      fixpnt(std::sqrt(double(a)))  with fixpnt::convert(double) (round-half-even on guard/round/sticky)
    integer/math/sqrt.hpp     floor_sqrt: binary search with divisions
  Core Lean only.
-/
import UVerif.Basic
import UVerif.Spec.Posit
import UVerif.Model.Posit
import UVerif.Model.PositConvFP
import UVerif.Model.FastPosit
import UVerif.Generated.FastTables

namespace UVerif.Sqrt
open UVerif UVerif.Posit UVerif.FP UVerif.Fast UVerif.Generated

/-- the sqrt look-up table that sqrt.hpp specialises for this configuration (in every build) -/
def rootsTable (n es : Nat) : Option (Array Nat) :=
  match n, es with
  | 3, 0 => some posit_3_0_roots
  | 3, 1 => some posit_3_1_roots
  | 4, 0 => some posit_4_0_roots
  | 5, 0 => some posit_5_0_roots
  | 8, 0 => some posit_8_0_roots
  | 8, 1 => some posit_8_1_roots
  | _, _ => none

/-- binary64 bits of std::sqrt(double(a)) for a finite non-negative posit value -/
def sqrtDoubleOfVal (x : Rat) : Nat := sqrtBits 11 52 x

/-- sqrt(posit<n,es>) as compiled WITHOUT any fast macro -/
def positSqrtGeneric (n es a : Nat) : Nat :=
  let a := a % 2 ^ n
  let nar := 2 ^ (n - 1)
  match rootsTable n es with
  | some t => if a ≥ nar then nar else (tab t a) % 2 ^ n          -- a.isneg() || a.isnar() → NaR ; root = table[a.bits()]
  | none =>
    if a.testBit (n - 1) then nar                                  -- a.sign()
    else match positVal n es a with
      | some x => if x = 0 then 0 else fromDouble n es (sqrtDoubleOfVal x)
      | none => nar

/-- sqrt(posit<n,es>) as compiled with POSIT_FAST_SPECIALIZATION -/
def positSqrtFast (n es a : Nat) : Nat :=
  let a := a % 2 ^ n
  match n, es with
  | 16, 1 => sqrt_16_1 a
  | 32, 2 => sqrt_32_2 a
  | 8, 2 =>
    -- generic template on the fast class: posit<8,2>(std::sqrt((double)a)) → operator=(double) → float_assign(float(rhs))
    if a.testBit 7 then 0x80
    else match positVal 8 2 a with
      | some x =>
        if x = 0 then 0
        else match doubleToFloat (sqrtDoubleOfVal x) with
          | some f => floatAssign_8_2 f
          | none => 0x80
      | none => 0x80
  | _, _ => positSqrtGeneric n es a

/-! ### fixpnt -/

/-- fixpnt<n,rb,Modulo,bt>::convert(double) on the binary64 pattern `d` (fixpnt_impl.hpp:690-760) -/
def fixFromDouble (n rb d : Nat) : Nat :=
  match FP.decode 11 52 d with
  | .fin neg m e =>
    if m = 0 then 0 else
    let sr : Int := if -(e + rb) < 64 then -(e + rb) else 64      -- shiftRight = min(radixPoint - rbits, 64)
    if sr > 53 then 0
    else if sr > 0 then
      let k := sr.toNat
      let guard := m.testBit (k - 1)
      let round := decide (k ≥ 2) && m.testBit (k - 2)
      let sticky := decide (k ≥ 3) && decide (m % 2 ^ (k - 2) ≠ 0)
      let q0 := m >>> k
      let lsb := q0 % 2 == 1
      let q1 := if guard then q0 + (if lsb && !round && !sticky then 1 else 0) + (if round || sticky then 1 else 0) else q0
      let q2 := if neg then negW 64 q1 else q1
      q2 % 2 ^ n
    else
      let sl := (-sr).toNat
      let q := (m <<< sl) % 2 ^ n
      if neg then twosComp n q else q
  | _ => 0

/-- sqrt(fixpnt<n,rb>) when FIXPNT_NATIVE_SQRT is 0: fixpnt(std::sqrt((double)a)); (double)a is exact for n ≤ 53.
    (NOT what a default build runs: fixpnt.hpp defines FIXPNT_NATIVE_SQRT 1 — see `fixSqrt`.) -/
def fixSqrtViaDouble (n rb a : Nat) : Nat :=
  let x : Rat := dyadic (toSigned n a) (-(rb : Int))
  if x ≤ 0 then 0 else fixFromDouble n rb (sqrtDoubleOfVal x)

/-- blockbinary::roundingMode(targetLsb) on a bit pattern -/
def roundingMode (c lsbPos : Nat) : Bool :=
  let lsb := c.testBit lsbPos
  let guard := decide (lsbPos ≥ 1) && c.testBit (lsbPos - 1)
  let round := decide (lsbPos ≥ 2) && c.testBit (lsbPos - 2)
  let sticky := decide (lsbPos ≥ 3) && decide (c % 2 ^ (lsbPos - 2) ≠ 0)
  let tie := guard && !round && !sticky
  (lsb && tie) || (guard && !tie)

/-- fixpnt<n,rb,Modulo>::operator*= : exact 2n-bit product, round-half-even at rbits, low n bits -/
def fxMul (n rb a b : Nat) : Nat :=
  let c := ofSigned (2 * n) (toSigned n a * toSigned n b)
  let up := roundingMode c rb
  let sh := ofSigned (2 * n) ((toSigned (2 * n) c).fdiv (2 ^ rb : Nat))     -- c >>= rbits (arithmetic)
  (if up then sh + 1 else sh) % 2 ^ n

/-- fixpnt<n,rb,Modulo>::operator/= : |a|·2^(rb+n) / |b| truncated, round-half-even on the n extra bits (no remainder
    sticky), sign restored by two's complement, low n bits. Division by zero is not modelled (callers guard). -/
def fxDiv (n rb a b : Nat) : Nat :=
  let sa := toSigned n a; let sb := toSigned n b
  let positive := decide (sa < 0) == decide (sb < 0)
  let q := (sa.natAbs * 2 ^ (rb + n)) / sb.natAbs
  let up := roundingMode q n
  let q1 := (q >>> n) + (if up then 1 else 0)
  let w := 2 * n + 2 * rb + 2 * n
  (if positive then q1 else twosComp w q1) % 2 ^ n

def fxAdd (n a b : Nat) : Nat := (a + b) % 2 ^ n
def fxSub (n a b : Nat) : Nat := (a + twosComp n b) % 2 ^ n
def fxShr1 (n a : Nat) : Nat := ofSigned n ((toSigned n a).fdiv 2)
def fxAbs (n a : Nat) : Nat := if toSigned n a < 0 then twosComp n a else a % 2 ^ n
def fxGt (n a b : Nat) : Bool := toSigned n a > toSigned n b

/-- the loop of the native fixpnt sqrt (fixpnt/math/sqrt.hpp:126-140): state (x, y, diff, iterations) -/
def fixSqrtLoop (n rb a : Nat) : Nat → Nat → Nat → Nat → Nat → Nat
  | 0, x, _, _, _ => x
  | fuel + 1, x, y, diff, it =>
    if fxGt n (fxAbs n diff) 1 then
      let x1 := fxShr1 n (fxAdd n x y)
      if x1 = 0 then x1 else           -- a / 0: not reached on the explored inputs; the model stops here
      let y1 := fxDiv n rb a x1
      let d1 := fxSub n x1 y1
      if it + 1 > rb then x1 else fixSqrtLoop n rb a fuel x1 y1 d1 (it + 1)
    else x

/-- sqrt(fixpnt<n,rb,Modulo,bt>) as compiled by default (FIXPNT_NATIVE_SQRT = 1), non-negative argument -/
def fixSqrt (n rb a : Nat) : Nat :=
  let a := a % 2 ^ n
  let x0 := fxShr1 n a
  let d0 := fxSub n (fxMul n rb x0 x0) a
  fixSqrtLoop n rb a (rb + 2) x0 a d0 0

/-! ### integer -/

/-- the loop of floor_sqrt (integer/math/sqrt.hpp:45-58) on naturals: (start, end, root) ↦ result -/
def floorSqrtLoop (a : Nat) : Nat → Nat → Nat → Nat → Nat
  | 0, _, _, root => root
  | fuel + 1, start, stop, root =>
    if start ≤ stop then
      let mid := start + (stop - start) / 2
      let q := a / mid
      if mid = q then mid
      else if mid < q then floorSqrtLoop a fuel (mid + 1) stop mid
      else floorSqrtLoop a fuel start (mid - 1) root
    else root

/-- sqrt(integer<nbits>) for a non-negative value a -/
def intSqrt (a : Nat) : Nat := if a ≤ 1 then a else floorSqrtLoop a (a + 1) 1 a 0

end UVerif.Sqrt
