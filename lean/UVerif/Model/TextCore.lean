/-
  UVerif.Model.TextCore — character / digit-list helpers shared by the C16 text models.
  Core Lean only.  Every function is structurally recursive (or fuelled) so that the kernel can
  evaluate it (`decide`) and induction principles are the obvious ones.
-/
namespace UVerif.Text

/-! ### characters -/

/-- decimal digit `d < 10` as a character (`'0' + d`, the `ss << (int)digit` of the C++). -/
def digitChar (d : Nat) : Char := Char.ofNat (48 + d)

/-- `"0123456789abcdef"[d]` (bitblock `to_hex`). -/
def hexLowerChar (d : Nat) : Char := if d < 10 then Char.ofNat (48 + d) else Char.ofNat (87 + d)

/-- `"0123456789ABCDEF"[d]` (integer `to_hex`). -/
def hexUpperChar (d : Nat) : Char := if d < 10 then Char.ofNat (48 + d) else Char.ofNat (55 + d)

def isDigit (c : Char) : Bool := 48 ≤ c.toNat && c.toNat ≤ 57

def digitVal (c : Char) : Nat := c.toNat - 48

/-- value of a hexadecimal digit character, either case (`charLookup` of the parsers, `std::hex` extraction). -/
def hexVal? (c : Char) : Option Nat :=
  let n := c.toNat
  if 48 ≤ n ∧ n ≤ 57 then some (n - 48)
  else if 97 ≤ n ∧ n ≤ 102 then some (n - 87)
  else if 65 ≤ n ∧ n ≤ 70 then some (n - 55)
  else none

def isHexDigit (c : Char) : Bool := (hexVal? c).isSome

/-- `\w` of ECMAScript regexes in the "C" locale: `[A-Za-z0-9_]`. -/
def isWord (c : Char) : Bool :=
  let n := c.toNat
  (48 ≤ n && n ≤ 57) || (65 ≤ n && n ≤ 90) || (97 ≤ n && n ≤ 122) || n == 95

def bitChar (b : Bool) : Char := if b then '1' else '0'

/-! ### bit strings -/

/-- the characters of bits `lo+k-1 … lo` of `v`, most significant first
    (`for (i = k-1; i >= 0; --i) s << (at(lo+i) ? '1' : '0')`). -/
def bitCharsFrom (v lo : Nat) : Nat → List Char
  | 0 => []
  | k + 1 => bitChar (v.testBit (lo + k)) :: bitCharsFrom v lo k

/-- `setbit(i, b)` of the block types: clear bit `i`, then or the new bit in. -/
def setBit (v i : Nat) (b : Bool) : Nat :=
  v - (if v.testBit i then 2 ^ i else 0) + (if b then 2 ^ i else 0)

/-! ### decimal digit lists -/

/-- value of a little-endian list of decimal digits. -/
def decVal : List Nat → Nat
  | [] => 0
  | d :: ds => d + 10 * decVal ds

/-- value of a most-significant-first list of digits in base `b`. -/
def digitsToNatBase (b : Nat) (acc : Nat) : List Nat → Nat
  | [] => acc
  | d :: ds => digitsToNatBase b (acc * b + d) ds

/-- value of a most-significant-first decimal digit list. -/
def digitsToNat (l : List Nat) : Nat := digitsToNatBase 10 0 l

/-- little-endian decimal digits of `n`, `[]` for zero; `fuel` bounds the number of digits. -/
def natDigitsLEAux : Nat → Nat → List Nat
  | 0, _ => []
  | fuel + 1, n => if n = 0 then [] else (n % 10) :: natDigitsLEAux fuel (n / 10)

def natDigitsLE (n : Nat) : List Nat := natDigitsLEAux n n

/-- decimal digits of `n`, most significant first, `[0]` for zero — what `ostream << unsigned` prints. -/
def natDigits (n : Nat) : List Nat := if n = 0 then [0] else (natDigitsLE n).reverse

def natToDec (n : Nat) : List Char := (natDigits n).map digitChar

/-- the exact decimal expansion of an integer: `-` for negatives, then the digits without leading zeros. -/
def intToDec (x : Int) : List Char := (if x < 0 then ['-'] else []) ++ natToDec x.natAbs

/-- little-endian decimal digits as a normalised `support::decimal` (one `0` digit for zero). -/
def decOfNat (n : Nat) : List Nat := if n = 0 then [0] else natDigitsLE n

/-- unsigned decimal value of a string of digits (no check). -/
def decStrVal (s : List Char) : Nat := digitsToNat (s.map digitVal)

/-- hexadecimal value of a string of hex digits, `none` if a character is no hex digit. -/
def hexStrVal? : List Char → Nat → Option Nat
  | [], acc => some acc
  | c :: cs, acc => match hexVal? c with
    | some d => hexStrVal? cs (acc * 16 + d)
    | none => none

/-- the `k` hexadecimal digits of `v` (nibbles `k-1 … 0`), most significant first. -/
def hexDigits (v : Nat) : Nat → List Nat
  | 0 => []
  | k + 1 => (v / 16 ^ k % 16) :: hexDigits v k

/-- drop leading `'0'` characters (`find_first_not_of('0')` + `erase`). -/
def stripZeros : List Char → List Char
  | [] => []
  | c :: cs => if c = '0' then stripZeros cs else c :: cs

def allB (p : Char → Bool) : List Char → Bool
  | [] => true
  | c :: cs => p c && allB p cs

/-- strip a maximal prefix of `+`/`-` characters (`[-+]*` of the regexes). -/
def dropSigns : List Char → List Char
  | [] => []
  | c :: cs => if c = '-' ∨ c = '+' then dropSigns cs else c :: cs

end UVerif.Text
